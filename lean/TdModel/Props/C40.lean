/-
C40 — RPC errors are parsed into type and argument consistently; flood-wait errors of either kind
make the client wait (argument + 1) seconds.

Property theorems only (helper lemmas: TdModel/Lemmas/C40.lean).  Model: TdModel/Model/C40.lean
(transliteration of tgerr.New/extractArgument, AsFloodWait, FloodWait on the UTF-8 bytes).
-/
import TdModel.Lemmas.C40

namespace TdModel.C40
open TdModel

/-! ## Facts regenerated from /repo/tgerr and /repo/ascii -/

/-- The separator is `_` for both Split and Join, the two flood-wait types are `FLOOD_WAIT` and
`FLOOD_PREMIUM_WAIT`, and `FloodWaitErrors` lists exactly these two. -/
theorem facts_tgerr :
    Facts.C40.sepByte = 95 ∧
    Facts.C40.errFloodWait = [70, 76, 79, 79, 68, 95, 87, 65, 73, 84] ∧
    Facts.C40.errPremiumFloodWait = [70, 76, 79, 79, 68, 95, 80, 82, 69, 77, 73, 85, 77, 95, 87, 65, 73, 84] ∧
    Facts.C40.floodWaitErrors = [Facts.C40.errFloodWait, Facts.C40.errPremiumFloodWait] := by decide

/-- The expressions *translated from the source* that the model computes with: the `len(parts)`
guard of `extractArgument` fires below 2 parts; `AsFloodWait`'s duration is one second (10⁹ ns) per
unit of the argument; `FloodWait` adds a one-second margin to it. -/
theorem facts_translated :
    (∀ n : Int, Facts.C40.tooFewParts n = true ↔ n < 2) ∧
    (∀ a : Int, Facts.C40.floodDuration a = a * 1000000000) ∧
    (∀ d : Int, Facts.C40.floodTimerArg d = d + 1000000000) := by
  refine ⟨?_, ?_, ?_⟩
  · intro n; simp [Facts.C40.tooFewParts]
  · intro a; rw [floodDuration_eq]; omega
  · intro d; exact floodTimerArg_eq d

/-- The translated `ascii.IsDigit` accepts exactly the bytes '0'..'9'. -/
theorem facts_isDigit (c : UInt8) : isDigit c = true ↔ 48 ≤ c.toNat ∧ c.toNat ≤ 57 := isDigit_iff c

/-! ## Split / Join -/

/-- `Split(Join(parts, "_"), "_") = parts` for any non-empty list of separator-free parts. -/
theorem split_join (parts : List Bytes) (hne : parts ≠ []) (h : ∀ p ∈ parts, ∀ c ∈ p, c ≠ 95) :
    splitUs (joinUs parts) = parts := splitUs_joinUs parts hne h

/-- `Join(Split(s, "_"), "_") = s` for every string. -/
theorem join_split (s : Bytes) : joinUs (splitUs s) = s := joinUs_splitUs s

/-! ## The specification: words + one numeric argument at any position -/

/-- **parse_spec.**  `words`: a non-empty list of words, none containing `_`, each containing at
least one non-digit (so words with digits such as `2FA`, `MD5` are covered).  `ds`: a non-empty
string of decimal digits (leading zeros allowed) whose value fits an int.  For every position `k`
the message `Join(words with ds inserted at k)` parses to Type = `Join(words)` — the message with
the numeric part removed — and Argument = the value of `ds`. -/
theorem parse_spec (words : List Bytes) (ds : Bytes) (k : Nat)
    (hne : words ≠ [])
    (hsep : ∀ w ∈ words, ∀ c ∈ w, c ≠ 95)
    (hnd : ∀ w ∈ words, ∃ c ∈ w, ¬ (48 ≤ c.toNat ∧ c.toNat ≤ 57))
    (hds : ds ≠ []) (hdig : ∀ c ∈ ds, 48 ≤ c.toNat ∧ c.toNat ≤ 57) (hfit : digitsVal ds < 2 ^ 63) :
    parse (joinUs (insertAt k ds words)) = ⟨joinUs words, digitsVal ds⟩ := by
  have hnum : IsNumber ds := ⟨hds, fun c hc => (isDigit_iff c).mpr (hdig c hc), hfit⟩
  have hwn : ∀ w ∈ words, hasNonDigit w := by
    intro w hw
    obtain ⟨c, hc, hn⟩ := hnd w hw
    refine ⟨c, hc, ?_⟩
    cases hd : isDigit c with
    | false => rfl
    | true => exact absurd ((isDigit_iff c).mp hd) hn
  have hparts : ∀ p ∈ insertAt k ds words, noSep p := by
    intro p hp
    rcases mem_insertAt hp with rfl | hp
    · exact noSep_of_digits _ hnum.digits
    · exact hsep p hp
  have hlen : 2 ≤ (insertAt k ds words).length := by
    rw [insertAt_length]
    cases words with
    | nil => exact absurd rfl hne
    | cons _ _ => simp
  have hsplit := splitUs_joinUs (insertAt k ds words) (insertAt_ne_nil k ds words) hparts
  rw [parse_of_split hsplit hlen (joinUs_ne_nil_of_two _ hlen), scan_insertAt words ds k hwn hnum]

/-- The same with the argument written as the canonical decimal numeral of `n` (`strconv.Itoa`):
the parsed argument is that number. -/
theorem parse_spec_decimal (words : List Bytes) (n k : Nat) (hne : words ≠ [])
    (hsep : ∀ w ∈ words, ∀ c ∈ w, c ≠ 95)
    (hnd : ∀ w ∈ words, ∃ c ∈ w, ¬ (48 ≤ c.toNat ∧ c.toNat ≤ 57)) (hn : n < 2 ^ 63) :
    parse (joinUs (insertAt k (decimal n) words)) = ⟨joinUs words, n⟩ := by
  obtain ⟨h1, h2, h3⟩ := decimal_spec n
  have := parse_spec words (decimal n) k hne hsep hnd h2
    (fun c hc => (isDigit_iff c).mp (h3 c hc)) (by rw [h1]; exact hn)
  rw [h1] at this
  exact this

/-- Leading zeros are ignored: `FLOOD_WAIT_007` has argument 7. -/
theorem parse_spec_leading_zeros (words : List Bytes) (n k z : Nat) (hne : words ≠ [])
    (hsep : ∀ w ∈ words, ∀ c ∈ w, c ≠ 95)
    (hnd : ∀ w ∈ words, ∃ c ∈ w, ¬ (48 ≤ c.toNat ∧ c.toNat ≤ 57)) (hn : n < 2 ^ 63) :
    parse (joinUs (insertAt k (List.replicate z 48 ++ decimal n) words)) = ⟨joinUs words, n⟩ := by
  obtain ⟨h1, h2, h3⟩ := decimal_spec n
  have hv : digitsVal (List.replicate z 48 ++ decimal n) = n := by rw [digitsVal_zeros, h1]
  have := parse_spec words (List.replicate z 48 ++ decimal n) k hne hsep hnd (by simp [h2])
    (by
      intro c hc
      simp only [List.mem_append, List.mem_replicate] at hc
      rcases hc with ⟨_, rfl⟩ | hc
      · decide
      · exact (isDigit_iff c).mp (h3 c hc))
    (by rw [hv]; exact hn)
  rw [hv] at this
  exact this

/-- A message without numeric part (≥ 1 word): Type is the whole message, Argument 0. -/
theorem parse_words_only (words : List Bytes) (hne : words ≠ [])
    (hsep : ∀ w ∈ words, ∀ c ∈ w, c ≠ 95)
    (hnd : ∀ w ∈ words, ∃ c ∈ w, ¬ (48 ≤ c.toNat ∧ c.toNat ≤ 57)) :
    parse (joinUs words) = ⟨joinUs words, 0⟩ := by
  have hwn : ∀ w ∈ words, hasNonDigit w := by
    intro w hw
    obtain ⟨c, hc, hn⟩ := hnd w hw
    refine ⟨c, hc, ?_⟩
    cases hd : isDigit c with
    | false => rfl
    | true => exact absurd ((isDigit_iff c).mp hd) hn
  have hsplit := splitUs_joinUs words hne hsep
  by_cases hl : 2 ≤ words.length
  · rw [parse_of_split hsplit hl (joinUs_ne_nil_of_two _ hl), scan_words words [] 0 hwn]
    simp
  · match words, hne, hl with
    | [w], _, _ =>
      obtain ⟨c, hc, _⟩ := hnd w (by simp)
      have hw : w ≠ [] := by intro h; rw [h] at hc; simp at hc
      unfold parse
      have h1 : (joinUs [w]).isEmpty = false := by
        simp only [joinUs]
        cases w with
        | nil => exact absurd rfl hw
        | cons _ _ => rfl
      simp only [h1, hsplit]
      rfl
    | _ :: _ :: _, _, hl => simp at hl

/-! ## Flood wait -/

/-- **floodWait_duration.**  For both flood-wait types and every argument `n` for which
(n + 1) seconds is representable as a `time.Duration` (n ≤ 9 223 372 035), `FloodWait` asks the
clock to wait exactly (n + 1)·10⁹ ns: the server's seconds plus the one-second safety margin;
it reports `true` when the timer fires and the context error when the context ends first. -/
theorem floodWait_duration (n : Nat) (hn : n ≤ 9223372035) (ty : Bytes)
    (hty : ty = [70, 76, 79, 79, 68, 95, 87, 65, 73, 84] ∨
           ty = [70, 76, 79, 79, 68, 95, 80, 82, 69, 77, 73, 85, 77, 95, 87, 65, 73, 84]) :
    asFloodWait ⟨ty, n⟩ = some ((n : Int) * 1000000000) ∧
    floodTimer ⟨ty, n⟩ = some (((n : Int) + 1) * 1000000000) ∧
    floodWait ⟨ty, n⟩ false = .waited ∧ floodWait ⟨ty, n⟩ true = .cancelled := by
  have hc : floodTypes.contains ty = true := by
    rcases hty with rfl | rfl <;> decide
  have h1 : asFloodWait ⟨ty, n⟩ = some ((n : Int) * 1000000000) := by
    unfold asFloodWait
    simp only [hc, if_true]
    rw [floodDuration_eq, wrap64_id _ (by omega)]
    have : (1000000000 : Int) * (n : Int) = (n : Int) * 1000000000 := by omega
    rw [this]
  have h2 : floodTimer ⟨ty, n⟩ = some (((n : Int) + 1) * 1000000000) := by
    unfold floodTimer
    rw [h1]
    simp only [floodTimerArg_eq]
    rw [wrap64_id _ (by omega)]
    have : (n : Int) * 1000000000 + 1000000000 = ((n : Int) + 1) * 1000000000 := by omega
    rw [this]
  refine ⟨h1, h2, ?_, ?_⟩
  · unfold floodWait; rw [h2]; rfl
  · unfold floodWait; rw [h2]; rfl

/-- End to end: the message `FLOOD_WAIT_<n>` / `FLOOD_PREMIUM_WAIT_<n>` as sent by the server makes
the client wait (n + 1) seconds. -/
theorem floodWait_message (n : Nat) (hn : n ≤ 9223372035) :
    floodTimer (parse (joinUs [[70, 76, 79, 79, 68], [87, 65, 73, 84], decimal n]))
      = some (((n : Int) + 1) * 1000000000) ∧
    floodTimer (parse (joinUs [[70, 76, 79, 79, 68], [80, 82, 69, 77, 73, 85, 77], [87, 65, 73, 84], decimal n]))
      = some (((n : Int) + 1) * 1000000000) := by
  have hn' : n < 2 ^ 63 := by omega
  constructor
  · have := parse_spec_decimal [[70, 76, 79, 79, 68], [87, 65, 73, 84]] n 2 (by simp) (by decide) (by decide) hn'
    simp only [insertAt, List.take, List.drop, List.cons_append, List.nil_append] at this
    rw [this]
    exact (floodWait_duration n hn _ (Or.inl (by decide))).2.1
  · have := parse_spec_decimal [[70, 76, 79, 79, 68], [80, 82, 69, 77, 73, 85, 77], [87, 65, 73, 84]] n 3 (by simp)
      (by decide) (by decide) hn'
    simp only [insertAt, List.take, List.drop, List.cons_append, List.nil_append] at this
    rw [this]
    exact (floodWait_duration n hn _ (Or.inr (by decide))).2.1

/-- An error of any other type does not wait. -/
theorem floodWait_other_type (e : Parsed)
    (h1 : e.type ≠ [70, 76, 79, 79, 68, 95, 87, 65, 73, 84])
    (h2 : e.type ≠ [70, 76, 79, 79, 68, 95, 80, 82, 69, 77, 73, 85, 77, 95, 87, 65, 73, 84]) (c : Bool) :
    floodWait e c = .notFlood := by
  have hc : floodTypes.contains e.type = false := by
    show ([Facts.C40.errFloodWait, Facts.C40.errPremiumFloodWait] : List Bytes).contains e.type = false
    simp only [List.contains_cons, List.contains_nil, Bool.or_false, Bool.or_eq_false_iff, beq_eq_false_iff_ne]
    exact ⟨h1, h2⟩
  unfold floodWait floodTimer asFloodWait
  rw [hc]
  rfl

/-- The representable range is sharp: from n = 9 223 372 036 on, (n + 1) s does not fit
`time.Duration` (int64 nanoseconds) and what the code hands to the clock is *not* (n + 1) s —
the product wraps around.  (Observation about the code, outside the property's quantifier: the
server never sends such arguments.) -/
theorem floodWait_overflow_range (n : Nat) (hn : 9223372036 ≤ n) (ty : Bytes) :
    floodTimer ⟨ty, n⟩ ≠ some (((n : Int) + 1) * 1000000000) := by
  unfold floodTimer
  cases asFloodWait ⟨ty, n⟩ with
  | none => simp
  | some d =>
    simp only
    intro h
    injection h with h
    have := (wrap64_range (Facts.C40.floodTimerArg d)).2
    rw [h] at this
    omega

/-- `FloodWait`'s `select` with both channels possibly ready: the call reports `true` only if the
timer fired, the context error only if the context is done, blocks iff neither is ready, and when
both are ready either result is possible. -/
theorem floodWait_select (e : Parsed) (d : Int) (hf : floodTimer e = some d) (t c : Bool) :
    (WaitResult.waited ∈ floodWaitOutcomes e t c ↔ t = true) ∧
    (WaitResult.cancelled ∈ floodWaitOutcomes e t c ↔ c = true) ∧
    (floodWaitOutcomes e t c = [] ↔ (t = false ∧ c = false)) ∧
    WaitResult.notFlood ∉ floodWaitOutcomes e t c := by
  unfold floodWaitOutcomes
  rw [hf]
  cases t <;> cases c <;> simp

/-- A non-flood error never waits, whatever is ready. -/
theorem floodWait_select_other (e : Parsed) (hf : floodTimer e = none) (t c : Bool) :
    floodWaitOutcomes e t c = [.notFlood] := by
  unfold floodWaitOutcomes; rw [hf]

/-! ## Matching helpers (`As`, `AsType`, `Is`, `IsCode`) -/

/-- `Is` / `IsOneOf` / `IsCode` / `AsType` decide by the parsed Type (resp. Code) of the first
`*Error` of the chain; with no `*Error` in the chain (or a nil error) they are false / none. -/
theorem matching_spec (e : RpcErr) (t : Bytes) (tt : List Bytes) (codes : List Int) :
    (isOneOf (some e) tt = true ↔ e.type ∈ tt) ∧ isOneOf none tt = false ∧
    (isCode (some e) codes = true ↔ e.code ∈ codes) ∧ isCode none codes = false ∧
    (asType (some e) t = some e ↔ e.type = t) ∧ (asType (some e) t = none ↔ e.type ≠ t) ∧
    asType none t = none ∧ asErr (some e) = some e := by
  refine ⟨?_, rfl, ?_, rfl, ?_, ?_, rfl, rfl⟩
  · simp only [isOneOf, List.any_eq_true, decide_eq_true_eq]
    constructor
    · rintro ⟨x, hx, rfl⟩; exact hx
    · intro h; exact ⟨_, h, rfl⟩
  · simp only [isCode, List.any_eq_true, decide_eq_true_eq]
    constructor
    · rintro ⟨x, hx, rfl⟩; exact hx
    · intro h; exact ⟨_, h, rfl⟩
  · unfold asType; split <;> simp_all
  · unfold asType; split <;> simp_all

/-- End to end: an error built by `New` from a specification message matches exactly its Type
(the message without the numeric part), and `AsFloodWait` on a chain agrees with the parsed fields. -/
theorem matching_of_new (code : Int) (words : List Bytes) (n k : Nat) (hne : words ≠ [])
    (hsep : ∀ w ∈ words, ∀ c ∈ w, c ≠ 95)
    (hnd : ∀ w ∈ words, ∃ c ∈ w, ¬ (48 ≤ c.toNat ∧ c.toNat ≤ 57)) (hn : n < 2 ^ 63) (t : Bytes) :
    let e := newErr code (joinUs (insertAt k (decimal n) words))
    e.type = joinUs words ∧ e.arg = n ∧ e.code = code ∧
    (isOneOf (some e) [t] = true ↔ joinUs words = t) ∧
    asFloodWaitErr (some e) = asFloodWait ⟨joinUs words, n⟩ := by
  have hp := parse_spec_decimal words n k hne hsep hnd hn
  simp [newErr, hp, isOneOf, asFloodWaitErr]

/-! ## Non-vacuity -/

-- "FLOOD_WAIT_3" → (FLOOD_WAIT, 3), timer 4 s
example : parse [70, 76, 79, 79, 68, 95, 87, 65, 73, 84, 95, 51] = ⟨[70, 76, 79, 79, 68, 95, 87, 65, 73, 84], 3⟩ := by decide
example : floodTimer (parse [70, 76, 79, 79, 68, 95, 87, 65, 73, 84, 95, 51]) = some 4000000000 := by decide
-- "FILE_MIGRATE_2" built as in the theorem
example : joinUs (insertAt 2 [50] [[70, 73, 76, 69], [77, 73, 71, 82, 65, 84, 69]])
    = [70, 73, 76, 69, 95, 77, 73, 71, 82, 65, 84, 69, 95, 50] := by decide
-- "2FA_CONFIRM_WAIT_5": a word with a digit is kept
example : parse [50, 70, 65, 95, 67, 95, 53] = ⟨[50, 70, 65, 95, 67], 5⟩ := by decide
-- New(420, "FLOOD_WAIT_3") is a FLOOD_WAIT, not a FLOOD_PREMIUM_WAIT; Error() text
example : isOneOf (some (newErr 420 [70, 76, 79, 79, 68, 95, 87, 65, 73, 84, 95, 51])) [Facts.C40.errFloodWait] = true := by decide
example : isOneOf (some (newErr 420 [70, 76, 79, 79, 68, 95, 87, 65, 73, 84, 95, 51])) [Facts.C40.errPremiumFloodWait] = false := by decide
example : floodWaitOutcomes ⟨Facts.C40.errFloodWait, 3⟩ true true = [.waited, .cancelled] := by decide
-- an empty part stops the scan: Type stays the whole message ("A__5")
example : parse [65, 95, 95, 53] = ⟨[65, 95, 95, 53], 0⟩ := by decide

end TdModel.C40
