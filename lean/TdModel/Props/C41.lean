/-
C41 — the client only uses valid server salts and retries once on a bad salt.
Property theorems only (helper lemmas live in TdModel/Lemmas/C41.lean).

Reading of the statement.  The salt of an outgoing message is `c.session().Salt`, i.e. the
connection's salt variable after `updateSalt`.  `updateSalt` replaces it by a *future* salt exactly
when one whose validity ends after now + 300 s is known, choosing the one that expires first;
otherwise the variable keeps what it had — the last salt the server told the client directly
(exchange, new_session_created, bad_server_salt) or the future salt selected last.  A client that
knows no valid future salt cannot do better than that (the server then answers bad_server_salt,
which is the second half of the property); an expired future salt is never *selected*.
-/
import TdModel.Lemmas.C41

namespace TdModel.C41
open TdModel

/-! ### what the model reads from the source on every run -/

/-- The specification's literals: 5 min lookahead, error code 48. -/
theorem constants_are_spec :
    Facts.C41.lookaheadNs = 300 * 1000000000 ∧ Facts.C41.codeIncorrectServerSalt = 48 := by decide

/-- Structure of the salt store as read from the source with go/ast (operands of comparisons in
either order, logging and comments ignored): `Get` examines the last element of a slice that
`Less` keeps sorted by descending expiry, returns it iff its validity ends strictly after the
deadline, otherwise filters with the same test and looks again; `Store` appends, keeps the first
occurrence of every salt value, sorts; `Reset` empties; `updateSalt` stores only a salt that
`Get` found.  The operators are *interpreted* by the model (`validAfter`, `keptByFilter`). -/
theorem store_structure_is_sound :
    Facts.C41.getLooksAtLast = true ∧ Facts.C41.lessDescending = true ∧
    Facts.C41.getValidStrict = true ∧ Facts.C41.getFilterStrict = true ∧ Facts.C41.getStructure = true ∧
    Facts.C41.storeAppendDedupSort = true ∧ Facts.C41.resetEmpties = true ∧
    Facts.C41.updateSaltStoresWhenFound = true := by decide

/-- Every outgoing message takes its salt from `c.session()`, which runs `updateSalt` first; the
bad-salt branch of `Invoke` (taken iff the error is a bad-message error with code 48) stores the
server's salt, forgets the future salts — in either order — and calls `rpc.Do` once more,
returning its result; `handleBadMsg` forwards the server's new salt. -/
theorem write_path_is_sound :
    Facts.C41.sessionUpdatesSaltFirst = true ∧ Facts.C41.newEncryptedMessageReadsSession = true ∧
    Facts.C41.encryptedDataLiterals = Facts.C41.encryptedDataLiteralsWithSessionSalt ∧
    0 < Facts.C41.encryptedDataLiterals ∧
    (Facts.C41.invokeBadSaltOps = [1, 2, 3] ∨ Facts.C41.invokeBadSaltOps = [2, 1, 3]) ∧
    Facts.C41.invokeBadSaltCond = true ∧ Facts.C41.badServerSaltNotifies = 1 := by decide

/-- The interpreted `Invoke` is the canonical one for both sound orders of the branch. -/
theorem invoke_branch_order_irrelevant (ops : List Nat) (h : ops = [1, 2, 3] ∨ ops = [2, 1, 3])
    (c : Conn) (now : Int) (rs : List Reaction) : invokeW ops c now rs = invokeCanon c now rs :=
  invokeW_good ops h c now rs

/-- Without forgetting the future salts (seeded change C41-1: ops `[1, 3]`) the retransmission can
carry a stale stored salt instead of the server's new one. -/
theorem invoke_without_reset_counterexample :
    (invokeW [1, 3] { cur := 7, salts := [⟨0, 2000, 11⟩] } 0 [.badMsg 48 555, .result]).2.1 = [11, 11] := by decide

/-- The refresh loop waits for the session, fetches at once, then on every tick of the fetch
interval (default 1 h), asking for `defaultSaltsNum` = 4 salts. -/
theorem refresh_loop_is_modelled :
    Facts.C41.saltLoopStructure = true ∧ Facts.C41.getSaltsAsksDefaultNum = true ∧
    Facts.C41.defaultSaltsNum = 4 ∧ Facts.C41.defaultSaltFetchIntervalNs = 3600 * 1000000000 := by decide

/-! ### the salt store -/

/-- `Store` leaves the list sorted by descending expiry, without two entries of the same salt
value, and containing only salts that were stored before or are in the new set. -/
theorem store_spec (st new : Store) :
    Sorted (store st new) ∧
    (store st new).Pairwise (fun a b => a.salt ≠ b.salt) ∧
    (∀ x ∈ store st new, x ∈ st ∨ x ∈ new) ∧
    (∀ x, x ∈ st ∨ x ∈ new → ∃ z ∈ store st new, z.salt = x.salt) := by
  unfold store
  refine ⟨sorted_sortDesc _, ?_, ?_, ?_⟩
  · have hd := dedup_distinct (st ++ new) []
    -- sorting is a permutation: distinctness is about membership pairs
    have : ∀ l : Store, l.Pairwise (fun a b => a.salt ≠ b.salt) → (sortDesc l).Pairwise (fun a b => a.salt ≠ b.salt) := by
      intro l
      induction l with
      | nil => intro _; simp [sortDesc]
      | cons x xs ih =>
        intro h
        rw [List.pairwise_cons] at h
        have hxs := ih h.2
        simp only [sortDesc]
        have hx : ∀ y ∈ sortDesc xs, x.salt ≠ y.salt := fun y hy => h.1 y ((mem_sortDesc y xs).mp hy)
        generalize sortDesc xs = l at hxs hx
        induction l with
        | nil => simp [insertDesc]
        | cons a as iha =>
          rw [List.pairwise_cons] at hxs
          simp only [insertDesc]
          split
          · rw [List.pairwise_cons]
            exact ⟨hx, List.pairwise_cons.mpr hxs⟩
          · rw [List.pairwise_cons]
            refine ⟨?_, iha hxs.2 (fun y hy => hx y (List.mem_cons_of_mem _ hy))⟩
            intro y hy
            rcases (mem_insertDesc x y as).mp hy with hy | hy
            · subst hy; exact fun e => hx a (by simp) e.symm
            · exact hxs.1 y hy
    exact this _ hd
  · intro x hx
    have := (mem_dedup (st ++ new) [] x ((mem_sortDesc x _).mp hx)).1
    exact List.mem_append.mp this
  · intro x hx
    obtain ⟨z, hz, hzs⟩ := dedup_keeps (st ++ new) [] x (List.mem_append.mpr hx) (by simp)
    exact ⟨z, (mem_sortDesc z _).mpr hz, hzs⟩

/-- A salt returned by `Get` is a stored one whose validity ends after the deadline. -/
theorem get_valid (st st' : Store) (d : Int) (x : Salt) (h : get st d = (st', some x)) :
    x ∈ st ∧ x.validUntil > d := by
  rcases get_cases st d with ⟨_, e⟩ | ⟨last, hl, hv, e⟩ | ⟨last, hl, hv, e⟩
  · rw [e] at h; cases h
  · rw [e] at h
    have : last = x := by injection h with _ h2; exact Option.some.inj h2
    subst this
    exact ⟨getLast?_mem st _ hl, hv⟩
  · rw [e] at h
    have h2 : (st.filter (fun s => s.validUntil > d)).getLast? = some x := by injection h
    have hm := getLast?_mem _ _ h2
    have := List.mem_filter.mp hm
    exact ⟨this.1, by simpa using this.2⟩

/-- … and, the store being sorted, it is the valid salt that expires first. -/
theorem get_earliest (st st' : Store) (d : Int) (x : Salt) (hs : Sorted st) (h : get st d = (st', some x)) :
    ∀ y ∈ st, y.validUntil > d → x.validUntil ≤ y.validUntil := by
  intro y hy hyv
  rcases get_cases st d with ⟨_, e⟩ | ⟨last, hl, hv, e⟩ | ⟨last, hl, hv, e⟩
  · rw [e] at h; cases h
  · rw [e] at h
    have : last = x := by injection h with _ h2; exact Option.some.inj h2
    subst this
    exact sorted_last_min st _ hs hl y hy
  · rw [e] at h
    have h2 : (st.filter (fun s => s.validUntil > d)).getLast? = some x := by injection h
    exact sorted_last_min _ x (sorted_filter st _ hs) h2 y (List.mem_filter.mpr ⟨hy, by simpa using hyv⟩)

/-- `Get` finds nothing only if no stored salt is valid beyond the deadline. -/
theorem get_none (st st' : Store) (d : Int) (h : get st d = (st', none)) :
    ∀ y ∈ st, ¬ y.validUntil > d := by
  intro y hy hyv
  rcases get_cases st d with ⟨e0, _⟩ | ⟨last, hl, hv, e⟩ | ⟨last, hl, hv, e⟩
  · subst e0; simp at hy
  · rw [e] at h; cases h
  · rw [e] at h
    have h2 : (st.filter (fun s => s.validUntil > d)).getLast? = none := by injection h
    have : st.filter (fun s => s.validUntil > d) = [] := List.getLast?_eq_none_iff.mp h2
    have hm : y ∈ st.filter (fun s => s.validUntil > d) := List.mem_filter.mpr ⟨hy, by simpa using hyv⟩
    rw [this] at hm; simp at hm

/-- `Get` only ever drops expired salts, and keeps the list sorted. -/
theorem get_state (st : Store) (d : Int) (hs : Sorted st) :
    Sorted (get st d).1 ∧ (∀ y ∈ (get st d).1, y ∈ st) ∧
    (∀ y ∈ st, y.validUntil > d → y ∈ (get st d).1) := by
  rcases get_cases st d with ⟨_, e⟩ | ⟨last, hl, hv, e⟩ | ⟨last, hl, hv, e⟩
  · rw [e]; exact ⟨hs, fun y hy => hy, fun y hy _ => hy⟩
  · rw [e]; exact ⟨hs, fun y hy => hy, fun y hy _ => hy⟩
  · rw [e]
    refine ⟨sorted_filter st _ hs, fun y hy => (List.mem_filter.mp hy).1, fun y hy hv => ?_⟩
    exact List.mem_filter.mpr ⟨hy, by simpa using hv⟩

/-! ### the salt attached to an outgoing message -/

/-- The attached salt is either a known future salt whose validity ends later than now + 300 s —
the one that expires first among those — or, when no such salt is known, the connection's
current salt, unchanged. -/
theorem attached_salt_ok (c : Conn) (nowNs : Int) (hs : Sorted c.salts) :
    (∃ x ∈ c.salts, (attach c nowNs).2 = x.salt ∧ x.validUntil > nowNs / 1000000000 + 300 ∧
        ∀ y ∈ c.salts, y.validUntil > nowNs / 1000000000 + 300 → x.validUntil ≤ y.validUntil) ∨
    ((attach c nowNs).2 = c.cur ∧ ∀ y ∈ c.salts, ¬ y.validUntil > nowNs / 1000000000 + 300) := by
  rw [← dateOf_eq]
  unfold attach updateSalt
  cases h : get c.salts (dateOf nowNs) with
  | mk st' r =>
    cases r with
    | some x =>
      left
      have hv := get_valid _ _ _ _ h
      exact ⟨x, hv.1, rfl, hv.2, get_earliest _ _ _ _ hs h⟩
    | none =>
      right
      exact ⟨rfl, get_none _ _ _ h⟩

/-- In particular a selected future salt is not expired at the time of sending. -/
theorem selected_salt_not_expired (c : Conn) (nowNs : Int) (x : Salt) (st' : Store)
    (h : get c.salts (dateOf nowNs) = (st', some x)) : x.validUntil * 1000000000 > nowNs + 300 * 1000000000 - 1000000000 := by
  have := (get_valid _ _ _ _ h).2
  rw [dateOf_eq] at this
  omega

/-- The stored future salts stay sorted along every history of events. -/
theorem salts_stay_sorted (evs : List Event) : ∀ (c : Conn) (now : Int), Sorted c.salts →
    Sorted (finalState c now evs).salts := by
  induction evs with
  | nil => intro c now h; exact h
  | cons e rest ih =>
    intro c now h
    simp only [finalState]
    apply ih
    have hattach : ∀ (c : Conn) (n : Int), Sorted c.salts → Sorted (attach c n).1.salts := by
      intro c n hc
      unfold attach updateSalt
      have := (get_state c.salts (dateOf n) hc).1
      cases hg : get c.salts (dateOf n) with
      | mk st' r =>
        rw [hg] at this
        cases r <;> exact this
    cases e with
    | clock t => exact h
    | future ss => exact (store_spec c.salts ss).1
    | told s => exact hattach (storeSalt c s) now h
    | write => exact hattach c now h
    | invoke rs =>
      simp only [step]
      rw [invoke_eq_canon]
      unfold invokeCanon
      have h1 := hattach c now h
      cases rs with
      | nil => exact h1
      | cons r rest' =>
        cases r with
        | result => exact h1
        | badMsg code ns =>
          simp only
          split
          · have h3 : Sorted (attach { cur := ns, salts := reset (attach c now).1.salts } now).1.salts :=
              hattach _ now (by simp [reset, Sorted])
            cases rest' with
            | nil => exact h3
            | cons r2 _ => cases r2 <;> exact h3
          · exact h1

/-! ### bad_server_salt: exactly one more transmission, with the new salt -/

/-- `Invoke` transmits a request once, plus exactly once more iff the first answer is a bad-message
error with code 48 — whatever comes afterwards (a second bad salt, late duplicates, errors); the
retransmission carries the salt the server sent. -/
theorem badsalt_resend_once (c : Conn) (nowNs : Int) (rs : List Reaction) :
    ((invoke c nowNs rs).2.1.length = 1 ∨ (invoke c nowNs rs).2.1.length = 2) ∧
    ((invoke c nowNs rs).2.1.length = 2 ↔ ∃ ns rest, rs = .badMsg 48 ns :: rest) ∧
    (∀ ns rest, rs = .badMsg 48 ns :: rest → (invoke c nowNs rs).2.1[1]? = some ns) := by
  have hsecond : ∀ (c1 : Conn) (ns : Int), (attach { cur := ns, salts := reset c1.salts } nowNs).2 = ns := by
    intro c1 ns; simp [attach, updateSalt, reset, get]
  rw [invoke_eq_canon]
  unfold invokeCanon
  cases rs with
  | nil => simp
  | cons r rest =>
    cases r with
    | result => simp
    | badMsg code ns =>
      simp only [codeIncorrectServerSalt_eq]
      by_cases hc : code = 48
      · subst hc
        simp only [if_true]
        cases rest with
        | nil => simp [hsecond]
        | cons r2 rest2 => cases r2 <;> simp [hsecond]
      · simp only [hc, if_false]
        simp
        intro h1
        exact absurd h1 hc

/-! ### non-vacuity -/

example :
    runEvents { cur := 7, salts := [] } (1700000000 * 1000000000)
      [ .write,
        .future [⟨1699999000, 1700000200, 11⟩, ⟨1700000200, 1700003800, 12⟩, ⟨1700003800, 1700007400, 13⟩, ⟨0, 1700003800, 12⟩],
        .write,                                  -- 11 expires within 300 s: 12 is taken
        .clock (1700003600 * 1000000000), .write, -- 12 now expires within 300 s: 13
        .told 99, .write,                         -- a valid future salt overrides the told one
        .clock (1700009000 * 1000000000), .write, -- nothing valid is left: the last salt stays
        .invoke [.badMsg 48 555, .result],        -- retry once with the server's salt
        .invoke [.badMsg 48 556, .badMsg 48 557, .result],
        .write ]
    = [7, 12, 13, 13, 13, 13, 555, 555, 556, 556] := by decide

end TdModel.C41
