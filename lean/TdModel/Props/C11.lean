/-
C11 — exchange answer decryption reports every hash mismatch as an error: it either returns the
embedded data whose SHA-1 prefix matches, or an error; never success with empty or unauthenticated
data.  `∀ P` (SHA-1 and AES are parameters; no lawfulness is even needed for the decision
structure), all keys, IVs and ciphertexts.
Property theorems only (helper lemmas: TdModel/Lemmas/C11.lean).
-/
import TdModel.Lemmas.C11

namespace TdModel.C11
open TdModel
open TdModel.C06 (slice)

/-- `GuessDataWithHash` returns `x` exactly when `x = d[20 : len-i]` for the *first* `i < 16` (with
`len - i ≥ 20`, `len > 20`) whose SHA-1 equals `d[0:20]`. -/
theorem guess_some_iff (P : Prims) (d x : Bytes) :
    guess P d = some x ↔
      20 < d.length ∧ ∃ i, i < 16 ∧ 20 ≤ d.length - i ∧ x = slice d 20 (d.length - i) ∧
        P.sha1 x = d.take 20 ∧ ∀ k, k < i → P.sha1 (slice d 20 (d.length - k)) ≠ d.take 20 := by
  rw [guess_def]
  by_cases hl : d.length ≤ sha1Size
  · simp only [hl, if_true]
    constructor
    · intro h; cases h
    · intro h; simp only [sha1Size] at hl; omega
  · simp only [hl, if_false]
    simp only [sha1Size] at hl
    constructor
    · intro h
      obtain ⟨j, _, hj2, hj3, hj4, hj5, hj6⟩ := guessFrom_some P d x 16 0 h
      exact ⟨by omega, j, by omega, hj3, hj4, hj5, fun k hk => hj6 k (Nat.zero_le _) hk⟩
    · intro ⟨_, i, hi1, hi2, hi3, hi4, hi5⟩
      subst hi3
      obtain ⟨y, hy⟩ := guessFrom_complete P d 16 0 i (Nat.zero_le _) (by omega) hi2 hi4
      obtain ⟨j, _, hj2, hj3, hj4, hj5, hj6⟩ := guessFrom_some P d y 16 0 hy
      -- the first matching index is unique
      have : j = i := by
        rcases Nat.lt_trichotomy j i with h | h | h
        · exact absurd (hj4 ▸ hj5) (hi5 j h)
        · exact h
        · exact absurd hi4 (hj6 i (Nat.zero_le _) h)
      subst this
      rw [hy, hj4]; rfl

/-- **Success carries authenticated data** (defect D4 repaired): if `DecryptExchangeAnswer` returns no
error then it returns non-nil data `x = plain[20 : len-i]`, `i < 16`, with
`SHA1 x = plain[0:20]` where `plain` is the AES-IGE decryption of the input. -/
theorem decryptAnswer_ok_hash (P : Prims) (data key iv : Bytes) (isNil : Bool) (r : Option Bytes)
    (h : decryptAnswer P data key iv isNil = .ok r) :
    ∃ x, r = some x ∧ P.sha1 x = (Ige.dec (P.aesDec key) iv data).take 20 ∧
      ∃ i, i < 16 ∧ x = slice (Ige.dec (P.aesDec key) iv data) 20 ((Ige.dec (P.aesDec key) iv data).length - i) := by
  unfold decryptAnswer decryptAnswerWith at h
  have hv : (Facts.C11.nilTestVar == Facts.C11.guessResultVar) = true := by decide
  simp only [hv, if_true] at h
  split at h
  · cases h
  · split at h
    · cases h
    · split at h
      · cases h
      · cases hg : guess P (Ige.dec (P.aesDec key) iv data) with
        | none => simp [hg] at h
        | some x =>
          simp only [hg, Option.isNone_some, Bool.false_eq_true, if_false, Except.ok.injEq] at h
          obtain ⟨_, i, hi1, _, hi3, hi4, _⟩ := (guess_some_iff P _ x).mp hg
          exact ⟨x, h.symm, hi4, i, hi1, hi3⟩

/-- It never reports success with nil (empty) data. -/
theorem decryptAnswer_never_ok_empty_unauthenticated (P : Prims) (data key iv : Bytes) (isNil : Bool) :
    decryptAnswer P data key iv isNil ≠ .ok none := by
  intro h
  obtain ⟨x, hx, _⟩ := decryptAnswer_ok_hash P data key iv isNil none h
  cases hx

/-- Every hash mismatch is an error: if no tried padding length makes the SHA-1 match, the result is
the error `guess` (for an AES key of 16/24/32 bytes, a 32-byte IV and block-aligned input). -/
theorem decryptAnswer_mismatch_is_error (P : Prims) (data key iv : Bytes) (isNil : Bool)
    (hk : aesKeyOk key = true) (hiv : iv.length = 32) (ha : data.length % 16 = 0)
    (hm : ∀ i, i < 16 → P.sha1 (slice (Ige.dec (P.aesDec key) iv data) 20
      ((Ige.dec (P.aesDec key) iv data).length - i)) ≠ (Ige.dec (P.aesDec key) iv data).take 20) :
    decryptAnswer P data key iv isNil = .error .guess := by
  unfold decryptAnswer decryptAnswerWith
  have hv : (Facts.C11.nilTestVar == Facts.C11.guessResultVar) = true := by decide
  have hk' : (!aesKeyOk key) = false := by simp [hk]
  have ha' : ¬ data.length % 16 ≠ 0 := by simp [ha]
  have hiv' : ¬ iv.length ≠ 32 := by simp [hiv]
  simp only [hv, if_true, hk', Bool.false_eq_true, ha', hiv', if_false]
  cases hg : guess P (Ige.dec (P.aesDec key) iv data) with
  | none => simp
  | some x =>
    obtain ⟨_, i, hi1, _, hi3, hi4, _⟩ := (guess_some_iff P _ x).mp hg
    exact absurd (hi3 ▸ hi4) (hm i hi1)

/-- `paddedLen16` (translated from Go on every run): the least multiple of 16 that is ≥ l. -/
theorem paddedLen16_spec (l : Nat) : l ≤ paddedLen16 l ∧ paddedLen16 l < l + 16 ∧ paddedLen16 l % 16 = 0 :=
  paddedLen16_bounds l

/-- **Genuine answers are recovered.**  For 32-byte key and IV, what `EncryptExchangeAnswer` produced
decrypts without error to data `x` that begins with the answer, is followed by `k < 16` of the random
padding bytes, and has the answer's SHA-1.  (`k = 0`, i.e. `x = answer`, unless a longer candidate
collides under SHA-1 — see the corollary.) -/
theorem decrypt_encrypt_answer (P : Prims) (hP : LawfulPrims P) (rnd answer key iv c : Bytes) (isNil : Bool)
    (hk : key.length = 32) (hiv : iv.length = 32)
    (he : encryptAnswer P rnd answer key iv = .ok c) :
    ∃ x k, decryptAnswer P c key iv isNil = .ok (some x) ∧
      x = answer ++ rnd.take k ∧ k < 16 ∧ P.sha1 x = P.sha1 answer := by
  have h := decrypt_encrypt_answer' P hP rnd answer key iv c isNil hk hiv he
  have hv : Facts.C11.nilTestVar = Facts.C11.guessResultVar := rfl
  unfold decryptAnswer
  rw [hv]
  exact h

/-- Under the explicit hypothesis that no proper extension of the answer by its own padding bytes
has the same SHA-1 (collision resistance, not provable), the answer itself comes back. -/
theorem decrypt_encrypt_answer_exact (P : Prims) (hP : LawfulPrims P) (rnd answer key iv c : Bytes) (isNil : Bool)
    (hk : key.length = 32) (hiv : iv.length = 32)
    (he : encryptAnswer P rnd answer key iv = .ok c)
    (NoPaddingCollision : ∀ k, k < 16 → P.sha1 (answer ++ rnd.take k) = P.sha1 answer → rnd.take k = []) :
    decryptAnswer P c key iv isNil = .ok (some answer) := by
  obtain ⟨x, k, h1, h2, h3, h4⟩ := decrypt_encrypt_answer P hP rnd answer key iv c isNil hk hiv he
  rw [h1, h2, NoPaddingCollision k h3 (h2 ▸ h4)]
  simp

/-- **Total outcome table.**  `DecryptExchangeAnswer` returns the `cipher` error exactly for key
lengths other than 16/24/32, else the `align` error exactly for inputs that are not a multiple of 16
bytes, else panics (contract of gotd/ige) exactly for IVs that are not 32 bytes, else decides by the
padding search. -/
theorem decryptAnswer_outcomes (P : Prims) (data key iv : Bytes) (isNil : Bool) :
    (aesKeyOk key = false → decryptAnswer P data key iv isNil = .error .cipher) ∧
    (aesKeyOk key = true → data.length % 16 ≠ 0 → decryptAnswer P data key iv isNil = .error .align) ∧
    (aesKeyOk key = true → data.length % 16 = 0 → iv.length ≠ 32 →
      decryptAnswer P data key iv isNil = .error .panicIV) ∧
    (aesKeyOk key = true → data.length % 16 = 0 → iv.length = 32 →
      decryptAnswer P data key iv isNil =
        match guess P (Ige.dec (P.aesDec key) iv data) with
        | some x => .ok (some x)
        | none => .error .guess) := by
  have hv : (Facts.C11.nilTestVar == Facts.C11.guessResultVar) = true := by decide
  unfold decryptAnswer decryptAnswerWith
  refine ⟨?_, ?_, ?_, ?_⟩
  · intro h; simp [h]
  · intro h1 h2; simp [h1, h2]
  · intro h1 h2 h3; simp [h1, h2, h3]
  · intro h1 h2 h3
    simp only [h1, h2, h3, hv, if_true]
    cases guess P (Ige.dec (P.aesDec key) iv data) <;> simp

/-- The unrepaired code (nil test on the *input*): a non-nil block of `0x01` bytes under the zero
key and IV was reported as success with nil data.  (Toy primitives; the implementation-level witness
is replayed by the harness.) -/
theorem decryptAnswer_prefix_counterexample :
    decryptAnswerWith "data" Prims.toy (List.replicate 16 1) (List.replicate 32 0) (List.replicate 32 0) false
      = .ok none := by
  rfl

/-- The facts the model reads: the nil test is on the variable assigned from `GuessDataWithHash`,
which is applied to the decrypted buffer; 16 padding lengths are tried; slices as in the model. -/
theorem source_facts :
    Facts.C11.nilTestVar = "dst" ∧ Facts.C11.guessResultVar = "dst" ∧ Facts.C11.guessArg = "dataWithHash" ∧
    Facts.C11.guessTries = 16 ∧ Facts.C11.guessMinCond = "len(dataWithHash) <= sha1.Size" ∧
    Facts.C11.guessEndCond = "len(dataWithHash)-i < sha1.Size" ∧
    Facts.C11.guessHashSlice = "dataWithHash[:sha1.Size]" ∧
    Facts.C11.guessDataSlice = "dataWithHash[sha1.Size : len(dataWithHash)-i]" ∧
    Facts.C11.guessHashOf = "sha1.Sum(data)" ∧ Facts.C11.guessCompare = "bytes.Equal(h[:], v)" ∧
    Facts.C11.alignCond = "len(dataWithHash)%cipher.BlockSize() != 0" ∧
    Facts.C11.decryptOrderOK = true ∧ Facts.C11.encryptOrderOK = true ∧ Facts.C11.dataWithHashShape = true :=
  ⟨rfl, rfl, rfl, rfl, rfl, rfl, rfl, rfl, rfl, rfl, rfl, rfl, rfl, rfl⟩

/-- Non-vacuity: a genuine answer is accepted (toy primitives): success is reachable. -/
example : decryptAnswer Prims.toy (Prims.toy.sha1 [1, 2, 3] ++ [1, 2, 3] ++ List.replicate 9 7)
    (List.replicate 32 0) (List.replicate 32 0) = .ok (some [1, 2, 3]) := by rfl

end TdModel.C11
