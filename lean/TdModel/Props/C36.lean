/-
C36 — completed entities are ordered by offset, then by descending length.
Property theorems only (helper lemmas live in TdModel/Lemmas/C36.lean).

`less` is `Facts.C36.less`, the boolean expression of `entitySorter.Less` regenerated from
/repo/telegram/message/entity/fix.go on every run; `sort.Sort` enters only through its
contract `SortContract` (permutation + no adjacent inversion).
-/
import TdModel.Lemmas.C36

namespace TdModel.C36

/-- The comparator in the source is exactly TDLib's order: offset ascending, then length
descending. -/
theorem less_spec (a b : Ent) :
    less a b = true ↔ (a.off < b.off ∨ (a.off = b.off ∧ a.len > b.len)) :=
  less_iff a b

/-- The comparator is a strict weak order (irreflexive, transitive, incomparability is
transitive) — the precondition under which `sort.Sort` sorts. -/
theorem less_strict_weak_order :
    (∀ a, less a a = false) ∧
    (∀ a b c, less a b = true → less b c = true → less a c = true) ∧
    (∀ a b c, less a b = false → less b a = false → less b c = false → less c b = false →
      less a c = false ∧ less c a = false) := by
  refine ⟨?_, ?_, ?_⟩
  · intro a
    cases h : less a a
    · rfl
    · have := (less_iff a a).mp h; omega
  · intro a b c h1 h2
    have h1 := (less_iff a b).mp h1
    have h2 := (less_iff b c).mp h2
    exact (less_iff a c).mpr (by omega)
  · intro a b c h1 h2 h3 h4
    have h1 := (not_less_iff_ordered b a).mp h1
    have h2 := (not_less_iff_ordered a b).mp h2
    have h3 := (not_less_iff_ordered c b).mp h3
    have h4 := (not_less_iff_ordered b c).mp h4
    exact ⟨(not_less_iff_ordered c a).mpr (ordered_trans h3 h1),
           (not_less_iff_ordered a c).mpr (ordered_trans h2 h4)⟩

/-- Any sort that honours `sort.Sort`'s contract for this comparator — in particular
`entity.SortEntities`, and the list returned by `Builder.Complete`, which is passed through it —
returns a permutation of its input ordered by (offset ascending, length descending). -/
theorem sorted_spec (sort : List Ent → List Ent) (hc : SortContract less sort) (l : List Ent) :
    (sort l).Perm l ∧
    (sort l).Pairwise (fun a b => a.off < b.off ∨ (a.off = b.off ∧ b.len ≤ a.len)) :=
  ⟨(hc l).1, contract_ordered _ (hc l).2⟩

/-- The contract is satisfiable: the driver's executable sort meets it. -/
theorem isort_contract : SortContract less sortEntities := fun l =>
  ⟨isort_perm less l,
   adj_congr (fun a b h => (not_less_iff_ordered a b).mpr h) _ (pairwise_adj _ (isort_pairwise l))⟩

/-- The ordered result is unique as a list of `(off,len)` pairs: whatever algorithm `sort.Sort`
uses, its output equals the model's (this is what the correspondence run compares). -/
theorem sorted_unique (sort : List Ent → List Ent) (hc : SortContract less sort) (l : List Ent) :
    sort l = sortEntities l :=
  ordered_perm_unique _ _ ((hc l).1.trans (isort_perm less l).symm)
    (contract_ordered _ (hc l).2) (isort_pairwise l)

/-- The decidable monitor run by the driver on the implementation's output is the property. -/
theorem holds_spec (l : List Ent) : holds l = true ↔ l.Pairwise Ordered :=
  (holds_iff l).trans ⟨adj_pairwise (r := Ordered) (fun _ _ _ h1 h2 => ordered_trans h1 h2) l, pairwise_adj l⟩

/-- The comparator of the pinned tree (`a.off < b.off || a.len > b.len`) is not asymmetric, hence
no strict weak order: D8. -/
theorem lessOld_counterexample :
    lessOld ⟨5, 10⟩ ⟨0, 2⟩ = true ∧ lessOld ⟨0, 2⟩ ⟨5, 10⟩ = true := by decide

/-- The call sites that make the contract apply: `SortEntities` is `sort.Sort(entitySorter(..))`,
`Len`/`Swap` are the canonical ones, `Complete` sorts the slice it returns. -/
theorem sort_call_facts :
    Facts.C36.sortViaStdlib = true ∧ Facts.C36.lenIsLen = true ∧ Facts.C36.swapIsSwap = true ∧
    Facts.C36.completeCallsSort = true := by decide

/-- Non-vacuity: the witness list of D8, with ties, is sorted as specified. -/
example : sortEntities [⟨5, 10⟩, ⟨0, 2⟩, ⟨3, 1⟩, ⟨0, 7⟩, ⟨2, 9⟩, ⟨0, 7⟩] =
    [⟨0, 7⟩, ⟨0, 7⟩, ⟨0, 2⟩, ⟨2, 9⟩, ⟨3, 1⟩, ⟨5, 10⟩] := by decide

end TdModel.C36
