/-
C36 — completed entities are ordered by offset, then by descending length.
Property theorems only (helper lemmas live in TdModel/Lemmas/C36.lean).

`less` is `Facts.C36.less`, the boolean expression of `entitySorter.Less` regenerated from
/repo/telegram/message/entity/fix.go on every run; `sort.Sort` enters only through its contract
(`SortContract`: permutation + no adjacent inversion), which it guarantees for a strict weak order.

FULL-STRENGTH STATEMENT (what C36 asks; FALSE on the current tree — defect D8, open known finding):

    theorem less_strict_weak_order : ∀ l, StrictWeakOrderOn less l
    theorem sorted_spec (sort) (hc : SortContract less sort) (l) :
        (sort l).Perm l ∧ (sort l).Pairwise (fun a b => a.off < b.off ∨ (a.off = b.off ∧ b.len ≤ a.len))

The source's comparator is `a.off < b.off || a.len > b.len` (`lessOld`): it is not asymmetric, so
`sort.Sort` promises nothing, and its contract cannot even be met on `[(0,1),(1,5)]`
(`lessOld_contract_unsatisfiable`).  The repair (compare lengths only on equal offsets) contradicts
the expectation pinned by the unedited test `TestComplete/BoldPlainBold`, so it is recorded as a
known finding instead.  Proved below:
  * `…_partial`: the full statement restricted to `Compatible` lists (no entity starts later than
    another one and is longer — on these the source's comparator IS the specification's);
  * the counterexamples;
  * the full statement for the specification's comparator `specLess` (what holds once repaired).
Every theorem about the regenerated `less` is also true for a correctly repaired comparator, and
false for comparators that order some comparable pair differently.
-/
import TdModel.Lemmas.C36

namespace TdModel.C36

/-- The comparator in the source is the specification's (offset ascending, then length descending)
on every pair except those where `b` starts earlier than `a` and is shorter. -/
theorem less_spec_partial (a b : Ent) (h : ¬ (b.off < a.off ∧ b.len < a.len)) :
    less a b = true ↔ (a.off < b.off ∨ (a.off = b.off ∧ a.len > b.len)) := by
  rw [less_eq_spec a b h]; exact specLess_iff a b

/-- On a compatible list the source's comparator is a strict weak order (the precondition under
which `sort.Sort` sorts). -/
theorem less_strict_weak_order_partial (l : List Ent) (hc : Compatible l) : StrictWeakOrderOn less l :=
  swo_congr (less_eq_spec_on hc) (specLess_swo l)

/-- Whatever the input, an output that has no adjacent inversion w.r.t. the source's comparator is
ordered by (offset ascending, length descending).  (The defect is that `sort.Sort` need not
produce such an output.) -/
theorem sort_postcondition_implies_ordered (out : List Ent)
    (h : AdjSorted (fun a b => less b a = false) out) :
    out.Pairwise (fun a b => a.off < b.off ∨ (a.off = b.off ∧ b.len ≤ a.len)) :=
  contract_ordered out h

/-- C36 for compatible inputs: `sort.Sort`'s precondition holds (previous theorem), so its output
is a permutation without adjacent inversion; then it is ordered as specified, and it is THE ordered
permutation (equal to the model's insertion sort — what the correspondence run compares). -/
theorem sorted_spec_partial (l out : List Ent) (_hcompat : Compatible l)
    (hperm : out.Perm l) (hadj : AdjSorted (fun a b => less b a = false) out) :
    out.Pairwise (fun a b => a.off < b.off ∨ (a.off = b.off ∧ b.len ≤ a.len)) ∧
    out = isort specLess l :=
  ⟨contract_ordered out hadj,
   ordered_perm_unique _ _ (hperm.trans (isort_perm specLess l).symm) (contract_ordered out hadj) (isort_pairwise l)⟩

/-- Non-vacuity of `sorted_spec_partial`: on compatible inputs the contract is satisfiable — the
driver's `sortEntities` (insertion sort with the SOURCE's comparator) meets it. -/
theorem isort_contract_partial (l : List Ent) (hc : Compatible l) :
    (sortEntities l).Perm l ∧ AdjSorted (fun a b => less b a = false) (sortEntities l) ∧
    sortEntities l = isort specLess l := by
  have heq : sortEntities l = isort specLess l := isort_congr less specLess l (less_eq_spec_on hc)
  refine ⟨isort_perm less l, ?_, heq⟩
  rw [heq]
  have hc' : Compatible (isort specLess l) := compatible_perm (isort_perm specLess l) hc
  refine adj_congr_mem _ ?_ (pairwise_adj _ (isort_pairwise l))
  intro a ha b hb hab
  rw [less_eq_spec_on hc' b hb a ha]
  exact (not_specLess_iff_ordered a b).mpr hab

/-- D8: the pinned comparator is not a strict weak order — `(5,10)` and `(0,2)` are each less than
the other. -/
theorem lessOld_not_strict_weak_order : ¬ StrictWeakOrderOn lessOld [⟨5, 10⟩, ⟨0, 2⟩] := by
  intro ⟨hi, ht, _⟩
  have h1 := ht ⟨5, 10⟩ (by simp) ⟨0, 2⟩ (by simp) ⟨5, 10⟩ (by simp) (by decide) (by decide)
  have h2 := hi ⟨5, 10⟩ (by simp)
  rw [h1] at h2
  cases h2

/-- Exact characterisation: the pinned comparator satisfies `sort.Sort`'s precondition on a list
IF AND ONLY IF the list is compatible (no entity starts later than another one and is longer).
So `sorted_spec_partial` covers precisely the inputs for which the library's contract applies. -/
theorem lessOld_strict_weak_order_iff_compatible (l : List Ent) :
    StrictWeakOrderOn lessOld l ↔ ∀ a ∈ l, ∀ b ∈ l, b.off < a.off → a.len ≤ b.len :=
  lessOld_swo_iff l

/-- D8: for the pinned comparator `sort.Sort`'s postcondition cannot be met at all on
`[(0,1),(1,5)]` — whichever way the two entities are arranged, one is "less" than its predecessor. -/
theorem lessOld_contract_unsatisfiable :
    ¬ ∃ out : List Ent, out.Perm [⟨0, 1⟩, ⟨1, 5⟩] ∧ AdjSorted (fun a b => lessOld b a = false) out := by
  intro ⟨out, hp, hadj⟩
  have hlen := hp.length_eq
  match out, hlen, hp, hadj with
  | [x, y], _, hp, hadj =>
    have hx : x ∈ [(⟨0, 1⟩ : Ent), ⟨1, 5⟩] := hp.subset (List.Mem.head _)
    have hy : y ∈ [(⟨0, 1⟩ : Ent), ⟨1, 5⟩] := hp.subset (List.Mem.tail _ (List.Mem.head _))
    have h1 : (⟨0, 1⟩ : Ent) ∈ [x, y] := hp.symm.subset (List.Mem.head _)
    have h2 : (⟨1, 5⟩ : Ent) ∈ [x, y] := hp.symm.subset (List.Mem.tail _ (List.Mem.head _))
    have hxy : lessOld y x = false := hadj.1
    simp only [List.mem_cons, List.not_mem_nil, or_false] at hx hy h1 h2
    rcases hx with rfl | rfl <;> rcases hy with rfl | rfl
    · simp at h2
    · exact absurd hxy (by decide)
    · exact absurd hxy (by decide)
    · simp at h1

/-- The same for the regenerated comparator, as long as the source is the pinned expression
(`lessIsPinned` is regenerated; once the source is repaired this statement is vacuous). -/
theorem pinned_source_not_strict_weak_order (h : Facts.C36.lessIsPinned = true) :
    ¬ StrictWeakOrderOn less [⟨5, 10⟩, ⟨0, 2⟩] := by
  first
  | exact absurd h (by decide)
  | (intro ⟨hi, ht, _⟩
     have h1 := ht ⟨5, 10⟩ (by simp) ⟨0, 2⟩ (by simp) ⟨5, 10⟩ (by simp) (by decide) (by decide)
     have h2 := hi ⟨5, 10⟩ (by simp)
     rw [h1] at h2
     cases h2)

/-- The output observed from `entity.SortEntities` on the D8 witness `(5,10)(0,2)(3,1)(0,7)(2,9)`
(replayed on the implementation by the harness on every run) is a permutation of the input that
violates the property. -/
theorem impl_output_counterexample :
    holds [⟨2, 9⟩, ⟨0, 7⟩, ⟨0, 2⟩, ⟨3, 1⟩, ⟨5, 10⟩] = false ∧
    compatible [⟨5, 10⟩, ⟨0, 2⟩, ⟨3, 1⟩, ⟨0, 7⟩, ⟨2, 9⟩] = false ∧
    isort specLess [⟨5, 10⟩, ⟨0, 2⟩, ⟨3, 1⟩, ⟨0, 7⟩, ⟨2, 9⟩] = [⟨0, 7⟩, ⟨0, 2⟩, ⟨2, 9⟩, ⟨3, 1⟩, ⟨5, 10⟩] := by
  decide

/-- The specification's comparator is a strict weak order on every list. -/
theorem spec_strict_weak_order (l : List Ent) : StrictWeakOrderOn specLess l := specLess_swo l

/-- Full-strength C36 for the specification's comparator (i.e. for the repaired code): any sort
honouring `sort.Sort`'s contract returns an ordered permutation, and that result is unique. -/
theorem spec_sorted (sort : List Ent → List Ent) (hc : SortContract specLess sort) (l : List Ent) :
    (sort l).Perm l ∧
    (sort l).Pairwise (fun a b => a.off < b.off ∨ (a.off = b.off ∧ b.len ≤ a.len)) ∧
    sort l = isort specLess l :=
  ⟨(hc l).1, spec_contract_ordered _ (hc l).2,
   ordered_perm_unique _ _ ((hc l).1.trans (isort_perm specLess l).symm)
     (spec_contract_ordered _ (hc l).2) (isort_pairwise l)⟩

/-- …and that contract is satisfiable. -/
theorem spec_isort_contract : SortContract specLess (isort specLess) := fun l =>
  ⟨isort_perm specLess l,
   adj_congr (fun a b h => (not_specLess_iff_ordered a b).mpr h) _ (pairwise_adj _ (isort_pairwise l))⟩

/-- The decidable monitors run by the driver are the property / the input class. -/
theorem holds_spec (l : List Ent) : holds l = true ↔ l.Pairwise Ordered :=
  (holds_iff l).trans ⟨adj_pairwise (r := Ordered) (fun _ _ _ h1 h2 => ordered_trans h1 h2) l, pairwise_adj l⟩

theorem compatible_spec (l : List Ent) :
    compatible l = true ↔ ∀ a ∈ l, ∀ b ∈ l, b.off < a.off → a.len ≤ b.len := compatible_iff l

/-- The call sites that make the contract apply: `SortEntities` is `sort.Sort(entitySorter(..))`,
`Len`/`Swap` are the canonical ones, `Complete` sorts the slice it returns. -/
theorem sort_call_facts :
    Facts.C36.sortViaStdlib = true ∧ Facts.C36.lenIsLen = true ∧ Facts.C36.swapIsSwap = true ∧
    Facts.C36.completeCallsSort = true := by decide

/-- Non-vacuity: a compatible list with ties (nested spans, equal ranges) is sorted as specified by
the source's comparator. -/
example : compatible [⟨3, 1⟩, ⟨0, 7⟩, ⟨2, 2⟩, ⟨0, 7⟩, ⟨0, 9⟩] = true ∧
    sortEntities [⟨3, 1⟩, ⟨0, 7⟩, ⟨2, 2⟩, ⟨0, 7⟩, ⟨0, 9⟩] = [⟨0, 9⟩, ⟨0, 7⟩, ⟨0, 7⟩, ⟨2, 2⟩, ⟨3, 1⟩] := by decide

end TdModel.C36
