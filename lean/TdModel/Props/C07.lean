/-
C07 — only fresh, in-session, correctly padded server messages are accepted.
Property theorems only (helper lemmas live in TdModel/Lemmas/C07.lean).

The decryption step is the interface `cipherDecrypt` (see Model/C07.lean): the cipher returns the
message iff it decrypts under the session key and has a data length ≥ 0 divisible by 4 and
12..1024 bytes of padding.  That interface belongs to C04/C05 (`crypto.Cipher.Decrypt`).
-/
import TdModel.Lemmas.C07

namespace TdModel.C07
open TdModel

/-! ### what the model reads from the source on every run -/

/-- The specification's literals: 300 s / 30 s window, 100 remembered ids, ≤ 1024 bytes of padding,
server types = id mod 4 ∈ {1, 3}, both bounds inclusive (rejected only when strictly beyond). -/
theorem constants_are_spec :
    Facts.C07.pastLimitNs = 300 * 1000000000 ∧ Facts.C07.futureLimitNs = 30 * 1000000000 ∧
    Facts.C07.pastStrict = true ∧ Facts.C07.futureStrict = true ∧
    Facts.C07.bufSize = 100 ∧ Facts.C07.maxPadding = 1024 ∧ Facts.C07.messageIDModulo = 4 ∧
    Facts.C07.acceptedYields = [1, 3] := by decide

/-- The structure of `MessageIDBuf.Consume` read from the source (where the minimum search
starts, the tests of the scan loop and their order, ifs vs. switch cases, the final test) is one of
the sound ones, the accepted id is written into the minimum slot, and every use of the buffer lies
inside the `b.mux` critical section.  The model *interprets* this structure (`consumeW shape`), so
rewrites within the sound class (reordered independent ifs, `<=` instead of `<`, tuple assignment,
renamed variables) change nothing, and anything else changes the model. -/
theorem consume_structure_is_sound :
    good shape = true ∧ Facts.C07.consumeWritesMinSlot = true ∧ Facts.C07.consumeLocked = true := by decide

/-- `Conn.decryptMessage` runs decrypt first and the replay buffer — the only check that changes
state — last, every failing check rejects; `consumeMessage` returns on a rejected message before
`handleMessage` and treats any other decryption error as fatal. -/
theorem decrypt_structure_is_sound :
    (Facts.C07.decryptOrder = [0, 1, 2, 3] ∨ Facts.C07.decryptOrder = [0, 2, 1, 3]) ∧
    Facts.C07.decryptChecksReject = true ∧ Facts.C07.rejectedReturnsBeforeHandle = true ∧
    Facts.C07.otherErrorsAreFatal = true := by decide

/-- **No handled message can weaken the acceptance state.**  The replay buffer has exactly one
writer — `MessageIDBuf.Consume` — the connection sees it through an interface with that one
method, the only use of `c.messageIDBuf` in package mtproto is the `Consume` call in
`decryptMessage` (no reset, no type assertion to a wider interface), and no `handle*` function
mentions the session id, the keys or the buffer.  So in the model handling a message changes
nothing but what `consume` changed (`rejected_reaches_no_handler`, `consume_state`). -/
theorem acceptance_state_has_one_writer :
    Facts.C07.bufWriters = ["Consume"] ∧ Facts.C07.messageBufMethods = ["Consume"] ∧
    Facts.C07.bufUses = ["decryptMessage:Consume"] ∧ Facts.C07.handlersTouchingAcceptanceState = [] := by decide

/-- For both sound orders the interpreted `decryptMessage` is the canonical one the theorems
below are about (the session and id checks are pure, so they commute). -/
theorem decrypt_order_irrelevant (o : List Nat) (ho : o = [0, 1, 2, 3] ∨ o = [0, 2, 1, 3])
    (c : Conn) (now : Int) (keyOk : Bool) (m : Msg) :
    decryptMessageW o c now keyOk m = decryptMessage c now keyOk m := by
  rcases ho with rfl | rfl
  · unfold decryptMessageW decryptMessage
    cases cipherDecrypt keyOk m with
    | none => rfl
    | some msg =>
      by_cases h1 : msg.session = c.session <;> by_cases h2 : checkMessageID now msg.msgId = true <;>
        by_cases h3 : (consume c.buf msg.msgId).2 = true <;> simp [checksFrom, h1, h2, h3]
  · unfold decryptMessageW decryptMessage
    cases cipherDecrypt keyOk m with
    | none => rfl
    | some msg =>
      by_cases h1 : msg.session = c.session <;> by_cases h2 : checkMessageID now msg.msgId = true <;>
        by_cases h3 : (consume c.buf msg.msgId).2 = true <;> simp [checksFrom, h1, h2, h3]

/-- The executable model (`runConnW`, what the driver runs, with the order read from the source)
is the canonical `runConn`. -/
theorem runConnW_eq_runConn (fs : List (Int × Bool × Msg)) : ∀ c, runConnW c fs = runConn c fs := by
  have ho := decrypt_structure_is_sound.1
  have hcm : ∀ c now k m, consumeMessageW c now k m = consumeMessage c now k m := by
    intro c now k m
    unfold consumeMessageW consumeMessage
    rw [decrypt_order_irrelevant _ ho]
  induction fs with
  | nil => intro c; rfl
  | cons f rest ih =>
    intro c
    obtain ⟨now, k, m⟩ := f
    simp only [runConnW, runConn, hcm, ih]

/-! ### the replay buffer -/

/-- Ids stored in the Go slice (0 = slot never written) and whether all N slots are in use. -/
def stored (b : List Int) : List Int := b.filter (· ≠ 0)
def full (b : List Int) : Prop := (0 : Int) ∉ b

/-- `Consume` on the raw slice: accepted iff the id equals no slot and is not below every slot. -/
theorem consume_spec_raw (b : List Int) (hb : b ≠ []) (id : Int) :
    (consume b id).2 = true ↔ id ∉ b ∧ ¬ (∀ y ∈ b, id < y) :=
  consume_accepts_iff b hb id

/-- `Consume` as the specification words it: a (positive) id is accepted iff it is not equal to
any stored id and not (N ids are stored and it is lower than all of them). -/
theorem consume_spec (b : List Int) (hb : b ≠ []) (id : Int) (hid : 0 < id) :
    (consume b id).2 = true ↔ id ∉ stored b ∧ ¬ (full b ∧ ∀ y ∈ stored b, id < y) := by
  rw [consume_accepts_iff b hb id]
  unfold stored full
  constructor
  · intro ⟨h1, h2⟩
    refine ⟨fun h => h1 (List.mem_filter.mp h).1, fun ⟨hf, hl⟩ => h2 ?_⟩
    intro y hy
    by_cases hy0 : y = 0
    · subst hy0; exact absurd hy hf
    · exact hl y (List.mem_filter.mpr ⟨hy, by simpa using hy0⟩)
  · intro ⟨h1, h2⟩
    refine ⟨fun h => h1 (List.mem_filter.mpr ⟨h, by simp; omega⟩), fun hl => h2 ⟨?_, ?_⟩⟩
    · intro h0; have := hl 0 h0; omega
    · intro y hy; exact hl y (List.mem_filter.mp hy).1

/-- Effect on the buffer: an accepted id overwrites a slot holding the minimum; a rejected id
changes nothing. -/
theorem consume_state (b : List Int) (hb : b ≠ []) (id : Int) :
    ((consume b id).2 = true → ∃ k m, b[k]? = some m ∧ (∀ y ∈ b, m ≤ y) ∧ (consume b id).1 = b.set k id) ∧
    ((consume b id).2 = false → (consume b id).1 = b) := by
  refine ⟨?_, consume_reject_unchanged b id⟩
  intro h
  rcases consume_cases b hb id with ⟨_, e⟩ | ⟨_, k, m, hk, hmin, ⟨_, e⟩ | ⟨_, e⟩⟩
  · rw [e] at h; cases h
  · rw [e] at h; cases h
  · exact ⟨k, m, hk, hmin, by rw [e]⟩

/-- The same characterisation holds for *every* sound structure of the loop, not only the one
currently in the source. -/
theorem consume_spec_every_sound_structure (sh : Shape) (hg : good sh = true) (b : List Int) (hb : b ≠ [])
    (id : Int) : (consumeW sh b id).2 = true ↔ id ∉ b ∧ ¬ (∀ y ∈ b, id < y) := by
  rcases consumeW_cases sh hg b hb id with ⟨hm, e⟩ | ⟨hm, k, m, hk, hmin, ⟨hlt, e⟩ | ⟨hlt, e⟩⟩
  · rw [e]; simp [hm]
  · rw [e]
    constructor
    · intro h; cases h
    · intro ⟨_, h⟩
      exact absurd (fun y hy => Int.lt_of_lt_of_le hlt (hmin y hy)) h
  · rw [e]
    constructor
    · intro _
      exact ⟨hm, fun h => hlt (h m (List.mem_iff_getElem?.mpr ⟨k, hk⟩))⟩
    · intro _; rfl

/-- An unsound structure — the switch of seeded change C07-2, minimum case first — accepts a
replay: 5, 3, then 3 again. -/
theorem consume_exclusive_min_first_counterexample :
    (runBufWith (consumeW { initFirst := true, exclusive := true, items := [.min true, .dup], tailStrict := true })
      (newBuf 3) [5, 3, 3]).2 = [true, true, true] := by decide

/-- After **any** history of (positive) ids the buffer of size N holds the N largest accepted
ids: every non-empty slot is an accepted id, slots are pairwise distinct, and an accepted id that
is no longer stored is lower than everything stored (hence the buffer is full of larger ones). -/
theorem consume_keeps_N_largest (n : Nat) (hn : 0 < n) (ids : List Int) (hpos : ∀ x ∈ ids, 0 < x) :
    let b := (runAcc (newBuf n) [] ids).1
    let accepted := (runAcc (newBuf n) [] ids).2
    b.length = n ∧
    (∀ x ∈ b, x = 0 ∨ x ∈ accepted) ∧
    (∀ a ∈ accepted, a ∈ b ∨ ∀ s ∈ b, a < s) ∧
    (∀ (i j : Nat) (x : Int), b[i]? = some x → b[j]? = some x → x ≠ 0 → i = j) := by
  have hne : newBuf n ≠ [] := by
    unfold newBuf; cases n with
    | zero => omega
    | succ k => simp [List.replicate_succ]
  obtain ⟨inv, hlen⟩ := runAcc_inv ids (newBuf n) [] hne hpos (inv_init n)
  exact ⟨by rw [hlen]; simp [newBuf], inv.sub, inv.largest, inv.distinct⟩

/-- **No id is ever accepted twice.**  Over any history of positive ids — any length, any order,
any number of repetitions, including copies of ids that were meanwhile evicted from the N-slot
buffer — the list of accepted ids has no duplicates: a replayed frame is never handled again. -/
theorem no_id_accepted_twice (n : Nat) (hn : 0 < n) (ids : List Int) (hpos : ∀ x ∈ ids, 0 < x) :
    (runAcc (newBuf n) [] ids).2.Nodup := by
  have hne : newBuf n ≠ [] := by
    unfold newBuf; cases n with
    | zero => omega
    | succ k => simp [List.replicate_succ]
  exact runAcc_nodup ids (newBuf n) [] hne hpos (inv_init n) List.nodup_nil

/-- Non-vacuity: with N = 2, id 1 is accepted, evicted by 5 and 7, and its replay is refused. -/
example : (runAcc (newBuf 2) [] [1, 5, 7, 1, 5, 9]).2 = [9, 7, 5, 1] := by decide

/-- The unrepaired `Consume` (minimum search started at `minID = 0, idx = 0`) remembers one id
only: after 10, 20, 30 the replay of 10 is accepted — the witness of defect D1. -/
theorem consume_old_counterexample :
    (runBufWith consumeOld (newBuf 3) [10, 20, 30, 10]).2 = [true, true, true, true] ∧
    (runBuf (newBuf 3) [10, 20, 30, 10]).2 = [true, true, true, false] := by decide

/-! ### the time window and the type of the id -/

/-- `checkMessageID` accepts exactly the server-typed ids created at most 300 s before and at most
30 s after `now` (`idTime` = the library's own id→time mapping). -/
theorem checkMessageID_spec (now id : Int) :
    checkMessageID now id = true ↔
      (id.tmod 4 = 1 ∨ id.tmod 4 = 3) ∧
      now - idTime id ≤ 300 * 1000000000 ∧ idTime id - now ≤ 30 * 1000000000 := by
  unfold checkMessageID serverTyped exceeds
  rw [modulo_eq, maxPast_eq, maxFuture_eq]
  have hy : Facts.C07.acceptedYields = [1, 3] := rfl
  have hg : Facts.C07.pastGuarded = true := rfl
  have hp : Facts.C07.pastStrict = true := rfl
  have hf : Facts.C07.futureStrict = true := rfl
  rw [hy, hg, hp, hf]
  by_cases a : id.tmod 4 = 1 <;> by_cases b : id.tmod 4 = 3 <;> by_cases p : idTime id < now <;>
    by_cases q : now - idTime id > 300000000000 <;> by_cases r : idTime id - now > 30000000000 <;>
    simp [a, b, p, q, r] <;> omega

/-! ### the whole acceptance path -/

/-- A frame is handed on by `decryptMessage` iff it decrypts under the session key, has a data
length divisible by 4 and 12..1024 bytes of padding, carries the connection's session id, a
server-typed id inside the 300 s / 30 s window, and the replay buffer accepts the id. -/
theorem accept_iff (c : Conn) (now : Int) (keyOk : Bool) (m : Msg) :
    (∃ m', (decryptMessage c now keyOk m).2 = some m') ↔
      keyOk = true ∧ 0 ≤ m.dataLen ∧ m.dataLen.tmod 4 = 0 ∧ 12 ≤ m.padding ∧ m.padding ≤ 1024 ∧
      m.session = c.session ∧
      ((m.msgId.tmod 4 = 1 ∨ m.msgId.tmod 4 = 3) ∧
        now - idTime m.msgId ≤ 300 * 1000000000 ∧ idTime m.msgId - now ≤ 30 * 1000000000) ∧
      (consume c.buf m.msgId).2 = true := by
  rw [← checkMessageID_spec]
  unfold decryptMessage cipherDecrypt
  rw [minPadding_eq, maxPadding_eq]
  by_cases h1 : keyOk = true <;> by_cases h2 : 0 ≤ m.dataLen <;> by_cases h3 : m.dataLen.tmod 4 = 0 <;>
    by_cases h4 : 12 ≤ m.padding <;> by_cases h5 : m.padding ≤ 1024 <;> simp [h1, h2, h3, h4, h5]
  by_cases h6 : m.session = c.session <;> simp [h6]
  by_cases h7 : checkMessageID now m.msgId = true <;> simp [h7]
  by_cases h8 : (consume c.buf m.msgId).2 = true <;> simp [h8]

/-- The message handed on is the decrypted one, unchanged. -/
theorem accept_returns_message (c : Conn) (now : Int) (keyOk : Bool) (m m' : Msg)
    (h : (decryptMessage c now keyOk m).2 = some m') : m' = m := by
  unfold decryptMessage at h
  cases hd : cipherDecrypt keyOk m with
  | none => simp [hd] at h
  | some msg =>
    have hm : msg = m := by
      unfold cipherDecrypt at hd
      split at hd
      · exact (Option.some.inj hd).symm
      · cases hd
    subst hm
    by_cases h6 : msg.session = c.session <;> by_cases h7 : checkMessageID now msg.msgId = true <;>
      by_cases h8 : (consume c.buf msg.msgId).2 = true <;> simp [hd, h6, h7, h8] at h
    exact h.symm

/-- Every other message is dropped without reaching any handler: no `handleMessage`, no
acknowledgement, and the connection's state (replay buffer included) is unchanged. -/
theorem rejected_reaches_no_handler (c : Conn) (now : Int) (keyOk : Bool) (m : Msg)
    (h : (decryptMessage c now keyOk m).2 = none) :
    (consumeMessage c now keyOk m).2 = {} ∧ (consumeMessage c now keyOk m).1 = c := by
  have hstate : (decryptMessage c now keyOk m).1 = c := by
    unfold decryptMessage at h ⊢
    cases hd : cipherDecrypt keyOk m with
    | none => simp
    | some msg =>
      by_cases h6 : msg.session = c.session <;> by_cases h7 : checkMessageID now msg.msgId = true <;>
        by_cases h8 : (consume c.buf msg.msgId).2 = true <;> simp [hd, h6, h7, h8] at h ⊢
  unfold consumeMessage
  cases hd : decryptMessage c now keyOk m with
  | mk c' r =>
    rw [hd] at h hstate
    simp only at h hstate
    subst h; subst hstate
    exact ⟨rfl, rfl⟩

/-- A message reaches `handleMessage` only through an accepting `decryptMessage`, i.e. only if
the conditions of `accept_iff` held for the state the frame met. -/
theorem handled_only_if_accepted (c : Conn) (now : Int) (keyOk : Bool) (m : Msg)
    (h : (consumeMessage c now keyOk m).2.handled ≠ none) :
    ∃ m', (decryptMessage c now keyOk m).2 = some m' := by
  unfold consumeMessage at h
  cases hd : decryptMessage c now keyOk m with
  | mk c' r =>
    cases r with
    | none => rw [hd] at h; simp at h
    | some m' => exact ⟨m', rfl⟩

/-! ### the read loop: frames handled concurrently, rejected frames, fatal frames -/

/-- While the buffer is not full (some slot was never written) every fresh positive id is accepted —
whatever was accepted before and in whatever order.  Hence, as long as fewer than N ids have been
accepted, the set of handled ids does not depend on the order in which concurrent frame handlers
reach the buffer: each valid id gets through exactly once (`consume_spec` rejects its copies). -/
theorem fresh_id_accepted_while_not_full (b : List Int) (h0 : (0 : Int) ∈ b) (id : Int) (hid : 0 < id)
    (hfresh : id ∉ b) : (consume b id).2 = true := by
  have hb : b ≠ [] := by intro e; rw [e] at h0; simp at h0
  rw [consume_accepts_iff b hb id]
  exact ⟨hfresh, fun h => by have := h 0 h0; omega⟩

/-- Below capacity the replay buffer is order-independent: any sequence of distinct fresh positive
ids that fits into the never-written slots is accepted entirely — so however the concurrent frame
handlers of `readLoop` are serialised, every valid id gets through. -/
theorem distinct_ids_all_accepted_below_capacity (ids : List Int) : ∀ (b : List Int),
    ids.Nodup → (∀ x ∈ ids, 0 < x) → (∀ y ∈ b, 0 ≤ y) → (∀ x ∈ ids, x ∉ b) → ids.length ≤ b.count 0 →
    (runBuf b ids).2 = ids.map (fun _ => true) := by
  induction ids with
  | nil => intro b _ _ _ _ _; rfl
  | cons x rest ih =>
    intro b hnd hpos hnn hfresh hcap
    have hx : 0 < x := hpos x (by simp)
    have hxb : x ∉ b := hfresh x (by simp)
    have h0 : (0 : Int) ∈ b := by
      have : 0 < b.count 0 := by simp at hcap; omega
      exact List.count_pos_iff.mp this
    have hb : b ≠ [] := by intro e; rw [e] at h0; simp at h0
    have hacc := fresh_id_accepted_while_not_full b h0 x hx hxb
    rcases consume_cases b hb x with ⟨hm, _⟩ | ⟨_, k, m, hk, hmin, ⟨_, e⟩ | ⟨_, e⟩⟩
    · exact absurd hm hxb
    · rw [e] at hacc; cases hacc
    · have hm0 : m = 0 := by
        have h1 := hmin 0 h0
        have h2 := hnn m (List.mem_iff_getElem?.mpr ⟨k, hk⟩)
        omega
      subst hm0
      have hcnt := count_set_zero b k x hk (by omega)
      have hnd' := (List.nodup_cons.mp hnd)
      simp only [runBuf, runBufWith, List.map_cons]
      have hstep : consume b x = (b.set k x, true) := e
      rw [show (consume b x).2 = true from by rw [hstep], show (consume b x).1 = b.set k x from by rw [hstep]]
      have := ih (b.set k x) hnd'.2 (fun y hy => hpos y (by simp [hy]))
        (fun y hy => by
          rcases List.mem_or_eq_of_mem_set hy with h | h
          · exact hnn y h
          · omega)
        (fun y hy hyb => by
          rcases List.mem_or_eq_of_mem_set hyb with h | h
          · exact hfresh y (by simp [hy]) h
          · subst h; exact hnd'.1 hy)
        (by simp at hcap; omega)
      simp only [runBuf] at this
      rw [this]

/-- … and once accepted, a second copy of the id is rejected as long as it is still stored. -/
theorem stored_id_rejected (b : List Int) (id : Int) (h : id ∈ b) : (consume b id).2 = false := by
  have hb : b ≠ [] := by intro e; rw [e] at h; simp at h
  cases hc : (consume b id).2 with
  | false => rfl
  | true => exact absurd h ((consume_accepts_iff b hb id).mp hc).1

/-- A frame that decrypts never stops the read loop: wrong session, stale / future / client-typed
id and replays are only dropped. -/
theorem rejected_frame_is_not_fatal (c : Conn) (now : Int) (keyOk : Bool) (m : Msg)
    (h : cipherDecrypt keyOk m ≠ none) : (consumeOutcome c now keyOk m).2 ≠ .fatal := by
  unfold consumeOutcome
  cases hd : cipherDecrypt keyOk m with
  | none => exact absurd hd h
  | some msg =>
    simp only
    cases hm : decryptMessage c now keyOk m with
    | mk c' r => cases r <;> simp

/-- A frame that does not decrypt (foreign key, bad msg_key, bad padding or length) is fatal and
reaches no handler. -/
theorem undecryptable_frame_is_fatal (c : Conn) (now : Int) (keyOk : Bool) (m : Msg)
    (h : cipherDecrypt keyOk m = none) : consumeOutcome c now keyOk m = (c, .fatal) := by
  unfold consumeOutcome; rw [h]

/-- The read loop halts iff some frame is undecryptable. -/
theorem readLoop_halts_iff (fs : List (Int × Bool × Msg)) : ∀ c,
    (readLoop c fs).2 = true ↔ ∃ f ∈ fs, cipherDecrypt f.2.1 f.2.2 = none := by
  induction fs with
  | nil => intro c; simp [readLoop]
  | cons f rest ih =>
    intro c
    obtain ⟨now, k, m⟩ := f
    simp only [readLoop, Bool.or_eq_true, decide_eq_true_eq, ih, List.mem_cons, exists_eq_or_imp]
    constructor
    · rintro (h | h)
      · left
        cases hd : cipherDecrypt k m with
        | none => rfl
        | some msg => exact absurd h (rejected_frame_is_not_fatal c now k m (by rw [hd]; simp))
      · exact Or.inr h
    · rintro (h | h)
      · left; rw [undecryptable_frame_is_fatal c now k m h]
      · exact Or.inr h

/-! ### non-vacuity -/

example : (runBuf (newBuf 3) [10, 20, 30, 40, 10, 20, 35, 30, 5, 50]).2
    = [true, true, true, true, false, false, true, false, false, true] := by decide

example : checkMessageID (1700000300 * 1000000000) (1700000000 * 4294967296 + 1) = true := by decide
example : checkMessageID (1700000300 * 1000000000 + 2) (1700000000 * 4294967296 + 1) = false := by decide
example : checkMessageID (1700000000 * 1000000000 + 3) (1700000030 * 4294967296 + 3) = true := by decide
example : checkMessageID (1700000000 * 1000000000 + 3) (1700000030 * 4294967296 + 7) = false := by decide
example : checkMessageID (1700000000 * 1000000000) (1700000000 * 4294967296 + 4) = false := by decide

example :
    runConn { session := 7, buf := newBuf 2 }
      [ (1700000000 * 1000000000, true, { session := 7, msgId := 1700000000 * 4294967296 + 1, seqNo := 1, dataLen := 16, padding := 16 }),
        (1700000000 * 1000000000, true, { session := 7, msgId := 1700000000 * 4294967296 + 1, seqNo := 1, dataLen := 16, padding := 16 }),
        (1700000000 * 1000000000, true, { session := 8, msgId := 1700000001 * 4294967296 + 1, seqNo := 1, dataLen := 16, padding := 16 }),
        (1700000000 * 1000000000, true, { session := 7, msgId := 1700000001 * 4294967296 + 1, seqNo := 2, dataLen := 16, padding := 0 }),
        (1700000000 * 1000000000, false, { session := 7, msgId := 1700000001 * 4294967296 + 1, seqNo := 2, dataLen := 16, padding := 16 }),
        (1700000000 * 1000000000, true, { session := 7, msgId := 1700000001 * 4294967296 + 1, seqNo := 2, dataLen := 16, padding := 16 }) ]
    = [ { handled := some (1700000000 * 4294967296 + 1), ack := true }, {}, {}, {}, {},
        { handled := some (1700000001 * 4294967296 + 1), ack := false } ] := by decide

end TdModel.C07
