/-
C07 — only fresh, in-session, correctly padded server messages are accepted.
Property theorems only (helper lemmas live in TdModel/Lemmas/C07.lean).

The decryption step is the interface `cipherDecrypt` (see Model/C07.lean): the cipher returns the
message iff it decrypts under the session key and has a data length ≥ 0 divisible by 4 and
12..1024 bytes of padding.  That interface belongs to C04/C05 (`crypto.Cipher.Decrypt`).
-/
import TdModel.Lemmas.C07

namespace TdModel.C07
open TdModel

/-! ### what the model reads from the source on every run -/

/-- The specification's literals: 300 s / 30 s window, 100 remembered ids, ≤ 1024 bytes of padding,
server types = id mod 4 ∈ {1, 3}. -/
theorem constants_are_spec :
    Facts.C07.maxPast = 300 * 1000000000 ∧ Facts.C07.maxFuture = 30 * 1000000000 ∧
    Facts.C07.bufSize = 100 ∧ Facts.C07.maxPadding = 1024 ∧ Facts.C07.messageIDModulo = 4 ∧
    Facts.C07.yieldServerResponse = 1 ∧ Facts.C07.yieldFromServer = 3 := by decide

/-- The modelled code is the code in the source: `Consume` starts its minimum search from the
first slot; `decryptMessage` checks decrypt → session → id → replay buffer in this order (so a
foreign or stale frame never touches the buffer); `consumeMessage` returns on a rejected message
before `handleMessage`. -/
theorem code_is_modelled :
    Facts.C07.consumeBody =
      "b.mux.Lock() ; defer b.mux.Unlock() ; minIDx, minID := 0, b.buf[0] ; for i, id := range b.buf { if id == newID { return false } if id < minID { minIDx = i minID = id } } ; if newID < minID { return false } ; b.buf[minIDx] = newID ; return true" ∧
    Facts.C07.decryptMessageSteps =
      "session := c.session() | msg, err := c.cipher.DecryptFromBuffer(session.Key, b) | if err != nil | if msg.SessionID != session.ID | if err := checkMessageID(c.clock.Now(), msg.MessageID); err != nil | if !c.messageIDBuf.Consume(msg.MessageID) | return msg, nil" ∧
    Facts.C07.consumeMessageHead =
      "msg, err := c.decryptMessage(buf) | if errors.Is(err, errRejected) { … return nil } | if err != nil { … return errors.Wrap(err, \"consume message\") } | if err := c.handleMessage(msg.MessageID, &bin.Buffer{Buf: msg.Data()}); err != nil { … c.log.Warn(ctx, \"Error while handling message\", log.Error(err)) }" :=
  ⟨rfl, rfl, rfl⟩

/-! ### the replay buffer -/

/-- Ids stored in the Go slice (0 = slot never written) and whether all N slots are in use. -/
def stored (b : List Int) : List Int := b.filter (· ≠ 0)
def full (b : List Int) : Prop := (0 : Int) ∉ b

/-- `Consume` on the raw slice: accepted iff the id equals no slot and is not below every slot. -/
theorem consume_spec_raw (b : List Int) (hb : b ≠ []) (id : Int) :
    (consume b id).2 = true ↔ id ∉ b ∧ ¬ (∀ y ∈ b, id < y) :=
  consume_accepts_iff b hb id

/-- `Consume` as the specification words it: a (positive) id is accepted iff it is not equal to
any stored id and not (N ids are stored and it is lower than all of them). -/
theorem consume_spec (b : List Int) (hb : b ≠ []) (id : Int) (hid : 0 < id) :
    (consume b id).2 = true ↔ id ∉ stored b ∧ ¬ (full b ∧ ∀ y ∈ stored b, id < y) := by
  rw [consume_accepts_iff b hb id]
  unfold stored full
  constructor
  · intro ⟨h1, h2⟩
    refine ⟨fun h => h1 (List.mem_filter.mp h).1, fun ⟨hf, hl⟩ => h2 ?_⟩
    intro y hy
    by_cases hy0 : y = 0
    · subst hy0; exact absurd hy hf
    · exact hl y (List.mem_filter.mpr ⟨hy, by simpa using hy0⟩)
  · intro ⟨h1, h2⟩
    refine ⟨fun h => h1 (List.mem_filter.mpr ⟨h, by simp; omega⟩), fun hl => h2 ⟨?_, ?_⟩⟩
    · intro h0; have := hl 0 h0; omega
    · intro y hy; exact hl y (List.mem_filter.mp hy).1

/-- Effect on the buffer: an accepted id overwrites a slot holding the minimum; a rejected id
changes nothing. -/
theorem consume_state (b : List Int) (hb : b ≠ []) (id : Int) :
    ((consume b id).2 = true → ∃ k m, b[k]? = some m ∧ (∀ y ∈ b, m ≤ y) ∧ (consume b id).1 = b.set k id) ∧
    ((consume b id).2 = false → (consume b id).1 = b) := by
  refine ⟨?_, consume_reject_unchanged b id⟩
  intro h
  rcases consume_cases b hb id with ⟨_, e⟩ | ⟨_, k, m, hk, hmin, ⟨_, e⟩ | ⟨_, e⟩⟩
  · rw [e] at h; cases h
  · rw [e] at h; cases h
  · exact ⟨k, m, hk, hmin, by rw [e]⟩

/-- After **any** history of (positive) ids the buffer of size N holds the N largest accepted
ids: every non-empty slot is an accepted id, slots are pairwise distinct, and an accepted id that
is no longer stored is lower than everything stored (hence the buffer is full of larger ones). -/
theorem consume_keeps_N_largest (n : Nat) (hn : 0 < n) (ids : List Int) (hpos : ∀ x ∈ ids, 0 < x) :
    let b := (runAcc (newBuf n) [] ids).1
    let accepted := (runAcc (newBuf n) [] ids).2
    b.length = n ∧
    (∀ x ∈ b, x = 0 ∨ x ∈ accepted) ∧
    (∀ a ∈ accepted, a ∈ b ∨ ∀ s ∈ b, a < s) ∧
    (∀ (i j : Nat) (x : Int), b[i]? = some x → b[j]? = some x → x ≠ 0 → i = j) := by
  have hne : newBuf n ≠ [] := by
    unfold newBuf; cases n with
    | zero => omega
    | succ k => simp [List.replicate_succ]
  obtain ⟨inv, hlen⟩ := runAcc_inv ids (newBuf n) [] hne hpos (inv_init n)
  exact ⟨by rw [hlen]; simp [newBuf], inv.sub, inv.largest, inv.distinct⟩

/-- The unrepaired `Consume` (minimum search started at `minID = 0, idx = 0`) remembers one id
only: after 10, 20, 30 the replay of 10 is accepted — the witness of defect D1. -/
theorem consume_old_counterexample :
    (runBufWith consumeOld (newBuf 3) [10, 20, 30, 10]).2 = [true, true, true, true] ∧
    (runBuf (newBuf 3) [10, 20, 30, 10]).2 = [true, true, true, false] := by decide

/-! ### the time window and the type of the id -/

/-- `checkMessageID` accepts exactly the server-typed ids created at most 300 s before and at most
30 s after `now` (`idTime` = the library's own id→time mapping). -/
theorem checkMessageID_spec (now id : Int) :
    checkMessageID now id = true ↔
      (id.tmod 4 = 1 ∨ id.tmod 4 = 3) ∧
      now - idTime id ≤ 300 * 1000000000 ∧ idTime id - now ≤ 30 * 1000000000 := by
  unfold checkMessageID serverTyped
  rw [modulo_eq, yieldServerResponse_eq, yieldFromServer_eq, maxPast_eq, maxFuture_eq]
  by_cases a : id.tmod 4 = 1 <;> by_cases b : id.tmod 4 = 3 <;> by_cases p : idTime id < now <;>
    by_cases q : now - idTime id > 300000000000 <;> by_cases r : idTime id - now > 30000000000 <;>
    simp [a, b, p, q, r] <;> omega

/-! ### the whole acceptance path -/

/-- A frame is handed on by `decryptMessage` iff it decrypts under the session key, has a data
length divisible by 4 and 12..1024 bytes of padding, carries the connection's session id, a
server-typed id inside the 300 s / 30 s window, and the replay buffer accepts the id. -/
theorem accept_iff (c : Conn) (now : Int) (keyOk : Bool) (m : Msg) :
    (∃ m', (decryptMessage c now keyOk m).2 = some m') ↔
      keyOk = true ∧ 0 ≤ m.dataLen ∧ m.dataLen.tmod 4 = 0 ∧ 12 ≤ m.padding ∧ m.padding ≤ 1024 ∧
      m.session = c.session ∧
      ((m.msgId.tmod 4 = 1 ∨ m.msgId.tmod 4 = 3) ∧
        now - idTime m.msgId ≤ 300 * 1000000000 ∧ idTime m.msgId - now ≤ 30 * 1000000000) ∧
      (consume c.buf m.msgId).2 = true := by
  rw [← checkMessageID_spec]
  unfold decryptMessage cipherDecrypt
  rw [minPadding_eq, maxPadding_eq]
  by_cases h1 : keyOk = true <;> by_cases h2 : 0 ≤ m.dataLen <;> by_cases h3 : m.dataLen.tmod 4 = 0 <;>
    by_cases h4 : 12 ≤ m.padding <;> by_cases h5 : m.padding ≤ 1024 <;> simp [h1, h2, h3, h4, h5]
  by_cases h6 : m.session = c.session <;> simp [h6]
  by_cases h7 : checkMessageID now m.msgId = true <;> simp [h7]
  by_cases h8 : (consume c.buf m.msgId).2 = true <;> simp [h8]

/-- The message handed on is the decrypted one, unchanged. -/
theorem accept_returns_message (c : Conn) (now : Int) (keyOk : Bool) (m m' : Msg)
    (h : (decryptMessage c now keyOk m).2 = some m') : m' = m := by
  unfold decryptMessage at h
  cases hd : cipherDecrypt keyOk m with
  | none => simp [hd] at h
  | some msg =>
    have hm : msg = m := by
      unfold cipherDecrypt at hd
      split at hd
      · exact (Option.some.inj hd).symm
      · cases hd
    subst hm
    by_cases h6 : msg.session = c.session <;> by_cases h7 : checkMessageID now msg.msgId = true <;>
      by_cases h8 : (consume c.buf msg.msgId).2 = true <;> simp [hd, h6, h7, h8] at h
    exact h.symm

/-- Every other message is dropped without reaching any handler: no `handleMessage`, no
acknowledgement, and the connection's state (replay buffer included) is unchanged. -/
theorem rejected_reaches_no_handler (c : Conn) (now : Int) (keyOk : Bool) (m : Msg)
    (h : (decryptMessage c now keyOk m).2 = none) :
    (consumeMessage c now keyOk m).2 = {} ∧ (consumeMessage c now keyOk m).1 = c := by
  have hstate : (decryptMessage c now keyOk m).1 = c := by
    unfold decryptMessage at h ⊢
    cases hd : cipherDecrypt keyOk m with
    | none => simp
    | some msg =>
      by_cases h6 : msg.session = c.session <;> by_cases h7 : checkMessageID now msg.msgId = true <;>
        by_cases h8 : (consume c.buf msg.msgId).2 = true <;> simp [hd, h6, h7, h8] at h ⊢
  unfold consumeMessage
  cases hd : decryptMessage c now keyOk m with
  | mk c' r =>
    rw [hd] at h hstate
    simp only at h hstate
    subst h; subst hstate
    exact ⟨rfl, rfl⟩

/-- A message reaches `handleMessage` only through an accepting `decryptMessage`, i.e. only if
the conditions of `accept_iff` held for the state the frame met. -/
theorem handled_only_if_accepted (c : Conn) (now : Int) (keyOk : Bool) (m : Msg)
    (h : (consumeMessage c now keyOk m).2.handled ≠ none) :
    ∃ m', (decryptMessage c now keyOk m).2 = some m' := by
  unfold consumeMessage at h
  cases hd : decryptMessage c now keyOk m with
  | mk c' r =>
    cases r with
    | none => rw [hd] at h; simp at h
    | some m' => exact ⟨m', rfl⟩

/-! ### non-vacuity -/

example : (runBuf (newBuf 3) [10, 20, 30, 40, 10, 20, 35, 30, 5, 50]).2
    = [true, true, true, true, false, false, true, false, false, true] := by decide

example : checkMessageID (1700000300 * 1000000000) (1700000000 * 4294967296 + 1) = true := by decide
example : checkMessageID (1700000300 * 1000000000 + 2) (1700000000 * 4294967296 + 1) = false := by decide
example : checkMessageID (1700000000 * 1000000000 + 3) (1700000030 * 4294967296 + 3) = true := by decide
example : checkMessageID (1700000000 * 1000000000 + 3) (1700000030 * 4294967296 + 7) = false := by decide
example : checkMessageID (1700000000 * 1000000000) (1700000000 * 4294967296 + 4) = false := by decide

example :
    runConn { session := 7, buf := newBuf 2 }
      [ (1700000000 * 1000000000, true, { session := 7, msgId := 1700000000 * 4294967296 + 1, seqNo := 1, dataLen := 16, padding := 16 }),
        (1700000000 * 1000000000, true, { session := 7, msgId := 1700000000 * 4294967296 + 1, seqNo := 1, dataLen := 16, padding := 16 }),
        (1700000000 * 1000000000, true, { session := 8, msgId := 1700000001 * 4294967296 + 1, seqNo := 1, dataLen := 16, padding := 16 }),
        (1700000000 * 1000000000, true, { session := 7, msgId := 1700000001 * 4294967296 + 1, seqNo := 2, dataLen := 16, padding := 0 }),
        (1700000000 * 1000000000, false, { session := 7, msgId := 1700000001 * 4294967296 + 1, seqNo := 2, dataLen := 16, padding := 16 }),
        (1700000000 * 1000000000, true, { session := 7, msgId := 1700000001 * 4294967296 + 1, seqNo := 2, dataLen := 16, padding := 16 }) ]
    = [ { handled := some (1700000000 * 4294967296 + 1), ack := true }, {}, {}, {}, {},
        { handled := some (1700000001 * 4294967296 + 1), ack := false } ] := by decide

end TdModel.C07
