/-
C30 — saved sessions hold the key confirmed for the primary DC.
Property theorems only (helper lemmas live in TdModel/Lemmas/C30.lean).

`runI s0 ns` feeds an arbitrary list of session notifications (primary DC, other DCs, CDN DCs,
DC id 0, with and without a permanent key, storage failing or not) and migrations to the model of
`onSession` / `onCDNSession` / `saveSession` / `Migrate`; `restoreI` is `restoreConnection`;
`crunI` runs any interleaving of their atomic steps.  All three are INTERPRETED from the structured
facts regenerated from the Go source (`TdModel/Model/C30Interp.lean`); `interpreted_model_is_documented_model`
ties them to the hand-written transliteration.
-/
import TdModel.Lemmas.C30
import TdModel.Lemmas.C30Conc
import TdModel.Lemmas.C30Interp
import TdModel.Lemmas.C30Mgr

namespace TdModel.C30
open TdModel

/-- After any history, what is in the storage is (unless it was there before) the data of ONE
notification of the history, taken as a whole: that notification's DC id together with that same
notification's auth key — the permanent key when PFS supplied one — key id and salt; it came
from a regular (non-CDN) connection; and when it arrived its DC was the primary DC (or the
client had no primary DC yet, or the notification carried DC id 0). -/
theorem saved_pairs_dc_with_its_key (s0 : St) (ns : List Notif) (d : Stored)
    (h : (runI s0 ns).stored = some d) :
    s0.stored = some d ∨
      ∃ pre n post, ns = pre ++ n :: post ∧ n.kind = .regular ∧
        d.dc = n.cfgDC ∧
        d.authKey = (if n.permKey.isZero then n.key else n.permKey).value ∧
        d.authKeyID = (if n.permKey.isZero then n.key else n.permKey).id ∧
        d.salt = n.salt ∧
        (n.cfgDC = (runI s0 pre).session.dc ∨ (runI s0 pre).session.dc = 0 ∨ n.cfgDC = 0) := by
  simp only [runI_eq] at h ⊢
  rcases stored_origin ns s0 d h with h1 | ⟨pre, n, post, addr, he, ha, hd⟩
  · exact Or.inl h1
  · right
    refine ⟨pre, n, post, he, ?_, ?_, ?_, ?_, ?_, accepted_dc ha⟩
    · simp only [accepted, Bool.and_eq_true, decide_eq_true_eq] at ha; exact ha.1.1.1
    all_goals (subst hd; simp [storedOf, effKey]; try split <;> rfl)

/-- The same under concurrency, including DC migration: notifications of any number of connections,
each split into its atomic steps (DC-map update, primary-DC test, `c.session.Store`, storage load +
computation of the data, storage save), and any number of `c.session.Migrate` calls, interleaved in any
way (`as` is any list of "an agent arrives" / "agent `i` performs its next step").  The storage still
holds the whole data of ONE regular notification — in particular the stored DC id is that
notification's DC, never the DC of a concurrent migration or of another notification — and that
notification passed the primary-DC test against the primary DC it read (`t.saw`). -/
theorem concurrent_saved_pairs_dc_with_its_key (s0 : St) (as : List Act) (d : Stored)
    (h : (crunI (cinit s0) as).st.stored = some d) :
    s0.stored = some d ∨
      ∃ i t, (crunI (cinit s0) as).threads i = some t ∧ t.n.kind = .regular ∧
        d.dc = t.n.cfgDC ∧
        d.authKey = (if t.n.permKey.isZero then t.n.key else t.n.permKey).value ∧
        d.authKeyID = (if t.n.permKey.isZero then t.n.key else t.n.permKey).id ∧
        d.salt = t.n.salt ∧
        (t.n.cfgDC = t.saw ∨ t.saw = 0 ∨ t.n.cfgDC = 0) := by
  simp only [crunI_eq] at h ⊢
  rcases (cinv_run s0.stored as (cinit s0) (cinv_init s0)).stored with h1 | ⟨i, t, ht, hk, _, he, ⟨addr, hp⟩, hs⟩
  · left; rw [← h1]; exact h
  · right
    rw [h, hp] at hs
    have hd := Option.some.inj hs
    refine ⟨i, t, ht, hk, ?_, ?_, ?_, ?_, he⟩
    all_goals (subst hd; simp [storedOf, effKey]; try split <;> rfl)

/-- `saved_dc_is_notification_dc`: in every interleaving with migrations the stored DC id is the DC
of the notification whose key and salt are stored (corollary, stated on its own because it is the
part a "store the live primary DC" change breaks). -/
theorem saved_dc_is_notification_dc (s0 : St) (as : List Act) (d : Stored)
    (h : (crunI (cinit s0) as).st.stored = some d) (h0 : s0.stored ≠ some d) :
    ∃ i t, (crunI (cinit s0) as).threads i = some t ∧ t.n.kind = .regular ∧ d.dc = t.n.cfgDC ∧
      d.salt = t.n.salt := by
  rcases concurrent_saved_pairs_dc_with_its_key s0 as d h with h1 | ⟨i, t, ht, hk, hdc, _, _, hs, _⟩
  · exact absurd h1 h0
  · exact ⟨i, t, ht, hk, hdc, hs⟩

/-- The sequential semantics is the interleaving in which an agent runs alone, and it is the
hand-written sequential model. -/
theorem sequential_is_an_interleaving (s : St) (n : Notif) :
    stepI s n = ((aloneWith advI s n).1, (aloneWith advI s n).2.res) ∧ stepI s n = step s n :=
  ⟨rfl, stepI_eq s n⟩

/-- Where notifications come from (`manager.Conn`): whatever any list of connection actions —
connections created, sessions confirmed on them before or after their config is known, configs
arriving — hands to the client is a plain list of notifications (`deliveries`), so every theorem
above applies to the client driven through its connections. -/
theorem managed_conns_are_a_notification_list (s : St) (cs : List MConn) (acts : List MAct) :
    (mrun (s, cs) acts).1 = runI s (deliveries cs acts) :=
  mrun_eq acts s cs

/-- …and each of those notifications pairs a session confirmed on ONE connection with THAT
connection's config — the `ThisDC` its own server reported, or the DC a CDN connection was dialled
to — and goes to the handler of that connection's mode.  For ANY list of connection actions:
connections created, sessions confirmed before the config is known, while the `Setup` callback
runs, or afterwards, in any interleaving across connections.  The order of the steps of
`Conn.init` (config obtained, `Setup`, `c.cfg` assigned, readiness signalled, flush) is read from
the source on every run and interpreted; the proof needs readiness to come after the assignment. -/
theorem conn_pairs_session_with_its_config (acts : List MAct) (n : Notif) (hn : n ∈ deliveries [] acts) :
    ∃ cdn dc serverDC, MAct.new cdn dc serverDC ∈ acts ∧
      n.cfgDC = (if cdn then dc else serverDC) ∧ n.kind = (if cdn then .cdn else .regular) ∧ n.fault = .none := by
  obtain ⟨cdn, dc, sdc, hm, h⟩ := deliveries_ok acts [] (by intro c hc; cases hc) n hn
  rcases hm with hm | hm
  · simp at hm
  · exact ⟨cdn, dc, sdc, hm, h⟩

/-- Invariant behind it: no connection is ever "ready" (so that `OnSession` flushes at once) before
its `c.cfg` holds its own config. -/
theorem conn_never_ready_before_config (cs : List MConn) (a : MAct) (hok : AllOK cs) :
    AllOK (mstep cs a).1 ∧ ∀ c ∈ (mstep cs a).1, c.ready = true → c.cfg = c.ownDC := by
  have h1 := (mstep_ok cs a hok).1
  exact ⟨h1, fun c hc hr => (h1 c hc).ready_cfg hr⟩

/-- `Conn.OnSession` and `flushPendingSession` are the modelled ones (regenerated, structurally
classified statement lists): buffer, return while the config is not ready, else flush; the flush
copies and clears `pending` and reads `c.cfg` in one critical section and delivers in order. -/
theorem conn_layer_is_modelled :
    Facts.C30.connOnSession = ["buffer", "wait-config", "flush"] ∧
    Facts.C30.connFlush = ["lock", "copy", "read-cfg", "clear", "unlock", "deliver-each(cfg,s)"] := by
  decide

/-- A client whose primary DC is `p ≠ 0` only ever stores sessions of DC `p`, whatever arrives
from other DCs and CDN DCs in whatever order (as long as the client is not told to migrate). -/
theorem stored_dc_is_primary (s0 : St) (ns : List Notif) (d : Stored)
    (hp : s0.session.dc ≠ 0) (hn : ∀ n ∈ ns, n.cfgDC ≠ 0 ∧ n.kind ≠ .migrate)
    (h : (runI s0 ns).stored = some d) :
    s0.stored = some d ∨ d.dc = s0.session.dc := by
  rcases saved_pairs_dc_with_its_key s0 ns d h with h1 | ⟨pre, n, post, he, _, hdc, _, _, _, hacc⟩
  · exact Or.inl h1
  · right
    have hpre : (runI s0 pre).session.dc = s0.session.dc := by
      rw [runI_eq]
      exact run_primary pre s0 hp (fun m hm => hn m (by rw [he]; exact List.mem_append_left _ hm))
    have hn0 : n.cfgDC ≠ 0 := (hn n (by rw [he]; simp)).1
    rw [hpre] at hacc
    rcases hacc with h2 | h2 | h2
    · rw [hdc, h2]
    · exact absurd h2 hp
    · exact absurd h2 hn0

/-- With a storage that does not fail, the stored session is always the in-memory primary
session (`c.session`): same DC, key, key id and salt (sequential notifications, no migration in between —
a migration zeroes `c.session` and leaves the storage to the next notification). -/
theorem stored_is_primary_session (s0 : St) (ns : List Notif) (d : Stored)
    (hst : s0.hasStorage = true) (h0 : s0.stored = none)
    (hf : ∀ n ∈ ns, n.fault = .none ∧ n.kind ≠ .migrate) (h : (runI s0 ns).stored = some d) :
    d.dc = (runI s0 ns).session.dc ∧ d.authKey = (runI s0 ns).session.key.value ∧
      d.authKeyID = (runI s0 ns).session.key.id ∧ d.salt = (runI s0 ns).session.salt := by
  simp only [runI_eq] at h ⊢
  exact run_inSync ns s0 hst hf (by intro d hd; rw [h0] at hd; cases hd) d h

/-- A notification from a non-primary DC changes neither the storage nor the primary session. -/
theorem nonprimary_ignored (s : St) (n : Notif) (hk : n.kind = .regular)
    (h1 : n.cfgDC ≠ 0) (h2 : s.session.dc ≠ 0) (h3 : s.session.dc ≠ n.cfgDC) :
    (stepI s n).1.stored = s.stored ∧ (stepI s n).1.session = s.session ∧ (stepI s n).2 = .ok := by
  have : skips s.session.dc n.cfgDC = true := by simp [skips, h1, h2, h3]
  simp [stepI_eq, step, hk, onSession, this]

/-- CDN connections never touch the storage or the primary session. -/
theorem cdn_session_never_saved (s : St) (n : Notif) (hk : n.kind = .cdn) :
    (stepI s n).1.stored = s.stored ∧ (stepI s n).1.session = s.session := by
  simp [stepI_eq, step, hk, onCDNSession]

/-- A stored session whose key id is not bytes 12..19 of the SHA-1 of its key (both taken as
`restoreConnection` copies them into `[256]byte` / `[8]byte`) is refused. -/
theorem restore_refuses_mismatch (P : Prims) (s : St) (d : Stored) (hst : s.hasStorage = true)
    (h : ((P.sha1 (fit 256 d.authKey)).drop 12).take 8 ≠ fit 8 d.authKeyID) :
    restoreI P s (.data d) = .error .corrupted := by
  have h' : keyID P (fit 256 d.authKey) ≠ fit 8 d.authKeyID := h
  simp [restoreI_eq, restore, hst, h']

/-- Whatever `restoreConnection` installs has a key id matching its key, the stored salt and
the stored DC (the configured DC when the file has none); and nothing else changes. -/
theorem restore_installs_checked_key (P : Prims) (s s' : St) (d : Stored) (hst : s.hasStorage = true)
    (h : restoreI P s (.data d) = .ok s') :
    s'.session.key.id = ((P.sha1 s'.session.key.value).drop 12).take 8 ∧
      s'.session.key.value = fit 256 d.authKey ∧ s'.session.key.id = fit 8 d.authKeyID ∧
      s'.session.salt = d.salt ∧ s'.session.dc = (if d.dc = 0 then s.session.dc else d.dc) ∧
      s'.stored = s.stored := by
  simp only [restoreI_eq, restore, hst, Bool.not_true, Bool.false_eq_true, if_false] at h
  split at h
  · cases h
  · rename_i hk
    have hk' : keyID P (fit 256 d.authKey) = fit 8 d.authKeyID := Decidable.not_not.mp hk
    cases h
    exact ⟨hk'.symm, rfl, rfl, rfl, rfl, rfl⟩

/-- Save then restore: a session saved from a notification with a well-formed key (256 + 8 bytes,
id = SHA-1 id of the key — what mtproto hands out) is accepted on the next start and reproduces
exactly that notification's DC, key and salt. -/
theorem restore_of_saved (P : Prims) (s r : St) (n : Notif) (hacc : accepted s n = true)
    (hr : r.hasStorage = true) (hdc : n.cfgDC ≠ 0)
    (hv : (effKey n).value.length = 256) (hi : (effKey n).id.length = 8)
    (hid : ((P.sha1 (effKey n).value).drop 12).take 8 = (effKey n).id) :
    ∃ r', restoreI P r (loadOf (stepI s n).1) = .ok r' ∧ r'.session = sessOf n := by
  rw [restoreI_eq, stepI_eq]
  obtain ⟨addr, h1⟩ := step_stored_of_accepted s n hacc
  have hk : keyID P (effKey n).value = (effKey n).id := hid
  refine ⟨{ r with session := sessOf n }, ?_, rfl⟩
  simp [loadOf, h1, restore, hr, storedOf, fit_of_length _ _ hv, fit_of_length _ _ hi, hk, hdc, sessOf]

/-- The regenerated facts are what the model assumes: the key id is bytes 12..19 of the SHA-1;
regular connections report to `onSession`, CDN connections to `onCDNSession`; `migrateToDc` calls
`c.session.Migrate` with its DC parameter, which sets the DC and zeroes key and salt (the model's
migration step). -/
theorem constants_are_spec :
    Facts.C30.keyIDOffset = 12 ∧ Facts.C30.keyIDLen = 8 ∧
      Facts.C30.regularHandlerCalls = "onSession" ∧ Facts.C30.cdnHandlerCalls = "onCDNSession" ∧
      Facts.C30.migrateToDcMigratesSession = true ∧
      Facts.C30.migrateAssigns = ["AuthKey=zero", "DC=param", "Salt=zero"] := by
  decide

/-- The model interpreted from the regenerated structured facts (which value is stored as DC / key /
key id / salt, the skip test, the refusal test, the order of the shared-state steps — read off the Go
source by a symbolic executor on every run) IS the hand-written transliteration of
`telegram/session.go` (Model/C30.lean, Model/C30Conc.lean), for every state and input. -/
theorem interpreted_model_is_documented_model :
    (∀ s t, advI s t = advThread s t) ∧ (∀ s n, stepI s n = step s n) ∧
      (∀ P s l, restoreI P s l = restore P s l) :=
  ⟨advI_eq, stepI_eq, restoreI_eq⟩

/-- Control skeletons (guards and storage calls, classified structurally) of `saveSession` and
`restoreConnection` are the modelled ones: nil storage → nil; load; not-found → fresh data / nil;
error → error; save; refusal before the session is installed. -/
theorem skeletons_are_modelled :
    Facts.C30.saveSkeleton = ["guard[nil-storage]->nil", "load", "guard[error]->err", "storeSave", "guard[error]->err"] ∧
    Facts.C30.restoreSkeleton =
      ["guard[nil-storage]->nil", "load", "guard[not-found]->nil", "guard[error]->err", "refuse", "store"] := by
  decide

/-! Non-vacuity: a history in which a foreign DC and a CDN DC report before and after the primary
DC; the storage ends up with the primary DC's (permanent) key. -/

private def k (b : UInt8) : AuthKey := ⟨[b, b], [b]⟩
private def zeroKey : AuthKey := ⟨[0, 0], [0]⟩
private def s2 : St := ⟨true, ⟨2, zeroKey, 0⟩, none, [], []⟩
private def hist : List Notif :=
  [⟨.regular, 4, k 4, zeroKey, 44, .none⟩, ⟨.cdn, 203, k 9, zeroKey, 99, .none⟩,
   ⟨.regular, 2, k 1, k 7, 22, .none⟩, ⟨.regular, 5, k 5, zeroKey, 55, .none⟩]

example : (runI s2 hist).stored = some ⟨2, [7, 7], [7], 22, ""⟩ := by decide
example : (runI s2 hist).session = ⟨2, k 7, 22⟩ := by decide
example : ∀ n ∈ hist, n.cfgDC ≠ 0 := by decide

/-- An interleaving with a migration landing between `c.session.Store` and the save: the storage
keeps the notification's DC 2 with its key while the live primary session is already DC 4. -/
private def acts : List Act :=
  [.spawn ⟨.regular, 2, k 1, zeroKey, 22, .none⟩, .adv 0, .adv 0, .adv 0,
   .spawn ⟨.migrate, 4, zeroKey, zeroKey, 0, .none⟩, .adv 1, .adv 0, .adv 0]

example : (crunI (cinit s2) acts).st.stored = some ⟨2, [1, 1], [1], 22, ""⟩ ∧
    (crunI (cinit s2) acts).st.session.dc = 4 := by decide

/-- Connection layer: sessions confirmed before the config is known and while the `Setup` callback
runs are buffered and delivered with the connection's own config; a foreign connection's session
is delivered with ITS DC and ignored by the client. -/
private def macts : List MAct :=
  [.new false 2 2, .new false 4 4, .ev 1 ⟨k 4, zeroKey, 44⟩, .initBegin 0, .ev 0 ⟨k 1, k 7, 22⟩, .initBegin 1,
   .initEnd 1, .initEnd 0]

example : deliveries [] macts =
    [⟨.regular, 4, k 4, zeroKey, 44, .none⟩, ⟨.regular, 2, k 1, k 7, 22, .none⟩] := by decide
example : (mrun (s2, []) macts).1.stored = some ⟨2, [7, 7], [7], 22, ""⟩ := by decide

/-- `restore_refuses_mismatch` / `restore_of_saved` have satisfiable hypotheses (toy SHA-1 = first
20 bytes): a consistent key is accepted, a flipped key id is refused. -/
example : (restoreI Prims.toy s2 (.data ⟨2, List.replicate 256 3, List.replicate 8 3, 5, ""⟩)).toOption.map
    (·.session.dc) = some 2 := by decide
example : (restoreI Prims.toy s2 (.data ⟨2, List.replicate 256 3, List.replicate 8 4, 5, ""⟩)).toOption.map
    (·.session.dc) = none := by decide

end TdModel.C30
