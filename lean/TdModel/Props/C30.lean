/-
C30 — saved sessions hold the key confirmed for the primary DC.
Property theorems only (helper lemmas live in TdModel/Lemmas/C30.lean).

`run s0 ns` feeds an arbitrary list of session notifications (primary DC, other DCs, CDN DCs,
DC id 0, with and without a permanent key, storage failing or not) to the model of
`onSession` / `onCDNSession` / `saveSession`; `restore` is `restoreConnection`.
-/
import TdModel.Lemmas.C30
import TdModel.Lemmas.C30Conc

namespace TdModel.C30
open TdModel

/-- After any history, what is in the storage is (unless it was there before) the data of ONE
notification of the history, taken as a whole: that notification's DC id together with that same
notification's auth key — the permanent key when PFS supplied one — key id and salt; it came
from a regular (non-CDN) connection; and when it arrived its DC was the primary DC (or the
client had no primary DC yet, or the notification carried DC id 0). -/
theorem saved_pairs_dc_with_its_key (s0 : St) (ns : List Notif) (d : Stored)
    (h : (run s0 ns).stored = some d) :
    s0.stored = some d ∨
      ∃ pre n post, ns = pre ++ n :: post ∧ n.kind = .regular ∧
        d.dc = n.cfgDC ∧
        d.authKey = (if n.permKey.isZero then n.key else n.permKey).value ∧
        d.authKeyID = (if n.permKey.isZero then n.key else n.permKey).id ∧
        d.salt = n.salt ∧
        (n.cfgDC = (run s0 pre).session.dc ∨ (run s0 pre).session.dc = 0 ∨ n.cfgDC = 0) := by
  rcases stored_origin ns s0 d h with h1 | ⟨pre, n, post, addr, he, ha, hd⟩
  · exact Or.inl h1
  · right
    refine ⟨pre, n, post, he, ?_, ?_, ?_, ?_, ?_, accepted_dc ha⟩
    · simp only [accepted, Bool.and_eq_true, decide_eq_true_eq] at ha; exact ha.1.1.1
    all_goals (subst hd; simp [storedOf, effKey]; try split <;> rfl)

/-- The same under concurrency: notifications of any number of connections, each split into its
atomic steps (DC-map update, primary-DC test, `c.session.Store`, storage load, storage save),
interleaved in any way (`as` is any list of "a notification arrives" / "notification `i` performs
its next step").  The storage still holds the whole data of ONE regular notification, which
passed the primary-DC test against the primary DC it read (`t.saw`). -/
theorem concurrent_saved_pairs_dc_with_its_key (s0 : St) (as : List Act) (d : Stored)
    (h : (crun (cinit s0) as).st.stored = some d) :
    s0.stored = some d ∨
      ∃ i t, (crun (cinit s0) as).threads i = some t ∧ t.n.kind = .regular ∧
        d.dc = t.n.cfgDC ∧
        d.authKey = (if t.n.permKey.isZero then t.n.key else t.n.permKey).value ∧
        d.authKeyID = (if t.n.permKey.isZero then t.n.key else t.n.permKey).id ∧
        d.salt = t.n.salt ∧
        (t.n.cfgDC = t.saw ∨ t.saw = 0 ∨ t.n.cfgDC = 0) := by
  rcases (cinv_run s0.stored as (cinit s0) (cinv_init s0)).stored with h1 | ⟨i, t, ht, _, hk, he, hs⟩
  · left; rw [← h1]; exact h
  · right
    rw [h] at hs
    have hd := Option.some.inj hs
    refine ⟨i, t, ht, hk, ?_, ?_, ?_, ?_, he⟩
    all_goals (subst hd; simp [storedOf, effKey]; try split <;> rfl)

/-- The sequential model is the interleaving in which a notification runs alone. -/
theorem sequential_is_an_interleaving (s : St) (n : Notif) :
    (alone s n).1 = (step s n).1 ∧ (alone s n).2.res = (step s n).2 :=
  alone_eq_step s n

/-- A client whose primary DC is `p ≠ 0` only ever stores sessions of DC `p`, whatever arrives
from other DCs and CDN DCs in whatever order. -/
theorem stored_dc_is_primary (s0 : St) (ns : List Notif) (d : Stored)
    (hp : s0.session.dc ≠ 0) (hn : ∀ n ∈ ns, n.cfgDC ≠ 0) (h : (run s0 ns).stored = some d) :
    s0.stored = some d ∨ d.dc = s0.session.dc := by
  rcases saved_pairs_dc_with_its_key s0 ns d h with h1 | ⟨pre, n, post, he, _, hdc, _, _, _, hacc⟩
  · exact Or.inl h1
  · right
    have hpre : (run s0 pre).session.dc = s0.session.dc :=
      run_primary pre s0 hp (fun m hm => hn m (by rw [he]; exact List.mem_append_left _ hm))
    have hn0 : n.cfgDC ≠ 0 := hn n (by rw [he]; simp)
    rw [hpre] at hacc
    rcases hacc with h2 | h2 | h2
    · rw [hdc, h2]
    · exact absurd h2 hp
    · exact absurd h2 hn0

/-- With a storage that does not fail, the stored session is always the in-memory primary
session (`c.session`): same DC, key, key id and salt. -/
theorem stored_is_primary_session (s0 : St) (ns : List Notif) (d : Stored)
    (hst : s0.hasStorage = true) (h0 : s0.stored = none) (hf : ∀ n ∈ ns, n.fault = .none)
    (h : (run s0 ns).stored = some d) :
    d.dc = (run s0 ns).session.dc ∧ d.authKey = (run s0 ns).session.key.value ∧
      d.authKeyID = (run s0 ns).session.key.id ∧ d.salt = (run s0 ns).session.salt :=
  run_inSync ns s0 hst hf (by intro d hd; rw [h0] at hd; cases hd) d h

/-- A notification from a non-primary DC changes neither the storage nor the primary session. -/
theorem nonprimary_ignored (s : St) (n : Notif) (hk : n.kind = .regular)
    (h1 : n.cfgDC ≠ 0) (h2 : s.session.dc ≠ 0) (h3 : s.session.dc ≠ n.cfgDC) :
    (step s n).1.stored = s.stored ∧ (step s n).1.session = s.session ∧ (step s n).2 = .ok := by
  have : skips s.session.dc n.cfgDC = true := by simp [skips, h1, h2, h3]
  simp [step, hk, onSession, this]

/-- CDN connections never touch the storage or the primary session. -/
theorem cdn_session_never_saved (s : St) (n : Notif) (hk : n.kind = .cdn) :
    (step s n).1.stored = s.stored ∧ (step s n).1.session = s.session := by
  simp [step, hk, onCDNSession]

/-- A stored session whose key id is not bytes 12..19 of the SHA-1 of its key (both taken as
`restoreConnection` copies them into `[256]byte` / `[8]byte`) is refused. -/
theorem restore_refuses_mismatch (P : Prims) (s : St) (d : Stored) (hst : s.hasStorage = true)
    (h : ((P.sha1 (fit 256 d.authKey)).drop 12).take 8 ≠ fit 8 d.authKeyID) :
    restore P s (.data d) = .error .corrupted := by
  have h' : keyID P (fit 256 d.authKey) ≠ fit 8 d.authKeyID := h
  simp [restore, hst, h']

/-- Whatever `restoreConnection` installs has a key id matching its key, the stored salt and
the stored DC (the configured DC when the file has none); and nothing else changes. -/
theorem restore_installs_checked_key (P : Prims) (s s' : St) (d : Stored) (hst : s.hasStorage = true)
    (h : restore P s (.data d) = .ok s') :
    s'.session.key.id = ((P.sha1 s'.session.key.value).drop 12).take 8 ∧
      s'.session.key.value = fit 256 d.authKey ∧ s'.session.key.id = fit 8 d.authKeyID ∧
      s'.session.salt = d.salt ∧ s'.session.dc = (if d.dc = 0 then s.session.dc else d.dc) ∧
      s'.stored = s.stored := by
  simp only [restore, hst, Bool.not_true, Bool.false_eq_true, if_false] at h
  split at h
  · cases h
  · rename_i hk
    have hk' : keyID P (fit 256 d.authKey) = fit 8 d.authKeyID := Decidable.not_not.mp hk
    cases h
    exact ⟨hk'.symm, rfl, rfl, rfl, rfl, rfl⟩

/-- Save then restore: a session saved from a notification with a well-formed key (256 + 8 bytes,
id = SHA-1 id of the key — what mtproto hands out) is accepted on the next start and reproduces
exactly that notification's DC, key and salt. -/
theorem restore_of_saved (P : Prims) (s r : St) (n : Notif) (hacc : accepted s n = true)
    (hr : r.hasStorage = true) (hdc : n.cfgDC ≠ 0)
    (hv : (effKey n).value.length = 256) (hi : (effKey n).id.length = 8)
    (hid : ((P.sha1 (effKey n).value).drop 12).take 8 = (effKey n).id) :
    ∃ r', restore P r (loadOf (step s n).1) = .ok r' ∧ r'.session = sessOf n := by
  obtain ⟨addr, h1⟩ := step_stored_of_accepted s n hacc
  have hk : keyID P (effKey n).value = (effKey n).id := hid
  refine ⟨{ r with session := sessOf n }, ?_, rfl⟩
  simp [loadOf, h1, restore, hr, storedOf, fit_of_length _ _ hv, fit_of_length _ _ hi, hk, hdc, sessOf]

/-- The regenerated facts are what the model assumes: the key id is bytes 12..19 of the SHA-1;
regular connections report to `onSession`, CDN connections to `onCDNSession`. -/
theorem constants_are_spec :
    Facts.C30.keyIDOffset = 12 ∧ Facts.C30.keyIDLen = 8 ∧
      Facts.C30.regularHandlerCalls = "onSession" ∧ Facts.C30.cdnHandlerCalls = "onCDNSession" := by
  decide

/-- The modelled functions are the ones in the source (conditions, assignments to `data.*`, calls
on `c.session` / `c.storeDCSess`, returns — in source order, regenerated on every run). -/
theorem source_is_modelled :
    Facts.C30.onSessionSrc =
      ["do sessionData := dcSessionFromMTProto(cfg.ThisDC, s)", "do c.storeDCSess(c.sessions, sessionData)",
        "do primaryDC := c.session.Load().DC",
        "if cfg.ThisDC != 0 && primaryDC != 0 && primaryDC != cfg.ThisDC", "return nil",
        "do c.session.Store(sessionData)", "if err != nil", "do err := c.saveSession(cfg, s)",
        "return errors.Wrap(err, \"save\")", "return nil"] ∧
    Facts.C30.onCDNSessionSrc =
      ["do c.storeDCSess(c.cdnSessions, dcSessionFromMTProto(cfg.ThisDC, s))", "return nil"] ∧
    Facts.C30.saveSessionSrc =
      ["if c.storage == nil", "return nil", "do data, err := c.storage.Load(c.ctx)",
        "if errors.Is(err, session.ErrNotFound)", "do err = nil", "do data = &session.Data{}", "if err != nil",
        "return errors.Wrap(err, \"load\")", "do data.Config = session.ConfigFromTG(cfg)",
        "do keyToSave := s.Key", "if !s.PermKey.Zero()", "do keyToSave = s.PermKey",
        "do data.AuthKey = keyToSave.Value[:]", "do data.AuthKeyID = keyToSave.ID[:]",
        "do data.DC = cfg.ThisDC", "do data.Salt = s.Salt", "if err != nil",
        "do err := c.storage.Save(c.ctx, data)", "return errors.Wrap(err, \"save\")", "return nil"] ∧
    Facts.C30.dcSessionSrc =
      ["do keyToStore := s.Key", "if !s.PermKey.Zero()", "do keyToStore = s.PermKey",
        "return pool.Session{ DC: dc, Salt: s.Salt, AuthKey: keyToStore, }"] ∧
    Facts.C30.restoreSrc =
      ["if c.storage == nil", "return nil", "do data, err := c.storage.Load(ctx)",
        "if errors.Is(err, session.ErrNotFound)", "return nil", "if err != nil",
        "return errors.Wrap(err, \"load\")", "do prev := c.session.Load()", "if data.DC == 0",
        "do data.DC = prev.DC", "do copy(key.Value[:], data.AuthKey)", "do copy(key.ID[:], data.AuthKeyID)",
        "if key.Value.ID() != key.ID", "return errors.New(\"corrupted key\")",
        "do c.session.Store(pool.Session{ DC: data.DC, AuthKey: key, Salt: data.Salt, })", "return nil"] := by
  decide

/-! Non-vacuity: a history in which a foreign DC and a CDN DC report before and after the primary
DC; the storage ends up with the primary DC's (permanent) key. -/

private def k (b : UInt8) : AuthKey := ⟨[b, b], [b]⟩
private def zeroKey : AuthKey := ⟨[0, 0], [0]⟩
private def s2 : St := ⟨true, ⟨2, zeroKey, 0⟩, none, [], []⟩
private def hist : List Notif :=
  [⟨.regular, 4, k 4, zeroKey, 44, .none⟩, ⟨.cdn, 203, k 9, zeroKey, 99, .none⟩,
   ⟨.regular, 2, k 1, k 7, 22, .none⟩, ⟨.regular, 5, k 5, zeroKey, 55, .none⟩]

example : (run s2 hist).stored = some ⟨2, [7, 7], [7], 22, ""⟩ := by decide
example : (run s2 hist).session = ⟨2, k 7, 22⟩ := by decide
example : ∀ n ∈ hist, n.cfgDC ≠ 0 := by decide

/-- `restore_refuses_mismatch` / `restore_of_saved` have satisfiable hypotheses (toy SHA-1 = first
20 bytes): a consistent key is accepted, a flipped key id is refused. -/
example : (restore Prims.toy s2 (.data ⟨2, List.replicate 256 3, List.replicate 8 3, 5, ""⟩)).toOption.map
    (·.session.dc) = some 2 := by decide
example : (restore Prims.toy s2 (.data ⟨2, List.replicate 256 3, List.replicate 8 4, 5, ""⟩)).toOption.map
    (·.session.dc) = none := by decide

end TdModel.C30
