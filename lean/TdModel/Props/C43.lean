/-
C43 — pings succeed only on the matching pong; a missed pong kills the link.
Property theorems only (helper lemmas live in TdModel/Lemmas/C43.lean).

The theorems quantify over **all traces** of the transition system of Model/C43.lean: any number
of concurrent `Ping` callers, any ping ids (colliding ones included), pongs with any ids at any
time, contexts ending at any time.
-/
import TdModel.Lemmas.C43

namespace TdModel.C43
open TdModel

/-! ### what the model reads from the source on every run -/

/-- Structure of `Ping` / `pingDelayDisconnect` read with go/ast: the channel is registered (and
its removal deferred) before the request is written, and the final `select` has exactly the cases
"own channel → `return nil`" and "`ctx.Done()` → `return ctx.Err()`" (in any order).  The model *interprets* the
case list (`pongCaseReturnsNil`, `ctxCaseReturnsNil`): a context case that returned nil would make
`retErr` a success in the model. -/
theorem ping_structure_is_sound :
    (∀ c ∈ selectCases, c = (0, 0) ∨ c = (1, 1)) ∧
    (0, 0) ∈ Facts.C43.pingCases ∧ (1, 1) ∈ Facts.C43.pingCases ∧
    (0, 0) ∈ Facts.C43.pingDelayCases ∧ (1, 1) ∈ Facts.C43.pingDelayCases ∧
    Facts.C43.pingRegistersBeforeWrite = true ∧ Facts.C43.pingDelayRegistersBeforeWrite = true ∧
    pongCaseReturnsNil = true ∧ ctxCaseReturnsNil = false := by decide

/-- `handlePong` closes and deletes, inside `pingMux`, exactly the channel registered under the
pong's own ping id (and only if there is one); nothing else closes a channel; `pong` registers a
fresh channel, `removePong` deletes, both inside `pingMux`. -/
theorem pong_structure_is_sound :
    Facts.C43.handlePongClosesRegistered = true ∧ Facts.C43.otherChannelCloses = 0 ∧
    Facts.C43.pongRegistersFreshChannel = true ∧ Facts.C43.removePongDeletes = true := by decide

/-- The keep-alive loop pings on every tick, lets the ping wait for exactly `pingTimeout`
(coefficients (0, 1) of (pingInterval, pingTimeout) in `context.WithTimeout`), gives up iff that
ping returned an error — whatever its cause: deadline, parent context, failed write —, announces
`pingInterval + pingTimeout` as disconnect delay, and returns the ping's error; `Run` runs it in
its task group and returns the group's error. -/
theorem keepalive_is_modelled :
    Facts.C43.pingLoopPingsOnTick = true ∧ Facts.C43.pingLoopFailsOnPingError = true ∧
    Facts.C43.pingWaitCoeffInterval = 0 ∧ Facts.C43.pingWaitCoeffTimeout = 1 ∧
    Facts.C43.disconnectDelayCoeffInterval = 1 ∧ Facts.C43.disconnectDelayCoeffTimeout = 1 ∧
    Facts.C43.pingLoopReturnsError = true ∧ Facts.C43.runStartsPingLoop = true ∧
    Facts.C43.runReturnsGroupError = true := by decide

/-! ### a ping succeeds only on the matching pong -/

/-- Meaning of the ghost counter: a step changes a ping's `pongs` exactly by one when the step is
a pong carrying that ping's id, and not otherwise. -/
theorem pongs_counts_matching_pongs (s s' : State) (a : Action) (p : Nat) (pg pg' : Ping)
    (h : step s a = some s') (hp : s.pings[p]? = some pg) (hp' : s'.pings[p]? = some pg') :
    pg'.id = pg.id ∧ pg'.pongs = pg.pongs + (if a = .pong pg.id then 1 else 0) := by
  have hl : p < s.pings.length := by
    obtain ⟨hl, _⟩ := List.getElem?_eq_some_iff.mp hp; exact hl
  cases a with
  | call id =>
    simp only [step, Option.some.injEq] at h
    subst h
    simp only [List.getElem?_append_left hl, hp, Option.some.injEq] at hp'
    subst hp'; simp
  | pong id =>
    simp only [step, Option.some.injEq] at h
    subst h
    simp only [pongPings_getElem?, hp, Option.map_some, Option.some.injEq] at hp'
    by_cases hm : pg.id = id
    · simp only [hm, if_true] at hp'
      subst hp'; simp [hm]
    · simp only [hm, if_false] at hp'
      subst hp'
      have : ¬ (Action.pong id = Action.pong pg.id) := by
        intro e; injection e with e; exact hm e.symm
      simp [this]
  | retOk q =>
    simp only [step] at h
    cases hq : s.pings[q]? with
    | none => simp [hq] at h
    | some pq =>
      simp only [hq] at h
      split at h
      · simp only [Option.some.injEq] at h
        subst h
        simp only [setRet_getElem?] at hp'
        by_cases hk : p = q
        · subst hk
          simp only [if_true, hp, Option.map_some, Option.some.injEq] at hp'
          subst hp'; simp
        · simp only [hk, if_false, hp, Option.some.injEq] at hp'
          subst hp'; simp
      · cases h
  | retErr q =>
    simp only [step] at h
    cases hq : s.pings[q]? with
    | none => simp [hq] at h
    | some pq =>
      simp only [hq] at h
      split at h
      · simp only [Option.some.injEq] at h
        subst h
        simp only [setRet_getElem?] at hp'
        by_cases hk : p = q
        · subst hk
          simp only [if_true, hp, Option.map_some, Option.some.injEq] at hp'
          subst hp'; simp
        · simp only [hk, if_false, hp, Option.some.injEq] at hp'
          subst hp'; simp
      · cases h

/-- In every reachable state, a ping that returned success has seen at least one pong carrying its
own id since it was called. -/
theorem ping_ok_implies_matching_pong (tr : List Action) (s : State) (h : run {} tr = some s)
    (p : Nat) (pg : Ping) (hp : s.pings[p]? = some pg) (hok : pg.ret = some true) : 1 ≤ pg.pongs := by
  have inv := inv_run tr {} s inv_init h
  have := inv.closed p pg hp
  exact this.1 (this.2 hok)

/-- The ghost counter is sound: a positive count means that the trace contains a pong carrying the
ping's id, delivered when the ping already existed. -/
theorem pongs_pos_gives_pong (tr : List Action) : ∀ (s : State), run {} tr = some s →
    ∀ (p : Nat) (pg : Ping), s.pings[p]? = some pg → 1 ≤ pg.pongs →
    ∃ pre post s1 pg1, tr = pre ++ Action.pong pg.id :: post ∧ run {} pre = some s1 ∧
      s1.pings[p]? = some pg1 ∧ pg1.id = pg.id := by
  refine rev_induction (P := fun tr => ∀ (s : State), run {} tr = some s →
    ∀ (p : Nat) (pg : Ping), s.pings[p]? = some pg → 1 ≤ pg.pongs →
    ∃ pre post s1 pg1, tr = pre ++ Action.pong pg.id :: post ∧ run {} pre = some s1 ∧
      s1.pings[p]? = some pg1 ∧ pg1.id = pg.id) ?_ ?_ tr
  · intro s h p pg hp _
    simp only [run, Option.some.injEq] at h
    subst h; simp at hp
  · intro tr' a ih s h p pg hp hpos
    rw [run_append] at h
    cases h0 : run {} tr' with
    | none => simp [h0] at h
    | some s0 =>
      simp only [h0, Option.bind_some, run] at h
      cases hs : step s0 a with
      | none => simp [hs] at h
      | some s' =>
        simp only [hs, Option.some.injEq] at h
        subst h
        cases hp0 : s0.pings[p]? with
        | none =>
          have := (step_pings s0 s' a hs p).2 hp0 pg hp
          omega
        | some pg0 =>
          obtain ⟨hid, hcnt⟩ := pongs_counts_matching_pongs s0 s' a p pg0 pg hs hp0 hp
          by_cases hpos0 : 1 ≤ pg0.pongs
          · obtain ⟨pre, post, s1, pg1, htr, hrun, hp1, hid1⟩ := ih s0 h0 p pg0 hp0 hpos0
            refine ⟨pre, post ++ [a], s1, pg1, ?_, hrun, hp1, by rw [hid1, hid]⟩
            rw [htr, hid]; simp
          · have hz : pg0.pongs = 0 := by omega
            have ha : a = Action.pong pg0.id := by
              by_cases ha : a = Action.pong pg0.id
              · exact ha
              · simp [ha] at hcnt; omega
            refine ⟨tr', [], s0, pg0, ?_, h0, hp0, hid.symm⟩
            rw [ha, hid]

/-- Trace form of the property: if a ping returned success along a trace, the trace contains —
before that state — a pong with the ping's own id delivered after the ping was called. -/
theorem ping_ok_has_pong_in_trace (tr : List Action) (s : State) (h : run {} tr = some s)
    (p : Nat) (pg : Ping) (hp : s.pings[p]? = some pg) (hok : pg.ret = some true) :
    ∃ pre post s1 pg1, tr = pre ++ Action.pong pg.id :: post ∧ run {} pre = some s1 ∧
      s1.pings[p]? = some pg1 ∧ pg1.id = pg.id :=
  pongs_pos_gives_pong tr s h p pg hp (ping_ok_implies_matching_pong tr s h p pg hp hok)

/-- Success is not even *enabled* before the ping's channel was closed by a matching pong. -/
theorem retOk_needs_closed_channel (s s' : State) (p : Nat) (h : step s (.retOk p) = some s') :
    ∃ pg, s.pings[p]? = some pg ∧ pg.closed = true ∧ pg.ret = none := by
  simp only [step] at h
  cases hq : s.pings[p]? with
  | none => simp [hq] at h
  | some pg =>
    simp only [hq] at h
    split at h
    · rename_i hc; exact ⟨pg, rfl, hc.1, hc.2⟩
    · cases h

/-- Otherwise it returns when its context ends: the error return of a ping that has not returned
yet is always enabled (a ping can never be stuck). -/
theorem ping_returns_when_ctx_ends (s : State) (p : Nat) (pg : Ping)
    (hp : s.pings[p]? = some pg) (hret : pg.ret = none) : (step s (.retErr p)).isSome = true := by
  simp [step, hp, hret]

/-! ### foreign and duplicate pongs are harmless -/

/-- A pong whose id has no registered ping changes nothing that can be observed: same
registrations, same channels, same results. -/
theorem foreign_pong_harmless (s : State) (id : Int) (h : regGet s.reg id = none) :
    ∃ s', step s (.pong id) = some s' ∧ s'.reg = s.reg ∧ s'.pings.map Ping.obs = s.pings.map Ping.obs := by
  refine ⟨_, rfl, regDel_of_regGet_none _ _ h, ?_⟩
  simp only [h]
  exact pongPings_obs_of_none id s.pings 0

/-- A duplicated pong: after one pong with an id, a second one with the same id is foreign. -/
theorem duplicate_pong_harmless (s s1 : State) (id : Int) (h1 : step s (.pong id) = some s1) :
    ∃ s2, step s1 (.pong id) = some s2 ∧ s2.reg = s1.reg ∧ s2.pings.map Ping.obs = s1.pings.map Ping.obs := by
  apply foreign_pong_harmless
  simp only [step, Option.some.injEq] at h1
  subst h1
  exact regGet_regDel _ _

/-- A pong with another id leaves a ping entirely untouched. -/
theorem other_pong_keeps_ping (s s' : State) (id : Int) (p : Nat) (pg : Ping)
    (h : step s (.pong id) = some s') (hp : s.pings[p]? = some pg) (hne : pg.id ≠ id) :
    s'.pings[p]? = some pg := by
  simp only [step, Option.some.injEq] at h
  subst h
  simp [pongPings_getElem?, hp, hne]

/-! ### a missed pong ends the keep-alive loop and `Run` -/

/-- A ping that saw no pong with its id cannot have returned success: once it has returned, it
returned an error. -/
theorem unmatched_ping_fails (tr : List Action) (s : State) (h : run {} tr = some s)
    (p : Nat) (pg : Ping) (hp : s.pings[p]? = some pg) (hno : pg.pongs = 0) (hret : pg.ret ≠ none) :
    tickOutcome s p = some .missed := by
  unfold tickOutcome
  rw [hp]
  cases hr : pg.ret with
  | none => exact absurd hr hret
  | some b =>
    cases b with
    | false => simp [hr]
    | true =>
      have := ping_ok_implies_matching_pong tr s h p pg hp hr
      omega

/-- The keep-alive loop's k-th ping saw no matching pong before its timeout ended its context, all
earlier ticks were acknowledged ⇒ `pingLoop` returns an error at tick k and `Run` ends. -/
theorem missed_pong_ends_run (tr : List Action) (s : State) (h : run {} tr = some s)
    (os : List TickOutcome) (k p : Nat) (pg : Ping)
    (hprev : ∀ j, j < k → os[j]? = some .ok)
    (hk : os[k]? = tickOutcome s p)
    (hp : s.pings[p]? = some pg) (hno : pg.pongs = 0) (hret : pg.ret ≠ none) :
    pingLoop os = .failed k ∧ runEnds (pingLoop os) = true := by
  have hm := unmatched_ping_fails tr s h p pg hp hno hret
  have : pingLoop os = .failed k := by
    unfold pingLoop
    have := pingLoopFrom_failed os 0 k hprev ⟨.missed, by rw [hk, hm], by decide⟩
    simpa using this
  rw [this]
  exact ⟨rfl, rfl⟩

/-- Every way a tick's ping can go unanswered — no pong in time, or the request could not even be
written — makes `pingLoop` fail at that tick and `Run` end. -/
theorem every_unanswered_ping_ends_run (os : List TickOutcome) (k : Nat) (o : TickOutcome)
    (hprev : ∀ j, j < k → os[j]? = some .ok) (hk : os[k]? = some o) (ho : o ≠ .ok) :
    pingLoop os = .failed k ∧ runEnds (pingLoop os) = true := by
  have : pingLoop os = .failed k := by
    unfold pingLoop
    have := pingLoopFrom_failed os 0 k hprev ⟨o, hk, ho⟩
    simpa using this
  rw [this]; exact ⟨rfl, rfl⟩

example : pingLoop [.ok, .writeErr, .ok] = .failed 1 := by decide

/-- While every tick is acknowledged the loop keeps running. -/
theorem acknowledged_loop_runs (os : List TickOutcome) (h : ∀ o ∈ os, o = .ok) :
    pingLoop os = .running ∧ runEnds (pingLoop os) = false := by
  have := pingLoopFrom_running os 0 h
  unfold pingLoop
  rw [this]
  exact ⟨rfl, rfl⟩

/-! ### timing of a tick -/

/-- The wait handed to `context.WithTimeout` is the ping timeout, whatever the interval. -/
theorem ping_wait_is_timeout (interval timeout : Nat) : pingWait interval timeout = timeout := by
  unfold pingWait
  have h1 : Facts.C43.pingWaitCoeffInterval = 0 := rfl
  have h2 : Facts.C43.pingWaitCoeffTimeout = 1 := rfl
  rw [h1, h2]; omega

/-- No pong: the tick is missed after exactly the ping timeout (not later, e.g. not after
interval + timeout). -/
theorem missed_pong_detected_after_timeout (interval timeout : Nat) :
    tick interval timeout none = (.missed, timeout) := by
  simp [tick, ping_wait_is_timeout]

/-- A pong arriving at or after the timeout does not save the tick; one arriving earlier does. -/
theorem late_pong_is_missed (interval timeout d : Nat) (h : timeout ≤ d) :
    tick interval timeout (some d) = (.missed, timeout) := by
  have : ¬ d < timeout := by omega
  simp [tick, ping_wait_is_timeout, this]

theorem timely_pong_is_ok (interval timeout d : Nat) (h : d < timeout) :
    tick interval timeout (some d) = (.ok, d) := by
  simp [tick, ping_wait_is_timeout, h]

theorem disconnect_delay_is_sum (interval timeout : Nat) : disconnectDelay interval timeout = interval + timeout := by
  unfold disconnectDelay
  have h1 : Facts.C43.disconnectDelayCoeffInterval = 1 := rfl
  have h2 : Facts.C43.disconnectDelayCoeffTimeout = 1 := rfl
  rw [h1, h2]; omega

/-! ### non-vacuity -/

/-- Two pings with the same id (the second registration overwrites the first), a foreign pong, a
matching pong, a duplicate: only the registered ping succeeds, the other one returns on its
context. -/
example :
    (run {} [.call 7, .call 7, .pong 9, .pong 7, .pong 7, .retOk 1, .retErr 0]).map
      (fun s => (s.pings.map Ping.obs, s.reg))
    = some ([(7, false, some false), (7, true, some true)], []) := by decide

/-- Success without a pong is not a trace. -/
example : run {} [.call 7, .retOk 0] = none := by decide
example : run {} [.call 7, .pong 8, .retOk 0] = none := by decide

example : pingLoop [.ok, .ok, .missed, .ok] = .failed 2 := by decide

end TdModel.C43
