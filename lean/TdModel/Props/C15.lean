/-
C15 — 2FA SRP answers follow the specification and verify only the right password.
Property theorems only.  `S : SrpPrims` (SHA-256, PBKDF2-HMAC-SHA512, modular exponentiation) is an
arbitrary lawful set of primitives; `isPrime` is the primality oracle of `crypto.CheckDH`.
Literals (100000, 64, 256, 2048) are the specification's.
-/
import TdModel.Lemmas.C15
import TdModel.Mathlib.C15

namespace TdModel.C15
open TdModel TdModel.C14

/-! ### Regenerated facts equal the specification -/

/-- PH2 as **translated from the source**: `SH(pbkdf2(sha512, SH(SH(password, salt1), salt2), salt1, 100000), salt2)`
with a 64-byte derived key, `SH(data, salt) = H(salt | data | salt)`. -/
theorem kdf_is_spec (H : List (List UInt8) → List UInt8) (KDF : List UInt8 → List UInt8 → Nat → Nat → List UInt8)
    (pw s1 s2 : List UInt8) :
    Facts.C15.secondaryT H KDF pw s1 s2 = H [s2, KDF (H [s2, H [s1, pw, s1], s2]) s1 100000 64, s2] ∧
    Facts.C15.pbkdf2Hash = "sha512.New" := ⟨rfl, by decide⟩

/-- The operands of every hash in `SRP.Hash`, **regenerated from the source and interpreted by the
model**: `g_b = pad256(srpB)`, `t` from `srpB`, `u = H(g_a | g_b)`, `x = PH2(password, salt1, salt2)`,
`k = H(p | g)`, `k_a = H(s_a)` (padded), `H(p) xor H(g)`, `M1 = H(xor | H(salt1) | H(salt2) | g_a | g_b | k_a)`;
the rest of the source shape is pinned as text. -/
theorem hash_inputs_are_spec :
    Facts.C15.gbSource = .val .srpB ∧ Facts.C15.tSource = .val .srpB ∧
    Facts.C15.uOperands = [.val .ga, .val .gb] ∧
    Facts.C15.xvOperands = [.val .password, .val .salt1, .val .salt2] ∧
    Facts.C15.kOperands = [.val .iP, .val .gBytes] ∧
    Facts.C15.kaOperand = .val .sa ∧
    Facts.C15.xorOperands = [.hashed .iP, .hashed .gBytes] ∧
    Facts.C15.m1Operands = [.val .xorHpHg, .hashed .salt1, .hashed .salt2, .val .ga, .val .gb, .val .ka] ∧
    Facts.C15.xvGroupArgs = "g, p" ∧
    Facts.C15.saExpr = "s.bigExp(t, u.Mul(u, x).Add(u, a), p)" ∧
    Facts.C15.computeXVBody = "{ x = new(big.Int).SetBytes(s.secondary(password, clientSalt, serverSalt)) v = new(big.Int).Exp(g, x, p) return x, v }" :=
  ⟨rfl, rfl, rfl, rfl, rfl, rfl, rfl, rfl, rfl, rfl, rfl⟩

/-! ### The answer is the specification's -/

/-- **`SRP.Hash` = the SRP specification.**  For any password, salts, client secret `random`, server
value `B` in any byte form whose value fits 2048 bits (minimal, padded to 256 bytes, or longer with
leading zero bytes) and any group accepted by `CheckDH` (modulus given as its 256 bytes), the
implementation returns exactly `(A, M1)` as defined by core.telegram.org/api/srp
(`Spec.answer`: `A = pad(g^a mod p)`, `M1 = H(H(p) xor H(g) | H(salt1) | H(salt2) | g_a | g_b | H(s_a))`,
`s_a = ((g_b − k·v) mod p)^(a + u·x) mod p`, `x = PH2(password, salt1, salt2)` with PBKDF2-HMAC-SHA512,
100000 iterations). -/
theorem srp_impl_eq_spec (S : SrpPrims) (hS : LawfulSrp S) (isPrime : Int → Bool)
    (password srpB random : Bytes) (i : Input) (hp : i.p.length = 256) (hb : beNat srpB < 256 ^ 256)
    (hgrp : C13.checkDH isPrime i.g ((beNat i.p : Nat) : Int) = .ok) :
    Impl.srpHash S isPrime password srpB random i =
      .ok (Spec.answer S (beNat i.p) i.g.toNat (beNat random) (beNat srpB) password i.salt1 i.salt2) :=
  impl_eq_spec S hS isPrime password srpB random i hp hb hgrp

/-! ### Invalid groups are refused -/

/-- An answer is produced only for groups accepted by `CheckDH`: 2048-bit modulus, generator in 2..7
passing the residue table, and both primality-oracle answers positive (see C13 for what that means). -/
theorem invalid_group_refused (S : SrpPrims) (isPrime : Int → Bool) (password srpB random : Bytes) (i : Input) :
    C13.checkDH isPrime i.g ((beNat i.p : Nat) : Int) ≠ .ok →
      Impl.srpHash S isPrime password srpB random i = .error .badGroup := by
  intro h
  unfold Impl.srpHash
  simp [h]

theorem answer_implies_valid_group (S : SrpPrims) (isPrime : Int → Bool) (password srpB random : Bytes)
    (i : Input) (r : Bytes × Bytes) (h : Impl.srpHash S isPrime password srpB random i = .ok r) :
    (2 ^ 2047 ≤ beNat i.p ∧ beNat i.p < 2 ^ 2048) ∧ (2 ≤ i.g ∧ i.g ≤ 7) ∧
      isPrime (beNat i.p : Nat) = true ∧ isPrime (Int.tdiv ((beNat i.p : Nat) - 1) 2) = true := by
  by_cases hg : C13.checkDH isPrime i.g ((beNat i.p : Nat) : Int) = .ok
  · have hb := group_bounds isPrime i.g (beNat i.p) hg
    rw [pow256] at hb
    have h2 := (C13.checkDH_ok_iff isPrime i.g _).mp hg
    refine ⟨hb, ?_, h2.2.2.1, h2.2.2.2⟩
    have h3 := h2.2.1
    unfold C13.checkGP at h3
    have ht : Facts.C13.gpTable = [(2, some (8, [7])), (3, some (3, [2])), (4, none), (5, some (5, [1, 4])),
      (6, some (24, [19, 23])), (7, some (7, [3, 5, 6]))] := by decide
    rw [ht] at h3
    have hbad := (C13.checkGPWith_badG_iff i.g (beNat i.p : Nat)).not.mp (by rw [h3]; simp)
    omega
  · rw [invalid_group_refused S isPrime password srpB random i hg] at h
    cases h

/-! ### The verifier accepts the right password -/

/-- Session-key agreement (Mathlib, `ZMod p`): with `B = (k·v + g^b) mod p` and `v = g^x mod p`,
`((B − k·v) mod p)^(a + u·x) mod p = ((g^a mod p)·(v^u mod p) mod p)^b mod p`. -/
theorem srp_session_agree' (p g k v x a b u : Nat) (hp : 0 < p) (hv : v = g ^ x % p) :
    ((((k * v + g ^ b % p) % p) + (p - (k * v) % p)) % p) ^ (a + u * x) % p =
      (((g ^ a % p) * (v ^ u % p)) % p) ^ b % p :=
  srp_session_agree p g k v x a b u hp hv

/-- **A verifier built from the same password accepts the specification's answer**: for every
group modulus `p > 0`, generator, salts, password, client secret `a` and server secret `b`, the
verifier holding `v = g^x mod p` that sent `B = (k·v + g^b) mod p` recomputes the same `M1`. -/
theorem srp_verifier_accepts (S : SrpPrims) (p g a b : Nat) (hp : 0 < p) (pw s1 s2 : Bytes) :
    let vv := Spec.v S p g pw s1 s2
    let gb := Spec.serverB S p g vv b
    Spec.serverAccepts S p g vv b s1 s2 (Spec.gA p g a) (Spec.answer S p g a gb pw s1 s2).2 = true := by
  intro vv gb
  unfold Spec.serverAccepts Spec.answer
  simp only [beq_iff_eq]
  congr 1
  unfold Spec.sA Spec.serverS
  exact srp_session_agree p g (Spec.k S p g) vv (Spec.x S pw s1 s2) a b _ hp rfl

/-- End to end for the implementation: if the server value `B` was produced by a verifier created
from `password`, then the verifier accepts the `M1` returned by `SRP.Hash`. -/
theorem srp_hash_accepted_by_verifier (S : SrpPrims) (hS : LawfulSrp S) (isPrime : Int → Bool)
    (password random : Bytes) (i : Input) (b : Nat) (hp : i.p.length = 256)
    (hgrp : C13.checkDH isPrime i.g ((beNat i.p : Nat) : Int) = .ok) :
    let p := beNat i.p
    let g := i.g.toNat
    let vv := Spec.v S p g password i.salt1 i.salt2
    let srpB := Spec.pad (Spec.serverB S p g vv b)
    ∃ A M1, Impl.srpHash S isPrime password srpB random i = .ok (A, M1) ∧
      Spec.serverAccepts S p g vv b i.salt1 i.salt2 (beNat A) M1 = true := by
  intro p g vv srpB
  obtain ⟨hlo, hhi⟩ := group_bounds isPrime i.g (beNat i.p) hgrp
  have hpos : 0 < p := Nat.lt_of_lt_of_le (Nat.two_pow_pos 2047) hlo
  have hBlt : Spec.serverB S p g vv b < 256 ^ 256 := Nat.lt_trans (Nat.mod_lt _ hpos) hhi
  have hB : beNat srpB = Spec.serverB S p g vv b := beNat_beBytes 256 _ hBlt
  have hlen : beNat srpB < 256 ^ 256 := hB ▸ hBlt
  refine ⟨_, _, srp_impl_eq_spec S hS isPrime password srpB random i hp hlen hgrp, ?_⟩
  have hA : beNat (Spec.pad (Spec.gA p g (beNat random))) = Spec.gA p g (beNat random) :=
    beNat_beBytes 256 _ (Nat.lt_trans (Nat.mod_lt _ hpos) hhi)
  rw [hA, hB]
  exact srp_verifier_accepts S p g (beNat random) b hpos password i.salt1 i.salt2

/-! ### Setting a new password (`SRP.NewHash`) -/

/-- `SRP.NewHash` follows "Setting a new 2FA password" of the specification: 32 random bytes are
appended to `salt1`, and the new password hash is `v = g^x mod p` (`x = PH2(password, new salt1, salt2)`)
in big-endian form padded to 2048 bits — for every group accepted by `CheckDH`. -/
theorem srp_newHash_eq_spec (S : SrpPrims) (hS : LawfulSrp S) (isPrime : Int → Bool) (password tape : Bytes)
    (i : Input) (ht : 32 ≤ tape.length) (hgrp : C13.checkDH isPrime i.g ((beNat i.p : Nat) : Int) = .ok) :
    Impl.newHash S isPrime password tape i =
      .ok (Spec.pad (Spec.v S (beNat i.p) i.g.toNat password (i.salt1 ++ tape.take 32) i.salt2),
        i.salt1 ++ tape.take 32) :=
  newHash_eq_spec S hS isPrime password tape i ht hgrp

/-- … and a later login with the same password against the stored hash succeeds: the verifier holding
the number `NewHash` returned accepts the answer `SRP.Hash` computes with the new salt. -/
theorem srp_newHash_then_hash_accepted (S : SrpPrims) (hS : LawfulSrp S) (isPrime : Int → Bool)
    (password tape random : Bytes) (i : Input) (b : Nat) (hp : i.p.length = 256) (ht : 32 ≤ tape.length)
    (hgrp : C13.checkDH isPrime i.g ((beNat i.p : Nat) : Int) = .ok) :
    ∃ h newSalt, Impl.newHash S isPrime password tape i = .ok (h, newSalt) ∧
      let p := beNat i.p
      let g := i.g.toNat
      let i' : Input := { i with salt1 := newSalt }
      let srpB := Spec.pad (Spec.serverB S p g (beNat h) b)
      ∃ A M1, Impl.srpHash S isPrime password srpB random i' = .ok (A, M1) ∧
        Spec.serverAccepts S p g (beNat h) b newSalt i.salt2 (beNat A) M1 = true := by
  refine ⟨_, _, srp_newHash_eq_spec S hS isPrime password tape i ht hgrp, ?_⟩
  obtain ⟨hlo, hhi⟩ := group_bounds isPrime i.g (beNat i.p) hgrp
  have hpos : 0 < beNat i.p := Nat.lt_of_lt_of_le (Nat.two_pow_pos 2047) hlo
  have hv : beNat (Spec.pad (Spec.v S (beNat i.p) i.g.toNat password (i.salt1 ++ tape.take 32) i.salt2)) =
      Spec.v S (beNat i.p) i.g.toNat password (i.salt1 ++ tape.take 32) i.salt2 :=
    beNat_beBytes 256 _ (Nat.lt_trans (Nat.mod_lt _ hpos) hhi)
  simp only [hv]
  exact srp_hash_accepted_by_verifier S hS isPrime password random
    { i with salt1 := i.salt1 ++ tape.take 32 } b hp hgrp

/-! ### Non-vacuity -/

/-- The hypotheses of `srp_impl_eq_spec` are jointly satisfiable: with a permissive primality oracle the
256-byte modulus `2^2047` and `g = 4` pass `CheckDH`, so the theorem applies to a concrete input. -/
example : ∃ i : Input, i.p.length = 256 ∧
    C13.checkDH (fun _ => true) i.g ((beNat i.p : Nat) : Int) = .ok := by
  have hlt : 2 ^ 2047 < 256 ^ 256 := by rw [pow256]; exact Nat.pow_lt_pow_right (by decide) (by decide)
  obtain ⟨pb, hpb⟩ : ∃ pb, pb = beBytes 256 (2 ^ 2047) := ⟨_, rfl⟩
  have hl : pb.length = 256 := by rw [hpb]; exact beBytes_length 256 _
  have hn : beNat pb = 2 ^ 2047 := by rw [hpb]; exact beNat_beBytes 256 _ hlt
  refine ⟨{ salt1 := [], salt2 := [], g := 4, p := pb }, hl, ?_⟩
  show C13.checkDH (fun _ => true) 4 ((beNat pb : Nat) : Int) = .ok
  rw [hn]
  rw [C13.checkDH_ok_iff]
  refine ⟨?_, ?_, rfl, rfl⟩
  · have hk : Facts.C13.rsaKeyBits = 2047 + 1 := by decide
    rw [hk, C13.bitLen_eq_succ_iff, Int.natAbs_natCast]
    exact ⟨Nat.le_refl _, Nat.pow_lt_pow_right (by decide) (by decide)⟩
  · unfold C13.checkGP
    have ht : Facts.C13.gpTable = [(2, some (8, [7])), (3, some (3, [2])), (4, none), (5, some (5, [1, 4])),
      (6, some (24, [19, 23])), (7, some (7, [3, 5, 6]))] := by decide
    rw [ht, C13.checkGPWith_spec_iff _ _ (Int.natCast_nonneg _)]
    exact Or.inr (Or.inr (Or.inl rfl))

/-- The primitive laws are satisfiable. -/
example : LawfulSrp ⟨(fun x => (x ++ List.replicate 32 0).take 32), (fun pw _ _ _ => pw),
    (fun b e m => b ^ e % m)⟩ :=
  ⟨by intro x; simp, fun _ _ _ => rfl⟩

end TdModel.C15
