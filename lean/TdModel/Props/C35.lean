/-
C35 — message entity offsets and lengths are correct UTF-16 ranges.
Property theorems only (helper lemmas: TdModel/Lemmas/C35.lean; model: TdModel/Model/C35.lean).

`run ops` is the builder after an ARBITRARY list of operations (Plain, Write*, WriteRune of any
int32 incl. invalid code points, Format with any formatters, Token, Token.Apply of any earlier
token of the same message — nested, adjacent, overlapping, repeated —, ShrinkPreCode, Reset, i.e.
re-use of one builder for several messages) over arbitrary Unicode pieces (`List Char`: BMP, astral, combining marks, white
space are all just `Char`s); `complete` is `Builder.Complete` (repaired `fixEntities` + sort).
`Ent.cs`/`Ent.ce` are ghost fields: the character span of the piece an entity was created for.
-/
import TdModel.Lemmas.C35

namespace TdModel.C35

/-- `utf16RuneLen`, as translated from the source, is the UTF-16 width of a Go `rune`: 2 for
U+10000..U+10FFFF, 1 for everything else — including the values that are not Unicode scalar values
(negative, surrogate halves, above U+10FFFF), for which `utf16.RuneLen` would return −1. -/
theorem runeLen_spec (v : Int) : runeLen v = if 0x10000 ≤ v ∧ v ≤ 0x10FFFF then 2 else 1 :=
  runeLen_eq v

/-- …so on characters it is "2 from U+10000 on, else 1". -/
theorem u16_spec (c : Char) : u16 c = if 0x10000 ≤ c.toNat then 2 else 1 := u16_eq c

/-- `WriteRune(r)` advances the counter by exactly the UTF-16 width of the character it appends,
for every `rune` value (invalid ones are appended as U+FFFD, width 1). -/
theorem writeRune_width (r : Int) : runeLen r = (u16 (charOfRune r) : Int) := runeLen_charOfRune r

/-- One iteration of `clampEntities`, as translated from the source: the offset is cut to `total`,
then the length is cut so that (cut offset) + length ≤ `total`; nothing else changes. -/
theorem clamp_spec (total : Int) (e : Ent) :
    (clamp total e).off = (if e.off > total then total else e.off) ∧
    (clamp total e).len =
      (if (if e.off > total then total else e.off) + e.len > total
       then total - (if e.off > total then total else e.off) else e.len) ∧
    (clamp total e).kind = e.kind ∧ (clamp total e).lang = e.lang ∧
    (clamp total e).cs = e.cs ∧ (clamp total e).ce = e.ce := clamp_eq total e

/-- The shapes the model relies on, read from the current source: `utf16RuneLen` is the range
test, `ComputeLength`/`ComputeLengthBytes` sum it over the decoded runes, `fixEntities` trims with
`strings.TrimRightFunc(_, unicode.IsSpace)`, cuts the message and clamps to `ComputeLength` of the
CUT message, `Complete` = `fixEntities` + `SortEntities`. -/
theorem source_shape_facts :
    Facts.C35.runeLenShape = true ∧ Facts.C35.computeLengthShape = true ∧
    Facts.C35.computeLengthBytesShape = true ∧ Facts.C35.clampToCutMessage = true ∧
    Facts.C35.trimIsTrimRightSpace = true ∧ Facts.C35.completeFixesAndSorts = true := by decide

/-- The 19 small builder methods that the model transliterates line by line (`Token`, `Token.Apply`,
`UTF16Length`, `Plain`, `Format`, `Reset`, `appendEntities`, `appendMessage`, `Write*`, `Raw`,
`ShrinkPreCode`/`shrinkPreCode`, `equalRange`, …) still have the source text the transliteration was
made from (comments and verification hooks ignored).  Fails closed: an edit to one of them, even a
harmless one, is listed here by name and needs the model re-read. -/
theorem builder_source_unchanged :
    Facts.C35.changedBuilderMethods = [] ∧ Facts.C35.pinnedBuilderMethods = 19 := by decide

theorem u16len_append (a b : List Char) : u16len (a ++ b) = u16len a + u16len b := u16len_app a b

/-- The builder's running counter is the UTF-16 length of the text written so far. -/
theorem builder_u16_is_u16len (ops : List Op) : (run ops).u16 = u16len (run ops).text :=
  (inv_run ops).u16

/-- Every entity's offset is the UTF-16 length of the text before its piece. -/
theorem offset_is_u16len_of_prefix (ops : List Op) :
    ∀ e ∈ (run ops).ents, e.off = (u16len ((run ops).text.take e.cs) : Int) :=
  fun e he => ((inv_run ops).ents e he).2.2.1

/-- Every entity's length is the UTF-16 length of its piece (characters `[cs, ce)` of the text),
and the piece lies inside the text. -/
theorem length_is_u16len_of_piece (ops : List Op) :
    ∀ e ∈ (run ops).ents, e.cs ≤ e.ce ∧ e.ce ≤ (run ops).text.length ∧
      e.len = (u16len (((run ops).text.drop e.cs).take (e.ce - e.cs)) : Int) := by
  intro e he
  obtain ⟨h1, h2, h3, h4⟩ := (inv_run ops).ents e he
  refine ⟨h1, h2, ?_⟩
  have := u16len_take_drop (run ops).text e.cs e.ce h1
  omega

/-- The ghost span of `Format(p, fs...)` is exactly the piece `p`: the new entities (one per
formatter, nothing else changes) start where the text ended and `p` is what is found there. -/
theorem format_span_is_piece (s : St) (p : List Char) (fs : List Fmt) (hp : p ≠ []) :
    (step s (.format p fs)).text = s.text ++ p ∧
    (step s (.format p fs)).ents = s.ents ++ fs.map (fun f =>
      { off := s.u16, len := u16len p, kind := f.kind, lang := f.lang,
        cs := s.text.length, ce := s.text.length + p.length }) ∧
    ((s.text ++ p).drop s.text.length).take (s.text.length + p.length - s.text.length) = p := by
  have : p.isEmpty = false := by cases p <;> simp_all
  refine ⟨by simp [step, this, writeString, appendEntities], by simp [step, this, writeString, appendEntities], ?_⟩
  rw [List.drop_left' rfl, List.take_of_length_le (by omega)]

/-- The ghost span of `tok.Apply(b, fs...)` is everything written since `tok := b.Token()`. -/
theorem apply_span_is_since_token (s : St) (k : Nat) (t : Tok) (fs : List Fmt) (ht : s.toks[k]? = some t) :
    (step s (.apply k fs)).text = s.text ∧
    (step s (.apply k fs)).ents = s.ents ++ fs.map (fun f =>
      { off := t.o16, len := (s.u16 : Int) - t.o16, kind := f.kind, lang := f.lang,
        cs := t.c, ce := s.text.length }) ∧
    (step s .token).toks = s.toks ++ [{ c := s.text.length, o16 := s.u16 }] := by
  simp [step, ht, appendEntities]

/-- C35/C37 core: after ANY operation list, every entity returned by `Complete` lies within the
returned text (in UTF-16 code units) and has a non-negative offset and length. -/
theorem complete_within (ops : List Op) :
    ∀ e ∈ (complete (run ops)).2,
      0 ≤ e.off ∧ 0 ≤ e.len ∧ e.off + e.len ≤ (u16len (complete (run ops)).1 : Int) := by
  intro e he
  have hinv := inv_run ops
  obtain ⟨n, _, htext, _, hents⟩ := fixEntities_spec (run ops) hinv
  have he' : e ∈ (fixEntities (run ops)).2 := (sortEnts_perm _).mem_iff.mp he
  rw [hents] at he'
  obtain ⟨e0, h0, rfl⟩ := List.mem_map.mp he'
  have := clamp_ok (hinv.ents e0 h0) n
  simp only [complete, htext]
  exact this.2.2

/-- The text is trimmed only at its end and only by white space; no entity is lost; and each
returned entity covers, in UTF-16 units of the returned text, exactly the piece it formatted cut
at the trim point `n` (characters `[min cs n, min ce n)`). -/
theorem complete_exact (ops : List Op) :
    ∃ n, n ≤ (run ops).text.length ∧
      (complete (run ops)).1 = (run ops).text.take n ∧
      ((run ops).text.drop n).all isSpace = true ∧
      (complete (run ops)).2.Perm ((run ops).ents.map (clamp (u16len ((run ops).text.take n)))) ∧
      ∀ e ∈ (run ops).ents,
        (clamp (u16len ((run ops).text.take n)) e).kind = e.kind ∧
        (clamp (u16len ((run ops).text.take n)) e).off =
          (u16len (((run ops).text.take n).take (min e.cs n)) : Int) ∧
        (clamp (u16len ((run ops).text.take n)) e).off + (clamp (u16len ((run ops).text.take n)) e).len =
          (u16len (((run ops).text.take n).take (min e.ce n)) : Int) := by
  have hinv := inv_run ops
  obtain ⟨n, hn, htext, hsp, hents⟩ := fixEntities_spec (run ops) hinv
  refine ⟨n, hn, htext, hsp, ?_, ?_⟩
  · show (sortEnts (fixEntities (run ops)).2).Perm _
    rw [hents]
    exact sortEnts_perm _
  · intro e he
    have := clamp_ok (hinv.ents e he) n
    exact ⟨rfl, this.1, this.2.1⟩

/-- When nothing is trimmed the entities are returned unchanged (up to order). -/
theorem complete_untrimmed (ops : List Op) (h : (complete (run ops)).1 = (run ops).text) :
    (complete (run ops)).2.Perm (run ops).ents := by
  have hinv := inv_run ops
  obtain ⟨n, hn, htext, _, hents⟩ := fixEntities_spec (run ops) hinv
  show (sortEnts (fixEntities (run ops)).2).Perm _
  have hperm := sortEnts_perm (fixEntities (run ops)).2
  have hlen : n = (run ops).text.length := by
    have h1 : (fixEntities (run ops)).1 = (run ops).text := h
    rw [htext] at h1
    have := congrArg List.length h1
    simp only [List.length_take] at this
    omega
  subst hlen
  have : ∀ e ∈ (run ops).ents, clamp (u16len (run ops).text) e = id e := fun e he => clamp_id (hinv.ents e he)
  rw [List.take_length, List.map_congr_left this, List.map_id] at hents
  rw [hents] at hperm ⊢
  exact hperm

/-- D10 on the pinned tree (`fixEntitiesOld`): `<b><i>x  </i></b>` as the HTML parser drives the
builder gives the text "x" with an entity of length 3. -/
theorem complete_old_counterexample :
    let ops := [Op.token, .token, .write ['x', ' ', ' '], .apply 1 [{ kind := 1 }], .apply 0 [{ kind := 0 }]]
    (completeOld (run ops)).1 = ['x'] ∧ holds (completeOld (run ops)).1 (completeOld (run ops)).2 = false := by
  decide

/-- Non-vacuity: an astral character, a combining mark, nested tokens and an ideographic space at
the end — the result is trimmed and both entities are cut to the kept text. -/
example :
    complete (run [.token, .write ['a'], .format ['😀', 'e', '́', ' ', '　'] [{ kind := 1 }], .apply 0 [{ kind := 0 }]])
      = (['a', '😀', 'e', '́'],
         [{ off := 0, len := 5, kind := 0, cs := 0, ce := 6 }, { off := 1, len := 4, kind := 1, cs := 1, ce := 6 }]) := by
  decide

/-- Non-vacuity for `WriteRune` with invalid runes and builder re-use: a first message is
abandoned by `Reset` (its `lengths`/`lastFormatIndex` stay behind, as in the code), then a lone
surrogate half and a value above U+10FFFF are written as U+FFFD and the following entity still
starts at the right offset. -/
example :
    complete (run [.format ['o', 'l', 'd', ' ', ' '] [{ kind := 0 }], .reset,
                   .writeRune 0xD83D, .writeRune 0x110000, .writeRune (-1), .writeRune 0x1F600,
                   .format ['x', ' '] [{ kind := 1 }]])
      = ([Char.ofNat 0xFFFD, Char.ofNat 0xFFFD, Char.ofNat 0xFFFD, '😀', 'x'],
         [{ off := 5, len := 1, kind := 1, cs := 4, ce := 6 }]) := by
  decide

end TdModel.C35
