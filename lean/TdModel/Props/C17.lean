/-
C17 — decoding arbitrary transport input never crashes the client.
Property theorems only (helper lemmas live in TdModel/Lemmas/C16C17.lean and C17.lean).

The model (`TdModel.Codec`, file Model/C16C17.lean) makes Go's run-time checks explicit: a reader
returns `panic` when a slice expression or `make` would fail, and records every buffer length it
requests.  `TdModel.C17.cfg` is the configuration (constants, guards) regenerated from the source.
-/
import TdModel.Model.C17
import TdModel.Lemmas.C17

namespace TdModel.C17
open TdModel TdModel.Bin TdModel.Codec

/-- Tie: every decision and arithmetic expression translated from the current source (length check
of `readLen` with its envelope, the abridged switch `>= 127` and its guard `n<<2 > maxMessageSize`
before `ResetN(n<<2)`, the guard `n < 12` of the full reader before `Expand(n-4)`, its slice bounds
`[4:n]`, `[0:n-4]`, `[8:n-4]`, `payloadLength = n-12`, padding `% 4`, envelope allowances 12 and 3,
protocol tags) *means* what the specification says — proved by arithmetic for all arguments, so an
equivalent rewrite of the Go expressions keeps the proof and a change of meaning breaks it. -/
theorem cfg_is_spec : cfg.readerPart = Cfg.spec := by
  have tm : ∀ (a : Nat), Int.tmod (a : Int) 4 = ((a % 4 : Nat) : Int) := fun a => (Int.ofNat_tmod a 4).symm
  apply Cfg.ext
  case lenRejects => funext n e; simp only [cfg, Cfg.readerPart, Cfg.spec, Facts.C17.lenRejects]; rw [Bool.eq_iff_iff]; simp; omega
  case outRejects => rfl
  case abrShort => rfl
  case abrLong => funext n; simp only [cfg, Cfg.readerPart, Cfg.spec, Facts.C17.abrLong]; rw [Bool.eq_iff_iff]; simp; omega
  case abrRejects => funext n; simp only [cfg, Cfg.readerPart, Cfg.spec, Facts.C17.abrRejects]; rw [Bool.eq_iff_iff]; simp; omega
  case fullRejects => funext n; simp only [cfg, Cfg.readerPart, Cfg.spec, Facts.C17.fullRejects]; rw [Bool.eq_iff_iff]; simp; omega
  case misaligned => rfl
  case isCode => funext n; simp only [cfg, Cfg.readerPart, Cfg.spec, Facts.C17.notCode]; rw [Bool.eq_iff_iff]; simp; omega
  case abrWords => rfl
  case abrBytes => funext n; simp only [cfg, Cfg.readerPart, Cfg.spec, Facts.C17.abrBytes]; try omega
  case fullExpand => funext n; simp only [cfg, Cfg.readerPart, Cfg.spec, Facts.C17.fullExpand]; try omega
  case fullInnerHi => funext n; simp only [cfg, Cfg.readerPart, Cfg.spec, Facts.C17.fullInnerHi]; try omega
  case fullPayload => funext n; simp only [cfg, Cfg.readerPart, Cfg.spec, Facts.C17.fullPayload]; try omega
  case fullCrcHi => funext n; simp only [cfg, Cfg.readerPart, Cfg.spec, Facts.C17.fullCrcHi]; try omega
  case fullCopyHi => funext n; simp only [cfg, Cfg.readerPart, Cfg.spec, Facts.C17.fullCopyHi]; try omega
  case fullWire => rfl
  case padOf => rfl
  case padStrip => funext n; simp only [cfg, Cfg.readerPart, Cfg.spec, Facts.C17.padStrip, tm]; try omega
  case fullInnerLo => funext n; simp only [cfg, Cfg.readerPart, Cfg.spec, Facts.C17.fullInnerLo]
  case fullCrcLo => funext n; simp only [cfg, Cfg.readerPart, Cfg.spec, Facts.C17.fullCrcLo]
  case fullCopyLo => funext n; simp only [cfg, Cfg.readerPart, Cfg.spec, Facts.C17.fullCopyLo]
  case abrMark => rfl
  case fullEnvelope => decide
  case fullSeqAfterCheck => rfl

  case padEnvelope => decide
  case tagAbridged => rfl
  case tagIntermediate => rfl
  case tagPadded => rfl

theorem frame_limit_is_16MiB : Facts.C17.maxMessageSize = 2 ^ 24 := by decide

/-- The readers reach the stream through `io.ReadFull` only (call-site fact), which is what makes
the model's "take n of the whole remaining stream" independent of the chunking of reads. -/
theorem reads_only_via_ReadFull : Facts.C17.readsOnlyViaReadFull = true := by decide

/-- **No panic.**  For every protocol, every reader counter value, every CRC function and every byte
stream, `Codec.Read` returns a frame or an error: none of Go's slice-bounds / makeslice checks fails. -/
theorem read_never_panics (crc : Bytes → Nat) (k : Kind) (seq : Int) (s : Bytes) :
    (read cfg crc k seq s).out.isPanic = false := by
  rw [read_readerPart, cfg_is_spec]; exact (read_safe crc k seq s).1

/-- **Allocation bound.**  Every buffer length requested while reading one frame is at most the
frame limit plus the full protocol's envelope (length, seqno, crc, and the 4-byte scratch copy of the
length): `2^24 + 16`. -/
theorem read_alloc_le (crc : Bytes → Nat) (k : Kind) (seq : Int) (s : Bytes) (a : Nat)
    (h : a ∈ (read cfg crc k seq s).allocs) : a ≤ 2 ^ 24 + 16 := by
  rw [read_readerPart, cfg_is_spec] at h; exact (read_safe crc k seq s).2 a h

/-- Abridged never requests more than the frame limit itself (the D6 repair: pinned tree 64 MiB). -/
theorem abridged_alloc_le (s : Bytes) (a : Nat) (h : a ∈ (readAbridged cfg s).allocs) : a ≤ 2 ^ 24 := by
  rw [readAbridged_readerPart, cfg_is_spec] at h; exact (readAbridged_safe s).2 a h

/-- Intermediate never requests more than the frame limit. -/
theorem intermediate_alloc_le (s : Bytes) (a : Nat) (h : a ∈ (readIntermediate cfg false s).allocs) :
    a ≤ 2 ^ 24 := by
  rw [readIntermediate_readerPart, cfg_is_spec] at h; exact (readIntermediate_plain_safe s).2 a h

/-- Padded intermediate: frame limit plus at most 3 bytes of padding. -/
theorem padded_alloc_le (s : Bytes) (a : Nat) (h : a ∈ (readPadded cfg s).allocs) : a ≤ 2 ^ 24 + 3 := by
  rw [readPadded_readerPart, cfg_is_spec] at h; exact (readPadded_safe s).2 a h

/-- **Whole connection.**  However many times `Read` is called on one connection (every delivered
frame is followed by another `Read` on the rest of the stream with the next seqno), no call panics
and no call requests a buffer above the bound: the per-frame guarantee is not spent by earlier frames. -/
theorem session_never_panics_and_alloc_le (crc : Bytes → Nat) (k : Kind) (fuel : Nat) (seq : Int) (s : Bytes) :
    ∀ r ∈ readSession cfg crc k fuel seq s, r.out.isPanic = false ∧ ∀ a ∈ r.allocs, a ≤ 2 ^ 24 + 16 := by
  induction fuel generalizing seq s with
  | zero => intro r hr; simp [readSession] at hr
  | succ n ih =>
    intro r hr
    simp only [readSession] at hr
    rcases List.mem_cons.mp hr with h | h
    · subst h; exact ⟨read_never_panics crc k seq s, fun a ha => read_alloc_le crc k seq s a ha⟩
    · split at h
      · exact ih _ _ r h
      · simp at h

/-- Non-vacuity: a two-frame intermediate stream followed by a bad length prefix is three `Read`s —
two frames, then a plain error. -/
example : (readSession cfg (fun _ => 0) .intermediate 5 0
      [8, 0, 0, 0, 1, 2, 3, 4, 5, 6, 7, 8, 8, 0, 0, 0, 8, 7, 6, 5, 4, 3, 2, 1, 0, 0, 0, 0]).map (·.out)
    = [.ok [1, 2, 3, 4, 5, 6, 7, 8] [8, 0, 0, 0, 8, 7, 6, 5, 4, 3, 2, 1, 0, 0, 0, 0],
       .ok [8, 7, 6, 5, 4, 3, 2, 1] [0, 0, 0, 0], .err (.badLen 0)] := by decide

/-! ### The pinned tree (before the `fix:` commit) violated the property (defect D6) -/

/-- Full protocol, length prefix 1: `b.Expand(n - 4)` → `makeslice: len out of range`. -/
theorem pinned_full_len1_panics (crc : Bytes → Nat) :
    (read Cfg.pinned crc .full 0 [1, 0, 0, 0]).out.isPanic = true := by rfl

/-- Full protocol, length prefix 8 with the expected seqno: `inner.Skip(n - 12)` → slice bounds. -/
theorem pinned_full_len8_panics (crc : Bytes → Nat) :
    (read Cfg.pinned crc .full 0 [8, 0, 0, 0, 0, 0, 0, 0]).out.isPanic = true := by rfl

/-- Abridged `7f ff ff ff`: a 64 MiB buffer is requested for a 16 MiB frame limit. -/
theorem pinned_abridged_allocates_64MiB (crc : Bytes → Nat) :
    (read Cfg.pinned crc .abridged 0 [0x7f, 0xff, 0xff, 0xff]).allocs = [4, 67108860] := by rfl

/-- The same inputs on the repaired tree are plain read errors. -/
example (crc : Bytes → Nat) : (read cfg crc .full 0 [1, 0, 0, 0]).out = .err (.badLen 1) := by rfl
example (crc : Bytes → Nat) : (read cfg crc .full 0 [8, 0, 0, 0, 0, 0, 0, 0]).out = .err (.badLen 8) := by rfl
example (crc : Bytes → Nat) :
    read cfg crc .abridged 0 [0x7f, 0xff, 0xff, 0xff] = ⟨[4], .err (.badLen 67108860)⟩ := by rfl

/-- Non-vacuity: the readers do deliver frames (so "never panics" is not "always fails"). -/
example : (read cfg (fun _ => 0) .intermediate 0 [8, 0, 0, 0, 1, 2, 3, 4, 5, 6, 7, 8, 9]).out
    = .ok [1, 2, 3, 4, 5, 6, 7, 8] [9] := by decide
example : (read cfg (fun _ => 7) .full 3 [20, 0, 0, 0, 3, 0, 0, 0, 1, 2, 3, 4, 5, 6, 7, 8, 7, 0, 0, 0]).out
    = .ok [1, 2, 3, 4, 5, 6, 7, 8] [] := by decide

end TdModel.C17
