/-
C37 — HTML and Markdown formatting never crash and stay within the text.
Property theorems only.  What is proved: for EVERY sequence of builder calls a parser can make
(whatever the third-party tokenizer fed it), the text and entities returned by `Complete` satisfy
"every entity lies within the text, offsets and lengths are non-negative".  What is NOT proved and
only exercised under `recover()` by the harness: absence of panics in the third-party tokenizers and
in the parsers' own control flow.  Round 2: `telegramUnescape` (html/unescape.go, the byte-index-heavy
part of the HTML path) IS modelled with checked reads and proved panic-free.
-/
import TdModel.Lemmas.C35
import TdModel.Model.C37
import TdModel.Lemmas.C37

namespace TdModel.C37
open TdModel.C35

/-- Instance of `C35.complete_within` for arbitrary parser behaviour. -/
theorem parser_result_within (calls : List Call) :
    ∀ e ∈ (result calls).2,
      0 ≤ e.off ∧ 0 ≤ e.len ∧ e.off + e.len ≤ (u16len (result calls).1 : Int) := by
  intro e he
  have hinv := inv_run (calls.map toOp)
  obtain ⟨n, _, htext, _, hents⟩ := fixEntities_spec (run (calls.map toOp)) hinv
  have he' : e ∈ (fixEntities (run (calls.map toOp))).2 := (sortEnts_perm _).mem_iff.mp he
  rw [hents] at he'
  obtain ⟨e0, h0, rfl⟩ := List.mem_map.mp he'
  have := clamp_ok (hinv.ents e0 h0) n
  simp only [result, complete, htext]
  exact this.2.2

/-- The same statement through the decidable monitor the driver evaluates on the
implementation's observations. -/
theorem parser_result_holds (calls : List Call) :
    holds (result calls).1 (result calls).2 = true := by
  unfold holds
  rw [List.all_eq_true]
  intro e he
  have := parser_result_within calls e he
  simp only [Bool.and_eq_true, decide_eq_true_eq]
  exact ⟨⟨this.1, this.2.1⟩, this.2.2⟩

/-- The text is only ever cut at its end, and only white space is cut. -/
theorem parser_text_trimmed_at_end (calls : List Call) :
    ∃ n, (result calls).1 = (run (calls.map toOp)).text.take n ∧
      ((run (calls.map toOp)).text.drop n).all isSpace = true := by
  obtain ⟨n, _, htext, hsp, _⟩ := fixEntities_spec (run (calls.map toOp)) (inv_run _)
  exact ⟨n, htext, hsp⟩

/-- The builder methods the model transliterates are unchanged in the source (see C35). -/
theorem builder_source_unchanged :
    Facts.C35.changedBuilderMethods = [] ∧ Facts.C35.pinnedBuilderMethods = 19 := by decide

/-- `Call` covers the whole state-changing API: the methods of `entity.Builder` and
`entity.Token` in the current source are exactly modelled ∪ read-only ∪ final ∪ internal, and the
generated `Bold(s)`-style methods are all `b.Format(s, …)`. -/
theorem builder_api_is_modelled :
    Facts.C37.builderMethods =
      ["Complete", "EntitiesLen", "Format", "GrowEntities", "GrowText", "LastEntity", "Plain", "Raw",
       "Reset", "ShrinkPreCode", "TextRange", "Token", "UTF16Len", "UTF8Len", "Write", "WriteByte",
       "WriteRune", "WriteString", "appendEntities", "appendMessage", "fixEntities"] ∧
    Facts.C37.tokenMethods = ["Apply", "Text", "UTF16Length", "UTF16Offset", "UTF8Length", "UTF8Offset"] ∧
    subset (Facts.C37.builderMethods ++ Facts.C37.tokenMethods) (modelled ++ readOnly ++ final ++ internal) = true ∧
    Facts.C37.genMethodsAreFormat = true := by decide

/-- The two parsers call only modelled or read-only methods (never `Reset`/`Raw`/`Complete`), and
every `WriteByte` they issue writes an ASCII literal (one whole rune). -/
theorem parser_calls_are_modelled :
    subset (Facts.C37.htmlCalls ++ Facts.C37.mdCalls) (modelled ++ readOnly) = true ∧
    Facts.C37.htmlCallsWriteByteASCII = true ∧ Facts.C37.mdCallsWriteByteASCII = true := by decide

/-- The parser's own control logic (stack of open tags, name check, "no empty entities",
`code` inside `pre`, final `ShrinkPreCode`), modelled for documents without attributes over the
token stream of the real tokenizer: whenever it succeeds, every entity lies within the text. -/
theorem html_result_within (toks : List C37H.HTok) (r : List Char × List Ent)
    (h : C37H.htmlResult toks = some r) :
    ∀ e ∈ r.2, 0 ≤ e.off ∧ 0 ≤ e.len ∧ e.off + e.len ≤ (u16len r.1 : Int) := by
  unfold C37H.htmlResult at h
  split at h
  · cases h
  · rename_i p hp
    cases h
    exact complete_within_of_inv _ (inv_step (C37H.parseToks_inv toks {} p inv_init hp) .shrink)

/-- The tag → formatter table of `htmlParser.startTag`, regenerated from the source, is the Bot API
table (https://core.telegram.org/bots/api#html-style); the remaining tags have attribute logic. -/
theorem tag_table_spec :
    Facts.C37.simpleTags =
      [("b", "Bold"), ("strong", "Bold"), ("i", "Italic"), ("em", "Italic"), ("u", "Underline"), ("ins", "Underline"),
       ("s", "Strike"), ("strike", "Strike"), ("del", "Strike"), ("tg-spoiler", "Spoiler")] ∧
    Facts.C37.complexTags = ["a", "code", "pre", "span", "tg-emoji", "blockquote", "tg-time"] := by decide

/-- Non-vacuity of the parser model: `<pre><code>x</code></pre><b>y  </b>` and an error. -/
example :
    C37H.htmlResult [.start "pre", .start "code", .text ['x'], .stop "code", .stop "pre", .start "b", .text ['y', ' ', ' '], .stop "b"]
      = some (['x', 'y'], [{ off := 0, len := 1, kind := 4, cs := 0, ce := 1 }, { off := 0, len := 1, kind := 5, cs := 0, ce := 1 },
                           { off := 1, len := 1, kind := 0, cs := 1, ce := 4 }]) ∧
    C37H.htmlResult [.start "b", .text ['x'], .stop "i"] = none := by decide

/-- `unescapeEntity` (Telegram's character-reference rewriting, every index expression modelled as
a checked read): for any slice starting with `&` it never indexes out of range, consumes between 1
and `len(s)` bytes, and writes at most as many bytes as it consumes — so the in-place writes
`b[dst] = …`, `utf8.EncodeRune(b[dst:], x)`, `copy(b[dst:dst1], …)` stay inside the slice. -/
theorem unescapeEntity_total (s : Bytes) (h : 1 ≤ s.length) (h0 : C37U.rd s 0 = some 38) :
    ∃ out n, C37U.unescapeEntity s = some (out, n) ∧ 1 ≤ n ∧ n ≤ s.length ∧ out.length ≤ n :=
  C37U.unescapeEntity_spec s h h0

/-- `telegramUnescape` never panics on ANY byte string (truncated, overflowing, surrogate and
out-of-range numeric references included), and its output is never longer than its input. -/
theorem telegramUnescape_total (b : Bytes) :
    ∃ out, C37U.telegramUnescape b = some out ∧ out.length ≤ b.length :=
  C37U.telegramUnescape_spec b

/-- Non-vacuity / sample values of the unescape model on `&lt;b&gt;&amp;&#128512;&#x41&#5x&`:
named and decimal references are replaced, a hex reference without `;` still counts (`&#x41` → `A`),
a one-digit decimal reference without `;` does not (`&#5x` stays), a trailing lone `&` stays. -/
example : C37U.telegramUnescape [38, 108, 116, 59, 98, 38, 103, 116, 59, 38, 97, 109, 112, 59, 38, 35, 49, 50, 56, 53, 49, 50, 59,
                                 38, 35, 120, 52, 49, 38, 35, 53, 120, 38]
    = some [60, 98, 62, 38, 0xF0, 0x9F, 0x98, 0x80, 65, 38, 35, 53, 120, 38] := by decide

/-- Non-vacuity: `<b>a<i>😀  </i></b>` as the HTML parser drives the builder. -/
example :
    result [.token, .write ['a'], .token, .write ['😀', ' ', ' '], .apply 1 [{ kind := 1 }], .apply 0 [{ kind := 0 }], .shrinkPreCode]
      = (['a', '😀'],
         [{ off := 0, len := 3, kind := 0, cs := 0, ce := 4 }, { off := 1, len := 2, kind := 1, cs := 1, ce := 4 }]) := by
  decide

end TdModel.C37
