/-
C37 — HTML and Markdown formatting never crash and stay within the text.
Property theorems only.  What is proved: for EVERY sequence of builder calls a parser can make
(whatever the third-party tokenizer fed it), the text and entities returned by `Complete` satisfy
"every entity lies within the text, offsets and lengths are non-negative".  What is NOT proved and
only exercised under `recover()` by the harness: absence of panics (tokenizers are not modelled).
-/
import TdModel.Lemmas.C35
import TdModel.Model.C37

namespace TdModel.C37
open TdModel.C35

/-- Instance of `C35.complete_within` for arbitrary parser behaviour. -/
theorem parser_result_within (calls : List Call) :
    ∀ e ∈ (result calls).2,
      0 ≤ e.off ∧ 0 ≤ e.len ∧ e.off + e.len ≤ (u16len (result calls).1 : Int) := by
  intro e he
  have hinv := inv_run (calls.map toOp)
  obtain ⟨n, _, htext, _, hents⟩ := fixEntities_spec (run (calls.map toOp)) hinv
  have he' : e ∈ (fixEntities (run (calls.map toOp))).2 := (sortEnts_perm _).mem_iff.mp he
  rw [hents] at he'
  obtain ⟨e0, h0, rfl⟩ := List.mem_map.mp he'
  have := clamp_ok (hinv.ents e0 h0) n
  simp only [result, complete, htext]
  exact this.2.2

/-- The same statement through the decidable monitor the driver evaluates on the
implementation's observations. -/
theorem parser_result_holds (calls : List Call) :
    holds (result calls).1 (result calls).2 = true := by
  unfold holds
  rw [List.all_eq_true]
  intro e he
  have := parser_result_within calls e he
  simp only [Bool.and_eq_true, decide_eq_true_eq]
  exact ⟨⟨this.1, this.2.1⟩, this.2.2⟩

/-- The text is only ever cut at its end, and only white space is cut. -/
theorem parser_text_trimmed_at_end (calls : List Call) :
    ∃ n, (result calls).1 = (run (calls.map toOp)).text.take n ∧
      ((run (calls.map toOp)).text.drop n).all isSpace = true := by
  obtain ⟨n, _, htext, hsp, _⟩ := fixEntities_spec (run (calls.map toOp)) (inv_run _)
  exact ⟨n, htext, hsp⟩

/-- `Call` covers the whole state-changing API: the methods of `entity.Builder` and
`entity.Token` in the current source are exactly modelled ∪ read-only ∪ final ∪ internal, and the
generated `Bold(s)`-style methods are all `b.Format(s, …)`. -/
theorem builder_api_is_modelled :
    Facts.C37.builderMethods =
      ["Complete", "EntitiesLen", "Format", "GrowEntities", "GrowText", "LastEntity", "Plain", "Raw",
       "Reset", "ShrinkPreCode", "TextRange", "Token", "UTF16Len", "UTF8Len", "Write", "WriteByte",
       "WriteRune", "WriteString", "appendEntities", "appendMessage", "fixEntities"] ∧
    Facts.C37.tokenMethods = ["Apply", "Text", "UTF16Length", "UTF16Offset", "UTF8Length", "UTF8Offset"] ∧
    subset (Facts.C37.builderMethods ++ Facts.C37.tokenMethods) (modelled ++ readOnly ++ final ++ internal) = true ∧
    Facts.C37.genMethodsAreFormat = true := by decide

/-- The two parsers call only modelled or read-only methods (never `Reset`/`Raw`/`Complete`), and
every `WriteByte` they issue writes an ASCII literal (one whole rune). -/
theorem parser_calls_are_modelled :
    subset (Facts.C37.htmlCalls ++ Facts.C37.mdCalls) (modelled ++ readOnly) = true ∧
    Facts.C37.htmlCallsWriteByteASCII = true ∧ Facts.C37.mdCallsWriteByteASCII = true := by decide

/-- Non-vacuity: `<b>a<i>😀  </i></b>` as the HTML parser drives the builder. -/
example :
    result [.token, .write ['a'], .token, .write ['😀', ' ', ' '], .apply 1 [{ kind := 1 }], .apply 0 [{ kind := 0 }], .shrinkPreCode]
      = (['a', '😀'],
         [{ off := 0, len := 3, kind := 0, cs := 0, ce := 4 }, { off := 1, len := 2, kind := 1, cs := 1, ce := 4 }]) := by
  decide

end TdModel.C37
