/-
C24 — each RPC call completes once with its own result and is then left alone.

Property theorems only.  The transition system is `TdModel.Rpc` (`Model/C24.lean`): any number of
concurrent `Do` calls, `NotifyResult` / `NotifyError` invocations (split into lookup / CAS /
`Output.Decode`), acknowledgements, cancellations, clock travel, `Close`, `ForceClose`, in any
interleaving at the granularity of the scheduling points of `rpc/engine.go`.  `Reachable cfg s`
quantifies over **all** action lists.
-/
import TdModel.Lemmas.C24Frame
import TdModel.Lemmas.C24ProvEnv
import TdModel.Model.C24Cfg

namespace TdModel.C24
open TdModel.Rpc

/-! `C24.cfg maxRetries interval` (`Model/C24Cfg.lean`) is the engine as it is in the source: the raw
facts regenerated from `rpc/engine.go` / `rpc/ack.go` on every run, interpreted by `Cfg.ofRaw`. -/

/-- Every regenerated fact is one the interpretation understands. -/
theorem source_understood : raw.understood = true := by decide

/-- **The source has the shape the theorems are about**: `Do` defers "claim the handler CAS, or wait
for `done`" (and for nothing else); the final `select` has exactly the cases caller-context /
close-context / `done`, its close branch detects a concurrent result by a try-receive on `done`;
`Do` defers the removal of its handler; `NotifyAcks` skips unknown ids and unregisters acknowledged
ones; ... (`Cfg.std`).  If the source changes shape the model follows it (the trace conformance stays
meaningful) and this theorem — hence every theorem below — stops compiling. -/
theorem source_shape (mr iv : Nat) : (cfg mr iv).std = true := by
  rw [cfg, Cfg.ofRaw_std]; decide

/-- the handler claims the same CAS before it touches `req.Output`. -/
theorem handler_cas_in_source : Facts.C24.handlerCasBeforeDecode = true := by decide

/-- The scheduling points the trace conformance relies on are exactly these call sites. -/
theorem hook_sites_in_source : Facts.C24.hookSites =
    ["Do:handler.cas", "Do:do.guard", "Do:do.wait", "retryUntilAck:retry.wait",
     "NotifyResult:notify.invoke", "NotifyError:notify.invoke", "Close:close.wait"] := by decide

theorem cfg_guard (mr iv : Nat) : (cfg mr iv).std = true := source_shape mr iv

/-- **Left alone after the return.**  Once `Do` has returned, no action of any thread — late or
duplicate results, results or errors for this or any other message id, acknowledgements,
cancellation, timers, close — changes anything of that call: its `Output` writes, its result,
its counters.  In particular the output is never written after the return. -/
theorem returned_left_alone (mr iv : Nat) {s s' : State} (hr : Reachable (cfg mr iv) s)
    {i : Nat} {c : Call} (hc : s.calls i = some c) (hret : c.ret ≠ none)
    {a : Action} (hs : step (cfg mr iv) s a = some s') : s'.calls i = some c :=
  frozen_step (cfg_guard mr iv) (reachable_inv (cfg_guard mr iv) hr) hc hret hs

/-- **Returns once.**  The value returned by `Do` never changes along any continuation. -/
theorem returns_once (mr iv : Nat) {s s' : State} (hr : Reachable (cfg mr iv) s)
    {i : Nat} {c : Call} {r : Ret} (hc : s.calls i = some c) (hret : c.ret = some r)
    {as : List Action} (hs : run (cfg mr iv) s as = some s') :
    ∃ c', s'.calls i = some c' ∧ c'.ret = some r ∧ c'.writes = c.writes :=
  ⟨c, frozen_run (cfg_guard mr iv) (reachable_inv (cfg_guard mr iv) hr) hc (by simp [hret]) hs, hret, rfl⟩

/-- **No write after the return.**  Whenever `Output.Decode` of some notifier is about to write
(the action `nwrite` is enabled), the call whose output it writes has not returned. -/
theorem no_write_after_return (mr iv : Nat) {s s' : State} (hr : Reachable (cfg mr iv) s)
    {nid : Nat} {o : Outcome} (hs : step (cfg mr iv) s (.nwrite nid o) = some s') :
    ∃ n cid c, s.notifs nid = some n ∧ n.fn = .real cid ∧ s.calls cid = some c ∧ c.ret = none := by
  have hi := reachable_inv (cfg_guard mr iv) hr
  simp only [step, stepNwrite] at hs
  split at hs
  · simp at hs
  · next n hn =>
    split at hs
    · next cid hpc hfn =>
      split at hs
      · simp at hs
      · next c hc =>
        exact ⟨n, cid, c, hn, hfn, hc, (hi.stage_owner nid n cid c hn (Or.inr hpc) hfn hc).2.2⟩
    · simp at hs

/-- **No write concurrent with the return.**  While a notifier is between winning the handler CAS
and the end of `Output.Decode` for a call, that call has not returned (so `Do` cannot return while
its output is being written). -/
theorem no_write_concurrent_with_return (mr iv : Nat) {s : State} (hr : Reachable (cfg mr iv) s)
    {nid cid : Nat} {n : Notif} {c : Call} (hn : s.notifs nid = some n) (hst : n.pc = .cas ∨ n.pc = .decode)
    (hfn : n.fn = .real cid) (hc : s.calls cid = some c) : c.ret = none ∧ c.done = false :=
  let h := (reachable_inv (cfg_guard mr iv) hr).stage_owner nid n cid c hn hst hfn hc
  ⟨h.2.2, h.2.1⟩

/-- **Routed by id.**  The handler a notifier got from the engine's map belongs to the call whose
message id is the notification's `msgID` argument: results or errors for other ids never reach it. -/
theorem routed_by_id (mr iv : Nat) {s : State} (hr : Reachable (cfg mr iv) s)
    {nid cid : Nat} {n : Notif} (hn : s.notifs nid = some n) (hfn : n.fn = .real cid) : n.target = cid :=
  (reachable_prov (cfg_guard mr iv) hr).fn_target nid n cid hn hfn

/-- **At most one write, and only of an own result.**  Every payload ever written into the output
of call `i` was passed to `NotifyResult` with `msgID = i`; there is at most one such write. -/
theorem writes_own_and_le_one (mr iv : Nat) {s : State} (hr : Reachable (cfg mr iv) s)
    {i : Nat} {c : Call} (hc : s.calls i = some c) :
    c.writes.length ≤ 1 ∧ ∀ v ∈ c.writes, (i, false, v) ∈ s.delivered := by
  have hp := reachable_prov (cfg_guard mr iv) hr
  exact ⟨hp.writes_le i c hc, fun v hv => hp.writes_src i c v hc hv⟩

/-- **Own result.**  If `Do` returned `nil`, its output holds exactly one payload, and that payload
was delivered by `NotifyResult` for this call's own message id; if it returned an RPC error, that
error was delivered by `NotifyError` for its own id and the output was never written; if it
returned a decode error, the (single) payload decoded was addressed to it. -/
theorem result_is_own (mr iv : Nat) {s : State} (hr : Reachable (cfg mr iv) s)
    {i : Nat} {c : Call} (hc : s.calls i = some c) :
    (c.ret = some .ok → ∃ v, c.writes = [v] ∧ (i, false, v) ∈ s.delivered) ∧
    (∀ code, c.ret = some (.rpcErr code) → c.writes = [] ∧ (i, true, code) ∈ s.delivered) ∧
    (c.ret = some .decodeErr → ∃ v, c.writes = [v] ∧ (i, false, v) ∈ s.delivered) := by
  have hp := reachable_prov (cfg_guard mr iv) hr
  refine ⟨fun h => ?_, fun code h => ?_, fun h => ?_⟩
  · obtain ⟨hd, hres⟩ := hp.ret_res i c .ok hc (Or.inl h) rfl
    obtain ⟨v, hv⟩ := hp.res_write i c hc hd (Or.inl hres)
    exact ⟨v, hv, hp.writes_src i c v hc (by simp [hv])⟩
  · obtain ⟨hd, hres⟩ := hp.ret_res i c (.rpcErr code) hc (Or.inl h) rfl
    exact hp.res_rpc i c code hc hd hres
  · obtain ⟨hd, hres⟩ := hp.ret_res i c .decodeErr hc (Or.inl h) rfl
    obtain ⟨v, hv⟩ := hp.res_write i c hc hd (Or.inr hres)
    exact ⟨v, hv, hp.writes_src i c v hc (by simp [hv])⟩

/-- **Foreign ids don't touch.**  A step of a notifier whose `msgID` argument is not `i` leaves call
`i` unchanged. -/
theorem foreign_ids_dont_touch (mr iv : Nat) {s s' : State} (hr : Reachable (cfg mr iv) s)
    {nid i : Nat} {n : Notif} (hn : s.notifs nid = some n) (hne : n.target ≠ i)
    {a : Action} (ha : a = .nrun nid ∨ ∃ o, a = .nwrite nid o)
    (hs : step (cfg mr iv) s a = some s') : s'.calls i = s.calls i := by
  have hp := reachable_prov (cfg_guard mr iv) hr
  have hfn : ∀ cid, n.fn = .real cid → cid ≠ i := fun cid h => by
    have := hp.fn_target nid n cid hn h; omega
  rcases ha with rfl | ⟨o, rfl⟩
  · cases hfn' : n.fn with
    | nop =>
      simp only [step, stepNrun, hn, hfn'] at hs
      split at hs <;> (try (simp at hs)) <;> (try subst hs) <;> (first | rfl | simp_all [setNotif])
    | real cid =>
      have hne' : i ≠ cid := Ne.symm (hfn cid hfn')
      simp only [step, stepNrun, hn, hfn', casStep] at hs
      split at hs
      all_goals (try (split at hs))
      all_goals (try (split at hs))
      all_goals (try (split at hs))
      all_goals (try (simp at hs))
      all_goals (try subst hs)
      all_goals (first | rfl | (simp [setNotif, setCall] <;> grind))
  · simp only [step, stepNwrite, hn] at hs
    split at hs
    · next cid _ hf =>
      split at hs
      · simp at hs
      · cases hs; simp [setNotif, setCall, hfn cid hf |>.symm]
    · simp at hs

/-! ### The defect D13 (pinned tree): without the deferred guard the property is false -/

/-- The engine before the repair. -/
def cfgNoGuard : Cfg := { Cfg.standard 2 3 with guard := false, recheckAck := false, recheckCtx := false }

/-- register; result routed (lookup); cancel; `Do` returns `ctx.Err()` after the drop request;
only then the fetched handler runs and decodes into the output. -/
def d13Trace : List Action :=
  [.start 1 1 7, .sret 1 .ok, .nstart 0 1 false 100, .cancel 1, .loopSel 1 .ctx, .waitSel 1 .ctx, .dret 1 .ok,
   .nrun 0, .nrun 0, .nrun 0, .nwrite 0 .ok]

def retAndWrites (s : Option State) : Option (Option Ret × List Nat) :=
  s.bind (fun s => (s.calls 1).map (fun c => (c.ret, c.writes)))

/-- Without the guard: after the first seven actions `Do` has returned `ctx.Err()` with an untouched
output, and the remaining three actions write payload 100 into it. -/
theorem d13_counterexample :
    retAndWrites (run cfgNoGuard init (d13Trace.take 7)) = some (some .ctxErr, []) ∧
    retAndWrites (run cfgNoGuard init d13Trace) = some (some .ctxErr, [100]) := by
  decide

/-- With the guard the same schedule is not possible: after `Do` returned, the notifier's CAS fails
("handler already called", it returns), so neither its second step nor `nwrite` is enabled. -/
theorem d13_schedule_repaired :
    retAndWrites (run (cfg 2 3) init (d13Trace.take 9)) = some (some .ctxErr, []) ∧
    (run (cfg 2 3) init (d13Trace.take 10)).isNone = true := by
  decide

/-- Non-vacuity: a reachable state in which a call has returned its own result. -/
example : ∃ s, Reachable (cfg 2 3) s ∧ ∃ c, s.calls 1 = some c ∧ c.ret = some .ok ∧ c.writes = [100] := by
  refine ⟨_, ⟨[.start 1 1 7, .sret 1 .ok, .nstart 0 1 false 100, .nrun 0, .nrun 0, .nrun 0, .nwrite 0 .ok,
    .loopSel 1 .ctx, .waitSel 1 .done, .gpass 1], rfl⟩, ?_⟩
  exact ⟨_, rfl, by decide, by decide⟩

end TdModel.C24
