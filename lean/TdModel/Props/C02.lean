/-
C02 — no update is lost once recovery completes.
Property theorems only (lemmas: TdModel/Lemmas/C02Core.lean, C01.lean).

Per sequence (common pts, qts, one channel's pts): a C01 sequence box plus the dispatch/persist
code around it, with the call orders and the routing of difference-borne updates regenerated from
the Go source (`Facts.C02`, interpreted by `C02.orders`).  The executable manager model
(TdModel/Model/C02Mgr.lean) applies exactly these per-sequence steps and logs them; the driver
replays each scenario's per-sequence op list through the LTS proved here.
-/
import TdModel.Lemmas.C02MgrG
import TdModel.Model.C02

namespace TdModel.C02
open TdModel.C01 TdModel.C02Core

/-- The apply callbacks dispatch the batch the box hands them, then persist. -/
theorem apply_callbacks_dispatch_then_store (k : Nat) : applyCallsOf orders k = [.dispatch, .store] := by
  by_cases h0 : k = 0
  · subst h0; decide
  · by_cases h1 : k = 1
    · subst h1; decide
    · unfold applyCallsOf
      rw [if_neg h0, if_neg h1]
      decide

/-- The statement that skips an `affectedPts` marker in the conversion loops of
`internalState.applyPts` and `channelState.applyPts` is `continue` (regenerated from the AST). -/
theorem marker_skip_is_continue :
    Facts.C02.applyPtsSkip = 0 ∧ Facts.C02.chApplyPtsSkip = 0 ∧
    orders.applyPtsBreak = false ∧ orders.chApplyPtsBreak = false := by decide

theorem apply_callbacks_good (mk : Nat → Bool) (k : Nat) : GoodCfg (applyCfgOf orders mk k) := by
  refine ⟨apply_callbacks_dispatch_then_store k, ?_⟩
  show (if k = 0 then orders.applyPtsBreak else if k = 1 then false else orders.chApplyPtsBreak) = false
  rw [marker_skip_is_continue.2.2.1, marker_skip_is_continue.2.2.2]
  split
  · rfl
  · split <;> rfl

/-- **Every non-marker update of an applied batch is handed to the handler**, and nothing else. -/
theorem applied_batch_dispatches_every_non_marker (mk : Nat → Bool) (k : Nat) (us : List Upd) (i : Nat) :
    i ∈ batchIds (applyCfgOf orders mk k) us ↔ (∃ u ∈ us, u.tag = i) ∧ mk i = false :=
  mem_batchIds _ (apply_callbacks_good mk k).cont us i

/-- A fetched difference dispatches what it carries and then sets the position, for the pts and
qts sequences (difference and slice) and for a channel; empty differences persist no pts/qts. -/
theorem difference_branches :
    seqCalls .storeState .boxSetPts orders.diffSetState orders.diffDifference = diffShape ∧
    seqCalls .storeState .boxSetQts orders.diffSetState orders.diffDifference = diffShape ∧
    seqCalls .storeState .boxSetPts orders.diffSetState orders.diffSlice = diffShape ∧
    seqCalls .storeState .boxSetQts orders.diffSetState orders.diffSlice = diffShape ∧
    seqCalls .storeChannelPts .boxSetPts [] orders.chDiffDifference = diffShape ∧
    seqCalls .storeChannelPts .boxSetPts [] orders.chDiffEmpty = emptyShape := by decide

/-- **A difference dispatches everything it carries** — also updates that cover no position
(`count = 0`, e.g. updateReadChannelInbox), which the coverage theorems exempt because a lost push
of them can never be recovered: whatever the box, a `diffShape` step with a non-empty `direct`
dispatches exactly `direct`, before the store. -/
theorem difference_dispatches_what_it_carries (c : ACfg) (b : Box) (x : Int) (direct : List Entry) (h : direct ≠ []) :
    (sstep c b (.seq diffShape x direct)).2 = [.dispatch (direct.map (·.id)), .store x] := by
  have : (direct.map (·.id)).isEmpty = false := by cases direct <;> simp_all
  simp [sstep, diffShape, callEvs, this]

/-- A slice continues fetching; a non-final channel difference continues too (the model's
`recurse`). -/
theorem slices_continue : orders.diffSlice.contains .recurse = true ∧ orders.chDiffDifference.contains .recurse = true := by
  decide

/-- Difference-borne updates of the fetched sequence itself are dispatched directly with the new
messages instead of being gap-checked against the pre-difference position (D11 repaired). -/
theorem own_updates_dispatched_directly : orders.ownDirect = true ∧ orders.chOwnDirect = true := by decide

theorem splitDiffUpdates_src : Facts.C02.splitDiffUpdatesSrc =
    "{ for _, u := range us { if isOwn(u) { own = append(own, u) } else { rest = append(rest, u) } } return own, rest }" := rfl
theorem isCommonSeqUpdate_src : Facts.C02.isCommonSeqUpdateSrc =
    "{ _, _, isPts := tg.IsPtsUpdate(u) _, isQts := tg.IsQtsUpdate(u) return isPts || isQts }" := rfl

/-- `internalState.handleChannel`, pinned by source text (the value written by the initial
`SetChannelPts` is the separate fact `creationStore`): an untracked channel whose access hash is
unknown costs one `restoreAccessHash`; otherwise the stored channel pts is used if there is one,
else `localPts = pts - ptsCount` is written and the worker starts from `localPts`. -/
theorem handleChannel_src : Facts.C02.handleChannelSrc =
    "{ if err := validatePts(pts, ptsCount); err != nil { s.log.Error(ctx, \"Pts validation failed\", log.Error(err), log.Any(\"update\", cu.update)) return nil } state, ok := s.channels[channelID] if !ok { accessHash, found, err := s.hasher.GetChannelAccessHash(context.Background(), s.selfID, channelID) if err != nil { s.log.Error(ctx, \"GetChannelAccessHash error\", log.Error(err)) } if !found { if date == 0 { date = s.date - 30 } else { date-- } accessHash, found = s.restoreAccessHash(ctx, channelID, date) if !found { s.log.Debug(ctx, \"Failed to recover missing access hash, update ignored\", log.Int64(\"channel_id\", channelID), log.Any(\"update\", cu.update), ) return nil } } localPts, found, err := s.storage.GetChannelPts(ctx, s.selfID, channelID) if err != nil { localPts = pts - ptsCount s.log.Error(ctx, \"GetChannelPts error\", log.Error(err)) } if !found { localPts = pts - ptsCount if err := s.storage.SetChannelPts(ctx, s.selfID, channelID, _); err != nil { s.log.Error(ctx, \"SetChannelPts error\", log.Error(err)) } } state = s.newChannelState(channelID, accessHash, localPts) s.channels[channelID] = state s.wg.Go(func() error { return state.Run(ctx) }) } return state.Push(ctx, cu) }" := rfl

/-- **Recovery completes.** For any sequence `k`, any marker predicate, any tiled log (markers
included), any start position `lo`, and any well-formed op list (arbitrary pushes of log entries —
loss, duplication, reordering, affected results early/late/never — gap clears, honest differences
in one piece or sliced) that ends at or above every log position (a completed recovery): every
non-marker log entry above `lo` has been dispatched, unless too-long was reported. -/
theorem C02_recovery_complete (k : Nat) (mk : Nat → Bool) (log : List Entry) (c0 lo : Int)
    (ht : tiled c0 log = true) (ops : List SOp)
    (hw : wfRun (applyCfgOf orders mk k) log { state := lo } ops = true)
    (hrec : ∀ e ∈ log, e.pos ≤ (srun (applyCfgOf orders mk k) { state := lo } ops).1.state) :
    complete log mk lo (srun (applyCfgOf orders mk k) { state := lo } ops).2 = true := by
  have hinv := (srun_inv log (applyCfgOf orders mk k) (apply_callbacks_good mk k) c0 lo ht ops _ _ _
    (inv_init log mk lo) hw).2
  unfold complete
  rw [complete_iff]
  rcases hinv.cov with h | h
  · left; rw [accTl_eq] at h; simpa using h
  · right
    intro e he hlo
    rcases h e he hlo (hrec e he) with h' | h'
    · exact Or.inl h'
    · rcases (mem_accD _ [] e.id).1 h' with h'' | h''
      · exact Or.inr h''
      · simp at h''

/-- A final difference up to position `x` is such a recovery when `x` is at or above every log
position. -/
theorem C02_final_difference_recovers (k : Nat) (mk : Nat → Bool) (log : List Entry) (c0 lo : Int)
    (ht : tiled c0 log = true) (ops : List SOp) (x : Int) (direct : List Entry)
    (hw : wfRun (applyCfgOf orders mk k) log { state := lo } (ops ++ [.seq diffShape x direct]) = true)
    (hx : ∀ e ∈ log, e.pos ≤ x) :
    complete log mk lo
      (srun (applyCfgOf orders mk k) { state := lo } (ops ++ [.seq diffShape x direct])).2 = true := by
  apply C02_recovery_complete k mk log c0 lo ht _ hw
  intro e he
  rw [srun_append]
  simp only [srun, sstep, diffShape]
  simpa using hx e he

/-- Without the repair (own-sequence other-updates re-routed through the gap check): local pts 10,
one difference carrying message 1 @11 and delete 2 @12 — the delete is never dispatched although
the position reaches 12. -/
theorem C02_rerouted_other_update_counterexample :
    let log : List Entry := [⟨1, .msg, 0, 11, 1, 0⟩, ⟨2, .other, 0, 12, 1, 0⟩]
    complete log (fun _ => false) 10
      (srun ⟨[.dispatch, .store], false, fun _ => false⟩ { state := 10 }
        [.clear, .push ⟨2, .other, 0, 12, 1, 0⟩, .seq diffShape 12 [⟨1, .msg, 0, 11, 1, 0⟩]]).2 = false := by decide

/-- With `break` instead of `continue` in the marker skip: channel at 5, affected result 1 covering
position 6 is overtaken by messages 2 @7 and 3 @8; when it arrives the batch [marker, 2, 3] is
applied, the position reaches 8, and neither message was ever dispatched. -/
theorem C02_marker_break_counterexample :
    let log : List Entry := [⟨1, .chaff, 5, 6, 1, 0⟩, ⟨2, .chmsg, 5, 7, 1, 0⟩, ⟨3, .chmsg, 5, 8, 1, 0⟩]
    let r := srun ⟨[.dispatch, .store], true, fun i => i == 1⟩ { state := 5 }
        [.push ⟨2, .chmsg, 5, 7, 1, 0⟩, .push ⟨3, .chmsg, 5, 8, 1, 0⟩, .push ⟨1, .chaff, 5, 6, 1, 0⟩]
    r.1.state = 8 ∧ complete log (fun i => i == 1) 5 r.2 = false := by decide

/-! ### Non-vacuity -/

def exLog : List Entry := [⟨1, .msg, 0, 11, 1, 0⟩, ⟨2, .other, 0, 13, 2, 0⟩, ⟨3, .msg, 0, 14, 1, 0⟩, ⟨4, .msg, 0, 15, 1, 0⟩]
/-- (11,13] arrives first and is parked, 11 fills the gap, a duplicate of 11 is dropped, then a
sliced recovery delivers 14 and 15. -/
def exOps : List SOp :=
  [.push ⟨2, .other, 0, 13, 2, 0⟩, .push ⟨1, .msg, 0, 11, 1, 0⟩, .push ⟨1, .msg, 0, 11, 1, 0⟩, .clear,
   .seq diffShape 14 [⟨3, .msg, 0, 14, 1, 0⟩], .clear, .seq diffShape 15 [⟨4, .msg, 0, 15, 1, 0⟩]]

example : tiled 10 exLog = true := by decide
def exCfg : ACfg := ⟨[.dispatch, .store], false, fun _ => false⟩
example : wfRun exCfg exLog { state := 10 } exOps = true := by decide
example : dispatchedIds (srun exCfg { state := 10 } exOps).2 = [1, 2, 3, 4] := by decide

/-- The affected-marker history with the regenerated callback of a channel: both overtaking messages
are dispatched when the marker closes the hole. -/
example : (srun (applyCfgOf orders (fun i => i == 1) 7) { state := 5 }
    [.push ⟨2, .chmsg, 5, 7, 1, 0⟩, .push ⟨3, .chmsg, 5, 8, 1, 0⟩, .push ⟨1, .chaff, 5, 6, 1, 0⟩]).2 =
    [.dispatch [2, 3], .store 8] := by decide

/-! ### The whole manager model on the two D11 histories -/

/-- The regenerated orders with the pre-repair routing (everything re-routed). -/
def preRepair : Orders := { orders with ownDirect := false, chOwnDirect := false }

/-- Stored pts 10; `msg 1 @11`, `delete 2 @12` happen offline; `updatesTooLong`. -/
def commonHistory (O : Orders) : List Event :=
  ((Mgr.start O { log := [⟨1, .msg, 0, 11, 1, 0⟩, ⟨2, .other, 0, 12, 1, 0⟩], p0 := 10, q0 := 0, c0 := [] } 10 0 []).runActions O
    [.emit 2, .tooLong]).trace

/-- Channel 5 at pts 5; `channel msg 1 @6`, `channel delete 2 @7` happen offline; `updateChannelTooLong`. -/
def channelHistory (O : Orders) : List Event :=
  ((Mgr.start O { log := [⟨1, .chmsg, 5, 6, 1, 0⟩, ⟨2, .chother, 5, 7, 1, 0⟩], p0 := 10, q0 := 0, c0 := [(5, 5)] } 10 0 [(5, 5)]).runActions O
    [.emit 2, .chTooLong 5]).trace

/-- Manager model, pre-repair routing, common history: only the message reaches the handler while
the state is persisted as 12. -/
theorem C02_counterexample_common :
    commonHistory preRepair = [.apiDiff 10 0, .apiDiff 10 0, .dispatch [1], .storeState 12 0] := by decide

/-- Manager model, pre-repair routing, channel history: the delete goes to the main loop and back
and is dropped as outdated. -/
theorem C02_counterexample_channel :
    channelHistory preRepair =
      [.apiDiff 10 0, .apiChDiff 5 5, .storeChan 5 5, .apiChDiff 5 5, .dispatch [1], .storeChan 5 7] := by decide

/-- With the regenerated (repaired) routing both histories deliver everything before persisting. -/
example : commonHistory orders = [.apiDiff 10 0, .apiDiff 10 0, .dispatch [1, 2], .storeState 12 0] := by decide
example : channelHistory orders =
    [.apiDiff 10 0, .apiChDiff 5 5, .storeChan 5 5, .apiChDiff 5 5, .dispatch [1, 2], .storeChan 5 7] := by decide

/-! ### The whole manager model -/

/-- The regenerated orders are the ones the manager-level invariant is proved for. -/
theorem orders_good : GoodOrders orders :=
  ⟨by decide, by decide, by decide, by decide, by decide, by decide, by decide, by decide, by decide, by decide,
   by decide, by decide, by decide, by decide, by decide, by decide, by decide, by decide, by decide, by decide⟩

/-- The regenerated guards: the apply callbacks dispatch only a non-empty converted batch
(`applyQts` always: its batch has no markers), the difference branches dispatch when any of new
messages, new encrypted messages or own other-updates is present (channel: new messages or own),
re-routing / handing over happens only for a non-empty rest. -/
theorem dispatch_guards :
    Facts.C02.applyPtsGuard = [3] ∧ Facts.C02.applyQtsGuard = [100] ∧ Facts.C02.chApplyPtsGuard = [3] ∧
    Facts.C02.diffGuard = [0, 1, 2] ∧ Facts.C02.sliceGuard = [0, 1, 2] ∧ Facts.C02.chDiffGuard = [0, 2] ∧
    Facts.C02.diffRerouteGuard = [4] ∧ Facts.C02.sliceRerouteGuard = [4] ∧ Facts.C02.chSendOutGuard = [4] := by
  decide

/-- The initial channel state written on first contact is `localPts`. -/
theorem creation_stores_local : orders.creationStoresLocal = true := by decide

/-- **No update is lost, for the whole manager model.** Take any server world (log with distinct
ids tiling every tracked sequence — `scnOK`), any persisted start `fp fq fc`, any channels `cr`
that are met for the first time during the run (each with its first-contact position, where its
sequence starts), any list of harness actions (pushes in any order with loss and duplicates,
affected results, forced recoveries, sliced answers, timers, transient failures, access hashes
learned late), started from the persisted state or (`ns`) from no state at all — then from the
server's state at that moment, which is written first.  For every tracked sequence `k`: if at the end the sequence's position is at or
above every log position of `k` (recovery completed), then every non-marker entry of `k` above the
start was dispatched by the manager, unless too-long was reported. -/
theorem C02_manager_recovery_complete (w : World) (fp fq : Int) (fc cr : List (Nat × Int)) (acts : List Action) (ns : Bool)
    (hpe : w.persisted = fc) (hcr : w.cr = cr)
    (hS : scnOK w.log (seqKeys (fc ++ cr)) (initOf w.p0 w.q0 w.c0) = true) (k : Nat) (hk : k ∈ seqKeys (fc ++ cr))
    (b : Box) (hb : ((Mgr.start orders w fp fq fc ns).runActions orders acts).getBox k = some b)
    (hrec : ∀ e ∈ seqLog w.log k, e.pos ≤ b.state) :
    complete (seqLog w.log k) (mkOf w.log) (initOf fp fq (fc ++ cr) k)
      (projSeq w.log k ((Mgr.start orders w fp fq fc ns).runActions orders acts).trace) = true := by
  have hscn := scn_of_ok _ _ _ hS
  obtain ⟨hw, htr, hbox⟩ := mgr_projects orders orders_good w fp fq fc cr hpe hcr hscn acts k hk ns
  rw [htr]
  apply C02_recovery_complete k (mkOf w.log) (seqLog w.log k) _ (initOf fp fq (fc ++ cr) k)
    (hscn.tiledK k hk) _ hw
  intro e he
  rw [hb] at hbox
  rcases hbox with hbox | hbox
  · rw [← Option.some.inj hbox]
    exact hrec e he
  · cases hbox

end TdModel.C02
