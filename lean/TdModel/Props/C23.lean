/-
C23 — property theorems for the model of `mtproto.Conn.handleMessage`.
-/
import TdModel.Lemmas.C23

namespace TdModel.C23
open TdModel TdModel.Bin

/-- Results and errors are only routed to the request whose message id the payload names:
whatever the payload bytes, nesting (containers, gzip) and connection state, a notification
delivered to request `id` comes from an rpc_result / bad_msg_notification / bad_server_salt
(possibly inside containers / gzip packets) whose request-id field is `id`. -/
theorem routes_only_named_ids (fuel : Nat) (st : St) (b : Bytes) (ev : Ev) (id : Nat)
    (hev : ev ∈ (handle fuel st b).evs) (hid : ev.routedTo = some id) : Named st.gz b id :=
  ((good_handle fuel).1 st b).2.2 ev hev id hid |>.2

/-- … and only to a request that is pending (`rpc.Engine.NotifyResult/NotifyError` ignore ids
without a registered callback). -/
theorem routes_only_pending (fuel : Nat) (st : St) (b : Bytes) (ev : Ev) (id : Nat)
    (hev : ev ∈ (handle fuel st b).evs) (hid : ev.routedTo = some id) : id ∈ st.pending :=
  ((good_handle fuel).1 st b).2.2 ev hev id hid |>.1

/-- A payload that names no pending request causes no notification to any request. -/
theorem engine_ignores_unknown (fuel : Nat) (st : St) (b : Bytes)
    (h : ∀ id ∈ st.pending, ¬ Named st.gz b id) :
    ∀ ev ∈ (handle fuel st b).evs, ev.routedTo = none := by
  intro ev hev
  cases hr : ev.routedTo with
  | none => rfl
  | some id =>
    exact absurd (routes_only_named_ids fuel st b ev id hev hr)
      (h id (routes_only_pending fuel st b ev id hev hr))

/-- "… as result or error": an rpc_error — plain or gzip-packed, at any nesting — is never
handed to a caller as a result body: the payload of every `result` notification does not start
with the rpc_error type id 0x2144ca19 (it is delivered through `NotifyError` instead). -/
theorem rpc_error_never_delivered_as_result (fuel : Nat) (st : St) (b : Bytes) (id : Nat) (d r : Bytes)
    (h : Ev.result id d ∈ (handle fuel st b).evs) : getU32 d ≠ .ok (0x2144ca19, r) := by
  have := (near_handle fuel).1 st b id d h r
  simpa [Facts.C23.rpcErrorTypeID] using this

/-- Duplicate acknowledgements: however often a msgs_ack names an id, its waiter is closed at most
as often as it is registered (once): `NotifyAcks` removes the waiter it closes (closing a closed
channel would panic). -/
theorem ack_waiter_closed_at_most_once (acks ids : List Nat) (id : Nat) (h : acks.count id ≤ 1) :
    (notifyAcks acks ids).2.count (Ev.ack id) ≤ 1 :=
  Nat.le_trans (notifyAcks_count id ids acks) h

/-- The same over a whole history of msgs_ack payloads (any number of them, any ids, any repetition
across payloads): the closes of one id over the entire history never exceed its registrations, and
each `NotifyAcks` conserves waiters — a registered waiter is afterwards either still registered or
was closed exactly once. -/
theorem ack_history_closes_at_most_registered (acks : List Nat) (batches : List (List Nat)) (id : Nat) :
    (ackSeq acks batches).count (Ev.ack id) ≤ acks.count id ∧
    ∀ ids, (notifyAcks acks ids).1.count id + (notifyAcks acks ids).2.count (Ev.ack id) = acks.count id :=
  ⟨ackSeq_count id batches acks, fun ids => notifyAcks_conserve id ids acks⟩

/-- Non-vacuity: id 7 acknowledged three times across two payloads is closed once; 9 never registered. -/
example : ackSeq [7, 8] [[7, 7, 9], [7, 8]] = [.ack 7, .ack 8] := by decide

/-- …and at the level of the bytes the handler receives: over any history of msgs_ack payloads —
arbitrary byte strings, malformed and truncated ones included — handled by `handleAck` (the function
the correspondence run compares with `Conn.handleAck`), the closes of one id never exceed its
registrations, and every single payload conserves waiters. -/
theorem ack_payload_history_closes_at_most_registered (st : St) (payloads : List Bytes) (id : Nat) :
    (ackRun st payloads).count (Ev.ack id) ≤ st.acks.count id ∧
    ∀ b, (handleAck st b).st.acks.count id + (handleAck st b).evs.count (Ev.ack id) = st.acks.count id :=
  ⟨ackRun_count id payloads st, fun b => handleAck_conserve id st b⟩

/-- Handling a payload never changes which requests are pending. -/
theorem pending_unchanged (fuel : Nat) (st : St) (b : Bytes) :
    (handle fuel st b).st.pending = st.pending :=
  ((good_handle fuel).1 st b).1

/-- Container messages are bounded by 1 MiB each (nothing larger is ever allocated for one). -/
theorem container_messages_bounded : ∀ (n : Nat) (b : Bytes) (msgs : List Bytes),
    decodeMsgs n b = some msgs → ∀ m ∈ msgs, m.length ≤ 1048576 := by
  intro n
  induction n with
  | zero => intro b msgs h m hm; simp [decodeMsgs] at h; subst h; cases hm
  | succ k ih =>
    intro b msgs h m hm
    simp only [decodeMsgs] at h
    repeat' split at h
    all_goals first | (simp at h; done) | skip
    rename_i _ _ _ hlenEq hlen _ _ _ hget _ _ hrest
    simp only [Option.some.injEq] at h
    subst h
    rcases List.mem_cons.mp hm with rfl | hm'
    · unfold getN at hget
      split at hget
      · cases hget
      · simp only [Except.ok.injEq, Prod.mk.injEq] at hget
        rw [← hget.1]
        have hlt : _ < 2 ^ 32 := getU32_lt (by assumption : getU32 _ = .ok (_, _))
        have hl := hlen
        unfold toInt32 at hl
        simp only [Facts.C23.maxContainerMessage] at hl
        simp only [List.length_take]
        split at hl <;> omega
    · exact ih _ _ hrest m hm'

/-- The handler has exactly the outcomes ok / error (no third, crashing, outcome in the model),
for every payload, state and fuel. -/
theorem handle_total (fuel : Nat) (st : St) (b : Bytes) :
    (handle fuel st b).ok = true ∨ (handle fuel st b).ok = false := by
  cases (handle fuel st b).ok <;> simp

/-! Regenerated facts the model computes with, pinned to the specification's values. -/

theorem dispatch_is_spec : Facts.C23.dispatch =
    [(0x9ec20908, "handleSessionCreated"), (0xa7eff811, "handleBadMsg"), (0xedab447b, "handleBadMsg"),
     (0xae500895, "handleFutureSalts"), (0x73f1f8dc, "handleContainer"), (0xf35c6d01, "handleResult"),
     (0x347773c5, "handlePong"), (0x62d6b459, "handleAck"), (0x3072cfa1, "handleGZIP"),
     (0x276d3ec6, "nil"), (0x809db6df, "nil")] := by decide

/-- The body of every handler has the effect signature the model implements (decodes,
notifications with the id expression they pass, state changes, recursive calls; AST walk in source
order).  A handler whose body changes drops out of `dispatch` ("unknown:…"), so `dispatch_is_spec`
breaks as well. -/
theorem effects_are_spec : Facts.C23.effects =
    [("gzip", "decode:proto.GZIP"),
     ("handleAck", "decode:mt.MsgsAck,NotifyAcks:ack.MsgIDs"),
     ("handleBadMsg", "decode:mt.BadMsgNotification,NotifyError:bad.BadMsgID,decode:mt.BadServerSalt,NotifyError:bad.BadMsgID"),
     ("handleContainer", "decode:proto.MessageContainer,processContainerMessage"),
     ("handleFutureSalts", "decode:mt.FutureSalts,salts.Store:res.Salts"),
     ("handleGZIP", "gzip,handleMessage"),
     ("handlePong", "decode:mt.Pong,close,delete:c.ping"),
     ("handleResult", "decode:proto.Result,gzip,decode:mt.RPCError,NotifyError:res.RequestMessageID,handlePong,NotifyResult:res.RequestMessageID"),
     ("handleSessionCreated", "decode:mt.NewSessionCreated,gotSession.Signal,storeSalt:s.ServerSalt,OnSession"),
     ("processContainerMessage", "handleMessage")] := by decide

theorem default_is_OnMessage : Facts.C23.defaultIsOnMessage = true := by decide
theorem container_decoded_before_handling : Facts.C23.containerDecodedFirst = true := by decide
theorem max_container_message_is_1MiB : Facts.C23.maxContainerMessage = 1048576 := by decide
/-- every Notify* call in handleResult / handleBadMsg passes the id decoded from the message. -/
theorem notify_calls_pass_decoded_id :
    Facts.C23.resultNotifyCalls = Facts.C23.resultNotifyCallsAll ∧
    Facts.C23.badMsgNotifyCalls = Facts.C23.badMsgNotifyCallsAll ∧ Facts.C23.resultNotifyCallsAll = 2 := by decide
theorem type_ids_are_spec :
    Facts.C23.rpcErrorTypeID = 0x2144ca19 ∧ Facts.C23.pongTypeID = 0x347773c5 ∧
    Facts.C23.gzipTypeID = 0x3072cfa1 ∧ Facts.C23.resultTypeID = 0xf35c6d01 ∧
    Facts.C23.containerTypeID = 0x73f1f8dc := by decide

/-! Non-vacuity: an rpc_result for request 5 inside a container, request 5 pending: the result
is delivered to 5 and the payload names 5. -/

def exResult : Bytes := putU32 0xf35c6d01 ++ putU64 5 ++ putU32 0x12345678
def exPayload : Bytes :=
  putU32 0x73f1f8dc ++ putU32 1 ++ putU64 77 ++ putU32 1 ++ putU32 exResult.length ++ exResult
def exSt : St := { pending := [5, 9], acks := [], pings := [], salt := 0, salts := [], failRes := [], failMsg := [], gz := [] }

example : (handle 3 exSt exPayload).evs = [.result 5 (putU32 0x12345678)] := by decide
example : (handle 3 exSt exPayload).ok = true := by decide

end TdModel.C23
