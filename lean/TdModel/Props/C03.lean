/-
C03 — persisted update state never runs ahead of delivered updates.
Property theorems only (lemmas: TdModel/Lemmas/C02Core.lean, C01.lean).

One sequence (common pts, qts, or one channel's pts) is a C01 sequence box plus the code around
it that dispatches, persists and reports too-long (`C02Core.sstep`).  The *order* of those calls
is regenerated from the Go AST (`Facts.C03`, interpreted by `C03.orders`); the theorems below first
pin that order and then prove the property for every op list.
-/
import TdModel.Lemmas.C02MgrG
import TdModel.Model.C03

namespace TdModel.C03
open TdModel.C01 TdModel.C02Core

/-! ### Statement order, regenerated from the six functions -/

/-- `internalState.applyPts`: dispatch, then `SetPts`. -/
theorem applyPts_dispatch_before_store : applyCallsOf orders 0 = [.dispatch, .store] := by decide

/-- `internalState.applyQts`: dispatch, then `SetQts`. -/
theorem applyQts_dispatch_before_store : applyCallsOf orders 1 = [.dispatch, .store] := by decide

/-- `channelState.applyPts`: dispatch, then `SetChannelPts`. -/
theorem channel_applyPts_dispatch_before_store (c : Nat) : applyCallsOf orders (2 + c) = [.dispatch, .store] := by
  have h0 : ¬ (2 + c = 0) := by omega
  have h1 : ¬ (2 + c = 1) := by omega
  unfold applyCallsOf
  rw [if_neg h0, if_neg h1]
  decide

/-- … so for every sequence key. -/
theorem apply_callbacks_dispatch_then_store (k : Nat) : applyCallsOf orders k = [.dispatch, .store] := by
  by_cases h0 : k = 0
  · subst h0; decide
  · by_cases h1 : k = 1
    · subst h1; decide
    · unfold applyCallsOf
      rw [if_neg h0, if_neg h1]
      decide

/-- In the conversion loops of `internalState.applyPts` and `channelState.applyPts` the statement
that skips an `affectedPts` marker is `continue` (regenerated from the AST): only the marker is
left out of the batch handed to the handler. -/
theorem marker_skip_is_continue :
    Facts.C03.applyPtsSkip = 0 ∧ Facts.C03.chApplyPtsSkip = 0 ∧
    orders.applyPtsBreak = false ∧ orders.chApplyPtsBreak = false := by decide

/-- Every apply callback dispatches then stores, and skips only markers. -/
theorem apply_callbacks_good (mk : Nat → Bool) (k : Nat) : GoodCfg (applyCfgOf orders mk k) := by
  refine ⟨apply_callbacks_dispatch_then_store k, ?_⟩
  show (if k = 0 then orders.applyPtsBreak else if k = 1 then false else orders.chApplyPtsBreak) = false
  rw [marker_skip_is_continue.2.2.1, marker_skip_is_continue.2.2.2]
  split
  · rfl
  · split <;> rfl

/-- **Every non-marker update of an applied batch is handed to the handler** (and nothing else):
for the batch `us` a box reports, the ids dispatched by the callback of any sequence are exactly
the tags of `us` that are not markers. -/
theorem applied_batch_dispatches_every_non_marker (mk : Nat → Bool) (k : Nat) (us : List Upd) (i : Nat) :
    i ∈ batchIds (applyCfgOf orders mk k) us ↔ (∃ u ∈ us, u.tag = i) ∧ mk i = false :=
  mem_batchIds _ (apply_callbacks_good mk k).cont us i

/-- `internalState.getDifference`, branches `updates.difference` and `updates.differenceSlice`,
as seen by the pts and by the qts sequence: dispatch, then `SetState`, then the box. -/
theorem difference_dispatch_before_store :
    seqCalls .storeState .boxSetPts orders.diffSetState orders.diffDifference = diffShape ∧
    seqCalls .storeState .boxSetQts orders.diffSetState orders.diffDifference = diffShape ∧
    seqCalls .storeState .boxSetPts orders.diffSetState orders.diffSlice = diffShape ∧
    seqCalls .storeState .boxSetQts orders.diffSetState orders.diffSlice = diffShape := by decide

/-- `updates.differenceEmpty` persists neither pts nor qts. -/
theorem differenceEmpty_stores_nothing :
    seqCalls .storeState .boxSetPts orders.diffSetState orders.diffEmpty = [] ∧
    seqCalls .storeState .boxSetQts orders.diffSetState orders.diffEmpty = [] := by decide

/-- `updates.differenceTooLong`: the callback comes before `SetPts` (D12 repaired). -/
theorem tooLong_callback_before_store :
    seqCalls .storePts .boxSetPts [] orders.diffTooLong = tooLongShape := by decide

/-- `channelState.getDifference`: difference — dispatch, `SetChannelPts`, box; empty — `SetChannelPts`,
box; tooLong — callback, `SetChannelPts`, box (D12 repaired). -/
theorem channel_difference_orders :
    seqCalls .storeChannelPts .boxSetPts [] orders.chDiffDifference = diffShape ∧
    seqCalls .storeChannelPts .boxSetPts [] orders.chDiffEmpty = emptyShape ∧
    seqCalls .storeChannelPts .boxSetPts [] orders.chDiffTooLong = tooLongShape := by decide

/-- Difference-borne updates of the fetched sequence itself are dispatched directly with the new
messages, not re-routed through the gap check (D11 repaired), in both `getDifference`s. -/
theorem own_updates_dispatched_directly : orders.ownDirect = true ∧ orders.chOwnDirect = true := by decide

/-- The helpers of that routing, pinned by source text. -/
theorem splitDiffUpdates_src : Facts.C03.splitDiffUpdatesSrc =
    "{ for _, u := range us { if isOwn(u) { own = append(own, u) } else { rest = append(rest, u) } } return own, rest }" := rfl
theorem isCommonSeqUpdate_src : Facts.C03.isCommonSeqUpdateSrc =
    "{ _, _, isPts := tg.IsPtsUpdate(u) _, isQts := tg.IsQtsUpdate(u) return isPts || isQts }" := rfl

/-! ### The property, for every op list on a sequence -/

/-- **Prefix safety.** Take any sequence `k`, any marker predicate `mk`, any log of that
sequence that tiles the positions above `c0 ≥ 0` (markers included: they occupy positions), any
persisted start position `lo`, and any list of ops whose pushes are log entries (or count-0 markers)
and whose difference steps are honest (`wfRun`).  Then at every store event every non-marker entry
at or below the stored value (and above `lo`) has already been dispatched, unless too-long was
reported before. -/
theorem C03_prefix_safe (k : Nat) (mk : Nat → Bool) (log : List Entry) (c0 lo : Int)
    (ht : tiled c0 log = true) (ops : List SOp)
    (hw : wfRun (applyCfgOf orders mk k) log { state := lo } ops = true) :
    safe log mk lo [] false (srun (applyCfgOf orders mk k) { state := lo } ops).2 = true :=
  (srun_inv log (applyCfgOf orders mk k) (apply_callbacks_good mk k) c0 lo ht ops _ _ _
    (inv_init log mk lo) hw).1

/-- … hence at every crash point (any prefix `pre` of the events) the persisted value
`lastStore lo pre` is covered by what was dispatched in `pre`, or too-long was reported in `pre`. -/
theorem C03_crash_point_covered (k : Nat) (mk : Nat → Bool) (log : List Entry) (c0 lo : Int)
    (ht : tiled c0 log = true) (ops : List SOp)
    (hw : wfRun (applyCfgOf orders mk k) log { state := lo } ops = true)
    (pre post : List SEv) (hp : (srun (applyCfgOf orders mk k) { state := lo } ops).2 = pre ++ post) :
    hasTooLong pre = true ∨ covered log mk lo (lastStore lo pre) (dispatchedIds pre) = true := by
  have hs := C03_prefix_safe k mk log c0 lo ht ops hw
  rw [hp] at hs
  have h0 : (false = true) ∨ covered log mk lo lo [] = true :=
    Or.inr ((covered_iff log mk lo lo []).2 (fun e _ h1 h2 => by omega))
  rcases safe_lastStore log mk lo pre [] false lo (safe_prefix _ _ _ _ _ _ _ hs) h0 with h | h
  · left; rw [accTl_eq] at h; simpa using h
  · right
    exact covered_mono log mk lo _ _ _ (fun i hi => by
      rcases (mem_accD pre [] i).1 hi with h' | h'
      · exact h'
      · simp at h') h

/-- **Restart.** Crash at any event boundary of a well-formed first run; restart from what was
persisted then (`v`); let the second run be well-formed and end at or above every log position
(recovery).  Then every non-marker log entry above the original start was dispatched before the
crash or after the restart, or too-long was reported in one of the two runs. -/
theorem C03_restart_complete (k : Nat) (mk : Nat → Bool) (log : List Entry) (c0 lo : Int)
    (ht : tiled c0 log = true) (ops1 ops2 : List SOp)
    (hw1 : wfRun (applyCfgOf orders mk k) log { state := lo } ops1 = true)
    (pre post : List SEv) (hp : (srun (applyCfgOf orders mk k) { state := lo } ops1).2 = pre ++ post)
    (hw2 : wfRun (applyCfgOf orders mk k) log { state := lastStore lo pre } ops2 = true)
    (hrec : ∀ e ∈ log, e.pos ≤ (srun (applyCfgOf orders mk k) { state := lastStore lo pre } ops2).1.state) :
    let evs2 := (srun (applyCfgOf orders mk k) { state := lastStore lo pre } ops2).2
    hasTooLong pre = true ∨ hasTooLong evs2 = true ∨
      ∀ e ∈ log, lo < e.pos → exempt mk e = true ∨ e.id ∈ dispatchedIds pre ∨ e.id ∈ dispatchedIds evs2 := by
  intro evs2
  rcases C03_crash_point_covered k mk log c0 lo ht ops1 hw1 pre post hp with h1 | h1
  · exact Or.inl h1
  · have hinv := (srun_inv log (applyCfgOf orders mk k) (apply_callbacks_good mk k) c0 (lastStore lo pre) ht
      ops2 _ _ _ (inv_init log mk _) hw2).2
    rcases hinv.cov with h2 | h2
    · right; left
      rw [accTl_eq] at h2; simpa using h2
    · right; right
      intro e he hlo
      by_cases hv : e.pos ≤ lastStore lo pre
      · rcases (covered_iff log mk lo _ _).1 h1 e he hlo hv with h' | h'
        · exact Or.inl h'
        · exact Or.inr (Or.inl h')
      · rcases h2 e he (by omega) (hrec e he) with h' | h'
        · exact Or.inl h'
        · rcases (mem_accD _ [] e.id).1 h' with h'' | h''
          · exact Or.inr (Or.inr h'')
          · simp at h''

/-! ### The defects this property had (kept as theorems about the pre-repair orders) -/

/-- D12: with `SetPts` before the callback (the pre-repair order), the store of 11 happens while
message 1 at position 11 is undelivered and nothing has been reported. -/
theorem D12_store_before_callback_counterexample :
    safe [⟨1, .msg, 0, 11, 1, 0⟩] (fun _ => false) 10 [] false (callEvs 11 [] [.store, .setBox, .cb]) = false := by decide

/-- D11: with own-sequence other-updates re-routed through the gap check (pre-repair), local pts
10, a difference carrying message 1 @11 and delete 2 @12: the delete is parked, the state is set to
12, and the store of 12 covers the undelivered delete. -/
theorem D11_rerouted_other_update_counterexample :
    let log : List Entry := [⟨1, .msg, 0, 11, 1, 0⟩, ⟨2, .other, 0, 12, 1, 0⟩]
    safe log (fun _ => false) 10 [] false
      (srun ⟨[.dispatch, .store], false, fun _ => false⟩ { state := 10 }
        [.clear, .push ⟨2, .other, 0, 12, 1, 0⟩, .seq diffShape 12 [⟨1, .msg, 0, 11, 1, 0⟩]]).2 = false := by decide

/-- With `break` instead of `continue` in the marker skip: channel at 5, affected result 1 covering
position 6 is overtaken by messages 2 @7 and 3 @8; when it arrives the batch is [marker, 2, 3],
nothing is dispatched, and 8 is persisted. -/
theorem marker_break_counterexample :
    let log : List Entry := [⟨1, .chaff, 5, 6, 1, 0⟩, ⟨2, .chmsg, 5, 7, 1, 0⟩, ⟨3, .chmsg, 5, 8, 1, 0⟩]
    (srun ⟨[.dispatch, .store], true, fun i => i == 1⟩ { state := 5 }
        [.push ⟨2, .chmsg, 5, 7, 1, 0⟩, .push ⟨3, .chmsg, 5, 8, 1, 0⟩, .push ⟨1, .chaff, 5, 6, 1, 0⟩]).2 = [.store 8] ∧
    safe log (fun i => i == 1) 5 [] false [.store 8] = false := by decide

/-! ### Non-vacuity -/

/-- A well-formed run with a gap filled late, a duplicate and a final difference. -/
def exLog : List Entry := [⟨1, .msg, 0, 11, 1, 0⟩, ⟨2, .other, 0, 13, 2, 0⟩, ⟨3, .msg, 0, 14, 1, 0⟩, ⟨4, .msg, 0, 15, 1, 0⟩]
def exOps : List SOp :=
  [.push ⟨2, .other, 0, 13, 2, 0⟩, .push ⟨1, .msg, 0, 11, 1, 0⟩, .push ⟨1, .msg, 0, 11, 1, 0⟩, .clear,
   .seq diffShape 15 [⟨3, .msg, 0, 14, 1, 0⟩, ⟨4, .msg, 0, 15, 1, 0⟩]]

example : tiled 10 exLog = true := by decide
def exCfg : ACfg := ⟨[.dispatch, .store], false, fun _ => false⟩
example : wfRun exCfg exLog { state := 10 } exOps = true := by decide
example : (srun exCfg { state := 10 } exOps).2 =
    [.dispatch [1, 2], .store 13, .dispatch [3, 4], .store 15] := by decide

/-- With a marker: affected result 1 covers (10,12], message 2 @13 overtakes it; the marker closes
the hole and only the message is dispatched, then 13 is persisted. -/
example : (srun ⟨[.dispatch, .store], false, fun i => i == 1⟩ { state := 10 }
    [.push ⟨2, .msg, 0, 13, 1, 0⟩, .push ⟨1, .aff, 0, 12, 2, 0⟩]).2 = [.dispatch [2], .store 13] := by decide

/-! ### The whole manager model on the D12 history -/

/-- The regenerated orders with the pre-repair too-long branches (persist, set, then report). -/
def preRepairTooLong : Orders :=
  { orders with diffTooLong := [.storePts, .boxSetPts, .tooLongCb, .recurse],
                chDiffTooLong := [.storeChannelPts, .boxSetPts, .tooLongCb] }

/-- Stored pts 10; `msg 1 @11` happens offline; the next difference answers `differenceTooLong`. -/
def tooLongHistory (O : Orders) : List Event :=
  ((Mgr.start O { log := [⟨1, .msg, 0, 11, 1, 0⟩], p0 := 10, q0 := 0, c0 := [] } 10 0 []).runActions O
    [.emit 1, .tlNext, .tooLong]).trace

/-- Manager model, pre-repair order: `SetPts(11)` is in the trace before the callback. -/
theorem C03_counterexample_tooLong :
    tooLongHistory preRepairTooLong = [.apiDiff 10 0, .apiDiff 10 0, .storePts 11, .tooLong, .apiDiff 11 0] := by decide

/-- With the regenerated (repaired) order the callback comes first. -/
example : tooLongHistory orders = [.apiDiff 10 0, .apiDiff 10 0, .tooLong, .storePts 11, .apiDiff 11 0] := by decide

/-! ### The whole manager model -/

/-- The regenerated orders are the ones the manager-level invariant is proved for. -/
theorem orders_good : GoodOrders orders :=
  ⟨by decide, by decide, by decide, by decide, by decide, by decide, by decide, by decide, by decide, by decide,
   by decide, by decide, by decide, by decide, by decide, by decide, by decide, by decide, by decide, by decide⟩

/-- The regenerated guards: the apply callbacks dispatch only a non-empty converted batch
(`applyQts` always: its batch has no markers), the difference branches dispatch when any of new
messages, new encrypted messages or own other-updates is present (channel: new messages or own),
re-routing / handing over happens only for a non-empty rest. -/
theorem dispatch_guards :
    Facts.C03.applyPtsGuard = [3] ∧ Facts.C03.applyQtsGuard = [100] ∧ Facts.C03.chApplyPtsGuard = [3] ∧
    Facts.C03.diffGuard = [0, 1, 2] ∧ Facts.C03.sliceGuard = [0, 1, 2] ∧ Facts.C03.chDiffGuard = [0, 2] ∧
    Facts.C03.diffRerouteGuard = [4] ∧ Facts.C03.sliceRerouteGuard = [4] ∧ Facts.C03.chSendOutGuard = [4] := by
  decide

/-- `internalState.handleChannel`, pinned by source text (the value written by the initial
`SetChannelPts` is the separate fact `creationStore`): an untracked channel whose access hash is
unknown costs one `restoreAccessHash`; otherwise the stored channel pts is used if there is one,
else `localPts = pts - ptsCount` is written and the worker starts from `localPts`. -/
theorem handleChannel_src : Facts.C03.handleChannelSrc =
    "{ if err := validatePts(pts, ptsCount); err != nil { s.log.Error(ctx, \"Pts validation failed\", log.Error(err), log.Any(\"update\", cu.update)) return nil } state, ok := s.channels[channelID] if !ok { accessHash, found, err := s.hasher.GetChannelAccessHash(context.Background(), s.selfID, channelID) if err != nil { s.log.Error(ctx, \"GetChannelAccessHash error\", log.Error(err)) } if !found { if date == 0 { date = s.date - 30 } else { date-- } accessHash, found = s.restoreAccessHash(ctx, channelID, date) if !found { s.log.Debug(ctx, \"Failed to recover missing access hash, update ignored\", log.Int64(\"channel_id\", channelID), log.Any(\"update\", cu.update), ) return nil } } localPts, found, err := s.storage.GetChannelPts(ctx, s.selfID, channelID) if err != nil { localPts = pts - ptsCount s.log.Error(ctx, \"GetChannelPts error\", log.Error(err)) } if !found { localPts = pts - ptsCount if err := s.storage.SetChannelPts(ctx, s.selfID, channelID, _); err != nil { s.log.Error(ctx, \"SetChannelPts error\", log.Error(err)) } } state = s.newChannelState(channelID, accessHash, localPts) s.channels[channelID] = state s.wg.Go(func() error { return state.Run(ctx) }) } return state.Push(ctx, cu) }" := rfl

/-- The channel state written when a channel is met for the first time is the position *before*
the update that introduced it (`localPts = pts − ptsCount`), not the update's own pts. -/
theorem creation_stores_local : orders.creationStoresLocal = true := by decide

/-- **Prefix safety for the whole manager model.** For any server world satisfying `scnOK`, any
persisted start `fp fq fc`, any channels `cr` met for the first time during the run (with their
first-contact positions, where their sequences start) and any list of harness actions, the trace
of the manager model (main loop, channel creation, channel workers, queues, difference oracle) is
safe for every tracked sequence: at every store — the initial store of a freshly created channel
included — everything at or below the stored value was dispatched before, unless too-long was
reported before. -/
theorem C03_manager_prefix_safe (w : World) (fp fq : Int) (fc cr : List (Nat × Int)) (acts : List Action) (ns : Bool)
    (hpe : w.persisted = fc) (hcr : w.cr = cr)
    (hS : scnOK w.log (seqKeys (fc ++ cr)) (initOf w.p0 w.q0 w.c0) = true) (k : Nat) (hk : k ∈ seqKeys (fc ++ cr)) :
    safe (seqLog w.log k) (mkOf w.log) (initOf fp fq (fc ++ cr) k) [] false
      (projSeq w.log k ((Mgr.start orders w fp fq fc ns).runActions orders acts).trace) = true := by
  have hscn := scn_of_ok _ _ _ hS
  obtain ⟨hw, htr, _⟩ := mgr_projects orders orders_good w fp fq fc cr hpe hcr hscn acts k hk ns
  rw [htr]
  exact C03_prefix_safe k (mkOf w.log) (seqLog w.log k) _ (initOf fp fq (fc ++ cr) k) (hscn.tiledK k hk) _ hw

/-- **Crash and restart for the whole manager model.** First run: any actions; crash at any point
of its trace (`pre ++ post`).  Second run: a manager started on the same server log from a
persisted state that, for sequence `k`, is what the first run had stored in `pre` (for a channel
first met in the first run whose initial state was not written before the crash: the second run
meets it at the same position); any actions; at its end the position of `k` is at or above every
log position of `k`.  Then every non-marker entry of `k` above the original start was dispatched
in `pre` or in the second run, or too-long was reported in one of them. -/
theorem C03_manager_restart_complete (w : World) (fp fq : Int) (fc cr : List (Nat × Int)) (acts1 : List Action) (ns : Bool)
    (hpe : w.persisted = fc) (hcr : w.cr = cr)
    (hS : scnOK w.log (seqKeys (fc ++ cr)) (initOf w.p0 w.q0 w.c0) = true) (k : Nat) (hk : k ∈ seqKeys (fc ++ cr))
    (pre post : List Event) (hp : ((Mgr.start orders w fp fq fc ns).runActions orders acts1).trace = pre ++ post)
    (w2 : World) (hl2 : w2.log = w.log) (hp2 : w2.p0 = w.p0) (hq2 : w2.q0 = w.q0) (hc2 : w2.c0 = w.c0)
    (fp2 fq2 : Int) (fc2 cr2 : List (Nat × Int)) (hpe2 : w2.persisted = fc2) (hcr2 : w2.cr = cr2)
    (hkeys : seqKeys (fc2 ++ cr2) = seqKeys (fc ++ cr))
    (hstart : initOf fp2 fq2 (fc2 ++ cr2) k = lastStore (initOf fp fq (fc ++ cr) k) (projSeq w.log k pre))
    (acts2 : List Action) (b : Box)
    (hb : ((Mgr.start orders w2 fp2 fq2 fc2).runActions orders acts2).getBox k = some b)
    (hrec : ∀ e ∈ seqLog w.log k, e.pos ≤ b.state) :
    let t2 := projSeq w.log k ((Mgr.start orders w2 fp2 fq2 fc2).runActions orders acts2).trace
    hasTooLong (projSeq w.log k pre) = true ∨ hasTooLong t2 = true ∨
      ∀ e ∈ seqLog w.log k, initOf fp fq (fc ++ cr) k < e.pos →
        exempt (mkOf w.log) e = true ∨ e.id ∈ dispatchedIds (projSeq w.log k pre) ∨ e.id ∈ dispatchedIds t2 := by
  intro t2
  have hscn := scn_of_ok _ _ _ hS
  obtain ⟨hw1, htr1, _⟩ := mgr_projects orders orders_good w fp fq fc cr hpe hcr hscn acts1 k hk ns
  have hscn2 : Scn w2.log (seqKeys (fc2 ++ cr2)) (initOf w2.p0 w2.q0 w2.c0) := by
    rw [hl2, hp2, hq2, hc2, hkeys]; exact hscn
  obtain ⟨hw2, htr2, hbox2⟩ := mgr_projects orders orders_good w2 fp2 fq2 fc2 cr2 hpe2 hcr2 hscn2 acts2 k
    (by rw [hkeys]; exact hk)
  rw [hl2] at hw2 htr2 hbox2
  rw [hstart] at hw2 htr2 hbox2
  rw [hp, projSeq_append] at htr1
  have := C03_restart_complete k (mkOf w.log) (seqLog w.log k) _ (initOf fp fq (fc ++ cr) k) (hscn.tiledK k hk) _ _ hw1 (projSeq w.log k pre) (projSeq w.log k post) htr1.symm hw2
    (by
      intro e he
      rw [hb] at hbox2
      rcases hbox2 with hbox2 | hbox2
      · rw [← Option.some.inj hbox2]
        exact hrec e he
      · cases hbox2)
  simp only at this
  rw [← htr2] at this
  exact this

end TdModel.C03
