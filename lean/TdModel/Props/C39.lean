/-
C39 — history and dialog iterators yield every item once, in server order, and stop.
Property theorems only (helper lemmas live in TdModel/Lemmas/C39.lean).
-/
import TdModel.Lemmas.C39
import TdModel.Lemmas.C39D
import TdModel.Lemmas.C39O

namespace TdModel.C39
open TdModel

/-- The rules read from the source are the ones the specification of the paginated constructors
requires: `messages.messages` / `messages.dialogs` are complete answers, a slice is the last one when
it is shorter than the page size (messages) or empty (dialogs); pages are sorted by descending id;
`Next` stops at the end of the buffer. -/
theorem source_rules :
    Facts.C39.msgLastBatchFull = 0 ∧ Facts.C39.msgLastBatchSlice = 1 ∧ Facts.C39.msgLastBatchChannel = 1 ∧
    Facts.C39.dlgLastBatchFull = 0 ∧ Facts.C39.dlgLastBatchSlice = 2 ∧
    Facts.C39.sortDescending = true ∧ Facts.C39.bufNextStopsAtEnd = true ∧
    Facts.C39.dlgBufNextStopsAtEnd = true ∧ Facts.C39.dlgOffsetPeerFromEntities = true := by decide

/-- Messages: for every server history (ids strictly descending, positive), every page size ≥ 1 and
every choice of answer constructor per request, calling `Next` until it returns `false` (any number of
calls > the history length suffices) yields exactly the history, in the server's order, and then
`Next` returns `false`. -/
theorem iterate_exact (hist : List Nat) (hdesc : hist.Pairwise (fun a b => a > b))
    (hpos : ∀ x ∈ hist, 0 < x) (limit : Nat) (hlimit : 1 ≤ limit) (ks : List Kind)
    (fuel : Nat) (hfuel : hist.length < fuel) :
    (run hist fuel ks (Iter.init limit)).yields = hist ∧
    (run hist fuel ks (Iter.init limit)).done = true := by
  have hpend : pending hist (Iter.init limit) = hist := by simp [pending, Iter.init, below]
  have := runS_exact hist hdesc hpos ks fuel 0 (Iter.init limit) (by simp [Iter.init]) (by simp only [Iter.init]; omega)
    (by rw [hpend]; exact hfuel)
  rw [hpend] at this
  exact this

/-- "Every item exactly once", spelled out: the yielded sequence has no duplicates and contains an
id iff the server history does — for every page size and answer constructor sequence. -/
theorem iterate_each_exactly_once (hist : List Nat) (hdesc : hist.Pairwise (fun a b => a > b))
    (hpos : ∀ x ∈ hist, 0 < x) (limit : Nat) (hlimit : 1 ≤ limit) (ks : List Kind)
    (fuel : Nat) (hfuel : hist.length < fuel) :
    (run hist fuel ks (Iter.init limit)).yields.Nodup ∧
    ∀ x, x ∈ (run hist fuel ks (Iter.init limit)).yields ↔ x ∈ hist := by
  rw [(iterate_exact hist hdesc hpos limit hlimit ks fuel hfuel).1]
  exact ⟨hdesc.imp (fun h => by omega), fun _ => Iff.rfl⟩

/-- The iteration costs at most `⌈n / limit⌉ + 1` requests (the last one discovers the end), for any
number of `Next` calls. -/
theorem iterate_requests_bounded (hist : List Nat) (hdesc : hist.Pairwise (fun a b => a > b))
    (hpos : ∀ x ∈ hist, 0 < x) (limit : Nat) (hlimit : 1 ≤ limit) (ks : List Kind) (fuel : Nat) :
    (run hist fuel ks (Iter.init limit)).reqs.length ≤ (hist.length + limit - 1) / limit + 1 := by
  have := runS_reqs hist hdesc hpos ks fuel 0 (Iter.init limit) (by simp [Iter.init]) (by simp only [Iter.init]; omega)
  simpa [run, reqBound, Iter.init, below, ceilDiv] using this

/-- Once `Next` has returned `false` it keeps returning `false` and yields nothing more: from a state
whose buffer is exhausted after the last batch, any further run yields nothing. -/
theorem stops_after_last (srv : Server) (fuel i : Nat) (s : Iter)
    (hbuf : s.buf.length ≤ s.pos) (hlast : s.lastBatch = true) :
    (runS srv fuel i s).yields = [] := by
  cases fuel with
  | zero => rfl
  | succ fuel =>
    have hb : bufHas s = false := by simp [bufHas_eq]; omega
    rw [runS_stop srv fuel i s hb (by rw [apply_lastBatch _ _ _ hlast]; exact hb)]

/-- Dialogs: for every dialog list in server order (strictly descending in `(date, top message id,
peer)`, no all-zero key), every page size ≥ 1 and every choice of `messages.dialogs` /
`messages.dialogsSlice` per request, and every server-side page cap ≥ 1 (pages may be shorter than
requested although more dialogs remain), iterating yields exactly the list, in order, and stops. -/
theorem iterate_dialogs_exact (ds : List Dlg) (hdesc : ds.Pairwise (fun a b => b.lt a = true))
    (hnz : ∀ d ∈ ds, d ≠ Dlg.zero) (limit : Nat) (hlimit : 1 ≤ limit) (ks : List Kind)
    (cap : Nat) (hcap : 1 ≤ cap) (fuel : Nat) (hfuel : ds.length < fuel) :
    (drun ds fuel ks cap (DIter.init limit)).yields = ds ∧
    (drun ds fuel ks cap (DIter.init limit)).done = true ∧
    (drun ds fuel ks cap (DIter.init limit)).err = false := by
  have hpend : dpending ds (DIter.init limit) = ds := by simp [dpending, DIter.init, belowD]
  have := drunS_exact ds hdesc hnz ks cap (by omega) fuel 0 (DIter.init limit) (by simp [DIter.init]) rfl
    (by simp only [DIter.init]; omega)
    (by rw [hpend]; exact hfuel)
  rw [hpend] at this
  exact this

/-- The four offset-based iterators built on a copy of the same skeleton (blocked contacts, user photos,
channel participants, featured sticker sets), with the lastBatch rules read from their sources: for every
item list, page size ≥ 1 and constructor choice per request — and, for the participants iterator whose
rule is "an empty page ends", every server-side page cap ≥ 1 — the iteration yields exactly the items in
order and stops.  (For the three "shorter than requested ends" iterators the server must honour the
requested page size, as for messages.) -/
theorem iterate_offset_exact (items : List Nat) (limit : Nat) (hlimit : 1 ≤ limit) (ks : List Kind)
    (cap : Nat) (hcap : limit ≤ cap) (pcap : Nat) (hpcap : 1 ≤ pcap) (fuel : Nat) (hfuel : items.length < fuel) :
    (∀ cf cs, (cf, cs) ∈ [(Facts.C39.blockedFull, Facts.C39.blockedSlice), (Facts.C39.photosFull, Facts.C39.photosSlice),
        (0, Facts.C39.featuredRule)] →
      (orunS (offServer items ks cf cs cap) fuel 0 (OIter.init limit)).yields = items ∧
      (orunS (offServer items ks cf cs cap) fuel 0 (OIter.init limit)).done = true) ∧
    ((orunS (offServer items ks 0 Facts.C39.participantsRule pcap) fuel 0 (OIter.init limit)).yields = items ∧
     (orunS (offServer items ks 0 Facts.C39.participantsRule pcap) fuel 0 (OIter.init limit)).done = true) ∧
    Facts.C39.offsetItersAsModelled = true := by
  have hpend : opending items (OIter.init limit) = items := by simp [opending, OIter.init]
  have key : ∀ cf cs c, RuleOK cf cs c limit →
      (orunS (offServer items ks cf cs c) fuel 0 (OIter.init limit)).yields = items ∧
      (orunS (offServer items ks cf cs c) fuel 0 (OIter.init limit)).done = true := by
    intro cf cs c hr
    have := orunS_exact items ks cf cs c fuel 0 (OIter.init limit) (by simpa [OIter.init] using hr)
      (by simp only [OIter.init]; omega) (by rw [hpend]; exact hfuel)
    rw [hpend] at this
    exact this
  refine ⟨?_, key 0 _ pcap ⟨rfl, Or.inr ⟨rfl, hpcap⟩⟩, rfl⟩
  intro cf cs hm
  simp only [List.mem_cons, Prod.mk.injEq, List.mem_nil_iff, or_false] at hm
  rcases hm with ⟨h1, h2⟩ | ⟨h1, h2⟩ | ⟨h1, h2⟩ <;> subst h1 <;> subst h2 <;>
    exact key _ _ cap ⟨rfl, Or.inl ⟨rfl, hcap⟩⟩

/-- Dialogs whose user/chat/channel object is missing from the answers (any set `noEntity` of such
peers): the offset peer is built from the page's entities, and when it cannot be built for the last
dialog of a non-final page the iteration stops with an error.  In every case what is yielded is a prefix
of the server's list — no dialog twice, none out of order — the iteration ends, and unless it ends with
an error it yielded everything. -/
theorem dialogs_exact_or_error (ds : List Dlg) (hdesc : ds.Pairwise (fun a b => b.lt a = true))
    (hnz : ∀ d ∈ ds, d ≠ Dlg.zero) (limit : Nat) (hlimit : 1 ≤ limit) (ks : List Kind)
    (cap : Nat) (hcap : 1 ≤ cap) (noEntity : List Nat) (fuel : Nat) (hfuel : ds.length < fuel) :
    let o := drun ds fuel ks cap { DIter.init limit with noEntity := noEntity }
    ∃ rest, o.yields ++ rest = ds ∧ o.done = true ∧ (o.err = false → rest = []) := by
  have hpend : dpending ds { DIter.init limit with noEntity := noEntity } = ds := by
    simp [dpending, DIter.init, belowD]
  have := drunS_prefix ds hdesc hnz ks cap (by omega) fuel 0 { DIter.init limit with noEntity := noEntity } rfl
    (by simp only [DIter.init]; omega) (by rw [hpend]; exact hfuel)
  rw [hpend] at this
  exact this

/-- Non-vacuity: the second dialog (peer 1) has no entity and is the last of the first page (page size 2):
the first page is not delivered, the iteration stops with an error, nothing is yielded twice. -/
example : drun [⟨9, 5, 2⟩, ⟨9, 5, 1⟩, ⟨3, 8, 7⟩] 6 [] 2 { DIter.init 2 with noEntity := [1] } =
    { yields := [], reqs := [(Dlg.zero, 2)], done := true, err := true } := by decide
/-- … in the middle of a page the missing entity does not matter. -/
example : (drun [⟨9, 5, 2⟩, ⟨9, 5, 1⟩, ⟨3, 8, 7⟩] 6 [] 3 { DIter.init 3 with noEntity := [1] }).yields =
    [⟨9, 5, 2⟩, ⟨9, 5, 1⟩, ⟨3, 8, 7⟩] := by decide

/-- Non-vacuity (dialogs): three dialogs, two of them with the same date, page size 2. -/
example : (drun [⟨9, 5, 2⟩, ⟨9, 5, 1⟩, ⟨3, 8, 7⟩] 4 [.slice, .full] 1 (DIter.init 2)).yields =
    [⟨9, 5, 2⟩, ⟨9, 5, 1⟩, ⟨3, 8, 7⟩] := by decide

/-- Observation (outside the quantifier: paginated answers of real servers contain no `messageEmpty`):
`messageEmpty` entries are skipped, and a page that consists only of them ends the iteration early — here
ids 5 and 4 are empty, page size 2: nothing is yielded although 3, 2, 1 remain. -/
example : run [5, 4, 3, 2, 1] 8 [] { Iter.init 2 with emptyIds := [5, 4] } =
    { yields := [], reqs := [(0, 2)], done := true } := by decide
/-- `messageEmpty` entries inside otherwise non-empty pages are skipped and do not disturb the offsets. -/
example : (run [5, 4, 3, 2, 1] 8 [] { Iter.init 2 with emptyIds := [4, 2] }).yields = [5, 3, 1] := by decide

/-- Non-vacuity: a 5-item history with page size 2 (three pages, the last one short) and one with an
exact multiple (page size 2, 4 items: the end is discovered by an empty page). -/
example : (run [9, 7, 4, 2, 1] 6 [.slice, .channel, .full] (Iter.init 2)).yields = [9, 7, 4, 2, 1] := by decide
example : run [8, 6, 3, 1] 5 [] (Iter.init 2) =
    { yields := [8, 6, 3, 1], reqs := [(0, 2), (6, 2), (1, 2)], done := true } := by decide

end TdModel.C39
