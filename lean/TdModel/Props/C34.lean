/-
C34 — verified and CDN downloads never deliver bytes that fail verification.
Property theorems only (helper lemmas live in TdModel/Lemmas/C34.lean).
-/
import TdModel.Lemmas.C34

namespace TdModel.C34
open TdModel

/-- What is read from the source: the CDN grid constants, the shape of the plan functions, the CTR
counter derivation, SHA-256 comparison in the verifier, and the three repairs made for this property
(over-long CDN part, bytes after the verified file tail, short chunk inside a verified window). -/
theorem source_rules :
    Facts.C34.cdnMinChunk = 4 * 1024 ∧ Facts.C34.cdnMaxChunk = 1024 * 1024 ∧
    Facts.C34.largestValidAsModelled = true ∧ Facts.C34.planAsModelled = true ∧
    Facts.C34.ctrCounterIsOffsetDiv16 = true ∧ Facts.C34.verifierComparesSHA256 = true ∧
    Facts.C34.rejectsLongPart = true ∧ Facts.C34.rejectsBeyondTail = true ∧
    Facts.C34.rejectsTruncatedSplit = true := by decide

/-- Every CDN request range of a plan is a valid aligned window (offset and limit divisible by 4 KiB,
limit divides 1 MiB, the range does not cross a 1 MiB boundary), and the ranges exactly cover the
requested range: contiguous from `offset`, limits summing to `limit`. -/
theorem plan_valid (offset limit : Int) (rs : List Range) (h : buildPlan offset limit = .ok rs) :
    Contig offset.toNat rs ∧ (total rs : Int) = limit ∧ ∀ r ∈ rs, ValidRange r := by
  obtain ⟨hl, ho, ha, hb, hp⟩ := buildPlan_aligned offset limit rs h
  obtain ⟨rs', hrs, hc, ht, hv⟩ := planLoop_spec (limit.toNat / 4096 + 1) offset.toNat limit.toNat ha hb (by omega)
  rw [hp] at hrs
  cases hrs
  exact ⟨hc, by omega, hv⟩

/-- On the 4 KiB grid a plan always exists (the "unable to build" error is unreachable). -/
theorem plan_total (offset limit : Int) (ho : 0 ≤ offset) (hl : 0 < limit)
    (hoa : offset % 4096 = 0) (hla : limit % 4096 = 0) : ∃ rs, buildPlan offset limit = .ok rs := by
  have h1 : offset.toNat % 4096 = 0 := by omega
  have h2 : limit.toNat % 4096 = 0 := by omega
  obtain ⟨rs, hrs, _⟩ := planLoop_spec (limit.toNat / 4096 + 1) offset.toNat limit.toNat h1 h2 (by omega)
  refine ⟨rs, ?_⟩
  rw [buildPlan_eq, buildPlanP, if_neg (by omega), if_neg (by omega), if_neg (by omega), if_neg (by omega)]
  exact hrs

/-- Off the grid (or for non-positive sizes) no request is made at all. -/
theorem plan_rejects_off_grid (offset limit : Int)
    (h : limit ≤ 0 ∨ offset < 0 ∨ offset % 4096 ≠ 0 ∨ limit % 4096 ≠ 0) :
    ∃ e, buildPlan offset limit = .error e := by
  rw [buildPlan_eq, buildPlanP]
  by_cases h1 : limit ≤ 0
  · exact ⟨_, if_pos h1⟩
  · rw [if_neg h1]
    by_cases h2 : offset < 0
    · exact ⟨_, if_pos h2⟩
    · rw [if_neg h2]
      by_cases h3 : offset.toNat % 4096 ≠ 0
      · exact ⟨_, if_pos h3⟩
      · rw [if_neg h3]
        by_cases h4 : limit.toNat % 4096 ≠ 0
        · exact ⟨_, if_pos h4⟩
        · exfalso; omega

/-- CDN chunks are decrypted with the counter derived from their offset: the CTR counter block is the
redirect's IV with its last four bytes replaced by the big-endian 32-bit value `offset / 16`. -/
theorem decrypt_counter (iv : Bytes) (offset : Nat) (hiv : iv.length = 16) :
    ctrIV iv offset = iv.take 12 ++ be32 (offset / 16 % 2 ^ 32) ∧ (ctrIV iv offset).length = 16 := by
  simp [ctrIV, Facts.C34.ctrCounterIsOffsetDiv16, hiv, be32]

/-- (repaired code) The CDN can never make a chunk longer than requested. -/
theorem chunk_len_le_limit (cdn : Nat → Nat → Bytes) (dec : Nat → Bytes → Bytes) (offset limit : Int)
    (plan : List Range) (d : Bytes) (hp : buildPlan offset limit = .ok plan)
    (h : chunkRaw cdn dec plan = .ok d) : (d.length : Int) ≤ limit := by
  have := chunkRaw_len cdn dec plan d h
  have := (plan_valid offset limit plan hp).2.1
  omega

/-- Non-vacuity of the plan theorems: a request crossing a 1 MiB boundary is split there. -/
example : (match buildPlan 1044480 12288 with
    | .ok rs => rs == [⟨1044480, 4096⟩, ⟨1048576, 8192⟩] | .error _ => false) = true := by decide

end TdModel.C34
