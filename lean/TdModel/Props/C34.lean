/-
C34 — verified and CDN downloads never deliver bytes that fail verification.
Property theorems only (helper lemmas live in TdModel/Lemmas/C34.lean).
-/
import TdModel.Lemmas.C34

namespace TdModel.C34
open TdModel

/-- What is read from the source: the CDN grid constants, the shape of the plan functions, the CTR
counter derivation, SHA-256 comparison in the verifier, and the three repairs made for this property
(over-long CDN part, bytes after the verified file tail, short chunk inside a verified window). -/
theorem source_rules :
    Facts.C34.cdnMinChunk = 4 * 1024 ∧ Facts.C34.cdnMaxChunk = 1024 * 1024 ∧
    Facts.C34.largestValidAsModelled = true ∧ Facts.C34.planAsModelled = true ∧
    Facts.C34.ctrCounterIsOffsetDiv16 = true ∧ Facts.C34.verifierComparesSHA256 = true ∧
    Facts.C34.rejectsLongPart = true ∧ Facts.C34.rejectsBeyondTail = true ∧
    Facts.C34.rejectsTruncatedSplit = true ∧ Facts.C34.cursorAdvancesToWindowEnd = true ∧
    Facts.C34.verifyCasesAsModelled = true ∧ Facts.C34.maxRetryAttempts = 20 := by decide

/-- Every CDN request range of a plan is a valid aligned window (offset and limit divisible by 4 KiB,
limit divides 1 MiB, the range does not cross a 1 MiB boundary), and the ranges exactly cover the
requested range: contiguous from `offset`, limits summing to `limit`. -/
theorem plan_valid (offset limit : Int) (rs : List Range) (h : buildPlan offset limit = .ok rs) :
    Contig offset.toNat rs ∧ (total rs : Int) = limit ∧ ∀ r ∈ rs, ValidRange r := by
  obtain ⟨hl, ho, ha, hb, hp⟩ := buildPlan_aligned offset limit rs h
  obtain ⟨rs', hrs, hc, ht, hv⟩ := planLoop_spec (limit.toNat / 4096 + 1) offset.toNat limit.toNat ha hb (by omega)
  rw [hp] at hrs
  cases hrs
  exact ⟨hc, by omega, hv⟩

/-- On the 4 KiB grid a plan always exists (the "unable to build" error is unreachable). -/
theorem plan_total (offset limit : Int) (ho : 0 ≤ offset) (hl : 0 < limit)
    (hoa : offset % 4096 = 0) (hla : limit % 4096 = 0) : ∃ rs, buildPlan offset limit = .ok rs := by
  have h1 : offset.toNat % 4096 = 0 := by omega
  have h2 : limit.toNat % 4096 = 0 := by omega
  obtain ⟨rs, hrs, _⟩ := planLoop_spec (limit.toNat / 4096 + 1) offset.toNat limit.toNat h1 h2 (by omega)
  refine ⟨rs, ?_⟩
  rw [buildPlan_eq, buildPlanP, if_neg (by omega), if_neg (by omega), if_neg (by omega), if_neg (by omega)]
  exact hrs

/-- Off the grid (or for non-positive sizes) no request is made at all. -/
theorem plan_rejects_off_grid (offset limit : Int)
    (h : limit ≤ 0 ∨ offset < 0 ∨ offset % 4096 ≠ 0 ∨ limit % 4096 ≠ 0) :
    ∃ e, buildPlan offset limit = .error e := by
  rw [buildPlan_eq, buildPlanP]
  by_cases h1 : limit ≤ 0
  · exact ⟨_, if_pos h1⟩
  · rw [if_neg h1]
    by_cases h2 : offset < 0
    · exact ⟨_, if_pos h2⟩
    · rw [if_neg h2]
      by_cases h3 : offset.toNat % 4096 ≠ 0
      · exact ⟨_, if_pos h3⟩
      · rw [if_neg h3]
        by_cases h4 : limit.toNat % 4096 ≠ 0
        · exact ⟨_, if_pos h4⟩
        · exfalso; omega

/-- CDN chunks are decrypted with the counter derived from their offset: the CTR counter block is the
redirect's IV with its last four bytes replaced by the big-endian 32-bit value `offset / 16`. -/
theorem decrypt_counter (iv : Bytes) (offset : Nat) (hiv : iv.length = 16) :
    ctrIV iv offset = iv.take 12 ++ be32 (offset / 16 % 2 ^ 32) ∧ (ctrIV iv offset).length = 16 := by
  simp [ctrIV, Facts.C34.ctrCounterIsOffsetDiv16, hiv, be32]

/-- (repaired code) The CDN can never make a chunk longer than requested. -/
theorem chunk_len_le_limit (cdn : Nat → Nat → Bytes) (dec : Nat → Bytes → Bytes) (offset limit : Int)
    (plan : List Range) (d : Bytes) (hp : buildPlan offset limit = .ok plan)
    (h : chunkRaw cdn dec plan = .ok d) : (d.length : Int) ≤ limit := by
  have := chunkRaw_len cdn dec plan d h
  have := (plan_valid offset limit plan hp).2.1
  omega

/-- A chunk that passes inline verification is genuine: for ANY CDN answer and ANY decryption result, if
`cdn.Chunk` (plan → request → decrypt → `verifyChunk`) returns data, that data is at most as long as
requested and equals the genuine file's bytes at that offset — *provided* SHA-256 does not collide on
the compared values (explicit hypothesis `hinj`; never an axiom) and the hash windows come from the
master DC (`GenuineTable`).  Covers windows inside the part, windows split by the part size (re-fetched,
verified and patched in), and the short final part. -/
theorem verify_ok_implies_genuine (sha : Bytes → Bytes) (hinj : ∀ a b, sha a = sha b → a = b)
    (file : Bytes) (look : Nat → Option FileHash) (hg : GenuineTable sha file look)
    (cdn : Nat → Nat → Bytes) (dec : Nat → Bytes → Bytes) (depth offset limit : Nat) (d : Bytes)
    (h : chunkCDN sha cdn dec look true depth offset limit = .ok d) :
    d.length ≤ limit ∧ d = (file.drop offset).take d.length ∧ d.length ≤ (file.drop offset).length :=
  chunkCDN_genuine sha hinj file look hg cdn dec depth offset limit d h

/-
Full-strength statement for inline CDN verification (FALSE on the current tree, D19a — see
`inline_truncation_counterexample` and known_findings/C34.json):

  theorem inline_complete_equals_genuine … (hdone : out.err = none) : out.data = file

What holds instead:
-/

/-- `…_partial`: a completed inline-verified CDN download is a **prefix** of the genuine file (never a
wrong or surplus byte, whatever the CDN does); what is missing for equality is a proof that the prefix
is the whole file — the downloader accepts an empty/short answer at a hash-window boundary as the end. -/
theorem inline_complete_partial (sha : Bytes → Bytes) (hinj : ∀ a b, sha a = sha b → a = b)
    (file : Bytes) (look : Nat → Option FileHash) (hg : GenuineTable sha file look)
    (cdn : Nat → Nat → Bytes) (dec : Nat → Bytes → Bytes) (depth ps fuel : Nat)
    (hdone : (streamChunks (chunkCDN sha cdn dec look true depth) ps fuel 0).err = none) :
    ∃ m, (streamChunks (chunkCDN sha cdn dec look true depth) ps fuel 0).data = file.take m := by
  have := streamChunks_prefix file ps (chunkCDN sha cdn dec look true depth)
    (fun off d h => chunkCDN_genuine sha hinj file look hg cdn dec depth off ps d h) fuel 0 hdone
  simpa using this

/-- Counterexample to the full-strength statement (witness class of the open finding): the genuine file
is the single byte `7` with one hash window `[0, 4096)`; the CDN answers the first request with nothing.
The inline-verified download completes without error and delivers zero bytes.  (The hash function is the
identity — injective — so no collision is involved.) -/
theorem inline_truncation_counterexample :
    let sha : Bytes → Bytes := id
    let file : Bytes := [7]
    let look : Nat → Option FileHash := fun _ => some { offset := 0, limit := 4096, hash := sha file }
    let out := streamChunks (chunkCDN sha (fun _ _ => []) (fun _ d => d) look true 3) 4096 4 0
    out.err = none ∧ out.done = true ∧ out.data = [] ∧ out.data ≠ file := by
  decide

/-- Token refresh and reupload are transparent: whatever `FILE_TOKEN_INVALID` / `cdnFileReuploadNeeded`
events interrupt the requests of a chunk, as long as there are fewer of them than the attempts the
`Chunk` loop has left (19 on a schema that still has to follow the redirect), the chunk is exactly the
event-free one; and in no case — also when the attempts run out — is different data returned. -/
theorem control_events_transparent (cdn : Nat → Nat → Bytes) (dec : Nat → Bytes → Bytes) (md : Bytes)
    (offset limit : Int) (plan : List Range) (hp : buildPlan offset limit = .ok plan) (evs : List Ev)
    (hnf : Ev.tokenInvalidFile ∉ evs) :
    (controlCount evs < 19 → chunkFresh cdn dec md offset limit evs = chunkRaw cdn dec plan) ∧
    (∀ d, chunkFresh cdn dec md offset limit evs = .ok d → chunkRaw cdn dec plan = .ok d) := by
  have h19 : Facts.C34.maxRetryAttempts - 1 = 19 := by decide
  constructor
  · intro hc
    simp only [chunkFresh, hp, h19]
    exact chunkLoop_transparent cdn dec md plan 19 evs hnf hc
  · intro d h
    simp only [chunkFresh, hp, h19] at h
    exact chunkLoop_sound cdn dec md plan 19 evs d hnf h

/-- Non-vacuity: one reupload and one token refresh before the data is served. -/
example : (match chunkFresh (fun _ _ => [7]) (fun _ d => d) [] 0 4096 [.reupload, .tokenInvalid] with
    | .ok d => d == [7] | .error _ => false) = true := by decide

/-- With the verifier queue (`WithVerify(true)`, master or CDN data source) every delivered block is one
whose SHA-256 equals the hash the server provided for exactly the requested `(offset, limit)`; a block
that does not match ends the download with `ErrHashMismatch` (`err = some .mismatch`) instead. -/
theorem hashed_reader_verified (sha : Bytes → Bytes) (hs : Nat → List FileHash)
    (chunk : Nat → Nat → Except VErr Bytes) (fuel : Nat) (v : VState)
    (hdone : (hashedStream sha hs chunk fuel v).err = none) :
    ∃ blocks : List (FileHash × Bytes),
      (hashedStream sha hs chunk fuel v).data = (blocks.map (·.2)).flatten ∧
      ∀ b ∈ blocks, sha b.2 = b.1.hash ∧ chunk b.1.offset b.1.limit = .ok b.2 :=
  hashedStream_verified sha hs chunk fuel v hdone

/-- Non-vacuity of `GenuineTable` / `verify_ok_implies_genuine`: a two-window table of a 3-byte "file"
with window size 2 and an identity hash. -/
example : GenuineTable id [1, 2, 3]
    (fun cur => if cur < 2 then some ⟨0, 2, [1, 2]⟩ else if cur < 4 then some ⟨2, 2, [3]⟩ else none) where
  contains := by
    intro cur h hl
    by_cases h1 : cur < 2
    · simp only [h1, if_true, Option.some.injEq] at hl; subst hl; simp; omega
    · by_cases h2 : cur < 4
      · simp only [h1, h2, if_true, if_false, Option.some.injEq] at hl; subst hl; simp; omega
      · simp [h1, h2] at hl
  hash := by
    intro cur h hl
    by_cases h1 : cur < 2
    · simp only [h1, if_true, Option.some.injEq] at hl; subst hl; rfl
    · by_cases h2 : cur < 4
      · simp only [h1, h2, if_true, if_false, Option.some.injEq] at hl; subst hl; rfl
      · simp [h1, h2] at hl

/-- Non-vacuity of the plan theorems: a request crossing a 1 MiB boundary is split there. -/
example : (match buildPlan 1044480 12288 with
    | .ok rs => rs == [⟨1044480, 4096⟩, ⟨1048576, 8192⟩] | .error _ => false) = true := by decide

end TdModel.C34
