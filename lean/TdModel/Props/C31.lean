/-
C31 — session file updates are atomic with respect to crashes.
Property theorems only (helper lemmas live in TdModel/Lemmas/C31.lean).

The file system is the crash model of TdModel/Model/C31.lean; the trace `tr` is the list of
system calls `FileStorage.StoreSession` was *observed* to issue (harness/c31, strace), accepted
by the decidable shape check `isAtomicReplace`.
-/
import TdModel.Lemmas.C31

namespace TdModel.C31
open TdModel

/-- Process crash (every system-call boundary, every cut of every write): whenever the process
stops during an atomic-replace save, `path` reads the complete previous content (or is still
absent if there was none) or the complete new content. -/
theorem atomic_replace_safe (tr : List Op) (path : String) (new : Bytes) (s0 : FS)
    (hq : Quiescent s0 path) (hfresh : ∀ t, tmpOf tr = some t → s0.dir t = none)
    (h : isAtomicReplace tr path new = true) :
    ∀ s ∈ crashStates tr s0, readCur s path = readCur s0 path ∨ readCur s path = some new := by
  obtain ⟨fd, tmp, trunc, chunks, tail, rfl, hne, rfl, htail⟩ := isAtomicReplace_shape h
  intro s hs
  exact ((atomicTrace_safe hq (hfresh tmp rfl) hne htail).1 s hs).readCur

/-- Power loss (un-fsynced file data and un-fsynced directory changes may be lost, in any
combination): every content `path` can have afterwards is the previous or the new one. -/
theorem atomic_replace_safe_powerloss (tr : List Op) (path : String) (new : Bytes) (s0 : FS)
    (hq : Quiescent s0 path) (hfresh : ∀ t, tmpOf tr = some t → s0.dir t = none)
    (h : isAtomicReplace tr path new = true) :
    ∀ s ∈ crashStates tr s0, ∀ r ∈ plReads s path, r = readCur s0 path ∨ r = some new := by
  obtain ⟨fd, tmp, trunc, chunks, tail, rfl, hne, rfl, htail⟩ := isAtomicReplace_shape h
  intro s hs
  exact ((atomicTrace_safe hq (hfresh tmp rfl) hne htail).1 s hs).plReads

/-- …so the next start loads a usable session: whatever deterministic loader (`session.Loader.Load`
is a function of the file content) runs after a power loss sees what it would have seen for the
previous or for the new file. -/
theorem loader_sees_old_or_new {α : Type} (load : Option Bytes → α) (tr : List Op) (path : String)
    (new : Bytes) (s0 : FS) (hq : Quiescent s0 path)
    (hfresh : ∀ t, tmpOf tr = some t → s0.dir t = none) (h : isAtomicReplace tr path new = true) :
    ∀ s ∈ crashStates tr s0, ∀ r ∈ plReads s path, load r = load (readCur s0 path) ∨ load r = load (some new) := by
  intro s hs r hr
  rcases atomic_replace_safe_powerloss tr path new s0 hq hfresh h s hs r hr with h1 | h1
  · exact Or.inl (by rw [h1])
  · exact Or.inr (by rw [h1])

/-- A save that runs to completion has saved: `path` then reads the new content. -/
theorem atomic_replace_completes (tr : List Op) (path : String) (new : Bytes) (s0 : FS)
    (hq : Quiescent s0 path) (hfresh : ∀ t, tmpOf tr = some t → s0.dir t = none)
    (h : isAtomicReplace tr path new = true) :
    readCur (run tr s0) path = some new := by
  obtain ⟨fd, tmp, trunc, chunks, tail, rfl, hne, rfl, htail⟩ := isAtomicReplace_shape h
  exact (atomicTrace_safe hq (hfresh tmp rfl) hne htail).2

/-- The call sequence of `FileStorage.StoreSession`, regenerated from the source on every run
(`Facts.C31.storeOps`), is an atomic replacement for every descriptor numbering, temporary
name and chunking of the data. -/
theorem store_session_is_atomic_replace (fd dfd : Nat) (tmp path : String) (chunks : List Bytes)
    (hne : tmp ≠ path) :
    isAtomicReplace (implTrace fd dfd tmp path chunks) path chunks.flatten = true := by
  simp only [implTrace, Facts.C31.storeOps, interp, String.reduceEq, ↓reduceIte]
  exact isAtomicReplace_atomicTrace fd tmp path false chunks _ hne (by simp [Op.harmless])

/-- …and it also makes the rename durable before returning (the best-effort directory fsync is
in the call list). -/
theorem store_session_is_durable_replace (fd dfd : Nat) (tmp path : String) (chunks : List Bytes)
    (hne : tmp ≠ path) :
    isDurableReplace (implTrace fd dfd tmp path chunks) path chunks.flatten = true := by
  have h := store_session_is_atomic_replace fd dfd tmp path chunks hne
  simp only [isDurableReplace, h, Bool.true_and]
  simp only [implTrace, Facts.C31.storeOps, interp, String.reduceEq, ↓reduceIte]
  exact (tailOf_atomicTrace fd tmp path false chunks _).symm ▸ (by simp [tailDirSync, Op.harmless])

/-- Any number of saves in a row (each an atomic replacement followed by the directory fsync, each
temporary name free when its save starts): at every crash point of the whole sequence, under
power loss, `path` holds the content it had before the first save or the complete content of
one of the saves — never a mixture, never a partial file. -/
theorem repeated_saves_safe (path : String) (saves : List (List Op × Bytes)) (s0 : FS)
    (hq : Quiescent s0 path) (hok : SavesOK path s0 saves) :
    ∀ s ∈ crashStates (saves.flatMap (·.1)) s0, ∀ r ∈ plReads s path,
      r = readCur s0 path ∨ ∃ sv ∈ saves, r = some sv.2 :=
  saves_safe path saves s0 hq hok

/-- A completed durable save leaves the directory quiescent again (the hypothesis of the next
save) with the new content in place. -/
theorem durable_replace_leaves_quiescent (tr : List Op) (path : String) (new : Bytes) (s0 : FS)
    (hq : Quiescent s0 path) (hfresh : ∀ t, tmpOf tr = some t → s0.dir t = none)
    (h : isDurableReplace tr path new = true) :
    Quiescent (run tr s0) path ∧ readCur (run tr s0) path = some new :=
  (durable_save hq hfresh h).2

/-- The pinned tree's `os.WriteFile` (open `O_TRUNC`, write, close) is *not* crash-atomic: for
every non-empty previous and new session there is a crash point (right after the truncating
open) where the file is empty — neither the previous nor the new session (defect D17). -/
theorem truncate_then_write_unsafe (s0 : FS) (fd : Nat) (path : String) (old : Bytes)
    (chunks : List Bytes) (hold : readCur s0 path = some old) (h1 : old ≠ [])
    (h2 : chunks.flatten ≠ []) :
    ∃ s ∈ crashStates (truncWriteTrace fd path chunks) s0,
      readCur s path ≠ readCur s0 path ∧ readCur s path ≠ some chunks.flatten := by
  obtain ⟨s, hs, hr⟩ := truncWrite_crash_empty s0 fd path old chunks hold
  refine ⟨s, hs, ?_, ?_⟩
  · rw [hr, hold]; intro h; exact h1 (Option.some.inj h).symm
  · rw [hr]; intro h; exact h2 (Option.some.inj h).symm

/-- The fsync before the rename is necessary under power loss: write-temp-then-rename without
it can leave an empty session file. -/
theorem unsynced_rename_unsafe_powerloss (s0 : FS) (fd : Nat) (tmp path : String) (new : Bytes)
    (hfresh : s0.dir tmp = none) (hne : tmp ≠ path) (hnew : new ≠ []) :
    ∃ s ∈ crashStates (unsyncedTrace fd tmp path [new]) s0, ∃ r ∈ plReads s path,
      r = some [] ∧ r ≠ some new :=
  ⟨_, run_mem_crashStates _ _, some [], unsynced_final_plReads s0 fd tmp path new hfresh hne, rfl,
    fun h => hnew (Option.some.inj h).symm⟩

/-- The hypotheses are satisfiable: a directory holding any files, all on disk, is quiescent. -/
theorem initFS_is_quiescent (ents : List (String × Bytes)) (path : String) :
    Quiescent (initFS ents) path := initFS_quiescent ents path

/-- Non-vacuity: a concrete observed-style trace (two chunks, directory sync) passes the shape
check, from a directory that already holds a session and an unrelated file. -/
example :
    isAtomicReplace
      [.openF 5 "s.123.tmp" true true false false, .write 5 [1, 2], .write 5 [3], .fsync 5, .close 5,
        .rename "s.123.tmp" "s", .openDir 5, .fsync 5, .close 5] "s" [1, 2, 3] = true := by decide

example :
    isDurableReplace
      [.openF 5 "s.123.tmp" true true false false, .write 5 [1, 2], .write 5 [3], .fsync 5, .close 5,
        .rename "s.123.tmp" "s", .openDir 5, .fsync 5, .close 5] "s" [1, 2, 3] = true := by decide

/-- Two saves in a row satisfy `SavesOK` from a concrete directory (temporary name reused). -/
example : SavesOK "s" (initFS [("s", [7])])
    [([.openF 5 "t" true true false false, .write 5 [1], .fsync 5, .close 5, .rename "t" "s", .openDir 5,
        .fsync 5, .close 5], [1]),
     ([.openF 5 "t" true true false false, .write 5 [2], .fsync 5, .close 5, .rename "t" "s", .openDir 5,
        .fsync 5, .close 5], [2])] := by
  refine ⟨by decide, ?_, by decide, ?_, trivial⟩
  · intro t ht; cases ht; decide
  · intro t ht; cases ht; decide

example : readCur (initFS [("other", [9]), ("s", [7, 7])]) "s" = some [7, 7] := by decide

/-- The truncating trace does not pass the shape check. -/
example : isAtomicReplace (truncWriteTrace 5 "s" [[1, 2, 3]]) "s" [1, 2, 3] = false := by decide

end TdModel.C31
