/-
C31 — session file updates are atomic with respect to crashes.
Property theorems only (helper lemmas live in TdModel/Lemmas/C31.lean).

The file system is the crash model of TdModel/Model/C31.lean; the trace `tr` is the list of
system calls `FileStorage.StoreSession` was *observed* to issue (harness/c31, strace), accepted
by the decidable shape check `isAtomicReplace`.
-/
import TdModel.Lemmas.C31
import TdModel.Lemmas.C31Disc
import TdModel.Lemmas.C31Err

namespace TdModel.C31
open TdModel

/-- Process crash (every system-call boundary, every cut of every write): whenever the process
stops during an atomic-replace save, `path` reads the complete previous content (or is still
absent if there was none) or the complete new content. -/
theorem atomic_replace_safe (tr : List Op) (path : String) (new : Bytes) (s0 : FS)
    (hq : Quiescent s0 path) (hfresh : ∀ t, tmpOf tr = some t → s0.dir t = none)
    (h : isAtomicReplace tr path new = true) :
    ∀ s ∈ crashStates tr s0, readCur s path = readCur s0 path ∨ readCur s path = some new := by
  obtain ⟨fd, tmp, trunc, chunks, tail, rfl, hne, rfl, htail⟩ := isAtomicReplace_shape h
  intro s hs
  exact ((atomicTrace_safe hq (hfresh tmp rfl) hne htail).1 s hs).readCur

/-- Power loss (un-fsynced file data and un-fsynced directory changes may be lost, in any
combination): every content `path` can have afterwards is the previous or the new one. -/
theorem atomic_replace_safe_powerloss (tr : List Op) (path : String) (new : Bytes) (s0 : FS)
    (hq : Quiescent s0 path) (hfresh : ∀ t, tmpOf tr = some t → s0.dir t = none)
    (h : isAtomicReplace tr path new = true) :
    ∀ s ∈ crashStates tr s0, ∀ r ∈ plReads s path, r = readCur s0 path ∨ r = some new := by
  obtain ⟨fd, tmp, trunc, chunks, tail, rfl, hne, rfl, htail⟩ := isAtomicReplace_shape h
  intro s hs
  exact ((atomicTrace_safe hq (hfresh tmp rfl) hne htail).1 s hs).plReads

/-- …so the next start loads a usable session: whatever deterministic loader (`session.Loader.Load`
is a function of the file content) runs after a power loss sees what it would have seen for the
previous or for the new file. -/
theorem loader_sees_old_or_new {α : Type} (load : Option Bytes → α) (tr : List Op) (path : String)
    (new : Bytes) (s0 : FS) (hq : Quiescent s0 path)
    (hfresh : ∀ t, tmpOf tr = some t → s0.dir t = none) (h : isAtomicReplace tr path new = true) :
    ∀ s ∈ crashStates tr s0, ∀ r ∈ plReads s path, load r = load (readCur s0 path) ∨ load r = load (some new) := by
  intro s hs r hr
  rcases atomic_replace_safe_powerloss tr path new s0 hq hfresh h s hs r hr with h1 | h1
  · exact Or.inl (by rw [h1])
  · exact Or.inr (by rw [h1])

/-- A save that runs to completion has saved: `path` then reads the new content. -/
theorem atomic_replace_completes (tr : List Op) (path : String) (new : Bytes) (s0 : FS)
    (hq : Quiescent s0 path) (hfresh : ∀ t, tmpOf tr = some t → s0.dir t = none)
    (h : isAtomicReplace tr path new = true) :
    readCur (run tr s0) path = some new := by
  obtain ⟨fd, tmp, trunc, chunks, tail, rfl, hne, rfl, htail⟩ := isAtomicReplace_shape h
  exact (atomicTrace_safe hq (hfresh tmp rfl) hne htail).2

/-- The call sequence of `FileStorage.StoreSession`, regenerated from the source on every run
(`Facts.C31.storeOps`), is an atomic replacement for every descriptor numbering, temporary
name and chunking of the data. -/
theorem store_session_is_atomic_replace (fd dfd : Nat) (tmp path : String) (chunks : List Bytes)
    (hne : tmp ≠ path) :
    isAtomicReplace (implTrace fd dfd tmp path chunks) path chunks.flatten = true := by
  simp only [implTrace, Facts.C31.storeOps, interp, String.reduceEq, ↓reduceIte, List.cons_append,
    List.nil_append, List.append_nil]
  exact isAtomicReplace_atomicTrace fd tmp path false chunks _ hne (by simp [Op.harmless])

/-- …and it also makes the rename durable before returning (the best-effort directory fsync is
in the call list). -/
theorem store_session_is_durable_replace (fd dfd : Nat) (tmp path : String) (chunks : List Bytes)
    (hne : tmp ≠ path) :
    isDurableReplace (implTrace fd dfd tmp path chunks) path chunks.flatten = true := by
  have h := store_session_is_atomic_replace fd dfd tmp path chunks hne
  simp only [isDurableReplace, h, Bool.true_and]
  simp only [implTrace, Facts.C31.storeOps, interp, String.reduceEq, ↓reduceIte, List.cons_append,
    List.nil_append, List.append_nil]
  exact (tailOf_atomicTrace fd tmp path false chunks _).symm ▸ (by simp [tailDirSync, Op.harmless])

/-- Any number of saves in a row (each an atomic replacement followed by the directory fsync, each
temporary name free when its save starts): at every crash point of the whole sequence, under
power loss, `path` holds the content it had before the first save or the complete content of
one of the saves — never a mixture, never a partial file. -/
theorem repeated_saves_safe (path : String) (saves : List (List Op × Bytes)) (s0 : FS)
    (hq : Quiescent s0 path) (hok : SavesOK path s0 saves) :
    ∀ s ∈ crashStates (saves.flatMap (·.1)) s0, ∀ r ∈ plReads s path,
      r = readCur s0 path ∨ ∃ sv ∈ saves, r = some sv.2 :=
  saves_safe path saves s0 hq hok

/-- A completed durable save leaves the directory quiescent again (the hypothesis of the next
save) with the new content in place. -/
theorem durable_replace_leaves_quiescent (tr : List Op) (path : String) (new : Bytes) (s0 : FS)
    (hq : Quiescent s0 path) (hfresh : ∀ t, tmpOf tr = some t → s0.dir t = none)
    (h : isDurableReplace tr path new = true) :
    Quiescent (run tr s0) path ∧ readCur (run tr s0) path = some new :=
  (durable_save hq hfresh h).2

/-- The publication discipline, for ANY trace — any number of writers and descriptors, failed calls
(dropped), cleanup, any number of saves: if, call by call, the session file itself is never opened,
unlinked or renamed away, nothing is written to an inode `path` is or may after a power loss be
bound to, and whatever is renamed onto `path` is fully fsynced at that moment (`disciplined`,
decidable, evaluated by the driver on every observed trace), then at every crash point — every
system-call boundary, every cut of every write, un-fsynced data and directory changes lost in any
combination — `path` holds its initial content or one of the `published` contents, complete. -/
theorem publication_discipline_safe (tr : List Op) (path : String) (s0 : FS)
    (hq : Quiescent s0 path) (hwf : WellFormed s0) (hd : disciplined path s0 tr = true) :
    ∀ s ∈ crashStates tr s0, ∀ r ∈ plReads s path,
      r = readCur s0 path ∨ ∃ c ∈ published path s0 tr, r = some c := by
  intro s hs r hr
  have h := (disc_crash path (readCur s0 path) tr s0 [] (dinv_of_quiescent hq hwf) hd).1 s hs
  simpa using h.plReads r hr

/-- The shape-specific and the general theorem agree: every trace accepted by `isAtomicReplace` is
disciplined and publishes exactly the new content (so the flags `atomic=1` and `disciplined=1 pubs=new`
the driver reports for an observed trace are two views of one fact). -/
theorem atomic_replace_is_disciplined (tr : List Op) (path : String) (new : Bytes) (s0 : FS)
    (hq : Quiescent s0 path) (hfresh : ∀ t, tmpOf tr = some t → s0.dir t = none)
    (h : isAtomicReplace tr path new = true) :
    disciplined path s0 tr = true ∧ published path s0 tr = [new] := by
  obtain ⟨fd, tmp, trunc, chunks, tail, rfl, hne, rfl, htail⟩ := isAtomicReplace_shape h
  exact atomicTrace_disciplined hq (hfresh tmp rfl) hne htail

/-- Failing system calls: if the `k`-th file-system call of an atomic replacement (at or before the
rename) fails and the deferred cleanup closes (when still open) and removes the temporary file, then
every crash state of the aborted save reads the previous content, the temporary file is gone at the
end and `path` still reads the previous content. -/
theorem atomic_replace_safe_with_errors (s0 : FS) (fd : Nat) (tmp path : String) (trunc : Bool)
    (chunks : List Bytes) (tail : List Op) (k : Nat) (stillOpen : Bool)
    (hq : Quiescent s0 path) (hwf : WellFormed s0) (hfresh : s0.dir tmp = none) (hne : tmp ≠ path)
    (hk1 : 1 ≤ k) (hk2 : k ≤ chunks.length + 3) :
    (∀ s ∈ crashStates (abortTrace fd tmp (atomicTrace fd tmp path trunc chunks tail) k stillOpen) s0,
        ∀ r ∈ plReads s path, r = readCur s0 path) ∧
      (run (abortTrace fd tmp (atomicTrace fd tmp path trunc chunks tail) k stillOpen) s0).dir tmp = none ∧
      readCur (run (abortTrace fd tmp (atomicTrace fd tmp path trunc chunks tail) k stillOpen) s0) path =
        readCur s0 path :=
  abort_safe k stillOpen hq hwf hfresh hne hk1 hk2

/-- …and that is what `StoreSession` does on failure: its call list and its deferred cleanup
(`Facts.C31.storeOps`, `Facts.C31.storeCleanup`, regenerated from the source) form such an aborted
trace for every failing position at or before the rename. -/
theorem store_session_abort_is_safe (s0 : FS) (fd dfd : Nat) (tmp path : String) (chunks : List Bytes)
    (k : Nat) (stillOpen : Bool) (hq : Quiescent s0 path) (hwf : WellFormed s0)
    (hfresh : s0.dir tmp = none) (hne : tmp ≠ path) (hk1 : 1 ≤ k) (hk2 : k ≤ chunks.length + 3) :
    (∀ s ∈ crashStates (implAbortBefore fd dfd tmp path chunks k stillOpen) s0,
        ∀ r ∈ plReads s path, r = readCur s0 path) ∧
      (run (implAbortBefore fd dfd tmp path chunks k stillOpen) s0).dir tmp = none := by
  have htr : implAbortBefore fd dfd tmp path chunks k stillOpen =
      abortTrace fd tmp (atomicTrace fd tmp path false chunks [.openDir dfd, .fsync dfd, .close dfd]) k stillOpen := by
    simp only [implAbortBefore, implTrace, Facts.C31.storeOps, Facts.C31.storeCleanup, interp, cleanupOps,
      String.reduceEq, ↓reduceIte, abortTrace, atomicTrace, List.append_nil, List.append_assoc, List.cons_append,
      List.nil_append]
  rw [htr]
  have h := abort_safe (trunc := false) (chunks := chunks) (tail := [.openDir dfd, .fsync dfd, .close dfd])
    (fd := fd) k stillOpen hq hwf hfresh hne hk1 hk2
  exact ⟨h.1, h.2.1⟩

/-- `StoreSession` holds the storage's mutex for the whole call (regenerated fact): concurrent
calls on one `FileStorage` are a sequence of saves, covered by `repeated_saves_safe` and by
`publication_discipline_safe`. -/
theorem store_session_is_locked : Facts.C31.storeLocked = true := by decide

/-- The pinned tree's `os.WriteFile` (open `O_TRUNC`, write, close) is *not* crash-atomic: for
every non-empty previous and new session there is a crash point (right after the truncating
open) where the file is empty — neither the previous nor the new session (defect D17). -/
theorem truncate_then_write_unsafe (s0 : FS) (fd : Nat) (path : String) (old : Bytes)
    (chunks : List Bytes) (hold : readCur s0 path = some old) (h1 : old ≠ [])
    (h2 : chunks.flatten ≠ []) :
    ∃ s ∈ crashStates (truncWriteTrace fd path chunks) s0,
      readCur s path ≠ readCur s0 path ∧ readCur s path ≠ some chunks.flatten := by
  obtain ⟨s, hs, hr⟩ := truncWrite_crash_empty s0 fd path old chunks hold
  refine ⟨s, hs, ?_, ?_⟩
  · rw [hr, hold]; intro h; exact h1 (Option.some.inj h).symm
  · rw [hr]; intro h; exact h2 (Option.some.inj h).symm

/-- The fsync before the rename is necessary under power loss: write-temp-then-rename without
it can leave an empty session file. -/
theorem unsynced_rename_unsafe_powerloss (s0 : FS) (fd : Nat) (tmp path : String) (new : Bytes)
    (hfresh : s0.dir tmp = none) (hne : tmp ≠ path) (hnew : new ≠ []) :
    ∃ s ∈ crashStates (unsyncedTrace fd tmp path [new]) s0, ∃ r ∈ plReads s path,
      r = some [] ∧ r ≠ some new :=
  ⟨_, run_mem_crashStates _ _, some [], unsynced_final_plReads s0 fd tmp path new hfresh hne, rfl,
    fun h => hnew (Option.some.inj h).symm⟩

/-- The hypotheses are satisfiable: a directory holding any files, all on disk, is quiescent. -/
theorem initFS_is_quiescent (ents : List (String × Bytes)) (path : String) :
    Quiescent (initFS ents) path := initFS_quiescent ents path

/-- Non-vacuity: a concrete observed-style trace (two chunks, directory sync) passes the shape
check, from a directory that already holds a session and an unrelated file. -/
example :
    isAtomicReplace
      [.openF 5 "s.123.tmp" true true false false, .write 5 [1, 2], .write 5 [3], .fsync 5, .close 5,
        .rename "s.123.tmp" "s", .openDir 5, .fsync 5, .close 5] "s" [1, 2, 3] = true := by decide

example :
    isDurableReplace
      [.openF 5 "s.123.tmp" true true false false, .write 5 [1, 2], .write 5 [3], .fsync 5, .close 5,
        .rename "s.123.tmp" "s", .openDir 5, .fsync 5, .close 5] "s" [1, 2, 3] = true := by decide

/-- Two saves in a row satisfy `SavesOK` from a concrete directory (temporary name reused). -/
example : SavesOK "s" (initFS [("s", [7])])
    [([.openF 5 "t" true true false false, .write 5 [1], .fsync 5, .close 5, .rename "t" "s", .openDir 5,
        .fsync 5, .close 5], [1]),
     ([.openF 5 "t" true true false false, .write 5 [2], .fsync 5, .close 5, .rename "t" "s", .openDir 5,
        .fsync 5, .close 5], [2])] := by
  refine ⟨by decide, ?_, by decide, ?_, trivial⟩
  · intro t ht; cases ht; decide
  · intro t ht; cases ht; decide

/-- A directory built from a listing is well-formed. -/
theorem initFS_is_wellFormed (ents : List (String × Bytes)) : WellFormed (initFS ents) :=
  initFS_wellFormed ents

/-- Non-vacuity of the discipline: the canonical trace is disciplined and publishes exactly the new
content; remove-before-rename, rename-before-fsync and writing in place are not. -/
example : disciplined "s" (initFS [("s", [7])])
    [.openF 5 "t" true true false false, .write 5 [1, 2], .fsync 5, .close 5, .rename "t" "s"] = true ∧
  published "s" (initFS [("s", [7])])
    [.openF 5 "t" true true false false, .write 5 [1, 2], .fsync 5, .close 5, .rename "t" "s"] = [[1, 2]] := by decide
example : disciplined "s" (initFS [("s", [7])])
    [.openF 5 "t" true true false false, .write 5 [1], .fsync 5, .close 5, .unlink "s", .rename "t" "s"] = false := by decide
example : disciplined "s" (initFS [("s", [7])])
    [.openF 5 "t" true true false false, .write 5 [1], .rename "t" "s", .fsync 5, .close 5] = false := by decide
example : disciplined "s" (initFS [("s", [7])]) (truncWriteTrace 5 "s" [[1]]) = false := by decide
/-- two writers interleaved, each disciplined: both contents are published -/
example : disciplined "s" (initFS [("s", [7])])
    [.openF 5 "t" true true false false, .openF 6 "u" true true false false, .write 6 [2], .write 5 [1], .fsync 5,
      .fsync 6, .close 6, .rename "u" "s", .close 5, .rename "t" "s"] = true := by decide

example : readCur (initFS [("other", [9]), ("s", [7, 7])]) "s" = some [7, 7] := by decide

/-- The truncating trace does not pass the shape check. -/
example : isAtomicReplace (truncWriteTrace 5 "s" [[1, 2, 3]]) "s" [1, 2, 3] = false := by decide

end TdModel.C31
