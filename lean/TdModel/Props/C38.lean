/-
C38 — Bot-API file ids round-trip for every file id value.
Property theorems only (helper lemmas live in TdModel/Lemmas).
-/
import TdModel.Lemmas.C38
import TdModel.Lemmas.Bin

namespace TdModel.C38
open TdModel TdModel.Bin

/-- RLE layer: every byte string, including arbitrarily long zero runs, round-trips. -/
theorem rle_roundtrip (s : Bytes) : rleDecode (rleEncode s) = s := by
  unfold rleDecode rleEncode
  rw [rleDec_rleEnc s 0 (by omega)]
  simp

/-- Hence the RLE layer never maps two byte strings to the same encoding (no two file ids can
collide through it, whatever their zero runs). -/
theorem rle_injective (a b : Bytes) (h : rleEncode a = rleEncode b) : a = b := by
  have := congrArg rleDecode h
  rwa [rle_roundtrip, rle_roundtrip] at this

/-- The loop body of `rleEncode` obtained from the source by symbolic execution (`rleEnc`, what
the driver runs and `rle_roundtrip` is about) is the readable transliteration `rleEncRef`; and
`rleDecode` is the pinned loop. -/
theorem rle_source_is_ref (s : Bytes) : rleEncode s = rleEncRef 0 s ∧ Facts.C38.rleDecodeShape = true :=
  ⟨rleEnc_eq_ref s 0 (by omega), by decide⟩

/-- The pre-fix encoder (byte counter wrapping at 256) loses a run of 256 zeros. -/
theorem rle_wrap_counterexample :
    rleDecode (rleEncWrap 0 (List.replicate 256 0 ++ [7])) = [7] := by
  rcases rleEncWrap_zero_run 256 0 [7] with h | ⟨h, _⟩
  · rw [h]; decide
  · omega

/-- Whole file ids: every canonical file id value (any of the 18 types, any DC / id / access hash
bit patterns, file reference of any content and length < 2^24 incl. long zero runs, URL, every
photo-size source) survives `EncodeFileID` followed by `DecodeFileID` (base64 excluded: it is a
bijection of `encoding/base64`, trusted). -/
theorem fileid_roundtrip (f : FileID) (hc : f.canon) : decodeRaw (encodeRaw f) = .ok f := by
  unfold decodeRaw encodeRaw
  rw [rleDecode_rleEncode]
  have hl := encodeLatest_length f
  have h4 : (UInt8.ofNat persistentIDVersion).toNat = 4 := by decide
  simp only [List.length_append, List.length_singleton, List.getLast?_append, List.getLast?_singleton,
    List.dropLast_concat]
  simp [Facts.C38.persistentIDVersionOld, Facts.C38.persistentIDVersionMap, persistentIDVersion,
    Facts.C38.persistentIDVersion, decodeLatest_roundtrip f hc]
  omega

/-- `EncodeFileID` is injective on canonical file ids: two different values never share a string. -/
theorem encode_injective (f g : FileID) (hf : f.canon) (hg : g.canon) (h : encodeRaw f = encodeRaw g) : f = g := by
  have h1 := fileid_roundtrip f hf
  have h2 := fileid_roundtrip g hg
  rw [h] at h1
  rw [h1] at h2
  exact Except.ok.inj h2

/-- `DecodeFileID` never panics, for ANY byte string (after base64): with the index and slice
expressions of `DecodeFileID` / `decodeLatestFileID` made explicit (`data[len(data)-1]`,
`data[:len(data)-1]`, `b.Buf[len(b.Buf)-1]` on Go `int`s, third outcome `panic`), the result is
always the `ok`/`err` result of the total model — in particular every legacy sub-version (< 32,
< 22, < 4) and every truncation decodes to a value or an error. -/
theorem decode_total (data : Bytes) :
    decodeRawP data = POut.ofExcept (decodeRaw data) ∧ decodeRawP data ≠ POut.panic := by
  refine ⟨decodeRawP_eq data, ?_⟩
  rw [decodeRawP_eq]
  cases decodeRaw data <;> simp [POut.ofExcept]

/-- …and the field reads underneath (`bin.Buffer.Uint32/Long/Bytes`) never panic either. -/
theorem reads_never_panic (b : Bytes) :
    getU32P b ≠ Out.panic ∧ getU64P b ≠ Out.panic ∧ getBytesP b ≠ Out.panic := by
  rw [getU32P_eq, getU64P_eq, getBytesP_eq]
  exact ⟨Out.ofExcept_ne_panic _, Out.ofExcept_ne_panic _, Out.ofExcept_ne_panic _⟩

/-- Error classes of `DecodeFileID` on the RLE-decoded data `d`: fewer than 2 bytes → "too small";
version byte 2 or 3 → "unsupported"; any version byte other than 2, 3, 4 → "unknown version". -/
theorem decode_error_classes (data : Bytes) :
    ((rleDecode data).length < 2 → decodeRaw data = .error .tooSmall) ∧
    (∀ v, 2 ≤ (rleDecode data).length → (rleDecode data).getLast? = some v →
      ((v = 2 ∨ v = 3) → decodeRaw data = .error .unsupported) ∧
      ((v ≠ 2 ∧ v ≠ 3 ∧ v ≠ 4) → decodeRaw data = .error .unknownVersion)) := by
  refine ⟨?_, ?_⟩
  · intro h; simp [decodeRaw, h]
  · intro v hl hv
    have hnl : ¬ (rleDecode data).length < 2 := by omega
    refine ⟨?_, ?_⟩
    · intro h
      rcases h with rfl | rfl <;>
        simp [decodeRaw, hnl, hv, Facts.C38.persistentIDVersionOld, Facts.C38.persistentIDVersionMap]
    · intro ⟨h2, h3, h4⟩
      have e2 : ¬ v.toNat = 2 := fun h => h2 (UInt8.toNat_inj.mp (by simpa using h))
      have e3 : ¬ v.toNat = 3 := fun h => h3 (UInt8.toNat_inj.mp (by simpa using h))
      have e4 : ¬ v.toNat = 4 := fun h => h4 (UInt8.toNat_inj.mp (by simpa using h))
      simp [decodeRaw, hnl, hv, Facts.C38.persistentIDVersionOld, Facts.C38.persistentIDVersionMap,
        persistentIDVersion, Facts.C38.persistentIDVersion, e2, e3, e4]

/-- The ids built by `FromDocument` (whatever the attribute list), `FromPhoto` and `FromChatPhoto`
from in-range API values are canonical, hence survive `EncodeFileID`/`DecodeFileID`. -/
theorem constructors_roundtrip :
    (∀ attrs dc id ah ref, dc < 2 ^ 32 → id < 2 ^ 64 → ah < 2 ^ 64 → List.length ref < 2 ^ 24 →
      decodeRaw (encodeRaw (fromDocument attrs dc id ah ref)) = .ok (fromDocument attrs dc id ah ref)) ∧
    (∀ thumb dc id ah ref, thumb < 2 ^ 32 → dc < 2 ^ 32 → id < 2 ^ 64 → ah < 2 ^ 64 → List.length ref < 2 ^ 24 →
      decodeRaw (encodeRaw (fromPhoto thumb dc id ah ref)) = .ok (fromPhoto thumb dc id ah ref)) ∧
    (∀ big peer ah dc pid, peer < 2 ^ 64 → ah < 2 ^ 64 → dc < 2 ^ 32 → pid < 2 ^ 64 →
      decodeRaw (encodeRaw (fromChatPhoto big peer ah dc pid)) = .ok (fromChatPhoto big peer ah dc pid)) :=
  ⟨fun attrs dc id ah ref h1 h2 h3 h4 => fileid_roundtrip _ (fromDocument_canon attrs dc id ah ref h1 h2 h3 h4),
   fun thumb dc id ah ref h0 h1 h2 h3 h4 => fileid_roundtrip _ (fromPhoto_canon thumb dc id ah ref h0 h1 h2 h3 h4),
   fun big peer ah dc pid h0 h1 h2 h3 => fileid_roundtrip _ (fromChatPhoto_canon big peer ah dc pid h0 h1 h2 h3)⟩

/-- The hand-transliterated glue — `EncodeFileID` (encode, append version 4, RLE, base64url),
`DecodeFileID` (length check, version switch, slice), the base64 variant, and the flag arithmetic on
the type word in `encodeLatestFileID` / `decodeLatestFileID` — still has the source text the model
was written from.  Fails closed (names the changed piece). -/
theorem glue_source_unchanged : Facts.C38.changedGlue = [] := by decide

/-- The wire programs regenerated from the source on this run, spelled out: field order and
widths of `encodeLatestFileID` / `decodeLatestFileID` (`(cond, kind, field)`, see Model/C38.lean)
and the rows of the two `switch`es over the photo size source type.  The model INTERPRETS the
regenerated tables; this theorem pins them to the layout the proofs were written for (TDLib's
file-id layout), so a reordered, dropped or re-typed field breaks here with a readable diff. -/
theorem wire_tables_spec :
    Facts.C38.encLatest = [(0, 4, 0), (0, 4, 1), (1, 1, 2), (2, 1, 3), (2, 9, 0), (0, 8, 4), (0, 8, 5), (3, 7, 6), (0, 2, 7)] ∧
    Facts.C38.decLatest = [(0, 4, 0), (0, 4, 1), (1, 1, 2), (2, 1, 3), (2, 9, 0), (0, 8, 4), (0, 8, 5), (4, 9, 0), (0, 7, 6), (0, 9, 0)] ∧
    Facts.C38.encPhotoTypes = [0, 2, 1] ∧ Facts.C38.decPhotoTypes = [0, 2, 1] ∧
    Facts.C38.pssEncodeHead = [(0, 4, 0)] ∧
    Facts.C38.pssEncodeSwitch =
      [([0], [(0, 8, 3)]), ([1], [(0, 4, 4), (0, 4, 5)]), ([3, 2], [(0, 8, 6), (0, 8, 7)]), ([4], [(0, 8, 8), (0, 8, 9)]),
       ([5], [(0, 8, 1), (0, 8, 3), (0, 4, 2)]), ([7, 6], [(0, 8, 6), (0, 8, 7), (0, 8, 1), (0, 4, 2)]),
       ([8], [(0, 8, 8), (0, 8, 9), (0, 8, 1), (0, 4, 2)]), ([9], [(0, 8, 8), (0, 8, 9), (0, 4, 10)])] ∧
    Facts.C38.pssDecodeSwitch = Facts.C38.pssEncodeSwitch ∧
    Facts.C38.pssDecode =
      [(32, 8, 1), (22, 8, 3), (22, 4, 2), (22, 9, 0), (4256, 4, 0), (256, 6, 0), (22032, 4, 2), (256, 9, 0)] := by
  decide

/-- Non-vacuity of `fileid_roundtrip`: a photo with a 300-zero file reference and a legacy
dialog-photo source, and a web document, are canonical. -/
example :
    let f : FileID := { type := 2, dc := 2, id := 0xFFFFFFFFFFFFFFFF, accessHash := 0x100, fileRef := List.replicate 300 0 ++ [7],
                        pss := { type := 6, dialogID := 0xFFFFFFFF00000000, dialogAH := 5, volumeID := 9, localID := 0xFFFFFFFF } }
    f.canon ∧ decodeRaw (encodeRaw f) = .ok f := by
  intro f
  have hc : f.canon :=
    ⟨by decide, by decide, by decide, by decide,
     by show (List.replicate 300 (0 : UInt8) ++ [7]).length < 2 ^ 24
        simp only [List.length_append, List.length_replicate, List.length_singleton]; omega,
     by decide, by decide⟩
  exact ⟨hc, fileid_roundtrip f hc⟩

example :
    let f : FileID := { type := 5, dc := 4, url := [104, 116, 116, 112], fileRef := [0, 0, 1] }
    f.canon ∧ decodeRaw (encodeRaw f) = .ok f := by
  intro f
  have hc : f.canon := by decide
  exact ⟨hc, fileid_roundtrip f hc⟩

/-- Non-vacuity: the round-trip covers a run longer than the counter's range. -/
example : rleDecode (rleEncode (List.replicate 300 0 ++ [7])) = List.replicate 300 0 ++ [7] :=
  rle_roundtrip _

end TdModel.C38
