/-
C38 — Bot-API file ids round-trip for every file id value.
Property theorems only (helper lemmas live in TdModel/Lemmas).
-/
import TdModel.Lemmas.C38

namespace TdModel.C38
open TdModel TdModel.Bin

/-- RLE layer: every byte string, including arbitrarily long zero runs, round-trips. -/
theorem rle_roundtrip (s : Bytes) : rleDecode (rleEncode s) = s := by
  unfold rleDecode rleEncode
  rw [rleDec_rleEnc s 0 (by omega)]
  simp

/-- The pre-fix encoder (byte counter wrapping at 256) loses a run of 256 zeros. -/
theorem rle_wrap_counterexample :
    rleDecode (rleEncWrap 0 (List.replicate 256 0 ++ [7])) = [7] := by
  rcases rleEncWrap_zero_run 256 0 [7] with h | ⟨h, _⟩
  · rw [h]; decide
  · omega

/-- Whole file ids: every canonical file id value (any of the 18 types, any DC / id / access hash
bit patterns, file reference of any content and length < 2^24 incl. long zero runs, URL, every
photo-size source) survives `EncodeFileID` followed by `DecodeFileID` (base64 excluded: it is a
bijection of `encoding/base64`, trusted). -/
theorem fileid_roundtrip (f : FileID) (hc : f.canon) : decodeRaw (encodeRaw f) = .ok f := by
  unfold decodeRaw encodeRaw
  rw [rleDecode_rleEncode]
  have hl := encodeLatest_length f
  have h4 : (UInt8.ofNat persistentIDVersion).toNat = 4 := by decide
  simp only [List.length_append, List.length_singleton, List.getLast?_append, List.getLast?_singleton,
    List.dropLast_concat]
  simp [Facts.C38.persistentIDVersionOld, Facts.C38.persistentIDVersionMap, persistentIDVersion,
    Facts.C38.persistentIDVersion, decodeLatest_roundtrip f hc]
  omega

/-- Non-vacuity of `fileid_roundtrip`: a photo with a 300-zero file reference and a legacy
dialog-photo source, and a web document, are canonical. -/
example :
    let f : FileID := { type := 2, dc := 2, id := 0xFFFFFFFFFFFFFFFF, accessHash := 0x100, fileRef := List.replicate 300 0 ++ [7],
                        pss := { type := 6, dialogID := 0xFFFFFFFF00000000, dialogAH := 5, volumeID := 9, localID := 0xFFFFFFFF } }
    f.canon ∧ decodeRaw (encodeRaw f) = .ok f := by
  intro f
  have hc : f.canon :=
    ⟨by decide, by decide, by decide, by decide,
     by show (List.replicate 300 (0 : UInt8) ++ [7]).length < 2 ^ 24
        simp only [List.length_append, List.length_replicate, List.length_singleton]; omega,
     by decide, by decide⟩
  exact ⟨hc, fileid_roundtrip f hc⟩

example :
    let f : FileID := { type := 5, dc := 4, url := [104, 116, 116, 112], fileRef := [0, 0, 1] }
    f.canon ∧ decodeRaw (encodeRaw f) = .ok f := by
  intro f
  have hc : f.canon := by decide
  exact ⟨hc, fileid_roundtrip f hc⟩

/-- Non-vacuity: the round-trip covers a run longer than the counter's range. -/
example : rleDecode (rleEncode (List.replicate 300 0 ++ [7])) = List.replicate 300 0 ++ [7] :=
  rle_roundtrip _

end TdModel.C38
