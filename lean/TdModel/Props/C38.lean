/-
C38 — Bot-API file ids round-trip for every file id value.
Property theorems only (helper lemmas live in TdModel/Lemmas).
-/
import TdModel.Lemmas.C38

namespace TdModel.C38
open TdModel TdModel.Bin

/-- RLE layer: every byte string, including arbitrarily long zero runs, round-trips. -/
theorem rle_roundtrip (s : Bytes) : rleDecode (rleEncode s) = s := by
  unfold rleDecode rleEncode
  rw [rleDec_rleEnc s 0 (by omega)]
  simp

/-- The pre-fix encoder (byte counter wrapping at 256) loses a run of 256 zeros. -/
theorem rle_wrap_counterexample :
    rleDecode (rleEncWrap 0 (List.replicate 256 0 ++ [7])) = [7] := by
  rcases rleEncWrap_zero_run 256 0 [7] with h | ⟨h, _⟩
  · rw [h]; decide
  · omega

/-- Non-vacuity: the round-trip covers a run longer than the counter's range. -/
example : rleDecode (rleEncode (List.replicate 300 0 ++ [7])) = List.replicate 300 0 ++ [7] :=
  rle_roundtrip _

end TdModel.C38
