/-
C22 — message containers, RPC result wrappers, unencrypted messages and gzip-packed objects decode
back to what was encoded; gzip decompression never yields 10 MiB or more (it fails instead);
malformed containers / lengths are errors, never panics.

Property theorems only (helper lemmas: TdModel/Lemmas/C22.lean, TdModel/Lemmas/Bin.lean).
Model: TdModel/Model/C22.lean over the TL primitive model; gzip is a parameter `G : Gz` with the
single law `gunz (gz d) = (d, clean)`.
-/
import TdModel.Lemmas.C22

namespace TdModel.C22
open TdModel TdModel.Bin

/-! ## Facts regenerated from /repo/proto and /repo/mt -/

/-- Type ids: proto's and the generated mt twins' agree and are the schema's. -/
theorem facts_type_ids :
    Facts.C22.messageContainerTypeID = 0x73f1f8dc ∧ Facts.C22.gzipTypeID = 0x3072cfa1 ∧
    Facts.C22.resultTypeID = 0xf35c6d01 ∧
    Facts.C22.mtMsgContainerTypeID = Facts.C22.messageContainerTypeID ∧
    Facts.C22.mtGzipPackedTypeID = Facts.C22.gzipTypeID ∧ Facts.C22.mtRPCResultTypeID = Facts.C22.resultTypeID ∧
    Facts.C22.mtMessageTypeID = 0x5bb8e511 ∧ Facts.C22.preallocateLimit = 1024 := by decide

/-- The size checks, *translated from the Go expressions* (the model calls these definitions):
`Message.Encode` and `Message.Decode` refuse exactly the lengths outside 0..1024·1024; the
`io.LimitReader` argument of `GZIP.Decode` is 1024·1024·10 and the bomb check fires exactly from
that total on.  A refactoring that keeps the meaning (named constant, other spelling) keeps these
theorems; a changed bound or comparison does not. -/
theorem facts_limits :
    (∀ n : Int, Facts.C22.msgLenInvalidEnc n = true ↔ (n < 0 ∨ n > 1024 * 1024)) ∧
    (∀ n : Int, Facts.C22.msgLenInvalidDec n = true ↔ (n < 0 ∨ n > 1024 * 1024)) ∧
    Facts.C22.gzipLimitArg = 1024 * 1024 * 10 ∧
    (∀ n : Int, Facts.C22.gzipBomb n = true ↔ n ≥ 1024 * 1024 * 10) ∧
    (∀ n : Int, Facts.C22.unencAuthKeyBad n = true ↔ n ≠ 0) ∧
    (∀ n : Int, Facts.C22.unencLenNegative n = true ↔ n < 0) ∧
    (∀ n l : Int, Facts.C22.unencLenBeyond n l = true ↔ n > l) ∧
    (∀ i n : Int, Facts.C22.containerLoopCond i n = true ↔ i < n) := by
  refine ⟨?_, ?_, by decide, ?_, ?_, ?_, ?_, ?_⟩
  · intro n; simp [Facts.C22.msgLenInvalidEnc]
  · intro n; simp [Facts.C22.msgLenInvalidDec]
  · intro n; simp [Facts.C22.gzipBomb]
  · intro n; simp [Facts.C22.unencAuthKeyBad]
  · intro n; simp [Facts.C22.unencLenNegative]
  · intro n l; simp [Facts.C22.unencLenBeyond]
  · intro i n; simp [Facts.C22.containerLoopCond]

/-- Write orders regenerated from the AST and *interpreted* by the model (`writeOps`): for every
input the interpreted encoders are the transliterated ones used in the round-trip theorems.  So the
order of the fields, their widths (PutInt / PutLong / PutInt32), the type ids written and the
fields they come from are those of the current source. -/
theorem encoders_regenerated :
    (∀ m, encodeMessageG m = encodeMessage m) ∧ (∀ ms, encodeContainerG ms = encodeContainer ms) ∧
    (∀ x, encodeResultG x = some (encodeResult x)) ∧ (∀ u, encodeUnencryptedG u = some (encodeUnencrypted u)) ∧
    (∀ c, gzipFrameG c = some (gzipFrame c)) :=
  ⟨encodeMessageG_eq, encodeContainerG_eq, encodeResultG_eq, encodeUnencryptedG_eq, gzipFrameG_eq⟩

/-- Read order, widths and target fields of `Message.Decode`, regenerated and interpreted
(`readStores`): equal to the transliterated decoder on every input. -/
theorem message_decoder_regenerated (b : Bytes) : decodeMessageG b = decodeMessage b := decodeMessageG_eq b

/-- Read orders of the other decoders (method, what the result is stored into), as extracted from
the AST — these are the sequences the transliterated decoders follow. -/
theorem facts_read_orders :
    Facts.C22.opsContainerDecode = [("ConsumeID", "const", "", 0x73f1f8dc), ("Int", "read", "", 0)] ∧
    Facts.C22.opsResultDecode = [("ConsumeID", "const", "", 0xf35c6d01), ("Long", "store", "RequestMessageID", 0),
      ("Skip", "expr", "", 0)] ∧
    Facts.C22.opsUnencryptedDecode = [("Long", "read", "", 0), ("Long", "store", "MessageID", 0), ("Int32", "read", "", 0),
      ("Len", "read", "", 0), ("ConsumeN", "fields", "MessageData,expr", 0)] ∧
    Facts.C22.opsGzipDecode = [("ConsumeID", "const", "", 0x3072cfa1), ("Bytes", "read", "", 0)] ∧
    Facts.C22.opsMessageDecode = [("Long", "store", "ID", 0), ("Int", "store", "SeqNo", 0), ("Int", "store", "Bytes", 0),
      ("ConsumeN", "fields", "Body,Bytes", 0)] := by decide

/-! ## Round trips -/

/-- **container_roundtrip.**  Every list of fewer than 2^31 messages (any int64 id, any int32 seqno,
`Bytes` = body length ≤ 2^20 = 1 MiB) encodes without error, and decoding the encoding followed by
any bytes returns exactly the messages and leaves exactly those bytes. -/
theorem container_roundtrip (ms : List Message) (rest : Bytes)
    (h : ∀ m ∈ ms, m.WF ∧ m.body.length ≤ 1048576) (hc : ms.length < 2 ^ 31) :
    ∃ x, encodeContainer ms = .ok x ∧ decodeContainer (x ++ rest) = .ok (ms, rest) :=
  decodeContainer_encodeContainer ms h hc rest

/-- Corollary: two well-formed message lists never share an encoding, and a container followed by
other data is cut at exactly one place (`x ++ r₁ = y ++ r₂` forces the same messages and the same
remainders) — a receiver cannot attribute a message of one container to another. -/
theorem container_encoding_injective (ms ns : List Message) (x y r₁ r₂ : Bytes)
    (hm : ∀ m ∈ ms, m.WF ∧ m.body.length ≤ 1048576) (hmc : ms.length < 2 ^ 31)
    (hn : ∀ m ∈ ns, m.WF ∧ m.body.length ≤ 1048576) (hnc : ns.length < 2 ^ 31)
    (hx : encodeContainer ms = .ok x) (hy : encodeContainer ns = .ok y) (h : x ++ r₁ = y ++ r₂) :
    ms = ns ∧ r₁ = r₂ := by
  obtain ⟨x', hx', dx⟩ := container_roundtrip ms r₁ hm hmc
  obtain ⟨y', hy', dy⟩ := container_roundtrip ns r₂ hn hnc
  rw [hx] at hx'; rw [hy] at hy'
  injection hx' with hx'; injection hy' with hy'
  subst hx'; subst hy'
  rw [h, dy] at dx
  injection dx with dx; injection dx with a b
  exact ⟨a.symm, b.symm⟩

/-- One message (element of a container). -/
theorem message_roundtrip (m : Message) (rest : Bytes) (h : m.WF) (hl : m.body.length ≤ 1048576) :
    ∃ x, encodeMessage m = .ok x ∧ decodeMessage (x ++ rest) = .ok (m, rest) :=
  decodeMessage_encodeMessage m h hl rest

/-- The 1 MiB limit on the encode side: a length outside 0..2^20 is refused, for the message and
for any container holding it. -/
theorem message_limit_encode (ms : List Message) (m : Message) (hm : m ∈ ms)
    (h : m.bytes > 1048576 ∨ m.bytes < 0) :
    encodeMessage m = .error errTooBig ∧ ∃ e, encodeContainer ms = .error e :=
  ⟨encodeMessage_too_big m h, encodeContainer_too_big ms m hm h⟩

/-- The 1 MiB limit on the decode side: a length field outside 0..2^20 is an error whatever
follows (no allocation, no read). -/
theorem message_limit_decode (id seq n : Int) (tail : Bytes)
    (hid : -2 ^ 63 ≤ id ∧ id < 2 ^ 63) (hseq : -2 ^ 31 ≤ seq ∧ seq < 2 ^ 31) (hn : -2 ^ 31 ≤ n ∧ n < 2 ^ 31)
    (h : n > 1048576 ∨ n < 0) :
    decodeMessage (putInt64 id ++ putInt32 seq ++ putInt32 n ++ tail) = .error errTooBig := by
  rw [decodeMessage_fields id seq n tail hid hseq hn]
  rw [(msgLenInvalidDec_iff n).mpr (by omega)]
  simp only [if_true]

/-- **result_roundtrip.**  Any request id, any body (aligned or not, any length): decoding the
encoding gives the same result and consumes the whole buffer. -/
theorem result_roundtrip (x : Result) (h : -2 ^ 63 ≤ x.reqMsgID ∧ x.reqMsgID < 2 ^ 63) :
    decodeResult (encodeResult x) = .ok (x, []) := decodeResult_encodeResult x h

/-- **unencrypted_roundtrip.**  Any message id, any payload shorter than 2^31. -/
theorem unencrypted_roundtrip (u : Unencrypted) (rest : Bytes)
    (h : -2 ^ 63 ≤ u.messageID ∧ u.messageID < 2 ^ 63) (hl : u.data.length < 2 ^ 31) :
    decodeUnencrypted (encodeUnencrypted u ++ rest) = .ok (u, rest) :=
  decodeUnencrypted_encodeUnencrypted u h hl rest

/-- **gzip_roundtrip.**  For every lawful gzip (`gunz (gz d) = d`), every payload shorter than
10 MiB whose compressed form fits a TL byte string (< 2^24; explicit hypothesis about the
primitive) decodes back to itself, leaving the bytes that follow. -/
theorem gzip_roundtrip (G : Gz) (hG : LawfulGz G) (d rest : Bytes)
    (hd : d.length < 10 * 2 ^ 20) (hc : (G.gz d).length < 2 ^ 24) :
    decodeGzip G (encodeGzip G d ++ rest) = .ok (d, rest) := by
  unfold decodeGzip encodeGzip
  rw [gzipUnframe_gzipFrame _ _ hc]
  simp only [hG.hdr_gz d, hG.gunz_gz d, Bool.not_true, Bool.false_eq_true, if_false]
  rw [gunzLimited_clean d (by omega)]

/-! ## The other direction: decoding is injective -/

/-- **Whatever the decoders accept re-encodes to exactly the bytes they consumed**: an accepted
message always has `Bytes` = body length ≤ 2^20 and `Encode` gives back the consumed bytes; the
same for a container announcing as many messages as it holds (count ≥ 1, or an explicit 0) and for
a result.  Together with the round-trip theorems: `Encode` and `Decode` are mutually inverse on
the valid values, so two different byte strings never decode to the same value. -/
theorem decode_then_encode (b r : Bytes) :
    (∀ m, decodeMessage b = .ok (m, r) →
      ∃ x, encodeMessage m = .ok x ∧ x ++ r = b ∧ m.bytes = m.body.length ∧ m.body.length ≤ 1048576) ∧
    (∀ ms, decodeContainer b = .ok (ms, r) → ms ≠ [] → ∃ x, encodeContainer ms = .ok x ∧ x ++ r = b) ∧
    (∀ x, decodeResult b = .ok (x, r) → encodeResult x = b ∧ r = []) :=
  ⟨fun _ h => decodeMessage_inv h, fun _ h hne => decodeContainer_inv h (Or.inl hne), fun _ h => decodeResult_inv h⟩

/-! ## Bounded expansion -/

/-- **gzip_bounded.**  Whatever the bytes and whatever the decompressor does, a successful decode
returns less than 10·2^20 bytes, and they are what the decompressor produced with a clean end. -/
theorem gzip_bounded (G : Gz) (b d r : Bytes) (h : decodeGzip G b = .ok (d, r)) :
    d.length < 10 * 2 ^ 20 ∧ ∃ buf, gzipUnframe b = .ok (buf, r) ∧ G.hdrOK buf = true ∧ G.gunz buf = (d, true) := by
  unfold decodeGzip at h
  cases hu : gzipUnframe b with
  | error e => simp [hu] at h
  | ok p =>
    obtain ⟨buf, rest⟩ := p
    simp only [hu] at h
    cases hh : G.hdrOK buf with
    | false => simp [hh] at h
    | true =>
      simp only [hh, Bool.not_true, Bool.false_eq_true, if_false] at h
      cases hg : gunzLimited (G.gunz buf) with
      | error e => simp [hg] at h
      | ok d' =>
        simp only [hg] at h
        injection h with h; injection h with h1 h2
        subst h1 h2
        obtain ⟨e1, e2, e3⟩ := gunzLimited_ok hg
        refine ⟨by rw [e1]; omega, buf, rfl, hh, ?_⟩
        rw [e1]
        cases hgz : G.gunz buf with
        | mk o c => rw [hgz] at e3; simp only at e3; rw [e3]

/-- **gzip_bomb_rejected.**  If the stream would decompress to 10 MiB or more (a bomb of any size,
clean or not) the decode is the bomb error; and at exactly the limit too (`>=`). -/
theorem gzip_bomb_rejected (G : Gz) (c rest : Bytes) (hc : c.length < 2 ^ 24) (hh : G.hdrOK c = true)
    (h : (G.gunz c).1.length ≥ 10 * 2 ^ 20) :
    decodeGzip G (gzipFrame c ++ rest) = .error errBomb := by
  unfold decodeGzip
  rw [gzipUnframe_gzipFrame _ _ hc]
  simp only [hh, Bool.not_true, Bool.false_eq_true, if_false]
  rw [gunzLimited_bomb _ (by omega)]

/-- A corrupt or truncated stream below the limit is an error as well. -/
theorem gzip_corrupt_rejected (G : Gz) (c rest out : Bytes) (hc : c.length < 2 ^ 24)
    (h : G.gunz c = (out, false)) : ∃ e, decodeGzip G (gzipFrame c ++ rest) = .error e := by
  unfold decodeGzip
  rw [gzipUnframe_gzipFrame _ _ hc]
  simp only [h]
  cases G.hdrOK c with
  | false => exact ⟨_, rfl⟩
  | true =>
    simp only [Bool.not_true, Bool.false_eq_true, if_false]
    by_cases hl : out.length < 10485760
    · rw [gunzLimited_unclean out hl]; exact ⟨_, rfl⟩
    · rw [gunzLimited_bomb (out, false) (by simp only; omega)]; exact ⟨_, rfl⟩

/-- A stream whose gzip header is not accepted is the header error, whatever else it contains. -/
theorem gzip_bad_header_rejected (G : Gz) (c rest : Bytes) (hc : c.length < 2 ^ 24) (hh : G.hdrOK c = false) :
    decodeGzip G (gzipFrame c ++ rest) = .error errGzipHeader := by
  unfold decodeGzip
  rw [gzipUnframe_gzipFrame _ _ hc]
  simp [hh]

/-! ## Totality: malformed input is an error, never a panic

`decode…P` are the transliterations with `make([]byte, n)`, `ConsumeN`, slice expressions and
`LittleEndian.UintXX` carrying Go's run-time checks (`Out.panic`). -/

theorem decoders_never_panic (b : Bytes) :
    decodeMessageP b ≠ .panic ∧ decodeContainerP b ≠ .panic ∧ decodeResultP b ≠ .panic ∧
    decodeUnencryptedP b ≠ .panic ∧ gzipUnframeP b ≠ .panic := by
  refine ⟨?_, ?_, ?_, ?_, ?_⟩
  · rw [decodeMessageP_eq]; exact Out.ofExcept_ne_panic _
  · rw [decodeContainerP_eq]; exact Out.ofExcept_ne_panic _
  · rw [decodeResultP_eq]; exact Out.ofExcept_ne_panic _
  · rw [decodeUnencryptedP_eq]; exact Out.ofExcept_ne_panic _
  · rw [gzipUnframeP_eq]; exact Out.ofExcept_ne_panic _

theorem panic_explicit_agrees (b : Bytes) :
    decodeMessageP b = Out.ofExcept (decodeMessage b) ∧ decodeContainerP b = Out.ofExcept (decodeContainer b) ∧
    decodeResultP b = Out.ofExcept (decodeResult b) ∧ decodeUnencryptedP b = Out.ofExcept (decodeUnencrypted b) ∧
    gzipUnframeP b = Out.ofExcept (gzipUnframe b) :=
  ⟨decodeMessageP_eq b, decodeContainerP_eq b, decodeResultP_eq b, decodeUnencryptedP_eq b, gzipUnframeP_eq b⟩

/-- A container announcing messages (count up to 2^31 − 1) with less than one 16-byte message
header behind it is an error. -/
theorem container_count_beyond_input (n : Int) (tail : Bytes) (hn : 0 < n ∧ n < 2 ^ 31) (ht : tail.length < 16) :
    ∃ e, decodeContainer (putU32 0x73f1f8dc ++ putInt32 n ++ tail) = .error e := by
  have e : (0x73f1f8dc : Nat) = containerID := rfl
  rw [e]
  unfold decodeContainer
  rw [List.append_assoc, consumeID_putU32 _ _ containerID_lt]
  simp only
  rw [getInt32_putInt32 _ _ (by omega)]
  simp only
  exact decodeMessages_short n.toNat tail (by omega) ht

/-- A non-positive count decodes to the empty container (the loop does not run). -/
theorem container_nonpositive_count (n : Int) (tail : Bytes) (hn : -2 ^ 31 ≤ n ∧ n ≤ 0) :
    decodeContainer (putU32 0x73f1f8dc ++ putInt32 n ++ tail) = .ok ([], tail) := by
  have e : (0x73f1f8dc : Nat) = containerID := rfl
  rw [e]
  unfold decodeContainer
  rw [List.append_assoc, consumeID_putU32 _ _ containerID_lt]
  simp only
  rw [getInt32_putInt32 _ _ (by omega)]
  simp only
  have : n.toNat = 0 := by omega
  rw [this]
  rfl

/-- Unencrypted message: non-zero auth_key_id, negative length and a length beyond the input are
errors. -/
theorem unencrypted_malformed (ak mid n : Int) (tail : Bytes)
    (hak : -2 ^ 63 ≤ ak ∧ ak < 2 ^ 63) (hmid : -2 ^ 63 ≤ mid ∧ mid < 2 ^ 63) (hn : -2 ^ 31 ≤ n ∧ n < 2 ^ 31) :
    (ak ≠ 0 → decodeUnencrypted (putInt64 ak ++ putInt64 mid ++ putInt32 n ++ tail) = .error errAuthKey) ∧
    (n < 0 → decodeUnencrypted (putInt64 0 ++ putInt64 mid ++ putInt32 n ++ tail) = .error .invalidLength) ∧
    (n > tail.length → decodeUnencrypted (putInt64 0 ++ putInt64 mid ++ putInt32 n ++ tail) = .error .eof) := by
  refine ⟨?_, ?_, ?_⟩
  · intro h
    unfold decodeUnencrypted
    rw [List.append_assoc, List.append_assoc, getInt64_putInt64 ak _ hak]
    have : Facts.C22.unencAuthKeyBad ak = true := by simp [Facts.C22.unencAuthKeyBad, h]
    simp only [this, if_true]
  · intro h
    unfold decodeUnencrypted
    rw [List.append_assoc, List.append_assoc, getInt64_putInt64 0 _ (by omega)]
    have hz : Facts.C22.unencAuthKeyBad 0 = false := by decide
    simp only [hz, Bool.false_eq_true, if_false]
    rw [getInt64_putInt64 mid _ hmid]
    simp only
    rw [getInt32_putInt32 n _ hn]
    have : Facts.C22.unencLenNegative n = true := by simp [Facts.C22.unencLenNegative, h]
    simp only [this, if_true]
  · intro h
    unfold decodeUnencrypted
    rw [List.append_assoc, List.append_assoc, getInt64_putInt64 0 _ (by omega)]
    have hz : Facts.C22.unencAuthKeyBad 0 = false := by decide
    simp only [hz, Bool.false_eq_true, if_false]
    rw [getInt64_putInt64 mid _ hmid]
    simp only
    rw [getInt32_putInt32 n _ hn]
    have h0 : Facts.C22.unencLenNegative n = false := by simp [Facts.C22.unencLenNegative]; omega
    have h1 : Facts.C22.unencLenBeyond n (tail.length : Int) = true := by simp [Facts.C22.unencLenBeyond, h]
    simp only [h0, Bool.false_eq_true, if_false, h1, if_true]

/-! ## The generated twins in /repo/mt -/

/-- `mt.GzipPacked`, `mt.Message` (inside a container), `mt.MsgContainer` and `mt.RPCResult` round-trip
for every value (ids/seqnos/lengths in their Go ranges, packed data shorter than 2^24), leaving
the bytes that follow. -/
theorem mt_roundtrips (ms : List MtMessage) (id : Int) (p rest : Bytes)
    (h : ∀ m ∈ ms, m.WF) (hc : ms.length < 2 ^ 31) (hid : -2 ^ 63 ≤ id ∧ id < 2 ^ 63) (hp : p.length < 2 ^ 24) :
    mtDecodeGzip (mtEncodeGzip p ++ rest) = .ok (p, rest) ∧
    mtDecodeContainer (mtEncodeContainer ms ++ rest) = .ok (ms, rest) ∧
    mtDecodeResult (mtEncodeResult id p ++ rest) = .ok ((id, p), rest) :=
  ⟨mtDecodeGzip_mtEncodeGzip p rest hp, mtDecodeContainer_mtEncodeContainer ms h hc rest,
   mtDecodeResult_mtEncodeResult id p rest hid hp⟩

/-- **Twins agree.**  A proto container whose message bodies are gzip_packed frames (and whose
lengths are within proto's 1 MiB limit) is, byte for byte, mt's encoding of the twin messages, so
`mt.MsgContainer.Decode` reads proto's containers; the same for `proto.Result` / `mt.RPCResult` and
`proto.GZIP`'s frame / `mt.GzipPacked`. -/
theorem mt_twins_agree (ms : List MtMessage) (id : Int) (p : Bytes)
    (hb : ∀ m ∈ ms, 0 ≤ m.bytes ∧ m.bytes ≤ 1048576) :
    encodeContainer (ms.map MtMessage.toProto) = .ok (mtEncodeContainer ms) ∧
    encodeResult ⟨id, gzipFrame p⟩ = mtEncodeResult id p ∧ gzipFrame p = mtEncodeGzip p := by
  refine ⟨?_, rfl, rfl⟩
  unfold encodeContainer mtEncodeContainer
  rw [encodeMessages_twins ms hb]
  simp [mtContainerID_eq]

/-- The slice capacity `mt.MsgContainer.DecodeBare` pre-allocates on the sender's say-so is below
`bin.PreallocateLimit` = 1024 for every announced count. -/
theorem mt_prealloc_bounded (n : Int) : mtPrealloc n < 1024 := mtPrealloc_lt n

/-! ## Non-vacuity -/

/-- The toy gzip (store) is lawful, so `gzip_roundtrip`'s hypotheses are satisfiable. -/
example : LawfulGz Gz.store := ⟨fun _ => rfl, fun _ => rfl⟩
example : decodeGzip Gz.store (encodeGzip Gz.store [1, 2, 3] ++ [9]) = .ok ([1, 2, 3], [9]) :=
  gzip_roundtrip Gz.store ⟨fun _ => rfl, fun _ => rfl⟩ [1, 2, 3] [9] (by simp) (by simp [Gz.store])
/-- A two-message container with bodies of 4 and 0 bytes. -/
example : ∃ x, encodeContainer [⟨5, 1, 4, [1, 2, 3, 4]⟩, ⟨-7, 2, 0, []⟩] = .ok x ∧
    decodeContainer (x ++ [0xff]) = .ok ([⟨5, 1, 4, [1, 2, 3, 4]⟩, ⟨-7, 2, 0, []⟩], [0xff]) :=
  container_roundtrip _ _ (by
    intro m hm
    simp only [List.mem_cons, List.mem_nil_iff, or_false] at hm
    rcases hm with rfl | rfl
    · exact ⟨⟨by simp, by simp, rfl⟩, by simp⟩
    · exact ⟨⟨by simp, by simp, rfl⟩, by simp⟩) (by simp)

end TdModel.C22
