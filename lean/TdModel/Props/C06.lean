/-
C06 — key derivation matches the MTProto 2.0 and 1.0 specifications.

`Impl.*` interprets the hash inputs and `copy` tables regenerated from crypto/keys.go,
crypto/keys_old.go and crypto/kdf_v1.go; `Spec.*` is the text of the specification
(`substr`, `+`) with its literals 88, 32, 8, 16, 36, 40, 24 / 4, 16, 32, 48, 64, 96, 12.
Property theorems only (helper lemmas: TdModel/Lemmas/C06.lean, C06Bind.lean).
-/
import TdModel.Lemmas.C06
import TdModel.Lemmas.C06Bind

namespace TdModel.C06
open TdModel TdModel.Bin

/-- `x = 0` client → server, `x = 8` server → client (the regenerated `getX` cases). -/
theorem getX_eq_spec (side : Side) : getX side = Spec.x side := by
  cases side <;> rfl

/-- The Go function `getX`, translated to Lean on every run, agrees with the model's `getX` on the two
`Side` constants (`Client = 0`, `Server = 1`, regenerated). -/
theorem getX_translated_eq_model :
    Facts.C06.getX (Facts.C06.sideClient : Nat) = (getX .client : Nat) ∧
    Facts.C06.getX (Facts.C06.sideServer : Nat) = (getX .server : Nat) ∧
    Facts.C06.getX (Facts.C06.sideClient : Nat) = 0 ∧ Facts.C06.getX (Facts.C06.sideServer : Nat) = 8 := by
  decide

/-- `crypto.MessageKey` = `substr (SHA256 (substr (auth_key, 88+x, 32) + plaintext + padding), 8, 16)`,
for every auth key, plaintext and direction. -/
theorem msgKey_impl_eq_spec (P : Prims) (hP : LawfulPrims P) (authKey plain : Bytes) (side : Side) :
    Impl.msgKey P authKey plain side = Spec.msgKey P authKey plain side :=
  msgKey_eq P hP authKey plain side

/-- `crypto.Keys` = the MTProto 2.0 `aes_key`, `aes_iv`, for every auth key, message key and
direction. -/
theorem keys_impl_eq_spec (P : Prims) (hP : LawfulPrims P) (authKey msgKey : Bytes) (side : Side) :
    Impl.keys P authKey msgKey side = Spec.keys P authKey msgKey side :=
  keys_eq P hP authKey msgKey side

/-- `crypto.MessageKeyV1` = `substr (SHA1 (plaintext), 4, 16)`. -/
theorem msgKeyV1_impl_eq_spec (P : Prims) (hP : LawfulPrims P) (plain : Bytes) :
    Impl.msgKeyV1 P plain = Spec.msgKeyV1 P plain :=
  msgKeyV1_eq P hP plain

/-- `crypto.KeysV1` (used for the temp-key binding message) = MTProto 1.0 derivation with `x = 0`. -/
theorem keysV1_impl_eq_spec (P : Prims) (hP : LawfulPrims P) (authKey msgKey : Bytes) :
    Impl.keysV1 P authKey msgKey = Spec.keysV1 P authKey msgKey := by
  unfold Impl.keysV1 Spec.keysV1
  exact v1_eq P hP authKey msgKey Facts.C06.keysV1_x _ _ rfl rfl

/-- `crypto.OldKeys` = MTProto 1.0 derivation, both directions. -/
theorem oldKeys_impl_eq_spec (P : Prims) (hP : LawfulPrims P) (authKey msgKey : Bytes) (side : Side) :
    Impl.oldKeys P authKey msgKey side = Spec.oldKeys P authKey msgKey side := by
  unfold Impl.oldKeys Spec.oldKeys
  rw [getX_eq_spec]
  exact v1_eq P hP authKey msgKey _ _ _ rfl rfl

/-- Shapes: message key 16 bytes, AES key and IV 32 bytes each. -/
theorem spec_lengths (P : Prims) (hP : LawfulPrims P) (authKey msgKey plain : Bytes) (side : Side) :
    (Spec.msgKey P authKey plain side).length = 16 ∧
    (Spec.keys P authKey msgKey side).1.length = 32 ∧ (Spec.keys P authKey msgKey side).2.length = 32 ∧
    (Spec.keysV1 P authKey msgKey).1.length = 32 ∧ (Spec.keysV1 P authKey msgKey).2.length = 32 := by
  simp [Spec.msgKey, Spec.keys, Spec.keysV1, Spec.keysV1At, Spec.msgKeyLarge, Spec.sha256a, Spec.sha256b,
    substr_length, hP.sha256_len, hP.sha1_len]

/-- **Bind layouts.**  The field sequences of `(*BindAuthKeyInner).Encode` and of the envelope written
by `EncryptBindMessage` — regenerated from bind.go and interpreted by the model — are
`bind_auth_key_inner#75a3f765 nonce:long temp_auth_key_id:long perm_auth_key_id:long
temp_session_id:long expires_at:int` and `random:int128 msg_id:long seq_no:int(=0) msg_len:int message`;
the random prefix is 16 bytes and the msg_key is taken before the alignment padding. -/
theorem bind_layout_spec (i : BindInner) (msgID : Nat) (random payload : Bytes) :
    i.encode = leN 4 0x75a3f765 ++ leN 8 i.nonce ++ leN 8 i.tempAuthKeyID ++ leN 8 i.permAuthKeyID ++
      leN 8 i.tempSessionID ++ leN 4 i.expiresAt ∧
    bindPuts Facts.C06.bindEnvelope i msgID random payload =
      random ++ leN 8 msgID ++ leN 4 0 ++ leN 4 payload.length ++ payload ∧
    Facts.C06.bindRandomLen = 16 ∧ Facts.C06.bindBlockSize = 16 ∧ Facts.C06.bindMsgKeyBeforePadding = true :=
  ⟨BindInner.encode_def i, bindEnvelope_def i msgID random payload, rfl, rfl, rfl⟩

/-- The bind message produced by `crypto.EncryptBindMessage` decrypts under the permanent key, with
the *specification's* MTProto 1.0 derivation and `msg_key = substr (sha1 (message_data), 4, 16)`, to
exactly the message id and the bound temp key id, perm key id, nonce, session and expiry; for every
permanent key (not all-zero), random stream of at least 24 bytes and field values in range. -/
theorem bind_roundtrip (P : Prims) (hP : LawfulPrims P) (rnd permKey keyId : Bytes) (msgID : Nat)
    (inner : BindInner) (hk : keyId.length = 8)
    (hz : (permKey.all (· == 0) && keyId.all (· == 0)) = false) (hr : 24 ≤ rnd.length)
    (hm : msgID < 2 ^ 64) (h1 : inner.nonce < 2 ^ 64) (h2 : inner.tempAuthKeyID < 2 ^ 64)
    (h3 : inner.permAuthKeyID < 2 ^ 64) (h4 : inner.tempSessionID < 2 ^ 64) (h5 : inner.expiresAt < 2 ^ 32) :
    ∃ c, encryptBind P rnd permKey keyId msgID inner = .ok c ∧ c.take 8 = keyId ∧ c.length = 104 ∧
      Spec.decryptBind P permKey keyId c = some (msgID, inner) := by
  have hl : (rnd.take 16 ++ putU64 msgID ++ putU32 0 ++ putU32 inner.encode.length ++ inner.encode).length = 72 := by
    simp [putU32_length, putU64_length, BindInner.encode_length]; omega
  have hr16 : (rnd.take 16).length = 16 := by simp; omega
  have hpad : ((rnd.drop 16).take 8).length = 8 := by simp; omega
  have henv := decryptBind_envelope P hP permKey keyId (rnd.take 16) ((rnd.drop 16).take 8) msgID inner hk hr16
    hpad hm h1 h2 h3 h4 h5
  simp only at henv
  unfold encryptBind
  rw [hz, show Facts.C06.bindRandomLen = 16 from rfl, show Facts.C06.bindBlockSize = 16 from rfl,
    show Facts.C06.bindMsgKeyBeforePadding = true from rfl]
  simp only [bindEnvelope_def, Bool.false_eq_true, if_false, if_true, hl]
  have c1 : ¬ rnd.length < 16 := by omega
  have c2 : ¬ (rnd.drop 16).length < 8 := by simp; omega
  have c3 : ¬ (8 : Nat) = 0 := by decide
  simp only [c1, if_false, Nat.reduceMod, Nat.reduceSub, ne_eq, c3, not_false_eq_true, if_true, c2]
  rw [msgKeyV1_impl_eq_spec P hP, keysV1_impl_eq_spec P hP, BindInner.encode_length]
  refine ⟨_, rfl, ?_, ?_, henv⟩
  · rw [List.append_assoc]; exact take_append_len _ _ 8 hk
  · have hmk : (Spec.msgKeyV1 P (rnd.take 16 ++ putU64 msgID ++ putU32 0 ++ putU32 40 ++ inner.encode)).length = 16 := by
      simp [Spec.msgKeyV1, substr_length, hP.sha1_len]
    have hiv : (Spec.keysV1 P permKey (Spec.msgKeyV1 P (rnd.take 16 ++ putU64 msgID ++ putU32 0 ++ putU32 40 ++ inner.encode))).2.length = 32 := by
      simp [Spec.keysV1, Spec.keysV1At, substr_length, hP.sha1_len]
    have hl' : (rnd.take 16 ++ putU64 msgID ++ putU32 0 ++ putU32 40 ++ inner.encode).length = 72 := by
      rw [← BindInner.encode_length inner]; exact hl
    rw [List.length_append, List.length_append, hk, hmk,
      Ige.enc_length _ (hP.aesEnc_len _) _ _ hiv (by rw [List.length_append, hl', hpad]),
      List.length_append, hl', hpad]

/-- **Decision structure of the bind receiver (MTProto 1.0 envelope).**  Whatever the specification-side
receiver accepts has the 24-byte envelope with the permanent key's id, a block-aligned body, and
`msg_key = substr (sha1 (message_data), 4, 16)` over the decrypted envelope up to `32 + msg_len` bytes —
the v1 analogue of `C05.decrypt_ok_iff` (soundness direction). -/
theorem decryptBind_sound (P : Prims) (permKey keyId c : Bytes) (m : Nat) (i : BindInner)
    (h : Spec.decryptBind P permKey keyId c = some (m, i)) :
    24 ≤ c.length ∧ c.take 8 = keyId ∧ (c.length - 24) % 16 = 0 ∧
    ∃ len : Nat,
      Spec.msgKeyV1 P ((Ige.dec (P.aesDec (Spec.keysV1 P permKey ((c.drop 8).take 16)).1)
        (Spec.keysV1 P permKey ((c.drop 8).take 16)).2 (c.drop 24)).take (32 + len)) = (c.drop 8).take 16 := by
  unfold Spec.decryptBind at h
  split at h
  · cases h
  · rename_i hc
    simp only [not_or, Decidable.not_not, Nat.not_lt] at hc
    refine ⟨hc.1, hc.2.1, hc.2.2, ?_⟩
    simp only at h
    split at h
    · split at h
      · split at h
        · split at h
          · rename_i len _ _
            split at h
            · split at h
              · cases h
              · split at h
                · cases h
                · rename_i hk
                  exact ⟨len, by simpa using hk⟩
            · cases h
          · cases h
        · cases h
      · cases h
    · cases h
/-- The small composing functions, statement by statement as read from the source: which arguments
reach the hash helpers (`&authKey, &msgKey, x`; `x = 0` in `KeysV1`), the order of assembly, and that
`aesIV` is `aesKey` with the hashes swapped.  (The byte ranges and copy offsets inside them are the
regenerated tables the `Impl` model interprets; these pins cover the glue around them.) -/
theorem kdf_glue_facts :
    Facts.C06.keysBody = ["x := getX(mode)", "r := make([]byte, 512)", "a := sha256a(r[0:0], &authKey, &msgKey, x)",
      "b := sha256b(r[256:256], &authKey, &msgKey, x)", "aesKey(a, b, &key)", "aesIV(a, b, &iv)", "return key, iv"] ∧
    Facts.C06.messageKeyBody = ["r := make([]byte, 0, 256)", "msgKeyLarge := msgKeyLarge(r, authKey, plaintextPadded, mode)",
      "return messageKey(msgKeyLarge)"] ∧
    Facts.C06.aesIVBody = ["aesKey(sha256b, sha256a, v)"] ∧
    Facts.C06.aesKeyBody = ["copy(v[:8], sha256a[:8])", "copy(v[8:], sha256b[8:16+8])", "copy(v[24:], sha256a[24:24+8])"] ∧
    Facts.C06.messageKeyV1Body = ["sum := sha1.Sum(plaintext)", "copy(v[:], sum[4:20])", "return v"] ∧
    Facts.C06.messageKeyFnBody = ["b := messageKeyLarge[8 : 16+8]", "copy(v[:len(b)], b)", "return v"] ∧
    Facts.C06.keysV1Body.length = 13 ∧
    Facts.C06.keysV1Body.take 5 = ["r := make([]byte, sha1.Size*4)", "a := sha1a(r[0:0], authKey, msgKey, 0)",
      "b := sha1b(r[sha1.Size:sha1.Size], authKey, msgKey, 0)", "c := sha1c(r[2*sha1.Size:2*sha1.Size], authKey, msgKey, 0)",
      "d := sha1d(r[3*sha1.Size:3*sha1.Size], authKey, msgKey, 0)"] :=
  ⟨rfl, rfl, rfl, rfl, rfl, rfl, rfl, rfl⟩

/-- Non-vacuity: a lawful instance exists, and on it the derivation really depends on the direction. -/
example : LawfulPrims Prims.toy := Prims.toy_lawful
example : Spec.msgKey Prims.toy ((List.range 256).map UInt8.ofNat) [1, 2, 3] .client ≠
    Spec.msgKey Prims.toy ((List.range 256).map UInt8.ofNat) [1, 2, 3] .server := by decide

/-- Non-vacuity of `bind_roundtrip`: its hypotheses hold for a concrete key, stream and payload. -/
example : ∃ c, encryptBind Prims.toy (List.replicate 64 0xCD) (List.replicate 256 7) (List.replicate 8 1)
    0x0112233445566778 ⟨1, 2, 3, 4, 1735689600⟩ = .ok c ∧ c.take 8 = List.replicate 8 1 ∧ c.length = 104 ∧
    Spec.decryptBind Prims.toy (List.replicate 256 7) (List.replicate 8 1) c
      = some (0x0112233445566778, ⟨1, 2, 3, 4, 1735689600⟩) :=
  bind_roundtrip Prims.toy Prims.toy_lawful _ _ _ _ _ (by decide) (by decide) (by decide) (by decide)
    (by decide) (by decide) (by decide) (by decide) (by decide)

end TdModel.C06
