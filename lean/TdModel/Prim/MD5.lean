/-
MD5 (RFC 1321), executable; validated against Go `crypto/md5` by `harness/prim`.
-/
import TdModel.Prim.Common

namespace TdModel.Prim
namespace MD5

/-- `K[i] = ⌊2^32 · |sin (i+1)|⌋`. -/
def K : Array UInt32 := #[
  0xd76aa478, 0xe8c7b756, 0x242070db, 0xc1bdceee, 0xf57c0faf, 0x4787c62a, 0xa8304613, 0xfd469501,
  0x698098d8, 0x8b44f7af, 0xffff5bb1, 0x895cd7be, 0x6b901122, 0xfd987193, 0xa679438e, 0x49b40821,
  0xf61e2562, 0xc040b340, 0x265e5a51, 0xe9b6c7aa, 0xd62f105d, 0x02441453, 0xd8a1e681, 0xe7d3fbc8,
  0x21e1cde6, 0xc33707d6, 0xf4d50d87, 0x455a14ed, 0xa9e3e905, 0xfcefa3f8, 0x676f02d9, 0x8d2a4c8a,
  0xfffa3942, 0x8771f681, 0x6d9d6122, 0xfde5380c, 0xa4beea44, 0x4bdecfa9, 0xf6bb4b60, 0xbebfbc70,
  0x289b7ec6, 0xeaa127fa, 0xd4ef3085, 0x04881d05, 0xd9d4d039, 0xe6db99e5, 0x1fa27cf8, 0xc4ac5665,
  0xf4292244, 0x432aff97, 0xab9423a7, 0xfc93a039, 0x655b59c3, 0x8f0ccc92, 0xffeff47d, 0x85845dd1,
  0x6fa87e4f, 0xfe2ce6e0, 0xa3014314, 0x4e0811a1, 0xf7537e82, 0xbd3af235, 0x2ad7d2bb, 0xeb86d391]

/-- Per-round left-rotation amounts. -/
def S : Array UInt32 := #[
  7, 12, 17, 22, 7, 12, 17, 22, 7, 12, 17, 22, 7, 12, 17, 22,
  5,  9, 14, 20, 5,  9, 14, 20, 5,  9, 14, 20, 5,  9, 14, 20,
  4, 11, 16, 23, 4, 11, 16, 23, 4, 11, 16, 23, 4, 11, 16, 23,
  6, 10, 15, 21, 6, 10, 15, 21, 6, 10, 15, 21, 6, 10, 15, 21]

structure State where
  a : UInt32
  b : UInt32
  c : UInt32
  d : UInt32
  deriving Inhabited

def init : State := ⟨0x67452301, 0xefcdab89, 0x98badcfe, 0x10325476⟩

@[inline] def rotl (x : UInt32) (n : UInt32) : UInt32 := (x <<< n) ||| (x >>> (32 - n))

def blockWords (ba : ByteArray) (off : Nat) : Array UInt32 := Id.run do
  let mut w : Array UInt32 := Array.emptyWithCapacity 16
  for i in [0:16] do
    w := w.push (le32 ba (off + 4*i))
  return w

partial def rounds (m : Array UInt32) (i : Nat) (a b c d : UInt32) : State :=
  if i ≥ 64 then ⟨a, b, c, d⟩ else
    let f : UInt32 :=
      if i < 16 then (b &&& c) ||| ((~~~ b) &&& d)
      else if i < 32 then (d &&& b) ||| ((~~~ d) &&& c)
      else if i < 48 then b ^^^ c ^^^ d
      else c ^^^ (b ||| (~~~ d))
    let g : Nat :=
      if i < 16 then i
      else if i < 32 then (5*i + 1) % 16
      else if i < 48 then (3*i + 5) % 16
      else (7*i) % 16
    let x := a + f + K[i]! + m[g]!
    rounds m (i+1) d (b + rotl x S[i]!) b c

def compress (s : State) (ba : ByteArray) (off : Nat) : State :=
  let r := rounds (blockWords ba off) 0 s.a s.b s.c s.d
  ⟨s.a + r.a, s.b + r.b, s.c + r.c, s.d + r.d⟩

def State.digest (s : State) : ByteArray :=
  [s.a, s.b, s.c, s.d].foldl pushLE32 (ByteArray.emptyWithCapacity 16)

def absorb (s : State) (ba : ByteArray) : State := Id.run do
  let mut st := s
  for i in [0:ba.size / 64] do
    st := compress st ba (64*i)
  return st

def hashBA (msg : ByteArray) : ByteArray :=
  (absorb init (mdPad msg 64 8 false)).digest

end MD5

/-- MD5 of a byte string (16 bytes). -/
def md5 (msg : Bytes) : Bytes := ofBA (MD5.hashBA (toBA msg))

end TdModel.Prim
