/-
PBKDF2-HMAC-SHA512 (RFC 8018), executable; validated against `golang.org/x/crypto/pbkdf2` by
`harness/prim`.

The HMAC inner/outer states after the key block are computed once; every further iteration is two
SHA-512 compressions on words (`U_j` is 64 bytes, so `ipad‖U_j` and `opad‖inner` each end in one
padded block), without any byte conversion.
-/
import TdModel.Prim.HMAC

namespace TdModel.Prim
namespace PBKDF2
open SHA512

/-- The block `x ‖ 0x80 ‖ 0… ‖ len` for a 64-byte `x` (as 8 words) following one 128-byte block. -/
@[inline] def tailBlock (x : State) : Array UInt64 :=
  #[x.a, x.b, x.c, x.d, x.e, x.f, x.g, x.h, 0x8000000000000000, 0, 0, 0, 0, 0, 0, 1536]

/-- `HMAC(k, x)` for a 64-byte `x`, given the states after `k⊕ipad` and `k⊕opad`. -/
@[inline] def hmacStep (ist ost : State) (x : State) : State :=
  compressWords ost (tailBlock (compressWords ist (tailBlock x)))

@[inline] def sxor (x y : State) : State :=
  ⟨x.a ^^^ y.a, x.b ^^^ y.b, x.c ^^^ y.c, x.d ^^^ y.d, x.e ^^^ y.e, x.f ^^^ y.f, x.g ^^^ y.g, x.h ^^^ y.h⟩

partial def iterate (ist ost : State) (n : Nat) (u t : State) : State :=
  if n == 0 then t else
    let u' := hmacStep ist ost u
    iterate ist ost (n-1) u' (sxor t u')

/-- Block `T_i = U_1 ⊕ … ⊕ U_iters`. -/
def blockT (ist ost : State) (salt : ByteArray) (iters : Nat) (i : Nat) : State :=
  -- U_1 = HMAC(pw, salt ‖ INT_32_BE(i))
  let msg := pushBE32 salt i.toUInt32
  let inner := (absorb ist (mdPad msg 128 16 true 128)).digest
  let u1 := absorb ost (mdPad inner 128 16 true 128)
  iterate ist ost (iters - 1) u1 u1

def keyBA (pw salt : ByteArray) (iters dkLen : Nat) : ByteArray := Id.run do
  let k := HMAC.blockKey hashBA 128 pw
  let ist := compress init (HMAC.xorPad k 0x36) 0
  let ost := compress init (HMAC.xorPad k 0x5c) 0
  let mut out := ByteArray.emptyWithCapacity (dkLen + 64)
  for i in [0:(dkLen + 63) / 64] do
    out := out ++ (blockT ist ost salt iters (i + 1)).digest
  return out.extract 0 dkLen

end PBKDF2

/-- PBKDF2 with HMAC-SHA512: `dkLen` bytes after `iters` iterations (`iters ≤ 1` behaves as 1, as
`x/crypto/pbkdf2`). -/
def pbkdf2Sha512 (pw salt : Bytes) (iters dkLen : Nat) : Bytes :=
  ofBA (PBKDF2.keyBA (toBA pw) (toBA salt) iters dkLen)

end TdModel.Prim
