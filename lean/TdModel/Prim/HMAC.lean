/-
HMAC (RFC 2104) over SHA-256 and SHA-512, executable; validated against Go `crypto/hmac`
by `harness/prim`.
-/
import TdModel.Prim.SHA256
import TdModel.Prim.SHA512

namespace TdModel.Prim
namespace HMAC

/-- Key brought to exactly one hash block: hashed if longer, then zero-padded. -/
def blockKey (hash : ByteArray → ByteArray) (block : Nat) (key : ByteArray) : ByteArray :=
  let k := if key.size > block then hash key else key
  pushZeros k (block - k.size)

def xorPad (k : ByteArray) (p : UInt8) : ByteArray := Id.run do
  let mut o := ByteArray.emptyWithCapacity k.size
  for b in k do
    o := o.push (b ^^^ p)
  return o

/-- `H((K ⊕ opad) ‖ H((K ⊕ ipad) ‖ msg))` for a hash with block size `block`. -/
def hmacBA (hash : ByteArray → ByteArray) (block : Nat) (key msg : ByteArray) : ByteArray :=
  let k := blockKey hash block key
  let inner := hash (xorPad k 0x36 ++ msg)
  hash (xorPad k 0x5c ++ inner)

end HMAC

/-- HMAC-SHA256 (32 bytes). -/
def hmacSha256 (key msg : Bytes) : Bytes :=
  ofBA (HMAC.hmacBA SHA256.hashBA 64 (toBA key) (toBA msg))

/-- HMAC-SHA512 (64 bytes). -/
def hmacSha512 (key msg : Bytes) : Bytes :=
  ofBA (HMAC.hmacBA SHA512.hashBA 128 (toBA key) (toBA msg))

end TdModel.Prim
