/-
AES-256 (FIPS 197) single-block encryption/decryption and CTR mode, executable; validated against
Go `crypto/aes` and `crypto/cipher.NewCTR` by `harness/prim`.

Table-driven (the structure of Go's generic `crypto/aes` implementation): the S-box is computed
from the field inverse and the affine map, the four T-tables from the S-box.  Top-level tables are
evaluated once at program start.

Totality: a key is zero-padded / truncated to 32 bytes and a block to 16 bytes, so every function
returns a 16-byte block for any input and `aesDecBlock k (aesEncBlock k b) = b` for every 16-byte
`b` under any key (callers always pass 32 / 16 bytes).
-/
import TdModel.Prim.Common

namespace TdModel.Prim
namespace AES

/-- Multiplication by `x` in GF(2^8) modulo x^8+x^4+x^3+x+1. -/
@[inline] def xtime (a : UInt8) : UInt8 :=
  if a &&& 0x80 != 0 then (a <<< 1) ^^^ 0x1b else a <<< 1

/-- Multiplication in GF(2^8). -/
def gmul (a b : UInt8) : UInt8 := Id.run do
  let mut r : UInt8 := 0
  let mut x := a
  let mut y := b
  for _ in [0:8] do
    if y &&& 1 != 0 then r := r ^^^ x
    x := xtime x
    y := y >>> 1
  return r

/-- Field inverse (0 ↦ 0): a^254. -/
def ginv (a : UInt8) : UInt8 := Id.run do
  let mut r : UInt8 := 1
  for _ in [0:254] do
    r := gmul r a
  return r

@[inline] def rotl8 (x : UInt8) (n : UInt8) : UInt8 := (x <<< n) ||| (x >>> (8 - n))

def sboxByte (a : UInt8) : UInt8 :=
  let i := ginv a
  i ^^^ rotl8 i 1 ^^^ rotl8 i 2 ^^^ rotl8 i 3 ^^^ rotl8 i 4 ^^^ 0x63

def sbox : Array UInt8 := Array.ofFn (n := 256) fun i => sboxByte (UInt8.ofNat i.val)

def invSbox : Array UInt8 := Id.run do
  let mut t : Array UInt8 := Array.replicate 256 0
  for i in [0:256] do
    t := t.set! (sbox[i]!).toNat (UInt8.ofNat i)
  return t

@[inline] def word (a b c d : UInt8) : UInt32 :=
  (a.toUInt32 <<< 24) ||| (b.toUInt32 <<< 16) ||| (c.toUInt32 <<< 8) ||| d.toUInt32

@[inline] def rotr32 (x : UInt32) (n : UInt32) : UInt32 := (x >>> n) ||| (x <<< (32 - n))

def te0 : Array UInt32 := Array.ofFn (n := 256) fun i =>
  let s := sbox[i.val]!
  word (gmul s 2) s s (gmul s 3)
def te1 : Array UInt32 := te0.map (rotr32 · 8)
def te2 : Array UInt32 := te0.map (rotr32 · 16)
def te3 : Array UInt32 := te0.map (rotr32 · 24)

def td0 : Array UInt32 := Array.ofFn (n := 256) fun i =>
  let s := invSbox[i.val]!
  word (gmul s 0xe) (gmul s 0x9) (gmul s 0xd) (gmul s 0xb)
def td1 : Array UInt32 := td0.map (rotr32 · 8)
def td2 : Array UInt32 := td0.map (rotr32 · 16)
def td3 : Array UInt32 := td0.map (rotr32 · 24)

@[inline] def b3 (x : UInt32) : Nat := (x >>> 24).toNat
@[inline] def b2 (x : UInt32) : Nat := ((x >>> 16) &&& 0xff).toNat
@[inline] def b1 (x : UInt32) : Nat := ((x >>> 8) &&& 0xff).toNat
@[inline] def b0 (x : UInt32) : Nat := (x &&& 0xff).toNat

@[inline] def subw (x : UInt32) : UInt32 :=
  word sbox[b3 x]! sbox[b2 x]! sbox[b1 x]! sbox[b0 x]!

/-- Zero-pad / truncate to exactly `n` bytes. -/
def fit (n : Nat) (b : ByteArray) : ByteArray :=
  if b.size == n then b
  else if b.size > n then b.extract 0 n
  else pushZeros b (n - b.size)

/-- The 60 encryption round-key words of a 32-byte key. -/
def expandEnc (key : ByteArray) : Array UInt32 := Id.run do
  let k := fit 32 key
  let mut w : Array UInt32 := Array.emptyWithCapacity 60
  for i in [0:8] do
    w := w.push (be32 k (4*i))
  let mut rcon : UInt8 := 1
  for i in [8:60] do
    let mut t := w[i-1]!
    if i % 8 == 0 then
      t := subw ((t <<< 8) ||| (t >>> 24)) ^^^ (rcon.toUInt32 <<< 24)
      rcon := xtime rcon
    else if i % 8 == 4 then
      t := subw t
    w := w.push (w[i-8]! ^^^ t)
  return w

/-- Round keys of the equivalent inverse cipher: round order reversed, InvMixColumns applied to all
but the first and last round key. -/
def expandDec (enc : Array UInt32) : Array UInt32 := Id.run do
  let n := enc.size
  let mut d : Array UInt32 := Array.emptyWithCapacity n
  for r in [0:n/4] do
    let ei := n - 4*r - 4
    for j in [0:4] do
      let x := enc[ei+j]!
      if r > 0 && 4*r + 4 < n then
        d := d.push (td0[(sbox[b3 x]!).toNat]! ^^^ td1[(sbox[b2 x]!).toNat]! ^^^
                     td2[(sbox[b1 x]!).toNat]! ^^^ td3[(sbox[b0 x]!).toNat]!)
      else
        d := d.push x
  return d

structure Blk where
  s0 : UInt32
  s1 : UInt32
  s2 : UInt32
  s3 : UInt32
  deriving Inhabited

partial def encRounds (xk : Array UInt32) (r k : Nat) (s0 s1 s2 s3 : UInt32) : Blk :=
  if r == 0 then
    ⟨word sbox[b3 s0]! sbox[b2 s1]! sbox[b1 s2]! sbox[b0 s3]! ^^^ xk[k]!,
     word sbox[b3 s1]! sbox[b2 s2]! sbox[b1 s3]! sbox[b0 s0]! ^^^ xk[k+1]!,
     word sbox[b3 s2]! sbox[b2 s3]! sbox[b1 s0]! sbox[b0 s1]! ^^^ xk[k+2]!,
     word sbox[b3 s3]! sbox[b2 s0]! sbox[b1 s1]! sbox[b0 s2]! ^^^ xk[k+3]!⟩
  else
    encRounds xk (r-1) (k+4)
      (xk[k]!   ^^^ te0[b3 s0]! ^^^ te1[b2 s1]! ^^^ te2[b1 s2]! ^^^ te3[b0 s3]!)
      (xk[k+1]! ^^^ te0[b3 s1]! ^^^ te1[b2 s2]! ^^^ te2[b1 s3]! ^^^ te3[b0 s0]!)
      (xk[k+2]! ^^^ te0[b3 s2]! ^^^ te1[b2 s3]! ^^^ te2[b1 s0]! ^^^ te3[b0 s1]!)
      (xk[k+3]! ^^^ te0[b3 s3]! ^^^ te1[b2 s0]! ^^^ te2[b1 s1]! ^^^ te3[b0 s2]!)

partial def decRounds (xk : Array UInt32) (r k : Nat) (s0 s1 s2 s3 : UInt32) : Blk :=
  if r == 0 then
    ⟨word invSbox[b3 s0]! invSbox[b2 s3]! invSbox[b1 s2]! invSbox[b0 s1]! ^^^ xk[k]!,
     word invSbox[b3 s1]! invSbox[b2 s0]! invSbox[b1 s3]! invSbox[b0 s2]! ^^^ xk[k+1]!,
     word invSbox[b3 s2]! invSbox[b2 s1]! invSbox[b1 s0]! invSbox[b0 s3]! ^^^ xk[k+2]!,
     word invSbox[b3 s3]! invSbox[b2 s2]! invSbox[b1 s1]! invSbox[b0 s0]! ^^^ xk[k+3]!⟩
  else
    decRounds xk (r-1) (k+4)
      (xk[k]!   ^^^ td0[b3 s0]! ^^^ td1[b2 s3]! ^^^ td2[b1 s2]! ^^^ td3[b0 s1]!)
      (xk[k+1]! ^^^ td0[b3 s1]! ^^^ td1[b2 s0]! ^^^ td2[b1 s3]! ^^^ td3[b0 s2]!)
      (xk[k+2]! ^^^ td0[b3 s2]! ^^^ td1[b2 s1]! ^^^ td2[b1 s0]! ^^^ td3[b0 s3]!)
      (xk[k+3]! ^^^ td0[b3 s3]! ^^^ td1[b2 s2]! ^^^ td2[b1 s1]! ^^^ td3[b0 s0]!)

/-- Encrypt the four big-endian words of a block. -/
@[inline] def encWords (xk : Array UInt32) (s0 s1 s2 s3 : UInt32) : Blk :=
  encRounds xk (xk.size / 4 - 2) 4 (s0 ^^^ xk[0]!) (s1 ^^^ xk[1]!) (s2 ^^^ xk[2]!) (s3 ^^^ xk[3]!)

@[inline] def decWords (xk : Array UInt32) (s0 s1 s2 s3 : UInt32) : Blk :=
  decRounds xk (xk.size / 4 - 2) 4 (s0 ^^^ xk[0]!) (s1 ^^^ xk[1]!) (s2 ^^^ xk[2]!) (s3 ^^^ xk[3]!)

def Blk.push (out : ByteArray) (b : Blk) : ByteArray :=
  pushBE32 (pushBE32 (pushBE32 (pushBE32 out b.s0) b.s1) b.s2) b.s3

end AES

open AES in
/-- A pre-expanded AES-256 key (encryption and equivalent-inverse-cipher round keys). -/
structure AesKey where
  ek : Array UInt32
  dk : Array UInt32
  deriving Inhabited

namespace AesKey
open AES

/-- Encrypt the 16-byte block at offset `off` of `src`, appending the result to `out`. -/
@[inline] def encAt (k : AesKey) (src : ByteArray) (off : Nat) (out : ByteArray) : ByteArray :=
  Blk.push out (encWords k.ek (be32 src off) (be32 src (off+4)) (be32 src (off+8)) (be32 src (off+12)))

@[inline] def decAt (k : AesKey) (src : ByteArray) (off : Nat) (out : ByteArray) : ByteArray :=
  Blk.push out (decWords k.dk (be32 src off) (be32 src (off+4)) (be32 src (off+8)) (be32 src (off+12)))

def encBA (k : AesKey) (block : ByteArray) : ByteArray :=
  k.encAt (fit 16 block) 0 (ByteArray.emptyWithCapacity 16)

def decBA (k : AesKey) (block : ByteArray) : ByteArray :=
  k.decAt (fit 16 block) 0 (ByteArray.emptyWithCapacity 16)

/-- Encrypt one 16-byte block under a pre-expanded key. -/
def enc (k : AesKey) (block : Bytes) : Bytes := ofBA (k.encBA (toBA block))

/-- Decrypt one 16-byte block under a pre-expanded key. -/
def dec (k : AesKey) (block : Bytes) : Bytes := ofBA (k.decBA (toBA block))

end AesKey

def aesExpandBA (key : ByteArray) : AesKey :=
  let e := AES.expandEnc key
  { ek := e, dk := AES.expandDec e }

/-- Expand a 32-byte AES-256 key once; use `AesKey.enc` / `AesKey.dec` for many blocks. -/
def aesExpand (key : Bytes) : AesKey := aesExpandBA (toBA key)

/-- AES-256 encryption of one 16-byte block. -/
def aesEncBlock (key block : Bytes) : Bytes := (aesExpand key).enc block

/-- AES-256 decryption of one 16-byte block. -/
def aesDecBlock (key block : Bytes) : Bytes := (aesExpand key).dec block

namespace AES

/-- Keystream XOR as Go's `cipher.NewCTR(block, iv)`: the 16-byte counter block starts at `iv` and is
incremented as a 128-bit big-endian integer (wrapping) after each block; the first `skip` keystream
bytes are discarded. -/
def ctrBA (k : AesKey) (iv : ByteArray) (skip : Nat) (data : ByteArray) : ByteArray := Id.run do
  let ivb := fit 16 iv
  let iv0 : Nat := ivb.foldl (fun a b => a * 256 + b.toNat) 0
  let first := skip / 16
  let off := skip % 16
  let n := data.size
  let nblocks := (off + n + 15) / 16
  let mut hi : UInt64 := ((iv0 + first) / 2^64 % 2^64).toUInt64
  let mut lo : UInt64 := ((iv0 + first) % 2^64).toUInt64
  let mut out := ByteArray.emptyWithCapacity n
  let mut pos := 0            -- index into data
  for bi in [0:nblocks] do
    let ks := encWords k.ek (hi >>> 32).toUInt32 hi.toUInt32 (lo >>> 32).toUInt32 lo.toUInt32
    let ksb := Blk.push (ByteArray.emptyWithCapacity 16) ks
    let start := if bi == 0 then off else 0
    for j in [start:16] do
      if pos < n then
        out := out.push (data.get! pos ^^^ ksb.get! j)
        pos := pos + 1
    lo := lo + 1
    if lo == 0 then hi := hi + 1
  return out

end AES

/-- AES-256-CTR (Go `crypto/cipher.NewCTR` semantics) after discarding `skip` keystream bytes. -/
def aesCtrAt (key iv : Bytes) (skip : Nat) (data : Bytes) : Bytes :=
  ofBA (AES.ctrBA (aesExpand key) (toBA iv) skip (toBA data))

/-- AES-256-CTR: `data` XOR keystream, counter block starting at `iv`. -/
def aesCtr (key iv data : Bytes) : Bytes := aesCtrAt key iv 0 data

end TdModel.Prim
