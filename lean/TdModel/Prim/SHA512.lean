/-
SHA-512 (FIPS 180-4), executable; validated against Go `crypto/sha512` by `harness/prim`.
`compressWords` is exposed at word level so that PBKDF2 can iterate without byte conversions.
-/
import TdModel.Prim.Common

namespace TdModel.Prim
namespace SHA512

def K : Array UInt64 := #[
  0x428a2f98d728ae22, 0x7137449123ef65cd, 0xb5c0fbcfec4d3b2f, 0xe9b5dba58189dbbc,
  0x3956c25bf348b538, 0x59f111f1b605d019, 0x923f82a4af194f9b, 0xab1c5ed5da6d8118,
  0xd807aa98a3030242, 0x12835b0145706fbe, 0x243185be4ee4b28c, 0x550c7dc3d5ffb4e2,
  0x72be5d74f27b896f, 0x80deb1fe3b1696b1, 0x9bdc06a725c71235, 0xc19bf174cf692694,
  0xe49b69c19ef14ad2, 0xefbe4786384f25e3, 0x0fc19dc68b8cd5b5, 0x240ca1cc77ac9c65,
  0x2de92c6f592b0275, 0x4a7484aa6ea6e483, 0x5cb0a9dcbd41fbd4, 0x76f988da831153b5,
  0x983e5152ee66dfab, 0xa831c66d2db43210, 0xb00327c898fb213f, 0xbf597fc7beef0ee4,
  0xc6e00bf33da88fc2, 0xd5a79147930aa725, 0x06ca6351e003826f, 0x142929670a0e6e70,
  0x27b70a8546d22ffc, 0x2e1b21385c26c926, 0x4d2c6dfc5ac42aed, 0x53380d139d95b3df,
  0x650a73548baf63de, 0x766a0abb3c77b2a8, 0x81c2c92e47edaee6, 0x92722c851482353b,
  0xa2bfe8a14cf10364, 0xa81a664bbc423001, 0xc24b8b70d0f89791, 0xc76c51a30654be30,
  0xd192e819d6ef5218, 0xd69906245565a910, 0xf40e35855771202a, 0x106aa07032bbd1b8,
  0x19a4c116b8d2d0c8, 0x1e376c085141ab53, 0x2748774cdf8eeb99, 0x34b0bcb5e19b48a8,
  0x391c0cb3c5c95a63, 0x4ed8aa4ae3418acb, 0x5b9cca4f7763e373, 0x682e6ff3d6b2b8a3,
  0x748f82ee5defb2fc, 0x78a5636f43172f60, 0x84c87814a1f0ab72, 0x8cc702081a6439ec,
  0x90befffa23631e28, 0xa4506cebde82bde9, 0xbef9a3f7b2c67915, 0xc67178f2e372532b,
  0xca273eceea26619c, 0xd186b8c721c0c207, 0xeada7dd6cde0eb1e, 0xf57d4f7fee6ed178,
  0x06f067aa72176fba, 0x0a637dc5a2c898a6, 0x113f9804bef90dae, 0x1b710b35131c471b,
  0x28db77f523047d84, 0x32caab7b40c72493, 0x3c9ebe0a15c9bebc, 0x431d67c49c100d4c,
  0x4cc5d4becb3e42b6, 0x597f299cfc657e2a, 0x5fcb6fab3ad6faec, 0x6c44198c4a475817]

structure State where
  a : UInt64
  b : UInt64
  c : UInt64
  d : UInt64
  e : UInt64
  f : UInt64
  g : UInt64
  h : UInt64
  deriving Inhabited

def init : State :=
  ⟨0x6a09e667f3bcc908, 0xbb67ae8584caa73b, 0x3c6ef372fe94f82b, 0xa54ff53a5f1d36f1,
   0x510e527fade682d1, 0x9b05688c2b3e6c1f, 0x1f83d9abfb41bd6b, 0x5be0cd19137e2179⟩

@[inline] def rotr (x : UInt64) (n : UInt64) : UInt64 := (x >>> n) ||| (x <<< (64 - n))

/-- Extend the 16 message words to the 80-word schedule. -/
def extend (w16 : Array UInt64) : Array UInt64 := Id.run do
  let mut w := w16
  for i in [16:80] do
    let w15 := w[i-15]!
    let w2 := w[i-2]!
    let s0 := rotr w15 1 ^^^ rotr w15 8 ^^^ (w15 >>> 7)
    let s1 := rotr w2 19 ^^^ rotr w2 61 ^^^ (w2 >>> 6)
    w := w.push (w[i-16]! + s0 + w[i-7]! + s1)
  return w

partial def rounds (w : Array UInt64) (i : Nat) (a b c d e f g h : UInt64) : State :=
  if i ≥ 80 then ⟨a, b, c, d, e, f, g, h⟩ else
    let s1 := rotr e 14 ^^^ rotr e 18 ^^^ rotr e 41
    let ch := (e &&& f) ^^^ ((~~~ e) &&& g)
    let t1 := h + s1 + ch + K[i]! + w[i]!
    let s0 := rotr a 28 ^^^ rotr a 34 ^^^ rotr a 39
    let mj := (a &&& b) ^^^ (a &&& c) ^^^ (b &&& c)
    let t2 := s0 + mj
    rounds w (i+1) (t1 + t2) a b c (d + t1) e f g

/-- Compression of one block given as its 16 big-endian words. -/
def compressWords (s : State) (w16 : Array UInt64) : State :=
  let r := rounds (extend w16) 0 s.a s.b s.c s.d s.e s.f s.g s.h
  ⟨s.a + r.a, s.b + r.b, s.c + r.c, s.d + r.d, s.e + r.e, s.f + r.f, s.g + r.g, s.h + r.h⟩

def blockWords (ba : ByteArray) (off : Nat) : Array UInt64 := Id.run do
  let mut w : Array UInt64 := Array.emptyWithCapacity 80
  for i in [0:16] do
    w := w.push (be64 ba (off + 8*i))
  return w

/-- Compression of the 128-byte block of `ba` starting at `off`. -/
def compress (s : State) (ba : ByteArray) (off : Nat) : State :=
  compressWords s (blockWords ba off)

def State.words (s : State) : List UInt64 := [s.a, s.b, s.c, s.d, s.e, s.f, s.g, s.h]

def State.digest (s : State) : ByteArray :=
  s.words.foldl pushBE64 (ByteArray.emptyWithCapacity 64)

def absorb (s : State) (ba : ByteArray) : State := Id.run do
  let mut st := s
  for i in [0:ba.size / 128] do
    st := compress st ba (128*i)
  return st

def hashBA (msg : ByteArray) : ByteArray :=
  (absorb init (mdPad msg 128 16 true)).digest

end SHA512

/-- SHA-512 of a byte string (64 bytes). -/
def sha512 (msg : Bytes) : Bytes := ofBA (SHA512.hashBA (toBA msg))

end TdModel.Prim
