/-
SHA-1 (FIPS 180-4), executable; validated against Go `crypto/sha1` by `harness/prim`.
-/
import TdModel.Prim.Common

namespace TdModel.Prim
namespace SHA1

structure State where
  a : UInt32
  b : UInt32
  c : UInt32
  d : UInt32
  e : UInt32
  deriving Inhabited

def init : State := ⟨0x67452301, 0xefcdab89, 0x98badcfe, 0x10325476, 0xc3d2e1f0⟩

@[inline] def rotl (x : UInt32) (n : UInt32) : UInt32 := (x <<< n) ||| (x >>> (32 - n))

def schedule (ba : ByteArray) (off : Nat) : Array UInt32 := Id.run do
  let mut w : Array UInt32 := Array.emptyWithCapacity 80
  for i in [0:16] do
    w := w.push (be32 ba (off + 4*i))
  for i in [16:80] do
    w := w.push (rotl (w[i-3]! ^^^ w[i-8]! ^^^ w[i-14]! ^^^ w[i-16]!) 1)
  return w

partial def rounds (w : Array UInt32) (i : Nat) (a b c d e : UInt32) : State :=
  if i ≥ 80 then ⟨a, b, c, d, e⟩ else
    let f : UInt32 :=
      if i < 20 then (b &&& c) ||| ((~~~ b) &&& d)
      else if i < 40 then b ^^^ c ^^^ d
      else if i < 60 then (b &&& c) ||| (b &&& d) ||| (c &&& d)
      else b ^^^ c ^^^ d
    let k : UInt32 :=
      if i < 20 then 0x5a827999 else if i < 40 then 0x6ed9eba1
      else if i < 60 then 0x8f1bbcdc else 0xca62c1d6
    let t := rotl a 5 + f + e + k + w[i]!
    rounds w (i+1) t a (rotl b 30) c d

def compress (s : State) (ba : ByteArray) (off : Nat) : State :=
  let r := rounds (schedule ba off) 0 s.a s.b s.c s.d s.e
  ⟨s.a + r.a, s.b + r.b, s.c + r.c, s.d + r.d, s.e + r.e⟩

def State.digest (s : State) : ByteArray :=
  [s.a, s.b, s.c, s.d, s.e].foldl pushBE32 (ByteArray.emptyWithCapacity 20)

def absorb (s : State) (ba : ByteArray) : State := Id.run do
  let mut st := s
  for i in [0:ba.size / 64] do
    st := compress st ba (64*i)
  return st

def hashBA (msg : ByteArray) : ByteArray :=
  (absorb init (mdPad msg 64 8 true)).digest

end SHA1

/-- SHA-1 of a byte string (20 bytes). -/
def sha1 (msg : Bytes) : Bytes := ofBA (SHA1.hashBA (toBA msg))

end TdModel.Prim
