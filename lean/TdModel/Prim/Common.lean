/-
Shared helpers of the executable primitive library (`TdModel/Prim/*`).

Nothing is proved about these files: they only make the models executable inside the `drv_*`
drivers and are validated against Go's standard library by `harness/prim` (tools/prim_selftest.sh).
API type is `Bytes = List UInt8`; `ByteArray`/`UInt32`/`UInt64` are used internally for speed.
Core Lean only.
-/
import TdModel.Util

namespace TdModel.Prim

@[inline] def toBA (bs : Bytes) : ByteArray := bs.toByteArray
@[inline] def ofBA (ba : ByteArray) : Bytes := ba.toList

/-- Big-endian 32-bit word at byte offset `i` (out of range bytes read as 0). -/
@[inline] def be32 (ba : ByteArray) (i : Nat) : UInt32 :=
  ((ba.get! i).toUInt32 <<< 24) ||| ((ba.get! (i+1)).toUInt32 <<< 16) |||
  ((ba.get! (i+2)).toUInt32 <<< 8) ||| (ba.get! (i+3)).toUInt32

/-- Little-endian 32-bit word at byte offset `i`. -/
@[inline] def le32 (ba : ByteArray) (i : Nat) : UInt32 :=
  ((ba.get! (i+3)).toUInt32 <<< 24) ||| ((ba.get! (i+2)).toUInt32 <<< 16) |||
  ((ba.get! (i+1)).toUInt32 <<< 8) ||| (ba.get! i).toUInt32

@[inline] def be64 (ba : ByteArray) (i : Nat) : UInt64 :=
  ((be32 ba i).toUInt64 <<< 32) ||| (be32 ba (i+4)).toUInt64

@[inline] def pushBE32 (out : ByteArray) (w : UInt32) : ByteArray :=
  (((out.push (w >>> 24).toUInt8).push (w >>> 16).toUInt8).push (w >>> 8).toUInt8).push w.toUInt8

@[inline] def pushLE32 (out : ByteArray) (w : UInt32) : ByteArray :=
  (((out.push w.toUInt8).push (w >>> 8).toUInt8).push (w >>> 16).toUInt8).push (w >>> 24).toUInt8

@[inline] def pushBE64 (out : ByteArray) (w : UInt64) : ByteArray :=
  pushBE32 (pushBE32 out (w >>> 32).toUInt32) w.toUInt32

@[inline] def pushLE64 (out : ByteArray) (w : UInt64) : ByteArray :=
  pushLE32 (pushLE32 out w.toUInt32) (w >>> 32).toUInt32

/-- `n` zero bytes appended. -/
def pushZeros (out : ByteArray) (n : Nat) : ByteArray := Id.run do
  let mut o := out
  for _ in [0:n] do
    o := o.push 0
  return o

/-- Merkle–Damgård padding: `msg ‖ 0x80 ‖ 0* ‖ len`, total a multiple of `block`;
`lenBytes` is the width of the length field (8 for MD5/SHA-1/SHA-256, 16 for SHA-512), `be` its
endianness.  `pre` (a multiple of `block`) is the number of bytes already absorbed before `msg`; it
only enters the length field.  The bit length is reduced mod 2^64 (inputs here are far smaller). -/
def mdPad (msg : ByteArray) (block lenBytes : Nat) (be : Bool) (pre : Nat := 0) : ByteArray :=
  let n := msg.size
  let used := (n + 1 + lenBytes) % block
  let z := if used == 0 then 0 else block - used
  let o := pushZeros (msg.push 0x80) (z + (lenBytes - 8))
  let bits : UInt64 := ((pre + n) * 8).toUInt64
  if be then pushBE64 o bits else pushLE64 o bits

end TdModel.Prim
