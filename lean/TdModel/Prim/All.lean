/-
The whole executable primitive library, and the instantiation `Prims.real` of the model parameter
structure `TdModel.Prims` (TdModel/Model/Prims.lean) that the `drv_*` drivers plug into the models.

Only drivers import this file; nothing is proved about it.  Every function here is compared with Go's
standard library by `harness/prim` (tools/prim_selftest.sh).
-/
import TdModel.Model.Prims
import TdModel.Prim.Common
import TdModel.Prim.SHA256
import TdModel.Prim.SHA1
import TdModel.Prim.AES
import TdModel.Prim.SHA512
import TdModel.Prim.HMAC
import TdModel.Prim.PBKDF2
import TdModel.Prim.MD5
import TdModel.Prim.CRC32
import TdModel.Prim.Num

namespace TdModel

/-- SHA-1, SHA-256 and AES-256 as implemented in `TdModel/Prim`. -/
def Prims.real : Prims where
  sha1 := Prim.sha1
  sha256 := Prim.sha256
  aesEnc := Prim.aesEncBlock
  aesDec := Prim.aesDecBlock

end TdModel
