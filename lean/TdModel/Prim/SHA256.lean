/-
SHA-256 (FIPS 180-4), executable; validated against Go `crypto/sha256` by `harness/prim`.
-/
import TdModel.Prim.Common

namespace TdModel.Prim
namespace SHA256

def K : Array UInt32 := #[
  0x428a2f98, 0x71374491, 0xb5c0fbcf, 0xe9b5dba5, 0x3956c25b, 0x59f111f1, 0x923f82a4, 0xab1c5ed5,
  0xd807aa98, 0x12835b01, 0x243185be, 0x550c7dc3, 0x72be5d74, 0x80deb1fe, 0x9bdc06a7, 0xc19bf174,
  0xe49b69c1, 0xefbe4786, 0x0fc19dc6, 0x240ca1cc, 0x2de92c6f, 0x4a7484aa, 0x5cb0a9dc, 0x76f988da,
  0x983e5152, 0xa831c66d, 0xb00327c8, 0xbf597fc7, 0xc6e00bf3, 0xd5a79147, 0x06ca6351, 0x14292967,
  0x27b70a85, 0x2e1b2138, 0x4d2c6dfc, 0x53380d13, 0x650a7354, 0x766a0abb, 0x81c2c92e, 0x92722c85,
  0xa2bfe8a1, 0xa81a664b, 0xc24b8b70, 0xc76c51a3, 0xd192e819, 0xd6990624, 0xf40e3585, 0x106aa070,
  0x19a4c116, 0x1e376c08, 0x2748774c, 0x34b0bcb5, 0x391c0cb3, 0x4ed8aa4a, 0x5b9cca4f, 0x682e6ff3,
  0x748f82ee, 0x78a5636f, 0x84c87814, 0x8cc70208, 0x90befffa, 0xa4506ceb, 0xbef9a3f7, 0xc67178f2]

structure State where
  a : UInt32
  b : UInt32
  c : UInt32
  d : UInt32
  e : UInt32
  f : UInt32
  g : UInt32
  h : UInt32
  deriving Inhabited

def init : State :=
  ⟨0x6a09e667, 0xbb67ae85, 0x3c6ef372, 0xa54ff53a, 0x510e527f, 0x9b05688c, 0x1f83d9ab, 0x5be0cd19⟩

@[inline] def rotr (x : UInt32) (n : UInt32) : UInt32 := (x >>> n) ||| (x <<< (32 - n))

/-- Message schedule of the 64-byte block at offset `off`. -/
def schedule (ba : ByteArray) (off : Nat) : Array UInt32 := Id.run do
  let mut w : Array UInt32 := Array.emptyWithCapacity 64
  for i in [0:16] do
    w := w.push (be32 ba (off + 4*i))
  for i in [16:64] do
    let w15 := w[i-15]!
    let w2 := w[i-2]!
    let s0 := rotr w15 7 ^^^ rotr w15 18 ^^^ (w15 >>> 3)
    let s1 := rotr w2 17 ^^^ rotr w2 19 ^^^ (w2 >>> 10)
    w := w.push (w[i-16]! + s0 + w[i-7]! + s1)
  return w

partial def rounds (w : Array UInt32) (i : Nat) (a b c d e f g h : UInt32) : State :=
  if i ≥ 64 then ⟨a, b, c, d, e, f, g, h⟩ else
    let s1 := rotr e 6 ^^^ rotr e 11 ^^^ rotr e 25
    let ch := (e &&& f) ^^^ ((~~~ e) &&& g)
    let t1 := h + s1 + ch + K[i]! + w[i]!
    let s0 := rotr a 2 ^^^ rotr a 13 ^^^ rotr a 22
    let mj := (a &&& b) ^^^ (a &&& c) ^^^ (b &&& c)
    let t2 := s0 + mj
    rounds w (i+1) (t1 + t2) a b c (d + t1) e f g

/-- Compression of the 64-byte block of `ba` starting at `off`. -/
def compress (s : State) (ba : ByteArray) (off : Nat) : State :=
  let r := rounds (schedule ba off) 0 s.a s.b s.c s.d s.e s.f s.g s.h
  ⟨s.a + r.a, s.b + r.b, s.c + r.c, s.d + r.d, s.e + r.e, s.f + r.f, s.g + r.g, s.h + r.h⟩

def State.digest (s : State) : ByteArray :=
  [s.a, s.b, s.c, s.d, s.e, s.f, s.g, s.h].foldl pushBE32 (ByteArray.emptyWithCapacity 32)

/-- Absorb all whole 64-byte blocks of `ba` (its size must be a multiple of 64). -/
def absorb (s : State) (ba : ByteArray) : State := Id.run do
  let mut st := s
  for i in [0:ba.size / 64] do
    st := compress st ba (64*i)
  return st

def hashBA (msg : ByteArray) : ByteArray :=
  (absorb init (mdPad msg 64 8 true)).digest

end SHA256

/-- SHA-256 of a byte string (32 bytes). -/
def sha256 (msg : Bytes) : Bytes := ofBA (SHA256.hashBA (toBA msg))

end TdModel.Prim
