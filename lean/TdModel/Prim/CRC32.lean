/-
CRC-32 (IEEE 802.3, reflected polynomial 0xEDB88320), executable; validated against Go
`hash/crc32.ChecksumIEEE` by `harness/prim`.
-/
import TdModel.Prim.Common

namespace TdModel.Prim
namespace CRC32

def table : Array UInt32 := Array.ofFn (n := 256) fun i => Id.run do
  let mut c : UInt32 := UInt32.ofNat i.val
  for _ in [0:8] do
    c := if c &&& 1 != 0 then (c >>> 1) ^^^ 0xedb88320 else c >>> 1
  return c

/-- Update a running (pre/post-inverted, as Go's `crc32.Update`) checksum with more bytes. -/
def update (crc : UInt32) (ba : ByteArray) : UInt32 := Id.run do
  let mut c := ~~~ crc
  for b in ba do
    c := table[((c ^^^ b.toUInt32) &&& 0xff).toNat]! ^^^ (c >>> 8)
  return ~~~ c

def checksumBA (ba : ByteArray) : UInt32 := update 0 ba

end CRC32

/-- CRC-32/IEEE of a byte string, as `hash/crc32.ChecksumIEEE`. -/
def crc32 (msg : Bytes) : Nat := (CRC32.checksumBA (toBA msg)).toNat

end TdModel.Prim
