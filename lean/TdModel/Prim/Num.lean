/-
Modular exponentiation and big-endian `Nat` ↔ bytes conversions, executable (Lean's `Nat` is
GMP-backed); validated against Go `math/big` (`Exp`, `SetBytes`, `Bytes`, `FillBytes`) by
`harness/prim`.
-/
import TdModel.Prim.Common

namespace TdModel.Prim

partial def modPowLoop (b e m acc : Nat) : Nat :=
  if e == 0 then acc
  else
    let acc' := if e % 2 == 1 then acc * b % m else acc
    modPowLoop (b * b % m) (e / 2) m acc'

/-- `b ^ e mod m` by square and multiply.  As `math/big.Int.Exp`: modulus `0` means no reduction
(`b ^ e`), modulus `1` gives `0`. -/
def modPow (b e m : Nat) : Nat :=
  if m == 1 then 0 else modPowLoop (b % m) e m (1 % m)

/-- Big-endian bytes → number (`big.Int.SetBytes`). -/
def natOfBE (bs : Bytes) : Nat := bs.foldl (fun a b => a * 256 + b.toNat) 0

partial def natToBEAux (n : Nat) (acc : Bytes) : Bytes :=
  if n == 0 then acc else natToBEAux (n / 256) (UInt8.ofNat (n % 256) :: acc)

/-- Minimal big-endian bytes (`big.Int.Bytes`: `0 ↦ []`, no leading zero byte). -/
def natToBEMin (n : Nat) : Bytes := natToBEAux n []

def natToBEFix : Nat → Nat → Bytes → Bytes
  | 0, _, acc => acc
  | len+1, n, acc => natToBEFix len (n / 256) (UInt8.ofNat (n % 256) :: acc)

/-- Exactly `len` big-endian bytes of `n mod 256^len` (left zero padded; `big.Int.FillBytes` when
`n < 256^len`). -/
def natToBE (len n : Nat) : Bytes := natToBEFix len n []

end TdModel.Prim
