/-
Shared helpers for the line protocol between the Go harness and the Lean drivers.
Core Lean only (linked into the `drv_*` executables).
-/
namespace TdModel

abbrev Bytes := List UInt8

def hexDigit (n : Nat) : Char :=
  if n < 10 then Char.ofNat (48 + n) else Char.ofNat (87 + n)

def hexOfByte (b : UInt8) : String :=
  String.ofList [hexDigit (b.toNat / 16), hexDigit (b.toNat % 16)]

/-- Lower-case hex of a byte list; the empty list is written `-` so that a field is never empty. -/
def toHex (bs : Bytes) : String :=
  if bs.isEmpty then "-" else String.join (bs.map hexOfByte)

def hexVal (c : Char) : Option Nat :=
  if '0' ≤ c ∧ c ≤ '9' then some (c.toNat - 48)
  else if 'a' ≤ c ∧ c ≤ 'f' then some (c.toNat - 87)
  else if 'A' ≤ c ∧ c ≤ 'F' then some (c.toNat - 55)
  else none

def ofHexChars : List Char → Option Bytes
  | [] => some []
  | [_] => none
  | a :: b :: rest => do
    let x ← hexVal a
    let y ← hexVal b
    let r ← ofHexChars rest
    pure (UInt8.ofNat (x * 16 + y) :: r)

def ofHex (s : String) : Option Bytes :=
  if s == "-" then some [] else ofHexChars s.toList

def parseInt? (s : String) : Option Int := s.toInt?
def parseNat? (s : String) : Option Nat := s.toNat?

def words (line : String) : List String :=
  (line.splitOn " ").filter (· ≠ "")

/-- Run a pure line handler over stdin, one answer line per input line. -/
partial def lineLoop (h : IO.FS.Stream) (out : IO.FS.Stream) (f : String → String) : IO Unit := do
  let line ← h.getLine
  if line.isEmpty then
    out.flush
    return ()
  let l := (line.dropEndWhile (fun c => c == '\n' || c == '\r')).toString
  if l == "#flush" then
    out.flush
  else
    out.putStrLn (f l)
  lineLoop h out f

def runDriver (f : String → String) : IO Unit := do
  let i ← IO.getStdin
  let o ← IO.getStdout
  lineLoop i o f

end TdModel
