/-
C21 — `SetFlags`: the bits it ORs into a flags word are exactly the bits of the conditional
fields that hold a non-zero value.
-/
import TdModel.Model.C21

namespace TdModel.C21

/-- Some conditional field reading bit `bit` of flags word `k` holds a non-zero value. -/
def HasPresent (S : Schema) (k bit : Nat) : List Field → Vals → Prop
  | f :: fs, .cons v vs => (f.cond = some (k, bit) ∧ v.isZero S f.ty = false) ∨ HasPresent S k bit fs vs
  | _, _ => False

theorem presenceBits_iff (S : Schema) (k bit : Nat) : ∀ (fs : List Field) (vs : Vals),
    (presenceBits S k fs vs).testBit bit = true ↔ HasPresent S k bit fs vs := by
  intro fs
  induction fs with
  | nil => intro vs; simp [presenceBits, HasPresent]
  | cons f fs ih =>
    intro vs
    cases vs with
    | nil => simp [presenceBits, HasPresent]
    | cons v vs =>
      simp only [presenceBits, HasPresent, Nat.testBit_or, Bool.or_eq_true, ih vs]
      apply or_congr _ Iff.rfl
      cases hc : f.cond with
      | none => simp
      | some kb =>
        obtain ⟨k', b'⟩ := kb
        simp only
        split
        · rename_i h
          obtain ⟨h1, h2⟩ := h
          subst h1
          simp [Nat.testBit_two_pow, h2]
        · rename_i h
          simp only [Nat.zero_testBit, Bool.false_eq_true, false_iff, Option.some.injEq, Prod.mk.injEq]
          intro hh
          exact h ⟨hh.1.1, hh.2⟩

end TdModel.C21
