/-
C21 — kernel evaluation on the whole regenerated schema, part A (linear passes):
every constructor is understood and has a 32-bit id; the chunked ids are the schema's ids;
the digest of the term is the digest the translator computed.
-/
import TdModel.Gen.C21Full
import TdModel.Lemmas.C21Cert

namespace TdModel.C21
open TdModel.Facts.C21Full

theorem full_ctors_ok : fullSchema.ctors.toList.all Ctor.ok = true := by decide +kernel

theorem full_chunks_ok : chunksOK idChunks = true := by decide +kernel

theorem full_ids_ok : fullSchema.ctors.toList.map Ctor.id = unchunk idChunks := by decide +kernel

theorem full_digest : fullSchema.digest = TdModel.Facts.C21.schemaDigest := by decide +kernel

end TdModel.C21
