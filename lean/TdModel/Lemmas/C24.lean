/-
C24 — core safety invariant of the RPC engine model (`TdModel.Rpc`), for the repaired `Do`
(`cfg.guard = true`), by induction over arbitrary action lists.
-/
import TdModel.Lemmas.C24Std
namespace TdModel.Rpc

/-- Core invariant.  `stage_*`: a notifier that has won the handler CAS (parked at `handler.cas`
or inside `Output.Decode`) owns a call that exists, is not `done` and has not returned. -/
structure Inv (s : State) : Prop where
  fin_ret : ∀ i c, s.calls i = some c → (c.ret ≠ none ↔ c.pc = .fin)
  ret_owner : ∀ i c, s.calls i = some c → c.owner = none → c.ret = none
  done_owner : ∀ i c, s.calls i = some c → c.done = true → ∃ nid, c.owner = some (.notif nid)
  stage_fn : ∀ nid n, s.notifs nid = some n → (n.pc = .cas ∨ n.pc = .decode) → ∃ cid, n.fn = .real cid
  stage_ex : ∀ nid n cid, s.notifs nid = some n → (n.pc = .cas ∨ n.pc = .decode) → n.fn = .real cid →
      s.calls cid ≠ none
  stage_owner : ∀ nid n cid c, s.notifs nid = some n → (n.pc = .cas ∨ n.pc = .decode) → n.fn = .real cid →
      s.calls cid = some c → c.owner = some (.notif nid) ∧ c.done = false ∧ c.ret = none
  /-- a registered acknowledgement channel belongs to a call that is still inside `retryUntilAck`. -/
  ack_pc : ∀ i, s.ack i = true → ∃ c, s.calls i = some c ∧ (c.pc = .send0 ∨ c.pc = .loop ∨ c.pc = .sendR)
  /-- a registered channel is still open, so `NotifyAcks` never closes a channel twice. -/
  ack_unacked : ∀ i c, s.ack i = true → s.calls i = some c → c.acked = false
  not_panicked : s.panicked = false
  /-- the retry timer lives only inside the retry loop. -/
  timer_pc : ∀ i c, s.calls i = some c → (c.deadline ≠ none ∨ c.fired = true) → (c.pc = .loop ∨ c.pc = .sendR)

theorem inv_init : Inv init := by
  constructor <;> simp [init]

/-- Discharge one branch of a step function: unfold the state update, let `grind` use the invariant. -/
macro "inv_close" hg:term : tactic =>
  `(tactic| (constructor <;>
      simp [setCall, setNotif, finish, Call.finish, removeAck, exitAck, Call.exitLoop, Call.retC, newCall, Cfg.std_all $hg] <;>
      grind [Inv]))

/-- the same for the step functions that do not depend on the configuration. -/
macro "inv_close0" : tactic =>
  `(tactic| (constructor <;>
      simp [setCall, setNotif, removeAck, Call.exitLoop, Call.retC, newCall] <;> grind [Inv]))

theorem inv_start {s s' : State} {i seq body : Nat} (h : Inv s)
    (hs : stepStart s i seq body = some s') : Inv s' := by
  unfold stepStart at hs
  split at hs
  · simp at hs
  · try dsimp only at hs
    split at hs <;> simp at hs <;> subst hs <;> inv_close0

theorem inv_sret {cfg : Cfg} {s s' : State} {i : Nat} {o : Outcome} (hg : cfg.std = true) (h : Inv s)
    (hs : stepSret cfg s i o = some s') : Inv s' := by
  unfold stepSret at hs
  std_norm hg at hs
  split at hs
  · simp at hs
  · split at hs <;> try (simp at hs)
    all_goals (try split at hs) <;> try (simp at hs)
    all_goals (first | subst hs | (obtain ⟨_, hs⟩ := hs; subst hs))
    all_goals inv_close hg

end TdModel.Rpc
