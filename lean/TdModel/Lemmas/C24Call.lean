/- C24 — preservation of `Rpc.Inv` by the remaining call-thread actions. -/
import TdModel.Lemmas.C24
namespace TdModel.Rpc

theorem inv_loop {cfg : Cfg} {s s' : State} {i : Nat} {b : LoopBr} (hg : cfg.std = true) (h : Inv s)
    (hs : stepLoop cfg s i b = some s') : Inv s' := by
  unfold stepLoop at hs
  std_norm hg at hs
  split at hs
  · simp at hs
  · split at hs
    · simp at hs
    · try dsimp only at hs
      split at hs
      all_goals (split at hs <;> try (simp at hs))
      all_goals (try (split at hs <;> try (simp at hs)))
      all_goals (first | subst hs | (obtain ⟨_, hs⟩ := hs; subst hs))
      all_goals inv_close hg

theorem inv_wait {cfg : Cfg} {s s' : State} {i : Nat} {b : WaitBr} (hg : cfg.std = true) (h : Inv s)
    (hs : stepWait cfg s i b = some s') : Inv s' := by
  unfold stepWait at hs
  std_norm hg at hs
  split at hs
  · simp at hs
  · split at hs
    · simp at hs
    · split at hs
      all_goals (split at hs <;> try (simp at hs))
      all_goals (try (split at hs <;> try (simp at hs)))
      all_goals (first | subst hs | (obtain ⟨_, hs⟩ := hs; subst hs))
      all_goals inv_close hg

theorem inv_dret {cfg : Cfg} {s s' : State} {i : Nat} {o : Outcome} (hg : cfg.std = true) (h : Inv s)
    (hs : stepDret cfg s i o = some s') : Inv s' := by
  unfold stepDret at hs
  std_norm hg at hs
  split at hs
  · simp at hs
  · split at hs <;> simp at hs
    subst hs
    inv_close hg

theorem inv_gpass {cfg : Cfg} {s s' : State} {i : Nat} (hg : cfg.std = true) (h : Inv s)
    (hs : stepGpass cfg s i = some s') : Inv s' := by
  unfold stepGpass at hs
  std_norm hg at hs
  split at hs
  · simp at hs
  · split at hs <;> simp at hs
    subst hs
    inv_close hg

end TdModel.Rpc
