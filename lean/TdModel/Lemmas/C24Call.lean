/- C24 — preservation of `Rpc.Inv` by the remaining call-thread actions. -/
import TdModel.Lemmas.C24
namespace TdModel.Rpc

theorem inv_loop {cfg : Cfg} {s s' : State} {i : Nat} {b : LoopBr} (hg : cfg.guard = true) (h : Inv s)
    (hs : stepLoop cfg s i b = some s') : Inv s' := by
  unfold stepLoop at hs
  split at hs
  · simp at hs
  · split at hs
    · simp at hs
    · dsimp only at hs
      split at hs
      all_goals (split at hs <;> try (simp at hs))
      all_goals (try (split at hs <;> try (simp at hs)))
      all_goals (first | subst hs | (obtain ⟨_, hs⟩ := hs; subst hs))
      all_goals inv_close hg

theorem inv_wait {cfg : Cfg} {s s' : State} {i : Nat} {b : WaitBr} (hg : cfg.guard = true) (h : Inv s)
    (hs : stepWait cfg s i b = some s') : Inv s' := by
  unfold stepWait at hs
  split at hs
  · simp at hs
  · split at hs
    · simp at hs
    · split at hs
      all_goals (split at hs <;> try (simp at hs))
      all_goals (try (split at hs <;> try (simp at hs)))
      all_goals (first | subst hs | (obtain ⟨_, hs⟩ := hs; subst hs))
      all_goals inv_close hg

theorem inv_dret {cfg : Cfg} {s s' : State} {i : Nat} {o : Outcome} (hg : cfg.guard = true) (h : Inv s)
    (hs : stepDret cfg s i o = some s') : Inv s' := by
  unfold stepDret at hs
  split at hs
  · simp at hs
  · split at hs <;> simp at hs
    subst hs
    inv_close hg

theorem inv_gpass {s s' : State} {i : Nat} (h : Inv s) (hs : stepGpass s i = some s') : Inv s' := by
  unfold stepGpass at hs
  split at hs
  · simp at hs
  · split at hs <;> simp at hs
    subst hs
    inv_close True.intro

end TdModel.Rpc
