/- C26 — preservation of `Rpc.Close` by the remaining call-thread actions. -/
import TdModel.Lemmas.C26
set_option linter.unusedVariables false
namespace TdModel.Rpc

set_option maxHeartbeats 8000000 in
theorem close_loop {cfg : Cfg} {s s' : State} {i : Nat} {b : LoopBr} (hg : cfg.std = true) (h : Close s) (hi : Inv s)
    (hs : stepLoop cfg s i b = some s') : Close s' := by
  unfold stepLoop at hs
  std_norm hg at hs
  split at hs
  · simp at hs
  · split at hs
    · simp at hs
    · try dsimp only at hs
      split at hs
      all_goals (split at hs <;> try (simp at hs))
      all_goals (try (split at hs <;> try (simp at hs)))
      all_goals (first | subst hs | (obtain ⟨_, hs⟩ := hs; subst hs))
      all_goals close_close hg

set_option maxHeartbeats 8000000 in
theorem close_wait {cfg : Cfg} {s s' : State} {i : Nat} {b : WaitBr} (hg : cfg.std = true) (h : Close s) (hi : Inv s)
    (hs : stepWait cfg s i b = some s') : Close s' := by
  unfold stepWait at hs
  std_norm hg at hs
  split at hs
  · simp at hs
  · split at hs
    · simp at hs
    · split at hs
      all_goals (split at hs <;> try (simp at hs))
      all_goals (try (split at hs <;> try (simp at hs)))
      all_goals (first | subst hs | (obtain ⟨_, hs⟩ := hs; subst hs))
      all_goals close_close hg

set_option maxHeartbeats 4000000 in
theorem close_dret {cfg : Cfg} {s s' : State} {i : Nat} {o : Outcome} (hg : cfg.std = true) (h : Close s) (hi : Inv s)
    (hs : stepDret cfg s i o = some s') : Close s' := by
  unfold stepDret at hs
  std_norm hg at hs
  split at hs
  · simp at hs
  · split at hs <;> simp at hs
    subst hs
    close_close hg

set_option maxHeartbeats 4000000 in
theorem close_gpass {cfg : Cfg} {s s' : State} {i : Nat} (hg : cfg.std = true) (h : Close s) (hi : Inv s)
    (hs : stepGpass cfg s i = some s') : Close s' := by
  unfold stepGpass at hs
  std_norm hg at hs
  split at hs
  · simp at hs
  · next c hc =>
    split at hs
    · next hcond =>
      simp at hs; subst hs
      close_close hg
    · simp at hs

end TdModel.Rpc
