import TdModel.Lemmas.C09

namespace TdModel.C09
open TdModel

theorem selectKey_single (keys : List Nat) (f fp : Nat) (h : selectKey keys [f] = some fp) : fp = f := by
  unfold selectKey at h
  have := List.find?_some h
  simpa using this

theorem selectKey_mem (keys fps : List Nat) (fp : Nat) (h : selectKey keys fps = some fp) :
    fp ∈ keys ∧ fp ∈ fps := by
  unfold selectKey at h
  exact ⟨List.mem_of_find?_eq_some h, by simpa using List.find?_some h⟩

/-- Everything a client run that ends in `done` went through. -/
theorem crun_done_implies {Ct} (P : XP Ct) (cfg : CCfg) (t : CTape) (ms : List (Msg Ct)) (r : CResult)
    (outs : List (Msg Ct)) (h : crun P cfg t .waitResPQ ms = (.done r, outs)) :
    ∃ sn pq fps fp p q ans d hash rest,
      ms = .resPQ t.nonce sn pq fps :: .dhOk t.nonce sn ans :: .genOk t.nonce sn hash :: rest ∧
      selectKey cfg.keys fps = some fp ∧ pq ≤ pqMax ∧ (1 < pq ∧ P.isPrime pq = false) ∧ P.factor pq = some (p, q) ∧
      P.decS (tempAESKeys P.sha1 t.newNonce sn) ans = some d ∧
      d.nonce = t.nonce ∧ d.serverNonce = sn ∧
      checkDH P.isPrime d.g d.dhPrime = true ∧
      checkDHParams d.dhPrime d.g.toNat d.gA (powMod d.g.toNat t.b d.dhPrime) = true ∧
      nonceHash1 P.sha1 t.newNonce (keyBytes (powMod d.gA t.b d.dhPrime)) = hash ∧
      r = ⟨powMod d.gA t.b d.dhPrime, serverSalt t.newNonce sn, t.sessionId⟩ := by
  cases ms with
  | nil => simp [crun] at h
  | cons m1 rest1 =>
    simp only [crun, cstep] at h
    cases h1 : onResPQ P cfg t m1 with
    | mk c1 o1 =>
      rw [h1] at h
      cases o1 with
      | none =>
        obtain ⟨e, he⟩ := onResPQ_none P cfg t m1 c1 h1
        subst he
        simp [crun_failed] at h
      | some out1 =>
        obtain ⟨sn, pq, fps, fp, p, q, hm1, hsel, hpq, hcomp, hfac, hc1, _⟩ := onResPQ_some P cfg t m1 c1 out1 h1
        subst hc1
        cases rest1 with
        | nil => simp [crun] at h
        | cons m2 rest2 =>
          simp only [crun, cstep] at h
          cases h2 : onDHParams P t sn m2 with
          | mk c2 o2 =>
            rw [h2] at h
            cases o2 with
            | none =>
              obtain ⟨e, he⟩ := onDHParams_none P t sn m2 c2 h2
              subst he
              simp [crun_failed] at h
            | some out2 =>
              obtain ⟨ans, d, hm2, hdec, hn, hsn, hdh, hpar, hc2, _⟩ := onDHParams_some P t sn m2 c2 out2 h2
              subst hc2
              cases rest2 with
              | nil => simp [crun] at h
              | cons m3 rest3 =>
                simp only [crun, cstep] at h
                rcases onDhGen_cases P t sn (powMod d.gA t.b d.dhPrime) m3 with ⟨e, h3⟩ | ⟨r', h3⟩
                · rw [h3] at h
                  simp [crun_failed] at h
                · rw [h3] at h
                  simp only [crun_done, Option.toList, List.append_nil, Prod.mk.injEq,
                    CState.done.injEq] at h
                  obtain ⟨hash, hm3, hh, hr, _⟩ := onDhGen_done P t sn _ m3 r' none h3
                  refine ⟨sn, pq, fps, fp, p, q, ans, d, hash, rest3, ?_, hsel, hpq, hcomp, hfac, hdec, hn, hsn, hdh, hpar, hh, ?_⟩
                  · rw [hm1, hm2, hm3]
                  · rw [← h.1, hr]

theorem cstep_waitResPQ {Ct} (P : XP Ct) (cc : CCfg) (ct : CTape) (m : Msg Ct) :
    cstep P cc ct .waitResPQ m = onResPQ P cc ct m := rfl
theorem cstep_waitDH {Ct} (P : XP Ct) (cc : CCfg) (ct : CTape) (sn : Bytes) (m : Msg Ct) :
    cstep P cc ct (.waitDH sn) m = onDHParams P ct sn m := rfl
theorem cstep_waitGen {Ct} (P : XP Ct) (cc : CCfg) (ct : CTape) (sn : Bytes) (k : Nat) (m : Msg Ct) :
    cstep P cc ct (.waitGen sn k) m = onDhGen P ct sn k m := rfl

theorem sstep_reqPQ {Ct} (P : XP Ct) (sc : SCfg) (st : STape) (n : Bytes) :
    sstep P sc st .waitReqPQ (.reqPQ n) = (.waitReqDH n, some (.resPQ n st.serverNonce st.pq [sc.fp])) := rfl

theorem sstep_reqDH {Ct} (P : XP Ct) (hP : LawfulXP P) (sc : SCfg) (st : STape) (n a b : Bytes) (p q fp : Nat)
    (d : PQInner) (pad : Nat) :
    sstep P sc st (.waitReqDH n) (.reqDH a b p q fp (P.rsaEnc sc.fp d pad)) =
      if d.dc ≠ sc.dc then (.failed .wrongDC, none)
      else if !checkGP (serverG : Int) st.dhPrime then (.failed .gp, none)
      else (.waitSetDH n d.newNonce, some (.dhOk n st.serverNonce
        (P.encS (tempAESKeys P.sha1 d.newNonce st.serverNonce)
          ⟨n, st.serverNonce, (serverG : Int), st.dhPrime, powMod serverG st.a st.dhPrime, st.serverTime⟩ st.ansPad))) := by
  simp only [sstep, hP.rsa_dec_enc]

theorem sstep_setDH {Ct} (P : XP Ct) (hP : LawfulXP P) (sc : SCfg) (st : STape) (n nn a b : Bytes)
    (ci : CInner) (pad : Nat) :
    sstep P sc st (.waitSetDH n nn) (.setDH a b (P.encC (tempAESKeys P.sha1 nn st.serverNonce) ci pad)) =
      (.done ⟨powMod ci.gB st.a st.dhPrime, serverSalt nn st.serverNonce⟩,
       some (.genOk n st.serverNonce (nonceHash1 P.sha1 nn (keyBytes (powMod ci.gB st.a st.dhPrime))))) := by
  simp only [sstep, hP.decC_encC]

/-- The honest composition: if both sides complete they hold the same key and salt. -/
theorem honest_agree {Ct} (P : XP Ct) (hP : LawfulXP P) (cc : CCfg) (ct : CTape) (sc : SCfg) (st : STape)
    (rc : CResult) (rs : SResult) (tr : List (Msg Ct))
    (h : honestRun P cc ct sc st = (.done rc, .done rs, tr)) :
    rc.key = rs.key ∧ rc.salt = rs.salt := by
  simp only [honestRun, pump, sstep_reqPQ, cstep_waitResPQ] at h
  cases h1 : onResPQ P cc ct (.resPQ ct.nonce st.serverNonce st.pq [sc.fp]) with
  | mk c1 o1 =>
    rw [h1] at h
    cases o1 with
    | none => simp at h
    | some out1 =>
      obtain ⟨sn, pq, fps, fp, p, q, hm1, hsel, _, _, _, hc1, hout1⟩ := onResPQ_some P cc ct _ c1 out1 h1
      simp only [Msg.resPQ.injEq] at hm1
      obtain ⟨_, hsn, hpq, hfps⟩ := hm1
      subst hsn hpq hfps hc1
      have hfp : fp = sc.fp := selectKey_single _ _ _ hsel
      subst hfp hout1
      simp only [sstep_reqDH P hP, cstep_waitDH] at h
      by_cases hdc : cc.dc ≠ sc.dc
      · simp [hdc] at h
      · by_cases hgp : (!checkGP (serverG : Int) st.dhPrime) = true
        · simp [hdc, hgp] at h
        · simp only [hdc, hgp, if_false, Bool.false_eq_true] at h
          cases h2 : onDHParams P ct st.serverNonce
              (.dhOk ct.nonce st.serverNonce (P.encS (tempAESKeys P.sha1 ct.newNonce st.serverNonce)
                ⟨ct.nonce, st.serverNonce, (serverG : Int), st.dhPrime, powMod serverG st.a st.dhPrime, st.serverTime⟩
                st.ansPad)) with
          | mk c2 o2 =>
            rw [h2] at h
            cases o2 with
            | none => simp at h
            | some out2 =>
              obtain ⟨ans, d, hm2, hdec, _, _, _, _, hc2, hout2⟩ := onDHParams_some P ct _ _ c2 out2 h2
              simp only [Msg.dhOk.injEq, true_and] at hm2
              subst hm2
              rw [hP.decS_encS] at hdec
              simp only [Option.some.injEq] at hdec
              subst hdec hc2 hout2
              simp only [sstep_setDH P hP, cstep_waitGen] at h
              rcases onDhGen_cases P ct st.serverNonce (powMod (powMod serverG st.a st.dhPrime) ct.b st.dhPrime)
                (.genOk ct.nonce st.serverNonce (nonceHash1 P.sha1 ct.newNonce
                  (keyBytes (powMod (powMod (serverG : Int).toNat ct.b st.dhPrime) st.a st.dhPrime)))) with ⟨e, h3⟩ | ⟨r', h3⟩
              · rw [h3] at h
                simp at h
              · rw [h3] at h
                obtain ⟨_, _, _, hr, _⟩ := onDhGen_done P ct _ _ _ r' none h3
                simp only [Prod.mk.injEq, CState.done.injEq, SState.done.injEq] at h
                obtain ⟨hrc, hrs, _⟩ := h
                subst hrc hrs hr
                simp only [Int.toNat_natCast]
                exact ⟨powMod_comm _ _ _ _, trivial⟩

theorem selectKey_of_mem (keys : List Nat) (f : Nat) (h : f ∈ keys) : selectKey keys [f] = some f := by
  unfold selectKey
  induction keys with
  | nil => simp at h
  | cons k rest ih =>
    simp only [List.find?_cons]
    by_cases hk : k = f
    · subst hk; simp
    · have hr : f ∈ rest := by
        rcases List.mem_cons.mp h with h | h
        · exact absurd h.symm hk
        · exact h
      have hc : ([f].contains k) = false := by simp [hk]
      rw [hc]
      exact ih hr

theorem checkDH_checkGP (isPrime : Nat → Bool) (g : Int) (p : Nat) (h : checkDH isPrime g p = true) :
    checkGP g p = true := by
  unfold checkDH at h
  simp only [Bool.and_eq_true] at h
  exact h.1.1.2

/-- The honest composition completes, with the same key on both sides, whenever the client trusts
the server's key, the factorisation succeeds, both are configured for the same DC and the DH
parameters drawn by the two tapes pass the client's checks. -/
theorem honest_completes {Ct} (P : XP Ct) (hP : LawfulXP P) (cc : CCfg) (ct : CTape) (sc : SCfg) (st : STape)
    (p q : Nat)
    (htrust : sc.fp ∈ cc.keys) (hpq : st.pq ≤ pqMax) (hpq1 : 1 < st.pq) (hcomp : P.isPrime st.pq = false)
    (hfac : P.factor st.pq = some (p, q))
    (hdc : cc.dc = sc.dc)
    (hdh : checkDH P.isPrime (serverG : Int) st.dhPrime = true)
    (hpar : checkDHParams st.dhPrime serverG (powMod serverG st.a st.dhPrime) (powMod serverG ct.b st.dhPrime) = true) :
    (honestRun P cc ct sc st).1 =
      .done ⟨powMod (powMod serverG st.a st.dhPrime) ct.b st.dhPrime, serverSalt ct.newNonce st.serverNonce, ct.sessionId⟩ ∧
    (honestRun P cc ct sc st).2.1 =
      .done ⟨powMod (powMod serverG st.a st.dhPrime) ct.b st.dhPrime, serverSalt ct.newNonce st.serverNonce⟩ := by
  have hsel := selectKey_of_mem cc.keys sc.fp htrust
  have hgp : checkGP (serverG : Int) st.dhPrime = true := checkDH_checkGP _ _ _ hdh
  have hpq' : ¬ (st.pq > pqMax) := by omega
  have e1 : onResPQ P cc ct (.resPQ ct.nonce st.serverNonce st.pq [sc.fp]) =
      (.waitDH st.serverNonce, some (.reqDH ct.nonce st.serverNonce p q sc.fp (P.rsaEnc sc.fp
        ⟨cc.temp, st.pq, p, q, ct.nonce, st.serverNonce, ct.newNonce, cc.dc, if cc.temp then cc.expiresIn else 0⟩ ct.rsaPad))) := by
    have hpq1' : ¬ (st.pq ≤ 1) := by omega
    simp [onResPQ, hsel, hpq', hpq1', hcomp, hfac]
  have e2 : onDHParams P ct st.serverNonce (.dhOk ct.nonce st.serverNonce
      (P.encS (tempAESKeys P.sha1 ct.newNonce st.serverNonce)
        ⟨ct.nonce, st.serverNonce, (serverG : Int), st.dhPrime, powMod serverG st.a st.dhPrime, st.serverTime⟩ st.ansPad)) =
      (.waitGen st.serverNonce (powMod (powMod serverG st.a st.dhPrime) ct.b st.dhPrime),
       some (.setDH ct.nonce st.serverNonce (P.encC (tempAESKeys P.sha1 ct.newNonce st.serverNonce)
         ⟨ct.nonce, st.serverNonce, 0, powMod serverG ct.b st.dhPrime⟩ ct.ansPad))) := by
    simp [onDHParams, hP.decS_encS, hdh, hpar]
  have e3 : onDhGen P ct st.serverNonce (powMod (powMod serverG st.a st.dhPrime) ct.b st.dhPrime)
      (.genOk ct.nonce st.serverNonce (nonceHash1 P.sha1 ct.newNonce
        (keyBytes (powMod (powMod serverG st.a st.dhPrime) ct.b st.dhPrime)))) =
      (.done ⟨powMod (powMod serverG st.a st.dhPrime) ct.b st.dhPrime, serverSalt ct.newNonce st.serverNonce, ct.sessionId⟩, none) := by
    simp [onDhGen]
  simp only [honestRun, pump, sstep_reqPQ, cstep_waitResPQ, e1, sstep_reqDH P hP, cstep_waitDH, hdc, hgp, ne_eq,
    not_true_eq_false, if_false, Bool.not_true, Bool.false_eq_true, e2, sstep_setDH P hP, cstep_waitGen, e3,
    powMod_comm serverG ct.b st.a st.dhPrime, and_self]

end TdModel.C09
