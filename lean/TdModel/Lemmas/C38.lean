import TdModel.Model.C38
import TdModel.Lemmas.Bin

namespace TdModel.C38
open TdModel TdModel.Bin

theorem rleDec_some_ne (x : UInt8) (hx : x ≠ 0) (rest : Bytes) :
    rleDec (some x) rest = x :: rleDec none rest := by
  cases rest with
  | nil => simp [rleDec]
  | cons c r =>
    have h : ¬ (some x = some (0 : UInt8)) := by simpa using hx
    simp [rleDec, h]

theorem rleDec_none_cons_ne (x : UInt8) (hx : x ≠ 0) (rest : Bytes) :
    rleDec none (x :: rest) = x :: rleDec none rest := by
  simp [rleDec, rleDec_some_ne x hx]

theorem rleDec_zero_run (c : UInt8) (rest : Bytes) :
    rleDec none (0 :: c :: rest) = List.replicate c.toNat 0 ++ rleDec none rest := by
  simp [rleDec]

theorem replicate_succ_append {α} (n : Nat) (a : α) (l : List α) :
    List.replicate (n + 1) a ++ l = List.replicate n a ++ a :: l := by
  induction n with
  | zero => rfl
  | succ n ih => simp only [List.replicate_succ, List.cons_append] at *; rw [ih]

theorem rleDec_rleEnc (s : Bytes) : ∀ c, c ≤ 255 →
    rleDec none (rleEnc c s) = List.replicate c 0 ++ s := by
  induction s with
  | nil =>
    intro c hc
    simp only [rleEnc]
    split
    · rw [rleDec_zero_run]
      have : (UInt8.ofNat c).toNat = c := by simp [UInt8.toNat_ofNat']; omega
      simp [this, rleDec]
    · have : c = 0 := by omega
      subst this; simp [rleDec]
  | cons x rest ih =>
    intro c hc
    simp only [rleEnc]
    by_cases hx : x = 0
    · subst hx
      simp only [if_true]
      by_cases h255 : c = 255
      · subst h255
        simp only [if_true]
        rw [rleDec_zero_run, ih 1 (by omega)]
        have h : (255 : UInt8).toNat = 255 := by decide
        rw [h]
        rfl
      · simp only [h255, if_false]
        rw [ih (c + 1) (by omega), replicate_succ_append]
    · simp only [hx, if_false]
      by_cases hc0 : c > 0
      · simp only [hc0, if_true, List.cons_append, List.nil_append]
        rw [rleDec_zero_run, rleDec_none_cons_ne x hx, ih 0 (by omega)]
        have : (UInt8.ofNat c).toNat = c := by simp [UInt8.toNat_ofNat']; omega
        simp [this]
      · have : c = 0 := by omega
        subst this
        simp only [Nat.lt_irrefl, if_false, List.nil_append]
        rw [rleDec_none_cons_ne x hx, ih 0 (by omega)]
        simp

theorem rleEncWrap_zero_run (n : Nat) : ∀ c rest,
    rleEncWrap c (List.replicate n 0 ++ rest) = rleEncWrap ((c + n) % 256) rest
      ∨ (n = 0 ∧ rleEncWrap c (List.replicate n 0 ++ rest) = rleEncWrap c rest) := by
  induction n with
  | zero => intro c rest; right; simp
  | succ n ih =>
    intro c rest
    left
    simp only [List.replicate_succ, List.cons_append, rleEncWrap, if_true]
    rcases ih ((c + 1) % 256) rest with h | ⟨h0, h⟩
    · rw [h]; congr 1; omega
    · subst h0; rw [h]

end TdModel.C38
