import TdModel.Model.C38
import TdModel.Lemmas.Bin

namespace TdModel.C38
open TdModel TdModel.Bin

theorem rleDec_some_ne (x : UInt8) (hx : x ≠ 0) (rest : Bytes) :
    rleDec (some x) rest = x :: rleDec none rest := by
  cases rest with
  | nil => simp [rleDec]
  | cons c r =>
    have h : ¬ (some x = some (0 : UInt8)) := by simpa using hx
    simp [rleDec, h]

theorem rleDec_none_cons_ne (x : UInt8) (hx : x ≠ 0) (rest : Bytes) :
    rleDec none (x :: rest) = x :: rleDec none rest := by
  simp [rleDec, rleDec_some_ne x hx]

theorem rleDec_zero_run (c : UInt8) (rest : Bytes) :
    rleDec none (0 :: c :: rest) = List.replicate c.toNat 0 ++ rleDec none rest := by
  simp [rleDec]

theorem replicate_succ_append {α} (n : Nat) (a : α) (l : List α) :
    List.replicate (n + 1) a ++ l = List.replicate n a ++ a :: l := by
  induction n with
  | zero => rfl
  | succ n ih => simp only [List.replicate_succ, List.cons_append] at *; rw [ih]

theorem rleDec_rleEncRef (s : Bytes) : ∀ c, c ≤ 255 →
    rleDec none (rleEncRef c s) = List.replicate c 0 ++ s := by
  induction s with
  | nil =>
    intro c hc
    simp only [rleEncRef]
    split
    · rw [rleDec_zero_run]
      have : (UInt8.ofNat c).toNat = c := by simp [UInt8.toNat_ofNat']; omega
      simp [this, rleDec]
    · have : c = 0 := by omega
      subst this; simp [rleDec]
  | cons x rest ih =>
    intro c hc
    simp only [rleEncRef]
    by_cases hx : x = 0
    · subst hx
      simp only [if_true]
      by_cases h255 : c = 255
      · subst h255
        simp only [if_true]
        rw [rleDec_zero_run, ih 1 (by omega)]
        have h : (255 : UInt8).toNat = 255 := by decide
        rw [h]
        rfl
      · simp only [h255, if_false]
        rw [ih (c + 1) (by omega), replicate_succ_append]
    · simp only [hx, if_false]
      by_cases hc0 : c > 0
      · simp only [hc0, if_true, List.cons_append, List.nil_append]
        rw [rleDec_zero_run, rleDec_none_cons_ne x hx, ih 0 (by omega)]
        have : (UInt8.ofNat c).toNat = c := by simp [UInt8.toNat_ofNat']; omega
        simp [this]
      · have : c = 0 := by omega
        subst this
        simp only [Nat.lt_irrefl, if_false, List.nil_append]
        rw [rleDec_none_cons_ne x hx, ih 0 (by omega)]
        simp

theorem byteOf_toNat (x : UInt8) : byteOf (x.toNat : Int) = x := by
  simp [byteOf]

/-- The loop body obtained from the source by symbolic execution is the readable one. -/
theorem rleEnc_eq_ref (s : Bytes) : ∀ c, c ≤ 255 → rleEnc c s = rleEncRef c s := by
  induction s with
  | nil =>
    intro c hc
    simp only [rleEnc, rleEncRef, Facts.C38.rleFlushOut]
    by_cases h : c > 0
    · have : ((c : Int) > 0) := by omega
      simp [h, this, byteOf]
    · have : ¬ ((c : Int) > 0) := by omega
      simp [h, this]
  | cons x rest ih =>
    intro c hc
    have hx := x.toNat_lt
    simp only [rleEnc, rleEncRef, Facts.C38.rleStepOut, Facts.C38.rleStepCount]
    by_cases hx0 : x = 0
    · subst hx0
      by_cases h255 : c = 255
      · subst h255
        simp [byteOf, ih 1 (by omega)]
      · have h1 : ¬ ((c : Int) = 255) := by omega
        have h2 : (((c : Int) + 1) % 256).toNat = c + 1 := by omega
        simp [h255, h1, h2, ih (c + 1) (by omega)]
    · have hxn : ¬ (x.toNat = 0) := by
        intro h
        apply hx0
        exact UInt8.toNat_inj.mp (by simpa using h)
      by_cases hc0 : c > 0
      · have : ((c : Int) > 0) := by omega
        simp [hx0, hxn, hc0, this, byteOf_toNat, ih 0 (by omega)]
        simp [byteOf]
      · have hcz : c = 0 := by omega
        subst hcz
        simp [hx0, hxn, byteOf_toNat, ih 0 (by omega)]

theorem rleDec_rleEnc (s : Bytes) (c : Nat) (hc : c ≤ 255) :
    rleDec none (rleEnc c s) = List.replicate c 0 ++ s := by
  rw [rleEnc_eq_ref s c hc]; exact rleDec_rleEncRef s c hc

theorem rleEncWrap_zero_run (n : Nat) : ∀ c rest,
    rleEncWrap c (List.replicate n 0 ++ rest) = rleEncWrap ((c + n) % 256) rest
      ∨ (n = 0 ∧ rleEncWrap c (List.replicate n 0 ++ rest) = rleEncWrap c rest) := by
  induction n with
  | zero => intro c rest; right; simp
  | succ n ih =>
    intro c rest
    left
    simp only [List.replicate_succ, List.cons_append, rleEncWrap, if_true]
    rcases ih ((c + 1) % 256) rest with h | ⟨h0, h⟩
    · rw [h]; congr 1; omega
    · subst h0; rw [h]

/-! ### Whole file ids: `decodeRaw (encodeRaw f) = .ok f` for canonical `f` -/

theorem rd32 (v : Nat) (rest : Bytes) (h : v < 2 ^ 32) : rdU32 (putU32 v ++ rest) = .ok (v, rest) := by
  simp only [rdU32, getU32_putU32 v rest h, liftE]
theorem rd64 (v : Nat) (rest : Bytes) (h : v < 2 ^ 64) : rdU64 (putU64 v ++ rest) = .ok (v, rest) := by
  simp only [rdU64, getU64_putU64 v rest h, liftE]
theorem rdB (v rest : Bytes) (h : v.length < 2 ^ 24) : rdBytes (putBytes v ++ rest) = .ok (v, rest) := by
  simp only [rdBytes, getBytes_putBytes v rest h, liftE]
theorem pss_roundtrip (p : PSS) (hc : p.canon) (rest : Bytes) :
    PSS.decode {} (p.encode ++ rest) 34 = .ok (p, rest) := by
  obtain ⟨ht, h1, h2, h3, h4, h5, h6, h7, h8, h9, h10, hs⟩ := hc
  obtain ⟨type, volumeID, localID, secret, fileType, thumbType, dialogID, dialogAH, setID, setAH, stickerVersion⟩ := p
  simp only [lastPSSType, Facts.C38.lastPSSType] at ht
  simp only at h1 h2 h3 h4 h5 h6 h7 h8 h9 h10 ht
  have hcases : type = 0 ∨ type = 1 ∨ type = 2 ∨ type = 3 ∨ type = 4 ∨ type = 5 ∨ type = 6 ∨ type = 7 ∨ type = 8 ∨ type = 9 := by omega
  rcases hcases with rfl | rfl | rfl | rfl | rfl | rfl | rfl | rfl | rfl | rfl <;>
  · simp only [PSS.shape, PSS.mk.injEq, true_and] at hs
    simp only [PSS.encode, PSS.writeSteps, caseOf, Facts.C38.pssEncodeHead, Facts.C38.pssEncodeSwitch, PSS.get, putW,
      PSS.decode, Facts.C38.pssDecode, List.append_assoc, List.append_nil, List.contains_cons, List.contains_nil, Option.getD]
    simp [PSS.decodeProg, PSS.readSteps, PSS.writeSteps, PSS.get, putW, caseOf, Facts.C38.pssDecodeSwitch, rdW, PSS.set,
      lastPSSType, Facts.C38.lastPSSType, rd32, rd64, h1, h2, h3, h4, h5, h6, h7, h8, h9, h10, bind, Except.bind, pure,
      Except.pure, hs]

theorem typeID_flags : ∀ t, t < 18 → ∀ w r : Bool,
    let x := t ||| (if w then 16777216 else 0) ||| (if r then 33554432 else 0)
    x < 2 ^ 32 ∧ (decide (x / 16777216 % 2 = 1) = w) ∧ (decide (x / 33554432 % 2 = 1) = r) ∧
      x - (if w then 16777216 else 0) - (if r then 33554432 else 0) = t := by
  decide

theorem rdB' (v : Bytes) (h : v.length < 2 ^ 24) : rdBytes (putBytes v) = .ok (v, []) := by
  have := rdB v [] h
  rwa [List.append_nil] at this

/-- The case labels of the two `switch`es over the file type are the three photo types. -/
theorem photoTypes_eq (t : Nat) :
    Facts.C38.encPhotoTypes.contains t = isPhotoType t ∧ Facts.C38.decPhotoTypes.contains t = isPhotoType t := by
  simp only [Facts.C38.encPhotoTypes, Facts.C38.decPhotoTypes, isPhotoType, Facts.C38.typeThumbnail,
    Facts.C38.typeProfilePhoto, Facts.C38.typePhoto, List.contains_cons, List.contains_nil, Bool.or_false]
  by_cases h0 : t = 0 <;> by_cases h1 : t = 1 <;> by_cases h2 : t = 2 <;> simp [h0, h1, h2]

theorem body_roundtrip (f : FileID) (hc : f.canon) (sv : Nat) (hsv : f.url = [] → sv = 34) :
    decodeProg sv Facts.C38.decLatest {} false false f.encodeLatest = .ok f := by
  obtain ⟨ht, hdc, hid, hah, href, hurl, hrest⟩ := hc
  obtain ⟨type, dc, id, accessHash, fileRef, url, pss⟩ := f
  simp only [lastType, Facts.C38.lastType] at ht
  simp only at ht hdc hid hah href hurl hrest hsv
  have hnt : ¬ 18 ≤ type := by omega
  have hpe : type ∈ Facts.C38.encPhotoTypes ↔ isPhotoType type = true := by
    rw [← (photoTypes_eq type).1]; simp
  have hpd : type ∈ Facts.C38.decPhotoTypes ↔ isPhotoType type = true := by
    rw [← (photoTypes_eq type).2]; simp
  by_cases hu : url = [] <;> by_cases hr : fileRef = []
  · subst hu; subst hr
    have hfl := typeID_flags type ht false false
    simp only [Bool.false_eq_true, if_false, Nat.or_zero, Nat.sub_zero, decide_eq_false_iff_not] at hfl
    obtain ⟨h32, hw, hrf, _⟩ := hfl
    have hsv' := hsv rfl
    subst hsv'
    simp only [ne_eq, not_true_eq_false, if_false] at hrest
    by_cases hp : isPhotoType type = true
    · simp only [hp, if_true] at hrest
      simp [FileID.encodeLatest, FileID.encodeProg, Facts.C38.encLatest, condOn, decodeProg, Facts.C38.decLatest,
        webLocationFlag, fileReferenceFlag, Facts.C38.webLocationFlag, Facts.C38.fileReferenceFlag, lastType,
        Facts.C38.lastType, hpe, hpd, hp, rd32, rd64, h32, hdc, hid, hah, hw, hrf, hnt, bind, Except.bind,
        pss_roundtrip pss hrest, pure, Except.pure]
    · simp only [hp] at hrest
      subst hrest
      simp [FileID.encodeLatest, FileID.encodeProg, Facts.C38.encLatest, condOn, decodeProg, Facts.C38.decLatest,
        webLocationFlag, fileReferenceFlag, Facts.C38.webLocationFlag, Facts.C38.fileReferenceFlag, lastType,
        Facts.C38.lastType, hpe, hpd, hp, rd32, rd64, h32, hdc, hid, hah, hw, hrf, hnt, bind, Except.bind, pure, Except.pure]
  · subst hu
    have hfl := typeID_flags type ht false true
    simp only [Bool.false_eq_true, if_false, if_true, Nat.or_zero, Nat.sub_zero, decide_eq_false_iff_not, decide_eq_true_eq] at hfl
    obtain ⟨h32, hw, hrf, hsub⟩ := hfl
    have hsv' := hsv rfl
    subst hsv'
    simp only [ne_eq, not_true_eq_false, if_false] at hrest
    by_cases hp : isPhotoType type = true
    · simp only [hp, if_true] at hrest
      simp [FileID.encodeLatest, FileID.encodeProg, Facts.C38.encLatest, condOn, decodeProg, Facts.C38.decLatest,
        webLocationFlag, fileReferenceFlag, Facts.C38.webLocationFlag, Facts.C38.fileReferenceFlag, lastType,
        Facts.C38.lastType, hpe, hpd, hp, hr, rd32, rd64, rdB, h32, hdc, hid, hah, href, hw, hrf, hsub, hnt, bind,
        Except.bind, pss_roundtrip pss hrest, pure, Except.pure]
    · simp only [hp] at hrest
      subst hrest
      simp [FileID.encodeLatest, FileID.encodeProg, Facts.C38.encLatest, condOn, decodeProg, Facts.C38.decLatest,
        webLocationFlag, fileReferenceFlag, Facts.C38.webLocationFlag, Facts.C38.fileReferenceFlag, lastType,
        Facts.C38.lastType, hpe, hpd, hp, hr, rd32, rd64, rdB, h32, hdc, hid, hah, href, hw, hrf, hsub, hnt, bind,
        Except.bind, pure, Except.pure]
  · subst hr
    have hfl := typeID_flags type ht true false
    simp only [Bool.false_eq_true, if_false, if_true, Nat.or_zero, Nat.sub_zero, decide_eq_false_iff_not, decide_eq_true_eq] at hfl
    obtain ⟨h32, hw, hrf, hsub⟩ := hfl
    simp only [ne_eq, hu, not_false_eq_true, if_true] at hrest
    obtain ⟨rfl, rfl, rfl⟩ := hrest
    simp [FileID.encodeLatest, FileID.encodeProg, Facts.C38.encLatest, condOn, decodeProg, Facts.C38.decLatest,
      webLocationFlag, fileReferenceFlag, Facts.C38.webLocationFlag, Facts.C38.fileReferenceFlag, lastType,
      Facts.C38.lastType, hu, rd32, rdB', h32, hdc, hurl, hw, hrf, hsub, hnt, bind, Except.bind, pure, Except.pure]
  · have hfl := typeID_flags type ht true true
    simp only [Bool.false_eq_true, if_false, if_true, Nat.or_zero, Nat.sub_zero, decide_eq_false_iff_not, decide_eq_true_eq] at hfl
    obtain ⟨h32, hw, hrf, hsub⟩ := hfl
    simp only [ne_eq, hu, not_false_eq_true, if_true] at hrest
    obtain ⟨rfl, rfl, rfl⟩ := hrest
    simp [FileID.encodeLatest, FileID.encodeProg, Facts.C38.encLatest, condOn, decodeProg, Facts.C38.decLatest,
      webLocationFlag, fileReferenceFlag, Facts.C38.webLocationFlag, Facts.C38.fileReferenceFlag, lastType,
      Facts.C38.lastType, hu, hr, rd32, rdB, rdB', h32, hdc, hurl, href, hw, hrf, hsub, hnt, bind, Except.bind, pure,
      Except.pure]

theorem rleDecode_rleEncode (s : Bytes) : rleDecode (rleEncode s) = s := by
  unfold rleDecode rleEncode
  rw [rleDec_rleEnc s 0 (by omega)]
  simp

theorem encodeLatest_length (f : FileID) : 4 ≤ f.encodeLatest.length := by
  simp [FileID.encodeLatest, FileID.encodeProg, Facts.C38.encLatest, condOn, putU32_length]

theorem getLast_snoc (l : Bytes) (x : UInt8) : (l ++ [x]).getLast? = some x := by simp

theorem encodeLatest_last (f : FileID) (hu : f.url = []) :
    f.encodeLatest.getLast? = some (UInt8.ofNat latestSubVersion) := by
  by_cases hr : f.fileRef = [] <;> by_cases hp : f.type ∈ Facts.C38.encPhotoTypes
  all_goals
    simp only [FileID.encodeLatest, FileID.encodeProg, Facts.C38.encLatest, condOn, hu, hr, hp, ne_eq,
      not_true_eq_false, not_false_eq_true, decide_true, decide_false, List.contains_eq_mem]
    simp only [BEq.rfl, Nat.reduceBEq, Bool.and_true, Bool.and_false, Bool.or_false, Bool.false_or, Bool.true_or,
      Bool.or_true, if_true, if_false, Bool.false_eq_true, Bool.not_true, Bool.not_false, Nat.reduceEqDiff,
      hp, decide_true, decide_false]
    simp only [List.append_nil, ← List.append_assoc]
    exact getLast_snoc _ _

theorem decodeLatest_roundtrip (f : FileID) (hc : f.canon) : decodeLatest f.encodeLatest = .ok f := by
  unfold decodeLatest
  cases h : f.encodeLatest.getLast? with
  | none =>
    have := encodeLatest_length f
    rw [List.getLast?_eq_none_iff] at h
    rw [h] at this
    simp at this
  | some sv =>
    simp only
    apply body_roundtrip f hc
    intro hu
    have := encodeLatest_last f hu
    rw [h] at this
    have hsv : sv = UInt8.ofNat latestSubVersion := Option.some.inj this
    rw [hsv]
    decide

/-! ### The glue code never indexes out of range -/

theorem idxP_last (b : Bytes) (h : 1 ≤ b.length) :
    ∃ x, idxP b ((b.length : Int) - 1) = .ok x ∧ b.getLast? = some x := by
  have hi : ¬ ((b.length : Int) - 1 < 0) := by omega
  have hn : ((b.length : Int) - 1).toNat = b.length - 1 := by omega
  have hlt : b.length - 1 < b.length := by omega
  refine ⟨b[b.length - 1], ?_, ?_⟩
  · simp only [idxP, hi, if_false, hn, List.getElem?_eq_getElem hlt]
  · rw [List.getLast?_eq_getElem?, List.getElem?_eq_getElem hlt]

theorem sliceToP_dropLast (b : Bytes) (h : 1 ≤ b.length) :
    sliceToP b ((b.length : Int) - 1) = .ok b.dropLast := by
  have hn : ((b.length : Int) - 1).toNat = b.length - 1 := by omega
  have h1 : (0 : Int) ≤ (b.length : Int) - 1 ∧ ((b.length : Int) - 1).toNat ≤ b.length := by omega
  unfold sliceToP
  rw [if_pos h1, hn, List.dropLast_eq_take]

theorem decodeLatestP_eq (b : Bytes) : decodeLatestP b = POut.ofExcept (decodeLatest b) := by
  unfold decodeLatestP decodeLatest
  by_cases h : b.length < 1
  · have : b = [] := by cases b <;> simp_all
    subst this
    simp [POut.ofExcept]
  · obtain ⟨x, hx, hl⟩ := idxP_last b (by omega)
    simp only [h, if_false, hx, hl]

theorem decodeRawP_eq (data : Bytes) : decodeRawP data = POut.ofExcept (decodeRaw data) := by
  unfold decodeRawP decodeRaw
  simp only
  by_cases h : (rleDecode data).length < 2
  · simp only [h, if_true, POut.ofExcept]
  · obtain ⟨x, hx, hl⟩ := idxP_last (rleDecode data) (by omega)
    simp only [h, if_false, hx, hl, sliceToP_dropLast (rleDecode data) (by omega), decodeLatestP_eq]
    split
    · rfl
    · split <;> rfl

/-! ### Constructors build canonical ids -/

local macro "fdec" : tactic => `(tactic| (simp only [fromDocument, fromPhoto, fromChatPhoto, List.length_nil]; decide))

def okDocType (t : Nat) : Prop := t < lastType ∧ isPhotoType t = false
instance (t : Nat) : Decidable (okDocType t) := by unfold okDocType; infer_instance

theorem docType_ok (attrs : List DocAttr) : ∀ t, okDocType t → okDocType (docType t attrs) := by
  induction attrs with
  | nil => intro t h; exact h
  | cons a rest ih =>
    intro t ht
    unfold docType
    apply ih
    cases a with
    | animated => simp only; decide
    | sticker => simp only; decide
    | video r => cases r <;> simp only <;> decide
    | audio v => cases v <;> simp only <;> decide
    | other => exact ht

theorem fromDocument_canon (attrs : List DocAttr) (dc id ah : Nat) (ref : Bytes)
    (h1 : dc < 2 ^ 32) (h2 : id < 2 ^ 64) (h3 : ah < 2 ^ 64) (h4 : ref.length < 2 ^ 24) :
    (fromDocument attrs dc id ah ref).canon := by
  have hok := docType_ok attrs Facts.C38.typeDocumentAsFile (by decide)
  refine ⟨hok.1, h1, h2, h3, h4, by fdec, ?_⟩
  simp only [fromDocument, ne_eq, not_true_eq_false, if_false, hok.2, Bool.false_eq_true]

theorem fromPhoto_canon (thumb dc id ah : Nat) (ref : Bytes)
    (h0 : thumb < 2 ^ 32) (h1 : dc < 2 ^ 32) (h2 : id < 2 ^ 64) (h3 : ah < 2 ^ 64) (h4 : ref.length < 2 ^ 24) :
    (fromPhoto thumb dc id ah ref).canon := by
  refine ⟨by fdec, h1, h2, h3, h4, by fdec, ?_⟩
  simp only [fromPhoto, ne_eq, not_true_eq_false, if_false]
  refine ⟨by fdec, by fdec, by fdec, by fdec, by fdec, h0, by fdec, by fdec, by fdec, by fdec, by fdec, ?_⟩
  rfl

theorem fromChatPhoto_canon (big : Bool) (peer ah dc pid : Nat)
    (h0 : peer < 2 ^ 64) (h1 : ah < 2 ^ 64) (h2 : dc < 2 ^ 32) (h3 : pid < 2 ^ 64) :
    (fromChatPhoto big peer ah dc pid).canon := by
  refine ⟨by fdec, h2, h3, by fdec, by fdec, by fdec, ?_⟩
  simp only [fromChatPhoto, ne_eq, not_true_eq_false, if_false]
  cases big
  · exact ⟨by fdec, by fdec, by fdec, by fdec, by fdec, by fdec, h0, h1, by fdec, by fdec, by fdec, rfl⟩
  · exact ⟨by fdec, by fdec, by fdec, by fdec, by fdec, by fdec, h0, h1, by fdec, by fdec, by fdec, rfl⟩

end TdModel.C38
