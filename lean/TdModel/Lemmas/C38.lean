import TdModel.Model.C38
import TdModel.Lemmas.Bin

namespace TdModel.C38
open TdModel TdModel.Bin

theorem rleDec_some_ne (x : UInt8) (hx : x ≠ 0) (rest : Bytes) :
    rleDec (some x) rest = x :: rleDec none rest := by
  cases rest with
  | nil => simp [rleDec]
  | cons c r =>
    have h : ¬ (some x = some (0 : UInt8)) := by simpa using hx
    simp [rleDec, h]

theorem rleDec_none_cons_ne (x : UInt8) (hx : x ≠ 0) (rest : Bytes) :
    rleDec none (x :: rest) = x :: rleDec none rest := by
  simp [rleDec, rleDec_some_ne x hx]

theorem rleDec_zero_run (c : UInt8) (rest : Bytes) :
    rleDec none (0 :: c :: rest) = List.replicate c.toNat 0 ++ rleDec none rest := by
  simp [rleDec]

theorem replicate_succ_append {α} (n : Nat) (a : α) (l : List α) :
    List.replicate (n + 1) a ++ l = List.replicate n a ++ a :: l := by
  induction n with
  | zero => rfl
  | succ n ih => simp only [List.replicate_succ, List.cons_append] at *; rw [ih]

theorem rleDec_rleEnc (s : Bytes) : ∀ c, c ≤ 255 →
    rleDec none (rleEnc c s) = List.replicate c 0 ++ s := by
  induction s with
  | nil =>
    intro c hc
    simp only [rleEnc]
    split
    · rw [rleDec_zero_run]
      have : (UInt8.ofNat c).toNat = c := by simp [UInt8.toNat_ofNat']; omega
      simp [this, rleDec]
    · have : c = 0 := by omega
      subst this; simp [rleDec]
  | cons x rest ih =>
    intro c hc
    simp only [rleEnc]
    by_cases hx : x = 0
    · subst hx
      simp only [if_true]
      by_cases h255 : c = 255
      · subst h255
        simp only [if_true]
        rw [rleDec_zero_run, ih 1 (by omega)]
        have h : (255 : UInt8).toNat = 255 := by decide
        rw [h]
        rfl
      · simp only [h255, if_false]
        rw [ih (c + 1) (by omega), replicate_succ_append]
    · simp only [hx, if_false]
      by_cases hc0 : c > 0
      · simp only [hc0, if_true, List.cons_append, List.nil_append]
        rw [rleDec_zero_run, rleDec_none_cons_ne x hx, ih 0 (by omega)]
        have : (UInt8.ofNat c).toNat = c := by simp [UInt8.toNat_ofNat']; omega
        simp [this]
      · have : c = 0 := by omega
        subst this
        simp only [Nat.lt_irrefl, if_false, List.nil_append]
        rw [rleDec_none_cons_ne x hx, ih 0 (by omega)]
        simp

theorem rleEncWrap_zero_run (n : Nat) : ∀ c rest,
    rleEncWrap c (List.replicate n 0 ++ rest) = rleEncWrap ((c + n) % 256) rest
      ∨ (n = 0 ∧ rleEncWrap c (List.replicate n 0 ++ rest) = rleEncWrap c rest) := by
  induction n with
  | zero => intro c rest; right; simp
  | succ n ih =>
    intro c rest
    left
    simp only [List.replicate_succ, List.cons_append, rleEncWrap, if_true]
    rcases ih ((c + 1) % 256) rest with h | ⟨h0, h⟩
    · rw [h]; congr 1; omega
    · subst h0; rw [h]

/-! ### Whole file ids: `decodeRaw (encodeRaw f) = .ok f` for canonical `f` -/

theorem rd32 (v : Nat) (rest : Bytes) (h : v < 2 ^ 32) : rdU32 (putU32 v ++ rest) = .ok (v, rest) := by
  simp only [rdU32, getU32_putU32 v rest h, liftE]
theorem rd64 (v : Nat) (rest : Bytes) (h : v < 2 ^ 64) : rdU64 (putU64 v ++ rest) = .ok (v, rest) := by
  simp only [rdU64, getU64_putU64 v rest h, liftE]
theorem rdB (v rest : Bytes) (h : v.length < 2 ^ 24) : rdBytes (putBytes v ++ rest) = .ok (v, rest) := by
  simp only [rdBytes, getBytes_putBytes v rest h, liftE]
theorem pss_roundtrip (p : PSS) (hc : p.canon) (rest : Bytes) :
    PSS.decode {} (p.encode ++ rest) 34 = .ok (p, rest) := by
  obtain ⟨ht, h1, h2, h3, h4, h5, h6, h7, h8, h9, h10, hs⟩ := hc
  obtain ⟨type, volumeID, localID, secret, fileType, thumbType, dialogID, dialogAH, setID, setAH, stickerVersion⟩ := p
  simp only [lastPSSType, Facts.C38.lastPSSType] at ht
  simp only at h1 h2 h3 h4 h5 h6 h7 h8 h9 h10 ht
  have hcases : type = 0 ∨ type = 1 ∨ type = 2 ∨ type = 3 ∨ type = 4 ∨ type = 5 ∨ type = 6 ∨ type = 7 ∨ type = 8 ∨ type = 9 := by omega
  rcases hcases with rfl | rfl | rfl | rfl | rfl | rfl | rfl | rfl | rfl | rfl <;>
  · simp only [PSS.shape, PSS.mk.injEq, true_and] at hs
    simp only [PSS.encode, PSS.decode, PSS.decodeTyped, PSS.decodeBody, readDialog, readStickerSet, readLocalVolume,
      List.append_assoc, lastPSSType, Facts.C38.lastPSSType]
    simp [rd32, rd64, h1, h2, h3, h4, h5, h6, h7, h8, h9, h10, bind, Except.bind, pure, Except.pure, hs]

theorem typeID_flags : ∀ t, t < 18 → ∀ w r : Bool,
    let x := t ||| (if w then 16777216 else 0) ||| (if r then 33554432 else 0)
    x < 2 ^ 32 ∧ (decide (x / 16777216 % 2 = 1) = w) ∧ (decide (x / 33554432 % 2 = 1) = r) ∧
      x - (if w then 16777216 else 0) - (if r then 33554432 else 0) = t := by
  decide

theorem rdB' (v : Bytes) (h : v.length < 2 ^ 24) : rdBytes (putBytes v) = .ok (v, []) := by
  have := rdB v [] h
  rwa [List.append_nil] at this

theorem body_roundtrip (f : FileID) (hc : f.canon) (sv : Nat) (hsv : f.url = [] → sv = 34) :
    decodeLatestBody sv f.encodeLatest = .ok f := by
  obtain ⟨ht, hdc, hid, hah, href, hurl, hrest⟩ := hc
  obtain ⟨type, dc, id, accessHash, fileRef, url, pss⟩ := f
  simp only [lastType, Facts.C38.lastType] at ht
  simp only at ht hdc hid hah href hurl hrest hsv
  have hnt : ¬ 18 ≤ type := by omega
  by_cases hu : url = [] <;> by_cases hr : fileRef = []
  · subst hu; subst hr
    have hfl := typeID_flags type ht false false
    simp only [Bool.false_eq_true, if_false, Nat.or_zero, Nat.sub_zero, decide_eq_false_iff_not] at hfl
    obtain ⟨h32, hw, hrf, _⟩ := hfl
    have hsv' := hsv rfl
    subst hsv'
    simp only [ne_eq, not_true_eq_false, if_false] at hrest
    simp only [FileID.encodeLatest, decodeLatestBody, webLocationFlag, fileReferenceFlag, Facts.C38.webLocationFlag,
      Facts.C38.fileReferenceFlag, ne_eq, not_true_eq_false, if_false, Nat.or_zero, List.append_nil,
      List.append_assoc, lastType, Facts.C38.lastType]
    by_cases hp : isPhotoType type = true
    · simp only [hp, if_true] at hrest ⊢
      simp [rd32, rd64, h32, hdc, hid, hah, hw, hrf, hnt, bind, Except.bind, decodeTail, hp, pss_roundtrip pss hrest, pure, Except.pure]
    · simp only [hp] at hrest ⊢
      subst hrest
      simp [rd32, rd64, h32, hdc, hid, hah, hw, hrf, hnt, bind, Except.bind, decodeTail, hp, pure, Except.pure]
  · subst hu
    have hfl := typeID_flags type ht false true
    simp only [Bool.false_eq_true, if_false, if_true, Nat.or_zero, Nat.sub_zero, decide_eq_false_iff_not, decide_eq_true_eq] at hfl
    obtain ⟨h32, hw, hrf, hsub⟩ := hfl
    have hsv' := hsv rfl
    subst hsv'
    simp only [ne_eq, not_true_eq_false, if_false] at hrest
    simp only [FileID.encodeLatest, decodeLatestBody, webLocationFlag, fileReferenceFlag, Facts.C38.webLocationFlag,
      Facts.C38.fileReferenceFlag, ne_eq, not_true_eq_false, if_false, hr, not_false_eq_true, if_true, Nat.or_zero, List.append_nil,
      List.append_assoc, lastType, Facts.C38.lastType]
    by_cases hp : isPhotoType type = true
    · simp only [hp, if_true] at hrest ⊢
      simp [rd32, rd64, rdB, h32, hdc, hid, hah, href, hw, hrf, hsub, hnt, bind, Except.bind, decodeTail, hp, pss_roundtrip pss hrest, pure, Except.pure]
    · simp only [hp] at hrest ⊢
      subst hrest
      simp [rd32, rd64, rdB, h32, hdc, hid, hah, href, hw, hrf, hsub, hnt, bind, Except.bind, decodeTail, hp, pure, Except.pure]
  · subst hr
    have hfl := typeID_flags type ht true false
    simp only [Bool.false_eq_true, if_false, if_true, Nat.or_zero, Nat.sub_zero, decide_eq_false_iff_not, decide_eq_true_eq] at hfl
    obtain ⟨h32, hw, hrf, hsub⟩ := hfl
    simp only [ne_eq, hu, not_false_eq_true, if_true] at hrest
    obtain ⟨rfl, rfl, rfl⟩ := hrest
    simp only [FileID.encodeLatest, decodeLatestBody, webLocationFlag, fileReferenceFlag, Facts.C38.webLocationFlag,
      Facts.C38.fileReferenceFlag, ne_eq, not_true_eq_false, if_false, hu, not_false_eq_true, if_true, Nat.or_zero, List.append_nil,
      List.append_assoc, lastType, Facts.C38.lastType]
    simp [rd32, rdB', h32, hdc, hurl, hw, hrf, hsub, hnt, bind, Except.bind, decodeTail, pure, Except.pure]
  · have hfl := typeID_flags type ht true true
    simp only [Bool.false_eq_true, if_false, if_true, Nat.or_zero, Nat.sub_zero, decide_eq_false_iff_not, decide_eq_true_eq] at hfl
    obtain ⟨h32, hw, hrf, hsub⟩ := hfl
    simp only [ne_eq, hu, not_false_eq_true, if_true] at hrest
    obtain ⟨rfl, rfl, rfl⟩ := hrest
    simp only [FileID.encodeLatest, decodeLatestBody, webLocationFlag, fileReferenceFlag, Facts.C38.webLocationFlag,
      Facts.C38.fileReferenceFlag, ne_eq, hu, hr, not_false_eq_true, if_true, List.append_nil,
      List.append_assoc, lastType, Facts.C38.lastType]
    simp [rd32, rdB, rdB', h32, hdc, hurl, href, hw, hrf, hsub, hnt, bind, Except.bind, decodeTail, pure, Except.pure]

theorem rleDecode_rleEncode (s : Bytes) : rleDecode (rleEncode s) = s := by
  unfold rleDecode rleEncode
  rw [rleDec_rleEnc s 0 (by omega)]
  simp

theorem encodeLatest_length (f : FileID) : 4 ≤ f.encodeLatest.length := by
  simp only [FileID.encodeLatest, List.length_append, putU32_length]
  omega

theorem encodeLatest_last (f : FileID) (hu : f.url = []) :
    f.encodeLatest.getLast? = some (UInt8.ofNat latestSubVersion) := by
  simp [FileID.encodeLatest, hu]

theorem decodeLatest_roundtrip (f : FileID) (hc : f.canon) : decodeLatest f.encodeLatest = .ok f := by
  unfold decodeLatest
  cases h : f.encodeLatest.getLast? with
  | none =>
    have := encodeLatest_length f
    rw [List.getLast?_eq_none_iff] at h
    rw [h] at this
    simp at this
  | some sv =>
    simp only
    apply body_roundtrip f hc
    intro hu
    have := encodeLatest_last f hu
    rw [h] at this
    have hsv : sv = UInt8.ofNat latestSubVersion := Option.some.inj this
    rw [hsv]
    decide

end TdModel.C38
