/-
C02/C03 — file D: the common difference branch (one dispatched batch and one `SetState` that
belong to the pts and the qts sequence together).
-/
import TdModel.Lemmas.C02MgrC

namespace TdModel.C02Core
open TdModel.C01

theorem emit_emit (m : Mgr) (a b : List Event) : (m.emit a).emit b = m.emit (a ++ b) := by
  simp [Mgr.emit, List.append_assoc]

theorem if_emit (c : Prop) [Decidable c] (m : Mgr) (a b : List Event) :
    (if c then m else m.emit a).emit b = m.emit ((if c then [] else a) ++ b) := by
  split <;> simp [emit_emit, Mgr.emit]

theorem if_emit' (c : Bool) (m : Mgr) (a b : List Event) :
    (if (!c) = true then m.emit a else m).emit b = m.emit ((if c = true then [] else a) ++ b) := by
  cases c <;> simp [emit_emit, Mgr.emit]

theorem getBox_setBox_emit (m : Mgr) (evs : List Event) (k : Nat) (b : Box) (k' : Nat) :
    ((m.emit evs).setBox k b).getBox k' = (m.setBox k b).getBox k' := by
  unfold Mgr.setBox
  by_cases h0 : k = 0
  · simp only [h0, if_true]; rfl
  · by_cases h1 : k = 1
    · simp only [h0, h1, if_true, if_false]; rfl
    · simp only [h0, h1, if_false]; rfl

theorem seqOpQuiet_w (O : Orders) (m : Mgr) (k : Nat) (op : SOp) : (m.seqOpQuiet O k op).w = m.w := by
  unfold Mgr.seqOpQuiet
  split
  · rfl
  · simp [Mgr.logOp, setBox_w]

theorem seqOpQuiet_queues (O : Orders) (m : Mgr) (k : Nat) (op : SOp) : (m.seqOpQuiet O k op).queues = m.queues := by
  unfold Mgr.seqOpQuiet
  split
  · rfl
  · show (Mgr.setBox _ _ _).queues = _
    exact queues_setBox _ _ _

theorem seqOpQuiet_internal (O : Orders) (m : Mgr) (k : Nat) (op : SOp) :
    (m.seqOpQuiet O k op).internal = m.internal := by
  unfold Mgr.seqOpQuiet
  split
  · rfl
  · simp [Mgr.logOp, setBox_internal]

theorem seqOpQuiet_parked (O : Orders) (m : Mgr) (k : Nat) (op : SOp) :
    (m.seqOpQuiet O k op).parked = m.parked := by
  unfold Mgr.seqOpQuiet
  split
  · rfl
  · simp [Mgr.logOp, setBox_parked]

/-- Two quiet Part-A steps on two different sequences together with the events that belong to
both keep the manager coherent, if the events project to each step's own events. -/
theorem coh_joint2 {O log start keys m} (h : Coh O log start keys m) (evs : List Event)
    (k1 k2 : Nat) (hk1 : k1 ∈ keys) (hk2 : k2 ∈ keys) (hne : k1 ≠ k2) (op1 op2 : SOp) (b1 b2 : Box)
    (hb1 : m.getBox k1 = some b1) (hb2 : m.getBox k2 = some b2)
    (hw1 : wfOp (seqLog log k1) (mkOf log) b1 op1 = true) (hw2 : wfOp (seqLog log k2) (mkOf log) b2 op2 = true)
    (hproj : ∀ k ∈ keys, projSeq log k evs =
      if k = k1 then (sstep (cfgOf O log k1) b1 op1).2
      else if k = k2 then (sstep (cfgOf O log k2) b2 op2).2 else []) :
    Coh O log start keys (((m.emit evs).seqOpQuiet O k1 op1).seqOpQuiet O k2 op2) := by
  have hcfg : ∀ k, applyCfgOf O (mkOf m.w.log) k = cfgOf O log k := by intro k; rw [h.hlog]; rfl
  -- first quiet step
  have e1 : (m.emit evs).seqOpQuiet O k1 op1 =
      ((m.emit evs).setBox k1 (sstep (cfgOf O log k1) b1 op1).1).logOp k1 op1 := by
    unfold Mgr.seqOpQuiet
    rw [getBox_emit, hb1]
    simp only
    rw [show (m.emit evs).w = m.w from rfl, hcfg]
  generalize hm1 : (m.emit evs).seqOpQuiet O k1 op1 = m1 at *
  have g1 : ∀ k, m1.getBox k = (m.setBox k1 (sstep (cfgOf O log k1) b1 op1).1).getBox k := by
    intro k; rw [e1, getBox_logOp, getBox_setBox_emit]
  have hb2' : m1.getBox k2 = some b2 := by
    rw [g1, getBox_setBox_other _ _ _ _ (fun h => hne h.symm)]; exact hb2
  have w1 : m1.w = m.w := by rw [e1]; simp [Mgr.logOp, setBox_w, Mgr.emit]
  have e2 : m1.seqOpQuiet O k2 op2 = (m1.setBox k2 (sstep (cfgOf O log k2) b2 op2).1).logOp k2 op2 := by
    unfold Mgr.seqOpQuiet
    rw [hb2']
    simp only
    rw [w1, hcfg]
  generalize hm2 : m1.seqOpQuiet O k2 op2 = m2 at *
  have ops2 : m2.ops = m.ops ++ [(k1, op1)] ++ [(k2, op2)] := by
    rw [e2, e1]; simp [Mgr.logOp, setBox_ops, Mgr.emit]
  have tr2 : m2.trace = m.trace ++ evs := by
    rw [e2, e1]; simp [Mgr.logOp, setBox_trace, Mgr.emit]
  have w2 : m2.w = m.w := by rw [e2]; simp [Mgr.logOp, setBox_w, w1]
  have g2 : ∀ k, m2.getBox k = (m1.setBox k2 (sstep (cfgOf O log k2) b2 op2).1).getBox k := by
    intro k; rw [e2]; rfl
  have hbr1 : b1 = (replay O log start m.ops k1).1 := h.box_some k1 hk1 b1 hb1
  have hbr2 : b2 = (replay O log start m.ops k2).1 := h.box_some k2 hk2 b2 hb2
  -- replay of the extended op list
  have rp : ∀ k, replay O log start (m.ops ++ [(k1, op1)] ++ [(k2, op2)]) k =
      if k = k1 then ((sstep (cfgOf O log k1) b1 op1).1, (replay O log start m.ops k1).2 ++ (sstep (cfgOf O log k1) b1 op1).2)
      else if k = k2 then ((sstep (cfgOf O log k2) b2 op2).1, (replay O log start m.ops k2).2 ++ (sstep (cfgOf O log k2) b2 op2).2)
      else replay O log start m.ops k := by
    intro k
    by_cases h1 : k = k1
    · subst h1
      rw [if_pos rfl, replay_snoc_other _ _ _ _ _ _ _ (fun h => hne h.symm), replay_snoc_same, ← hbr1]
    · by_cases h2 : k = k2
      · subst h2
        rw [if_neg h1, if_pos rfl, replay_snoc_same, replay_snoc_other _ _ _ _ _ _ _ (fun h => h1 h.symm), ← hbr2]
      · rw [if_neg h1, if_neg h2, replay_snoc_other _ _ _ _ _ _ _ (fun h => h2 h.symm),
          replay_snoc_other _ _ _ _ _ _ _ (fun h => h1 h.symm)]
  refine ⟨by rw [w2]; exact h.hlog, ?_, ?_, ?_, ?_, ?_⟩
  · intro k hk
    rw [ops2, rp, g2]
    by_cases h2 : k = k2
    · subst h2
      left
      rw [getBox_setBox_same _ _ _ _ hb2', if_neg (fun h => hne h.symm), if_pos rfl]
    · rw [getBox_setBox_other _ _ _ _ h2, g1]
      by_cases h1 : k = k1
      · subst h1
        left
        rw [getBox_setBox_same _ _ _ _ hb1, if_pos rfl]
      · rw [getBox_setBox_other _ _ _ _ h1, if_neg h1, if_neg h2]
        exact h.box k hk
  · intro k hk
    rw [tr2, ops2, rp, projSeq_append, h.tr k hk, hproj k hk]
    by_cases h1 : k = k1
    · subst h1; simp
    · by_cases h2 : k = k2
      · subst h2; simp [h1]
      · simp [h1, h2]
  · intro k hk
    rw [ops2]
    by_cases h1 : k = k1
    · subst h1
      rw [opsOf_snoc, if_neg (fun h => hne h.symm), opsOf_snoc, if_pos rfl, wfRun_snoc, h.wf k hk, Bool.true_and]
      have : (srun (cfgOf O log k) { state := start k } (opsOf m.ops k)).1 = b1 := hbr1.symm
      rw [this]; exact hw1
    · by_cases h2 : k = k2
      · subst h2
        rw [opsOf_snoc, if_pos rfl, opsOf_snoc, if_neg (fun h => h1 h.symm), wfRun_snoc, h.wf k hk, Bool.true_and]
        have : (srun (cfgOf O log k) { state := start k } (opsOf m.ops k)).1 = b2 := hbr2.symm
        rw [this]; exact hw2
      · rw [opsOf_snoc, if_neg (fun h => h2 h.symm), opsOf_snoc, if_neg (fun h => h1 h.symm)]
        exact h.wf k hk
  · intro k hk b hb
    rw [g2] at hb
    by_cases h2 : k = k2
    · subst h2
      rw [getBox_setBox_same _ _ _ _ hb2'] at hb
      rw [← Option.some.inj hb]
      exact sstep_pending (cfgOf O log k) b2 op2 (seqLog log k) (h.pend k hk b2 hb2) hw2
    · rw [getBox_setBox_other _ _ _ _ h2, g1] at hb
      by_cases h1 : k = k1
      · subst h1
        rw [getBox_setBox_same _ _ _ _ hb1] at hb
        rw [← Option.some.inj hb]
        exact sstep_pending (cfgOf O log k) b1 op1 (seqLog log k) (h.pend k hk b1 hb1) hw1
      · rw [getBox_setBox_other _ _ _ _ h1] at hb
        exact h.pend k hk b hb
  · intro k hk
    have h1 : k ≠ k1 := fun h => hk (h ▸ hk1)
    have h2 : k ≠ k2 := fun h => hk (h ▸ hk2)
    rw [g2, getBox_setBox_other _ _ _ _ h2, g1, getBox_setBox_other _ _ _ _ h1]
    exact h.nobox k hk

/-! ### Projection of a dispatched batch of log entries -/

theorem filter_map_ids (log : List Entry) (hu : UniqueIds log) (k : Nat) (es : List Entry) (hes : ∀ e ∈ es, e ∈ log) :
    (es.map (·.id)).filter (fun i => (log.find? (·.id == i)).any (·.seqKey == some k)) =
      (es.filter (·.seqKey == some k)).map (·.id) := by
  induction es with
  | nil => rfl
  | cons a t ih =>
    have ha := hes a (List.mem_cons_self ..)
    have iht := ih (fun e he => hes e (List.mem_cons_of_mem _ he))
    simp only [List.map_cons, List.filter_cons, find_of_unique log hu a ha, Option.any_some]
    split
    · simp [iht]
    · exact iht

theorem proj_batch (log : List Entry) (hu : UniqueIds log) (k : Nat) (es : List Entry) (hes : ∀ e ∈ es, e ∈ log) :
    projSeq log k [.dispatch (es.map (·.id))] =
      if ((es.filter (·.seqKey == some k)).map (·.id)).isEmpty then []
      else [.dispatch ((es.filter (·.seqKey == some k)).map (·.id))] := by
  simp only [projSeq, List.append_nil, filter_map_ids log hu k es hes]

/-! ### `internalState.getDifference` -/

theorem shape_pts_diff :
    seqCalls .storeState .boxSetPts [.storeState, .boxSetPts, .boxSetQts, .boxSetSeq] [.reroute, .dispatch, .setStateClosure] = diffShape ∧
    seqCalls .storeState .boxSetPts [.storeState, .boxSetPts, .boxSetQts, .boxSetSeq] [.reroute, .dispatch, .setStateClosure, .recurse] = diffShape ∧
    seqCalls .storeState .boxSetQts [.storeState, .boxSetPts, .boxSetQts, .boxSetSeq] [.reroute, .dispatch, .setStateClosure] = diffShape ∧
    seqCalls .storeState .boxSetQts [.storeState, .boxSetPts, .boxSetQts, .boxSetSeq] [.reroute, .dispatch, .setStateClosure, .recurse] = diffShape := by
  decide

theorem shape_tooLong :
    seqCalls .storePts .boxSetPts [] [.tooLongCb, .storePts, .boxSetPts, .recurse] = tooLongShape ∧
    seqCalls .storeChannelPts .boxSetPts [] [.tooLongCb, .storeChannelPts, .boxSetPts] = tooLongShape ∧
    seqCalls .storeChannelPts .boxSetPts [] [.storeChannelPts, .boxSetPts] = emptyShape ∧
    seqCalls .storeChannelPts .boxSetPts [] [.sendOut, .dispatch, .storeChannelPts, .boxSetPts, .recurse] = diffShape := by
  decide

/-- The common difference branch under the good orders, computed. -/
theorem guardHolds_all (msgs enc own : List Entry) :
    guardHolds [0, 1, 2] msgs enc own = !(msgs ++ enc ++ own).isEmpty := by
  cases msgs <;> cases enc <;> cases own <;> simp [guardHolds]

theorem guardHolds_ch (msgs own : List Entry) :
    guardHolds [0, 2] msgs [] own = !(msgs ++ own).isEmpty := by
  cases msgs <;> cases own <;> simp [guardHolds]

theorem diffBranch_eq (O : Orders) (hO : GoodOrders O) (slice : Bool) (msgs enc own rest : List Entry) (p q : Int) (m : Mgr) :
    (if slice then O.diffSlice else O.diffDifference).foldl
        (Mgr.diffBranchStep O (if slice then O.diffSlice else O.diffDifference)
          (if slice then O.sliceGuard else O.diffGuard) msgs enc own rest p q) m =
      (((((if rest.isEmpty then m else m.applyCombined O rest).emit ((if (msgs ++ enc ++ own).isEmpty then [] else [Event.dispatch ((msgs ++ enc ++ own).map (·.id))])
            ++ [.storeState p q])).setSeqNow).seqOpQuiet O 0
          (.seq diffShape p ((msgs ++ own).filter (·.seqKey == some 0)))).seqOpQuiet O 1
          (.seq diffShape q ((enc ++ own).filter (·.seqKey == some 1)))) := by
  have hfold : ∀ m' : Mgr, O.diffSetState.foldl (fun (m : Mgr) c => if c = Call.storeState then m.emit [.storeState p q]
      else if c = Call.boxSetSeq then m.setSeqNow else m) m'
      = (m'.emit [.storeState p q]).setSeqNow := by
    intro m'; rw [hO.diffSetState]; simp [List.foldl]
  cases slice with
  | false =>
    simp only [Bool.false_eq_true, if_false]
    rw [hO.diffDifference, hO.diffGuard]
    simp only [List.foldl, Mgr.diffBranchStep, Mgr.diffSetState, hfold, guardHolds_all, if_emit']
    rw [hO.diffSetState, shape_pts_diff.1, shape_pts_diff.2.2.1]
  | true =>
    simp only [if_true]
    rw [hO.diffSlice, hO.sliceGuard]
    simp only [List.foldl, Mgr.diffBranchStep, Mgr.diffSetState, hfold, guardHolds_all, if_emit']
    rw [hO.diffSetState, shape_pts_diff.2.1, shape_pts_diff.2.2.2]

theorem minv_world {O log keys org start m} (h : MInv O log keys org start m) (w : World)
    (hs : w.static = m.w.static) : MInv O log keys org start { m with w := w } := by
  simp only [World.static, Prod.mk.injEq] at hs
  obtain ⟨hl, hp, hq, hc, hpe, hcr⟩ := hs
  refine ⟨coh_world h.coh w (by rw [hl]; exact h.coh.hlog), by rw [← h.p0]; exact hp, by rw [← h.q0]; exact hq, ?_,
    h.queues, h.internal, ?_, ?_, h.parked⟩
  · intro c hk
    rw [← h.c0 c hk]
    show World.chanInit w c = World.chanInit m.w c
    unfold World.chanInit; rw [hc]
  · intro c sp hsp
    exact h.startP c sp (by rw [← hpe]; exact hsp)
  · intro c d hsp hd
    exact h.startC c d (by rw [← hpe]; exact hsp) (by rw [← hcr]; exact hd)

theorem neutral_api (log : List Entry) (keys : List Nat) (p q : Int) : Neutral log keys [.apiDiff p q] := by
  intro k _; simp [projSeq]

theorem neutral_apiCh (log : List Entry) (keys : List Nat) (c : Nat) (p : Int) : Neutral log keys [.apiChDiff c p] := by
  intro k _; simp [projSeq]

theorem minv_clear {O log keys org start m} (hO : GoodOrders O) (hS : Scn log keys org)
    (h : MInv O log keys org start m) (k : Nat) : MInv O log keys org start (m.seqOp O k .clear) :=
  minv_seqOp hO hS h k .clear (fun _ _ => rfl) (fun _ b _ => by simp [sstep])

theorem getBox_zero (m : Mgr) : m.getBox 0 = some m.pts := by simp [Mgr.getBox]
theorem getBox_one (m : Mgr) : m.getBox 1 = some m.qts := by simp [Mgr.getBox]

theorem projSeq_single_store (log : List Entry) (k : Nat) (p q : Int) :
    projSeq log k [.storeState p q] = if k = 0 then [.store p] else if k = 1 then [.store q] else [] := by
  simp only [projSeq, List.append_nil]

theorem callEvs_diffShape (x : Int) (ids : List Nat) :
    callEvs x ids diffShape = (if ids.isEmpty then [] else [.dispatch ids]) ++ [.store x] := by
  simp [callEvs, diffShape]

/-- The joint step of a common difference (dispatch, `SetState`, both boxes), applied to the state
the request was made from (after re-routing foreign updates). -/
theorem minv_diffJoint {O log keys org start m} (hO : GoodOrders O) (hS : Scn log keys org)
    (h : MInv O log keys org start m) (w0 : World) (hw0l : w0.log = log) (hw0p : w0.p0 = org 0) (hw0q : w0.q0 = org 1)
    (msgs enc others : List Entry) (p q : Int) (slice : Bool)
    (hans : (w0.commonDiff m.pts.state m.qts.state).2 = .diff msgs enc others p q slice) :
    MInv O log keys org start
      ((((m.emit ((if (msgs ++ enc ++ others.filter ownCommon).isEmpty then []
            else [Event.dispatch ((msgs ++ enc ++ others.filter ownCommon).map (·.id))]) ++ [.storeState p q])).seqOpQuiet O 0
          (.seq diffShape p ((msgs ++ others.filter ownCommon).filter (·.seqKey == some 0)))).seqOpQuiet O 1
          (.seq diffShape q ((enc ++ others.filter ownCommon).filter (·.seqKey == some 1))))) := by
  obtain ⟨_, hm, hen, ho, _, _, _⟩ := commonDiff_diff w0 _ _ msgs enc others p q slice hans
  have hs0 := hS.sorted 0 hS.k0
  have hs1 := hS.sorted 1 hS.k1
  have hp := commonDiff_honest_pts w0 (by rw [hw0l]; exact hs0)
    (by rw [hw0l, hw0p]; exact fun e he hk => (hS.above 0 hS.k0 e he hk).1)
    (by rw [hw0l]; exact fun e he hk => (hS.above 0 hS.k0 e he hk).2.1) _ _ msgs enc others p q slice hans
  have hq := commonDiff_honest_qts w0 (by rw [hw0l]; exact hs1)
    (by rw [hw0l, hw0q]; exact fun e he hk => (hS.above 1 hS.k1 e he hk).1)
    (by rw [hw0l]; exact fun e he hk => (hS.above 1 hS.k1 e he hk).2.1) _ _ msgs enc others p q slice hans
  rw [hw0l] at hp hq
  -- kinds of what the answer carries
  have hsub : ∀ x ∈ (cut w0.slice (w0.happened.filter fun e : Entry =>
      (e.seqKey == some 0 && decide (e.pos > m.pts.state)) || (e.seqKey == some 1 && decide (e.pos > m.qts.state)))).1,
      x ∈ log := fun x hx => by rw [← hw0l]; exact List.mem_of_mem_take (List.mem_filter.1 (cut_sub _ _ x hx)).1
  have hmsgs : ∀ e ∈ msgs, e ∈ log ∧ e.seqKey = some 0 := by
    intro e he; rw [hm] at he
    obtain ⟨h1, h2⟩ := List.mem_filter.1 he
    exact ⟨hsub e h1, kind_seqKey0 e (Or.inl (by simpa using h2))⟩
  have henc : ∀ e ∈ enc, e ∈ log ∧ e.seqKey = some 1 := by
    intro e he; rw [hen] at he
    obtain ⟨h1, h2⟩ := List.mem_filter.1 he
    exact ⟨hsub e h1, kind_seqKey1 e (Or.inl (by simpa using h2))⟩
  have hown : ∀ e ∈ others.filter ownCommon, e ∈ log ∧ (e.seqKey = some 0 ∨ e.seqKey = some 1) := by
    intro e he
    obtain ⟨h1, h2⟩ := List.mem_filter.1 he
    refine ⟨by rw [← hw0l]; exact commonDiff_others_sub w0 _ _ msgs enc others p q slice hans e h1, ?_⟩
    simp only [ownCommon, Bool.or_eq_true, beq_iff_eq] at h2
    rcases h2 with ((h3 | h3) | h3) | h3
    · exact Or.inl (kind_seqKey0 e (Or.inl h3))
    · exact Or.inl (kind_seqKey0 e (Or.inr h3))
    · exact Or.inr (kind_seqKey1 e (Or.inl h3))
    · exact Or.inr (kind_seqKey1 e (Or.inr h3))
  have hbatch : ∀ e ∈ msgs ++ enc ++ others.filter ownCommon, e ∈ log := by
    intro e he
    simp only [List.mem_append] at he
    rcases he with (h1 | h1) | h1
    · exact (hmsgs e h1).1
    · exact (henc e h1).1
    · exact (hown e h1).1
  have f0 : (msgs ++ enc ++ others.filter ownCommon).filter (·.seqKey == some 0) =
      (msgs ++ others.filter ownCommon).filter (·.seqKey == some 0) := by
    have : enc.filter (·.seqKey == some 0) = [] := by
      rw [List.filter_eq_nil_iff]; intro e he; simp [(henc e he).2]
    simp [List.filter_append, this]
  have f1 : (msgs ++ enc ++ others.filter ownCommon).filter (·.seqKey == some 1) =
      (enc ++ others.filter ownCommon).filter (·.seqKey == some 1) := by
    have : msgs.filter (·.seqKey == some 1) = [] := by
      rw [List.filter_eq_nil_iff]; intro e he; simp [(hmsgs e he).2]
    simp [List.filter_append, this]
  have fk : ∀ k, k ≠ 0 → k ≠ 1 → (msgs ++ enc ++ others.filter ownCommon).filter (·.seqKey == some k) = [] := by
    intro k h0 h1
    rw [List.filter_eq_nil_iff]
    intro e he
    simp only [List.mem_append] at he
    rcases he with (h' | h') | h'
    · simp [(hmsgs e h').2]; omega
    · simp [(henc e h').2]; omega
    · rcases (hown e h').2 with h'' | h'' <;> simp [h''] <;> omega
  -- the two per-sequence ops are well-formed in the boxes the request was made from
  have hw1 : wfOp (seqLog log 0) (mkOf log) m.pts
      (.seq diffShape p ((msgs ++ others.filter ownCommon).filter (·.seqKey == some 0))) = true := by
    simp only [wfOp, Bool.and_eq_true, Bool.or_eq_true, List.all_eq_true, decide_eq_true_eq, Bool.not_eq_true']
    refine ⟨fun e he => hp.2 e he, Or.inl (Or.inl (Or.inl (Or.inl ⟨trivial, ?_⟩)))⟩
    intro e he
    by_cases hr : m.pts.state < e.pos ∧ e.pos ≤ p
    · rcases hp.1 e he hr.1 hr.2 with h' | h'
      · exact Or.inl (Or.inr h')
      · exact Or.inr h'
    · left; left
      simp only [Bool.and_eq_false_iff, decide_eq_false_iff_not]
      by_cases h1 : m.pts.state < e.pos
      · exact Or.inr (fun h2 => hr ⟨h1, h2⟩)
      · exact Or.inl h1
  have hw2 : wfOp (seqLog log 1) (mkOf log) m.qts
      (.seq diffShape q ((enc ++ others.filter ownCommon).filter (·.seqKey == some 1))) = true := by
    simp only [wfOp, Bool.and_eq_true, Bool.or_eq_true, List.all_eq_true, decide_eq_true_eq, Bool.not_eq_true']
    refine ⟨fun e he => hq.2 e he, Or.inl (Or.inl (Or.inl (Or.inl ⟨trivial, ?_⟩)))⟩
    intro e he
    by_cases hr : m.qts.state < e.pos ∧ e.pos ≤ q
    · rcases hq.1 e he hr.1 hr.2 with h' | h'
      · exact Or.inl (Or.inr h')
      · exact Or.inr h'
    · left; left
      simp only [Bool.and_eq_false_iff, decide_eq_false_iff_not]
      by_cases h1 : m.qts.state < e.pos
      · exact Or.inr (fun h2 => hr ⟨h1, h2⟩)
      · exact Or.inl h1
  have hcoh := coh_joint2 h.coh
    ((if (msgs ++ enc ++ others.filter ownCommon).isEmpty then []
      else [Event.dispatch ((msgs ++ enc ++ others.filter ownCommon).map (·.id))]) ++ [.storeState p q])
    0 1 hS.k0 hS.k1 (by decide)
    (.seq diffShape p ((msgs ++ others.filter ownCommon).filter (·.seqKey == some 0)))
    (.seq diffShape q ((enc ++ others.filter ownCommon).filter (·.seqKey == some 1)))
    m.pts m.qts (getBox_zero m) (getBox_one m) hw1 hw2
    (by
      intro k _
      rw [projSeq_append, projSeq_single_store]
      have hA : projSeq log k (if (msgs ++ enc ++ others.filter ownCommon).isEmpty then []
            else [Event.dispatch ((msgs ++ enc ++ others.filter ownCommon).map (·.id))]) =
          if (((msgs ++ enc ++ others.filter ownCommon).filter (·.seqKey == some k)).map (·.id)).isEmpty then []
          else [.dispatch (((msgs ++ enc ++ others.filter ownCommon).filter (·.seqKey == some k)).map (·.id))] := by
        by_cases hemp : (msgs ++ enc ++ others.filter ownCommon).isEmpty = true
        · have : msgs ++ enc ++ others.filter ownCommon = [] := by simpa using hemp
          simp [this, projSeq]
        · simp only [hemp, Bool.false_eq_true, if_false]
          exact proj_batch log hS.uniq k _ hbatch
      rw [hA]
      by_cases h0 : k = 0
      · subst h0
        simp only [if_true, sstep, callEvs_diffShape, f0]
      · by_cases h1 : k = 1
        · subst h1
          simp only [h0, if_false, if_true, sstep, callEvs_diffShape, f1]
        · rw [fk k h0 h1]; simp [h0, h1])
  refine ⟨hcoh, ?_, ?_, ?_, ?_, ?_, ?_, ?_, ?_⟩
  · rw [seqOpQuiet_w, seqOpQuiet_w]; exact h.p0
  · rw [seqOpQuiet_w, seqOpQuiet_w]; exact h.q0
  · intro c hc; rw [seqOpQuiet_w, seqOpQuiet_w]; exact h.c0 c hc
  · rw [seqOpQuiet_queues, seqOpQuiet_queues]; exact h.queues
  · rw [seqOpQuiet_internal, seqOpQuiet_internal]; exact h.internal
  · rw [seqOpQuiet_w, seqOpQuiet_w]; exact h.startP
  · rw [seqOpQuiet_w, seqOpQuiet_w]; exact h.startC
  · rw [seqOpQuiet_parked, seqOpQuiet_parked]; exact h.parked

/-- The first start without stored state: the remote state is written as it is taken. -/
theorem minv_firstState {O log keys org start m} (hS : Scn log keys org)
    (h : MInv O log keys org start m) : MInv O log keys org start (m.firstState O) := by
  unfold Mgr.firstState
  have hw : ∀ (k : Nat) (b : Box), wfOp (seqLog log k) (mkOf log) b (.seq storeOnlyShape b.state []) = true := by
    intro k b
    simp [wfOp, storeOnlyShape, diffShape, emptyShape, tooLongShape, cbOnlyShape]
  have hcoh := coh_joint2 h.coh [.storeState m.pts.state m.qts.state] 0 1 hS.k0 hS.k1 (by decide)
    (.seq storeOnlyShape m.pts.state []) (.seq storeOnlyShape m.qts.state [])
    m.pts m.qts (getBox_zero m) (getBox_one m) (hw 0 m.pts) (hw 1 m.qts)
    (by
      intro k _
      rw [projSeq_single_store]
      by_cases h0 : k = 0
      · subst h0; simp [sstep, storeOnlyShape, callEvs]
      · by_cases h1 : k = 1
        · subst h1; simp [sstep, storeOnlyShape, callEvs]
        · simp [h0, h1])
  refine ⟨hcoh, ?_, ?_, ?_, ?_, ?_, ?_, ?_, ?_⟩
  · rw [seqOpQuiet_w, seqOpQuiet_w]; exact h.p0
  · rw [seqOpQuiet_w, seqOpQuiet_w]; exact h.q0
  · intro c hc; rw [seqOpQuiet_w, seqOpQuiet_w]; exact h.c0 c hc
  · rw [seqOpQuiet_queues, seqOpQuiet_queues]; exact h.queues
  · rw [seqOpQuiet_internal, seqOpQuiet_internal]; exact h.internal
  · rw [seqOpQuiet_w, seqOpQuiet_w]; exact h.startP
  · rw [seqOpQuiet_w, seqOpQuiet_w]; exact h.startC
  · rw [seqOpQuiet_parked, seqOpQuiet_parked]; exact h.parked

theorem emit_setSeqNow (m : Mgr) (evs : List Event) : (m.emit evs).setSeqNow = (m.setSeqNow).emit evs := rfl

/-- One common difference answer of kind `diff`, applied: foreign other-updates are re-routed
(they do not touch the pts/qts boxes), then the joint step. -/
theorem minv_diffBranch {O log keys org start m} (hO : GoodOrders O) (hS : Scn log keys org)
    (h : MInv O log keys org start m) (w0 : World) (hw0l : w0.log = log) (hw0p : w0.p0 = org 0) (hw0q : w0.q0 = org 1)
    (msgs enc others : List Entry) (p q : Int) (slice : Bool)
    (hans : (w0.commonDiff m.pts.state m.qts.state).2 = .diff msgs enc others p q slice) :
    MInv O log keys org start
      ((if slice then O.diffSlice else O.diffDifference).foldl
        (Mgr.diffBranchStep O (if slice then O.diffSlice else O.diffDifference)
          (if slice then O.sliceGuard else O.diffGuard) msgs enc
          (if O.ownDirect then others.filter ownCommon else [])
          (if O.ownDirect then others.filter (fun e => !ownCommon e) else others) p q) m) := by
  rw [hO.ownDirect]
  simp only [if_true]
  rw [diffBranch_eq O hO]
  have hrest : ∀ e ∈ others.filter (fun e => !ownCommon e), e ∈ log ∧ ownCommon e = false := by
    intro e he
    obtain ⟨h1, h2⟩ := List.mem_filter.1 he
    exact ⟨by rw [← hw0l]; exact commonDiff_others_sub w0 _ _ msgs enc others p q slice hans e h1, by simpa using h2⟩
  by_cases hre : (others.filter (fun e => !ownCommon e)).isEmpty = true
  · rw [if_pos hre, emit_setSeqNow]
    exact minv_diffJoint hO hS (minv_setSeqNow h) w0 hw0l hw0p hw0q msgs enc others p q slice hans
  · rw [if_neg hre, emit_setSeqNow]
    have h' := minv_applyCombined hO hS h _ (fun e he => (hrest e he).1)
    have hb := applyCombined_common_boxes O m _ (fun e he => (hrest e he).2)
    exact minv_diffJoint hO hS (minv_setSeqNow h') w0 hw0l hw0p hw0q msgs enc others p q slice
      (by show (w0.commonDiff (m.applyCombined O _).pts.state (m.applyCombined O _).qts.state).2 = _
          rw [hb.1, hb.2]; exact hans)

end TdModel.C02Core
