import TdModel.Model.C09Bytes
import TdModel.Lemmas.Bin

namespace TdModel.C09
open TdModel TdModel.Bin

theorem getLongs_put (l : List Nat) (rest : Bytes) (h : ∀ x ∈ l, x < 2 ^ 64) :
    getLongs l.length (l.flatMap putU64 ++ rest) = .ok (l, rest) := by
  induction l with
  | nil => simp [getLongs]
  | cons x xs ih =>
    have hx : x < 2 ^ 64 := h x (by simp)
    have hxs : ∀ y ∈ xs, y < 2 ^ 64 := fun y hy => h y (by simp [hy])
    simp only [List.length_cons, List.flatMap_cons, List.append_assoc, getLongs]
    rw [getU64_putU64 x _ hx]
    simp only
    rw [ih hxs]

theorem decField_encField (k : String) (v : FV) (rest : Bytes) (h : kindOK k v = true) :
    decField k (encField v ++ rest) = .ok (v, rest) := by
  cases v with
  | raw b =>
    simp only [kindOK, Bool.or_eq_true, Bool.and_eq_true, beq_iff_eq] at h
    rcases h with ⟨hk, hl⟩ | ⟨hk, hl⟩
    · subst hk
      simp only [decField, encField, getInt128, int128Size, if_true]
      rw [getN_append b rest 16 hl]; rfl
    · subst hk
      have h1 : ¬ ("Int256" = "Int128") := by decide
      simp only [decField, encField, getInt256, int256Size, h1, if_false, if_true]
      rw [getN_append b rest 32 hl]; rfl
  | bytes b =>
    simp only [kindOK, Bool.and_eq_true, beq_iff_eq, decide_eq_true_eq] at h
    obtain ⟨hk, hl⟩ := h
    subst hk
    have h1 : ¬ ("Bytes" = "Int128") := by decide
    have h2 : ¬ ("Bytes" = "Int256") := by decide
    simp only [decField, encField, h1, h2, if_false, if_true]
    rw [getBytes_putBytes b rest hl]; rfl
  | int i =>
    simp only [kindOK, Bool.and_eq_true, beq_iff_eq, decide_eq_true_eq] at h
    obtain ⟨hk, hl⟩ := h
    subst hk
    have h1 : ¬ ("Int" = "Int128") := by decide
    have h2 : ¬ ("Int" = "Int256") := by decide
    have h3 : ¬ ("Int" = "Bytes") := by decide
    simp only [decField, encField, h1, h2, h3, if_false, if_true]
    rw [getInt32_putInt32 i rest hl]; rfl
  | long n =>
    simp only [kindOK, Bool.and_eq_true, beq_iff_eq, decide_eq_true_eq] at h
    obtain ⟨hk, hl⟩ := h
    subst hk
    have h1 : ¬ ("Long" = "Int128") := by decide
    have h2 : ¬ ("Long" = "Int256") := by decide
    have h3 : ¬ ("Long" = "Bytes") := by decide
    have h4 : ¬ ("Long" = "Int") := by decide
    simp only [decField, encField, h1, h2, h3, h4, if_false, if_true]
    rw [getU64_putU64 n rest hl]; rfl
  | vlong l =>
    simp only [kindOK, Bool.and_eq_true, beq_iff_eq, decide_eq_true_eq, List.all_eq_true] at h
    obtain ⟨⟨hk, hl⟩, hall⟩ := h
    subst hk
    have h1 : ¬ ("VectorLong" = "Int128") := by decide
    have h2 : ¬ ("VectorLong" = "Int256") := by decide
    have h3 : ¬ ("VectorLong" = "Bytes") := by decide
    have h4 : ¬ ("VectorLong" = "Int") := by decide
    have h5 : ¬ ("VectorLong" = "Long") := by decide
    simp only [decField, encField, h1, h2, h3, h4, h5, if_false, if_true, List.append_assoc]
    rw [getVectorHeader_put l.length _ hl]
    simp only
    rw [getLongs_put l rest hall]; rfl

/-- The generic record codec round-trips: fields written kind by kind are read back. -/
theorem decFields_encFields : ∀ (ks : List String) (vs : List FV) (rest : Bytes),
    ks.length = vs.length → (∀ p ∈ ks.zip vs, kindOK p.1 p.2 = true) →
    decFields ks (vs.flatMap encField ++ rest) = .ok (vs, rest)
  | [], [], rest, _, _ => by simp [decFields]
  | [], _ :: _, _, h, _ => by simp at h
  | _ :: _, [], _, h, _ => by simp at h
  | k :: ks, v :: vs, rest, hl, hk => by
    have hv : kindOK k v = true := hk (k, v) (by simp)
    have ih := decFields_encFields ks vs rest (by simpa using hl)
      (fun p hp => hk p (by simp [List.zip_cons_cons, hp]))
    simp only [decFields, List.flatMap_cons, List.append_assoc]
    rw [decField_encField k v _ hv]
    simp only
    rw [ih]

theorem collect_ok (fields : String → Option FV) : ∀ (enc : List (String × String)) (vs : List FV),
    collect fields enc = some vs →
    (enc.map (·.1)).length = vs.length ∧ ∀ p ∈ (enc.map (·.1)).zip vs, kindOK p.1 p.2 = true
  | [], vs, h => by
    simp only [collect, Option.some.injEq] at h; subst h; simp
  | kf :: rest, vs, h => by
    simp only [collect] at h
    cases hf : fields kf.2 with
    | none => rw [hf] at h; simp at h
    | some v =>
      rw [hf] at h
      simp only at h
      by_cases hk : kindOK kf.1 v = true
      · rw [if_pos hk] at h
        cases hc : collect fields rest with
        | none => rw [hc] at h; simp at h
        | some vs' =>
          rw [hc] at h
          simp only [Option.map_some, Option.some.injEq] at h
          subst h
          obtain ⟨hl, hall⟩ := collect_ok fields rest vs' hc
          refine ⟨by simp [hl], ?_⟩
          intro p hp
          simp only [List.map_cons, List.zip_cons_cons, List.mem_cons] at hp
          rcases hp with hp | hp
          · subst hp; exact hk
          · exact hall p hp
      · rw [if_neg hk] at h; simp at h

/-- Generic object round trip: whatever `T.Encode` writes, `T.Decode` reads back (field by field,
in layout order), for every constructor whose `EncodeBare` and `DecodeBare` layouts agree. -/
theorem decObj_encObj (T : String) (L : Layout) (hL : layoutOf T = some L)
    (hcons : L.enc.map (·.1) = L.dec) (hid : L.id < 2 ^ 32)
    (fields : String → Option FV) (b rest : Bytes) (h : encObj T fields = some b) :
    ∃ vs, collect fields L.enc = some vs ∧ decObj T (b ++ rest) = .ok ((L.enc.map (·.2)).zip vs, rest) := by
  simp only [encObj, hL] at h
  cases hc : collect fields L.enc with
  | none => rw [hc] at h; simp at h
  | some vs =>
    rw [hc] at h
    simp only [Option.some.injEq] at h
    subst h
    obtain ⟨hl, hall⟩ := collect_ok fields L.enc vs hc
    refine ⟨vs, rfl, ?_⟩
    simp only [decObj, hL, List.append_assoc]
    rw [consumeID_putU32 L.id _ hid]
    simp only
    rw [← hcons, decFields_encFields _ vs rest hl hall]

/-! ### numbers ↔ bytes -/

theorem beNat_append (xs : Bytes) (y : UInt8) : beNat (xs ++ [y]) = beNat xs * 256 + y.toNat := by
  simp [beNat, List.foldl_append]

theorem beNat_natBE : ∀ n : Nat, beNat (natBE n) = n := by
  intro n
  induction n using Nat.strongRecOn with
  | _ n ih =>
    unfold natBE
    by_cases h : n = 0
    · simp [h, beNat]
    · simp only [h, dite_false]
      rw [beNat_append, ih (n / 256) (by omega)]
      have : (UInt8.ofNat (n % 256)).toNat = n % 256 := by
        rw [UInt8.toNat_ofNat']; omega
      rw [this]; omega

theorem natBE_length_le : ∀ (k n : Nat), n < 256 ^ k → (natBE n).length ≤ k := by
  intro k
  induction k with
  | zero => intro n h; have : n = 0 := by simpa using h
            subst this; unfold natBE; simp
  | succ k ih =>
    intro n h
    unfold natBE
    by_cases h0 : n = 0
    · simp [h0]
    · simp only [h0, dite_false, List.length_append, List.length_cons, List.length_nil]
      have : n / 256 < 256 ^ k := by
        rw [Nat.pow_succ] at h
        exact Nat.div_lt_of_lt_mul (by rw [Nat.mul_comm]; exact h)
      have := ih (n / 256) this
      omega

end TdModel.C09
