import TdModel.Model.C12

namespace TdModel.C12

theorem ctxEnd_timed (s : Step) (h : s.timed = true) (start timeout : Nat) (deadline : Option Nat) :
    ∃ t, ctxEnd s start timeout deadline = some t ∧ start ≤ t ∧ t ≤ start + timeout := by
  unfold ctxEnd
  rw [if_pos h]
  cases deadline with
  | none => exact ⟨_, rfl, by omega, by omega⟩
  | some d => exact ⟨_, rfl, by omega, by omega⟩

theorem ioEnd_timed (s : Step) (h : s.timed = true) (start timeout : Nat) (deadline lat : Option Nat) :
    ∃ t, (ioEnd s start timeout deadline lat).1 = some t ∧ start ≤ t ∧ t ≤ start + timeout := by
  obtain ⟨e, he, h1, h2⟩ := ctxEnd_timed s h start timeout deadline
  unfold ioEnd
  rw [he]
  cases lat with
  | none => exact ⟨e, rfl, h1, h2⟩
  | some l =>
    simp only
    split
    · exact ⟨start + l, rfl, by omega, by omega⟩
    · exact ⟨e, rfl, h1, h2⟩

/-- What "bounded" means for one executed call. -/
def Ev.bounded (timeout : Nat) (e : Ev) : Prop := ∃ t, e.stop = some t ∧ e.start ≤ t ∧ t ≤ e.start + timeout

theorem callRun_bounded (s : Step) (h : s.timed = true) (timeout : Nat) (deadline : Option Nat)
    (skips : List Nat) (final : Option Nat) :
    ∀ start, ∀ e ∈ (callRun s timeout deadline skips final start).1, e.bounded timeout := by
  induction skips with
  | nil =>
    intro start e he
    obtain ⟨t, ht, h1, h2⟩ := ioEnd_timed s h start timeout deadline final
    simp only [callRun] at he
    split at he
    · rename_i t' heq
      rw [heq] at ht; simp only [Option.some.injEq] at ht; subst ht
      have := List.mem_singleton.mp he; subst this
      exact ⟨t', rfl, h1, h2⟩
    · rename_i e' b' _ heq
      rw [heq] at ht; simp only at ht
      have := List.mem_singleton.mp he; subst this
      exact ⟨t, ht, h1, h2⟩
  | cons k ks ih =>
    intro start e he
    obtain ⟨t, ht, h1, h2⟩ := ioEnd_timed s h start timeout deadline (some k)
    simp only [callRun] at he
    split at he
    · rename_i t' heq
      rw [heq] at ht; simp only [Option.some.injEq] at ht; subst ht
      split at he
      · rcases List.mem_cons.mp he with h' | h'
        · subst h'; exact ⟨t', rfl, h1, h2⟩
        · exact ih t' e h'
      · have := List.mem_singleton.mp he; subst this
        exact ⟨t', rfl, h1, h2⟩
    · rename_i e' b' _ heq
      rw [heq] at ht; simp only at ht
      have := List.mem_singleton.mp he; subst this
      exact ⟨t, ht, h1, h2⟩

theorem runTrace_bounded (timeout : Nat) (deadline : Option Nat) (sched : List (Step × Beh)) :
    (∀ x ∈ sched, x.1.timed = true) → ∀ now, ∀ e ∈ runTrace timeout deadline sched now, e.bounded timeout := by
  induction sched with
  | nil => intro _ now e he; simp [runTrace] at he
  | cons x rest ih =>
    intro hall now e he
    obtain ⟨s, b⟩ := x
    have hs : s.timed = true := hall (s, b) (by simp)
    have hc := callRun_bounded s hs timeout deadline b.skips b.final (now + b.gap)
    simp only [runTrace] at he
    split at he
    · rcases List.mem_append.mp he with h' | h'
      · exact hc e h'
      · exact ih (fun y hy => hall y (List.mem_cons_of_mem _ hy)) _ e h'
    · exact hc e he

theorem stallAt_timed (ss : List Step) (k gap lat : Nat) (h : ss.all (·.timed) = true) :
    ∀ x ∈ stallAt ss k gap lat, x.1.timed = true := by
  intro x hx
  unfold stallAt at hx
  obtain ⟨⟨i, s⟩, hm, rfl⟩ := List.mem_map.mp hx
  have hs : s ∈ ss := (List.of_mem_zip hm).2
  exact (List.all_eq_true.mp h) s hs

/-- A step against a peer that sends `skips.length` −404 frames: the step as a whole is over within
`(skips.length + 1) · timeout` of its start (each frame re-arms the timeout once). -/
theorem callRun_total (s : Step) (h : s.timed = true) (timeout : Nat) (deadline : Option Nat)
    (skips : List Nat) (final : Option Nat) :
    ∀ start, ∀ e ∈ (callRun s timeout deadline skips final start).1,
      ∃ t, e.stop = some t ∧ t ≤ start + (skips.length + 1) * timeout := by
  induction skips with
  | nil =>
    intro start e he
    obtain ⟨t, ht, h1, h2⟩ := callRun_bounded s h timeout deadline [] final start e he
    have hst : e.start = start := by
      simp only [callRun] at he
      split at he <;> (have := List.mem_singleton.mp he; subst this; rfl)
    exact ⟨t, ht, by simp; omega⟩
  | cons k ks ih =>
    intro start e he
    obtain ⟨t, ht, h1, h2⟩ := ioEnd_timed s h start timeout deadline (some k)
    simp only [callRun] at he
    split at he
    · rename_i t' heq
      rw [heq] at ht; simp only [Option.some.injEq] at ht; subst ht
      split at he
      · rcases List.mem_cons.mp he with h' | h'
        · subst h'
          refine ⟨t', rfl, ?_⟩
          simp only [List.length_cons]
          have : timeout ≤ (ks.length + 1 + 1) * timeout := Nat.le_mul_of_pos_left _ (by omega)
          omega
        · obtain ⟨u, hu, hb⟩ := ih t' e h'
          refine ⟨u, hu, ?_⟩
          simp only [List.length_cons]
          have : (ks.length + 1 + 1) * timeout = (ks.length + 1) * timeout + timeout := by
            rw [Nat.add_mul, Nat.one_mul]
          omega
      · have := List.mem_singleton.mp he; subst this
        refine ⟨t', rfl, ?_⟩
        simp only [List.length_cons]
        have : timeout ≤ (ks.length + 1 + 1) * timeout := Nat.le_mul_of_pos_left _ (by omega)
        omega
    · rename_i e' b' _ heq
      rw [heq] at ht; simp only at ht
      have := List.mem_singleton.mp he; subst this
      refine ⟨t, ht, ?_⟩
      simp only [List.length_cons]
      have : timeout ≤ (ks.length + 1 + 1) * timeout := Nat.le_mul_of_pos_left _ (by omega)
      omega

theorem callRun_done (s : Step) (h : s.timed = true) (timeout : Nat) (deadline : Option Nat)
    (skips : List Nat) (final : Option Nat) :
    ∀ start t, (callRun s timeout deadline skips final start).2 = some t →
      t ≤ start + (skips.length + 1) * timeout := by
  induction skips with
  | nil =>
    intro start t ht
    obtain ⟨u, hu, h1, h2⟩ := ioEnd_timed s h start timeout deadline final
    simp only [callRun] at ht
    split at ht
    · rename_i t' heq
      rw [heq] at hu; simp only [Option.some.injEq] at hu ht; subst hu; subst ht
      simp; omega
    · simp at ht
  | cons k ks ih =>
    intro start t ht
    obtain ⟨u, hu, h1, h2⟩ := ioEnd_timed s h start timeout deadline (some k)
    simp only [callRun] at ht
    split at ht
    · rename_i t' heq
      rw [heq] at hu; simp only [Option.some.injEq] at hu; subst hu
      split at ht
      · have := ih t' t ht
        simp only [List.length_cons]
        have : (ks.length + 1 + 1) * timeout = (ks.length + 1) * timeout + timeout := by
          rw [Nat.add_mul, Nat.one_mul]
        omega
      · simp at ht
    · simp at ht

theorem runTrace_total (timeout : Nat) (deadline : Option Nat) (sched : List (Step × Beh)) :
    (∀ x ∈ sched, x.1.timed = true) → ∀ now, ∀ e ∈ runTrace timeout deadline sched now,
      ∃ t, e.stop = some t ∧ t ≤ now + budget timeout sched := by
  induction sched with
  | nil => intro _ now e he; simp [runTrace] at he
  | cons x rest ih =>
    intro hall now e he
    obtain ⟨s, b⟩ := x
    have hs : s.timed = true := hall (s, b) (by simp)
    have hc := callRun_total s hs timeout deadline b.skips b.final (now + b.gap)
    simp only [runTrace] at he
    simp only [budget]
    split at he
    · rename_i t ht
      rcases List.mem_append.mp he with h' | h'
      · obtain ⟨u, hu, hb⟩ := hc e h'; exact ⟨u, hu, by omega⟩
      · have hd := callRun_done s hs timeout deadline b.skips b.final (now + b.gap) t ht
        obtain ⟨u, hu, hb⟩ := ih (fun y hy => hall y (List.mem_cons_of_mem _ hy)) t e h'
        exact ⟨u, hu, by omega⟩
    · obtain ⟨u, hu, hb⟩ := hc e he; exact ⟨u, hu, by omega⟩
end TdModel.C12
