import TdModel.Model.C12

namespace TdModel.C12

theorem ctxEnd_timed (s : Step) (h : s.timed = true) (start timeout : Nat) (deadline : Option Nat) :
    ∃ t, ctxEnd s start timeout deadline = some t ∧ start ≤ t ∧ t ≤ start + timeout := by
  unfold ctxEnd
  rw [if_pos h]
  cases deadline with
  | none => exact ⟨_, rfl, by omega, by omega⟩
  | some d => exact ⟨_, rfl, by omega, by omega⟩

theorem ioEnd_timed (s : Step) (h : s.timed = true) (start timeout : Nat) (deadline lat : Option Nat) :
    ∃ t, (ioEnd s start timeout deadline lat).1 = some t ∧ start ≤ t ∧ t ≤ start + timeout := by
  obtain ⟨e, he, h1, h2⟩ := ctxEnd_timed s h start timeout deadline
  unfold ioEnd
  rw [he]
  cases lat with
  | none => exact ⟨e, rfl, h1, h2⟩
  | some l =>
    simp only
    split
    · exact ⟨start + l, rfl, by omega, by omega⟩
    · exact ⟨e, rfl, h1, h2⟩

theorem runTrace_bounded (timeout : Nat) (deadline : Option Nat) (sched : List (Step × Nat × Option Nat)) :
    (∀ x ∈ sched, x.1.timed = true) → ∀ now, ∀ e ∈ runTrace timeout deadline sched now,
      ∃ t, e.stop = some t ∧ e.start ≤ t ∧ t ≤ e.start + timeout := by
  induction sched with
  | nil => intro _ now e he; simp [runTrace] at he
  | cons x rest ih =>
    intro hall now e he
    obtain ⟨s, gap, lat⟩ := x
    have hs : s.timed = true := hall (s, gap, lat) (by simp)
    obtain ⟨t, ht, h1, h2⟩ := ioEnd_timed s hs (now + gap) timeout deadline lat
    simp only [runTrace] at he
    split at he
    · rename_i t' heq
      rw [heq] at ht
      simp only [Option.some.injEq] at ht
      subst ht
      rcases List.mem_cons.mp he with h | h
      · subst h; exact ⟨t', rfl, h1, h2⟩
      · exact ih (fun y hy => hall y (List.mem_cons_of_mem _ hy)) t' e h
    · rename_i e' b' _ heq
      rw [heq] at ht
      simp only at ht
      have := List.mem_singleton.mp he
      subst this
      exact ⟨t, ht, h1, h2⟩

theorem stallAt_timed (ss : List Step) (k gap lat : Nat) (h : ss.all (·.timed) = true) :
    ∀ x ∈ stallAt ss k gap lat, x.1.timed = true := by
  intro x hx
  unfold stallAt at hx
  obtain ⟨⟨i, s⟩, hm, rfl⟩ := List.mem_map.mp hx
  have hs : s ∈ ss := (List.of_mem_zip hm).2
  exact (List.all_eq_true.mp h) s hs

end TdModel.C12
