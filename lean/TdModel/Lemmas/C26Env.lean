/- C26 — preservation of `Rpc.Close` by notifier and environment actions; it holds in every reachable state. -/
import TdModel.Lemmas.C26Call
set_option linter.unusedVariables false
namespace TdModel.Rpc

set_option maxHeartbeats 4000000 in
theorem close_nstart {s s' : State} {nid t : Nat} {e : Bool} {v : Nat} (h : Close s) (hi : Inv s)
    (hs : stepNstart s nid t e v = some s') : Close s' := by
  unfold stepNstart at hs
  split at hs
  · simp at hs
  · try dsimp only at hs
    split at hs <;> simp at hs <;> subst hs <;> close_close0

set_option maxHeartbeats 8000000 in
theorem close_nrun {cfg : Cfg} {s s' : State} {nid : Nat} (hg : cfg.std = true) (h : Close s) (hi : Inv s)
    (hs : stepNrun cfg s nid = some s') : Close s' := by
  unfold stepNrun at hs
  std_norm hg at hs
  simp only [casStep] at hs
  split at hs
  · simp at hs
  · split at hs
    all_goals (try (split at hs))
    all_goals (try (split at hs))
    all_goals (try (simp at hs))
    all_goals (try subst hs)
    all_goals close_close0
set_option maxHeartbeats 4000000 in
theorem close_nwrite {s s' : State} {nid : Nat} {o : Outcome} (h : Close s) (hi : Inv s)
    (hs : stepNwrite s nid o = some s') : Close s' := by
  unfold stepNwrite at hs
  split at hs
  · simp at hs
  · split at hs
    · split at hs
      · simp at hs
      · simp at hs; subst hs; close_close0
    · simp at hs

set_option maxHeartbeats 4000000 in
theorem close_ackOne {cfg : Cfg} (hg : cfg.std = true) (s : State) (id : Nat) (h : Close s ∧ Inv s) :
    Close (ackOne cfg s id).1 ∧ Inv (ackOne cfg s id).1 := by
  refine ⟨?_, inv_ackOne hg s id h.2⟩
  obtain ⟨h, hi⟩ := h
  unfold ackOne
  by_cases hk : s.ack id = true
  · simp only [hk, if_true]
    cases hc : s.calls id with
    | none => exact h
    | some c =>
      have hna := hi.ack_unacked id c hk hc
      simp only [hna, Bool.false_eq_true, if_false]
      close_close hg
  · simp only [hk]; exact h

theorem close_ack {cfg : Cfg} (hg : cfg.std = true) {s : State} {ids : List Nat} (h : Close s) (hi : Inv s) :
    Close (stepAck cfg s ids) :=
  (stepAck_induct cfg (P := fun t => Close t ∧ Inv t) (close_ackOne hg) ids s ⟨h, hi⟩).1

set_option maxHeartbeats 4000000 in
theorem close_cancel {s s' : State} {i : Nat} (h : Close s) (hi : Inv s) (hs : stepCancel s i = some s') : Close s' := by
  unfold stepCancel at hs
  split at hs
  · simp at hs
  · split at hs <;> simp at hs <;> subst hs
    · close_close0
    · exact h

set_option maxHeartbeats 4000000 in
theorem close_advance {s : State} {d : Nat} (h : Close s) : Close (stepAdvance s d) := by
  constructor <;> simp [stepAdvance, Call.tickTimer] <;> grind [Close]

theorem close_step {cfg : Cfg} {s s' : State} {a : Action} (hg : cfg.std = true) (h : Close s) (hi : Inv s)
    (hs : step cfg s a = some s') : Close s' := by
  cases a <;> simp only [step] at hs
  · exact close_start h hi hs
  · exact close_sret hg h hi hs
  · exact close_loop hg h hi hs
  · exact close_wait hg h hi hs
  · exact close_dret hg h hi hs
  · exact close_gpass hg h hi hs
  · exact close_nstart h hi hs
  · exact close_nrun hg h hi hs
  · exact close_nwrite h hi hs
  · cases hs; exact close_ack hg h hi
  · exact close_cancel h hi hs
  · cases hs; exact close_advance h
  · split at hs <;> simp at hs; subst hs; constructor <;> simp <;> grind [Close]
  · split at hs <;> simp at hs; subst hs; constructor <;> simp <;> grind [Close]
  · split at hs <;> simp at hs; subst hs; constructor <;> simp <;> grind [Close]

theorem close_run {cfg : Cfg} (hg : cfg.std = true) {as : List Action} {s s' : State} (h : Close s) (hi : Inv s)
    (hs : run cfg s as = some s') : Close s' := by
  induction as generalizing s with
  | nil => simp [run] at hs; subst hs; exact h
  | cons a as ih =>
    simp only [run] at hs
    split at hs
    · next s1 h1 => exact ih (close_step hg h hi h1) (inv_step hg hi h1) hs
    · simp at hs

theorem reachable_close {cfg : Cfg} (hg : cfg.std = true) {s : State} (h : Reachable cfg s) : Close s := by
  obtain ⟨as, hs⟩ := h
  exact close_run hg close_init inv_init hs

end TdModel.Rpc
