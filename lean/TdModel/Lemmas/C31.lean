/-
C31 — helper lemmas for the crash model (core Lean only).
-/
import TdModel.Model.C31

namespace TdModel.C31
open TdModel

theorem overwrite_end (c d : Bytes) : overwrite c c.length d = c ++ d := by
  simp [overwrite]

theorem run_cons (op : Op) (l : List Op) (s : FS) : run (op :: l) s = run l (step s op) := rfl

theorem run_append (a b : List Op) (s : FS) : run (a ++ b) s = run b (run a s) := by
  simp [run, List.foldl_append]

theorem head_mem_crashStates (l : List Op) (s : FS) : s ∈ crashStates l s := by
  cases l <;> simp [crashStates]

theorem run_mem_crashStates (l : List Op) (s : FS) : run l s ∈ crashStates l s := by
  induction l generalizing s with
  | nil => simp [crashStates, run]
  | cons op rest ih =>
    simp only [crashStates, run_cons, List.mem_cons, List.mem_append]
    exact Or.inr (Or.inr (ih _))

theorem mem_crashStates_append (a b : List Op) (s x : FS) :
    x ∈ crashStates (a ++ b) s ↔ x ∈ crashStates a s ∨ x ∈ crashStates b (run a s) := by
  induction a generalizing s with
  | nil =>
    simp only [List.nil_append, crashStates, run, List.foldl_nil, List.mem_singleton]
    constructor
    · exact Or.inr
    · rintro (h | h)
      · subst h; exact head_mem_crashStates b _
      · exact h
  | cons op rest ih =>
    simp only [List.cons_append, crashStates, List.mem_cons, List.mem_append, ih, run_cons]
    constructor
    · rintro (h | h | h | h)
      · exact Or.inl (Or.inl h)
      · exact Or.inl (Or.inr (Or.inl h))
      · exact Or.inl (Or.inr (Or.inr h))
      · exact Or.inr h
    · rintro ((h | h | h) | h)
      · exact Or.inl h
      · exact Or.inr (Or.inl h)
      · exact Or.inr (Or.inr (Or.inl h))
      · exact Or.inr (Or.inr (Or.inr h))

/-- A predicate kept by every call of `l` (and by every cut of its writes) holds in every crash
state of `l` and in its final state. -/
theorem crash_inv (P : FS → Prop) (l : List Op)
    (hstep : ∀ op ∈ l, ∀ s, P s → P (step s op) ∧ ∀ p ∈ partials s op, P p)
    (s : FS) (hs : P s) : (∀ x ∈ crashStates l s, P x) ∧ P (run l s) := by
  induction l generalizing s with
  | nil =>
    simp only [crashStates, run, List.foldl_nil, List.mem_singleton]
    exact ⟨fun x hx => hx ▸ hs, hs⟩
  | cons op rest ih =>
    have h1 := hstep op (List.mem_cons_self) s hs
    have h2 := ih (fun o ho => hstep o (List.mem_cons_of_mem _ ho)) (step s op) h1.1
    refine ⟨?_, by rw [run_cons]; exact h2.2⟩
    intro x hx
    simp only [crashStates, List.mem_cons, List.mem_append] at hx
    rcases hx with hx | hx | hx
    · exact hx ▸ hs
    · exact h1.2 x hx
    · exact h2.1 x hx

/-! ### safety predicate -/

/-- In every directory version that may be on disk, `path` is either absent (only allowed when
there was no previous file) or bound to a *clean* inode holding the old or the new content. -/
def SafeAt (s : FS) (path : String) (old : Option Bytes) (new : Bytes) : Prop :=
  ∀ d ∈ durableDirs s, ∀ r, r = d path →
    match r with
    | none => old = none
    | some i => (s.ino i).hist = [] ∧ (some (s.ino i).cur = old ∨ (s.ino i).cur = new)

theorem SafeAt.readCur {s : FS} {path : String} {old : Option Bytes} {new : Bytes}
    (h : SafeAt s path old new) : readCur s path = old ∨ readCur s path = some new := by
  have h1 := h s.dir (by simp [durableDirs]) (s.dir path) rfl
  unfold C31.readCur
  cases hd : s.dir path with
  | none => rw [hd] at h1; simp at h1; simp [h1]
  | some i =>
    rw [hd] at h1; simp only at h1
    rcases h1.2 with h2 | h2
    · left; simp [h2]
    · right; simp [h2]

theorem SafeAt.plReads {s : FS} {path : String} {old : Option Bytes} {new : Bytes}
    (h : SafeAt s path old new) : ∀ r ∈ plReads s path, r = old ∨ r = some new := by
  intro r hr
  simp only [C31.plReads, List.mem_flatMap] at hr
  obtain ⟨d, hd, hr⟩ := hr
  have h1 := h d hd (d path) rfl
  cases hp : d path with
  | none =>
    rw [hp] at h1 hr; simp at h1 hr; left; rw [hr, h1]
  | some i =>
    rw [hp] at h1 hr; simp only at h1
    simp only [durableContents, h1.1, List.nil_append, List.map_cons, List.map_nil,
      List.mem_singleton] at hr
    rcases h1.2 with h2 | h2
    · left; rw [hr, h2]
    · right; rw [hr, h2]

theorem safeAt_of_quiescent {s0 : FS} {path : String} (hq : Quiescent s0 path) (new : Bytes) :
    SafeAt s0 path (readCur s0 path) new := by
  intro d hd r hr
  have hdp : d path = s0.dir path := by
    simp only [durableDirs, List.mem_append, List.mem_singleton] at hd
    rcases hd with hd | hd
    · exact hq.1 d hd
    · rw [hd]
  subst hr
  rw [hdp]
  cases hp : s0.dir path with
  | none => simp [readCur, hp]
  | some i => simp [readCur, hp, (hq.2 i hp).2]

/-! ### phase 1: temporary file open, being written -/

structure Inv1 (s0 : FS) (path tmp : String) (fd : Nat) (acc : Bytes) (s : FS) : Prop where
  next : s.next = s0.next + 1
  dirPath : s.dir path = s0.dir path
  histPath : ∀ d ∈ s.dirHist, d path = s0.dir path
  inoSame : ∀ i, i ≠ s0.next → s.ino i = s0.ino i
  fdE : s.fds fd = some ⟨some s0.next, acc.length, false⟩
  dirTmp : s.dir tmp = some s0.next
  cur : (s.ino s0.next).cur = acc

theorem inv1_open {s0 : FS} {path tmp : String} (fd : Nat) (trunc : Bool)
    (hq : Quiescent s0 path) (hfresh : s0.dir tmp = none) (hne : tmp ≠ path) :
    Inv1 s0 path tmp fd [] (step s0 (.openF fd tmp true true trunc false)) := by
  simp only [step, hfresh, if_true]
  constructor
  · rfl
  · simp [updS, Ne.symm hne]
  · intro d hd
    simp only [List.mem_append, List.mem_singleton] at hd
    rcases hd with hd | hd
    · exact hq.1 d hd
    · rw [hd]
  · intro i hi; simp [upd, hi]
  · simp [upd]
  · simp [updS]
  · simp [upd]

theorem inv1_write {s0 : FS} {path tmp : String} {fd : Nat} {acc : Bytes} {s : FS}
    (h : Inv1 s0 path tmp fd acc s) (d : Bytes) :
    Inv1 s0 path tmp fd (acc ++ d) (step s (.write fd d)) := by
  simp only [step, h.fdE]
  constructor
  · exact h.next
  · exact h.dirPath
  · exact h.histPath
  · intro i hi; simp [upd, hi, h.inoSame i hi]
  · simp [upd]
  · exact h.dirTmp
  · simp [upd, h.cur, overwrite_end]

theorem inv1_safe {s0 : FS} {path tmp : String} {fd : Nat} {acc : Bytes} {s : FS}
    (hq : Quiescent s0 path) (h : Inv1 s0 path tmp fd acc s) (new : Bytes) :
    SafeAt s path (readCur s0 path) new := by
  intro d hd r hr
  have hdp : d path = s0.dir path := by
    simp only [durableDirs, List.mem_append, List.mem_singleton] at hd
    rcases hd with hd | hd
    · exact h.histPath d hd
    · rw [hd]; exact h.dirPath
  subst hr
  rw [hdp]
  cases hp : s0.dir path with
  | none => simp [readCur, hp]
  | some i =>
    have hi := hq.2 i hp
    have hne : i ≠ s0.next := Nat.ne_of_lt hi.1
    simp [readCur, hp, h.inoSame i hne, hi.2]

/-- All crash states while the temporary file is being written are in phase 1, and the phase
ends with the whole of the chunks in the temporary file. -/
theorem inv1_writes {s0 : FS} {path tmp : String} {fd : Nat} (cs : List Bytes) :
    ∀ (acc : Bytes) (s : FS), Inv1 s0 path tmp fd acc s →
      (∀ x ∈ crashStates (cs.map (Op.write fd)) s, ∃ a, Inv1 s0 path tmp fd a x) ∧
      Inv1 s0 path tmp fd (acc ++ cs.flatten) (run (cs.map (Op.write fd)) s) := by
  induction cs with
  | nil =>
    intro acc s h
    simp only [List.map_nil, crashStates, List.mem_singleton, List.flatten_nil, List.append_nil, run,
      List.foldl_nil]
    exact ⟨fun x hx => ⟨acc, hx ▸ h⟩, h⟩
  | cons c rest ih =>
    intro acc s h
    have h1 := inv1_write h c
    have h2 := ih (acc ++ c) _ h1
    refine ⟨?_, ?_⟩
    · intro x hx
      simp only [List.map_cons, crashStates, List.mem_cons, List.mem_append, partials, List.mem_map,
        List.mem_range] at hx
      rcases hx with hx | ⟨k, _, hx⟩ | hx
      · exact ⟨acc, hx ▸ h⟩
      · exact ⟨_, hx ▸ inv1_write h (c.take k)⟩
      · exact h2.1 x hx
    · simp only [List.map_cons, run_cons, List.flatten_cons, ← List.append_assoc]
      exact h2.2

/-! ### phase 2: temporary file complete and on disk, not yet renamed -/

structure Inv2 (s0 : FS) (path tmp : String) (new : Bytes) (s : FS) : Prop where
  next : s.next = s0.next + 1
  dirPath : s.dir path = s0.dir path
  histPath : ∀ d ∈ s.dirHist, d path = s0.dir path
  inoSame : ∀ i, i ≠ s0.next → s.ino i = s0.ino i
  dirTmp : s.dir tmp = some s0.next
  cur : (s.ino s0.next).cur = new
  clean : (s.ino s0.next).hist = []

theorem inv2_fsync {s0 : FS} {path tmp : String} {fd : Nat} {new : Bytes} {s : FS}
    (h : Inv1 s0 path tmp fd new s) : Inv2 s0 path tmp new (step s (.fsync fd)) := by
  simp only [step, h.fdE]
  constructor
  · exact h.next
  · exact h.dirPath
  · exact h.histPath
  · intro i hi; simp [upd, hi, h.inoSame i hi]
  · exact h.dirTmp
  · simp [upd, h.cur]
  · simp [upd]

theorem inv2_close {s0 : FS} {path tmp : String} {new : Bytes} {s : FS} (fd : Nat)
    (h : Inv2 s0 path tmp new s) : Inv2 s0 path tmp new (step s (.close fd)) := by
  simp only [step]
  exact ⟨h.next, h.dirPath, h.histPath, h.inoSame, h.dirTmp, h.cur, h.clean⟩

theorem inv2_safe {s0 : FS} {path tmp : String} {new : Bytes} {s : FS}
    (hq : Quiescent s0 path) (h : Inv2 s0 path tmp new s) :
    SafeAt s path (readCur s0 path) new := by
  intro d hd r hr
  have hdp : d path = s0.dir path := by
    simp only [durableDirs, List.mem_append, List.mem_singleton] at hd
    rcases hd with hd | hd
    · exact h.histPath d hd
    · rw [hd]; exact h.dirPath
  subst hr
  rw [hdp]
  cases hp : s0.dir path with
  | none => simp [readCur, hp]
  | some i =>
    have hi := hq.2 i hp
    have hne : i ≠ s0.next := Nat.ne_of_lt hi.1
    simp [readCur, hp, h.inoSame i hne, hi.2]

/-- The rename publishes the complete, synced temporary file. -/
theorem safe_rename {s0 : FS} {path tmp : String} {new : Bytes} {s : FS}
    (hq : Quiescent s0 path) (hne : tmp ≠ path) (h : Inv2 s0 path tmp new s) :
    SafeAt (step s (.rename tmp path)) path (readCur s0 path) new ∧
      readCur (step s (.rename tmp path)) path = some new := by
  have hs := inv2_safe hq h
  simp only [step, h.dirTmp, hne, if_false]
  constructor
  · intro d hd r hr
    simp only [durableDirs, List.mem_append, List.mem_singleton] at hd
    rcases hd with (hd | hd) | hd
    · exact hs d (by simp [durableDirs, hd]) r hr
    · exact hs d (by simp [durableDirs, hd]) r hr
    · subst hr
      rw [hd]
      simp [h.clean, h.cur]
  · simp [readCur, h.cur]

/-- Directory-sync bookkeeping keeps `SafeAt` and what `path` reads. -/
theorem safe_harmless {s : FS} {path : String} {old : Option Bytes} {new : Bytes} (op : Op)
    (hop : op.harmless = true) (h : SafeAt s path old new) :
    SafeAt (step s op) path old new ∧ readCur (step s op) path = readCur s path ∧
      ∀ p ∈ partials s op, SafeAt p path old new := by
  cases op with
  | openDir fd => exact ⟨h, rfl, by simp [partials]⟩
  | close fd => exact ⟨h, rfl, by simp [partials]⟩
  | fsync fd =>
    refine ⟨?_, ?_, by simp [partials]⟩
    · simp only [step]
      split
      · rename_i i _ _ _
        intro d hd r hr
        have h1 := h d hd r hr
        cases r with
        | none => exact h1
        | some j =>
          simp only at h1 ⊢
          by_cases hj : j = i
          · subst hj; exact ⟨by simp [upd], by simpa [upd] using h1.2⟩
          · simpa [upd, hj] using h1
      · intro d hd r hr
        refine h d ?_ r hr
        simp only [durableDirs, List.nil_append, List.mem_singleton] at hd
        simp [durableDirs, hd]
      · exact h
    · simp only [step]
      split
      · rename_i i _ _ _
        unfold readCur
        cases hp : s.dir path with
        | none => rfl
        | some j =>
          simp only [Option.map_some]
          by_cases hj : j = i
          · subst hj; simp [upd]
          · simp [upd, hj]
      · rfl
      · rfl
  | openF _ _ _ _ _ _ => simp [Op.harmless] at hop
  | write _ _ => simp [Op.harmless] at hop
  | rename _ _ => simp [Op.harmless] at hop
  | ftruncate _ _ => simp [Op.harmless] at hop
  | unlink _ => simp [Op.harmless] at hop
  | other _ => simp [Op.harmless] at hop

/-! ### recognising the shape -/

theorem splitWrites_spec (fd : Nat) (l : List Op) :
    l = (splitWrites fd l).1.map (Op.write fd) ++ (splitWrites fd l).2 := by
  induction l with
  | nil => simp [splitWrites]
  | cons op rest ih =>
    cases op with
    | write fd' d =>
      simp only [splitWrites]
      split
      · rename_i hfd
        subst hfd
        simp only [List.map_cons, List.cons_append]
        rw [← ih]
      · simp
    | _ => simp [splitWrites]

theorem isAtomicReplace_shape {tr : List Op} {path : String} {new : Bytes}
    (h : isAtomicReplace tr path new = true) :
    ∃ fd tmp trunc chunks tail, tr = atomicTrace fd tmp path trunc chunks tail ∧ tmp ≠ path ∧
      chunks.flatten = new ∧ (∀ op ∈ tail, op.harmless = true) := by
  unfold isAtomicReplace at h
  split at h
  · rename_i fd tmp trunc rest
    split at h
    · rename_i f1 f2 a b tail hsplit
      simp only [Bool.and_eq_true, decide_eq_true_eq, List.all_eq_true] at h
      obtain ⟨⟨⟨⟨⟨⟨h1, h2⟩, h3⟩, h4⟩, h5⟩, h6⟩, h7⟩ := h
      refine ⟨fd, tmp, trunc, (splitWrites fd rest).1, tail, ?_, by simpa using h5, h6, h7⟩
      subst h1 h2 h3 h4
      unfold atomicTrace
      rw [← hsplit, ← splitWrites_spec]
    · simp at h
  · simp at h

theorem isAtomicReplace_atomicTrace (fd : Nat) (tmp path : String) (trunc : Bool) (chunks : List Bytes)
    (tail : List Op) (hne : tmp ≠ path) (htail : tail.all Op.harmless = true) :
    isAtomicReplace (atomicTrace fd tmp path trunc chunks tail) path chunks.flatten = true := by
  have hs : ∀ cs : List Bytes,
      splitWrites fd (cs.map (Op.write fd) ++ (.fsync fd :: .close fd :: .rename tmp path :: tail)) =
        (cs, .fsync fd :: .close fd :: .rename tmp path :: tail) := by
    intro cs
    induction cs with
    | nil => simp [splitWrites]
    | cons c r ih => simp [splitWrites, ih]
  simp [atomicTrace, isAtomicReplace, hs, hne, htail]

/-! ### the whole trace -/

theorem atomicTrace_safe {s0 : FS} {fd : Nat} {tmp path : String} {trunc : Bool} {chunks : List Bytes}
    {tail : List Op} (hq : Quiescent s0 path) (hfresh : s0.dir tmp = none) (hne : tmp ≠ path)
    (htail : ∀ op ∈ tail, op.harmless = true) :
    (∀ s ∈ crashStates (atomicTrace fd tmp path trunc chunks tail) s0,
        SafeAt s path (readCur s0 path) chunks.flatten) ∧
      readCur (run (atomicTrace fd tmp path trunc chunks tail) s0) path = some chunks.flatten := by
  let new := chunks.flatten
  let old := readCur s0 path
  have h0 := safeAt_of_quiescent hq new
  have h1 := inv1_open fd trunc hq hfresh hne
  have hw := inv1_writes chunks [] _ h1
  have hend := hw.2
  simp only [List.nil_append] at hend
  have hf := inv2_fsync hend
  have hc := inv2_close fd hf
  have hr := safe_rename hq hne hc
  have ht := crash_inv (fun s => SafeAt s path old new ∧ readCur s path = some new) tail
    (by
      intro op hop s hs
      have := safe_harmless op (htail op hop) hs.1
      have hh := htail op hop
      exact ⟨⟨this.1, by rw [this.2.1]; exact hs.2⟩, fun p hp => by
        cases op <;> simp [partials, Op.harmless] at hp hh⟩)
    _ hr
  constructor
  · intro s hs
    simp only [atomicTrace, crashStates, List.mem_cons, partials, List.nil_append,
      mem_crashStates_append] at hs
    rcases hs with hs | hs | hs
    · exact hs ▸ h0
    · obtain ⟨a, ha⟩ := hw.1 s hs
      exact inv1_safe hq ha new
    · rcases hs with hs | hs | hs | hs
      · exact hs ▸ inv1_safe hq hend new
      · exact hs ▸ inv2_safe hq hf
      · exact hs ▸ inv2_safe hq hc
      · exact (ht.1 s hs).1
  · simp only [atomicTrace, run_cons, run_append]
    exact ht.2.2

/-! ### durability of the completed save, chains of saves -/

/-- From the rename on: `path` is bound to a clean inode holding the new content. -/
def Done (path : String) (new : Bytes) (s : FS) : Prop :=
  ∃ n, s.dir path = some n ∧ n < s.next ∧ (s.ino n).hist = [] ∧ (s.ino n).cur = new

theorem done_rename {s0 : FS} {path tmp : String} {new : Bytes} {s : FS} (hne : tmp ≠ path)
    (h : Inv2 s0 path tmp new s) : Done path new (step s (.rename tmp path)) := by
  simp only [step, h.dirTmp, hne, if_false]
  exact ⟨s0.next, by simp, by rw [h.next]; omega, h.clean, h.cur⟩

theorem done_harmless {s : FS} {path : String} {new : Bytes} (op : Op) (hop : op.harmless = true)
    (h : Done path new s) : Done path new (step s op) := by
  obtain ⟨n, h1, h2, h3, h4⟩ := h
  cases op with
  | openDir fd => exact ⟨n, h1, h2, h3, h4⟩
  | close fd => exact ⟨n, h1, h2, h3, h4⟩
  | fsync fd =>
    simp only [step]
    split
    · rename_i i _ _ _
      refine ⟨n, h1, h2, ?_, ?_⟩
      · by_cases hn : n = i
        · subst hn; simp [upd]
        · simp [upd, hn, h3]
      · by_cases hn : n = i
        · subst hn; simp [upd, h4]
        · simp [upd, hn, h4]
    · exact ⟨n, h1, h2, h3, h4⟩
    · exact ⟨n, h1, h2, h3, h4⟩
  | openF _ _ _ _ _ _ => simp [Op.harmless] at hop
  | write _ _ => simp [Op.harmless] at hop
  | rename _ _ => simp [Op.harmless] at hop
  | ftruncate _ _ => simp [Op.harmless] at hop
  | unlink _ => simp [Op.harmless] at hop
  | other _ => simp [Op.harmless] at hop

theorem dirHist_harmless {s : FS} (op : Op) (hop : op.harmless = true) (h : s.dirHist = []) :
    (step s op).dirHist = [] := by
  cases op with
  | openDir fd => exact h
  | close fd => exact h
  | fsync fd => simp only [step]; split <;> simp [h]
  | openF _ _ _ _ _ _ => simp [Op.harmless] at hop
  | write _ _ => simp [Op.harmless] at hop
  | rename _ _ => simp [Op.harmless] at hop
  | ftruncate _ _ => simp [Op.harmless] at hop
  | unlink _ => simp [Op.harmless] at hop
  | other _ => simp [Op.harmless] at hop

theorem run_harmless_dirHist (l : List Op) : ∀ (s : FS), (∀ op ∈ l, op.harmless = true) → s.dirHist = [] →
    (run l s).dirHist = [] := by
  induction l with
  | nil => intro s _ h; exact h
  | cons op r ih =>
    intro s hl h
    rw [run_cons]
    exact ih _ (fun o ho => hl o (List.mem_cons_of_mem _ ho)) (dirHist_harmless op (hl op List.mem_cons_self) h)

theorem run_harmless_done (l : List Op) {path : String} {new : Bytes} : ∀ (s : FS),
    (∀ op ∈ l, op.harmless = true) → Done path new s → Done path new (run l s) := by
  induction l with
  | nil => intro s _ h; exact h
  | cons op r ih =>
    intro s hl h
    rw [run_cons]
    exact ih _ (fun o ho => hl o (List.mem_cons_of_mem _ ho)) (done_harmless op (hl op List.mem_cons_self) h)

/-- A tail that opens and fsyncs the directory leaves no un-synced directory version. -/
theorem run_tailDirSync (l : List Op) : ∀ (s : FS), (∀ op ∈ l, op.harmless = true) → tailDirSync l = true →
    (run l s).dirHist = [] := by
  induction l with
  | nil => intro s _ h; simp [tailDirSync] at h
  | cons op r ih =>
    intro s hl h
    simp only [tailDirSync, Bool.or_eq_true] at h
    rcases h with h | h
    · split at h
      · rename_i d d' r2
        simp only [Bool.and_eq_true, decide_eq_true_eq] at h
        obtain ⟨hd, _⟩ := h
        subst hd
        have hr2 : ∀ o ∈ r2, o.harmless = true :=
          fun o ho => hl o (List.mem_cons_of_mem _ (List.mem_cons_of_mem _ ho))
        rw [run_cons, run_cons]
        apply run_harmless_dirHist r2 _ hr2
        simp [step, upd]
      · simp at h
    · rw [run_cons]
      exact ih _ (fun o ho => hl o (List.mem_cons_of_mem _ ho)) h

theorem quiescent_of_done {s : FS} {path : String} {new : Bytes} (h : Done path new s)
    (hd : s.dirHist = []) : Quiescent s path ∧ readCur s path = some new := by
  obtain ⟨n, h1, h2, h3, h4⟩ := h
  refine ⟨⟨by simp [hd], ?_⟩, by simp [readCur, h1, h4]⟩
  intro i hi
  rw [h1] at hi
  cases hi
  exact ⟨h2, h3⟩

theorem atomicTrace_quiescent {s0 : FS} {fd : Nat} {tmp path : String} {trunc : Bool} {chunks : List Bytes}
    {tail : List Op} (hq : Quiescent s0 path) (hfresh : s0.dir tmp = none) (hne : tmp ≠ path)
    (htail : ∀ op ∈ tail, op.harmless = true) (hsync : tailDirSync tail = true) :
    Quiescent (run (atomicTrace fd tmp path trunc chunks tail) s0) path := by
  have h1 := inv1_open fd trunc hq hfresh hne
  have hend := (inv1_writes chunks [] _ h1).2
  simp only [List.nil_append] at hend
  have hc := inv2_close fd (inv2_fsync hend)
  have hd := done_rename hne hc
  simp only [atomicTrace, run_cons, run_append]
  exact (quiescent_of_done (run_harmless_done tail _ htail hd) (run_tailDirSync tail _ htail hsync)).1

theorem tailOf_atomicTrace (fd : Nat) (tmp path : String) (trunc : Bool) (chunks : List Bytes)
    (tail : List Op) : tailOf (atomicTrace fd tmp path trunc chunks tail) = tail := by
  have hs : ∀ cs : List Bytes,
      splitWrites fd (cs.map (Op.write fd) ++ (.fsync fd :: .close fd :: .rename tmp path :: tail)) =
        (cs, .fsync fd :: .close fd :: .rename tmp path :: tail) := by
    intro cs
    induction cs with
    | nil => simp [splitWrites]
    | cons c r ih => simp [splitWrites, ih]
  simp [atomicTrace, tailOf, hs]

/-- One durable save: safe at every crash point, and it leaves a quiescent state reading `new`. -/
theorem durable_save {s0 : FS} {tr : List Op} {path : String} {new : Bytes} (hq : Quiescent s0 path)
    (hfresh : ∀ t, tmpOf tr = some t → s0.dir t = none) (h : isDurableReplace tr path new = true) :
    (∀ s ∈ crashStates tr s0, ∀ r ∈ plReads s path, r = readCur s0 path ∨ r = some new) ∧
      Quiescent (run tr s0) path ∧ readCur (run tr s0) path = some new := by
  simp only [isDurableReplace, Bool.and_eq_true] at h
  obtain ⟨fd, tmp, trunc, chunks, tail, rfl, hne, rfl, htail⟩ := isAtomicReplace_shape h.1
  have hs := atomicTrace_safe (fd := fd) (trunc := trunc) (chunks := chunks) hq (hfresh tmp rfl) hne htail
  have hsync := h.2
  rw [tailOf_atomicTrace] at hsync
  exact ⟨fun s hs' => (hs.1 s hs').plReads, atomicTrace_quiescent hq (hfresh tmp rfl) hne htail hsync, hs.2⟩

/-- Any number of durable saves in a row: at every crash point of the whole sequence, under power
loss, `path` holds the content it had at the start or the complete content of one of the saves. -/
theorem saves_safe (path : String) (saves : List (List Op × Bytes)) : ∀ (s0 : FS), Quiescent s0 path →
    SavesOK path s0 saves →
    ∀ s ∈ crashStates (saves.flatMap (·.1)) s0, ∀ r ∈ plReads s path,
      r = readCur s0 path ∨ ∃ sv ∈ saves, r = some sv.2 := by
  induction saves with
  | nil =>
    intro s0 hq _ s hs r hr
    simp only [List.flatMap_nil, crashStates, List.mem_singleton] at hs
    subst hs
    rcases (safeAt_of_quiescent hq []).plReads r hr with h | h
    · exact Or.inl h
    · exact Or.inl (by
        -- `new = []` was an arbitrary choice; re-run with a content that cannot be read
        rcases (safeAt_of_quiescent hq [0]).plReads r hr with h' | h'
        · exact h'
        · rw [h] at h'; simp at h')
  | cons sv rest ih =>
    intro s0 hq hok s hs r hr
    obtain ⟨hd, hfresh, hrest⟩ := hok
    have h1 := durable_save hq hfresh hd
    simp only [List.flatMap_cons, mem_crashStates_append] at hs
    rcases hs with hs | hs
    · rcases h1.1 s hs r hr with h | h
      · exact Or.inl h
      · exact Or.inr ⟨sv, List.mem_cons_self, h⟩
    · rcases ih _ h1.2.1 hrest s hs r hr with h | ⟨sv', hm, h⟩
      · rw [h1.2.2] at h
        exact Or.inr ⟨sv, List.mem_cons_self, h⟩
      · exact Or.inr ⟨sv', List.mem_cons_of_mem _ hm, h⟩

/-! ### the unsafe variants -/

/-- `os.WriteFile` over an existing file: right after the `O_TRUNC` open the file is empty. -/
theorem truncWrite_crash_empty (s0 : FS) (fd : Nat) (path : String) (old : Bytes) (chunks : List Bytes)
    (hold : readCur s0 path = some old) :
    ∃ s ∈ crashStates (truncWriteTrace fd path chunks) s0, readCur s path = some [] := by
  refine ⟨step s0 (.openF fd path true false true false), ?_, ?_⟩
  · simp only [truncWriteTrace, crashStates, List.mem_cons, List.mem_append]
    exact Or.inr (Or.inr (head_mem_crashStates _ _))
  · unfold readCur at hold ⊢
    cases hp : s0.dir path with
    | none => simp [hp] at hold
    | some i => simp [step, hp, upd]

/-- Write-then-rename without fsync: after a power loss the renamed file may be empty. -/
theorem unsynced_final_plReads (s0 : FS) (fd : Nat) (tmp path : String) (new : Bytes)
    (hfresh : s0.dir tmp = none) (hne : tmp ≠ path) :
    some [] ∈ plReads (run (unsyncedTrace fd tmp path [new]) s0) path := by
  simp [unsyncedTrace, run, step, hfresh, upd, updS, plReads, durableDirs, durableContents, hne]

theorem lookupIdx_lt (n : String) (es : List (String × Bytes)) (k i : Nat)
    (h : lookupIdx n es k = some i) : i < k + es.length := by
  induction es generalizing k with
  | nil => simp [lookupIdx] at h
  | cons e r ih =>
    simp only [lookupIdx] at h
    split at h
    · simp only [Option.some.injEq] at h; simp only [List.length_cons]; omega
    · have := ih (k + 1) h; simp only [List.length_cons]; omega

theorem initFS_quiescent (ents : List (String × Bytes)) (path : String) : Quiescent (initFS ents) path := by
  refine ⟨by simp [initFS], ?_⟩
  intro i hi
  have := lookupIdx_lt path ents 0 i hi
  exact ⟨by simpa [initFS] using this, rfl⟩

end TdModel.C31
