/-
Helper lemmas for C20: the functions assembled from regenerated pieces (Model/C20.lean) equal the
hand-written transliterations (Model/Bin.lean) on every input.
-/
import TdModel.Model.C20
import TdModel.Lemmas.Bin

namespace TdModel.C20
open TdModel TdModel.Bin

theorem padG (l : Nat) : Facts.C20.nearestPaddedValueLength (l : Int) = (padded l : Int) := by
  unfold Facts.C20.nearestPaddedValueLength padded Bin.word
  have h : Int.tdiv (l : Int) 4 = (l : Int) / 4 := Int.tdiv_eq_ediv_of_nonneg (by omega)
  simp only [h]
  split <;> split <;> simp_all <;> omega

theorem padG' (l : Int) (h : 0 ≤ l) : Facts.C20.nearestPaddedValueLength l = (padded l.toNat : Int) := by
  have := padG l.toNat
  rw [Int.toNat_of_nonneg h] at this
  exact this

theorem u8_mod (n : Nat) : UInt8.ofNat (n % 256) = UInt8.ofNat n := by
  apply UInt8.toNat_inj.mp
  simp [UInt8.toNat_ofNat']

theorem u8_congr (a b : Nat) (h : a % 256 = b % 256) : UInt8.ofNat a = UInt8.ofNat b := by
  rw [← u8_mod a, ← u8_mod b, h]

theorem or2 (x y : Nat) (hx : x < 256) : (x ||| y * 256) = y * 256 + x := by
  have h1 : y * 256 = y <<< 8 := by rw [Nat.shiftLeft_eq]
  have hx' : x < 2 ^ 8 := by omega
  rw [h1, Nat.or_comm, ← Nat.shiftLeft_add_eq_or_of_lt hx']

theorem or2' (w z : Nat) (hw : w < 65536) : (w ||| z * 65536) = z * 65536 + w := by
  have h1 : z * 65536 = z <<< 16 := by rw [Nat.shiftLeft_eq]
  have hw' : w < 2 ^ 16 := by omega
  rw [h1, Nat.or_comm, ← Nat.shiftLeft_add_eq_or_of_lt hw']

theorem or3 (x y z : Nat) (hx : x < 256) (hy : y < 256) :
    (x ||| y * 256) ||| z * 65536 = x + 256 * (y + 256 * z) := by
  rw [or2 x y hx, or2' _ z (by omega)]; omega

theorem ite_bool {α : Type} (c : Bool) (q : Prop) [Decidable q] (h : c = true ↔ q) (a b : α) :
    (if c then a else b) = (if q then a else b) := by
  by_cases hq : q
  · have hp : c = true := h.mpr hq
    simp [hp, hq]
  · have hp : ¬ c = true := fun x => hq (h.mp x)
    simp [hp, hq]

/-! ### Encoders -/

/-- What the translated pieces of an encoder have to mean (stated on naturals). -/
structure EncFacts.Sound (E : EncFacts) : Prop where
  short : ∀ l : Nat, E.short (l : Int) = true ↔ l ≤ 253
  shortHdr : ∀ l : Nat, toBytes (E.shortHdr (l : Int)) = [UInt8.ofNat l]
  shortPad : ∀ l : Nat, (E.shortPad (E.shortCur (l : Int))).toNat = padded (l + 1) - (l + 1)
  shortOrder : E.shortOrder = ["hdr", "payload", "pad"]
  longHdr : ∀ l : Nat, toBytes (E.longHdr (l : Int))
    = [UInt8.ofNat 254, UInt8.ofNat l, UInt8.ofNat (l / 256), UInt8.ofNat (l / 65536)]
  longPad : ∀ l : Nat, (E.longPad (E.longCur (l : Int))).toNat = padded (l + 4) - (l + 4)
  longOrder : E.longOrder = ["hdr", "payload", "pad"]

theorem putBytesG_sound (E : EncFacts) (h : E.Sound) (v : Bytes) : putBytesG E v = some (putBytes v) := by
  unfold putBytesG putBytes maxSmall firstLong
  simp only
  rw [ite_bool _ (v.length ≤ 253) (h.short v.length)]
  by_cases hs : v.length ≤ 253
  · rw [if_pos hs, if_pos hs, h.shortPad, h.shortHdr, h.shortOrder]
    simp [assemble]
  · rw [if_neg hs, if_neg hs, h.longPad, h.longHdr, h.longOrder]
    simp [assemble]

theorem padDiff (c : Nat) : (Facts.C20.nearestPaddedValueLength (c : Int) - (c : Int)).toNat = padded c - c := by
  rw [padG]; have := padded_ge c; omega

theorem encB_sound : encB.Sound where
  short := by intro l; simp [encB, Facts.C20.encB_short] <;> omega
  shortHdr := by
    intro l
    simp only [encB, Facts.C20.encB_shortHdr, toBytes, List.map]
    exact List.cons_eq_cons.mpr ⟨u8_congr _ _ (by omega), rfl⟩
  shortPad := by
    intro l
    have e : encB.shortCur (l : Int) = ((l + 1 : Nat) : Int) := by simp [encB, Facts.C20.encB_shortCur]
    have e2 : ∀ c : Nat, encB.shortPad (c : Int) = Facts.C20.nearestPaddedValueLength (c : Int) - (c : Int) := by
      intro c; simp [encB, Facts.C20.encB_shortPad]
    rw [e, e2, padDiff]
  shortOrder := by decide
  longHdr := by
    intro l
    simp only [encB, Facts.C20.encB_longHdr, toBytes, List.map]
    exact List.cons_eq_cons.mpr ⟨u8_congr _ _ (by omega), List.cons_eq_cons.mpr ⟨u8_congr _ _ (by omega),
      List.cons_eq_cons.mpr ⟨u8_congr _ _ (by omega), List.cons_eq_cons.mpr ⟨u8_congr _ _ (by omega), rfl⟩⟩⟩⟩
  longPad := by
    intro l
    have e : encB.longCur (l : Int) = ((l + 4 : Nat) : Int) := by simp [encB, Facts.C20.encB_longCur]
    have e2 : ∀ c : Nat, encB.longPad (c : Int) = Facts.C20.nearestPaddedValueLength (c : Int) - (c : Int) := by
      intro c; simp [encB, Facts.C20.encB_longPad]
    rw [e, e2, padDiff]
  longOrder := by decide

theorem encS_sound : encS.Sound where
  short := by intro l; simp [encS, Facts.C20.encS_short] <;> omega
  shortHdr := by
    intro l
    simp only [encS, Facts.C20.encS_shortHdr, toBytes, List.map]
    exact List.cons_eq_cons.mpr ⟨u8_congr _ _ (by omega), rfl⟩
  shortPad := by
    intro l
    have e : encS.shortCur (l : Int) = ((l + 1 : Nat) : Int) := by simp [encS, Facts.C20.encS_shortCur]
    have e2 : ∀ c : Nat, encS.shortPad (c : Int) = Facts.C20.nearestPaddedValueLength (c : Int) - (c : Int) := by
      intro c; simp [encS, Facts.C20.encS_shortPad]
    rw [e, e2, padDiff]
  shortOrder := by decide
  longHdr := by
    intro l
    simp only [encS, Facts.C20.encS_longHdr, toBytes, List.map]
    exact List.cons_eq_cons.mpr ⟨u8_congr _ _ (by omega), List.cons_eq_cons.mpr ⟨u8_congr _ _ (by omega),
      List.cons_eq_cons.mpr ⟨u8_congr _ _ (by omega), List.cons_eq_cons.mpr ⟨u8_congr _ _ (by omega), rfl⟩⟩⟩⟩
  longPad := by
    intro l
    have e : encS.longCur (l : Int) = ((l + 4 : Nat) : Int) := by simp [encS, Facts.C20.encS_longCur]
    have e2 : ∀ c : Nat, encS.longPad (c : Int) = Facts.C20.nearestPaddedValueLength (c : Int) - (c : Int) := by
      intro c; simp [encS, Facts.C20.encS_longPad]
    rw [e, e2, padDiff]
  longOrder := by decide

theorem putBytesG_encB (v : Bytes) : putBytesG encB v = some (putBytes v) := putBytesG_sound encB encB_sound v
theorem putBytesG_encS (v : Bytes) : putBytesG encS v = some (putString v) := putBytesG_sound encS encS_sound v

/-! ### Decoders -/

/-- What the translated pieces of a decoder have to mean (stated on naturals / bytes). -/
structure DecFacts.Sound (D : DecFacts) : Prop where
  c0 : ∀ n : Nat, D.c0 (n : Int) = true ↔ n = 0
  c1 : ∀ x : Nat, D.c1 (x : Int) = true ↔ x = 254
  c2 : ∀ n : Nat, D.c2 (n : Int) = true ↔ n < 4
  c3 : ∀ n L : Nat, D.c3 (n : Int) (L : Int) = true ↔ n < L + 4
  c4 : ∀ n L : Nat, D.c4 (n : Int) (L : Int) = true ↔ n < L + 1
  c5 : ∀ L : Nat, D.c5 (L : Int) = true ↔ L > 253
  longLen : ∀ x y z : UInt8, D.longLen (x.toNat : Int) (y.toNat : Int) (z.toNat : Int)
    = ((x.toNat + 256 * (y.toNat + 256 * z.toNat) : Nat) : Int)
  shortLen : ∀ x : Nat, D.shortLen (x : Int) = (x : Int)
  longN : ∀ L : Nat, (D.longN (L : Int)).toNat = padded (L + 4)
  longLo : D.longLo.toNat = 4
  longHi : ∀ L : Nat, (D.longHi (L : Int)).toNat = L + 4
  shortN : ∀ L : Nat, (D.shortN (L : Int)).toNat = padded (L + 1)
  shortLo : D.shortLo.toNat = 1
  shortHi : ∀ L : Nat, (D.shortHi (L : Int)).toNat = L + 1

theorem decodeBytesG_sound (D : DecFacts) (h : D.Sound) (b : Bytes) : decodeBytesG D b = decodeBytes b := by
  unfold decodeBytesG decodeBytes maxSmall firstLong
  cases b with
  | nil =>
    rw [ite_bool _ True (by have := h.c0 0; simpa using this)]
    simp
  | cons b0 t =>
    have hb0 := b0.toNat_lt
    have hlen : (b0 :: t).length = t.length + 1 := rfl
    have hba : byteAt (b0 :: t) 0 = (b0.toNat : Int) := by simp [byteAt]
    simp only [hba]
    have hc0 : D.c0 (((b0 :: t).length : Nat) : Int) = true ↔ False := by
      rw [h.c0]; constructor
      · intro hh; simp at hh
      · intro hh; exact hh.elim
    rw [ite_bool _ False hc0, if_neg (fun h => h)]
    rw [ite_bool _ (b0.toNat = 254) (h.c1 _)]
    by_cases hl : b0.toNat = 254
    · rw [if_pos hl]
      simp only [if_pos hl]
      rw [ite_bool _ ((b0 :: t).length < 4) (h.c2 _)]
      by_cases h4 : (b0 :: t).length < 4
      · rw [if_pos h4, if_pos h4]
      · rw [if_neg h4, if_neg h4]
        cases t with
        | nil => simp at h4
        | cons b1 t1 =>
          cases t1 with
          | nil => simp at h4
          | cons b2 t2 =>
            cases t2 with
            | nil => simp at h4
            | cons b3 t' =>
              have e1 : byteAt (b0 :: b1 :: b2 :: b3 :: t') 1 = (b1.toNat : Int) := by simp [byteAt]
              have e2 : byteAt (b0 :: b1 :: b2 :: b3 :: t') 2 = (b2.toNat : Int) := by simp [byteAt]
              have e3 : byteAt (b0 :: b1 :: b2 :: b3 :: t') 3 = (b3.toNat : Int) := by simp [byteAt]
              simp only [e1, e2, e3, h.longLen]
              have hf : fromLE (List.take 3 (List.drop 1 (b0 :: b1 :: b2 :: b3 :: t')))
                  = b1.toNat + 256 * (b2.toNat + 256 * b3.toNat) := by
                simp [fromLE]
              rw [hf]
              generalize b1.toNat + 256 * (b2.toNat + 256 * b3.toNat) = L
              rw [ite_bool _ ((b0 :: b1 :: b2 :: b3 :: t').length < L + 4) (h.c3 _ _)]
              by_cases h3 : (b0 :: b1 :: b2 :: b3 :: t').length < L + 4
              · rw [if_pos h3, if_pos h3]
              · rw [if_neg h3, if_neg h3, h.longN]
                have hs : sliceT (b0 :: b1 :: b2 :: b3 :: t') D.longLo (D.longHi (L : Int))
                    = List.take L (List.drop 4 (b0 :: b1 :: b2 :: b3 :: t')) := by
                  unfold sliceT
                  rw [h.longLo, h.longHi]
                  have : L + 4 - 4 = L := by omega
                  rw [this]
                rw [hs]
    · rw [if_neg hl]
      simp only [if_neg hl, h.shortLen]
      rw [ite_bool _ ((b0 :: t).length < b0.toNat + 1) (h.c4 _ _)]
      by_cases h1 : (b0 :: t).length < b0.toNat + 1
      · rw [if_pos h1, if_pos h1]
      · rw [if_neg h1, if_neg h1]
        rw [ite_bool _ (b0.toNat > 253) (h.c5 _)]
        by_cases h5 : b0.toNat > 253
        · rw [if_pos h5, if_pos h5]
        · rw [if_neg h5, if_neg h5, h.shortN]
          have hs : sliceT (b0 :: t) D.shortLo (D.shortHi (b0.toNat : Int))
              = List.take b0.toNat (List.drop 1 (b0 :: t)) := by
            unfold sliceT
            rw [h.shortLo, h.shortHi]
            have : b0.toNat + 1 - 1 = b0.toNat := by omega
            rw [this]
          rw [hs]

theorem orLen (x y z : UInt8) :
    Facts.C20.orNonneg (Facts.C20.orNonneg (x.toNat : Int) ((y.toNat : Int) * 2 ^ 8)) ((z.toNat : Int) * 2 ^ 16)
      = ((x.toNat + 256 * (y.toNat + 256 * z.toNat) : Nat) : Int) := by
  unfold Facts.C20.orNonneg
  have hx := x.toNat_lt
  have hy := y.toNat_lt
  have e1 : ((y.toNat : Int) * 2 ^ 8).toNat = y.toNat * 256 := by omega
  have e2 : ((z.toNat : Int) * 2 ^ 16).toNat = z.toNat * 65536 := by omega
  simp only [Int.toNat_natCast, e1, e2, Int.ofNat_eq_natCast]
  rw [or3 _ _ _ (by omega) (by omega)]

theorem npvl_toNat (L k : Nat) (x : Int) (hx : x = ((L + k : Nat) : Int)) :
    (Facts.C20.nearestPaddedValueLength x).toNat = padded (L + k) := by
  rw [hx, padG]; omega

theorem decB_sound : decB.Sound where
  c0 := by intro n; simp [decB, Facts.C20.decB_c0]
  c1 := by intro n; simp [decB, Facts.C20.decB_c1] <;> omega
  c2 := by intro n; simp [decB, Facts.C20.decB_c2] <;> omega
  c3 := by intro n L; simp [decB, Facts.C20.decB_c3] <;> omega
  c4 := by intro n L; simp [decB, Facts.C20.decB_c4] <;> omega
  c5 := by intro n; simp [decB, Facts.C20.decB_c5] <;> omega
  longLen := by intro x y z; exact orLen x y z
  shortLen := by intro x; simp [decB, Facts.C20.decB_shortLen]
  longN := by intro L; exact npvl_toNat L 4 _ (by simp)
  longLo := by simp [decB, Facts.C20.decB_longLo]
  longHi := by intro L; simp [decB, Facts.C20.decB_longHi] <;> omega
  shortN := by intro L; exact npvl_toNat L 1 _ (by simp)
  shortLo := by simp [decB, Facts.C20.decB_shortLo]
  shortHi := by intro L; simp [decB, Facts.C20.decB_shortHi] <;> omega

theorem decS_sound : decS.Sound where
  c0 := by intro n; simp [decS, Facts.C20.decS_c0]
  c1 := by intro n; simp [decS, Facts.C20.decS_c1] <;> omega
  c2 := by intro n; simp [decS, Facts.C20.decS_c2] <;> omega
  c3 := by intro n L; simp [decS, Facts.C20.decS_c3] <;> omega
  c4 := by intro n L; simp [decS, Facts.C20.decS_c4] <;> omega
  c5 := by intro n; simp [decS, Facts.C20.decS_c5] <;> omega
  longLen := by intro x y z; exact orLen x y z
  shortLen := by intro x; simp [decS, Facts.C20.decS_shortLen]
  longN := by intro L; exact npvl_toNat L 4 _ (by simp)
  longLo := by simp [decS, Facts.C20.decS_longLo]
  longHi := by intro L; simp [decS, Facts.C20.decS_longHi] <;> omega
  shortN := by intro L; exact npvl_toNat L 1 _ (by simp)
  shortLo := by simp [decS, Facts.C20.decS_shortLo]
  shortHi := by intro L; simp [decS, Facts.C20.decS_shortHi] <;> omega

theorem decodeBytesG_decB (b : Bytes) : decodeBytesG decB b = decodeBytes b := decodeBytesG_sound decB decB_sound b
theorem decodeBytesG_decS (b : Bytes) : decodeBytesG decS b = decodeBytes b := decodeBytesG_sound decS decS_sound b

/-- Discharges `translated guard = true ↔ the model's condition`. -/
macro "guard_iff" : tactic => `(tactic|
  (simp [Facts.C20.peekIDShort, Facts.C20.uint64Short, Facts.C20.peekNShort, Facts.C20.stringShort,
     Facts.C20.bytesShort, Facts.C20.consumeIDMismatch, Facts.C20.vectorNegative] <;> omega))

theorem getBytesG_eq (isString : Bool) (b : Bytes) : getBytesG isString b = getBytes b := by
  unfold getBytesG getBytes
  have hd : decodeBytesG (if isString = true then decS else decB) b = decodeBytes b := by
    cases isString
    · exact decodeBytesG_decB b
    · exact decodeBytesG_decS b
  rw [hd]
  cases decodeBytes b with
  | error e => rfl
  | ok p =>
    obtain ⟨n, v⟩ := p
    cases isString
    · simp only [Bool.false_eq_true, if_false]
      rw [ite_bool _ (b.length < n) (by guard_iff)]
      simp [Facts.C20.bytesAdvance]
    · simp only [if_true]
      rw [ite_bool _ (b.length < n) (by guard_iff)]
      simp [Facts.C20.stringAdvance]

theorem getU32G_eq (b : Bytes) : getU32G b = getU32 b := by
  unfold getU32G getU32
  rw [ite_bool _ (b.length < 4) (by guard_iff)]
  rfl

theorem getU64G_eq (b : Bytes) : getU64G b = getU64 b := by
  unfold getU64G getU64
  rw [ite_bool _ (b.length < 8) (by guard_iff)]
  rfl

theorem getNG_eq (n : Nat) (b : Bytes) : getNG n b = getN n b := by
  unfold getNG getN
  rw [ite_bool _ (b.length < n) (by guard_iff)]
  simp [Facts.C20.consumeNAdvance]

theorem consumeIDG_eq (id : Nat) (b : Bytes) : consumeIDG id b = consumeID id b := by
  unfold consumeIDG consumeID
  rw [ite_bool _ (b.length < 4) (by guard_iff)]
  rw [ite_bool _ (¬ fromLE (List.take 4 b) = id) (by guard_iff)]
  by_cases h : b.length < 4
  · simp [h]
  · by_cases he : fromLE (List.take 4 b) = id
    · have ha : Facts.C20.consumeIDAdvance.toNat = 4 := rfl
      simp [h, he, ha]
    · simp [h, he]

theorem getVectorHeaderG_eq (b : Bytes) : getVectorHeaderG b = getVectorHeader b := by
  unfold getVectorHeaderG getVectorHeader
  rw [consumeIDG_eq]
  cases consumeID typeVector b with
  | error e => rfl
  | ok p =>
    obtain ⟨u, r⟩ := p
    simp only
    rw [getU32G_eq]
    cases getU32 r with
    | error e => rfl
    | ok q =>
      obtain ⟨n, r'⟩ := q
      simp only
      rw [ite_bool _ (toInt32 n < 0) (by guard_iff)]

theorem putBoolG_eq (v : Bool) : putBoolG v = some (putBool v) := by
  cases v <;> rfl

theorem getBoolG_eq (b : Bytes) : getBoolG b = getBool b := by
  unfold getBoolG getBool
  rw [ite_bool _ (b.length < 4) (by guard_iff)]
  by_cases h : b.length < 4
  · rw [if_pos h, if_pos h]
  · rw [if_neg h, if_neg h]
    simp only [Facts.C20.boolDecodeTable, List.lookup, typeTrue, typeFalse]
    by_cases h1 : fromLE (List.take 4 b) = 2574415285
    · simp [h1]; rfl
    · by_cases h2 : fromLE (List.take 4 b) = 3162085175
      · simp [h2]; rfl
      · have e1 : (fromLE (List.take 4 b) == 2574415285) = false := by simp [h1]
        have e2 : (fromLE (List.take 4 b) == 3162085175) = false := by simp [h2]
        simp [h1, h2, e1, e2]

/-! ### Fields -/

theorem bit32_lt (n : Nat) : bit32 n < 2 ^ 32 := by unfold bit32; exact Nat.mod_lt _ (by decide)

theorem testBit_bit32 (n m : Nat) : (bit32 n).testBit m = (decide (m < 32) && decide (n = m)) := by
  unfold bit32
  rw [Nat.testBit_mod_two_pow, Nat.testBit_two_pow]

theorem fieldsHas_eq (f n : Nat) : fieldsHas f n = (decide (n < 32) && f.testBit n) := by
  unfold fieldsHas
  by_cases hn : n < 32
  · have hb : bit32 n = 2 ^ n := by
      unfold bit32; exact Nat.mod_eq_of_lt (Nat.pow_lt_pow_right (by decide) hn)
    rw [hb]
    simp only [hn, decide_true, Bool.true_and]
    cases hf : f.testBit n with
    | false =>
      have : f &&& 2 ^ n = 0 := by
        apply Nat.eq_of_testBit_eq
        intro i
        rw [Nat.testBit_and, Nat.testBit_two_pow]
        by_cases hi : n = i
        · subst hi; simp [hf]
        · simp [hi]
      simp [this]
    | true =>
      have : (f &&& 2 ^ n).testBit n = true := by
        rw [Nat.testBit_and, Nat.testBit_two_pow]; simp [hf]
      have hne : f &&& 2 ^ n ≠ 0 := by
        intro h0; rw [h0] at this; simp at this
      simp [hne]
  · have hb : bit32 n = 0 := by
      apply Nat.eq_of_testBit_eq
      intro i
      rw [testBit_bit32]
      by_cases hi : i < 32
      · have : n ≠ i := by omega
        simp [this]
      · simp [hi]
    simp [hb, hn]

theorem testBit_fieldsSet (f n m : Nat) :
    (fieldsSet f n).testBit m = (f.testBit m || (decide (m < 32) && decide (n = m))) := by
  unfold fieldsSet
  rw [Nat.testBit_or, testBit_bit32]

theorem testBit_fieldsUnset (f n m : Nat) (hf : f < 2 ^ 32) :
    (fieldsUnset f n).testBit m = (f.testBit m && !(decide (n = m))) := by
  unfold fieldsUnset
  rw [Nat.testBit_and, Nat.testBit_xor, Nat.testBit_two_pow_sub_one, testBit_bit32]
  by_cases hm : m < 32
  · by_cases hnm : n = m <;> simp [hm, hnm]
  · have : f.testBit m = false := by
      apply Nat.testBit_lt_two_pow
      exact Nat.lt_of_lt_of_le hf (Nat.pow_le_pow_right (by decide) (by omega))
    simp [this]

theorem bit32_ge (n : Nat) (hn : 32 ≤ n) : bit32 n = 0 := by
  apply Nat.eq_of_testBit_eq
  intro i
  rw [testBit_bit32]
  by_cases hi : i < 32
  · have : n ≠ i := by omega
    simp [this]
  · simp [hi]

theorem fieldsSet_lt (f n : Nat) (hf : f < 2 ^ 32) : fieldsSet f n < 2 ^ 32 :=
  Nat.or_lt_two_pow hf (bit32_lt n)

theorem fieldsUnset_lt (f n : Nat) (hf : f < 2 ^ 32) : fieldsUnset f n < 2 ^ 32 := by
  unfold fieldsUnset
  exact Nat.lt_of_le_of_lt Nat.and_le_left hf

theorem getFields_putFields (f : Nat) (hf : f < 2 ^ 32) (rest : Bytes) :
    getFields (putFields f ++ rest) = .ok (f, rest) := by
  unfold getFields putFields getInt32
  rw [getU32_putU32 f rest hf]
  simp only
  have : ofInt32 (toInt32 f) = f := by unfold ofInt32 toInt32; split <;> omega
  rw [this]

/-! ### Buffer housekeeping -/

theorem readChunks_concat (ks : List Nat) (b : Bytes) :
    (readChunks ks b).1.flatten ++ (readChunks ks b).2 = b := by
  induction ks generalizing b with
  | nil => simp [readChunks]
  | cons k ks ih =>
    simp only [readChunks, bufRead]
    by_cases hk : k = 0
    · simp [hk, ih]
    · by_cases he : b.isEmpty = true
      · simp [hk, he, ih]
      · simp only [hk, he, if_false, Bool.false_eq_true]
        have := ih (b.drop k)
        simp only [List.flatten_cons, List.append_assoc, this, List.take_append_drop]

theorem readChunks_drains (ks : List Nat) (b : Bytes) (hpos : ∀ k ∈ ks, 0 < k) (hsum : b.length ≤ ks.sum) :
    (readChunks ks b).2 = [] := by
  induction ks generalizing b with
  | nil =>
    simp only [List.sum_nil, Nat.le_zero] at hsum
    simp [readChunks, List.length_eq_zero_iff.mp hsum]
  | cons k ks ih =>
    have hk : 0 < k := hpos k (by simp)
    simp only [readChunks, bufRead]
    have hk0 : ¬ k = 0 := by omega
    by_cases he : b.isEmpty = true
    · simp only [hk0, he, if_false, if_true]
      have hb : b = [] := List.isEmpty_iff.mp he
      subst hb
      exact ih [] (fun x hx => hpos x (by simp [hx])) (by simp)
    · simp only [hk0, he, if_false, Bool.false_eq_true]
      apply ih (b.drop k) (fun x hx => hpos x (by simp [hx]))
      simp only [List.length_drop, List.sum_cons] at hsum ⊢
      omega

end TdModel.C20
