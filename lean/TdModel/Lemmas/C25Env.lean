/- C25 — preservation of `Rpc.Retry` by notifier and environment actions; it holds in every reachable state. -/
import TdModel.Lemmas.C25Call
set_option linter.unusedVariables false
namespace TdModel.Rpc

set_option maxHeartbeats 4000000 in
theorem retry_nstart {cfg : Cfg} {s s' : State} {nid t : Nat} {e : Bool} {v : Nat} (h : Retry cfg s)
    (hs : stepNstart s nid t e v = some s') : Retry cfg s' := by
  unfold stepNstart at hs
  split at hs
  · simp at hs
  · try dsimp only at hs
    split at hs <;> simp at hs <;> subst hs <;> retry_close0

set_option maxHeartbeats 4000000 in
theorem retry_nrun {cfg : Cfg} {s s' : State} {nid : Nat} (hg : cfg.std = true) (h : Retry cfg s)
    (hs : stepNrun cfg s nid = some s') : Retry cfg s' := by
  unfold stepNrun at hs
  std_norm hg at hs
  simp only [casStep] at hs
  split at hs
  · simp at hs
  · split at hs
    all_goals (try (split at hs))
    all_goals (try (split at hs))
    all_goals (try (simp at hs))
    all_goals (try subst hs)
    all_goals retry_close0
set_option maxHeartbeats 4000000 in
theorem retry_nwrite {cfg : Cfg} {s s' : State} {nid : Nat} {o : Outcome} (h : Retry cfg s)
    (hs : stepNwrite s nid o = some s') : Retry cfg s' := by
  unfold stepNwrite at hs
  split at hs
  · simp at hs
  · split at hs
    · split at hs
      · simp at hs
      · simp at hs; subst hs; retry_close0
    · simp at hs

theorem retry_ackOne {cfg : Cfg} (s : State) (id : Nat) (h : Retry cfg s) : Retry cfg (ackOne cfg s id).1 := by
  unfold ackOne
  split
  · split
    · split
      · constructor <;> simp [Call.outcome] <;> grind [Retry, Call.outcome]
      · split <;> (constructor <;> simp [setCall, removeAck, Call.outcome] <;> grind [Retry, Call.outcome])
    · exact h
  · exact h

theorem retry_ack {cfg : Cfg} {s : State} {ids : List Nat} (h : Retry cfg s) : Retry cfg (stepAck cfg s ids) :=
  stepAck_induct cfg retry_ackOne ids s h

theorem retry_cancel {cfg : Cfg} {s s' : State} {i : Nat} (h : Retry cfg s) (hs : stepCancel s i = some s') :
    Retry cfg s' := by
  unfold stepCancel at hs
  split at hs
  · simp at hs
  · split at hs <;> simp at hs <;> subst hs
    · retry_close0
    · exact h

set_option maxHeartbeats 4000000 in
theorem retry_advance {cfg : Cfg} {s : State} {d : Nat} (h : Retry cfg s) : Retry cfg (stepAdvance s d) := by
  constructor <;> simp [stepAdvance, Call.tickTimer, Call.outcome] <;> grind [Retry, Call.outcome]

theorem retry_step {cfg : Cfg} {s s' : State} {a : Action} (hg : cfg.std = true) (hm : 1 ≤ cfg.maxRetries)
    (h : Retry cfg s) (hs : step cfg s a = some s') : Retry cfg s' := by
  cases a <;> simp only [step] at hs
  · exact retry_start hm h hs
  · exact retry_sret hg hm h hs
  · exact retry_loop hg hm h hs
  · exact retry_wait hg hm h hs
  · exact retry_dret hg hm h hs
  · exact retry_gpass hg hm h hs
  · exact retry_nstart h hs
  · exact retry_nrun hg h hs
  · exact retry_nwrite h hs
  · cases hs; exact retry_ack h
  · exact retry_cancel h hs
  · cases hs; exact retry_advance h
  · split at hs <;> simp at hs; subst hs; constructor <;> simp <;> grind [Retry]
  · split at hs <;> simp at hs; subst hs; constructor <;> simp <;> grind [Retry]
  · split at hs <;> simp at hs; subst hs; constructor <;> simp <;> grind [Retry]

theorem retry_run {cfg : Cfg} (hg : cfg.std = true) (hm : 1 ≤ cfg.maxRetries) {as : List Action} {s s' : State}
    (h : Retry cfg s) (hs : run cfg s as = some s') : Retry cfg s' := by
  induction as generalizing s with
  | nil => simp [run] at hs; subst hs; exact h
  | cons a as ih =>
    simp only [run] at hs
    split at hs
    · next s1 h1 => exact ih (retry_step hg hm h h1) hs
    · simp at hs

theorem reachable_retry {cfg : Cfg} (hg : cfg.std = true) (hm : 1 ≤ cfg.maxRetries) {s : State}
    (h : Reachable cfg s) : Retry cfg s := by
  obtain ⟨as, hs⟩ := h
  exact retry_run hg hm (retry_init cfg) hs

end TdModel.Rpc
