import TdModel.Model.C39

/-! C39 — offset-based iterators. -/

namespace TdModel.C39
open TdModel

def opending (items : List Nat) (s : OIter) : List Nat :=
  s.buf.drop s.pos ++ (if s.lastBatch then [] else items.drop s.offset)

/-- The admissible rule/cap combinations: a complete answer is the last batch; a slice is the last one
either when it is shorter than the page size (then the server must not cap pages below the limit) or
only when it is empty (then any cap ≥ 1 is fine). -/
def RuleOK (codeFull codeSlice cap limit : Nat) : Prop :=
  codeFull = 0 ∧ ((codeSlice = 1 ∧ limit ≤ cap) ∨ (codeSlice = 2 ∧ 1 ≤ cap))

theorem oapply_hist (items : List Nat) (ks : List Kind) (cf cs cap i : Nat) (s : OIter)
    (hr : RuleOK cf cs cap s.limit) (hL : 0 < s.limit) (hb : ¬ s.pos < s.buf.length) (hlb : s.lastBatch = false) :
    let a := offServer items ks cf cs cap i s.offset s.limit
    let s' := s.apply a.1 a.2
    s'.limit = s.limit ∧
    ((opending items s = [] ∧ ¬ s'.pos < s'.buf.length) ∨
     (s'.pos < s'.buf.length ∧ opending items s' = opending items s)) := by
  have hpend : opending items s = items.drop s.offset := by
    simp [opending, hlb, List.drop_eq_nil_of_le (Nat.le_of_not_lt hb)]
  obtain ⟨hcf, hcs⟩ := hr
  have hps : 0 < min s.limit cap := by rcases hcs with h | h <;> omega
  simp only [offServer, OIter.apply, hlb, Bool.false_eq_true, if_false]
  generalize hrem : items.drop s.offset = rem at hpend
  generalize hpsv : min s.limit cap = ps at hps
  refine ⟨trivial, ?_⟩
  by_cases hemp : rem.take ps = []
  · left
    have : rem = [] := by
      rcases List.take_eq_nil_iff.mp hemp with h | h
      · omega
      · exact h
    exact ⟨by rw [hpend, this], by simp [hemp]⟩
  · right
    have hlenpos : 0 < (rem.take ps).length := List.length_pos_iff.mpr hemp
    refine ⟨by simpa using hlenpos, ?_⟩
    rw [hpend]
    simp only [opending, List.drop_zero]
    have hdd : items.drop (s.offset + (rem.take ps).length) = rem.drop (rem.take ps).length := by
      rw [← hrem, List.drop_drop]
    rw [hdd]
    by_cases hfull : ks.getD i Kind.slice = Kind.full ∧ rem.length ≤ ps
    · simp only [hfull, and_self, if_true, hcf, lbRule]
      simp [List.take_of_length_le hfull.2]
    · simp only [hfull, if_false]
      rcases hcs with ⟨h1, hcap⟩ | ⟨h2, _⟩
      · subst h1
        have hpsL : ps = s.limit := by omega
        simp only [lbRule]
        by_cases hshort : (rem.take ps).length < s.limit
        · simp only [hshort, decide_true, if_true, List.append_nil]
          apply List.take_of_length_le
          rw [List.length_take] at hshort; omega
        · simp only [hshort, decide_false, Bool.false_eq_true, if_false]
          have : (rem.take ps).length = ps := by rw [List.length_take] at hshort ⊢; omega
          rw [this]; exact List.take_append_drop _ _
      · subst h2
        have : ¬ (rem.take ps).length = 0 := by omega
        simp only [lbRule, this, decide_false, Bool.false_eq_true, if_false]
        rw [List.length_take]
        by_cases hle : ps ≤ rem.length
        · rw [Nat.min_eq_left hle]; exact List.take_append_drop _ _
        · rw [Nat.min_eq_right (by omega), List.drop_length, List.append_nil]
          exact List.take_of_length_le (by omega)

theorem orunS_exact (items : List Nat) (ks : List Kind) (cf cs cap : Nat) :
    ∀ (fuel i : Nat) (s : OIter), RuleOK cf cs cap s.limit → 0 < s.limit → (opending items s).length < fuel →
      (orunS (offServer items ks cf cs cap) fuel i s).yields = opending items s ∧
      (orunS (offServer items ks cf cs cap) fuel i s).done = true := by
  intro fuel
  induction fuel with
  | zero => intro i s _ _ h; omega
  | succ fuel ih =>
    intro i s hr hL hfuel
    rw [orunS]
    by_cases hb : s.pos < s.buf.length
    · simp only [hb, if_true]
      have hdrop : s.buf.drop s.pos = s.buf[s.pos] :: s.buf.drop (s.pos + 1) := List.drop_eq_getElem_cons hb
      have hget : s.buf.getD s.pos 0 = s.buf[s.pos] := by simp [List.getD, hb]
      have hpend : opending items s = s.buf[s.pos] :: opending items { s with pos := s.pos + 1 } := by
        simp only [opending]; rw [hdrop]; rfl
      have := ih i { s with pos := s.pos + 1 } hr hL (by rw [hpend] at hfuel; simp at hfuel ⊢; omega)
      rw [hpend, hget]
      exact ⟨by simp [this.1], this.2⟩
    · simp only [hb, if_false]
      cases hlb : s.lastBatch with
      | true =>
        have happ : ∀ c pg, s.apply c pg = s := by intro c pg; simp [OIter.apply, hlb]
        simp only [happ, hb, if_false]
        simp [opending, hlb, List.drop_eq_nil_of_le (Nat.le_of_not_lt hb)]
      | false =>
        obtain ⟨hlim, hcase⟩ := oapply_hist items ks cf cs cap i s hr hL hb hlb
        rcases hcase with ⟨hp0, hstop⟩ | ⟨hgo, hpe⟩
        · simp only [hstop, if_false]
          simp [hp0]
        · simp only [hgo, if_true]
          generalize hs' : s.apply (offServer items ks cf cs cap i s.offset s.limit).1
            (offServer items ks cf cs cap i s.offset s.limit).2 = s' at hgo hpe hlim
          have hdrop : s'.buf.drop s'.pos = s'.buf[s'.pos] :: s'.buf.drop (s'.pos + 1) := List.drop_eq_getElem_cons hgo
          have hget : s'.buf.getD s'.pos 0 = s'.buf[s'.pos] := by simp [List.getD, hgo]
          have hpend : opending items s' = s'.buf[s'.pos] :: opending items { s' with pos := s'.pos + 1 } := by
            simp only [opending]; rw [hdrop]; rfl
          have := ih (i + 1) { s' with pos := s'.pos + 1 } (by simpa [hlim] using hr) (by simpa [hlim] using hL)
            (by rw [← hpe, hpend] at hfuel; simp at hfuel ⊢; omega)
          rw [← hpe, hpend, hget]
          exact ⟨by simp [this.1], this.2⟩

end TdModel.C39
