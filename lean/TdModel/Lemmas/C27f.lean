/-
C27 — consequences of the holder invariant: two callers never use the same connection; every
hand-out step checks the dead flag.
-/
import TdModel.Lemmas.C27e

namespace TdModel.C27

theorem two_le_countP {α : Type} (p : α → Bool) (l : List α) (i j : Nat) (x y : α) (hij : i ≠ j)
    (hx : l[i]? = some x) (hy : l[j]? = some y) (px : p x = true) (py : p y = true) :
    2 ≤ List.countP p l := by
  induction l generalizing i j with
  | nil => simp at hx
  | cons a as ih =>
    cases i with
    | zero =>
      cases j with
      | zero => exact absurd rfl hij
      | succ j' =>
        simp at hx hy
        subst hx
        have : 1 ≤ List.countP p as := List.countP_pos_iff.2 ⟨y, List.mem_of_getElem? hy, py⟩
        rw [List.countP_cons_of_pos px]; omega
    | succ i' =>
      cases j with
      | zero =>
        simp at hx hy
        subst hy
        have : 1 ≤ List.countP p as := List.countP_pos_iff.2 ⟨x, List.mem_of_getElem? hx, px⟩
        rw [List.countP_cons_of_pos py]; omega
      | succ j' =>
        simp at hx hy
        have := ih i' j' (by omega) hx hy
        simp [List.countP_cons]; omega

/-- Under the invariant two different callers never hold (popped / creating / using) the same connection. -/
theorem holders_exclusive {m : Nat} {s : State} (hI : HInv m s) (i j : Nat) (x y : Caller) (c : Nat)
    (hx : s.callers[i]? = some x) (hy : s.callers[j]? = some y)
    (px : heldBy x.pc = some c) (py : heldBy y.pc = some c) : i = j := by
  by_cases hij : i = j
  · exact hij
  · exfalso
    have := two_le_countP (fun z : Caller => heldBy z.pc == some c) s.callers i j x y hij hx hy
      (by simp [px]) (by simp [py])
    have h1 := hI.one c
    simp only [holders, nCallers] at h1
    omega

/-- A held connection is not at the same time in the free list, in a channel or with the background releaser. -/
theorem held_not_elsewhere {m : Nat} {s : State} (hI : HInv m s) (i : Nat) (x : Caller) (c : Nat)
    (hx : s.callers[i]? = some x) (px : heldBy x.pc = some c) :
    nFree s c = 0 ∧ nInbox s c = 0 ∧ nOrphan s c = 0 := by
  have h1 := hI.one c
  have h2 := one_le_nCallers hx px
  simp only [holders] at h1
  omega

end TdModel.C27
