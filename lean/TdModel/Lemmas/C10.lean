import TdModel.Lemmas.C09Run
import TdModel.Gen.C10

namespace TdModel.C09
open TdModel

/-! What the DH checks accept. -/

theorem checkGP_true (g : Int) (p : Nat) (h : checkGP g p = true) : 2 ≤ g ∧ g ≤ 7 := by
  unfold checkGP at h
  split at h
  · rename_i g' d rs hf
    have hg := List.find?_some hf
    have hm := List.mem_of_find?_eq_some hf
    simp only [beq_iff_eq] at hg
    simp only [Facts.C09.gpTable, List.mem_cons, Prod.mk.injEq, List.not_mem_nil, or_false] at hm
    rcases hm with h1 | h1 | h1 | h1 | h1 | h1 <;> (obtain ⟨h1, _⟩ := h1; subst h1; omega)
  · simp at h

theorem checkDH_true (isPrime : Nat → Bool) (g : Int) (p : Nat) (h : checkDH isPrime g p = true) :
    bitLen p = Facts.C09.rsaKeyBits ∧ 2 ≤ g ∧ g ≤ 7 ∧ checkGP g p = true ∧
    isPrime p = true ∧ isPrime ((p - 1) / 2) = true := by
  unfold checkDH at h
  simp only [Bool.and_eq_true, beq_iff_eq] at h
  obtain ⟨⟨⟨h1, h2⟩, h3⟩, h4⟩ := h
  have := checkGP_true g p h2
  exact ⟨h1, this.1, this.2, h2, h3, h4⟩

theorem inRange_true (x lo hi : Nat) (h : inRange x lo hi = true) : lo < x ∧ x < hi := by
  unfold inRange at h
  simpa using h

theorem checkDHParams_true (p g gA gB : Nat) (h : checkDHParams p g gA gB = true) :
    1 < g ∧ g < p - 1 ∧ 1 < gA ∧ gA < p - 1 ∧ 1 < gB ∧ gB < p - 1 ∧
    safetyMin < gA ∧ gA < p - safetyMin ∧ safetyMin < gB ∧ gB < p - safetyMin := by
  simp only [checkDHParams, Facts.C09.dhParamChecks, List.all_cons, List.all_nil, dhVal, dhBnd, Bool.and_true,
    Bool.and_eq_true] at h
  obtain ⟨h1, h2, h3, h4, h5⟩ := h
  have a1 := inRange_true _ _ _ h1
  have a2 := inRange_true _ _ _ h2
  have a3 := inRange_true _ _ _ h3
  have a4 := inRange_true _ _ _ h4
  have a5 := inRange_true _ _ _ h5
  exact ⟨a1.1, a1.2, a2.1, a2.2, a3.1, a3.2, a4.1, a4.2, a5.1, a5.2⟩

/-- Every result of the DH-parameters step is either a failure without output or the success
described by `onDHParams_some`. -/
theorem onDHParams_cases {Ct} (P : XP Ct) (t : CTape) (sn : Bytes) (m : Msg Ct) :
    (∃ e, onDHParams P t sn m = (.failed e, none)) ∨ (∃ c o, onDHParams P t sn m = (c, some o)) := by
  cases h : onDHParams P t sn m with
  | mk c o =>
    cases o with
    | none =>
      obtain ⟨e, he⟩ := onDHParams_none P t sn m c h
      exact Or.inl ⟨e, by rw [he]⟩
    | some o => exact Or.inr ⟨c, o, rfl⟩

theorem onResPQ_cases {Ct} (P : XP Ct) (cfg : CCfg) (t : CTape) (m : Msg Ct) :
    (∃ e, onResPQ P cfg t m = (.failed e, none)) ∨ (∃ c o, onResPQ P cfg t m = (c, some o)) := by
  cases h : onResPQ P cfg t m with
  | mk c o =>
    cases o with
    | none =>
      obtain ⟨e, he⟩ := onResPQ_none P cfg t m c h
      exact Or.inl ⟨e, by rw [he]⟩
    | some o => exact Or.inr ⟨c, o, rfl⟩

end TdModel.C09
