/-
C26 — progress measure: every step of a call's own thread strictly decreases its rank, no action
except clock travel increases it; the same for notifier threads.
-/
import TdModel.Lemmas.C26Env
set_option linter.unusedVariables false
namespace TdModel.Rpc

/-- Number of own steps a call can still take before `Do` returns (while the clock stands still). -/
def Call.rank (c : Call) : Nat :=
  (match c.pc with
    | .send0 => 8 | .sendR => 5 | .loop => 4 | .wait => 3 | .drop => 2 | .guard => 1 | .fin => 0)
  + (if c.fired then 2 else 0)

def Notif.rank (n : Notif) : Nat :=
  match n.pc with
  | .invoke => 3 | .cas => 2 | .decode => 1 | .fin => 0

/-- `a` is a step of the call thread `i`. -/
def Action.ofCall (i : Nat) : Action → Bool
  | .sret j _ | .loopSel j _ | .waitSel j _ | .dret j _ | .gpass j => j == i
  | _ => false

/-- `a` is a step of the notifier thread `nid`. -/
def Action.ofNotif (nid : Nat) : Action → Bool
  | .nrun k | .nwrite k _ => k == nid
  | _ => false

def Action.isAdvance : Action → Bool
  | .advance _ => true
  | _ => false

macro "rank_close" : tactic =>
  `(tactic| (simp [setCall, setNotif, finish, Call.finish, removeAck, Call.exitLoop, Call.retC, newCall, Call.rank, Notif.rank,
      Action.ofCall, Action.ofNotif, Action.isAdvance] <;> grind [Call.rank, Notif.rank]))

/-- One step: the call's rank does not grow unless the clock travels, and it shrinks when the step is the call's own;
a notifier's rank does not grow, and it shrinks when the step is the notifier's own. -/
def RankStep (s s' : State) (a : Action) : Prop :=
  (∀ i c c', s.calls i = some c → s'.calls i = some c' →
    (a.isAdvance = false → c'.rank ≤ c.rank) ∧ (a.ofCall i = true → c'.rank < c.rank)) ∧
  (∀ k n n', s.notifs k = some n → s'.notifs k = some n' →
    n'.rank ≤ n.rank ∧ (a.ofNotif k = true → n'.rank < n.rank))

set_option maxHeartbeats 8000000 in
theorem rank_step {cfg : Cfg} {s s' : State} {a : Action} (hs : step cfg s a = some s') : RankStep s s' a := by
  unfold RankStep
  cases a <;> simp only [step] at hs
  case start j q b =>
    unfold stepStart at hs
    split at hs
    · simp at hs
    · dsimp only at hs
      split at hs <;> simp at hs <;> subst hs <;> rank_close
  case sret j o =>
    unfold stepSret at hs
    split at hs
    · simp at hs
    · split at hs <;> try (simp at hs)
      all_goals (try split at hs) <;> try (simp at hs)
      all_goals (first | subst hs | (obtain ⟨_, hs⟩ := hs; subst hs))
      all_goals rank_close
  case loopSel j b =>
    unfold stepLoop at hs
    split at hs
    · simp at hs
    · split at hs
      · simp at hs
      · dsimp only at hs
        split at hs
        all_goals (split at hs <;> try (simp at hs))
        all_goals (try (split at hs <;> try (simp at hs)))
        all_goals (first | subst hs | (obtain ⟨_, hs⟩ := hs; subst hs))
        all_goals rank_close
  case waitSel j b =>
    unfold stepWait at hs
    split at hs
    · simp at hs
    · split at hs
      · simp at hs
      · split at hs
        all_goals (split at hs <;> try (simp at hs))
        all_goals (try (split at hs <;> try (simp at hs)))
        all_goals (first | subst hs | (obtain ⟨_, hs⟩ := hs; subst hs))
        all_goals rank_close
  case dret j o =>
    unfold stepDret at hs
    split at hs
    · simp at hs
    · split at hs <;> simp at hs
      subst hs
      rank_close
  case gpass j =>
    unfold stepGpass at hs
    split at hs
    · simp at hs
    · split at hs <;> simp at hs
      subst hs
      rank_close
  case nstart nid t e v =>
    unfold stepNstart at hs
    split at hs
    · simp at hs
    · dsimp only at hs
      split at hs <;> simp at hs <;> subst hs <;> rank_close
  case nrun nid =>
    unfold stepNrun at hs
    split at hs
    · simp at hs
    · split at hs
      · simp at hs; subst hs; rank_close
      · split at hs
        · simp at hs
        · split at hs <;> simp at hs <;> subst hs <;> rank_close
      · split at hs
        · simp at hs
        · split at hs <;> simp at hs <;> subst hs <;> rank_close
      · simp at hs
  case nwrite nid o =>
    unfold stepNwrite at hs
    split at hs
    · simp at hs
    · split at hs
      · split at hs
        · simp at hs
        · simp at hs; subst hs; rank_close
      · simp at hs
  case ack ids =>
    cases hs
    simp [stepAck, Action.isAdvance, Action.ofCall, Action.ofNotif, Call.rank]
    grind [Call.rank]
  case cancel j =>
    unfold stepCancel at hs
    split at hs
    · simp at hs
    · split at hs <;> simp at hs <;> subst hs
      · rank_close
      · simp [Action.isAdvance, Action.ofCall, Action.ofNotif]; grind
  case advance d =>
    cases hs
    simp [stepAdvance, Action.isAdvance, Action.ofCall, Action.ofNotif]
    grind
  case close => cases hs; simp [Action.isAdvance, Action.ofCall, Action.ofNotif]; grind
  case fclose => cases hs; simp [Action.isAdvance, Action.ofCall, Action.ofNotif]; grind

end TdModel.Rpc
