/-
C26 — progress measure: every step of a call's own thread strictly decreases its rank, no action
except clock travel increases it; the same for notifier threads.
-/
import TdModel.Lemmas.C26Env
set_option linter.unusedVariables false
namespace TdModel.Rpc

/-- Number of own steps a call can still take before `Do` returns (while the clock stands still). -/
def Call.rank (c : Call) : Nat :=
  (match c.pc with
    | .send0 => 8 | .sendR => 5 | .loop => 4 | .wait => 3 | .drop => 2 | .guard => 1 | .fin => 0)
  + (if c.fired then 2 else 0)

def Notif.rank (n : Notif) : Nat :=
  match n.pc with
  | .invoke => 4 | .entered => 3 | .cas => 2 | .decode => 1 | .fin => 0

/-- `a` is a step of the call thread `i`. -/
def Action.ofCall (i : Nat) : Action → Bool
  | .sret j _ | .loopSel j _ | .waitSel j _ | .dret j _ | .gpass j => j == i
  | _ => false

/-- `a` is a step of the notifier thread `nid`. -/
def Action.ofNotif (nid : Nat) : Action → Bool
  | .nrun k | .nwrite k _ => k == nid
  | _ => false

@[simp] theorem ofCall_sret (i j : Nat) (o : Outcome) : (Action.sret j o).ofCall i = (j == i) := rfl
@[simp] theorem ofCall_loopSel (i j : Nat) (b : LoopBr) : (Action.loopSel j b).ofCall i = (j == i) := rfl
@[simp] theorem ofCall_waitSel (i j : Nat) (b : WaitBr) : (Action.waitSel j b).ofCall i = (j == i) := rfl
@[simp] theorem ofCall_dret (i j : Nat) (o : Outcome) : (Action.dret j o).ofCall i = (j == i) := rfl
@[simp] theorem ofCall_gpass (i j : Nat) : (Action.gpass j).ofCall i = (j == i) := rfl
@[simp] theorem ofNotif_nrun (k n : Nat) : (Action.nrun n).ofNotif k = (n == k) := rfl
@[simp] theorem ofNotif_nwrite (k n : Nat) (o : Outcome) : (Action.nwrite n o).ofNotif k = (n == k) := rfl

def Action.isAdvance : Action → Bool
  | .advance _ => true
  | _ => false

macro "rank_close" hg:term : tactic =>
  `(tactic| (simp [setCall, setNotif, finish, Call.finish, removeAck, exitAck, Call.exitLoop, Call.retC, newCall, Call.rank, Notif.rank,
      Action.ofCall, Action.ofNotif, Action.isAdvance, Cfg.std_all $hg] <;> grind [Call.rank, Notif.rank]))

/-- `NotifyAcks` changes no program point and no timer: ranks are unchanged. -/
theorem ack_rank {cfg : Cfg} (ids : List Nat) (s : State) :
    (stepAck cfg s ids).notifs = s.notifs ∧
    ∀ i, ((stepAck cfg s ids).calls i).map Call.rank = (s.calls i).map Call.rank := by
  refine stepAck_induct cfg
    (P := fun t => t.notifs = s.notifs ∧ ∀ i, (t.calls i).map Call.rank = (s.calls i).map Call.rank) ?_ ids s ⟨rfl, fun _ => rfl⟩
  intro t id ⟨hn, hr⟩
  unfold ackOne
  by_cases hk : t.ack id = true
  · simp only [hk, if_true]
    cases hci : t.calls id with
    | none => exact ⟨hn, hr⟩
    | some ci =>
      by_cases ha : ci.acked = true
      · simp [ha, hn, hr]
      · simp only [ha, Bool.false_eq_true, if_false]
        refine ⟨by split <;> simp [setCall, removeAck, hn], fun i => ?_⟩
        have := hr i
        by_cases hid : i = id
        · subst hid; rw [hci] at this
          split <;> simp [setCall, removeAck, ← this, Call.rank]
        · split <;> simp [setCall, removeAck, hid, this]
  · simp only [hk]; exact ⟨hn, hr⟩

/-- One step: the call's rank does not grow unless the clock travels, and it shrinks when the step is the call's own;
a notifier's rank does not grow, and it shrinks when the step is the notifier's own. -/
def RankStep (s s' : State) (a : Action) : Prop :=
  (∀ i c c', s.calls i = some c → s'.calls i = some c' →
    (a.isAdvance = false → c'.rank ≤ c.rank) ∧ (a.ofCall i = true → c'.rank < c.rank)) ∧
  (∀ k n n', s.notifs k = some n → s'.notifs k = some n' →
    n'.rank ≤ n.rank ∧ (a.ofNotif k = true → n'.rank < n.rank))

set_option maxHeartbeats 8000000 in
theorem rank_step {cfg : Cfg} {s s' : State} {a : Action} (hg : cfg.std = true) (hs : step cfg s a = some s') :
    RankStep s s' a := by
  unfold RankStep
  cases a <;> simp only [step] at hs
  case start j q b =>
    unfold stepStart at hs
    split at hs
    · simp at hs
    · try dsimp only at hs
      split at hs <;> simp at hs <;> subst hs <;> rank_close hg
  case sret j o =>
    unfold stepSret at hs
    std_norm hg at hs
    split at hs
    · simp at hs
    · split at hs <;> try (simp at hs)
      all_goals (try split at hs) <;> try (simp at hs)
      all_goals (first | subst hs | (obtain ⟨_, hs⟩ := hs; subst hs))
      all_goals rank_close hg
  case loopSel j b =>
    unfold stepLoop at hs
    std_norm hg at hs
    split at hs
    · simp at hs
    · split at hs
      · simp at hs
      · try dsimp only at hs
        split at hs
        all_goals (split at hs <;> try (simp at hs))
        all_goals (try (split at hs <;> try (simp at hs)))
        all_goals (first | subst hs | (obtain ⟨_, hs⟩ := hs; subst hs))
        all_goals rank_close hg
  case waitSel j b =>
    unfold stepWait at hs
    std_norm hg at hs
    split at hs
    · simp at hs
    · split at hs
      · simp at hs
      · split at hs
        all_goals (split at hs <;> try (simp at hs))
        all_goals (try (split at hs <;> try (simp at hs)))
        all_goals (first | subst hs | (obtain ⟨_, hs⟩ := hs; subst hs))
        all_goals rank_close hg
  case dret j o =>
    unfold stepDret at hs
    std_norm hg at hs
    split at hs
    · simp at hs
    · split at hs <;> simp at hs
      subst hs
      rank_close hg
  case gpass j =>
    unfold stepGpass at hs
    std_norm hg at hs
    split at hs
    · simp at hs
    · split at hs <;> simp at hs
      subst hs
      rank_close hg
  case nstart nid t e v =>
    unfold stepNstart at hs
    split at hs
    · simp at hs
    · try dsimp only at hs
      split at hs <;> simp at hs <;> subst hs <;> rank_close hg
  case nrun nid =>
    unfold stepNrun at hs
    std_norm hg at hs
    simp only [casStep] at hs
    split at hs
    · simp at hs
    · split at hs
      all_goals (try (split at hs))
      all_goals (try (split at hs))
      all_goals (try (simp at hs))
      all_goals (try subst hs)
      all_goals rank_close hg
  case nwrite nid o =>
    unfold stepNwrite at hs
    split at hs
    · simp at hs
    · split at hs
      · split at hs
        · simp at hs
        · simp at hs; subst hs; rank_close hg
      · simp at hs
  case ack ids =>
    cases hs
    obtain ⟨hn, hr⟩ := ack_rank (cfg := cfg) ids s
    simp only [Action.isAdvance, Action.ofCall, Action.ofNotif, hn]
    refine ⟨fun i c c' hc hc' => ?_, fun k n n' h1 h2 => ?_⟩
    · have := hr i; rw [hc, hc'] at this; simp only [Option.map_some, Option.some.injEq] at this
      simp [this]
    · rw [h1] at h2; cases h2; simp
  case cancel j =>
    unfold stepCancel at hs
    split at hs
    · simp at hs
    · split at hs <;> simp at hs <;> subst hs
      · rank_close hg
      · simp [Action.isAdvance, Action.ofCall, Action.ofNotif]; grind
  case advance d =>
    cases hs
    simp [stepAdvance, Action.isAdvance, Action.ofCall, Action.ofNotif]
    grind
  case close k => split at hs <;> simp at hs; subst hs; simp [Action.isAdvance, Action.ofCall, Action.ofNotif]; grind
  case fclose k => split at hs <;> simp at hs; subst hs; simp [Action.isAdvance, Action.ofCall, Action.ofNotif]; grind
  case cret k => split at hs <;> simp at hs; subst hs; simp [Action.isAdvance, Action.ofCall, Action.ofNotif]; grind

end TdModel.Rpc
