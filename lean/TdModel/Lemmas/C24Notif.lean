/- C24 — preservation of `Rpc.Inv` by the notifier-thread actions. -/
import TdModel.Lemmas.C24
namespace TdModel.Rpc

theorem inv_nstart {s s' : State} {nid t : Nat} {e : Bool} {v : Nat} (h : Inv s)
    (hs : stepNstart s nid t e v = some s') : Inv s' := by
  unfold stepNstart at hs
  split at hs
  · simp at hs
  · try dsimp only at hs
    split at hs <;> simp at hs <;> subst hs <;> inv_close0

theorem inv_nrun {cfg : Cfg} {s s' : State} {nid : Nat} (hg : cfg.std = true) (h : Inv s)
    (hs : stepNrun cfg s nid = some s') : Inv s' := by
  unfold stepNrun at hs
  std_norm hg at hs
  simp only [casStep] at hs
  split at hs
  · simp at hs
  · split at hs
    all_goals (try (split at hs))
    all_goals (try (split at hs))
    all_goals (try (simp at hs))
    all_goals (try subst hs)
    all_goals inv_close0
theorem inv_nwrite {s s' : State} {nid : Nat} {o : Outcome} (h : Inv s)
    (hs : stepNwrite s nid o = some s') : Inv s' := by
  unfold stepNwrite at hs
  split at hs
  · simp at hs
  · split at hs
    · split at hs
      · simp at hs
      · simp at hs; subst hs; inv_close0
    · simp at hs

end TdModel.Rpc
