/-
C02/C03 — file C: every function of the manager model keeps the invariant.
-/
import TdModel.Lemmas.C02MgrB

namespace TdModel.C02Core
open TdModel.C01

/-- The regenerated orders are the ones the theorems are about (each field is re-proved from the
regenerated facts in Props/C02.lean and Props/C03.lean). -/
structure GoodOrders (O : Orders) : Prop where
  applyPts : O.applyPts = [.dispatch, .storePts]
  applyQts : O.applyQts = [.dispatch, .storeQts]
  chApplyPts : O.chApplyPts = [.dispatch, .storeChannelPts]
  diffPrelude : O.diffPrelude = [.clearPts, .clearQts, .clearSeq, .apiDiff]
  diffSetState : O.diffSetState = [.storeState, .boxSetPts, .boxSetQts, .boxSetSeq]
  diffDifference : O.diffDifference = [.reroute, .dispatch, .setStateClosure]
  diffSlice : O.diffSlice = [.reroute, .dispatch, .setStateClosure, .recurse]
  diffTooLong : O.diffTooLong = [.tooLongCb, .storePts, .boxSetPts, .recurse]
  chDiffPrelude : O.chDiffPrelude = [.clearPts, .apiChDiff]
  chDiffDifference : O.chDiffDifference = [.sendOut, .dispatch, .storeChannelPts, .boxSetPts, .recurse]
  chDiffEmpty : O.chDiffEmpty = [.storeChannelPts, .boxSetPts]
  chDiffTooLong : O.chDiffTooLong = [.tooLongCb, .storeChannelPts, .boxSetPts]
  diffGuard : O.diffGuard = [0, 1, 2]
  sliceGuard : O.sliceGuard = [0, 1, 2]
  chDiffGuard : O.chDiffGuard = [0, 2]
  creationStoresLocal : O.creationStoresLocal = true
  applyPtsBreak : O.applyPtsBreak = false
  chApplyPtsBreak : O.chApplyPtsBreak = false
  ownDirect : O.ownDirect = true
  chOwnDirect : O.chOwnDirect = true

theorem goodCfg_of (O : Orders) (hO : GoodOrders O) (log : List Entry) (k : Nat) : GoodCfg (cfgOf O log k) := by
  unfold cfgOf applyCfgOf applyCallsOf
  constructor
  · show (if k = 0 then seqCalls .storePts .bad [] O.applyPts
          else if k = 1 then seqCalls .storeQts .bad [] O.applyQts
          else seqCalls .storeChannelPts .bad [] O.chApplyPts) = [.dispatch, .store]
    rw [hO.applyPts, hO.applyQts, hO.chApplyPts]
    split
    · decide
    · split <;> decide
  · show (if k = 0 then O.applyPtsBreak else if k = 1 then false else O.chApplyPtsBreak) = false
    rw [hO.applyPtsBreak, hO.chApplyPtsBreak]
    split
    · rfl
    · split <;> rfl

theorem cfgOf_isMarker (O : Orders) (log : List Entry) (k : Nat) : (cfgOf O log k).isMarker = mkOf log := rfl

/-! ### Static facts of a scenario -/

/-- What is assumed of the scenario: distinct ids; for every tracked sequence the log tiles the
positions above its origin; pts and qts are tracked. -/
structure Scn (log : List Entry) (keys : List Nat) (org : Nat → Int) : Prop where
  uniq : UniqueIds log
  tiledK : ∀ k ∈ keys, tiled (org k) (seqLog log k) = true
  orgNonneg : ∀ k ∈ keys, 0 ≤ org k
  k0 : 0 ∈ keys
  k1 : 1 ∈ keys

theorem Scn.sorted {log keys org} (h : Scn log keys org) (k : Nat) (hk : k ∈ keys) : KeySorted log k :=
  keySorted_of_tiled log k (org k) (h.tiledK k hk)

theorem Scn.above {log keys org} (h : Scn log keys org) (k : Nat) (hk : k ∈ keys) :
    ∀ e ∈ log, e.seqKey = some k → org k ≤ e.pos - e.count ∧ 0 ≤ e.count ∧ 0 < e.pos := by
  intro e he hek
  exact tiled_lower _ _ (h.tiledK k hk) e ((mem_seqLog log k e).2 ⟨he, hek⟩)

/-! ### Queues -/

def ItemOK (log : List Entry) (c : Nat) : ChItem → Prop
  | .upd e => e.seqKey = some (2 + c) ∧ (e ∈ log ∨ (e.count = 0 ∧ 0 < e.pos ∧ mkOf log e.id = true))
  | .tooLong _ => True
  | .subscribe => True


/-- Ids and queues of the channel workers. -/
def Mgr.queues (m : Mgr) : List (Nat × List ChItem) := m.chans.map fun ch => (ch.id, ch.queue)

theorem queues_setBox (m : Mgr) (k : Nat) (b : Box) : (m.setBox k b).queues = m.queues := by
  unfold Mgr.setBox Mgr.queues
  split
  · rfl
  · split
    · rfl
    · simp only [List.map_map]
      apply List.map_congr_left
      intro ch _
      simp only [Function.comp]
      split <;> rfl

/-- The whole invariant of the manager model. -/
structure MInv (O : Orders) (log : List Entry) (keys : List Nat) (org start : Nat → Int) (m : Mgr) : Prop where
  coh : Coh O log start keys m
  p0 : m.w.p0 = org 0
  q0 : m.w.q0 = org 1
  c0 : ∀ c, 2 + c ∈ keys → m.w.chanInit c = org (2 + c)
  queues : ∀ q ∈ m.queues, 2 + q.1 ∈ keys ∧ ∀ it ∈ q.2, ItemOK log q.1 it
  internal : ∀ cont ∈ m.internal, ∀ e ∈ cont, e ∈ log
  /-- a channel the storage knows starts from the stored pts; one it does not know starts from the
  declared first-contact position; both are keys -/
  startP : ∀ c sp, m.w.persisted.find? (·.1 == c) = some sp → start (2 + c) = sp.2 ∧ 2 + c ∈ keys
  startC : ∀ c d, m.w.persisted.find? (·.1 == c) = none → m.w.cr.find? (·.1 == c) = some d →
    start (2 + c) = d.2 ∧ 2 + c ∈ keys
  /-- the containers that went through the seq box consist of log entries -/
  parked : ∀ cont ∈ m.parked, ∀ e ∈ cont, e ∈ log

/-- Facts that only depend on parts of the manager that `seqOp` does not touch. -/
theorem seqOp_w (O : Orders) (m : Mgr) (k : Nat) (op : SOp) : (m.seqOp O k op).w = m.w := by
  unfold Mgr.seqOp
  split
  · rfl
  · simp [Mgr.logOp, Mgr.emit, setBox_w]

theorem seqOp_queues (O : Orders) (m : Mgr) (k : Nat) (op : SOp) : (m.seqOp O k op).queues = m.queues := by
  unfold Mgr.seqOp
  split
  · rfl
  · show (Mgr.setBox _ _ _).queues = _
    exact queues_setBox _ _ _

theorem seqOp_internal (O : Orders) (m : Mgr) (k : Nat) (op : SOp) : (m.seqOp O k op).internal = m.internal := by
  unfold Mgr.seqOp
  split
  · rfl
  · simp [Mgr.logOp, Mgr.emit, setBox_internal]

theorem seqOp_parked (O : Orders) (m : Mgr) (k : Nat) (op : SOp) : (m.seqOp O k op).parked = m.parked := by
  unfold Mgr.seqOp
  split
  · rfl
  · simp [Mgr.logOp, Mgr.emit, setBox_parked]

theorem seqOp_getBox_other (O : Orders) (m : Mgr) (k k' : Nat) (op : SOp) (h : k' ≠ k) :
    (m.seqOp O k op).getBox k' = m.getBox k' := by
  unfold Mgr.seqOp
  split
  · rfl
  · show (Mgr.setBox _ _ _).getBox k' = _
    exact getBox_setBox_other _ _ _ _ h

theorem seqOp_getBox_same (O : Orders) (m : Mgr) (k : Nat) (op : SOp) (b : Box) (h : m.getBox k = some b) :
    (m.seqOp O k op).getBox k = some (sstep (applyCfgOf O (mkOf m.w.log) k) b op).1 := by
  unfold Mgr.seqOp
  simp only [h]
  show (Mgr.setBox _ _ _).getBox k = _
  exact getBox_setBox_same _ _ _ _ h

/-- `seqOp` keeps the invariant when the op is well-formed in the current box. -/
theorem minv_seqOp {O log keys org start m} (hO : GoodOrders O) (hS : Scn log keys org)
    (h : MInv O log keys org start m) (k : Nat) (op : SOp)
    (hw : ∀ b, m.getBox k = some b → wfOp (seqLog log k) (mkOf log) b op = true)
    (hq : k = 1 → ∀ b, m.getBox k = some b → SEv.tooLong ∉ (sstep (cfgOf O log k) b op).2) :
    MInv O log keys org start (m.seqOp O k op) := by
  refine ⟨coh_seqOp hS.uniq h.coh k (goodCfg_of O hO log k) op hw hq, ?_, ?_, ?_, ?_, ?_, ?_, ?_, ?_⟩
  · rw [seqOp_w]; exact h.p0
  · rw [seqOp_w]; exact h.q0
  · intro c hc; rw [seqOp_w]; exact h.c0 c hc
  · rw [seqOp_queues]; exact h.queues
  · rw [seqOp_internal]; exact h.internal
  · rw [seqOp_w]; exact h.startP
  · rw [seqOp_w]; exact h.startC
  · rw [seqOp_parked]; exact h.parked

/-! ### Pushes -/

theorem callEvs_no_tooLong (x : Int) (ids : List Nat) (calls : List SCall) (h : SCall.cb ∉ calls) :
    SEv.tooLong ∉ callEvs x ids calls := by
  induction calls with
  | nil => simp [callEvs]
  | cons c cs ih =>
    have hcs : SCall.cb ∉ cs := fun hm => h (List.mem_cons_of_mem _ hm)
    cases c with
    | dispatch =>
      simp only [callEvs, List.mem_append, not_or]
      refine ⟨?_, ih hcs⟩
      split <;> simp
    | store => simp only [callEvs, List.mem_cons, not_or]; exact ⟨by simp, ih hcs⟩
    | setBox => simpa [callEvs] using ih hcs
    | cb => exact absurd (List.mem_cons_self ..) h

theorem push_no_tooLong (c : ACfg) (hg : GoodCfg c) (b : Box) (e : Entry) :
    SEv.tooLong ∉ (sstep c b (.push e)).2 := by
  simp only [sstep]
  rcases handle_shape b e.upd true with ⟨h1, _⟩ | ⟨ns, us, h1, _, _, _⟩
  · rw [h1]; simp
  · rw [h1]
    simp only [List.flatMap_cons, List.flatMap_nil, List.append_nil, applyEvs, hg.calls]
    exact callEvs_no_tooLong _ _ _ (by decide)

theorem minv_push {O log keys org start m} (hO : GoodOrders O) (hS : Scn log keys org)
    (h : MInv O log keys org start m) (k : Nat) (e : Entry)
    (he : e.seqKey = some k ∧ (e ∈ log ∨ (e.count = 0 ∧ 0 < e.pos ∧ mkOf log e.id = true))) :
    MInv O log keys org start (m.seqOp O k (.push e)) := by
  apply minv_seqOp hO hS h k
  · intro b _
    simp only [wfOp, Bool.or_eq_true, Bool.and_eq_true, decide_eq_true_eq]
    rcases he.2 with h1 | ⟨h1, h2, h3⟩
    · exact Or.inl ((mem_seqLog log k e).2 ⟨h1, he.1⟩)
    · exact Or.inr ⟨⟨h1, h2⟩, h3⟩
  · intro _ b _
    exact push_no_tooLong _ (goodCfg_of O hO log k) b e

theorem queues_pushChan (m : Mgr) (c : Nat) (it : ChItem) :
    (m.pushChan c it).queues = m.queues.map fun q => if q.1 == c then (q.1, q.2 ++ [it]) else q := by
  unfold Mgr.pushChan Mgr.queues
  simp only [List.map_map]
  apply List.map_congr_left
  intro ch _
  simp only [Function.comp]
  split <;> simp_all

theorem minv_pushChan {O log keys org start m} (h : MInv O log keys org start m) (c : Nat) (it : ChItem)
    (hit : ItemOK log c it) : MInv O log keys org start (m.pushChan c it) := by
  refine ⟨coh_pushChan h.coh c it, h.p0, h.q0, h.c0, ?_, h.internal, h.startP, h.startC, h.parked⟩
  intro q hq
  rw [queues_pushChan] at hq
  obtain ⟨q0, hq0, rfl⟩ := List.mem_map.1 hq
  have := h.queues q0 hq0
  by_cases hc : (q0.1 == c) = true
  · simp only [hc, if_true]
    refine ⟨this.1, ?_⟩
    intro it' hit'
    simp only [List.mem_append, List.mem_singleton] at hit'
    rcases hit' with h' | rfl
    · exact this.2 it' h'
    · have : q0.1 = c := by simpa using hc
      rw [this]; exact hit
  · simp only [hc, if_false]
    exact this

theorem neutral_restore (log : List Entry) (keys : List Nat) (p q : Int) : Neutral log keys [.apiRestore p q] := by
  intro k _; simp [projSeq]

theorem minv_emit_neutral {O log keys org start m} (h : MInv O log keys org start m) (evs : List Event)
    (hn : Neutral log keys evs) : MInv O log keys org start (m.emit evs) :=
  ⟨coh_emit_neutral h.coh evs hn, h.p0, h.q0, h.c0, h.queues, h.internal, h.startP, h.startC, h.parked⟩

theorem kind_seqKey0 (e : Entry) (h : e.kind = .msg ∨ e.kind = .other) : e.seqKey = some 0 := by
  rcases h with h | h <;> simp [Entry.seqKey, h]
theorem kind_seqKey1 (e : Entry) (h : e.kind = .qts ∨ e.kind = .qother) : e.seqKey = some 1 := by
  rcases h with h | h <;> simp [Entry.seqKey, h]
theorem kind_seqKeyCh (e : Entry) (h : e.kind = .chmsg ∨ e.kind = .chother ∨ e.kind = .chaff) :
    e.seqKey = some (2 + e.chan) := by
  rcases h with h | h | h <;> simp [Entry.seqKey, h]

theorem queues_addChan (m : Mgr) (c : Nat) (pts : Int) : (m.addChan c pts).queues = m.queues ++ [(c, [])] := by
  simp [Mgr.addChan, Mgr.queues]

theorem getBox_none_of_not_hasChan (m : Mgr) (c : Nat) (h : m.hasChan c = false) : m.getBox (2 + c) = none := by
  unfold Mgr.getBox
  have h0 : ¬ (2 + c = 0) := by omega
  have h1 : ¬ (2 + c = 1) := by omega
  have h2 : 2 + c - 2 = c := by omega
  simp only [h0, h1, if_false, h2]
  unfold Mgr.hasChan at h
  cases hf : m.chans.find? (·.id == c) with
  | none => rfl
  | some ch =>
    have hm := List.mem_of_find?_eq_some hf
    have hid := List.find?_some hf
    have : m.chans.any (·.id == c) = true := List.any_eq_true.2 ⟨ch, hm, hid⟩
    rw [this] at h; cases h

/-- What the storage holds for a channel, read off the trace, is the last store of the channel's
projection of the trace. -/
theorem lastStoreChan_proj (log : List Entry) (c : Nat) (v0 : Int) : ∀ (tr : List Event) (o : Option Int),
    lastStore (o.getD v0) (projSeq log (2 + c) tr) = (lastStoreChan c o tr).getD v0 := by
  intro tr
  induction tr with
  | nil => intro o; rfl
  | cons ev r ih =>
    intro o
    have h0 : ¬ (2 + c = 0) := by omega
    have h1 : ¬ (2 + c = 1) := by omega
    cases ev with
    | dispatch ids =>
      simp only [projSeq, lastStoreChan]
      split
      · exact ih o
      · simp only [List.cons_append, List.nil_append, lastStore]; exact ih o
    | storeChan c' v =>
      simp only [projSeq, lastStoreChan]
      by_cases hc : c' = c
      · subst hc
        simp only [if_true, List.cons_append, List.nil_append, lastStore]
        exact ih (some v)
      · have : ¬ (2 + c = 2 + c') := by omega
        simp only [this, hc, if_false, List.nil_append]
        exact ih o
    | storePts v => simp only [projSeq, lastStoreChan, h0, if_false, List.nil_append]; exact ih o
    | storeQts v => simp only [projSeq, lastStoreChan, h1, if_false, List.nil_append]; exact ih o
    | storeState p q => simp only [projSeq, lastStoreChan, h0, h1, if_false, List.nil_append]; exact ih o
    | apiDiff p q => simp only [projSeq, lastStoreChan, List.nil_append]; exact ih o
    | apiChDiff c' p => simp only [projSeq, lastStoreChan, List.nil_append]; exact ih o
    | tooLong => simp only [projSeq, lastStoreChan, h0, if_false, List.nil_append]; exact ih o
    | chTooLong c' =>
      simp only [projSeq, lastStoreChan]
      split
      · simp only [List.cons_append, List.nil_append, lastStore]; exact ih o
      · exact ih o
    | apiRestore p q => simp only [projSeq, lastStoreChan, List.nil_append]; exact ih o
    | storeSeq v => simp only [projSeq, lastStoreChan, List.nil_append]; exact ih o
    | inaccessible c' => simp only [projSeq, lastStoreChan, List.nil_append]; exact ih o

/-- **What the storage holds for a sequence is where its box is** (or, if the worker is gone,
where it was): every change of the position is written, and nothing else is. -/
theorem replay_state_stored {O log keys org start m} (hO : GoodOrders O) (h : MInv O log keys org start m)
    (k : Nat) (hk : k ∈ keys) :
    (replay O log start m.ops k).1.state = lastStore (start k) (projSeq log k m.trace) := by
  rw [h.coh.tr k hk]
  exact (srun_lastStore (seqLog log k) (cfgOf O log k) (goodCfg_of O hO log k) _ { state := start k } (h.coh.wf k hk)).symm

theorem queues_recreate (m : Mgr) (c : Nat) (v : Int) : (m.recreate c v).queues = m.queues ++ [(c, [])] := by
  simp [Mgr.recreate, Mgr.addChan, Mgr.logOp, Mgr.queues]

/-- A worker is (re)started at the position the storage holds. -/
theorem minv_recreate {O log keys org start m} (hO : GoodOrders O) (h : MInv O log keys org start m) (c : Nat) (v : Int)
    (hk : 2 + c ∈ keys) (hb : m.getBox (2 + c) = none)
    (hv : v = lastStore (start (2 + c)) (projSeq log (2 + c) m.trace)) :
    MInv O log keys org start (m.recreate c v) := by
  have hv' : v = (replay O log start m.ops (2 + c)).1.state := by rw [hv, replay_state_stored hO h _ hk]
  rw [hv']
  refine ⟨coh_recreate h.coh c hk hb, h.p0, h.q0, h.c0, ?_, h.internal, h.startP, h.startC, h.parked⟩
  intro q hq
  rw [queues_recreate] at hq
  rcases List.mem_append.1 hq with h' | h'
  · exact h.queues q h'
  · simp only [List.mem_singleton] at h'
    subst h'
    exact ⟨hk, fun it hit => by simp at hit⟩

theorem getBox_recreate_same (m : Mgr) (c : Nat) (v : Int) (h : m.getBox (2 + c) = none) :
    (m.recreate c v).getBox (2 + c) = some { state := v } := by
  show (m.addChan c v).getBox (2 + c) = _
  exact getBox_addChan_same m c v h

theorem minv_bad {O log keys org start m} (h : MInv O log keys org start m) :
    MInv O log keys org start { m with bad := true } :=
  ⟨⟨h.coh.hlog, h.coh.box, h.coh.tr, h.coh.wf, h.coh.pend, h.coh.nobox⟩, h.p0, h.q0, h.c0, h.queues, h.internal,
    h.startP, h.startC, h.parked⟩

theorem minv_firstContact {O log keys org start m} (hO : GoodOrders O) (hS : Scn log keys org)
    (h : MInv O log keys org start m) (e : Entry) (he : e ∈ log) (hek : e.seqKey = some (2 + e.chan))
    (hno : m.hasChan e.chan = false) : MInv O log keys org start (m.firstContact O e) := by
  unfold Mgr.firstContact
  have hb := getBox_none_of_not_hasChan m e.chan hno
  simp only
  split
  · exact minv_emit_neutral h _ (neutral_restore log keys _ _)
  · split
    · rename_i sp hsp
      obtain ⟨hst, hk⟩ := h.startP e.chan sp hsp
      have h1 := minv_recreate hO h e.chan ((lastStoreChan e.chan (some sp.2) m.trace).getD sp.2) hk hb
        (by rw [hst]; exact (lastStoreChan_proj log e.chan sp.2 m.trace (some sp.2)).symm)
      exact minv_pushChan (minv_pushChan h1 e.chan .subscribe trivial) e.chan (.upd e) ⟨hek, Or.inl he⟩
    · rename_i hsp
      split
      · exact minv_bad h
      · rename_i d hd
        obtain ⟨hst, hk⟩ := h.startC e.chan d hsp hd
        have hproj := lastStoreChan_proj log e.chan d.2 m.trace none
        simp only [Option.getD_none] at hproj
        split
        · rename_i v hv
          have h1 := minv_recreate hO h e.chan v hk hb (by rw [hst, hproj, hv]; rfl)
          exact minv_pushChan (minv_pushChan h1 e.chan .subscribe trivial) e.chan (.upd e) ⟨hek, Or.inl he⟩
        · rename_i hv
          split
          · have h1 := minv_recreate hO h e.chan d.2 hk hb (by rw [hst, hproj, hv]; rfl)
            have h2 : MInv O log keys org start ((m.recreate e.chan d.2).seqOp O (2 + e.chan)
                (.seq storeOnlyShape (if O.creationStoresLocal then d.2 else e.pos) [])) := by
              apply minv_seqOp hO hS h1
              · intro b hb'
                rw [getBox_recreate_same m e.chan d.2 hb] at hb'
                rw [← Option.some.inj hb', hO.creationStoresLocal]
                simp [wfOp, storeOnlyShape, diffShape, emptyShape, tooLongShape, cbOnlyShape]
              · intro h1'; omega
            exact minv_pushChan (minv_pushChan h2 e.chan .subscribe trivial) e.chan (.upd e) ⟨hek, Or.inl he⟩
          · exact minv_bad h

/-! ### A channel becomes inaccessible -/

theorem queues_removeChan (m : Mgr) (c : Nat) : (m.removeChan c).queues = m.queues.filter (·.1 != c) := by
  simp [Mgr.removeChan, Mgr.queues, List.filter_map, Function.comp_def]

theorem minv_removeChan {O log keys org start m} (h : MInv O log keys org start m) (c : Nat) :
    MInv O log keys org start (m.removeChan c) := by
  refine ⟨coh_removeChan h.coh c, h.p0, h.q0, h.c0, ?_, h.internal, h.startP, h.startC, h.parked⟩
  intro q hq
  rw [queues_removeChan] at hq
  exact h.queues q (List.mem_filter.1 hq).1

theorem neutral_inaccessible (log : List Entry) (keys : List Nat) (c : Nat) : Neutral log keys [.inaccessible c] := by
  intro k _; simp [projSeq]

theorem minv_route {O log keys org start m} (hO : GoodOrders O) (hS : Scn log keys org)
    (h : MInv O log keys org start m) (e : Entry) (he : e ∈ log) :
    MInv O log keys org start (m.route O e) := by
  unfold Mgr.route
  cases hk : e.kind with
  | msg => exact minv_push hO hS h 0 e ⟨kind_seqKey0 e (Or.inl hk), Or.inl he⟩
  | other => exact minv_push hO hS h 0 e ⟨kind_seqKey0 e (Or.inr hk), Or.inl he⟩
  | qts => exact minv_push hO hS h 1 e ⟨kind_seqKey1 e (Or.inl hk), Or.inl he⟩
  | qother => exact minv_push hO hS h 1 e ⟨kind_seqKey1 e (Or.inr hk), Or.inl he⟩
  | chmsg =>
    simp only
    split
    · exact minv_pushChan h e.chan (.upd e) ⟨kind_seqKeyCh e (Or.inl hk), Or.inl he⟩
    · rename_i hno
      exact minv_firstContact hO hS h e he (kind_seqKeyCh e (Or.inl hk)) (by simpa using hno)
  | chother =>
    simp only
    split
    · exact minv_pushChan h e.chan (.upd e) ⟨kind_seqKeyCh e (Or.inr (Or.inl hk)), Or.inl he⟩
    · rename_i hno
      exact minv_firstContact hO hS h e he (kind_seqKeyCh e (Or.inr (Or.inl hk))) (by simpa using hno)
  | plain => exact h
  | aff => exact h
  | chaff => exact h

theorem foldl_inv {α β} (P : β → Prop) (f : β → α → β) (l : List α) (Q : α → Prop)
    (hstep : ∀ b a, P b → Q a → P (f b a)) : ∀ b, P b → (∀ a ∈ l, Q a) → P (l.foldl f b) := by
  induction l with
  | nil => intro b hb _; exact hb
  | cons a t ih =>
    intro b hb hq
    exact ih (f b a) (hstep b a hb (hq a (List.mem_cons_self ..))) (fun x hx => hq x (List.mem_cons_of_mem _ hx))

theorem mem_insertSorted (x : Entry) (l : List Entry) (u : Entry) : u ∈ insertSorted x l ↔ u = x ∨ u ∈ l := by
  induction l with
  | nil => simp [insertSorted]
  | cons y ys ih =>
    unfold insertSorted
    split
    · simp only [List.mem_cons, ih]
      constructor
      · rintro (h | h | h)
        · exact Or.inr (Or.inl h)
        · exact Or.inl h
        · exact Or.inr (Or.inr h)
      · rintro (h | h | h)
        · exact Or.inr (Or.inl h)
        · exact Or.inl h
        · exact Or.inr (Or.inr h)
    · simp

theorem mem_sortUpdates (l : List Entry) (u : Entry) : u ∈ sortUpdates l ↔ u ∈ l := by
  induction l with
  | nil => simp [sortUpdates]
  | cons x xs ih =>
    have : sortUpdates (x :: xs) = insertSorted x (sortUpdates xs) := rfl
    rw [this, mem_insertSorted, ih]
    simp

/-- Dispatching position-less updates concerns no sequence. -/
theorem neutral_plain (log : List Entry) (hu : UniqueIds log) (keys : List Nat) (es : List Entry)
    (hes : ∀ e ∈ es, e ∈ log ∧ e.seqKey = none) : Neutral log keys [.dispatch (es.map (·.id))] := by
  intro k _
  simp only [projSeq, List.append_nil]
  have : (es.map (·.id)).filter (fun i => (log.find? (·.id == i)).any (·.seqKey == some k)) = [] := by
    rw [List.filter_eq_nil_iff]
    intro i hi
    obtain ⟨e, he, rfl⟩ := List.mem_map.1 hi
    rw [find_of_unique log hu e (hes e he).1]
    simp [(hes e he).2]
  rw [this]; rfl

theorem minv_applyCombined {O log keys org start m} (hO : GoodOrders O) (hS : Scn log keys org)
    (h : MInv O log keys org start m) (cont : List Entry) (hc : ∀ e ∈ cont, e ∈ log) :
    MInv O log keys org start (m.applyCombined O cont) := by
  unfold Mgr.applyCombined
  have hs : ∀ e ∈ sortUpdates cont, e ∈ log := fun e he => hc e ((mem_sortUpdates cont e).1 he)
  have h1 := foldl_inv (MInv O log keys org start) (fun m e => m.route O e) (sortUpdates cont) (· ∈ log)
    (fun b a hb ha => minv_route hO hS hb a ha) m h hs
  simp only
  split
  · exact h1
  · apply minv_emit_neutral h1
    apply neutral_plain log hS.uniq
    intro e he
    obtain ⟨hm, hk⟩ := List.mem_filter.1 he
    refine ⟨hs e hm, ?_⟩
    have : e.kind = .plain := by simpa using hk
    simp [Entry.seqKey, this]

/-! ### The seq box: whole containers, applied in whatever order the box decides -/

theorem minv_withSeq {O log keys org start m} (h : MInv O log keys org start m) (b : Box) :
    MInv O log keys org start (m.withSeq b) :=
  ⟨⟨h.coh.hlog, h.coh.box, h.coh.tr, h.coh.wf, h.coh.pend, h.coh.nobox⟩, h.p0, h.q0, h.c0, h.queues, h.internal,
    h.startP, h.startC, h.parked⟩

theorem minv_setSeqState {O log keys org start m} (h : MInv O log keys org start m) (v : Int) :
    MInv O log keys org start (m.setSeqState v) :=
  ⟨⟨h.coh.hlog, h.coh.box, h.coh.tr, h.coh.wf, h.coh.pend, h.coh.nobox⟩, h.p0, h.q0, h.c0, h.queues, h.internal,
    h.startP, h.startC, h.parked⟩

theorem minv_setSeqNow {O log keys org start m} (h : MInv O log keys org start m) :
    MInv O log keys org start m.setSeqNow := minv_setSeqState h _

theorem minv_users {O log keys org start m} (h : MInv O log keys org start m) (u : List Nat) :
    MInv O log keys org start { m with users := u } :=
  ⟨⟨h.coh.hlog, h.coh.box, h.coh.tr, h.coh.wf, h.coh.pend, h.coh.nobox⟩, h.p0, h.q0, h.c0, h.queues, h.internal,
    h.startP, h.startC, h.parked⟩

theorem minv_learnUsers {O log keys org start m} (h : MInv O log keys org start m) (es : List Entry) :
    MInv O log keys org start (m.learnUsers es) := minv_users h _

theorem minv_park {O log keys org start m} (h : MInv O log keys org start m) (cont : List Entry)
    (hc : ∀ e ∈ cont, e ∈ log) : MInv O log keys org start { m with parked := m.parked ++ [cont] } := by
  refine ⟨⟨h.coh.hlog, h.coh.box, h.coh.tr, h.coh.wf, h.coh.pend, h.coh.nobox⟩, h.p0, h.q0, h.c0, h.queues, h.internal,
    h.startP, h.startC, ?_⟩
  intro c hcm e he
  have hcm' : c ∈ m.parked ++ [cont] := hcm
  rcases List.mem_append.1 hcm' with h' | h'
  · exact h.parked c h' e he
  · rw [List.mem_singleton.1 h'] at he; exact hc e he

theorem neutral_storeSeq (log : List Entry) (keys : List Nat) (v : Int) : Neutral log keys [.storeSeq v] := by
  intro k _; simp [projSeq]

theorem parked_getD {O log keys org start m} (h : MInv O log keys org start m) (i : Nat) :
    ∀ e ∈ m.parked.getD i [], e ∈ log := by
  intro e he
  rw [List.getD_eq_getElem?_getD] at he
  cases hi : m.parked[i]? with
  | none => rw [hi] at he; simp at he
  | some c =>
    rw [hi] at he
    exact h.parked c (List.mem_of_getElem? hi) e he

theorem minv_applyCombinedSeq {O log keys org start m} (hO : GoodOrders O) (hS : Scn log keys org)
    (h : MInv O log keys org start m) (cont : List Entry) (hc : ∀ e ∈ cont, e ∈ log) (seq : Int) :
    MInv O log keys org start (m.applyCombinedSeq O cont seq) := by
  unfold Mgr.applyCombinedSeq
  simp only
  split
  · exact minv_emit_neutral (minv_setSeqState (minv_applyCombined hO hS h cont hc) _) _ (neutral_storeSeq log keys _)
  · exact minv_applyCombined hO hS h cont hc

theorem minv_applySeqEvs {O log keys org start} (hO : GoodOrders O) (hS : Scn log keys org) :
    ∀ (evs : List TdModel.C01.Ev) (m : Mgr), MInv O log keys org start m → MInv O log keys org start (m.applySeqEvs O evs) := by
  intro evs
  induction evs with
  | nil => intro m h; exact h
  | cons ev rest ih =>
    intro m h
    cases ev with
    | apply ns us ok =>
      simp only [Mgr.applySeqEvs]
      apply ih
      apply minv_emit_neutral _ _ (neutral_storeSeq log keys _)
      exact foldl_inv (MInv O log keys org start)
        (fun (m : Mgr) (u : Upd) => m.applyCombinedSeq O (m.parked.getD u.tag []) u.state) us (fun _ => True)
        (fun b a hb _ => minv_applyCombinedSeq hO hS hb _ (parked_getD hb a.tag) _) m h (fun _ _ => trivial)
    | setState x =>
      simp only [Mgr.applySeqEvs]
      exact ih m h

theorem minv_handleSeq {O log keys org start m} (hO : GoodOrders O) (hS : Scn log keys org)
    (h : MInv O log keys org start m) (cont : List Entry) (hc : ∀ e ∈ cont, e ∈ log) (a b : Nat) :
    MInv O log keys org start (m.handleSeq O cont a b) := by
  unfold Mgr.handleSeq
  split
  · exact minv_applyCombined hO hS h cont hc
  · simp only
    exact minv_withSeq (minv_applySeqEvs hO hS _ _ (minv_park h cont hc)) _

theorem pushChan_pts (m : Mgr) (c : Nat) (it : ChItem) : (m.pushChan c it).pts = m.pts ∧ (m.pushChan c it).qts = m.qts :=
  ⟨rfl, rfl⟩

theorem seqOp_chan_common (O : Orders) (m : Mgr) (c : Nat) (op : SOp) :
    (m.seqOp O (2 + c) op).pts = m.pts ∧ (m.seqOp O (2 + c) op).qts = m.qts := by
  unfold Mgr.seqOp
  split
  · exact ⟨rfl, rfl⟩
  · have h0 : ¬ (2 + c = 0) := by omega
    have h1 : ¬ (2 + c = 1) := by omega
    refine ⟨?_, ?_⟩ <;> simp [Mgr.logOp, Mgr.emit, Mgr.setBox, h0, h1]

theorem firstContact_common_boxes (O : Orders) (m : Mgr) (e : Entry) :
    (m.firstContact O e).pts = m.pts ∧ (m.firstContact O e).qts = m.qts := by
  unfold Mgr.firstContact
  simp only
  split
  · exact ⟨rfl, rfl⟩
  · split
    · exact ⟨rfl, rfl⟩
    · split
      · exact ⟨rfl, rfl⟩
      · rename_i d _
        split
        · exact ⟨rfl, rfl⟩
        · split
          · have := seqOp_chan_common O (m.recreate e.chan d.2) e.chan
              (.seq storeOnlyShape (if O.creationStoresLocal then d.2 else e.pos) [])
            exact ⟨this.1, this.2⟩
          · exact ⟨rfl, rfl⟩

/-- Routing updates that are not of the common sequences leaves the pts and qts boxes alone. -/
theorem route_common_boxes (O : Orders) (m : Mgr) (e : Entry) (he : ownCommon e = false) :
    (m.route O e).pts = m.pts ∧ (m.route O e).qts = m.qts := by
  unfold Mgr.route
  cases hk : e.kind <;> simp [ownCommon, hk] at he <;> simp only
  all_goals first
    | exact ⟨rfl, rfl⟩
    | (split
       · exact ⟨rfl, rfl⟩
       · exact firstContact_common_boxes O m e)
    | simp

theorem applyCombined_common_boxes (O : Orders) (m : Mgr) (cont : List Entry) (hc : ∀ e ∈ cont, ownCommon e = false) :
    (m.applyCombined O cont).pts = m.pts ∧ (m.applyCombined O cont).qts = m.qts := by
  unfold Mgr.applyCombined
  have hs : ∀ e ∈ sortUpdates cont, ownCommon e = false := fun e he => hc e ((mem_sortUpdates cont e).1 he)
  have h1 : ∀ (l : List Entry) (m' : Mgr), (∀ e ∈ l, ownCommon e = false) →
      (l.foldl (fun m e => m.route O e) m').pts = m'.pts ∧ (l.foldl (fun m e => m.route O e) m').qts = m'.qts := by
    intro l
    induction l with
    | nil => intro m' _; exact ⟨rfl, rfl⟩
    | cons a t ih =>
      intro m' hl
      simp only [List.foldl]
      have ha := route_common_boxes O m' a (hl a (List.mem_cons_self ..))
      have := ih (m'.route O a) (fun e he => hl e (List.mem_cons_of_mem _ he))
      exact ⟨this.1.trans ha.1, this.2.trans ha.2⟩
  have h2 := h1 (sortUpdates cont) m hs
  simp only
  split
  · exact h2
  · exact h2

end TdModel.C02Core
