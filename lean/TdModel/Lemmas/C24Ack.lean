/-
C25 / C26 — `NotifyAcks` on a batch: with the source's loop shape (`Cfg.std`: unknown ids are skipped,
known ones closed and unregistered) every pending id of the batch is acknowledged, whatever else the
batch contains (ids nobody waits for, repeated ids, in any order), and no channel is closed twice.
-/
import TdModel.Lemmas.C24Env
set_option linter.unusedSimpArgs false
namespace TdModel.Rpc

/-- under `std` and the invariant, one loop iteration never stops the loop. -/
theorem ackOne_goes_on {cfg : Cfg} (hg : cfg.std = true) {s : State} (hi : Inv s) (id : Nat) :
    (ackOne cfg s id).2 = true := by
  unfold ackOne
  by_cases hk : s.ack id = true
  · simp only [hk, if_true]
    cases hc : s.calls id with
    | none => rfl
    | some c => simp [hi.ack_unacked id c hk hc]
  · simp [hk, Cfg.std_all hg]

/-- one iteration on a registered id acknowledges it and unregisters it. -/
theorem ackOne_self {cfg : Cfg} (hg : cfg.std = true) {s : State} (hi : Inv s) (i : Nat) (hreg : s.ack i = true) :
    ∃ c, (ackOne cfg s i).1.calls i = some c ∧ c.acked = true ∧ (ackOne cfg s i).1.ack i = false := by
  obtain ⟨c, hc, _⟩ := hi.ack_pc i hreg
  have hna := hi.ack_unacked i c hreg hc
  refine ⟨{ c with acked := true }, ?_, rfl, ?_⟩ <;>
    simp [ackOne, hreg, hc, hna, Cfg.std_all hg, setCall, removeAck]

/-- one iteration on another id leaves call `i` and its registration alone. -/
theorem ackOne_other {cfg : Cfg} {s : State} (i id : Nat) (hne : id ≠ i) :
    (ackOne cfg s id).1.calls i = s.calls i ∧ (ackOne cfg s id).1.ack i = s.ack i := by
  unfold ackOne
  by_cases hk : s.ack id = true
  · simp only [hk, if_true]
    cases hc : s.calls id with
    | none => exact ⟨rfl, rfl⟩
    | some c =>
      by_cases ha : c.acked = true
      · simp [ha]
      · simp only [ha, Bool.false_eq_true, if_false]
        split <;> simp [setCall, removeAck, Ne.symm hne]
  · simp [hk]

/-- an unregistered id is not touched by the rest of the batch. -/
theorem stepAck_unregistered {cfg : Cfg} (i : Nat) (c : Call) (ids : List Nat) (s : State)
    (hc : s.calls i = some c) (hu : s.ack i = false) :
    (stepAck cfg s ids).calls i = some c ∧ (stepAck cfg s ids).ack i = false := by
  refine stepAck_induct cfg (P := fun t => t.calls i = some c ∧ t.ack i = false) ?_ ids s ⟨hc, hu⟩
  intro t id ⟨h1, h2⟩
  by_cases hid : id = i
  · subst hid
    simp [ackOne, h2, h1]
  · obtain ⟨e1, e2⟩ := ackOne_other (cfg := cfg) (s := t) i id hid
    rw [e1, e2]; exact ⟨h1, h2⟩

/-- **Every pending id of a batch is acknowledged**, regardless of the other ids in it. -/
theorem ack_batch {cfg : Cfg} (hg : cfg.std = true) (ids : List Nat) (s : State) (hi : Inv s)
    (i : Nat) (hmem : i ∈ ids) (hreg : s.ack i = true) :
    ∃ c, (stepAck cfg s ids).calls i = some c ∧ c.acked = true ∧ (stepAck cfg s ids).ack i = false := by
  induction ids generalizing s with
  | nil => cases hmem
  | cons id rest ih =>
    simp only [stepAck, ackOne_goes_on hg hi id, if_true]
    by_cases hid : id = i
    · subst hid
      obtain ⟨c, hc, ha, hu⟩ := ackOne_self (cfg := cfg) hg hi id hreg
      obtain ⟨h1, h2⟩ := stepAck_unregistered (cfg := cfg) id c rest _ hc hu
      exact ⟨c, h1, ha, h2⟩
    · have hmem' : i ∈ rest := by
        cases hmem with
        | head => exact absurd rfl hid
        | tail _ h => exact h
      obtain ⟨e1, e2⟩ := ackOne_other (cfg := cfg) (s := s) i id hid
      exact ih _ (inv_ackOne hg s id hi) hmem' (by rw [e2]; exact hreg)

end TdModel.Rpc
