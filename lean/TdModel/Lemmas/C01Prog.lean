/-
C01 — the interpreter of `Model/C01Prog.lean`, run on the *expected* programs, is the hand-written
model of `Model/C01.lean`.  (That the regenerated programs are the expected ones is proved in
`Props/C01.lean`, from the facts of the current source.)
-/
import TdModel.Model.C01Prog
import TdModel.Lemmas.C01

namespace TdModel.C01

/-! ### The expected programs (what the Go source looks like) -/

/-- `for i, g := range b.gaps { if g.from <= u.start() && g.to >= u.end() { if g.from < u.start()
{ append left }; if g.to > u.end() { append right }; remove i; return true } }`. -/
def expConsumeBody : Prog :=
  .ite 70
    (.ite 71 (.act 60 (.ite 72 (.act 61 (.act 62 .retTrue)) (.act 62 .retTrue)))
             (.ite 72 (.act 61 (.act 62 .retTrue)) (.act 62 .retTrue)))
    .cont

/-- `switch checkGap(state, update.State, update.Count) { case gapApply: accepted = append(…);
state = update.State; cursor = i + 1; continue; case gapIgnore: cursor = i + 1; continue;
case gapRefetch: break loop }`. -/
def expApplyLoop : Prog :=
  .ite 24 (.act 50 (.act 51 (.act 52 .cont))) (.ite 20 (.act 52 .cont) (.ite 25 .brk .cont))

/-- `applyPending`: sort, init, loop, the five trimming statements, `if len(accepted) == 0 { return
nil }`, the callback, `if err != nil { return err }`, `setState`. -/
def expApplyPending : Prog :=
  .act 30 (.act 31 (.act 32 (.act 33 (.act 34 (.act 35 (.act 36 (.act 37
    (.ite 40 .ret (.act 38 (.ite 27 .retErr (.act 39 .ret)))))))))))

/-- `Handle`. -/
def expHandle : Prog :=
  .ite 20 .ret
    (.ite 21
      (.act 10 (.act 11 (.ite 22 .ret (.ite 23 (.act 12 (.act 13 .ret)) .ret))))
      (.ite 24
        (.ite 26 (.act 10 (.act 13 .ret)) (.act 14 (.ite 27 .retErr (.act 15 .ret))))
        (.ite 25
          (.act 10 (.act 16 (.act 17 (.ite 23 (.act 13 .ret) (.act 18 .ret)))))
          .panic)))

def expProgs : Progs :=
  { handle := expHandle, applyPending := expApplyPending, applyLoop := expApplyLoop, consumeBody := expConsumeBody }

/-! ### `Consume` -/

theorem eraseIdx_append_cons (pre : List Gap) (g : Gap) (rest : List Gap) :
    (pre ++ g :: rest).eraseIdx pre.length = pre ++ rest := by
  induction pre with
  | nil => rfl
  | cons a t ih => simp [List.eraseIdx, ih]

theorem consumeLoop_eq (u : Upd) : ∀ (gs pre : List Gap),
    consumeLoop expConsumeBody u pre.length gs (pre ++ gs) = (consume gs u).map (pre ++ ·) := by
  intro gs
  induction gs with
  | nil => intro pre; rfl
  | cons g gs ih =>
    intro pre
    unfold consumeLoop consume
    by_cases hfit : g.1 ≤ u.start ∧ g.2 ≥ u.state
    · have h70 : consumeCond 70 g u = true := by simp [consumeCond, hfit.1, hfit.2]
      rw [if_pos hfit]
      have h1 := hfit.1
      have h2 : u.state ≤ g.2 := hfit.2
      by_cases hl : g.1 < u.start <;> by_cases hr : g.2 > u.state <;>
        simp [expConsumeBody, consumeBody, consumeCond, consumeAct, hl, hr, h1, h2, List.append_assoc]
      · have := eraseIdx_append_cons pre g (gs ++ ([(g.1, u.start)] ++ [(u.state, g.2)]))
        simpa [List.append_assoc] using this
      · have := eraseIdx_append_cons pre g (gs ++ [(g.1, u.start)])
        simpa [List.append_assoc] using this
      · have := eraseIdx_append_cons pre g (gs ++ [(u.state, g.2)])
        simpa [List.append_assoc] using this
      · exact eraseIdx_append_cons pre g gs
    · have h70 : consumeCond 70 g u = false := by
        simp only [consumeCond, if_true]
        by_cases h1 : g.1 ≤ u.start
        · have h2 : ¬ g.2 ≥ u.state := fun h => hfit ⟨h1, h⟩
          simp [h1, h2]
        · simp [h1]
      rw [if_neg hfit]
      have hbody : consumeBody pre.length g u expConsumeBody { gaps := pre ++ g :: gs } =
          { gaps := pre ++ g :: gs, next := true } := by
        simp [expConsumeBody, consumeBody, h70]
      simp only [hbody]
      have := ih (pre ++ [g])
      simp only [List.length_append, List.length_singleton, List.append_assoc, List.singleton_append] at this
      rw [this]
      cases consume gs u <;> simp

theorem consumeI_eq (gaps : List Gap) (u : Upd) : consumeI expConsumeBody gaps u = consume gaps u := by
  have := consumeLoop_eq u gaps []
  simp only [List.length_nil, List.nil_append] at this
  unfold consumeI
  rw [this]
  cases consume gaps u <;> simp

theorem consumeAllI_eq (l : List Upd) : ∀ gaps, consumeAllI expConsumeBody gaps l = consumeAll gaps l := by
  induction l with
  | nil => intro gaps; rfl
  | cons u us ih => intro gaps; simp only [consumeAllI, consumeAll, consumeI_eq, ih]

/-! ### `applyPending` -/

theorem walk_suffix (l : List Upd) : ∀ s,
    (walk s l).2.2.length ≤ l.length ∧ l.drop (l.length - (walk s l).2.2.length) = (walk s l).2.2 := by
  induction l with
  | nil => intro s; simp [walk]
  | cons u us ih =>
    intro s
    unfold walk
    cases h : checkGap s u.state u.count with
    | apply =>
      simp only
      obtain ⟨h1, h2⟩ := ih u.state
      refine ⟨by simp only [List.length_cons]; omega, ?_⟩
      have : (u :: us).length - (walk u.state us).2.2.length = (us.length - (walk u.state us).2.2.length) + 1 := by
        simp only [List.length_cons]; omega
      rw [this, List.drop_succ_cons]; exact h2
    | ignore =>
      simp only
      obtain ⟨h1, h2⟩ := ih s
      refine ⟨by simp only [List.length_cons]; omega, ?_⟩
      have : (u :: us).length - (walk s us).2.2.length = (us.length - (walk s us).2.2.length) + 1 := by
        simp only [List.length_cons]; omega
      rw [this, List.drop_succ_cons]; exact h2
    | refetch => simp
    | invalid => simp

theorem loopI_eq (l : List Upd) : ∀ (i : Nat) (s : Int) (A : List Upd),
    loopI expApplyLoop i l { lstate := s, accepted := A, cursor := i } =
      { lstate := (walk s l).2.1, accepted := A ++ (walk s l).1, cursor := i + (l.length - (walk s l).2.2.length) } := by
  induction l with
  | nil => intro i s A; simp [loopI, walk]
  | cons u us ih =>
    intro i s A
    unfold loopI walk
    cases h : checkGap s u.state u.count with
    | apply =>
      have hb : loopBody i u expApplyLoop { lstate := s, accepted := A, cursor := i } =
          ({ lstate := u.state, accepted := A ++ [u], cursor := i + 1 }, true) := by
        simp [expApplyLoop, loopBody, loopCond, loopAct, h]
      rw [hb]
      simp only [if_true]
      rw [ih (i + 1) u.state (A ++ [u])]
      have hle := (walk_suffix us u.state).1
      simp only [List.append_assoc, List.singleton_append, List.length_cons]
      congr 1
      omega
    | ignore =>
      have hb : loopBody i u expApplyLoop { lstate := s, accepted := A, cursor := i } =
          ({ lstate := s, accepted := A, cursor := i + 1 }, true) := by
        simp [expApplyLoop, loopBody, loopCond, loopAct, h]
      rw [hb]
      simp only [if_true]
      rw [ih (i + 1) s A]
      have hle := (walk_suffix us s).1
      simp only [List.length_cons]
      congr 1
      omega
    | refetch =>
      have hb : loopBody i u expApplyLoop { lstate := s, accepted := A, cursor := i } =
          ({ lstate := s, accepted := A, cursor := i }, false) := by
        simp [expApplyLoop, loopBody, loopCond, loopAct, h]
      rw [hb]
      simp
    | invalid => exact absurd h (checkGap_ne_invalid _ _ _)

theorem take_append_left {α} (a b : List α) : (a ++ b).take a.length = a := by
  simp

theorem applyPendingI_eq (b : Box) (ok : Bool) :
    applyPendingI expApplyPending expApplyLoop b ok = applyPending b ok := by
  unfold applyPendingI applyPending
  generalize hsorted : sortByStart b.pending = sorted
  have hloop := loopI_eq sorted 0 b.state []
  obtain ⟨hle, hdrop⟩ := walk_suffix sorted b.state
  generalize hw : walk b.state sorted = w at *
  simp only [Nat.zero_add, List.nil_append] at hloop
  -- the trimming statements leave `pending.drop cursor`
  have htrim : sorted.length - (sorted.length - w.2.2.length) = w.2.2.length := by omega
  have hlen : (sorted.drop (sorted.length - w.2.2.length)).length = w.2.2.length := by
    rw [hdrop]
  simp only [expApplyPending, apRun, apAct, apCond, hsorted]
  simp only [reduceIte, Nat.reduceEqDiff]
  simp only [hloop]
  have htake : ∀ X Y : List Upd, List.take (sorted.length - (sorted.length - w.2.2.length))
      (List.take (sorted.length - (sorted.length - w.2.2.length)) (w.2.2 ++ X) ++ Y) = w.2.2 := by
    intro X Y
    rw [htrim, take_append_left, take_append_left]
  by_cases hemp : w.1.isEmpty = true
  · simp [hemp, hdrop, htake]
  · cases ok <;> simp [hemp, hdrop, htake]

/-! ### `Handle` -/

theorem handleI_eq (b : Box) (u : Upd) (ok : Bool) : handleI expProgs b u ok = handle b u ok := by
  unfold handleI handle
  by_cases hign : checkGap b.state u.state u.count = .ignore
  · simp [expProgs, expHandle, hRun, hCond, hign]
  · by_cases hg : b.gaps.isEmpty = true
    · -- no gap buffer
      cases hc : checkGap b.state u.state u.count with
      | ignore => exact absurd hc hign
      | invalid => exact absurd hc (checkGap_ne_invalid _ _ _)
      | apply =>
        by_cases hp : b.pending.isEmpty = true
        · cases ok <;> simp [expProgs, expHandle, hRun, hCond, hAct, hc, hg, hp]
        · simp [expProgs, expHandle, hRun, hCond, hAct, hc, hg, hp, applyPendingI_eq]
      | refetch =>
        have hnil : b.gaps = [] := by simpa using hg
        simp only [expProgs, expHandle, hRun, hCond, hAct, hc, hg, reduceIte, consumeAllI_eq, hnil, List.nil_append,
          applyPendingI_eq, Bool.not_true, Bool.false_eq_true, reduceCtorEq, List.isEmpty_nil]
        by_cases hres : (consumeAll [(b.state, u.start)] (b.pending ++ [u])).isEmpty = true
        · simp [hres]
        · simp [hres]
    · -- a gap buffer is active
      cases hcon : consume b.gaps u with
      | none => simp [expProgs, expHandle, hRun, hCond, hAct, hign, hg, consumeI_eq, hcon]
      | some g' =>
        by_cases hg' : g'.isEmpty = true
        · simp [expProgs, expHandle, hRun, hCond, hAct, hign, hg, consumeI_eq, hcon, hg', applyPendingI_eq]
        · simp [expProgs, expHandle, hRun, hCond, hAct, hign, hg, consumeI_eq, hcon, hg']

theorem stepI_eq (b : Box) (op : Op) : stepI expProgs b op = step b op := by
  cases op with
  | handle u ok => exact handleI_eq b u ok
  | setState x => rfl
  | clearGaps => rfl
  | applyPending ok => exact applyPendingI_eq b ok

end TdModel.C01
