/-
C25 — per-step facts (no invariant needed): acknowledgement and result are stable, the registered
identity of a call never changes, and — with the re-check in the timer branch — a call that is
acknowledged or has its result is never transmitted again.
-/
import TdModel.Lemmas.C25Env
namespace TdModel.Rpc

/-- What one step preserves of an existing call. -/
def Keeps (s s' : State) (i : Nat) (c c' : Call) : Prop :=
  (c.acked = true → c'.acked = true) ∧ (c.done = true → c'.done = true) ∧ (c.ctxC = true → c'.ctxC = true) ∧
  c'.seq = c.seq ∧ c'.body = c.body ∧ c.sends ≤ c'.sends ∧
  ((c.acked = true ∨ c.done = true) → c'.sends = c.sends ∧ logCount s'.log i = logCount s.log i)

macro "keeps_close" hr:term : tactic =>
  `(tactic| (simp [setCall, setNotif, finish, Call.finish, removeAck, Call.exitLoop, Call.retC, newCall, Keeps, $hr:term] <;>
      grind [Keeps, Call.retC]))

set_option maxHeartbeats 4000000 in
theorem keeps_step {cfg : Cfg} {s s' : State} {a : Action} (hr : cfg.recheck = true)
    {i : Nat} {c : Call} (hc : s.calls i = some c) (hs : step cfg s a = some s') :
    s'.calls i ≠ none ∧ ∀ c', s'.calls i = some c' → Keeps s s' i c c' := by
  cases a <;> simp only [step] at hs
  case start j q b =>
    unfold stepStart at hs
    split at hs
    · simp at hs
    · dsimp only at hs
      split at hs <;> simp at hs <;> subst hs <;> keeps_close hr
  case sret j o =>
    unfold stepSret at hs
    split at hs
    · simp at hs
    · split at hs <;> try (simp at hs)
      all_goals (try split at hs) <;> try (simp at hs)
      all_goals (first | subst hs | (obtain ⟨_, hs⟩ := hs; subst hs))
      all_goals keeps_close hr
  case loopSel j b =>
    unfold stepLoop at hs
    split at hs
    · simp at hs
    · split at hs
      · simp at hs
      · dsimp only at hs
        split at hs
        all_goals (split at hs <;> try (simp at hs))
        all_goals (try (split at hs <;> try (simp at hs)))
        all_goals (first | subst hs | (obtain ⟨_, hs⟩ := hs; subst hs))
        all_goals keeps_close hr
  case waitSel j b =>
    unfold stepWait at hs
    split at hs
    · simp at hs
    · split at hs
      · simp at hs
      · split at hs
        all_goals (split at hs <;> try (simp at hs))
        all_goals (try (split at hs <;> try (simp at hs)))
        all_goals (first | subst hs | (obtain ⟨_, hs⟩ := hs; subst hs))
        all_goals keeps_close hr
  case dret j o =>
    unfold stepDret at hs
    split at hs
    · simp at hs
    · split at hs <;> simp at hs
      subst hs
      keeps_close hr
  case gpass j =>
    unfold stepGpass at hs
    split at hs
    · simp at hs
    · split at hs <;> simp at hs
      subst hs
      keeps_close hr
  case nstart nid t e v =>
    unfold stepNstart at hs
    split at hs
    · simp at hs
    · dsimp only at hs
      split at hs <;> simp at hs <;> subst hs <;> keeps_close hr
  case nrun nid =>
    unfold stepNrun at hs
    split at hs
    · simp at hs
    · split at hs
      · simp at hs; subst hs; keeps_close hr
      · split at hs
        · simp at hs
        · split at hs <;> simp at hs <;> subst hs <;> keeps_close hr
      · split at hs
        · simp at hs
        · split at hs <;> simp at hs <;> subst hs <;> keeps_close hr
      · simp at hs
  case nwrite nid o =>
    unfold stepNwrite at hs
    split at hs
    · simp at hs
    · split at hs
      · split at hs
        · simp at hs
        · simp at hs; subst hs; keeps_close hr
      · simp at hs
  case ack ids =>
    cases hs
    simp [stepAck, hc, Keeps]
    grind
  case cancel j =>
    unfold stepCancel at hs
    split at hs
    · simp at hs
    · split at hs <;> simp at hs <;> subst hs
      · keeps_close hr
      · simp [hc, Keeps]
  case advance d =>
    cases hs
    simp [stepAdvance, hc, Call.tickTimer, Keeps]
    grind
  case close => cases hs; simp [hc, Keeps]
  case fclose => cases hs; simp [hc, Keeps]

end TdModel.Rpc
