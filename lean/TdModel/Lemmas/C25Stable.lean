/-
C25 — per-step facts (no invariant needed): acknowledgement and result are stable, the registered
identity of a call never changes, and — with the re-check in the timer branch — a call that is
acknowledged or has its result is never transmitted again.
-/
import TdModel.Lemmas.C25Env
namespace TdModel.Rpc

/-- What one step preserves of an existing call. -/
def Keeps (s s' : State) (i : Nat) (c c' : Call) : Prop :=
  (c.acked = true → c'.acked = true) ∧ (c.done = true → c'.done = true) ∧ (c.ctxC = true → c'.ctxC = true) ∧
  c'.seq = c.seq ∧ c'.body = c.body ∧ c.sends ≤ c'.sends ∧
  ((c.acked = true ∨ c.done = true) → c'.sends = c.sends ∧ logCount s'.log i = logCount s.log i)

macro "keeps_close" hr:term : tactic =>
  `(tactic| (simp [setCall, setNotif, finish, Call.finish, removeAck, exitAck, Call.exitLoop, Call.retC, newCall, Keeps, Cfg.std_all $hr] <;>
      grind [Keeps, Call.retC]))

/-- `NotifyAcks` only ever sets `acked` of a call. -/
theorem ack_only_acked {cfg : Cfg} (i : Nat) (c : Call) (ids : List Nat) (s : State) (hc : s.calls i = some c) :
    (stepAck cfg s ids).log = s.log ∧
    ((stepAck cfg s ids).calls i = some c ∨ (stepAck cfg s ids).calls i = some { c with acked := true }) := by
  have key : ∀ (ids : List Nat) (t : State),
      (t.log = s.log ∧ (t.calls i = some c ∨ t.calls i = some { c with acked := true })) →
      ((stepAck cfg t ids).log = s.log ∧
        ((stepAck cfg t ids).calls i = some c ∨ (stepAck cfg t ids).calls i = some { c with acked := true })) := by
    intro ids
    refine stepAck_induct cfg
      (P := fun t => t.log = s.log ∧ (t.calls i = some c ∨ t.calls i = some { c with acked := true })) ?_ ids
    intro t id ⟨hl, hcall⟩
    unfold ackOne
    by_cases hk : t.ack id = true
    · simp only [hk, if_true]
      cases hci : t.calls id with
      | none => exact ⟨hl, hcall⟩
      | some ci =>
        by_cases ha : ci.acked = true
        · simp [ha, hl, hcall]
        · simp only [ha, Bool.false_eq_true, if_false]
          by_cases hid : i = id
          · subst hid
            refine ⟨by split <;> simp [setCall, removeAck, hl], ?_⟩
            rcases hcall with h1 | h1 <;> rw [hci] at h1 <;> cases h1 <;> (split <;> simp [setCall, removeAck])
          · refine ⟨by split <;> simp [setCall, removeAck, hl], ?_⟩
            split <;> simp [setCall, removeAck, hid, hcall]
    · simp only [hk]; exact ⟨hl, hcall⟩
  exact key ids s ⟨rfl, Or.inl hc⟩

set_option maxHeartbeats 4000000 in
theorem keeps_step {cfg : Cfg} {s s' : State} {a : Action} (hr : cfg.std = true)
    {i : Nat} {c : Call} (hc : s.calls i = some c) (hs : step cfg s a = some s') :
    s'.calls i ≠ none ∧ ∀ c', s'.calls i = some c' → Keeps s s' i c c' := by
  cases a <;> simp only [step] at hs
  case start j q b =>
    unfold stepStart at hs
    split at hs
    · simp at hs
    · try dsimp only at hs
      split at hs <;> simp at hs <;> subst hs <;> keeps_close hr
  case sret j o =>
    unfold stepSret at hs
    std_norm hr at hs
    split at hs
    · simp at hs
    · split at hs <;> try (simp at hs)
      all_goals (try split at hs) <;> try (simp at hs)
      all_goals (first | subst hs | (obtain ⟨_, hs⟩ := hs; subst hs))
      all_goals keeps_close hr
  case loopSel j b =>
    unfold stepLoop at hs
    std_norm hr at hs
    split at hs
    · simp at hs
    · split at hs
      · simp at hs
      · try dsimp only at hs
        split at hs
        all_goals (split at hs <;> try (simp at hs))
        all_goals (try (split at hs <;> try (simp at hs)))
        all_goals (first | subst hs | (obtain ⟨_, hs⟩ := hs; subst hs))
        all_goals keeps_close hr
  case waitSel j b =>
    unfold stepWait at hs
    std_norm hr at hs
    split at hs
    · simp at hs
    · split at hs
      · simp at hs
      · split at hs
        all_goals (split at hs <;> try (simp at hs))
        all_goals (try (split at hs <;> try (simp at hs)))
        all_goals (first | subst hs | (obtain ⟨_, hs⟩ := hs; subst hs))
        all_goals keeps_close hr
  case dret j o =>
    unfold stepDret at hs
    std_norm hr at hs
    split at hs
    · simp at hs
    · split at hs <;> simp at hs
      subst hs
      keeps_close hr
  case gpass j =>
    unfold stepGpass at hs
    std_norm hr at hs
    split at hs
    · simp at hs
    · split at hs <;> simp at hs
      subst hs
      keeps_close hr
  case nstart nid t e v =>
    unfold stepNstart at hs
    split at hs
    · simp at hs
    · try dsimp only at hs
      split at hs <;> simp at hs <;> subst hs <;> keeps_close hr
  case nrun nid =>
    unfold stepNrun at hs
    std_norm hr at hs
    simp only [casStep] at hs
    split at hs
    · simp at hs
    · split at hs
      all_goals (try (split at hs))
      all_goals (try (split at hs))
      all_goals (try (simp at hs))
      all_goals (try subst hs)
      all_goals keeps_close hr
  case nwrite nid o =>
    unfold stepNwrite at hs
    split at hs
    · simp at hs
    · split at hs
      · split at hs
        · simp at hs
        · simp at hs; subst hs; keeps_close hr
      · simp at hs
  case ack ids =>
    cases hs
    obtain ⟨hl, hcall⟩ := ack_only_acked (cfg := cfg) i c ids s hc
    rcases hcall with h1 | h1 <;> simp [h1, hl, Keeps]
  case cancel j =>
    unfold stepCancel at hs
    split at hs
    · simp at hs
    · split at hs <;> simp at hs <;> subst hs
      · keeps_close hr
      · simp [hc, Keeps]
  case advance d =>
    cases hs
    simp [stepAdvance, hc, Call.tickTimer, Keeps]
    grind
  case close k => split at hs <;> simp at hs; subst hs; simp [hc, Keeps]
  case fclose k => split at hs <;> simp at hs; subst hs; simp [hc, Keeps]
  case cret k => split at hs <;> simp at hs; subst hs; simp [hc, Keeps]

end TdModel.Rpc
