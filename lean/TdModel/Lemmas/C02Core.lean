/-
C02/C03 — lemmas about one sequence (box + dispatch/persist): the invariant
"every non-marker entry at or below the box position has been dispatched (or too-long was
reported)".
-/
import TdModel.Lemmas.C01
import TdModel.Model.C02Core

namespace TdModel.C02Core
open TdModel.C01

/-! ### Threading of the dispatched set / too-long flag through events -/

def accD (D : List Nat) : List SEv → List Nat
  | [] => D
  | .dispatch ids :: r => accD (ids ++ D) r
  | _ :: r => accD D r

def accTl (tl : Bool) : List SEv → Bool
  | [] => tl
  | .tooLong :: r => accTl true r
  | _ :: r => accTl tl r

theorem safe_append (log : List Entry) (mk : Nat → Bool) (lo : Int) (a : List SEv) :
    ∀ (D : List Nat) (tl : Bool) (b : List SEv),
    safe log mk lo D tl (a ++ b) = (safe log mk lo D tl a && safe log mk lo (accD D a) (accTl tl a) b) := by
  induction a with
  | nil => intro D tl b; simp [safe, accD, accTl]
  | cons e es ih =>
    intro D tl b
    cases e with
    | dispatch ids => simp only [List.cons_append, safe, accD, accTl]; exact ih _ _ _
    | tooLong => simp only [List.cons_append, safe, accD, accTl]; exact ih _ _ _
    | store v =>
      simp only [List.cons_append, safe, accD, accTl]
      rw [ih]
      simp [Bool.and_assoc]

theorem accD_append (a : List SEv) : ∀ (D : List Nat) (b : List SEv), accD D (a ++ b) = accD (accD D a) b := by
  induction a with
  | nil => intro D b; simp [accD]
  | cons e es ih => intro D b; cases e <;> simp only [List.cons_append, accD] <;> exact ih _ _

theorem accTl_append (a : List SEv) : ∀ (tl : Bool) (b : List SEv), accTl tl (a ++ b) = accTl (accTl tl a) b := by
  induction a with
  | nil => intro tl b; simp [accTl]
  | cons e es ih => intro tl b; cases e <;> simp only [List.cons_append, accTl] <;> exact ih _ _

theorem mem_accD (evs : List SEv) : ∀ (D : List Nat) (i : Nat), i ∈ accD D evs ↔ (i ∈ dispatchedIds evs ∨ i ∈ D) := by
  induction evs with
  | nil => intro D i; simp [accD, dispatchedIds]
  | cons e es ih =>
    intro D i
    cases e with
    | dispatch ids =>
      simp only [accD, dispatchedIds, ih, List.mem_append]
      constructor
      · rintro (h | h | h)
        · exact Or.inl (Or.inr h)
        · exact Or.inl (Or.inl h)
        · exact Or.inr h
      · rintro ((h | h) | h)
        · exact Or.inr (Or.inl h)
        · exact Or.inl h
        · exact Or.inr (Or.inr h)
    | tooLong => simp only [accD, dispatchedIds, ih]
    | store v => simp only [accD, dispatchedIds, ih]

theorem accTl_eq (evs : List SEv) : ∀ tl, accTl tl evs = (tl || hasTooLong evs) := by
  induction evs with
  | nil => intro tl; simp [accTl, hasTooLong]
  | cons e es ih =>
    intro tl
    cases e with
    | dispatch ids => simp only [accTl, hasTooLong, ih]
    | tooLong => simp [accTl, hasTooLong, ih]
    | store v => simp only [accTl, hasTooLong, ih]

theorem covered_iff (log : List Entry) (mk : Nat → Bool) (lo v : Int) (D : List Nat) :
    covered log mk lo v D = true ↔ ∀ e ∈ log, lo < e.pos → e.pos ≤ v → exempt mk e = true ∨ e.id ∈ D := by
  unfold covered
  simp only [List.all_eq_true, Bool.or_eq_true, decide_eq_true_eq, List.contains_iff_mem]
  constructor
  · intro h e he h1 h2
    rcases h e he with ((h3 | h3) | h3) | h3
    · omega
    · omega
    · exact Or.inl h3
    · exact Or.inr h3
  · intro h e he
    by_cases h1 : e.pos ≤ lo
    · exact Or.inl (Or.inl (Or.inl h1))
    · by_cases h2 : v < e.pos
      · exact Or.inl (Or.inl (Or.inr h2))
      · rcases h e he (by omega) (by omega) with h3 | h3
        · exact Or.inl (Or.inr h3)
        · exact Or.inr h3

theorem exempt_of_mk (mk : Nat → Bool) (e : Entry) (h : mk e.id = true) : exempt mk e = true := by
  simp [exempt, h]

theorem exempt_of_zero (mk : Nat → Bool) (e : Entry) (h : e.count = 0) : exempt mk e = true := by
  simp [exempt, h]

theorem not_exempt (mk : Nat → Bool) (e : Entry) (h : exempt mk e ≠ true) : mk e.id = false ∧ e.count ≠ 0 := by
  unfold exempt at h
  cases hm : mk e.id
  · refine ⟨rfl, ?_⟩
    intro hc
    apply h
    simp [hm, hc]
  · exfalso; apply h; simp [hm]

/-! ### Tiling -/

theorem tiled_lower (es : List Entry) : ∀ c, tiled c es = true →
    ∀ f ∈ es, c ≤ f.pos - f.count ∧ 0 ≤ f.count ∧ 0 < f.pos := by
  induction es with
  | nil => intro c _ f hf; simp at hf
  | cons a as ih =>
    intro c h f hf
    simp only [tiled, Bool.and_eq_true, decide_eq_true_eq] at h
    simp only [List.mem_cons] at hf
    rcases hf with rfl | hf
    · omega
    · have := ih a.pos h.2 f hf
      omega

/-- In a tiled log, a position-covering entry whose position falls inside another entry's range is
that entry. -/
theorem tiled_unique (es : List Entry) : ∀ c, tiled c es = true → ∀ e ∈ es, ∀ f ∈ es,
    1 ≤ e.count → f.pos - f.count < e.pos → e.pos ≤ f.pos → e = f := by
  induction es with
  | nil => intro c _ e he; simp at he
  | cons a as ih =>
    intro c h e he f hf hc h1 h2
    simp only [tiled, Bool.and_eq_true, decide_eq_true_eq] at h
    simp only [List.mem_cons] at he hf
    rcases he with rfl | he <;> rcases hf with rfl | hf
    · rfl
    · have := tiled_lower as e.pos h.2 f hf
      omega
    · have := tiled_lower as f.pos h.2 e he
      omega
    · exact ih a.pos h.2 e he f hf hc h1 h2

/-- What may sit in a box: the update of a log entry, or a count-0 marker at a positive position. -/
def Known (log : List Entry) (mk : Nat → Bool) (u : Upd) : Prop :=
  (∃ f ∈ log, f.upd = u) ∨ (u.count = 0 ∧ 0 < u.state ∧ mk u.tag = true)

/-- A batch that is a chain from `cur` to `ns` and consists of log entries (and count-0 markers)
contains every position-covering log entry whose position lies in `(cur, ns]`. -/
theorem chain_covers (log : List Entry) (mk : Nat → Bool) (c0 : Int) (ht : tiled c0 log = true)
    (us : List Upd) :
    ∀ cur ns, chain cur us = some ns → (∀ u ∈ us, Known log mk u) →
    ∀ e ∈ log, 1 ≤ e.count → cur < e.pos → e.pos ≤ ns → e.upd ∈ us := by
  induction us with
  | nil =>
    intro cur ns h _ e _ _ h1 h2
    simp [chain] at h
    omega
  | cons u rest ih =>
    intro cur ns h hlog e he hec h1 h2
    simp only [chain] at h
    split at h
    · rename_i hc
      rcases hlog u (List.mem_cons_self ..) with ⟨f, hf, hfu⟩ | ⟨hz, hp, _⟩
      · have hfpos := tiled_lower log c0 ht f hf
        have hstart : cur + f.count = f.pos := by
          rw [← hfu] at hc
          simp only [Entry.upd] at hc
          rcases hc with h0 | h1
          · omega
          · exact h1
        have hus : u.state = f.pos := by rw [← hfu]; rfl
        by_cases hle : e.pos ≤ f.pos
        · have : e = f := tiled_unique log c0 ht e he f hf hec (by omega) hle
          subst this
          rw [hfu]; exact List.mem_cons_self ..
        · rw [hus] at h
          exact List.mem_cons_of_mem _
            (ih f.pos ns h (fun v hv => hlog v (List.mem_cons_of_mem _ hv)) e he hec (by omega) h2)
      · -- a count-0 marker: the cursor does not move
        have hcur : u.state = cur := by
          rcases hc with h0 | h1
          · omega
          · omega
        rw [hcur] at h
        exact List.mem_cons_of_mem _
          (ih cur ns h (fun v hv => hlog v (List.mem_cons_of_mem _ hv)) e he hec h1 h2)
    · simp at h

/-! ### The invariant -/

/-- Every non-marker log entry above `lo` and at or below the box position is in `D` (or too-long
was reported), and everything pending in the box is known. -/
structure Inv (log : List Entry) (mk : Nat → Bool) (lo : Int) (b : Box) (D : List Nat) (tl : Bool) : Prop where
  cov : tl = true ∨ ∀ e ∈ log, lo < e.pos → e.pos ≤ b.state → exempt mk e = true ∨ e.id ∈ D
  pend : ∀ u ∈ b.pending, Known log mk u

/-- A well-behaved apply callback: dispatch, then store; markers skipped with `continue`. -/
structure GoodCfg (c : ACfg) : Prop where
  calls : c.calls = [.dispatch, .store]
  cont : c.breakAtMarker = false

/-- With `continue`, every non-marker update of an applied batch is handed to the handler. -/
theorem mem_batchIds (c : ACfg) (hc : c.breakAtMarker = false) (us : List Upd) (i : Nat) :
    i ∈ batchIds c us ↔ (∃ u ∈ us, u.tag = i) ∧ c.isMarker i = false := by
  unfold batchIds
  rw [hc]
  simp only [Bool.false_eq_true, if_false, List.mem_filter, List.mem_map, Bool.not_eq_true']

theorem callEvs_apply (ns : Int) (ids : List Nat) :
    callEvs ns ids [.dispatch, .store] = (if ids.isEmpty then [] else [.dispatch ids]) ++ [.store ns] := by
  simp [callEvs]

theorem push_step (log : List Entry) (c : ACfg) (hg : GoodCfg c) (c0 lo : Int)
    (ht : tiled c0 log = true)
    (b : Box) (D : List Nat) (tl : Bool) (e : Entry) (he : Known log c.isMarker e.upd)
    (hI : Inv log c.isMarker lo b D tl) :
    let r := sstep c b (.push e)
    safe log c.isMarker lo D tl r.2 = true ∧ Inv log c.isMarker lo r.1 (accD D r.2) (accTl tl r.2) := by
  simp only [sstep]
  have hsub := handle_sub b e.upd true
  have hpend' : ∀ v ∈ (handle b e.upd true).1.pending, Known log c.isMarker v := by
    intro v hv
    rcases hsub.2 v hv with h | h
    · rw [h]; exact he
    · exact hI.pend v h
  rcases handle_shape b e.upd true with ⟨h1, h2⟩ | ⟨ns, us, h1, h2, h3, h4⟩
  · rw [h1]
    simp only [List.flatMap_nil, safe, accD, accTl, true_and]
    exact ⟨by rw [h2]; exact hI.cov, hpend'⟩
  · have hus : ∀ u ∈ us, Known log c.isMarker u := by
      intro u hu
      have : u ∈ delivered (handle b e.upd true).2 := by rw [h1]; simpa [delivered] using hu
      rcases hsub.1 u this with h | h
      · rw [h]; exact he
      · exact hI.pend u h
    rw [h1]
    simp only [List.flatMap_cons, List.flatMap_nil, List.append_nil, applyEvs, hg.calls, callEvs_apply]
    have hstate : (handle b e.upd true).1.state = ns := by simpa using h4
    have hcov : tl = true ∨ ∀ f ∈ log, lo < f.pos → f.pos ≤ ns →
        exempt c.isMarker f = true ∨ f.id ∈ batchIds c us ++ D := by
      rcases hI.cov with h | h
      · exact Or.inl h
      · right
        intro f hf hlo hle
        by_cases hb : f.pos ≤ b.state
        · rcases h f hf hlo hb with h' | h'
          · exact Or.inl h'
          · exact Or.inr (List.mem_append_right _ h')
        · by_cases hex : exempt c.isMarker f = true
          · exact Or.inl hex
          · obtain ⟨hmk, hcnt⟩ := not_exempt _ _ hex
            have hfl := tiled_lower log c0 ht f hf
            have hm := chain_covers log c.isMarker c0 ht us b.state ns h2 hus f hf (by omega) (by omega) hle
            right
            apply List.mem_append_left
            rw [mem_batchIds c hg.cont]
            exact ⟨⟨f.upd, hm, rfl⟩, hmk⟩
    by_cases hemp : (batchIds c us).isEmpty = true
    · have hnil : batchIds c us = [] := by simpa using hemp
      simp only [hemp, if_true, List.nil_append, safe, accD, accTl, Bool.and_true]
      rw [hnil] at hcov
      simp only [List.nil_append] at hcov
      refine ⟨?_, ?_, hpend'⟩
      · rcases hcov with h | h
        · simp [h]
        · simp [(covered_iff log c.isMarker lo ns _).2 h]
      · rw [hstate]; exact hcov
    · simp only [hemp, Bool.false_eq_true, if_false, List.cons_append, List.nil_append, safe, accD, accTl,
        Bool.and_true]
      refine ⟨?_, ?_, hpend'⟩
      · rcases hcov with h | h
        · simp [h]
        · simp [(covered_iff log c.isMarker lo ns _).2 h]
      · rw [hstate]; exact hcov

theorem seq_step (log : List Entry) (lo : Int) (c : ACfg)
    (b : Box) (D : List Nat) (tl : Bool) (calls : List SCall) (x : Int) (direct : List Entry)
    (hw : wfOp log c.isMarker b (.seq calls x direct) = true) (hI : Inv log c.isMarker lo b D tl) :
    let r := sstep c b (.seq calls x direct)
    safe log c.isMarker lo D tl r.2 = true ∧ Inv log c.isMarker lo r.1 (accD D r.2) (accTl tl r.2) := by
  simp only [sstep]
  simp only [wfOp, Bool.or_eq_true, Bool.and_eq_true, List.all_eq_true, Bool.not_eq_true',
    decide_eq_true_eq] at hw
  rcases hw.2 with (((⟨hs, hd⟩ | ⟨hs, hd⟩) | hs) | hs) | ⟨hs, hle⟩
  · -- a difference carrying `direct`
    subst hs
    have hcov : tl = true ∨ ∀ f ∈ log, lo < f.pos → f.pos ≤ x →
        exempt c.isMarker f = true ∨ f.id ∈ direct.map (·.id) ++ D := by
      rcases hI.cov with h | h
      · exact Or.inl h
      · right
        intro f hf hlo hle
        by_cases hb : f.pos ≤ b.state
        · rcases h f hf hlo hb with h' | h'
          · exact Or.inl h'
          · exact Or.inr (List.mem_append_right _ h')
        · rcases hd f hf with (h' | h') | h'
          · simp only [Bool.and_eq_false_iff, decide_eq_false_iff_not] at h'
            omega
          · exact Or.inl h'
          · exact Or.inr (List.mem_append_left _ (List.mem_map.2 ⟨f, h', rfl⟩))
    by_cases hemp : direct = []
    · subst hemp
      simp only [diffShape, callEvs, List.map_nil, List.isEmpty_nil, if_true, List.nil_append, safe, accD, accTl,
        Bool.and_true]
      have hcov' : tl = true ∨ ∀ f ∈ log, lo < f.pos → f.pos ≤ x → exempt c.isMarker f = true ∨ f.id ∈ D := by
        rcases hcov with h | h
        · exact Or.inl h
        · right; intro f hf h1 h2; simpa using h f hf h1 h2
      refine ⟨?_, ?_, hI.pend⟩
      · rcases hcov' with h | h
        · simp [h]
        · simp [(covered_iff log c.isMarker lo x _).2 h]
      · simpa using hcov'
    · have hne : (direct.map (·.id)).isEmpty = false := by cases direct <;> simp_all
      simp only [diffShape, callEvs, hne, Bool.false_eq_true, if_false, List.cons_append, List.nil_append, safe,
        accD, accTl, Bool.and_true]
      refine ⟨?_, ?_, hI.pend⟩
      · rcases hcov with h | h
        · simp [h]
        · simp [(covered_iff log c.isMarker lo x _).2 h]
      · simpa using hcov
  · -- an empty difference
    subst hs
    have hcov : tl = true ∨ ∀ f ∈ log, lo < f.pos → f.pos ≤ x → exempt c.isMarker f = true ∨ f.id ∈ D := by
      rcases hI.cov with h | h
      · exact Or.inl h
      · right
        intro f hf hlo hle
        by_cases hb : f.pos ≤ b.state
        · exact h f hf hlo hb
        · rcases hd f hf with h' | h'
          · simp only [Bool.and_eq_false_iff, decide_eq_false_iff_not] at h'
            omega
          · exact Or.inl h'
    simp only [emptyShape, callEvs, safe, accD, accTl, Bool.and_true]
    refine ⟨?_, ?_, hI.pend⟩
    · rcases hcov with h | h
      · simp [h]
      · simp [(covered_iff log c.isMarker lo x _).2 h]
    · simpa using hcov
  · -- too long: reported before anything is persisted
    subst hs
    simp only [tooLongShape, callEvs, safe, accD, accTl, Bool.true_or, Bool.and_true]
    exact ⟨trivial, Or.inl rfl, hI.pend⟩
  · -- only the callback
    subst hs
    simp only [cbOnlyShape, callEvs, safe, accD, accTl]
    exact ⟨trivial, Or.inl rfl, hI.pend⟩
  · -- only a store, of a value not above the box position
    subst hs
    have hcov : tl = true ∨ ∀ f ∈ log, lo < f.pos → f.pos ≤ x → exempt c.isMarker f = true ∨ f.id ∈ D := by
      rcases hI.cov with h | h
      · exact Or.inl h
      · exact Or.inr (fun f hf hlo hfx => h f hf hlo (by omega))
    simp only [storeOnlyShape, callEvs, safe, accD, accTl, Bool.and_true]
    refine ⟨?_, ?_, hI.pend⟩
    · rcases hcov with h | h
      · simp [h]
      · simp [(covered_iff log c.isMarker lo x _).2 h]
    · simpa [storeOnlyShape] using hI.cov

theorem srun_inv (log : List Entry) (c : ACfg) (hg : GoodCfg c) (c0 lo : Int)
    (ht : tiled c0 log = true) (ops : List SOp) :
    ∀ (b : Box) (D : List Nat) (tl : Bool), Inv log c.isMarker lo b D tl → wfRun c log b ops = true →
    safe log c.isMarker lo D tl (srun c b ops).2 = true ∧
    Inv log c.isMarker lo (srun c b ops).1 (accD D (srun c b ops).2) (accTl tl (srun c b ops).2) := by
  induction ops with
  | nil => intro b D tl hI _; simpa [srun, safe, accD, accTl] using hI
  | cons op ops ih =>
    intro b D tl hI hw
    simp only [wfRun, Bool.and_eq_true] at hw
    have hstep : safe log c.isMarker lo D tl (sstep c b op).2 = true ∧
        Inv log c.isMarker lo (sstep c b op).1 (accD D (sstep c b op).2) (accTl tl (sstep c b op).2) := by
      cases op with
      | push e =>
        have he : Known log c.isMarker e.upd := by
          have := hw.1
          simp only [wfOp, Bool.or_eq_true, Bool.and_eq_true, decide_eq_true_eq] at this
          rcases this with h | ⟨⟨h1, h2⟩, h3⟩
          · exact Or.inl ⟨e, h, rfl⟩
          · exact Or.inr ⟨h1, h2, h3⟩
        exact push_step log c hg c0 lo ht b D tl e he hI
      | clear =>
        simp only [sstep, safe, accD, accTl, true_and]
        exact ⟨hI.cov, hI.pend⟩
      | seq calls x direct => exact seq_step log lo c b D tl calls x direct hw.1 hI
      | fire =>
        simp only [sstep, safe, accD, accTl, true_and]
        exact ⟨hI.cov, hI.pend⟩
      | reset =>
        simp only [sstep, safe, accD, accTl, true_and]
        exact ⟨hI.cov, fun u hu => by simp at hu⟩
    obtain ⟨h1, h2⟩ := ih _ _ _ hstep.2 hw.2
    simp only [srun]
    rw [safe_append, accD_append, accTl_append]
    exact ⟨by simp [hstep.1, h1], h2⟩

/-! ### Prefixes, the last persisted value, restart -/

theorem safe_prefix (log : List Entry) (mk : Nat → Bool) (lo : Int) (D : List Nat) (tl : Bool) (a b : List SEv)
    (h : safe log mk lo D tl (a ++ b) = true) : safe log mk lo D tl a = true := by
  rw [safe_append] at h
  simp only [Bool.and_eq_true] at h
  exact h.1

/-- The value persisted after the events `evs` (initially `v0`). -/
def lastStore (v0 : Int) : List SEv → Int
  | [] => v0
  | .store v :: r => lastStore v r
  | _ :: r => lastStore v0 r

/-! ### The persisted value is the box position -/

theorem lastStore_append (a : List SEv) : ∀ (v0 : Int) (b : List SEv), lastStore v0 (a ++ b) = lastStore (lastStore v0 a) b := by
  induction a with
  | nil => intro v0 b; rfl
  | cons e t ih => intro v0 b; cases e <;> simp [lastStore, ih]

/-- After every well-formed op the value persisted last is the position of the box (every change
of the position is written, and nothing else is): what a new worker reads from the storage is where
the old one was. -/
theorem sstep_lastStore (log : List Entry) (c : ACfg) (hg : GoodCfg c) (b : Box) (op : SOp)
    (hw : wfOp log c.isMarker b op = true) :
    lastStore b.state (sstep c b op).2 = (sstep c b op).1.state := by
  cases op with
  | push e =>
    simp only [sstep]
    rcases handle_shape b e.upd true with ⟨h1, h2⟩ | ⟨ns, us, h1, _, _, h2⟩
    · rw [h1, h2]; rfl
    · rw [h1, h2]
      simp only [List.flatMap_cons, List.flatMap_nil, List.append_nil, applyEvs, hg.calls, callEvs, if_true]
      split <;> simp [lastStore]
  | clear => rfl
  | fire => rfl
  | reset => rfl
  | seq calls x direct =>
    simp only [wfOp, Bool.or_eq_true, Bool.and_eq_true, List.all_eq_true, decide_eq_true_eq] at hw
    simp only [sstep]
    rcases hw.2 with (((⟨hs, _⟩ | ⟨hs, _⟩) | hs) | hs) | ⟨hs, hx⟩
    · subst hs; simp only [diffShape, callEvs]; split <;> simp [lastStore]
    · subst hs; simp [emptyShape, callEvs, lastStore]
    · subst hs; simp [tooLongShape, callEvs, lastStore]
    · subst hs; simp [cbOnlyShape, callEvs, lastStore]
    · subst hs; simp [storeOnlyShape, callEvs, lastStore, hx]

theorem srun_lastStore (log : List Entry) (c : ACfg) (hg : GoodCfg c) (ops : List SOp) :
    ∀ b : Box, wfRun c log b ops = true → lastStore b.state (srun c b ops).2 = (srun c b ops).1.state := by
  induction ops with
  | nil => intro b _; rfl
  | cons op ops ih =>
    intro b hw
    simp only [wfRun, Bool.and_eq_true] at hw
    simp only [srun]
    rw [lastStore_append, sstep_lastStore log c hg b op hw.1]
    exact ih _ hw.2

theorem covered_mono (log : List Entry) (mk : Nat → Bool) (lo v : Int) (D D' : List Nat) (h : ∀ i ∈ D, i ∈ D')
    (hc : covered log mk lo v D = true) : covered log mk lo v D' = true := by
  rw [covered_iff] at hc ⊢
  intro e he h1 h2
  rcases hc e he h1 h2 with h' | h'
  · exact Or.inl h'
  · exact Or.inr (h _ h')

theorem accD_sub (evs : List SEv) (D : List Nat) : ∀ i ∈ D, i ∈ accD D evs :=
  fun i hi => (mem_accD evs D i).2 (Or.inr hi)

theorem accTl_of_true (evs : List SEv) : accTl true evs = true := by
  rw [accTl_eq]; rfl

/-- At every point of a safe trace, what is persisted is covered by what was dispatched before
(or too-long was reported before). -/
theorem safe_lastStore (log : List Entry) (mk : Nat → Bool) (lo : Int) (evs : List SEv) :
    ∀ (D : List Nat) (tl : Bool) (v0 : Int),
    safe log mk lo D tl evs = true → (tl = true ∨ covered log mk lo v0 D = true) →
    (accTl tl evs = true ∨ covered log mk lo (lastStore v0 evs) (accD D evs) = true) := by
  induction evs with
  | nil => intro D tl v0 _ h0; simpa [accTl, accD, lastStore] using h0
  | cons e es ih =>
    intro D tl v0 hs h0
    cases e with
    | dispatch ids =>
      simp only [safe] at hs
      simp only [accTl, accD, lastStore]
      refine ih _ _ _ hs ?_
      rcases h0 with h | h
      · exact Or.inl h
      · exact Or.inr (covered_mono log mk lo v0 D _ (fun i hi => List.mem_append_right _ hi) h)
    | tooLong =>
      simp only [safe] at hs
      simp only [accTl, accD, lastStore]
      exact ih _ _ _ hs (Or.inl rfl)
    | store v =>
      simp only [safe, Bool.and_eq_true, Bool.or_eq_true] at hs
      simp only [accTl, accD, lastStore]
      exact ih _ _ _ hs.2 hs.1

theorem srun_append (c : ACfg) (a : List SOp) : ∀ (b : Box) (d : List SOp),
    srun c b (a ++ d) = ((srun c (srun c b a).1 d).1, (srun c b a).2 ++ (srun c (srun c b a).1 d).2) := by
  induction a with
  | nil => intro b d; simp [srun]
  | cons op ops ih =>
    intro b d
    simp only [List.cons_append, srun]
    rw [ih]
    simp [List.append_assoc]

theorem inv_init (log : List Entry) (mk : Nat → Bool) (lo : Int) : Inv log mk lo { state := lo } [] false :=
  ⟨Or.inr (fun e _ h1 h2 => by simp only at h2; omega), fun u hu => by simp at hu⟩

theorem complete_iff (log : List Entry) (mk : Nat → Bool) (lo : Int) (evs : List SEv) :
    complete' log mk lo evs = true ↔
      (hasTooLong evs = true ∨ ∀ e ∈ log, lo < e.pos → exempt mk e = true ∨ e.id ∈ dispatchedIds evs) := by
  unfold complete'
  simp only [Bool.or_eq_true, List.all_eq_true, decide_eq_true_eq, List.contains_iff_mem]
  constructor
  · rintro (h | h)
    · exact Or.inl h
    · right
      intro e he hlo
      rcases h e he with (h' | h') | h'
      · omega
      · exact Or.inl h'
      · exact Or.inr h'
  · rintro (h | h)
    · exact Or.inl h
    · right
      intro e he
      by_cases hlo : e.pos ≤ lo
      · exact Or.inl (Or.inl hlo)
      · rcases h e he (by omega) with h' | h'
        · exact Or.inl (Or.inr h')
        · exact Or.inr h'

end TdModel.C02Core
