import TdModel.Model.C39

namespace TdModel.C39
open TdModel

/-! ### facts as used by the proofs -/

theorem sortLess_eq (a b : Nat) : sortLess a b = decide (a > b) := by
  simp [sortLess, Facts.C39.sortDescending]

theorem bufHas_eq (s : Iter) : bufHas s = decide (s.pos < s.buf.length) := by
  simp [bufHas, Facts.C39.bufNextStopsAtEnd]

/-- Strictly descending. -/
abbrev Desc (l : List Nat) : Prop := l.Pairwise (fun a b => a > b)

theorem insertSorted_desc (x : Nat) (l : List Nat) (h : Desc (x :: l)) : insertSorted x l = x :: l := by
  cases l with
  | nil => rfl
  | cons y l' =>
    have hxy : x > y := by
      have := List.rel_of_pairwise_cons h (a := x) (List.mem_cons_self)
      exact this
    simp [insertSorted, sortLess_eq]
    omega

theorem sortStable_desc (l : List Nat) (h : Desc l) : sortStable l = l := by
  induction l with
  | nil => rfl
  | cons x l ih =>
    have hl : Desc l := (List.pairwise_cons.mp h).2
    simp only [sortStable, ih hl]
    exact insertSorted_desc x l h

/-- In a strictly descending list the ids below an element are exactly those after it. -/
theorem filter_lt_desc (a : List Nat) (m : Nat) (b : List Nat) (h : Desc (a ++ m :: b)) :
    (a ++ m :: b).filter (fun x => decide (x < m)) = b := by
  induction a with
  | nil =>
    have hb : ∀ x ∈ b, m > x := (List.pairwise_cons.mp h).1
    simp only [List.nil_append, List.filter_cons, Nat.lt_irrefl, decide_false]
    simp only [Bool.false_eq_true, if_false]
    exact List.filter_eq_self.mpr (by intro x hx; simpa using hb x hx)
  | cons y a ih =>
    have hp := List.pairwise_cons.mp h
    have hym : y > m := hp.1 m (by simp)
    have : ¬ (y < m) := by omega
    simp only [List.cons_append, List.filter_cons, this, decide_false, Bool.false_eq_true, if_false]
    exact ih hp.2

theorem desc_below (hist : List Nat) (off : Nat) (h : Desc hist) : Desc (below hist off) := by
  unfold below
  split
  · exact h
  · exact h.filter _

/-- After a non-empty page whose smallest id is `m`, the ids below `m` are the rest of what was
below the previous offset. -/
theorem below_last (hist : List Nat) (hd : Desc hist) (hp : ∀ x ∈ hist, 0 < x) (off k m : Nat)
    (hm : ((below hist off).take k).getLast? = some m) :
    below hist m = (below hist off).drop k := by
  obtain ⟨a, ha⟩ := List.getLast?_eq_some_iff.mp hm
  have hrem : below hist off = a ++ m :: (below hist off).drop k := by
    have := List.take_append_drop k (below hist off)
    rw [ha] at this
    simpa using this.symm
  have hdr := desc_below hist off hd
  have hmem : m ∈ below hist off := by rw [hrem]; simp
  have hmpos : m ≠ 0 := by
    have : m ∈ hist := by
      unfold below at hmem
      split at hmem
      · exact hmem
      · exact (List.mem_filter.mp hmem).1
    have := hp m this
    omega
  have hfl : (below hist off).filter (fun x => decide (x < m)) = (below hist off).drop k := by
    have h2 := hdr
    rw [hrem] at h2
    have := filter_lt_desc a m _ h2
    rw [← hrem] at this
    exact this
  rw [← hfl]
  unfold below
  simp only [hmpos, if_false]
  split
  · rfl
  · rename_i hoff
    have hmo : m < off := by
      unfold below at hmem
      simp only [hoff, if_false] at hmem
      simpa using (List.mem_filter.mp hmem).2
    rw [List.filter_filter]
    apply List.filter_congr
    intro x _
    by_cases hx : x < m
    · have : x < off := by omega
      simp [hx, this]
    · simp [hx]

/-- What is still to be delivered in state `s`: the unread rest of the buffer, then (unless the last
batch was seen) everything the server holds below the current offset. -/
def pending (hist : List Nat) (s : Iter) : List Nat :=
  s.buf.drop s.pos ++ (if s.lastBatch then [] else below hist s.offsetID)

theorem lbRule_full (n L : Nat) : lbRule (lbCode .full) n L = true := by
  simp [lbCode, Facts.C39.msgLastBatchFull, lbRule]

theorem lbRule_slice (n L : Nat) : lbRule (lbCode .slice) n L = decide (n < L) := by
  simp [lbCode, Facts.C39.msgLastBatchSlice, lbRule]

theorem lbRule_channel (n L : Nat) : lbRule (lbCode .channel) n L = decide (n < L) := by
  simp [lbCode, Facts.C39.msgLastBatchChannel, lbRule]

/-- The answer constructor the history server uses is consistent with the page being the last one:
whenever the iterator's rule says "last batch", the page is everything that remained. -/
theorem lastBatch_complete (want : Kind) (rem : List Nat) (L : Nat)
    (h : lbRule (lbCode (respKind want rem.length L)) (rem.take L).length L = true) :
    rem.take L = rem := by
  have key : rem.length ≤ L → rem.take L = rem := fun h => List.take_of_length_le h
  cases want with
  | full =>
    by_cases hr : rem.length ≤ L
    · exact key hr
    · simp only [respKind, hr, if_false, lbRule_slice, List.length_take, decide_eq_true_eq] at h
      omega
  | slice =>
    simp only [respKind, lbRule_slice, List.length_take, decide_eq_true_eq] at h
    exact key (by omega)
  | channel =>
    simp only [respKind, lbRule_channel, List.length_take, decide_eq_true_eq] at h
    exact key (by omega)

/-- Conversely, when the rule says "not the last batch" the page is full. -/
theorem notLast_full (want : Kind) (rem : List Nat) (L : Nat)
    (h : lbRule (lbCode (respKind want rem.length L)) (rem.take L).length L = false) :
    L ≤ rem.length := by
  cases want with
  | full =>
    by_cases hr : rem.length ≤ L
    · simp [respKind, hr, lbRule_full] at h
    · omega
  | slice =>
    simp only [respKind, lbRule_slice, List.length_take, decide_eq_false_iff_not] at h
    omega
  | channel =>
    simp only [respKind, lbRule_channel, List.length_take, decide_eq_false_iff_not] at h
    omega

/-- `Next` advances `pos`. -/
def Iter.adv (s : Iter) : Iter := { s with pos := s.pos + 1 }

theorem runS_buf (srv : Server) (fuel i : Nat) (s : Iter) (h : bufHas s = true) :
    runS srv (fuel + 1) i s =
      { runS srv fuel i s.adv with yields := s.buf.getD s.pos 0 :: (runS srv fuel i s.adv).yields } := by
  rw [runS]; simp only [h, if_true]; rfl

theorem runS_stop (srv : Server) (fuel i : Nat) (s : Iter) (h : bufHas s = false)
    (h' : bufHas (s.apply (srv i s.offsetID s.limit).1 (srv i s.offsetID s.limit).2) = false) :
    runS srv (fuel + 1) i s = { yields := [], reqs := [(s.offsetID, s.limit)], done := true } := by
  rw [runS]; simp only [h, h', Bool.false_eq_true, if_false]

theorem runS_go (srv : Server) (fuel i : Nat) (s : Iter) (h : bufHas s = false)
    (h' : bufHas (s.apply (srv i s.offsetID s.limit).1 (srv i s.offsetID s.limit).2) = true) :
    runS srv (fuel + 1) i s =
      let s' := s.apply (srv i s.offsetID s.limit).1 (srv i s.offsetID s.limit).2
      let o := runS srv fuel (i + 1) s'.adv
      { yields := s'.buf.getD s'.pos 0 :: o.yields, reqs := (s.offsetID, s.limit) :: o.reqs, done := o.done } := by
  rw [runS]; simp only [h, h', Bool.false_eq_true, if_false, if_true]; rfl

theorem pending_consume (hist : List Nat) (s : Iter) (h : bufHas s = true) :
    pending hist s = s.buf.getD s.pos 0 :: pending hist s.adv := by
  have hb : s.pos < s.buf.length := by simpa [bufHas_eq] using h
  have hdrop : s.buf.drop s.pos = s.buf[s.pos] :: s.buf.drop (s.pos + 1) := List.drop_eq_getElem_cons hb
  have hget : s.buf.getD s.pos 0 = s.buf[s.pos] := by simp [List.getD, hb]
  simp only [pending, Iter.adv]
  rw [hdrop, hget]
  rfl

theorem pending_lastBatch (hist : List Nat) (s : Iter) (h : bufHas s = false) (hlb : s.lastBatch = true) :
    pending hist s = [] := by
  have hb : ¬ s.pos < s.buf.length := by simpa [bufHas_eq] using h
  simp [pending, hlb, List.drop_eq_nil_of_le (Nat.le_of_not_lt hb)]

theorem apply_lastBatch (s : Iter) (k : Kind) (pg : List Nat) (hlb : s.lastBatch = true) : s.apply k pg = s := by
  simp [Iter.apply, hlb]

/-- One request against the history server, issued with an exhausted buffer and no last batch yet:
either nothing remained (and `Next` reports the end), or the new state has the page buffered and the
same pending items. -/
theorem filter_notEmpty (hist : List Nat) (E : List Nat) (hE : ∀ x ∈ hist, x ∉ E) (l : List Nat)
    (hl : ∀ x ∈ l, x ∈ hist) : l.filter (fun x => !E.contains x) = l := by
  apply List.filter_eq_self.mpr
  intro x hx
  have := hE x (hl x hx)
  simp [this]

theorem below_subset (hist : List Nat) (off : Nat) : ∀ x ∈ below hist off, x ∈ hist := by
  intro x hx
  unfold below at hx
  split at hx
  · exact hx
  · exact (List.mem_filter.mp hx).1

theorem apply_hist (hist : List Nat) (hd : Desc hist) (hp : ∀ x ∈ hist, 0 < x) (ks : List Kind) (i : Nat)
    (s : Iter) (hE : ∀ x ∈ hist, x ∉ s.emptyIds)
    (hL : 0 < s.limit) (h : bufHas s = false) (hlb : s.lastBatch = false) :
    let a := histServer hist ks i s.offsetID s.limit
    let s' := s.apply a.1 a.2
    (pending hist s = [] ∧ bufHas s' = false) ∨
    (bufHas s' = true ∧ pending hist s' = pending hist s ∧ s'.limit = s.limit ∧ s'.emptyIds = s.emptyIds ∧
      0 < (below hist s.offsetID).length ∧
      (s'.lastBatch = false → (below hist s'.offsetID).length + s.limit = (below hist s.offsetID).length)) := by
  have hb : ¬ s.pos < s.buf.length := by simpa [bufHas_eq] using h
  have hpend : pending hist s = below hist s.offsetID := by
    simp [pending, hlb, List.drop_eq_nil_of_le (Nat.le_of_not_lt hb)]
  simp only [histServer]
  generalize hk : respKind (ks.getD i Kind.slice) (below hist s.offsetID).length s.limit = k
  have hsorted : sortStable ((below hist s.offsetID).take s.limit) = (below hist s.offsetID).take s.limit :=
    sortStable_desc _ ((desc_below hist _ hd).sublist (List.take_sublist _ _))
  cases hlast : ((below hist s.offsetID).take s.limit).getLast? with
  | none =>
    left
    have hnil : (below hist s.offsetID).take s.limit = [] := List.getLast?_eq_none_iff.mp hlast
    have hrem : below hist s.offsetID = [] := by
      rcases List.take_eq_nil_iff.mp hnil with h | h
      · omega
      · exact h
    have happ : s.apply k ((below hist s.offsetID).take s.limit) = { s with lastBatch := true } := by
      simp [Iter.apply, hlb, hsorted, hlast]
    rw [happ]
    exact ⟨by rw [hpend, hrem], by simp [bufHas_eq, hb]⟩
  | some m =>
    right
    have hfil : ((below hist s.offsetID).take s.limit).filter (fun x => !s.emptyIds.contains x) =
        (below hist s.offsetID).take s.limit :=
      filter_notEmpty hist s.emptyIds hE _ (fun x hx => below_subset hist _ x (List.mem_of_mem_take hx))
    have happ : s.apply k ((below hist s.offsetID).take s.limit) =
        { s with lastBatch := lbRule (lbCode k) ((below hist s.offsetID).take s.limit).length s.limit,
                 offsetID := m, buf := (below hist s.offsetID).take s.limit, pos := 0 } := by
      simp [Iter.apply, hlb, hsorted, hlast]
      intro a ha
      exact hE a (below_subset hist _ a (List.mem_of_mem_take ha))
    rw [happ]
    have hne : (below hist s.offsetID).take s.limit ≠ [] := by
      intro h; rw [h] at hlast; simp at hlast
    have hlenpos := List.length_pos_iff.mpr hne
    have hrpos : 0 < (below hist s.offsetID).length := by
      rw [List.length_take] at hlenpos; omega
    refine ⟨by simpa [bufHas_eq] using hlenpos, ?_, rfl, rfl, hrpos, ?_⟩
    · rw [hpend]
      simp only [pending, List.drop_zero]
      cases hlbv : lbRule (lbCode k) ((below hist s.offsetID).take s.limit).length s.limit with
      | true =>
        have := lastBatch_complete (ks.getD i Kind.slice) (below hist s.offsetID) s.limit (by rw [hk]; exact hlbv)
        simp [this]
      | false =>
        have := below_last hist hd hp s.offsetID s.limit m hlast
        simp only [Bool.false_eq_true, if_false, this]
        exact List.take_append_drop _ _
    · intro hlbf
      simp only at hlbf
      have hfullpg := notLast_full (ks.getD i Kind.slice) (below hist s.offsetID) s.limit (by rw [hk]; exact hlbf)
      have := below_last hist hd hp s.offsetID s.limit m hlast
      simp only [this, List.length_drop]
      omega

theorem runS_exact (hist : List Nat) (hd : Desc hist) (hp : ∀ x ∈ hist, 0 < x) (ks : List Kind) :
    ∀ (fuel i : Nat) (s : Iter), (∀ x ∈ hist, x ∉ s.emptyIds) → 0 < s.limit → (pending hist s).length < fuel →
      (runS (histServer hist ks) fuel i s).yields = pending hist s ∧
      (runS (histServer hist ks) fuel i s).done = true := by
  intro fuel
  induction fuel with
  | zero => intro i s _ _ h; omega
  | succ fuel ih =>
    intro i s hE hL hfuel
    cases hbh : bufHas s with
    | true =>
      rw [runS_buf _ _ _ _ hbh]
      have hc := pending_consume hist s hbh
      have := ih i s.adv hE hL (by rw [hc] at hfuel; simp at hfuel; omega)
      rw [hc]
      exact ⟨by simp [this.1], this.2⟩
    | false =>
      cases hlb : s.lastBatch with
      | true =>
        rw [runS_stop _ _ _ _ hbh (by rw [apply_lastBatch _ _ _ hlb]; exact hbh)]
        simp [pending_lastBatch hist s hbh hlb]
      | false =>
        rcases apply_hist hist hd hp ks i s hE hL hbh hlb with ⟨hp0, hstop⟩ | ⟨hgo, hpe, hlim, hem, _, _⟩
        · rw [runS_stop _ _ _ _ hbh hstop]
          simp [hp0]
        · rw [runS_go _ _ _ _ hbh hgo]
          have hc := pending_consume hist _ hgo
          have := ih (i + 1) (s.apply (histServer hist ks i s.offsetID s.limit).1
              (histServer hist ks i s.offsetID s.limit).2).adv (by simpa [Iter.adv, hem] using hE)
            (by simpa [Iter.adv, hlim] using hL)
            (by rw [← hpe, hc] at hfuel; simp at hfuel; omega)
          rw [← hpe, hc]
          exact ⟨by simp [this.1], this.2⟩

/-! ### number of requests -/

def ceilDiv (r L : Nat) : Nat := (r + L - 1) / L

theorem ceilDiv_pos (r L : Nat) (hL : 0 < L) (hr : 0 < r) : 1 ≤ ceilDiv r L := by
  unfold ceilDiv
  exact (Nat.le_div_iff_mul_le hL).mpr (by omega)

theorem ceilDiv_step (r L : Nat) (hL : 0 < L) (hr : L ≤ r) : ceilDiv (r - L) L + 1 = ceilDiv r L := by
  unfold ceilDiv
  rw [Nat.div_eq_sub_div (a := r + L - 1) hL (by omega)]
  congr 2
  omega

/-- Requests still to be issued from state `s` (including the final one that discovers the end). -/
def reqBound (hist : List Nat) (s : Iter) : Nat :=
  if s.lastBatch then 1 else ceilDiv (below hist s.offsetID).length s.limit + 1

theorem reqBound_adv (hist : List Nat) (s : Iter) : reqBound hist s.adv = reqBound hist s := rfl

theorem runS_reqs (hist : List Nat) (hd : Desc hist) (hp : ∀ x ∈ hist, 0 < x) (ks : List Kind) :
    ∀ (fuel i : Nat) (s : Iter), (∀ x ∈ hist, x ∉ s.emptyIds) → 0 < s.limit →
      (runS (histServer hist ks) fuel i s).reqs.length ≤ reqBound hist s := by
  intro fuel
  induction fuel with
  | zero => intro i s _ _; simp [runS]
  | succ fuel ih =>
    intro i s hE hL
    cases hbh : bufHas s with
    | true =>
      rw [runS_buf _ _ _ _ hbh]
      have := ih i s.adv hE hL
      rw [reqBound_adv] at this
      exact this
    | false =>
      cases hlb : s.lastBatch with
      | true =>
        rw [runS_stop _ _ _ _ hbh (by rw [apply_lastBatch _ _ _ hlb]; exact hbh)]
        simp [reqBound, hlb]
      | false =>
        rcases apply_hist hist hd hp ks i s hE hL hbh hlb with ⟨_, hstop⟩ | ⟨hgo, _, hlim, hem, hrpos, hnext⟩
        · rw [runS_stop _ _ _ _ hbh hstop]
          simp [reqBound, hlb]
        · rw [runS_go _ _ _ _ hbh hgo]
          have := ih (i + 1) (s.apply (histServer hist ks i s.offsetID s.limit).1
              (histServer hist ks i s.offsetID s.limit).2).adv (by simpa [Iter.adv, hem] using hE)
            (by simpa [Iter.adv, hlim] using hL)
          rw [reqBound_adv] at this
          simp only [List.length_cons]
          have hcp := ceilDiv_pos (below hist s.offsetID).length s.limit hL hrpos
          unfold reqBound at this ⊢
          simp only [hlb, Bool.false_eq_true, if_false]
          cases hlb' : (s.apply (histServer hist ks i s.offsetID s.limit).1
              (histServer hist ks i s.offsetID s.limit).2).lastBatch with
          | true =>
            simp only [hlb', if_true] at this
            omega
          | false =>
            simp only [hlb', Bool.false_eq_true, if_false, hlim] at this
            have hn := hnext hlb'
            have hge : s.limit ≤ (below hist s.offsetID).length := by omega
            have hs := ceilDiv_step (below hist s.offsetID).length s.limit hL hge
            have hle : (below hist (s.apply (histServer hist ks i s.offsetID s.limit).1
                (histServer hist ks i s.offsetID s.limit).2).offsetID).length =
                (below hist s.offsetID).length - s.limit := by omega
            rw [hle] at this
            omega

end TdModel.C39
