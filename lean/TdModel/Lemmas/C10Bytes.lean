import TdModel.Model.C10Bytes
import TdModel.Lemmas.C10

namespace TdModel.C09
open TdModel

theorem crunB_state (B : XPB) (cfg : CCfg) (t : CTape) (ps : List Bytes) :
    ∀ s, (crunB B cfg t s ps).1 = (crun B.toXP cfg t s (msgsOf B cfg t s ps)).1 := by
  induction ps with
  | nil => intro s; rfl
  | cons p rest ih =>
    intro s
    simp only [crunB, msgsOf, crun, cstepB]
    exact ih _

/-- A byte-level run that ends in `done` consumed three payloads that decode, with the decoders of
the three steps, to the messages `crun_done_implies` describes. -/
theorem crunB_done (B : XPB) (cfg : CCfg) (t : CTape) (ps : List Bytes) (r : CResult)
    (h : (crunB B cfg t .waitResPQ ps).1 = .done r) :
    ∃ p1 p2 p3 rest sn pq fps fp p q ans d hash,
      ps = p1 :: p2 :: p3 :: rest ∧
      decServerMsg 0 p1 = .resPQ t.nonce sn pq fps ∧
      decServerMsg 1 p2 = .dhOk t.nonce sn ans ∧
      decServerMsg 2 p3 = .genOk t.nonce sn hash ∧
      selectKey cfg.keys fps = some fp ∧ pq ≤ pqMax ∧ (1 < pq ∧ B.isPrime pq = false) ∧ B.factor pq = some (p, q) ∧
      B.toXP.decS (tempAESKeys B.sha1 t.newNonce sn) ans = some d ∧
      d.nonce = t.nonce ∧ d.serverNonce = sn ∧
      checkDH B.isPrime d.g d.dhPrime = true ∧
      checkDHParams d.dhPrime d.g.toNat d.gA (powMod d.g.toNat t.b d.dhPrime) = true ∧
      nonceHash1 B.sha1 t.newNonce (keyBytes (powMod d.gA t.b d.dhPrime)) = hash ∧
      r = ⟨powMod d.gA t.b d.dhPrime, serverSalt t.newNonce sn, t.sessionId⟩ := by
  rw [crunB_state] at h
  have hc : crun B.toXP cfg t .waitResPQ (msgsOf B cfg t .waitResPQ ps) =
      (.done r, (crun B.toXP cfg t .waitResPQ (msgsOf B cfg t .waitResPQ ps)).2) := by
    rw [← h]
  obtain ⟨sn, pq, fps, fp, p, q, ans, d, hash, rest', hms, hsel, hpq, hcomp, hfac, hdec, hn, hsn, hdh, hpar, hh, hr⟩ :=
    crun_done_implies B.toXP cfg t _ r _ hc
  -- read the three payloads off `msgsOf`
  cases ps with
  | nil => simp [msgsOf] at hms
  | cons p1 ps1 =>
    simp only [msgsOf, stageOf, List.cons.injEq] at hms
    obtain ⟨hm1, hms⟩ := hms
    have hs1 : (cstep B.toXP cfg t .waitResPQ (decServerMsg 0 p1)).1 = .waitDH sn := by
      rw [hm1]
      show (onResPQ B.toXP cfg t (.resPQ t.nonce sn pq fps)).1 = _
      have hpq' : ¬ (pq > pqMax) := by omega
      have hc1 : ¬ (pq ≤ 1 ∨ B.toXP.isPrime pq = true) := by
        intro hx
        rcases hx with hx | hx
        · omega
        · have hcp : B.isPrime pq = false := hcomp.2
          have hx' : B.isPrime pq = true := hx
          rw [hcp] at hx'; exact Bool.noConfusion hx' 
      have hfac' : B.toXP.factor pq = some (p, q) := hfac
      simp [onResPQ, hsel, hpq', hc1, hfac']
    rw [hs1] at hms
    cases ps1 with
    | nil => simp [msgsOf] at hms
    | cons p2 ps2 =>
      simp only [msgsOf, stageOf, List.cons.injEq] at hms
      obtain ⟨hm2, hms⟩ := hms
      have hs2 : (cstep B.toXP cfg t (.waitDH sn) (decServerMsg 1 p2)).1 = .waitGen sn (powMod d.gA t.b d.dhPrime) := by
        rw [hm2]
        show (onDHParams B.toXP t sn (.dhOk t.nonce sn ans)).1 = _
        simp [onDHParams, hdec, hn, hsn, hdh, hpar]
      rw [hs2] at hms
      cases ps2 with
      | nil => simp [msgsOf] at hms
      | cons p3 ps3 =>
        simp only [msgsOf, stageOf, List.cons.injEq] at hms
        obtain ⟨hm3, _⟩ := hms
        exact ⟨p1, p2, p3, ps3, sn, pq, fps, fp, p, q, ans, d, hash, rfl, hm1, hm2, hm3, hsel, hpq, hcomp, hfac,
          hdec, hn, hsn, hdh, hpar, hh, hr⟩

end TdModel.C09
