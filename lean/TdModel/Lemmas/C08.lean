import TdModel.Model.C08

namespace TdModel.C08
open TdModel

theorem modulo_eq : modulo = 4 := rfl
theorem minRes_eq : minRes = 10 := rfl
theorem nanoPerSec_eq : nanoPerSec = 1000000000 := rfl
theorem idShift_eq : idShift = 32 := rfl

/-- `newMessageID` in plain arithmetic: the `|` is an addition because the fraction fits 32 bits. -/
theorem newMessageID_eq (n y : Nat) (hy : y < 4) :
    newMessageID n y = n / 1000000000 * 4294967296 + (n % 1000000000 - n % 1000000000 % 4 + y) := by
  unfold newMessageID
  simp only [modulo_eq, nanoPerSec_eq, idShift_eq]
  have hlt : n % 1000000000 - n % 1000000000 % 4 + y < 2 ^ 32 := by omega
  rw [← Nat.shiftLeft_add_eq_or_of_lt hlt, Nat.shiftLeft_eq]

/-- Ids are strictly monotone in the time with its two low bits cleared (1e9 is divisible by 4),
whatever the two type bits are. -/
theorem newMessageID_lt (a b y1 y2 : Nat) (h : a - a % 4 < b - b % 4) (h1 : y1 < 4) (h2 : y2 < 4) :
    newMessageID a y1 < newMessageID b y2 := by
  rw [newMessageID_eq a y1 h1, newMessageID_eq b y2 h2]
  omega

theorem newMessageID_mod4 (n y : Nat) (hy : y < 4) : newMessageID n y % 4 = y := by
  rw [newMessageID_eq n y hy]; omega

theorem newMessageID_lt_2_63 (n y : Nat) (hy : y < 4) (hn : n < 2 ^ 31 * 1000000000) :
    newMessageID n y < 2 ^ 63 := by
  rw [newMessageID_eq n y hy]; omega

theorem idTime_newMessageID (n y : Nat) (hy : y < 4) :
    idTime (newMessageID n y) = ((n - n % 4 + y : Nat) : Int) := by
  unfold idTime toInt32
  rw [newMessageID_eq n y hy, Nat.shiftRight_eq_div_pow]
  have h1 : (n / 1000000000 * 4294967296 + (n % 1000000000 - n % 1000000000 % 4 + y)) / 2 ^ 32 = n / 1000000000 := by omega
  have h2 : (n / 1000000000 * 4294967296 + (n % 1000000000 - n % 1000000000 % 4 + y)) % 2 ^ 32
      = n % 1000000000 - n % 1000000000 % 4 + y := by omega
  rw [h1, h2]
  have h3 : n % 1000000000 - n % 1000000000 % 4 + y < 2 ^ 31 := by omega
  simp only [h3, if_true]
  omega

theorem yieldOf_lt (t : Nat) : yieldOf t < 4 := by
  unfold yieldOf; split
  · decide
  · split
    · decide
    · split <;> decide

theorem yieldOf_client : yieldOf typFromClient = 0 := by decide

theorem clearLow_eq (x : Int) : clearLow x = x - x % 4 := rfl

theorem genNext_cases (g : Nat) (c : Int) :
    (c - c % 4 > (g : Int) - (g : Int) % 4 ∧ genNext g c = c.toNat) ∨
    (¬ (c - c % 4 > (g : Int) - (g : Int) % 4) ∧ genNext g c = g + 10) := by
  unfold genNext
  rw [clearLow_eq, clearLow_eq, minRes_eq]
  split
  · left; exact ⟨‹_›, rfl⟩
  · right; exact ⟨‹_›, rfl⟩

/-- One call of the repaired generator strictly raises the rounded time. -/
theorem genNext_clear_lt (g : Nat) (c : Int) : g - g % 4 < genNext g c - genNext g c % 4 := by
  rcases genNext_cases g c with ⟨h, e⟩ | ⟨h, e⟩ <;> rw [e] <;> omega

/-- The new stored time is never behind the clock reading nor behind the old stored time, and is
ahead of both only by one 10 ns bump. -/
theorem genNext_bounds (g : Nat) (c : Int) :
    c ≤ (genNext g c : Int) ∧ g ≤ genNext g c ∧ (genNext g c : Int) ≤ max ((g : Int) + 10) c := by
  rcases genNext_cases g c with ⟨h, e⟩ | ⟨h, e⟩ <;> rw [e] <;> omega

theorem genIds_lower (calls : List (Int × Nat)) : ∀ (g : Nat), (∀ p ∈ calls, p.2 < 4) →
    ∀ x ∈ genIds g calls, ∀ y0, y0 < 4 → newMessageID g y0 < x := by
  induction calls with
  | nil => intro g _ x hx; simp [genIds, genIdsWith] at hx
  | cons p rest ih =>
    intro g hy x hx y0 hy0
    obtain ⟨c, y⟩ := p
    have hyy : y < 4 := hy (c, y) (by simp)
    have hrest : ∀ p ∈ rest, p.2 < 4 := fun p hp => hy p (by simp [hp])
    simp only [genIds, genIdsWith, List.mem_cons] at hx
    rcases hx with hx | hx
    · subst hx
      exact newMessageID_lt _ _ _ _ (genNext_clear_lt g c) hy0 hyy
    · have := ih (genNext g c) hrest x hx y0 hy0
      exact Nat.lt_trans (newMessageID_lt _ _ _ _ (genNext_clear_lt g c) hy0 hy0) this

theorem genIds_pairwise (calls : List (Int × Nat)) : ∀ (g : Nat), (∀ p ∈ calls, p.2 < 4) →
    (genIds g calls).Pairwise (· < ·) := by
  induction calls with
  | nil => intro g _; simp [genIds, genIdsWith]
  | cons p rest ih =>
    intro g hy
    obtain ⟨c, y⟩ := p
    have hyy : y < 4 := hy (c, y) (by simp)
    have hrest : ∀ p ∈ rest, p.2 < 4 := fun p hp => hy p (by simp [hp])
    simp only [genIds, genIdsWith, List.pairwise_cons]
    exact ⟨fun x hx => genIds_lower rest (genNext g c) hrest x hx y hyy, ih (genNext g c) hrest⟩


/-- Every id of a run is built from a stored time whose rounding exceeds the start's. -/
theorem genIds_mem (calls : List (Int × Nat)) : ∀ (g : Nat), (∀ p ∈ calls, p.2 < 4) →
    ∀ x ∈ genIds g calls, ∃ n y, y < 4 ∧ g - g % 4 < n - n % 4 ∧ x = newMessageID n y := by
  induction calls with
  | nil => intro g _ x hx; simp [genIds, genIdsWith] at hx
  | cons p rest ih =>
    intro g hy x hx
    obtain ⟨c, y⟩ := p
    have hyy : y < 4 := hy (c, y) (by simp)
    have hrest : ∀ p ∈ rest, p.2 < 4 := fun p hp => hy p (by simp [hp])
    simp only [genIds, genIdsWith, List.mem_cons] at hx
    rcases hx with hx | hx
    · exact ⟨genNext g c, y, hyy, genNext_clear_lt g c, hx⟩
    · obtain ⟨n, y', h1, h2, h3⟩ := ih (genNext g c) hrest x hx
      exact ⟨n, y', h1, Nat.lt_trans (genNext_clear_lt g c) h2, h3⟩

/-- Any relation that follows the rounded stored time holds pairwise along a run. -/
theorem genIds_pairwise_of {R : Nat → Nat → Prop}
    (hR : ∀ a b y1 y2, a - a % 4 < b - b % 4 → y1 < 4 → y2 < 4 → R (newMessageID a y1) (newMessageID b y2))
    (calls : List (Int × Nat)) : ∀ (g : Nat), (∀ p ∈ calls, p.2 < 4) → (genIds g calls).Pairwise R := by
  induction calls with
  | nil => intro g _; simp [genIds, genIdsWith]
  | cons p rest ih =>
    intro g hy
    obtain ⟨c, y⟩ := p
    have hyy : y < 4 := hy (c, y) (by simp)
    have hrest : ∀ p ∈ rest, p.2 < 4 := fun p hp => hy p (by simp [hp])
    simp only [genIds, genIdsWith, List.pairwise_cons]
    refine ⟨fun x hx => ?_, ih (genNext g c) hrest⟩
    obtain ⟨n, y', h1, h2, h3⟩ := genIds_mem rest (genNext g c) hrest x hx
    rw [h3]
    exact hR _ _ _ _ h2 hyy h1

theorem idTime_lt (a b y1 y2 : Nat) (h : a - a % 4 < b - b % 4) (h1 : y1 < 4) (h2 : y2 < 4) :
    idTime (newMessageID a y1) < idTime (newMessageID b y2) := by
  rw [idTime_newMessageID a y1 h1, idTime_newMessageID b y2 h2]
  omega

theorem genIds_all_mod4 (calls : List (Int × Nat)) : ∀ (g : Nat), (∀ p ∈ calls, p.2 = 0) →
    ∀ x ∈ genIds g calls, x % 4 = 0 := by
  induction calls with
  | nil => intro g _ x hx; simp [genIds, genIdsWith] at hx
  | cons p rest ih =>
    intro g hy x hx
    obtain ⟨c, y⟩ := p
    have hyy : y = 0 := hy (c, y) (by simp)
    have hrest : ∀ p ∈ rest, p.2 = 0 := fun p hp => hy p (by simp [hp])
    simp only [genIds, genIdsWith, List.mem_cons] at hx
    rcases hx with hx | hx
    · subst hx; subst hyy; exact newMessageID_mod4 _ 0 (by omega)
    · exact ih (genNext g c) hrest x hx

/-- Sequence numbers: the i-th is twice the number of earlier content messages (+1 if content). -/
theorem seqRun_getElem (flags : List Bool) : ∀ (s i : Nat) (h : i < flags.length),
    (seqRun s flags)[i]? = some (2 * (s + (flags.take i).count true) + (if flags[i] then 1 else 0)) := by
  induction flags with
  | nil => intro s i h; simp at h
  | cons f fs ih =>
    intro s i h
    cases i with
    | zero =>
      simp only [seqRun, nextSeq]
      cases f <;> simp <;> omega
    | succ j =>
      have hj : j < fs.length := by simpa using h
      simp only [seqRun, List.getElem?_cons_succ, List.take_succ_cons, List.getElem_cons_succ]
      rw [ih _ j hj]
      cases f <;> simp [nextSeq] <;> omega

theorem seqRun_length (flags : List Bool) : ∀ s, (seqRun s flags).length = flags.length := by
  induction flags with
  | nil => intro s; rfl
  | cons f fs ih => intro s; simp [seqRun, ih]

/-- Projections of a connection run: the ids are a generator run with client type, the sequence
numbers a `seqRun`. -/
theorem connRun_ids (secs : List (Int × Bool)) : ∀ s : Conn,
    (connRun s secs).map (·.1) = genIds s.nano (secs.map fun p => (p.1, yieldOf typFromClient)) := by
  induction secs with
  | nil => intro s; rfl
  | cons p rest ih =>
    intro s
    obtain ⟨c, f⟩ := p
    simp only [connRun, List.map_cons, genIds, genIdsWith]
    have := ih (nextMsgSeq s c f).1
    simp only [genIds] at this
    rw [this]
    simp [nextMsgSeq]

theorem connRun_seqs (secs : List (Int × Bool)) : ∀ s : Conn,
    (connRun s secs).map (·.2) = seqRun s.sent (secs.map (·.2)) := by
  induction secs with
  | nil => intro s; rfl
  | cons p rest ih =>
    intro s
    obtain ⟨c, f⟩ := p
    simp only [connRun, List.map_cons, seqRun]
    rw [ih (nextMsgSeq s c f).1]
    simp [nextMsgSeq]

/-- `a<<32 | b` of the translated code (`orNonneg`) on naturals. -/
theorem orNonneg_shift (a b : Nat) :
    Facts.C08.orNonneg ((a : Int) * 2 ^ 32) (b : Int) = ((a <<< 32 ||| b : Nat) : Int) := by
  unfold Facts.C08.orNonneg
  have h : ((a : Int) * 2 ^ 32).toNat = a * 2 ^ 32 := by omega
  rw [h, Int.toNat_natCast, Nat.shiftLeft_eq]
  rfl

/-- The definition regenerated from the Go source of `proto.newMessageID` is the model's. -/
theorem newMessageIDT_eq (n y : Nat) :
    Facts.C08.newMessageIDT (n : Int) (y : Int) = (newMessageID n y : Int) := by
  have e1 : Int.tdiv (n : Int) 1000000000 = ((n / 1000000000 : Nat) : Int) := by
    rw [Int.tdiv_eq_ediv_of_nonneg (by omega)]; omega
  have e2 : Int.tmod (n : Int) 1000000000 = ((n % 1000000000 : Nat) : Int) := by
    rw [Int.tmod_eq_emod_of_nonneg (by omega)]; omega
  have e4 : ((n % 1000000000 : Nat) : Int) - ((n % 1000000000 : Nat) : Int) % 2 ^ 2 + (y : Int)
      = ((n % 1000000000 - n % 1000000000 % 4 + y : Nat) : Int) := by omega
  show Facts.C08.orNonneg (Int.tdiv (n : Int) 1000000000 * 2 ^ 32)
      (Int.tmod (n : Int) 1000000000 - Int.tmod (n : Int) 1000000000 % 2 ^ 2 + (y : Int)) = _
  rw [e1, e2, e4, orNonneg_shift]
  rfl

/-- The decidable statement `holds` is true of every connection run. -/
theorem holdsFrom_obsFrom (secs : List (Int × Bool)) : ∀ (s : Conn) (prev : Option Nat),
    (prev = none ∨ prev = some (newMessageID s.nano 0)) →
    holdsFrom prev s.sent (obsFrom s secs) = true := by
  induction secs with
  | nil => intro s prev _; rfl
  | cons p rest ih =>
    intro s prev hprev
    obtain ⟨c, f⟩ := p
    simp only [obsFrom, holdsFrom]
    have hid : (nextMsgSeq s c f).2.1 = newMessageID (genNext s.nano c) 0 := by
      simp [nextMsgSeq, yieldOf_client]
    have hnano : (nextMsgSeq s c f).1.nano = genNext s.nano c := by simp [nextMsgSeq]
    have hlt : newMessageID s.nano 0 < newMessageID (genNext s.nano c) 0 :=
      newMessageID_lt _ _ _ _ (genNext_clear_lt s.nano c) (by omega) (by omega)
    have hmod : newMessageID (genNext s.nano c) 0 % 4 = 0 := newMessageID_mod4 _ 0 (by omega)
    have hrec := ih (nextMsgSeq s c f).1 (some (nextMsgSeq s c f).2.1) (Or.inr (by rw [hid, hnano]))
    have hsent : (nextMsgSeq s c f).1.sent = if f then s.sent + 1 else s.sent := by
      cases f <;> simp [nextMsgSeq, nextSeq]
    have hseq : (nextMsgSeq s c f).2.2 = 2 * s.sent + (if f then 1 else 0) := by
      cases f <;> simp [nextMsgSeq, nextSeq] <;> omega
    rw [hsent] at hrec
    rw [hrec, hid, hseq]
    simp only [hmod, decide_true, Bool.and_true]
    rcases hprev with h | h
    · subst h; simp
    · subst h; simp [hlt]

/-! ### the translated code equals the hand-written model -/

theorem newMessageIDNanoT_eq (n t : Nat) :
    Facts.C08.newMessageIDNanoT (n : Int) (t : Int) = (newMessageIDNano n t : Int) := by
  unfold Facts.C08.newMessageIDNanoT newMessageIDNano yieldOf
  simp only [typFromClient, typFromServer, typServerResponse, yieldClient, yieldFromServer, yieldServerResponse,
    Facts.C08.typeFromClient, Facts.C08.typeFromServer, Facts.C08.typeServerResponse,
    Facts.C08.yieldClient, Facts.C08.yieldFromServer, Facts.C08.yieldServerResponse]
  by_cases h1 : t = 1
  · subst h1; simpa using newMessageIDT_eq n 0
  · by_cases h3 : t = 3
    · subst h3; simpa using newMessageIDT_eq n 3
    · by_cases h2 : t = 2
      · subst h2; simpa using newMessageIDT_eq n 1
      · have e1 : ¬ ((t : Int) = 1) := by omega
        have e3 : ¬ ((t : Int) = 3) := by omega
        have e2 : ¬ ((t : Int) = 2) := by omega
        simp only [e1, e2, e3, h1, h2, h3, decide_false, if_false, Bool.false_eq_true]
        simpa using newMessageIDT_eq n 0

/-- Robust form: whatever shape the translated condition and branches have, split on it and let
`omega` relate it to the model's condition. -/
theorem genNewT_eq (g : Nat) (c : Int) (t : Nat) :
    genNewT g c t = (newMessageID (genNext g c) (yieldOf t), genNext g c) := by
  have hN : ∀ n : Nat, Facts.C08.newMessageIDNanoT (n : Int) (t : Int) = ((newMessageID n (yieldOf t) : Nat) : Int) :=
    fun n => newMessageIDNanoT_eq n t
  have key : Facts.C08.genNewT (t : Int) (g : Int) c
      = (((newMessageID (genNext g c) (yieldOf t) : Nat) : Int), ((genNext g c : Nat) : Int)) := by
    unfold Facts.C08.genNewT
    rcases genNext_cases g c with ⟨h, e⟩ | ⟨h, e⟩
    · have hnn : ((c.toNat : Nat) : Int) = c := by omega
      rw [e, ← hN, hnn]
      simp only []
      split <;> rename_i hc <;> simp at hc <;> first | rfl | omega
    · have hg : (((g + 10 : Nat)) : Int) = (g : Int) + 10 := by omega
      rw [e, ← hN, hg]
      simp only []
      split <;> rename_i hc <;> simp at hc <;> first | rfl | omega
  unfold genNewT
  rw [key]
  simp

theorem genIdsT_eq (calls : List (Int × Nat)) : ∀ g,
    genIdsT g calls = genIds g (calls.map fun p => (p.1, yieldOf p.2)) := by
  induction calls with
  | nil => intro g; rfl
  | cons p rest ih =>
    intro g
    obtain ⟨c, t⟩ := p
    simp only [genIdsT, genIds, genIdsWith, List.map_cons, genNewT_eq]
    have := ih (genNext g c)
    simp only [genIds] at this
    rw [this]

theorem nextMsgSeqT_eq (s : Conn) (c : Int) (f : Bool) : nextMsgSeqT s c f = nextMsgSeq s c f := by
  unfold nextMsgSeqT nextMsgSeq
  rw [genNewT_eq]
  have ht : Facts.C08.connNewType = typFromClient := rfl
  unfold Facts.C08.nextMsgSeqT nextSeq
  cases f <;> simp [ht] <;> omega

theorem connRunT_eq (secs : List (Int × Bool)) : ∀ s, connRunT s secs = connRun s secs := by
  induction secs with
  | nil => intro s; rfl
  | cons p rest ih =>
    intro s
    obtain ⟨c, f⟩ := p
    simp only [connRunT, connRun, nextMsgSeqT_eq, ih]

end TdModel.C08
