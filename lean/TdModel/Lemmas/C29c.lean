/-
C29 — when a failed send does not surface, no request ever carries the reason `sendError`.
-/
import TdModel.Lemmas.C29b

namespace TdModel.C29

def NoSendErr (s : State) : Prop := ∀ (r : Nat) (q : Req), s.reqs[r]? = some q → q.reason ≠ .sendError

theorem noSendErr_setReq {t : State} (r0 : Nat) (q0 : Req) (ht : NoSendErr t) (hq0 : q0.reason ≠ .sendError) :
    NoSendErr (setReq t r0 q0) := by
  intro r q hrq
  simp only [setReq, List.getElem?_set] at hrq
  by_cases hr : r0 = r
  · subst hr
    split at hrq
    · split at hrq
      · cases hrq; exact hq0
      · cases hrq
    · exact absurd rfl ‹¬r0 = r0›
  · simp [hr] at hrq
    exact ht r q hrq

theorem noSendErr_seenStep {s s' : State} {r : Nat} (h0 : NoSendErr s) (h : seenStep s r = some s') :
    NoSendErr s' := by
  simp only [seenStep] at h
  split at h
  · rename_i q hq
    split at h
    · split at h
      · cases h; exact noSendErr_setReq r _ h0 (h0 r q hq)
      · cases h; exact h0
    · cases h
    · cases h; exact h0
  · cases h

theorem noSendErr_step (cfg : Cfg) (hcfg : cfg.sendErrorSurfaces = false) {s s' : State} (a : Action)
    (h0 : NoSendErr s) (h : step cfg s a = some s') : NoSendErr s' := by
  cases a with
  | inv r =>
    simp only [step] at h
    split at h
    · rename_i q hq
      split at h
      · cases h; exact noSendErr_setReq r _ h0 (h0 r q hq)
      · cases h
    · cases h
  | bind r =>
    simp only [step] at h
    split at h
    · rename_i q hq
      split at h
      · cases h; exact noSendErr_setReq r _ h0 (h0 r q hq)
      · split at h
        · cases h; exact noSendErr_setReq r _ h0 (h0 r q hq)
        · cases h
      · cases h
    · cases h
  | init =>
    simp only [step] at h
    split at h
    · cases h; exact h0
    · cases h
  | arr r k =>
    simp only [step] at h
    split at h
    · rename_i q hq
      split at h
      · cases h
        exact noSendErr_setReq (t := s) r _ h0 (h0 r q hq)
      · split at h
        · cases h; exact h0
        · cases h
    · cases h
  | ack r k =>
    simp only [step] at h
    split at h
    · cases h; exact h0
    · cases h
  | res r k =>
    simp only [step] at h
    split at h
    · cases h; exact h0
    · cases h
  | seen r =>
    simp only [step] at h
    exact noSendErr_seenStep h0 h
  | rd r k =>
    simp only [step] at h
    split at h
    · rename_i q hq
      split at h
      · cases h; exact noSendErr_setReq r _ h0 (h0 r q hq)
      · cases h; exact h0
    · cases h
  | killw =>
    simp only [step] at h
    split at h
    · cases h; exact h0
    · cases h
  | kill =>
    simp only [step] at h
    split at h
    · cases h; exact h0
    · cases h
  | fail r =>
    simp only [step] at h
    split at h
    · rename_i q hq
      split at h
      · split at h
        · cases h; exact noSendErr_setReq r _ h0 (h0 r q hq)
        · cases h
      · split at h
        · cases h; exact noSendErr_setReq r _ h0 (h0 r q hq)
        · cases h
      · cases h
    · cases h
  | reconnect =>
    simp only [step] at h
    split at h
    · cases h; exact h0
    · cases h
  | retOk r =>
    simp only [step] at h
    split at h
    · rename_i q hq
      split at h
      · split at h
        · cases h; exact noSendErr_setReq r _ h0 (h0 r q hq)
        · cases h
      · split at h
        · cases h; exact noSendErr_setReq r _ h0 (h0 r q hq)
        · cases h
      · cases h
    · cases h
  | retErr r =>
    simp only [step] at h
    split at h
    · rename_i q hq
      split at h
      · cases h
      · cases h
      · cases h
      · split at h
        · cases h; exact noSendErr_setReq r _ h0 (by simp)
        · split at h
          · cases h; exact noSendErr_setReq r _ h0 (by simp)
          · cases h
      · split at h
        · cases h; exact noSendErr_setReq r _ h0 (by simp)
        · cases h
    · cases h
  | sendFail r =>
    simp only [step] at h
    split at h
    · split at h
      · split at h
        · rename_i hg
          rw [hcfg] at hg
          simp at hg
        · cases h
      · cases h
    · cases h
  | close =>
    simp only [step] at h
    split at h
    · cases h
    · cases h; exact h0

theorem noSendErr_run (cfg : Cfg) (hcfg : cfg.sendErrorSurfaces = false) (as : List Action) {s s' : State}
    (h0 : NoSendErr s) (h : run cfg s as = some s') : NoSendErr s' := by
  induction as generalizing s with
  | nil => simp [run] at h; subst h; exact h0
  | cons a as ih =>
    simp only [run] at h
    split at h
    · rename_i s1 h1; exact ih (noSendErr_step cfg hcfg a h0 h1) h
    · cases h

theorem noSendErr_init (n : Nat) : NoSendErr (init n) := by
  intro r q hq
  simp [init, List.getElem?_replicate] at hq
  obtain ⟨_, rfl⟩ := hq
  simp

end TdModel.C29
