/- C24 — preservation of `Rpc.Prov` by the environment actions; it holds in every reachable state. -/
import TdModel.Lemmas.C24ProvCall
import TdModel.Lemmas.C24ProvNotif
namespace TdModel.Rpc

theorem prov_ackOne {cfg : Cfg} (s : State) (id : Nat) (h : Prov s) : Prov (ackOne cfg s id).1 := by
  unfold ackOne
  split
  · split
    · split
      · constructor <;> simp <;> grind [Prov, Ret.isResult]
      · split <;> (constructor <;> simp [setCall, removeAck] <;> grind [Prov, Ret.isResult])
    · exact h
  · exact h

theorem prov_ack {cfg : Cfg} {s : State} {ids : List Nat} (h : Prov s) : Prov (stepAck cfg s ids) :=
  stepAck_induct cfg prov_ackOne ids s h

theorem prov_cancel {s s' : State} {i : Nat} (h : Prov s) (hs : stepCancel s i = some s') : Prov s' := by
  unfold stepCancel at hs
  split at hs
  · simp at hs
  · split at hs <;> simp at hs <;> subst hs
    · constructor <;> simp [setCall] <;> grind [Prov, Ret.isResult]
    · exact h

theorem prov_advance {s : State} {d : Nat} (h : Prov s) : Prov (stepAdvance s d) := by
  constructor <;> simp [stepAdvance, Call.tickTimer] <;> grind [Prov, Ret.isResult]

theorem prov_step {cfg : Cfg} {s s' : State} {a : Action} (hg : cfg.std = true) (h : Prov s) (hi : Inv s)
    (hs : step cfg s a = some s') : Prov s' := by
  cases a <;> simp only [step] at hs
  · exact prov_start h hi hs
  · exact prov_sret hg h hi hs
  · exact prov_loop hg h hi hs
  · exact prov_wait hg h hi hs
  · exact prov_dret hg h hi hs
  · exact prov_gpass hg h hi hs
  · exact prov_nstart h hi hs
  · exact prov_nrun hg h hi hs
  · exact prov_nwrite h hi hs
  · cases hs; exact prov_ack h
  · exact prov_cancel h hs
  · cases hs; exact prov_advance h
  · split at hs <;> simp at hs; subst hs; constructor <;> simp <;> grind [Prov]
  · split at hs <;> simp at hs; subst hs; constructor <;> simp <;> grind [Prov]
  · split at hs <;> simp at hs; subst hs; constructor <;> simp <;> grind [Prov]

theorem prov_run {cfg : Cfg} (hg : cfg.std = true) {as : List Action} {s s' : State} (h : Prov s) (hi : Inv s)
    (hs : run cfg s as = some s') : Prov s' := by
  induction as generalizing s with
  | nil => simp [run] at hs; subst hs; exact h
  | cons a as ih =>
    simp only [run] at hs
    split at hs
    · next s1 h1 => exact ih (prov_step hg h hi h1) (inv_step hg hi h1) hs
    · simp at hs

theorem reachable_prov {cfg : Cfg} (hg : cfg.std = true) {s : State} (h : Reachable cfg s) : Prov s := by
  obtain ⟨as, hs⟩ := h
  exact prov_run hg prov_init inv_init hs

end TdModel.Rpc
