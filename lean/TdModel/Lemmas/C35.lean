import TdModel.Model.C35

namespace TdModel.C35

/-! ### UTF-16 length -/

theorem u16len_app (a b : List Char) : u16len (a ++ b) = u16len a + u16len b := by
  induction a with
  | nil => simp [u16len]
  | cons c t ih => simp only [List.cons_append, u16len, ih]; omega

theorem u16len_take_le (l : List Char) : ∀ n, u16len (l.take n) ≤ u16len l := by
  induction l with
  | nil => intro n; simp [u16len]
  | cons c t ih =>
    intro n
    cases n with
    | zero => simp [u16len]
    | succ n => simp only [List.take_succ_cons, u16len]; have := ih n; omega

theorem u16len_take_mono (l : List Char) {n m : Nat} (h : n ≤ m) :
    u16len (l.take n) ≤ u16len (l.take m) := by
  have : l.take n = (l.take m).take n := by rw [List.take_take, Nat.min_eq_left h]
  rw [this]; exact u16len_take_le _ _

theorem u16len_take_drop (l : List Char) (a b : Nat) (h : a ≤ b) :
    u16len (l.take b) = u16len (l.take a) + u16len ((l.drop a).take (b - a)) := by
  have h1 : l.take b = (l.take b).take a ++ (l.take b).drop a := (List.take_append_drop a _).symm
  have h2 : (l.take b).take a = l.take a := by rw [List.take_take, Nat.min_eq_left h]
  have h3 : (l.take b).drop a = (l.drop a).take (b - a) := by rw [List.drop_take]
  rw [h1, u16len_app, h2, h3]

/-! ### `utf16RuneLen` as translated from the source -/

theorem runeLen_eq (v : Int) : runeLen v = if 0x10000 ≤ v ∧ v ≤ 0x10FFFF then 2 else 1 := by
  unfold runeLen Facts.C35.utf16RuneLen
  by_cases h1 : (0x10000 : Int) ≤ v <;> by_cases h2 : v ≤ (0x10FFFF : Int) <;> simp [h1, h2] <;> omega

theorem char_lt (c : Char) : c.toNat < 0x110000 := by
  have := c.valid
  simp only [UInt32.isValidChar, Nat.isValidChar] at this
  simp only [Char.toNat, UInt32.toNat] at *
  omega

theorem u16_eq (c : Char) : u16 c = if 0x10000 ≤ c.toNat then 2 else 1 := by
  have hv := char_lt c
  unfold u16
  rw [runeLen_eq]
  split <;> split <;> omega

/-- `WriteRune` adds to the counter exactly the width of what it appends — for EVERY `rune` value,
including the ones `strings.Builder.WriteRune` replaces by U+FFFD. -/
theorem runeLen_charOfRune (r : Int) : runeLen r = (u16 (charOfRune r) : Int) := by
  rw [u16_eq, runeLen_eq]
  by_cases h : 0 ≤ r ∧ r.toNat.isValidChar
  · have hc : charOfRune r = Char.ofNatAux r.toNat h.2 := by simp only [charOfRune, h, and_self, dite_true]
    have hn : (charOfRune r).toNat = r.toNat := by rw [hc]; rfl
    rw [hn]
    have := h.1
    split <;> split <;> omega
  · have hc : charOfRune r = Char.ofNat 0xFFFD := by simp only [charOfRune, h, dite_false]
    have h1 : (Char.ofNat 0xFFFD).toNat = 0xFFFD := by decide
    rw [hc, h1]
    have hbad : ¬ (0x10000 ≤ r ∧ r ≤ 0x10FFFF) := by
      intro hh
      apply h
      refine ⟨by omega, ?_⟩
      unfold Nat.isValidChar
      omega
    simp only [hbad, if_false]
    decide

/-! ### Trailing trim -/

theorem trimRight_split (l : List Char) :
    ∃ r, l = trimRight l ++ r ∧ r.all isSpace = true := by
  refine ⟨(l.reverse.takeWhile isSpace).reverse, ?_, ?_⟩
  · unfold trimRight
    rw [← List.reverse_append, List.takeWhile_append_dropWhile, List.reverse_reverse]
  · rw [List.all_reverse]; exact List.all_takeWhile

theorem trimRight_length_le (l : List Char) : (trimRight l).length ≤ l.length := by
  obtain ⟨r, h, _⟩ := trimRight_split l
  have := congrArg List.length h
  simp only [List.length_append] at this; omega

/-! ### Sorting and shrinking keep the (offset, length, span) of every entity -/

theorem insertEnt_perm (x : Ent) : ∀ l, (insertEnt x l).Perm (x :: l) := by
  intro l
  induction l with
  | nil => exact List.Perm.refl _
  | cons y t ih =>
    unfold insertEnt
    split
    · exact List.Perm.refl _
    · exact (List.Perm.cons y ih).trans (List.Perm.swap x y t)

theorem sortEnts_perm : ∀ l, (sortEnts l).Perm l := by
  intro l
  induction l with
  | nil => exact List.Perm.refl _
  | cons x t ih => unfold sortEnts; exact (insertEnt_perm x _).trans (List.Perm.cons x ih)

/-- Same range and same formatted piece (constructor/language may differ). -/
def SameSpan (a b : Ent) : Prop := a.off = b.off ∧ a.len = b.len ∧ a.cs = b.cs ∧ a.ce = b.ce

theorem sameSpan_refl (a : Ent) : SameSpan a a := ⟨rfl, rfl, rfl, rfl⟩

theorem resetLang_sameSpan (a : Ent) : SameSpan (resetLang a) a := by
  unfold resetLang; split <;> exact ⟨rfl, rfl, rfl, rfl⟩

theorem shrinkLoop_mem : ∀ (rest : List Ent) (p p0 : Ent) (kp : Bool), SameSpan p p0 →
    ∀ e ∈ shrinkLoop p kp rest, ∃ e' ∈ p0 :: rest, SameSpan e e' := by
  intro rest
  induction rest with
  | nil =>
    intro p p0 kp hp e he
    unfold shrinkLoop at he
    cases kp <;> simp at he
    subst he; exact ⟨p0, List.Mem.head _, hp⟩
  | cons c rest ih =>
    intro p p0 kp hp e he
    unfold shrinkLoop at he
    have tailCase : ∀ (c' : Ent) (k : Bool), SameSpan c' c → e ∈ shrinkLoop c' k rest →
        ∃ e' ∈ p0 :: c :: rest, SameSpan e e' := by
      intro c' k hc hin
      obtain ⟨e', hm, hs⟩ := ih c' c k hc e hin
      exact ⟨e', List.Mem.tail _ hm, hs⟩
    have headCase : ∀ (p' : Ent), SameSpan p' p → e ∈ (if kp = true then [p'] else []) →
        ∃ e' ∈ p0 :: c :: rest, SameSpan e e' := by
      intro p' hp' hin
      cases kp <;> simp at hin
      subst hin
      exact ⟨p0, List.Mem.head _, ⟨hp'.1.trans hp.1, hp'.2.1.trans hp.2.1, hp'.2.2.1.trans hp.2.2.1, hp'.2.2.2.trans hp.2.2.2⟩⟩
    split at he
    · rcases List.mem_append.mp he with h | h
      · exact headCase p (sameSpan_refl p) h
      · exact tailCase c true (sameSpan_refl c) h
    · split at he
      · rcases List.mem_append.mp he with h | h
        · exact headCase (resetLang p) (resetLang_sameSpan p) h
        · exact tailCase (resetLang c) true (resetLang_sameSpan c) h
      · rcases List.mem_append.mp he with h | h
        · exact headCase p (sameSpan_refl p) h
        · exact tailCase c _ (sameSpan_refl c) h

theorem shrinkPreCode_mem (l : List Ent) : ∀ e ∈ shrinkPreCode l, ∃ e' ∈ l, SameSpan e e' := by
  intro e he
  unfold shrinkPreCode at he
  split at he
  · cases he
  · rename_i x rest hrev
    obtain ⟨e', hm, hs⟩ := shrinkLoop_mem rest x x true (sameSpan_refl x) e he
    refine ⟨e', ?_, hs⟩
    have : e' ∈ l.reverse := by rw [hrev]; exact hm
    exact List.mem_reverse.mp this

/-! ### The builder invariant -/

/-- An entity is the UTF-16 image of its character span `[cs, ce)` of `text`. -/
def EntOK (text : List Char) (e : Ent) : Prop :=
  e.cs ≤ e.ce ∧ e.ce ≤ text.length ∧
  e.off = (u16len (text.take e.cs) : Int) ∧ e.off + e.len = (u16len (text.take e.ce) : Int)

def TokOK (text : List Char) (t : Tok) : Prop :=
  t.c ≤ text.length ∧ t.o16 = u16len (text.take t.c)

structure Inv (s : St) : Prop where
  u16 : s.u16 = u16len s.text
  ents : ∀ e ∈ s.ents, EntOK s.text e
  toks : ∀ t ∈ s.toks, TokOK s.text t
  /-- `lengths`' last element is meaningful whenever the message has entities (it may be stale —
  left over from the previous message — only while there are none; `fixEntities` then returns early). -/
  last : s.ents ≠ [] → ∀ cs ce, s.last = some (cs, ce) → cs ≤ ce ∧ ce ≤ s.text.length

theorem entOK_append {text : List Char} {e : Ent} (p : List Char) (h : EntOK text e) : EntOK (text ++ p) e := by
  obtain ⟨h1, h2, h3, h4⟩ := h
  refine ⟨h1, by simp only [List.length_append]; omega, ?_, ?_⟩
  · rw [List.take_append_of_le_length (by omega)]; exact h3
  · rw [List.take_append_of_le_length h2]; exact h4

theorem tokOK_append {text : List Char} {t : Tok} (p : List Char) (h : TokOK text t) : TokOK (text ++ p) t := by
  obtain ⟨h1, h2⟩ := h
  refine ⟨by simp only [List.length_append]; omega, ?_⟩
  rw [List.take_append_of_le_length h1]; exact h2

theorem entOK_sameSpan {text : List Char} {e e' : Ent} (hs : SameSpan e e') (h : EntOK text e') : EntOK text e := by
  obtain ⟨a, b, c, d⟩ := hs
  unfold EntOK at *
  rw [a, b, c, d]; exact h

theorem inv_init : Inv {} where
  u16 := rfl
  ents := fun _ h => by cases h
  toks := fun _ h => by cases h
  last := fun h => absurd rfl h

theorem inv_writeString {s : St} (p : List Char) (h : Inv s) : Inv (writeString s p) := by
  refine ⟨?_, ?_, ?_, ?_⟩
  · simp only [writeString, u16len_app, h.u16]
  · intro e he; exact entOK_append p (h.ents e he)
  · intro t ht; exact tokOK_append p (h.toks t ht)
  · intro hne cs ce hl
    have := h.last hne cs ce hl
    simp only [writeString, List.length_append]; omega

theorem inv_appendEntities {s : St} (h : Inv s) (off len : Int) (span : Nat × Nat) (fs : List Fmt)
    (hspan : span.1 ≤ span.2 ∧ span.2 ≤ s.text.length)
    (hoff : off = (u16len (s.text.take span.1) : Int))
    (hend : off + len = (u16len (s.text.take span.2) : Int)) :
    Inv (appendEntities s off len span fs) := by
  refine ⟨h.u16, ?_, h.toks, ?_⟩
  · intro e he
    simp only [appendEntities] at he
    rcases List.mem_append.mp he with he | he
    · exact h.ents e he
    · obtain ⟨f, _, rfl⟩ := List.mem_map.mp he
      exact ⟨hspan.1, hspan.2, hoff, hend⟩
  · intro hne cs ce hl
    simp only [appendEntities] at hl hne
    split at hl
    · rename_i hfs
      have : fs = [] := by simpa using hfs
      subst this
      simp only [List.map_nil, List.append_nil] at hne
      exact h.last hne cs ce hl
    · have : span = (cs, ce) := Option.some.inj hl
      rw [this] at hspan; exact hspan

/-- `appendMessage`: the entities are appended first (their span ends beyond the current text),
then the piece is written. -/
theorem inv_appendMessage {s : St} (h : Inv s) (p : List Char) (fs : List Fmt) :
    Inv (writeString (appendEntities s s.u16 (u16len p) (s.text.length, s.text.length + p.length) fs) p) := by
  refine ⟨?_, ?_, ?_, ?_⟩
  · simp only [writeString, appendEntities, u16len_app, h.u16]
  · intro e he
    simp only [writeString, appendEntities] at he ⊢
    rcases List.mem_append.mp he with he | he
    · exact entOK_append p (h.ents e he)
    · obtain ⟨f, _, rfl⟩ := List.mem_map.mp he
      refine ⟨by simp only; omega, by simp only [List.length_append]; omega, ?_, ?_⟩
      · simp only [List.take_left' rfl, h.u16]
      · simp only
        rw [List.take_of_length_le (by simp only [List.length_append]; omega), u16len_app, h.u16]
        omega
  · intro t ht; exact tokOK_append p (h.toks t ht)
  · intro hne cs ce hl
    simp only [writeString, appendEntities, List.length_append] at hl hne ⊢
    split at hl
    · rename_i hfs
      have : fs = [] := by simpa using hfs
      subst this
      simp only [List.map_nil, List.append_nil] at hne
      have := h.last hne cs ce hl; omega
    · have hh := Option.some.inj hl
      have h1 : s.text.length = cs := congrArg Prod.fst hh
      have h2 : s.text.length + p.length = ce := congrArg Prod.snd hh
      omega

theorem inv_step {s : St} (h : Inv s) (op : Op) : Inv (step s op) := by
  cases op with
  | plain p =>
    have h1 := inv_writeString p h
    exact ⟨h1.u16, h1.ents, h1.toks, h1.last⟩
  | write p => exact inv_writeString p h
  | writeRune r =>
    refine ⟨?_, ?_, ?_, ?_⟩
    · simp only [step, u16len_app, u16len, h.u16, runeLen_charOfRune]
      omega
    · intro e he; exact entOK_append _ (h.ents e he)
    · intro t ht; exact tokOK_append _ (h.toks t ht)
    · intro hne cs ce hl
      have := h.last hne cs ce hl
      simp only [step, List.length_append]; omega
  | reset =>
    exact { u16 := rfl, ents := (fun _ he => by cases he), toks := (fun _ ht => by cases ht),
            last := (fun hne => absurd rfl hne) }
  | format p fs =>
    simp only [step]
    split
    · exact h
    · exact inv_appendMessage h p fs
  | token =>
    refine ⟨h.u16, h.ents, ?_, h.last⟩
    intro t ht
    simp only [step] at ht
    rcases List.mem_append.mp ht with ht | ht
    · exact h.toks t ht
    · have : t = { c := s.text.length, o16 := s.u16 } := by simpa using ht
      subst this
      exact ⟨Nat.le_refl _, by simp only [step, List.take_length, h.u16]⟩
  | apply k fs =>
    simp only [step]
    split
    · exact h
    · rename_i t ht
      have htok := h.toks t (List.mem_of_getElem? ht)
      apply inv_appendEntities h
      · exact ⟨htok.1, Nat.le_refl _⟩
      · simp only [htok.2]
      · simp only [List.take_length, h.u16]; omega
  | shrink =>
    refine ⟨h.u16, ?_, h.toks, ?_⟩
    · intro e he
      obtain ⟨e', hm, hs⟩ := shrinkPreCode_mem s.ents e he
      exact entOK_sameSpan hs (h.ents e' hm)
    · intro hne
      apply h.last
      intro hnil
      apply hne
      simp only [step, hnil, shrinkPreCode, List.reverse_nil]

theorem inv_foldl (ops : List Op) : ∀ s, Inv s → Inv (ops.foldl step s) := by
  induction ops with
  | nil => intro s h; exact h
  | cons op t ih => intro s h; exact ih _ (inv_step h op)

theorem inv_run (ops : List Op) : Inv (run ops) := inv_foldl ops {} inv_init

/-! ### Consequences for one entity -/

theorem entOK_bounds {text : List Char} {e : Ent} (h : EntOK text e) :
    0 ≤ e.off ∧ 0 ≤ e.len ∧ e.off + e.len ≤ (u16len text : Int) := by
  obtain ⟨h1, h2, h3, h4⟩ := h
  have m1 := u16len_take_mono text h1
  have m2 := u16len_take_le text e.ce
  omega

/-- The translated loop body of `clampEntities` computes: offset cut to `total`, then length cut so
that the (cut) offset plus length does not exceed `total`. Proved semantically (any arrangement of
the statements that computes the same function passes; one that does not, e.g. clamping the length
with the unclamped offset, fails here). -/
theorem clamp_eq (total : Int) (e : Ent) :
    (clamp total e).off = (if e.off > total then total else e.off) ∧
    (clamp total e).len =
      (if (if e.off > total then total else e.off) + e.len > total
       then total - (if e.off > total then total else e.off) else e.len) ∧
    (clamp total e).kind = e.kind ∧ (clamp total e).lang = e.lang ∧
    (clamp total e).cs = e.cs ∧ (clamp total e).ce = e.ce := by
  refine ⟨?_, ?_, rfl, rfl, rfl, rfl⟩
  · simp only [clamp, Facts.C35.clampOff, decide_eq_true_eq]
    repeat' split
    all_goals omega
  · simp only [clamp, Facts.C35.clampLen, decide_eq_true_eq]
    repeat' split
    all_goals omega

/-- Clamping to the first `n` characters: the entity becomes the image of its span cut at `n`. -/
theorem clamp_ok {text : List Char} {e : Ent} (h : EntOK text e) (n : Nat) :
    let e' := clamp (u16len (text.take n)) e
    e'.off = (u16len ((text.take n).take (min e.cs n)) : Int) ∧
    e'.off + e'.len = (u16len ((text.take n).take (min e.ce n)) : Int) ∧
    0 ≤ e'.off ∧ 0 ≤ e'.len ∧ e'.off + e'.len ≤ (u16len (text.take n) : Int) := by
  obtain ⟨h1, h2, h3, h4⟩ := h
  have tk : ∀ k, (text.take n).take (min k n) = text.take (min k n) := by
    intro k; rw [List.take_take]; congr 1; omega
  rw [tk, tk]
  have mcs : u16len (text.take (min e.cs n)) ≤ u16len (text.take n) := u16len_take_mono text (by omega)
  have mce : u16len (text.take (min e.ce n)) ≤ u16len (text.take n) := u16len_take_mono text (by omega)
  have mse : u16len (text.take (min e.cs n)) ≤ u16len (text.take (min e.ce n)) := u16len_take_mono text (by omega)
  have m0 : u16len (text.take e.cs) ≤ u16len (text.take e.ce) := u16len_take_mono text h1
  obtain ⟨ho, hl, _⟩ := clamp_eq (u16len (text.take n)) e
  dsimp only
  rw [ho, hl]
  by_cases c1 : e.cs ≤ n
  · have e1 : min e.cs n = e.cs := by omega
    rw [e1] at mcs mse ⊢
    by_cases c2 : e.ce ≤ n
    · have e2 : min e.ce n = e.ce := by omega
      rw [e2] at mce mse ⊢
      split <;> split <;> omega
    · have e2 : min e.ce n = n := by omega
      have ge : u16len (text.take n) ≤ u16len (text.take e.ce) := u16len_take_mono text (by omega)
      rw [e2] at mce mse ⊢
      split <;> split <;> omega
  · have e1 : min e.cs n = n := by omega
    have e2 : min e.ce n = n := by omega
    have ge1 : u16len (text.take n) ≤ u16len (text.take e.cs) := u16len_take_mono text (by omega)
    rw [e1, e2]
    split <;> split <;> omega

theorem ent_ext (a b : Ent) (h1 : a.off = b.off) (h2 : a.len = b.len) (h3 : a.kind = b.kind)
    (h4 : a.lang = b.lang) (h5 : a.cs = b.cs) (h6 : a.ce = b.ce) : a = b := by
  cases a; cases b
  simp only [Ent.mk.injEq]
  exact ⟨h1, h2, h3, h4, h5, h6⟩

theorem clamp_id {text : List Char} {e : Ent} (h : EntOK text e) : clamp (u16len text) e = e := by
  have b := entOK_bounds h
  obtain ⟨ho, hl, hk, hg, hcs, hce⟩ := clamp_eq (u16len text) e
  have c1 : ¬ e.off > (u16len text : Int) := by omega
  simp only [c1, if_false] at ho hl
  have c2 : ¬ e.off + e.len > (u16len text : Int) := by omega
  simp only [c2, if_false] at hl
  exact ent_ext _ _ ho hl hk hg hcs hce

/-- What the repaired `fixEntities` computes: the text cut at some `n` (only white space is cut),
and every entity clamped to the cut text. -/
theorem fixEntities_spec (s : St) (h : Inv s) :
    ∃ n, n ≤ s.text.length ∧ (fixEntities s).1 = s.text.take n ∧ (s.text.drop n).all isSpace = true ∧
      (fixEntities s).2 = s.ents.map (clamp (u16len (s.text.take n))) := by
  have noTrim : ∃ n, n ≤ s.text.length ∧ s.text = s.text.take n ∧ (s.text.drop n).all isSpace = true ∧
      s.ents = s.ents.map (clamp (u16len (s.text.take n))) := by
    refine ⟨s.text.length, Nat.le_refl _, List.take_length.symm, by simp, ?_⟩
    rw [List.take_length]
    have : ∀ e ∈ s.ents, clamp (u16len s.text) e = id e := fun e he => clamp_id (h.ents e he)
    rw [List.map_congr_left this, List.map_id]
  unfold fixEntities
  split
  · exact noTrim
  · rename_i cs ce hl
    split
    · exact noTrim
    · rename_i hlfi
      have hne : (s.ents ≠ []) := by
        intro hnil
        apply hlfi
        rw [hnil]
        exact Nat.zero_le _
      have hlast := h.last hne cs ce hl
      dsimp only
      split
      · obtain ⟨r, hr, hsp⟩ := trimRight_split (s.text.drop cs)
        have hlen := trimRight_length_le (s.text.drop cs)
        simp only [List.length_drop] at hlen
        refine ⟨cs + (trimRight (s.text.drop cs)).length, by omega, rfl, ?_, rfl⟩
        have : s.text.drop (cs + (trimRight (s.text.drop cs)).length) = r := by
          rw [← List.drop_drop, hr]
          have hr' : trimRight (List.drop cs s.text) = trimRight (trimRight (List.drop cs s.text) ++ r) := by rw [← hr]
          rw [← hr']
          exact List.drop_left' rfl
        rw [this]; exact hsp
      · exact noTrim

/-- `Complete` on ANY state satisfying the invariant returns entities inside the returned text. -/
theorem complete_within_of_inv (s : St) (hinv : Inv s) :
    ∀ e ∈ (complete s).2, 0 ≤ e.off ∧ 0 ≤ e.len ∧ e.off + e.len ≤ (u16len (complete s).1 : Int) := by
  intro e he
  obtain ⟨n, _, htext, _, hents⟩ := fixEntities_spec s hinv
  have he' : e ∈ (fixEntities s).2 := (sortEnts_perm _).mem_iff.mp he
  rw [hents] at he'
  obtain ⟨e0, h0, rfl⟩ := List.mem_map.mp he'
  have := clamp_ok (hinv.ents e0 h0) n
  simp only [complete, htext]
  exact this.2.2

end TdModel.C35
