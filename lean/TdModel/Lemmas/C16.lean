/-
C16 — round trip of every transport codec on the repaired tree (`Cfg.spec`): reading the bytes
written for a payload, followed by anything, yields the payload and leaves exactly what followed.
Core Lean only.
-/
import TdModel.Lemmas.C16C17

namespace TdModel.Codec
open TdModel TdModel.Bin

/-! ### Evaluation of the reader combinators on inputs that pass their checks -/

theorem readN_append (x rest : Bytes) (n : Nat) (k : Bytes → Bytes → Res) (h : x.length = n) :
    Res.readN n (x ++ rest) k = k x rest := by
  unfold Res.readN
  have : ¬ (x ++ rest).length < n := by simp [h]
  simp only [this, if_false, take_append_len _ _ n h, drop_append_len _ _ n h]

theorem make_nat (n : Nat) (k : Nat → Res) : Res.make (n : Int) k = k n := by
  unfold Res.make; simp

theorem make_int {n : Int} (k : Nat → Res) (h : 0 ≤ n) : Res.make n k = k n.toNat := by
  unfold Res.make; simp [h]

theorem sliceLen_ok (blen : Nat) (i j : Int) (k : Nat → Res) (h : 0 ≤ i ∧ i ≤ j ∧ j ≤ blen) :
    Res.sliceLen blen i j k = k (j.toNat - i.toNat) := by
  unfold Res.sliceLen; simp only [h, and_self, if_true]

theorem slice_ok (b : Bytes) (i j : Int) (k : Bytes → Res) (h : 0 ≤ i ∧ i ≤ j ∧ j ≤ b.length) :
    Res.slice b i j k = k ((b.drop i.toNat).take (j.toNat - i.toNat)) := by
  unfold Res.slice; simp only [h, and_self, if_true]

@[simp] theorem alloc_out (n : Nat) (r : Res) : (Res.alloc n r).out = r.out := rfl
@[simp] theorem ok_out (f r : Bytes) : (Res.ok f r).out = .ok f r := rfl
@[simp] theorem err_out (e : RErr) : (Res.err e).out = .err e := rfl

theorem readLen_put (envelope n : Nat) (rest : Bytes) (k : Nat → Bytes → Res)
    (h0 : 0 < n) (hl : n ≤ 16777216 + envelope) (h32 : n < 2 ^ 32) :
    readLen Cfg.spec envelope (putU32 n ++ rest) k = Res.alloc 4 (k n rest) := by
  unfold readLen
  rw [readN_append _ _ 4 _ (putU32_length n)]
  have : fromLE (putU32 n) = n := fromLE_leN 4 n (by simpa using h32)
  simp only [this]
  have hc : Cfg.spec.lenRejects n envelope = false := by simp [Cfg.spec]; omega
  simp only [hc, Bool.false_eq_true, if_false]

theorem checkProto_ok (a : List Nat) (p rest : Bytes) (h : p.length ≠ 4) :
    checkProto Cfg.spec ⟨a, .ok p rest⟩ = ⟨a, .ok p rest⟩ := by
  simp [checkProto, Cfg.spec, h]

theorem checkProto_out_ok (r : Res) (p rest : Bytes) (h : p.length ≠ 4) (hr : r.out = .ok p rest) :
    (checkProto Cfg.spec r).out = .ok p rest := by
  cases r with
  | mk a o =>
    simp only at hr; subst hr
    rw [checkProto_ok a p rest h]

theorem checkProto_out_code (r : Res) (p rest : Bytes) (h : p.length = 4) (hr : r.out = .ok p rest) :
    (checkProto Cfg.spec r).out = .err (.proto (negInt32 (fromLE p))) := by
  cases r with
  | mk a o =>
    simp only at hr; subst hr
    simp [checkProto, Cfg.spec, h]

/-! ### Per-protocol round trip of the unexported readers -/

theorem readIntermediate_enc (p rest : Bytes) (h0 : 0 < p.length) (hmax : p.length ≤ 16777216) :
    (readIntermediate Cfg.spec false (putU32 p.length ++ p ++ rest)).out = .ok p rest := by
  unfold readIntermediate
  rw [List.append_assoc, readLen_put _ _ _ _ h0 (by simp; omega) (by omega)]
  simp only [alloc_out, make_nat]
  rw [readN_append p rest _ _ rfl]
  simp

theorem take_len_append (p x : Bytes) : (p ++ x).take p.length = p := by simp

theorem readPadded_enc (p pad rest : Bytes) (h0 : 0 < p.length) (hmax : p.length ≤ 16777216)
    (h4 : p.length % 4 = 0) (hpad : pad.length ≤ 3) :
    (readPadded Cfg.spec (putU32 (p.length + pad.length) ++ p ++ pad ++ rest)).out = .ok p rest := by
  have hri : readIntermediate Cfg.spec true (putU32 (p.length + pad.length) ++ p ++ pad ++ rest)
      = Res.alloc 4 (Res.alloc (p.length + pad.length) (Res.ok p rest)) := by
    unfold readIntermediate
    rw [List.append_assoc, List.append_assoc,
      readLen_put _ _ _ _ (by omega) (by simp [Cfg.spec]; omega) (by omega)]
    simp only [make_nat]
    rw [← List.append_assoc, readN_append (p ++ pad) rest _ _ (by simp)]
    simp only [if_true, spec_padStrip]
    rw [slice_ok _ _ _ _ (by simp; omega)]
    have hk : ((↑(p.length + pad.length) : Int) - ↑((p.length + pad.length) % 4)).toNat - (0 : Int).toNat
        = p.length := by omega
    rw [hk]
    simp
  unfold readPadded
  rw [hri]
  simp only [Res.alloc, Res.ok, spec_padStrip]
  rw [slice_ok _ _ _ _ (by omega)]
  have hk : ((p.length : Int) - (p.length : Int) % 4).toNat = p.length := by omega
  simp [hk]

theorem fromLE_single (b : UInt8) : fromLE [b] = b.toNat := by simp [fromLE]

theorem readAbridged_enc (p rest : Bytes) (hmax : p.length ≤ 16777216) (h4 : p.length % 4 = 0) :
    (readAbridged Cfg.spec (abridgedHead Cfg.spec p.length ++ p ++ rest)).out = .ok p rest := by
  have hcont : ∀ s2 : Bytes, s2 = p ++ rest →
      (if Cfg.spec.abrRejects (p.length / 4) = true then Res.err (.badLen (Cfg.spec.abrBytes (p.length / 4)).toNat)
        else Res.make (Cfg.spec.abrBytes (p.length / 4)) fun m => Res.alloc m <| Res.readN m s2
          fun payload s3 => Res.ok payload s3).out = .ok p rest := by
    intro s2 hs2
    have hg : Cfg.spec.abrRejects (p.length / 4) = false := by simp [spec_abrRejects]; omega
    simp only [hg, Bool.false_eq_true, if_false, spec_abrBytes]
    have hi : ((p.length / 4 : Nat) : Int) * 4 = ((p.length : Nat) : Int) := by omega
    rw [hi, make_nat, hs2, alloc_out, readN_append p rest _ _ rfl]
    rfl
  have hidx : ∀ r : Res, Res.index 4 0 r = r := fun r => by simp [Res.index]
  unfold readAbridged abridgedHead
  simp only [spec_abrWords, spec_abrShort, spec_abrMark, spec_abrLong, hidx]
  by_cases hs : p.length / 4 < 127
  · simp only [hs, decide_true, if_true, alloc_out]
    rw [List.append_assoc, readN_append [UInt8.ofNat (p.length / 4)] (p ++ rest) 1 _ rfl]
    have hb : fromLE [UInt8.ofNat (p.length / 4)] = p.length / 4 := by
      rw [fromLE_single]; simp [UInt8.toNat_ofNat']; omega
    simp only [hb]
    have hlt : ¬ (p.length / 4 ≥ 127) := by omega
    simp only [hlt, decide_false, Bool.false_eq_true, if_false]
    exact hcont _ rfl
  · simp only [hs, decide_false, Bool.false_eq_true, if_false, alloc_out]
    rw [List.append_assoc]
    show (Res.readN 1 ([UInt8.ofNat 127] ++ (leN 3 (p.length / 4) ++ (p ++ rest))) _).out = _
    rw [readN_append [UInt8.ofNat 127] _ 1 _ rfl]
    have hb : fromLE [UInt8.ofNat 127] = 127 := by decide
    simp only [hb]
    have hge : (127 ≥ 127) := by decide
    simp only [hge, decide_true, if_true]
    rw [readN_append (leN 3 (p.length / 4)) (p ++ rest) 3 _ (leN_length _ _)]
    rw [fromLE_leN 3 (p.length / 4) (by omega)]
    exact hcont _ rfl

theorem readFull_enc (crc : Bytes → Nat) (seq : Int) (p rest : Bytes)
    (hmax : p.length ≤ 16777216) (hcrc : ∀ x, crc x < 2 ^ 32) (hseq : -2 ^ 31 ≤ seq ∧ seq < 2 ^ 31) :
    (readFull Cfg.spec crc seq
      (putU32 (p.length + 12) ++ putU32 (ofInt32 seq) ++ p
        ++ putU32 (crc (putU32 (p.length + 12) ++ putU32 (ofInt32 seq) ++ p)) ++ rest)).out = .ok p rest := by
  generalize hc : crc (putU32 (p.length + 12) ++ putU32 (ofInt32 seq) ++ p) = c
  have hc32 : c < 2 ^ 32 := by rw [← hc]; exact hcrc _
  unfold readFull
  simp only [spec_fullEnvelope, spec_fullRejects, spec_fullExpand, spec_fullInnerLo, spec_fullInnerHi,
    spec_fullPayload, spec_fullCrcLo, spec_fullCrcHi, spec_fullCopyLo, spec_fullCopyHi]
  rw [show putU32 (p.length + 12) ++ putU32 (ofInt32 seq) ++ p ++ putU32 c ++ rest
        = putU32 (p.length + 12) ++ ((putU32 (ofInt32 seq) ++ p ++ putU32 c) ++ rest) by simp,
    readLen_put _ _ _ _ (by omega) (by omega) (by omega)]
  have hg : ¬ (p.length + 12 < 12) := by omega
  simp only [hg, decide_false, Bool.false_eq_true, if_false, alloc_out]
  rw [make_int _ (by omega)]
  have he : ((↑(p.length + 12) : Int) - 4).toNat = p.length + 8 := by omega
  simp only [he, alloc_out]
  rw [sliceLen_ok _ _ _ _ (by omega)]
  have hil : (putU32 (ofInt32 seq) ++ p ++ putU32 c).length = p.length + 8 := by
    simp [putU32_length]; omega
  have hvl : (↑(p.length + 12) : Int).toNat - (4 : Int).toNat = p.length + 8 := by omega
  rw [hvl, readN_append _ rest _ _ hil]
  simp only [hil]
  -- the buffer after PutInt and Expand
  generalize hb0 : leN 4 (p.length + 12) ++ leN 4 (p.length + 12) ++ zeros (p.length + 8) = buf0
  have hb0l : buf0.length = p.length + 16 := by rw [← hb0]; simp only [List.length_append, leN_length, zeros_length]; omega
  have hb0t : buf0.take 4 = putU32 (p.length + 12) := by
    rw [← hb0, List.append_assoc]; exact take_append_len _ _ 4 (leN_length _ _)
  have h1 : ¬ (p.length + 8 < 4) := by omega
  simp only [h1, if_false]
  have htake : (putU32 (ofInt32 seq) ++ p ++ putU32 c).take 4 = putU32 (ofInt32 seq) := by
    rw [List.append_assoc]; exact take_append_len _ _ 4 (putU32_length _)
  have hdrop : (putU32 (ofInt32 seq) ++ p ++ putU32 c).drop 4 = p ++ putU32 c := by
    rw [List.append_assoc]; exact drop_append_len _ _ 4 (putU32_length _)
  rw [htake, hdrop]
  have hseq' : toInt32 (fromLE (putU32 (ofInt32 seq))) = seq := by
    rw [show fromLE (putU32 (ofInt32 seq)) = ofInt32 seq from fromLE_leN 4 _ (by simpa using ofInt32_lt seq)]
    exact toInt32_ofInt32 seq hseq
  simp only [hseq', ne_eq, not_true_eq_false, if_false]
  rw [slice_ok _ _ _ _ (by simp [putU32_length]; omega)]
  have htail : List.take ((↑(p ++ putU32 c).length : Int).toNat - ((↑(p.length + 12) : Int) - 12).toNat)
      (List.drop ((↑(p.length + 12) : Int) - 12).toNat (p ++ putU32 c)) = putU32 c := by
    have e1 : ((↑(p.length + 12) : Int) - 12).toNat = p.length := by omega
    rw [e1, drop_append_len _ _ _ rfl]
    apply List.take_of_length_le
    simp [putU32_length]; omega
  rw [htail]
  have h2 : ¬ ((putU32 c).length < 4) := by simp [putU32_length]
  simp only [h2, if_false]
  -- the buffer with the frame read into b.Buf[4:n]
  generalize hz : List.drop (↑(p.length + 12) : Int).toNat buf0 = Z
  have hzl : Z.length = 4 := by rw [← hz]; simp only [List.length_drop, hb0l]; omega
  have h4 : (4 : Int).toNat = 4 := rfl
  rw [h4, hb0t]
  have hbuf : putU32 (p.length + 12) ++ (putU32 (ofInt32 seq) ++ p ++ putU32 c) ++ Z
      = (putU32 (p.length + 12) ++ putU32 (ofInt32 seq) ++ p) ++ (putU32 c ++ Z) := by simp
  have hbl : (putU32 (p.length + 12) ++ putU32 (ofInt32 seq) ++ p).length = p.length + 8 := by
    simp [putU32_length]; omega
  rw [hbuf, slice_ok _ _ _ _ (by simp [putU32_length, hzl]; omega)]
  have hcin : List.take (((↑(p.length + 12) : Int) - 4).toNat - (0 : Int).toNat)
      (List.drop (0 : Int).toNat (putU32 (p.length + 12) ++ putU32 (ofInt32 seq) ++ p ++ (putU32 c ++ Z)))
      = putU32 (p.length + 12) ++ putU32 (ofInt32 seq) ++ p := by
    have e1 : ((↑(p.length + 12) : Int) - 4).toNat - (0 : Int).toNat = p.length + 8 := by omega
    rw [e1]
    show List.take (p.length + 8) (List.drop 0 _) = _
    rw [List.drop_zero]
    exact take_append_len _ _ _ hbl
  rw [hcin, hc]
  have hfc : fromLE (List.take 4 (putU32 c)) = c := by
    have : List.take 4 (putU32 c) = putU32 c := by
      rw [List.take_of_length_le]; simp [putU32_length]
    rw [this]; exact fromLE_leN 4 c (by simpa using hc32)
  simp only [hfc, not_true_eq_false, if_false]
  rw [slice_ok _ _ _ _ (by simp [putU32_length, hzl]; omega)]
  have hpay : List.take (((↑(p.length + 12) : Int) - 4).toNat - (8 : Int).toNat)
      (List.drop (8 : Int).toNat (putU32 (p.length + 12) ++ putU32 (ofInt32 seq) ++ p ++ (putU32 c ++ Z)))
      = p := by
    have e1 : ((↑(p.length + 12) : Int) - 4).toNat - (8 : Int).toNat = p.length := by omega
    rw [e1]
    show List.take p.length (List.drop 8 _) = p
    rw [show putU32 (p.length + 12) ++ putU32 (ofInt32 seq) ++ p ++ (putU32 c ++ Z)
          = (putU32 (p.length + 12) ++ putU32 (ofInt32 seq)) ++ (p ++ (putU32 c ++ Z)) by simp,
      drop_append_len _ _ 8 (by simp [putU32_length])]
    simp
  rw [hpay, slice_ok _ _ _ _ (by omega)]
  have e2 : ((↑(p.length + 12) : Int) - 12).toNat - (0 : Int).toNat = p.length := by omega
  rw [e2]
  simp

/-! ### All protocols -/

theorem padLenB_le (b : UInt8) : padLenB Cfg.spec b ≤ 3 := by unfold padLenB; rw [spec_padOf]; omega

/-- The unexported reader of each protocol inverts the writer, whatever follows on the stream. -/
theorem readRaw_encRaw (crc : Bytes → Nat) (k : Kind) (seq : Int) (rnd p rest : Bytes)
    (h0 : 0 < p.length) (hmax : p.length ≤ 16777216) (h4 : k ≠ .full → p.length % 4 = 0)
    (hcrc : ∀ x, crc x < 2 ^ 32) (hseq : -2 ^ 31 ≤ seq ∧ seq < 2 ^ 31) (hrnd : 3 ≤ rnd.length) :
    (readRaw Cfg.spec crc k seq (encRaw Cfg.spec crc k seq rnd p ++ rest)).out = .ok p rest := by
  cases k with
  | abridged =>
    simp only [readRaw, encRaw, encHead, encTail, List.append_nil]
    exact readAbridged_enc p rest hmax (h4 (by decide))
  | intermediate =>
    simp only [readRaw, encRaw, encHead, encTail, List.append_nil]
    exact readIntermediate_enc p rest h0 hmax
  | padded =>
    simp only [readRaw, encRaw, encHead, encTail]
    have hl : (rnd.take (padLenB Cfg.spec (lastByte p))).length = padLenB Cfg.spec (lastByte p) := by
      have := padLenB_le (lastByte p)
      simp only [List.length_take]; omega
    have := readPadded_enc p (rnd.take (padLenB Cfg.spec (lastByte p))) rest h0 hmax (h4 (by decide))
      (by rw [hl]; exact padLenB_le _)
    rw [hl] at this
    exact this
  | full =>
    simp only [readRaw, encRaw, encHead, encTail, spec_fullWire]
    exact readFull_enc crc seq p rest hmax hcrc hseq

/-- `Codec.Read ∘ Codec.Write` on one frame that is not four bytes long. -/
theorem read_encRaw (crc : Bytes → Nat) (k : Kind) (seq : Int) (rnd p rest : Bytes)
    (h0 : 0 < p.length) (hmax : p.length ≤ 16777216) (h4 : k ≠ .full → p.length % 4 = 0)
    (hne : p.length ≠ 4)
    (hcrc : ∀ x, crc x < 2 ^ 32) (hseq : -2 ^ 31 ≤ seq ∧ seq < 2 ^ 31) (hrnd : 3 ≤ rnd.length) :
    (read Cfg.spec crc k seq (encRaw Cfg.spec crc k seq rnd p ++ rest)).out = .ok p rest := by
  unfold read
  exact checkProto_out_ok _ p rest hne (readRaw_encRaw crc k seq rnd p rest h0 hmax h4 hcrc hseq hrnd)

/-- A four-byte frame is reported as a transport error code. -/
theorem read_encRaw_code (crc : Bytes → Nat) (k : Kind) (seq : Int) (rnd p rest : Bytes)
    (h : p.length = 4)
    (hcrc : ∀ x, crc x < 2 ^ 32) (hseq : -2 ^ 31 ≤ seq ∧ seq < 2 ^ 31) (hrnd : 3 ≤ rnd.length) :
    (read Cfg.spec crc k seq (encRaw Cfg.spec crc k seq rnd p ++ rest)).out
      = .err (.proto (negInt32 (fromLE p))) := by
  unfold read
  exact checkProto_out_code _ p rest h
    (readRaw_encRaw crc k seq rnd p rest (by omega) (by omega) (by intro _; omega) hcrc hseq hrnd)

theorem encRaw_ne_nil (cfg : Cfg) (crc : Bytes → Nat) (k : Kind) (seq : Int) (rnd p : Bytes)
    (h0 : 0 < p.length) : encRaw cfg crc k seq rnd p ≠ [] := by
  intro h
  have := congrArg List.length h
  simp only [encRaw, List.length_append, List.length_nil] at this
  omega

/-- A whole stream: `decAll` returns the payloads in order and consumes everything. -/
theorem decAll_encAll (crc : Bytes → Nat) (k : Kind) (hcrc : ∀ x, crc x < 2 ^ 32) :
    ∀ (ps : List Bytes) (seq : Int) (rnd : Nat → Bytes) (fuel : Nat),
      (∀ p ∈ ps, 0 < p.length ∧ p.length ≤ 16777216 ∧ (k ≠ .full → p.length % 4 = 0) ∧ p.length ≠ 4) →
      (∀ i, 3 ≤ (rnd i).length) → -2 ^ 31 ≤ seq → seq + ps.length ≤ 2 ^ 31 → ps.length < fuel →
      decAll Cfg.spec crc k fuel seq (encAll Cfg.spec crc k seq rnd ps) = (ps.map .frame, none) := by
  intro ps
  induction ps with
  | nil =>
    intro seq rnd fuel _ _ _ _ hf
    cases fuel with
    | zero => omega
    | succ f => simp [decAll, encAll]
  | cons p ps ih =>
    intro seq rnd fuel hv hr hlo hhi hf
    cases fuel with
    | zero => omega
    | succ f =>
      have hp := hv p (List.mem_cons_self ..)
      simp only [List.length_cons] at hhi hf
      have hne : encRaw Cfg.spec crc k seq (rnd 0) p ++ encAll Cfg.spec crc k (seq + 1) (fun i => rnd (i + 1)) ps ≠ [] := by
        intro h
        exact encRaw_ne_nil _ _ _ _ _ _ hp.1 (List.append_eq_nil_iff.mp h).1
      have hread := read_encRaw crc k seq (rnd 0) p
        (encAll Cfg.spec crc k (seq + 1) (fun i => rnd (i + 1)) ps) hp.1 hp.2.1 hp.2.2.1 hp.2.2.2 hcrc
        ⟨hlo, by omega⟩ (hr 0)
      have hrest := ih (seq + 1) (fun i => rnd (i + 1)) f
        (fun q hq => hv q (List.mem_cons_of_mem _ hq)) (fun i => hr (i + 1)) (by omega) (by omega) (by omega)
      simp only [decAll, encAll, hne, if_false, hread, hrest, List.map_cons]

theorem encAll_length_ge (cfg : Cfg) (crc : Bytes → Nat) (k : Kind) :
    ∀ (ps : List Bytes) (seq : Int) (rnd : Nat → Bytes), (∀ p ∈ ps, 0 < p.length) →
      ps.length ≤ (encAll cfg crc k seq rnd ps).length := by
  intro ps
  induction ps with
  | nil => intro _ _ _; simp [encAll]
  | cons p ps ih =>
    intro seq rnd hv
    have h1 := ih (seq + 1) (fun i => rnd (i + 1)) (fun q hq => hv q (List.mem_cons_of_mem _ hq))
    have h2 := hv p (List.mem_cons_self ..)
    simp only [encAll, encRaw, List.length_append, List.length_cons]
    omega

/-- `encAll` uses `rnd i` only for `i` below the number of payloads. -/
theorem encAll_rnd_congr (cfg : Cfg) (crc : Bytes → Nat) (k : Kind) : ∀ (ps : List Bytes) (seq : Int) (r1 r2 : Nat → Bytes),
    (∀ i, i < ps.length → r1 i = r2 i) → encAll cfg crc k seq r1 ps = encAll cfg crc k seq r2 ps := by
  intro ps
  induction ps with
  | nil => intro _ _ _ _; rfl
  | cons p ps ih =>
    intro seq r1 r2 h
    simp only [encAll]
    rw [h 0 (by simp), ih (seq + 1) (fun i => r1 (i + 1)) (fun i => r2 (i + 1))
      (fun i hi => h (i + 1) (by simp only [List.length_cons]; omega))]

/-! ### Writer state: a rejected write changes nothing -/

theorem enc_of_accepts (cfg : Cfg) (crc : Bytes → Nat) (k : Kind) (seq : Int) (rnd p : Bytes)
    (h : accepts cfg k p = true) : enc cfg crc k seq rnd p = .ok (encRaw cfg crc k seq rnd p) := by
  unfold accepts at h
  unfold enc
  cases k <;> simp_all

theorem enc_of_not_accepts (cfg : Cfg) (crc : Bytes → Nat) (k : Kind) (seq : Int) (rnd p : Bytes)
    (h : accepts cfg k p = false) : ∃ e, enc cfg crc k seq rnd p = .error e := by
  unfold accepts at h
  unfold enc
  by_cases h1 : cfg.outRejects p.length = true
  · exact ⟨.badLen p.length, by simp [h1]⟩
  · have h1' : cfg.outRejects p.length = false := by simpa using h1
    simp only [h1', Bool.not_false, Bool.true_and, Bool.not_eq_eq_eq_not, Bool.not_false, Bool.and_eq_true,
      bne_iff_ne, ne_eq, decide_eq_true_eq] at h
    refine ⟨.notAligned, ?_⟩
    simp only [h1', Bool.false_eq_true, if_false]
    have : k ≠ Kind.full ∧ cfg.misaligned p.length = true := by
      cases k <;> simp_all
    simp [this]

theorem writeOp_rejected (crc : Bytes → Nat) (k : Kind) (s : Int) (rnd p : Bytes)
    (h : accepts Cfg.spec k p = false) :
    (writeOp Cfg.spec crc k s rnd p).2 = s ∧ sessionWire [(writeOp Cfg.spec crc k s rnd p).1] = [] := by
  obtain ⟨e, he⟩ := enc_of_not_accepts Cfg.spec crc k s rnd p h
  unfold writeOp
  rw [he]
  simp only [spec_fullSeqAfterCheck, if_true, sessionWire, and_self]

theorem writeOp_accepted (cfg : Cfg) (crc : Bytes → Nat) (k : Kind) (s : Int) (rnd p : Bytes)
    (h : accepts cfg k p = true) :
    writeOp cfg crc k s rnd p = (.ok (encRaw cfg crc k s rnd p), s + 1) := by
  simp [writeOp, enc_of_accepts cfg crc k s rnd p h]

/-- The wire of a session is the wire of its accepted writes alone, numbered consecutively: the
rejected ones leave no trace, neither on the wire nor in the counter. -/
theorem session_filter (crc : Bytes → Nat) (k : Kind) : ∀ (ops : List (Bytes × Bytes)) (s : Int),
    sessionWire (writeSession Cfg.spec crc k s ops).1
        = sessionWire (writeSession Cfg.spec crc k s (ops.filter fun o => accepts Cfg.spec k o.2)).1
      ∧ (writeSession Cfg.spec crc k s ops).2
        = (writeSession Cfg.spec crc k s (ops.filter fun o => accepts Cfg.spec k o.2)).2 := by
  intro ops
  induction ops with
  | nil => intro s; exact ⟨rfl, rfl⟩
  | cons o ops ih =>
    intro s
    obtain ⟨rnd, p⟩ := o
    by_cases ha : accepts Cfg.spec k p = true
    · have hw := writeOp_accepted Cfg.spec crc k s rnd p ha
      simp only [List.filter_cons, ha, if_true, writeSession, hw, sessionWire]
      exact ⟨by rw [(ih (s + 1)).1], (ih (s + 1)).2⟩
    · have ha' : accepts Cfg.spec k p = false := by simpa using ha
      obtain ⟨e, he⟩ := enc_of_not_accepts Cfg.spec crc k s rnd p ha'
      have hw : writeOp Cfg.spec crc k s rnd p = (.error e, s) := by
        unfold writeOp; rw [he]; simp only [spec_fullSeqAfterCheck, if_true]
      simp only [List.filter_cons, ha', Bool.false_eq_true, if_false, writeSession, hw, sessionWire]
      exact ih s

/-- A session of accepted writes only: its wire is `encAll` of the payloads. -/
theorem session_all_accepted (crc : Bytes → Nat) (k : Kind) : ∀ (ops : List (Bytes × Bytes)) (s : Int),
    (∀ o ∈ ops, accepts Cfg.spec k o.2 = true) →
    sessionWire (writeSession Cfg.spec crc k s ops).1
        = encAll Cfg.spec crc k s (fun i => (ops.getD i ([], [])).1) (ops.map (·.2))
      ∧ (writeSession Cfg.spec crc k s ops).2 = s + ops.length := by
  intro ops
  induction ops with
  | nil => intro s _; simp [writeSession, sessionWire, encAll]
  | cons o ops ih =>
    intro s h
    obtain ⟨rnd, p⟩ := o
    have ha := h (rnd, p) (List.mem_cons_self ..)
    have hw := writeOp_accepted Cfg.spec crc k s rnd p ha
    have := ih (s + 1) (fun o ho => h o (List.mem_cons_of_mem _ ho))
    simp only [writeSession, hw, sessionWire, encAll, List.map_cons, List.length_cons, this.1, this.2]
    constructor
    · simp
    · omega

/-! ### Headers and detection -/

theorem detect_header (k : Kind) (hk : k ≠ .full) (s : Bytes) :
    detect Cfg.spec (header Cfg.spec k ++ s) = .ok (k, s) := by
  cases k with
  | full => exact absurd rfl hk
  | abridged => simp [detect, header, Cfg.spec]
  | intermediate => simp [detect, header, Cfg.spec]
  | padded => simp [detect, header, Cfg.spec]

theorem readHeader_header (cfg : Cfg) (k : Kind) (s : Bytes) :
    readHeader cfg k (header cfg k ++ s) = .ok s := by
  unfold readHeader
  simp

theorem leN4 (n : Nat) : leN 4 n = [UInt8.ofNat (n % 256), UInt8.ofNat (n / 256 % 256),
    UInt8.ofNat (n / 256 / 256 % 256), UInt8.ofNat (n / 256 / 256 / 256 % 256)] := by
  simp [leN]

/-- A stream whose first word is a multiple of four (every full-protocol frame of an aligned payload)
starts with none of the three protocol tags and is therefore detected as `full`, nothing consumed. -/
theorem detect_full_of_aligned (n : Nat) (s : Bytes) (h4 : n % 4 = 0) :
    detect Cfg.spec (putU32 n ++ s) = .ok (.full, putU32 n ++ s) := by
  have hb : (UInt8.ofNat (n % 256)).toNat = n % 256 := by simp [UInt8.toNat_ofNat']
  have hef : UInt8.ofNat (n % 256) ≠ 0xef := by
    intro h; have := congrArg UInt8.toNat h; rw [hb] at this
    have : n % 256 = 239 := by simpa using this
    omega
  have hee : UInt8.ofNat (n % 256) ≠ 0xee := by
    intro h; have := congrArg UInt8.toNat h; rw [hb] at this
    have : n % 256 = 238 := by simpa using this
    omega
  have hdd : UInt8.ofNat (n % 256) ≠ 0xdd := by
    intro h; have := congrArg UInt8.toNat h; rw [hb] at this
    have : n % 256 = 221 := by simpa using this
    omega
  unfold detect putU32
  rw [leN4]
  simp [Cfg.spec, hef, hee, hdd]

/-! ### The pinned tree: frames the writer accepts but its own reader rejects -/

theorem readLen_put_over (cfg : Cfg) (envelope n : Nat) (rest : Bytes) (k : Nat → Bytes → Res)
    (h : cfg.lenRejects n envelope = true) (h32 : n < 2 ^ 32) :
    readLen cfg envelope (putU32 n ++ rest) k = Res.alloc 4 (Res.err (.badLen n)) := by
  unfold readLen
  rw [readN_append _ _ 4 _ (putU32_length n)]
  have : fromLE (putU32 n) = n := fromLE_leN 4 n (by simpa using h32)
  simp only [this, h, if_true]

/-- Pinned tree, full protocol: any payload longer than `2^24 - 12` (the writer accepts up to
`2^24`) is written with a length word the reader rejects. -/
theorem pinned_full_rejects (crc : Bytes → Nat) (seq : Int) (rnd p rest : Bytes)
    (hlo : 16777216 - 12 < p.length) (hhi : p.length ≤ 16777216) :
    (read Cfg.pinned crc .full seq (encRaw Cfg.pinned crc .full seq rnd p ++ rest)).out
      = .err (.badLen (p.length + 12)) := by
  have hw : Cfg.pinned.fullWire p.length = p.length + 12 := rfl
  simp only [read, readRaw, encRaw, encHead, encTail, readFull, hw]
  rw [show putU32 (p.length + 12) ++ putU32 (ofInt32 seq) ++ p
        ++ putU32 (crc (putU32 (p.length + 12) ++ putU32 (ofInt32 seq) ++ p)) ++ rest
      = putU32 (p.length + 12) ++ (putU32 (ofInt32 seq) ++ p
        ++ putU32 (crc (putU32 (p.length + 12) ++ putU32 (ofInt32 seq) ++ p)) ++ rest) by simp,
    readLen_put_over _ _ _ _ _ (by simp [Cfg.pinned, Cfg.spec]; omega) (by omega)]
  rfl

/-- Pinned tree, padded intermediate: a payload of exactly `2^24` bytes whose last byte is not a
multiple of four gets 1–3 bytes of padding and a length word the reader rejects. -/
theorem pinned_padded_rejects (crc : Bytes → Nat) (seq : Int) (rnd p rest : Bytes)
    (hlen : p.length = 16777216) (hpad : 0 < padLen Cfg.pinned p) :
    (read Cfg.pinned crc .padded seq (encRaw Cfg.pinned crc .padded seq rnd p ++ rest)).out
      = .err (.badLen (p.length + padLen Cfg.pinned p)) := by
  have hp3 : padLenB Cfg.pinned (lastByte p) ≤ 3 := by
    show (lastByte p).toNat % 4 ≤ 3
    omega
  have hpad' : 0 < padLenB Cfg.pinned (lastByte p) := hpad
  have hrej : Cfg.pinned.lenRejects (p.length + padLenB Cfg.pinned (lastByte p)) Cfg.pinned.padEnvelope = true := by
    have hpe : Cfg.pinned.padEnvelope = 0 := rfl
    rw [hpe]
    show decide (p.length + padLenB Cfg.pinned (lastByte p) = 0 ∨ p.length + padLenB Cfg.pinned (lastByte p) > 16777216 + 0) = true
    rw [decide_eq_true_eq]
    right; omega
  simp only [read, readRaw, encRaw, encHead, encTail, readPadded, readIntermediate, padLen, if_true]
  rw [show putU32 (p.length + padLenB Cfg.pinned (lastByte p)) ++ p ++ List.take (padLenB Cfg.pinned (lastByte p)) rnd ++ rest
      = putU32 (p.length + padLenB Cfg.pinned (lastByte p)) ++ (p ++ List.take (padLenB Cfg.pinned (lastByte p)) rnd ++ rest) by simp,
    readLen_put_over _ _ _ _ _ hrej (by omega)]
  rfl

end TdModel.Codec
