/-
C02/C03 — file G: the initial state and the main theorem about the manager model.
-/
import TdModel.Lemmas.C02MgrF

namespace TdModel.C02Core
open TdModel.C01

/-- The manager before `Run` does anything. -/
def Mgr.init (w : World) (pts qts : Int) (chans : List (Nat × Int)) : Mgr :=
  { pts := { state := pts }, qts := { state := qts },
    chans := chans.map fun c => { id := c.1, box := { state := c.2 } }, w := w }

/-- `loadChannels`: the stored channels whose access hash is known. -/
def liveOf (w : World) (chans : List (Nat × Int)) : List (Nat × Int) := chans.filter fun c => !w.hashUnknown c.1

/-- The manager after `loadState` / `loadChannels`. -/
def Mgr.init' (O : Orders) (w : World) (pts qts : Int) (chans : List (Nat × Int)) (noState : Bool) : Mgr :=
  if noState then (Mgr.init w pts qts chans).firstState O else Mgr.init w pts qts chans

theorem start_eq (O : Orders) (w : World) (pts qts : Int) (chans : List (Nat × Int)) (ns : Bool) :
    Mgr.start O w pts qts chans ns =
      Mgr.settle O fuel0 ((((Mgr.init' O w pts qts (liveOf w chans) ns).getDifference O fuel0).chans.map (·.id)).foldl
        (fun (m : Mgr) c => m.chGetDifference O c fuel0) ((Mgr.init' O w pts qts (liveOf w chans) ns).getDifference O fuel0)) := by
  cases ns <;> rfl

theorem find_filter_id (P : Nat → Bool) (fc : List (Nat × Int)) (c : Nat) :
    (fc.filter fun x => P x.1).find? (·.1 == c) = if P c then fc.find? (·.1 == c) else none := by
  induction fc with
  | nil => simp
  | cons a t ih =>
    by_cases hp : P a.1 = true
    · rw [List.filter_cons_of_pos (p := fun x : Nat × Int => P x.1) hp]
      simp only [List.find?]
      cases hc : (a.1 == c)
      · exact ih
      · have : a.1 = c := by simpa using hc
        rw [← this, if_pos hp]
    · rw [List.filter_cons_of_neg (p := fun x : Nat × Int => P x.1) hp]
      simp only [List.find?]
      cases hc : (a.1 == c)
      · exact ih
      · have : a.1 = c := by simpa using hc
        rw [ih, ← this, if_neg hp, if_neg hp]

theorem liveOf_find (w : World) (fc : List (Nat × Int)) (c : Nat) (d : Nat × Int)
    (h : (liveOf w fc).find? (·.1 == c) = some d) : fc.find? (·.1 == c) = some d := by
  unfold liveOf at h
  rw [find_filter_id (fun c => !w.hashUnknown c)] at h
  split at h
  · exact h
  · cases h

theorem find_append_some (l1 l2 : List (Nat × Int)) (c : Nat) (d : Nat × Int)
    (h : l1.find? (·.1 == c) = some d) : (l1 ++ l2).find? (·.1 == c) = some d := by
  rw [List.find?_append, h]; rfl

theorem find_append_none (l1 l2 : List (Nat × Int)) (c : Nat)
    (h : l1.find? (·.1 == c) = none) : (l1 ++ l2).find? (·.1 == c) = l2.find? (·.1 == c) := by
  rw [List.find?_append, h]; rfl

theorem find_map_chan (fc : List (Nat × Int)) (x : Nat) :
    (fc.map fun c => ({ id := c.1, box := { state := c.2 } } : Chan)).find? (·.id == x) =
      (fc.find? (·.1 == x)).map fun c => ({ id := c.1, box := { state := c.2 } } : Chan) := by
  induction fc with
  | nil => rfl
  | cons a t ih =>
    simp only [List.map_cons, List.find?]
    cases h : (a.1 == x)
    · simpa using ih
    · simp

theorem init_getBox (w : World) (fp fq : Int) (fc : List (Nat × Int)) (k : Nat) :
    (Mgr.init w fp fq fc).getBox k =
      if k = 0 then some { state := fp } else if k = 1 then some { state := fq }
      else (fc.find? (·.1 == k - 2)).map fun c => ({ state := c.2 } : Box) := by
  unfold Mgr.init Mgr.getBox
  by_cases h0 : k = 0
  · simp [h0]
  · by_cases h1 : k = 1
    · simp [h1]
    · simp only [h0, h1, if_false, find_map_chan]
      cases fc.find? (·.1 == k - 2) <;> rfl

theorem mem_seqKeys (fc : List (Nat × Int)) (k : Nat) :
    k ∈ seqKeys fc ↔ k = 0 ∨ k = 1 ∨ ∃ c ∈ fc, k = 2 + c.1 := by
  unfold seqKeys
  simp only [List.mem_cons, List.mem_map]
  constructor
  · rintro (h | h | ⟨c, hc, rfl⟩)
    · exact Or.inl h
    · exact Or.inr (Or.inl h)
    · exact Or.inr (Or.inr ⟨c, hc, rfl⟩)
  · rintro (h | h | ⟨c, hc, rfl⟩)
    · exact Or.inl h
    · exact Or.inr (Or.inl h)
    · exact Or.inr (Or.inr ⟨c, hc, rfl⟩)

theorem find_id {l : List (Nat × Int)} {c : Nat} {d : Nat × Int} (h : l.find? (·.1 == c) = some d) :
    d ∈ l ∧ d.1 = c :=
  ⟨List.mem_of_find?_eq_some h, by simpa using List.find?_some h⟩

theorem minv_init (O : Orders) (w : World) (fp fq : Int) (fc cr lv : List (Nat × Int))
    (hlv : ∀ c d, lv.find? (·.1 == c) = some d → fc.find? (·.1 == c) = some d)
    (hpe : w.persisted = fc) (hcr : w.cr = cr) :
    MInv O w.log (seqKeys (fc ++ cr)) (initOf w.p0 w.q0 w.c0) (initOf fp fq (fc ++ cr)) (Mgr.init w fp fq lv) := by
  have hrep : ∀ k, replay O w.log (initOf fp fq (fc ++ cr)) (Mgr.init w fp fq lv).ops k =
      ({ state := initOf fp fq (fc ++ cr) k }, []) := by
    intro k; rfl
  have hkey : ∀ c d, fc.find? (·.1 == c) = some d → 2 + c ∈ seqKeys (fc ++ cr) := by
    intro c d h
    obtain ⟨hm, hid⟩ := find_id h
    exact (mem_seqKeys _ _).2 (Or.inr (Or.inr ⟨d, List.mem_append_left _ hm, by omega⟩))
  have hstart : ∀ c d, fc.find? (·.1 == c) = some d → initOf fp fq (fc ++ cr) (2 + c) = d.2 := by
    intro c d h
    have h0 : ¬ (2 + c = 0) := by omega
    have h1 : ¬ (2 + c = 1) := by omega
    have h2 : 2 + c - 2 = c := by omega
    simp only [initOf, h0, h1, if_false, h2, find_append_some fc cr c d h]
    rfl
  refine ⟨⟨rfl, ?_, ?_, ?_, ?_, ?_⟩, ?_, ?_, ?_, ?_, fun cont hc => by simp [Mgr.init] at hc, ?_, ?_,
    fun cont hc => by simp [Mgr.init] at hc⟩
  · intro k hk
    rw [hrep, init_getBox]
    by_cases h0 : k = 0
    · subst h0; left; simp [initOf]
    by_cases h1 : k = 1
    · subst h1; left; simp [initOf]
    simp only [h0, h1, if_false]
    cases hf : lv.find? (·.1 == k - 2) with
    | none => right; rfl
    | some d =>
      left
      have := hstart (k - 2) d (hlv _ _ hf)
      have hk2 : 2 + (k - 2) = k := by omega
      rw [hk2] at this
      simp [this]
  · intro k _; rw [hrep]; rfl
  · intro k _; rfl
  · intro k _ b hb
    rw [init_getBox] at hb
    have : b.pending = [] := by
      split at hb
      · rw [← Option.some.inj hb]
      · split at hb
        · rw [← Option.some.inj hb]
        · cases hf : lv.find? (·.1 == k - 2) with
          | none => simp [hf] at hb
          | some d => simp [hf] at hb; rw [← hb]
    intro u hu; rw [this] at hu; simp at hu
  · intro k hk
    rw [init_getBox]
    have h0 : ¬ k = 0 := fun h => hk ((mem_seqKeys _ k).2 (Or.inl h))
    have h1 : ¬ k = 1 := fun h => hk ((mem_seqKeys _ k).2 (Or.inr (Or.inl h)))
    simp only [h0, h1, if_false]
    cases hf : lv.find? (·.1 == k - 2) with
    | none => rfl
    | some d =>
      exfalso
      have := hkey _ d (hlv _ _ hf)
      have hk2 : 2 + (k - 2) = k := by omega
      rw [hk2] at this
      exact hk this
  · show w.p0 = _; simp [initOf]
  · show w.q0 = _; simp [initOf]
  · intro c _
    have h0 : ¬ (2 + c = 0) := by omega
    have h1 : ¬ (2 + c = 1) := by omega
    have h2 : 2 + c - 2 = c := by omega
    show World.chanInit w c = _
    simp [World.chanInit, initOf, h0, h1, h2]
  · intro q hq
    unfold Mgr.queues Mgr.init at hq
    simp only [List.map_map] at hq
    obtain ⟨c, hc, rfl⟩ := List.mem_map.1 hq
    refine ⟨?_, ?_⟩
    · show 2 + c.1 ∈ _
      cases hf : lv.find? (·.1 == c.1) with
      | none =>
        have := List.find?_eq_none.1 hf c hc
        simp at this
      | some d => exact hkey _ d (hlv _ _ hf)
    · intro it hit
      simp [Function.comp] at hit
  · intro c sp hsp
    have hsp' : fc.find? (·.1 == c) = some sp := by rw [← hpe]; exact hsp
    exact ⟨hstart c sp hsp', hkey c sp hsp'⟩
  · intro c d hsp hd
    have hsp' : fc.find? (·.1 == c) = none := by rw [← hpe]; exact hsp
    have hd' : cr.find? (·.1 == c) = some d := by rw [← hcr]; exact hd
    obtain ⟨hm, hid⟩ := find_id hd'
    have h0 : ¬ (2 + c = 0) := by omega
    have h1 : ¬ (2 + c = 1) := by omega
    have h2 : 2 + c - 2 = c := by omega
    refine ⟨?_, (mem_seqKeys _ _).2 (Or.inr (Or.inr ⟨d, List.mem_append_right _ hm, by omega⟩))⟩
    simp only [initOf, h0, h1, if_false, h2, find_append_none fc cr c hsp', hd']
    rfl

/-- **Main invariant.** Whatever the (good) regenerated orders, the server log (with distinct ids,
tiling every tracked sequence), the persisted start `fp fq fc`, the channels `cr` that are first
met during the run (with their declared first-contact positions) and the list of harness actions:
the manager model after `start` and all actions satisfies the invariant. -/
theorem mgr_run_inv (O : Orders) (hO : GoodOrders O) (w : World) (fp fq : Int) (fc cr : List (Nat × Int))
    (hpe : w.persisted = fc) (hcr : w.cr = cr)
    (hS : Scn w.log (seqKeys (fc ++ cr)) (initOf w.p0 w.q0 w.c0)) (acts : List Action) (ns : Bool := false) :
    MInv O w.log (seqKeys (fc ++ cr)) (initOf w.p0 w.q0 w.c0) (initOf fp fq (fc ++ cr))
      ((Mgr.start O w fp fq fc ns).runActions O acts) := by
  apply minv_runActions hO hS
  rw [start_eq]
  apply minv_settle hO hS
  have h0 : MInv O w.log (seqKeys (fc ++ cr)) (initOf w.p0 w.q0 w.c0) (initOf fp fq (fc ++ cr))
      (Mgr.init' O w fp fq (liveOf w fc) ns) := by
    unfold Mgr.init'
    split
    · exact minv_firstState hS (minv_init O w fp fq fc cr (liveOf w fc) (liveOf_find w fc) hpe hcr)
    · exact minv_init O w fp fq fc cr (liveOf w fc) (liveOf_find w fc) hpe hcr
  have h1 := minv_getDifference hO hS fuel0 _ h0
  exact foldl_inv _ _ _ (fun _ => True) (fun b c hb _ => minv_chGetDifference hO hS c fuel0 b hb) _ h1
    (fun _ _ => trivial)

/-- **Every run of the manager model projects, for each tracked sequence, to a well-formed run of
the per-sequence LTS**: the ops logged for the sequence are well-formed, their replay through
Part A yields exactly that sequence's part of the manager's trace, and the sequence's box (a
channel that has not been met yet, or has become inaccessible, has no box). -/
theorem mgr_projects (O : Orders) (hO : GoodOrders O) (w : World) (fp fq : Int) (fc cr : List (Nat × Int))
    (hpe : w.persisted = fc) (hcr : w.cr = cr)
    (hS : Scn w.log (seqKeys (fc ++ cr)) (initOf w.p0 w.q0 w.c0)) (acts : List Action) (k : Nat)
    (hk : k ∈ seqKeys (fc ++ cr)) (ns : Bool := false) :
    let m := (Mgr.start O w fp fq fc ns).runActions O acts
    let c := applyCfgOf O (mkOf w.log) k
    let s0 : Box := { state := initOf fp fq (fc ++ cr) k }
    wfRun c (seqLog w.log k) s0 (opsOf m.ops k) = true ∧
    projSeq w.log k m.trace = (srun c s0 (opsOf m.ops k)).2 ∧
    (m.getBox k = some (srun c s0 (opsOf m.ops k)).1 ∨ m.getBox k = none) := by
  have h := (mgr_run_inv O hO w fp fq fc cr hpe hcr hS acts ns).coh
  exact ⟨h.wf k hk, h.tr k hk, h.box k hk⟩

theorem scn_of_ok (log : List Entry) (keys : List Nat) (org : Nat → Int) (h : scnOK log keys org = true) :
    Scn log keys org := by
  unfold scnOK at h
  simp only [Bool.and_eq_true, decide_eq_true_eq, List.all_eq_true, List.contains_iff_mem] at h
  obtain ⟨⟨⟨h1, h2⟩, h3⟩, h4⟩ := h
  refine ⟨?_, fun k hk => (h2 k hk).1, fun k hk => (h2 k hk).2, h3, h4⟩
  unfold UniqueIds
  rw [List.Nodup, List.pairwise_map] at h1
  exact h1

end TdModel.C02Core
