/-
C02/C03 — file G: the initial state and the main theorem about the manager model.
-/
import TdModel.Lemmas.C02MgrF

namespace TdModel.C02Core
open TdModel.C01

/-- The manager before `Run` does anything. -/
def Mgr.init (w : World) (pts qts : Int) (chans : List (Nat × Int)) : Mgr :=
  { pts := { state := pts }, qts := { state := qts },
    chans := chans.map fun c => { id := c.1, box := { state := c.2 } }, w := w }

theorem start_eq (O : Orders) (w : World) (pts qts : Int) (chans : List (Nat × Int)) :
    Mgr.start O w pts qts chans =
      Mgr.settle O fuel0 ((((Mgr.init w pts qts chans).getDifference O fuel0).chans.map (·.id)).foldl
        (fun (m : Mgr) c => m.chGetDifference O c fuel0) ((Mgr.init w pts qts chans).getDifference O fuel0)) := rfl

theorem find_map_chan (fc : List (Nat × Int)) (x : Nat) :
    (fc.map fun c => ({ id := c.1, box := { state := c.2 } } : Chan)).find? (·.id == x) =
      (fc.find? (·.1 == x)).map fun c => ({ id := c.1, box := { state := c.2 } } : Chan) := by
  induction fc with
  | nil => rfl
  | cons a t ih =>
    simp only [List.map_cons, List.find?]
    cases h : (a.1 == x)
    · simpa using ih
    · simp

theorem init_getBox (w : World) (fp fq : Int) (fc : List (Nat × Int)) (k : Nat) :
    (Mgr.init w fp fq fc).getBox k =
      if k = 0 then some { state := fp } else if k = 1 then some { state := fq }
      else (fc.find? (·.1 == k - 2)).map fun c => ({ state := c.2 } : Box) := by
  unfold Mgr.init Mgr.getBox
  by_cases h0 : k = 0
  · simp [h0]
  · by_cases h1 : k = 1
    · simp [h1]
    · simp only [h0, h1, if_false, find_map_chan]
      cases fc.find? (·.1 == k - 2) <;> rfl

theorem mem_seqKeys (fc : List (Nat × Int)) (k : Nat) :
    k ∈ seqKeys fc ↔ k = 0 ∨ k = 1 ∨ ∃ c ∈ fc, k = 2 + c.1 := by
  unfold seqKeys
  simp only [List.mem_cons, List.mem_map]
  constructor
  · rintro (h | h | ⟨c, hc, rfl⟩)
    · exact Or.inl h
    · exact Or.inr (Or.inl h)
    · exact Or.inr (Or.inr ⟨c, hc, rfl⟩)
  · rintro (h | h | ⟨c, hc, rfl⟩)
    · exact Or.inl h
    · exact Or.inr (Or.inl h)
    · exact Or.inr (Or.inr ⟨c, hc, rfl⟩)

theorem minv_init (O : Orders) (w : World) (fp fq : Int) (fc : List (Nat × Int)) :
    MInv O w.log (seqKeys fc) (initOf w.p0 w.q0 w.c0) (initOf fp fq fc) (Mgr.init w fp fq fc) := by
  have hrep : ∀ k, replay O w.log (initOf fp fq fc) (Mgr.init w fp fq fc).ops k = ({ state := initOf fp fq fc k }, []) := by
    intro k; rfl
  refine ⟨⟨rfl, ?_, ?_, ?_, ?_, ?_⟩, ?_, ?_, ?_, ?_, fun cont hc => by simp [Mgr.init] at hc⟩
  · intro k hk
    rw [hrep, init_getBox]
    rcases (mem_seqKeys fc k).1 hk with h | h | ⟨c, hc, h⟩
    · subst h; simp [initOf]
    · subst h; simp [initOf]
    · subst h
      have h0 : ¬ (2 + c.1 = 0) := by omega
      have h1 : ¬ (2 + c.1 = 1) := by omega
      have h2 : 2 + c.1 - 2 = c.1 := by omega
      simp only [h0, h1, if_false, initOf, h2]
      cases hf : fc.find? (·.1 == c.1) with
      | none =>
        have := List.find?_eq_none.1 hf c hc
        simp at this
      | some d => simp
  · intro k _; rw [hrep]; rfl
  · intro k _; rfl
  · intro k _ b hb
    rw [init_getBox] at hb
    have : b.pending = [] := by
      split at hb
      · rw [← Option.some.inj hb]
      · split at hb
        · rw [← Option.some.inj hb]
        · cases hf : fc.find? (·.1 == k - 2) with
          | none => simp [hf] at hb
          | some d => simp [hf] at hb; rw [← hb]
    intro u hu; rw [this] at hu; simp at hu
  · intro k hk
    rw [init_getBox]
    have h0 : ¬ k = 0 := fun h => hk ((mem_seqKeys fc k).2 (Or.inl h))
    have h1 : ¬ k = 1 := fun h => hk ((mem_seqKeys fc k).2 (Or.inr (Or.inl h)))
    simp only [h0, h1, if_false]
    cases hf : fc.find? (·.1 == k - 2) with
    | none => rfl
    | some d =>
      exfalso
      have hd : d ∈ fc := List.mem_of_find?_eq_some hf
      have hid : d.1 = k - 2 := by
        have := List.find?_some hf
        simpa using this
      exact hk ((mem_seqKeys fc k).2 (Or.inr (Or.inr ⟨d, hd, by omega⟩)))
  · show w.p0 = _; simp [initOf]
  · show w.q0 = _; simp [initOf]
  · intro c _
    have h0 : ¬ (2 + c = 0) := by omega
    have h1 : ¬ (2 + c = 1) := by omega
    have h2 : 2 + c - 2 = c := by omega
    show World.chanInit w c = _
    simp [World.chanInit, initOf, h0, h1, h2]
  · intro q hq
    unfold Mgr.queues Mgr.init at hq
    simp only [List.map_map] at hq
    obtain ⟨c, hc, rfl⟩ := List.mem_map.1 hq
    refine ⟨(mem_seqKeys fc _).2 (Or.inr (Or.inr ⟨c, hc, rfl⟩)), ?_⟩
    intro it hit
    simp [Function.comp] at hit

/-- **Main invariant.** Whatever the (good) regenerated orders, the server log (with distinct ids,
tiling every tracked sequence), the persisted start, the number of tracked channels and the list of
harness actions: the manager model after `start` and all actions satisfies the invariant. -/
theorem mgr_run_inv (O : Orders) (hO : GoodOrders O) (w : World) (fp fq : Int) (fc : List (Nat × Int))
    (hS : Scn w.log (seqKeys fc) (initOf w.p0 w.q0 w.c0)) (acts : List Action) :
    MInv O w.log (seqKeys fc) (initOf w.p0 w.q0 w.c0) (initOf fp fq fc)
      ((Mgr.start O w fp fq fc).runActions O acts) := by
  apply minv_runActions hO hS
  rw [start_eq]
  apply minv_settle hO hS
  have h1 := minv_getDifference hO hS fuel0 _ (minv_init O w fp fq fc)
  exact foldl_inv _ _ _ (fun _ => True) (fun b c hb _ => minv_chGetDifference hO hS c fuel0 b hb) _ h1
    (fun _ _ => trivial)

/-- **Every run of the manager model projects, for each tracked sequence, to a well-formed run of
the per-sequence LTS**: the ops logged for the sequence are well-formed, their replay through
Part A yields exactly that sequence's part of the manager's trace, and the sequence's box. -/
theorem mgr_projects (O : Orders) (hO : GoodOrders O) (w : World) (fp fq : Int) (fc : List (Nat × Int))
    (hS : Scn w.log (seqKeys fc) (initOf w.p0 w.q0 w.c0)) (acts : List Action) (k : Nat) (hk : k ∈ seqKeys fc) :
    let m := (Mgr.start O w fp fq fc).runActions O acts
    let c := applyCfgOf O (mkOf w.log) k
    wfRun c (seqLog w.log k) { state := initOf fp fq fc k } (opsOf m.ops k) = true ∧
    projSeq w.log k m.trace = (srun c { state := initOf fp fq fc k } (opsOf m.ops k)).2 ∧
    m.getBox k = some (srun c { state := initOf fp fq fc k } (opsOf m.ops k)).1 := by
  have h := (mgr_run_inv O hO w fp fq fc hS acts).coh
  exact ⟨h.wf k hk, h.tr k hk, h.box k hk⟩

theorem scn_of_ok (log : List Entry) (keys : List Nat) (org : Nat → Int) (h : scnOK log keys org = true) :
    Scn log keys org := by
  unfold scnOK at h
  simp only [Bool.and_eq_true, decide_eq_true_eq, List.all_eq_true, List.contains_iff_mem] at h
  obtain ⟨⟨⟨h1, h2⟩, h3⟩, h4⟩ := h
  refine ⟨?_, fun k hk => (h2 k hk).1, fun k hk => (h2 k hk).2, h3, h4⟩
  unfold UniqueIds
  rw [List.Nodup, List.pairwise_map] at h1
  exact h1

end TdModel.C02Core
