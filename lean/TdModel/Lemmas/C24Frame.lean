/-
C24 — frame property: once `Do` has returned, no action of any thread changes anything of that call
(its `Output` writes, result, counters, flags).
-/
import TdModel.Lemmas.C24Env
namespace TdModel.Rpc

macro "frame_close" hg:term : tactic =>
  `(tactic| (simp [setCall, setNotif, finish, Call.finish, removeAck, exitAck, Call.exitLoop, Call.retC, newCall, Cfg.std_all $hg] <;>
      grind [Inv]))

macro "frame_close0" : tactic =>
  `(tactic| (simp [setCall, setNotif, removeAck, Call.exitLoop, Call.retC, newCall] <;> grind [Inv]))

theorem frozen_step {cfg : Cfg} {s s' : State} {a : Action} (hg : cfg.std = true) (h : Inv s)
    {i : Nat} {c : Call} (hc : s.calls i = some c) (hr : c.ret ≠ none)
    (hs : step cfg s a = some s') : s'.calls i = some c := by
  have hpc : c.pc = .fin := (h.fin_ret i c hc).1 hr
  have hack : s.ack i = false := by
    cases hk : s.ack i with
    | false => rfl
    | true => obtain ⟨c', h1, h2⟩ := h.ack_pc i hk; grind
  have htm : c.deadline = none := by
    have := h.timer_pc i c hc; grind
  cases a <;> simp only [step] at hs
  case start j q b =>
    unfold stepStart at hs
    split at hs
    · simp at hs
    · try dsimp only at hs
      split at hs <;> simp at hs <;> subst hs <;> frame_close0
  case sret j o =>
    unfold stepSret at hs
    std_norm hg at hs
    split at hs
    · simp at hs
    · split at hs <;> try (simp at hs)
      all_goals (try split at hs) <;> try (simp at hs)
      all_goals (first | subst hs | (obtain ⟨_, hs⟩ := hs; subst hs))
      all_goals frame_close hg
  case loopSel j b =>
    unfold stepLoop at hs
    std_norm hg at hs
    split at hs
    · simp at hs
    · split at hs
      · simp at hs
      · try dsimp only at hs
        split at hs
        all_goals (split at hs <;> try (simp at hs))
        all_goals (try (split at hs <;> try (simp at hs)))
        all_goals (first | subst hs | (obtain ⟨_, hs⟩ := hs; subst hs))
        all_goals frame_close hg
  case waitSel j b =>
    unfold stepWait at hs
    std_norm hg at hs
    split at hs
    · simp at hs
    · split at hs
      · simp at hs
      · split at hs
        all_goals (split at hs <;> try (simp at hs))
        all_goals (try (split at hs <;> try (simp at hs)))
        all_goals (first | subst hs | (obtain ⟨_, hs⟩ := hs; subst hs))
        all_goals frame_close hg
  case dret j o =>
    unfold stepDret at hs
    std_norm hg at hs
    split at hs
    · simp at hs
    · split at hs <;> simp at hs
      subst hs
      frame_close hg
  case gpass j =>
    unfold stepGpass at hs
    std_norm hg at hs
    split at hs
    · simp at hs
    · split at hs <;> simp at hs
      subst hs
      frame_close hg
  case nstart nid t e v =>
    unfold stepNstart at hs
    split at hs
    · simp at hs
    · try dsimp only at hs
      split at hs <;> simp at hs <;> subst hs <;> frame_close0
  case nrun nid =>
    unfold stepNrun at hs
    std_norm hg at hs
    simp only [casStep] at hs
    split at hs
    · simp at hs
    · split at hs
      all_goals (try (split at hs))
      all_goals (try (split at hs))
      all_goals (try (simp at hs))
      all_goals (try subst hs)
      all_goals frame_close0
  case nwrite nid o =>
    unfold stepNwrite at hs
    split at hs
    · simp at hs
    · split at hs
      · split at hs
        · simp at hs
        · simp at hs; subst hs; frame_close0
      · simp at hs
  case ack ids =>
    cases hs
    have key : ∀ (ids : List Nat) (t : State), (t.calls i = some c ∧ t.ack i = false) →
        ((stepAck cfg t ids).calls i = some c ∧ (stepAck cfg t ids).ack i = false) := by
      intro ids
      refine stepAck_induct cfg (P := fun t => t.calls i = some c ∧ t.ack i = false) ?_ ids
      intro t id ⟨h1, h2⟩
      unfold ackOne
      by_cases hk : t.ack id = true
      · have hne : id ≠ i := by intro e; rw [e, h2] at hk; cases hk
        simp only [hk, if_true]
        cases hci : t.calls id with
        | none => exact ⟨h1, h2⟩
        | some ci =>
          by_cases ha : ci.acked = true
          · simp [ha, h1, h2]
          · simp [ha, setCall, removeAck, h1, h2, Ne.symm hne]
            split <;> simp [removeAck, h1, h2, Ne.symm hne]
      · simp only [hk]; exact ⟨h1, h2⟩
    exact (key ids s ⟨hc, hack⟩).1
  case cancel j =>
    unfold stepCancel at hs
    split at hs
    · simp at hs
    · split at hs <;> simp at hs <;> subst hs
      · frame_close0
      · exact hc
  case advance d =>
    cases hs
    simp [stepAdvance, hc, Call.tickTimer, htm]
  case close k => split at hs <;> simp at hs; subst hs; exact hc
  case fclose k => split at hs <;> simp at hs; subst hs; exact hc
  case cret k => split at hs <;> simp at hs; subst hs; exact hc

/-- A returned call stays exactly as it was along any further action list. -/
theorem frozen_run {cfg : Cfg} (hg : cfg.std = true) {as : List Action} {s s' : State} (h : Inv s)
    {i : Nat} {c : Call} (hc : s.calls i = some c) (hr : c.ret ≠ none)
    (hs : run cfg s as = some s') : s'.calls i = some c := by
  induction as generalizing s with
  | nil => simp [run] at hs; subst hs; exact hc
  | cons a as ih =>
    simp only [run] at hs
    split at hs
    · next s1 h1 => exact ih (inv_step hg h h1) (frozen_step hg h hc hr h1) hs
    · simp at hs

end TdModel.Rpc
