/-
C24 — frame property: once `Do` has returned, no action of any thread changes anything of that call
(its `Output` writes, result, counters, flags).
-/
import TdModel.Lemmas.C24Env
namespace TdModel.Rpc

macro "frame_close" : tactic =>
  `(tactic| (simp [setCall, setNotif, finish, Call.finish, removeAck, Call.exitLoop, Call.retC, newCall] <;> grind [Inv]))

theorem frozen_step {cfg : Cfg} {s s' : State} {a : Action} (h : Inv s)
    {i : Nat} {c : Call} (hc : s.calls i = some c) (hr : c.ret ≠ none)
    (hs : step cfg s a = some s') : s'.calls i = some c := by
  have hpc : c.pc = .fin := (h.fin_ret i c hc).1 hr
  have hack : s.ack i = false := by
    cases hk : s.ack i with
    | false => rfl
    | true => obtain ⟨c', h1, h2⟩ := h.ack_pc i hk; grind
  have htm : c.deadline = none := by
    have := h.timer_pc i c hc; grind
  cases a <;> simp only [step] at hs
  case start j q b =>
    unfold stepStart at hs
    split at hs
    · simp at hs
    · dsimp only at hs
      split at hs <;> simp at hs <;> subst hs <;> frame_close
  case sret j o =>
    unfold stepSret at hs
    split at hs
    · simp at hs
    · split at hs <;> try (simp at hs)
      all_goals (try split at hs) <;> try (simp at hs)
      all_goals (first | subst hs | (obtain ⟨_, hs⟩ := hs; subst hs))
      all_goals frame_close
  case loopSel j b =>
    unfold stepLoop at hs
    split at hs
    · simp at hs
    · split at hs
      · simp at hs
      · dsimp only at hs
        split at hs
        all_goals (split at hs <;> try (simp at hs))
        all_goals (try (split at hs <;> try (simp at hs)))
        all_goals (first | subst hs | (obtain ⟨_, hs⟩ := hs; subst hs))
        all_goals frame_close
  case waitSel j b =>
    unfold stepWait at hs
    split at hs
    · simp at hs
    · split at hs
      · simp at hs
      · split at hs
        all_goals (split at hs <;> try (simp at hs))
        all_goals (try (split at hs <;> try (simp at hs)))
        all_goals (first | subst hs | (obtain ⟨_, hs⟩ := hs; subst hs))
        all_goals frame_close
  case dret j o =>
    unfold stepDret at hs
    split at hs
    · simp at hs
    · split at hs <;> simp at hs
      subst hs
      frame_close
  case gpass j =>
    unfold stepGpass at hs
    split at hs
    · simp at hs
    · split at hs <;> simp at hs
      subst hs
      frame_close
  case nstart nid t e v =>
    unfold stepNstart at hs
    split at hs
    · simp at hs
    · dsimp only at hs
      split at hs <;> simp at hs <;> subst hs <;> frame_close
  case nrun nid =>
    unfold stepNrun at hs
    split at hs
    · simp at hs
    · split at hs
      · simp at hs; subst hs; frame_close
      · split at hs
        · simp at hs
        · split at hs <;> simp at hs <;> subst hs <;> frame_close
      · split at hs
        · simp at hs
        · split at hs <;> simp at hs <;> subst hs <;> frame_close
      · simp at hs
  case nwrite nid o =>
    unfold stepNwrite at hs
    split at hs
    · simp at hs
    · split at hs
      · split at hs
        · simp at hs
        · simp at hs; subst hs; frame_close
      · simp at hs
  case ack ids =>
    cases hs
    simp [stepAck, hc, hack]
  case cancel j =>
    unfold stepCancel at hs
    split at hs
    · simp at hs
    · split at hs <;> simp at hs <;> subst hs
      · frame_close
      · exact hc
  case advance d =>
    cases hs
    simp [stepAdvance, hc, Call.tickTimer, htm]
  case close => cases hs; exact hc
  case fclose => cases hs; exact hc

/-- A returned call stays exactly as it was along any further action list. -/
theorem frozen_run {cfg : Cfg} (hg : cfg.guard = true) {as : List Action} {s s' : State} (h : Inv s)
    {i : Nat} {c : Call} (hc : s.calls i = some c) (hr : c.ret ≠ none)
    (hs : run cfg s as = some s') : s'.calls i = some c := by
  induction as generalizing s with
  | nil => simp [run] at hs; subst hs; exact hc
  | cons a as ih =>
    simp only [run] at hs
    split at hs
    · next s1 h1 => exact ih (inv_step hg h h1) (frozen_step h hc hr h1) hs
    · simp at hs

end TdModel.Rpc
