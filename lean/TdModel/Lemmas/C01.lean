/-
C01 — helper lemmas for the sequence box model.
-/
import TdModel.Model.C01

namespace TdModel.C01

/-- The regenerated `checkGap` is the specification's three-way classification. -/
theorem checkGap_eq (l r c : Int) :
    checkGap l r c =
      if r = 0 then .apply else if l + c = r then .apply
      else if l + c > r then .ignore else .refetch := by
  unfold checkGap Facts.C01.checkGapCode Facts.C01.gapApply Facts.C01.gapIgnore Facts.C01.gapRefetch
  by_cases h0 : r = 0
  · simp [h0]
  · by_cases h1 : l + c = r
    · simp [h0, h1]
    · by_cases h2 : l + c > r
      · simp [h0, h1, h2]
      · simp [h0, h1, h2]

theorem checkGap_apply_iff (l r c : Int) : checkGap l r c = .apply ↔ (r = 0 ∨ l + c = r) := by
  rw [checkGap_eq]
  by_cases h0 : r = 0
  · simp [h0]
  · by_cases h1 : l + c = r
    · simp [h0, h1]
    · by_cases h2 : l + c > r <;> simp [h0, h1, h2]

theorem checkGap_ignore_iff (l r c : Int) : checkGap l r c = .ignore ↔ (r ≠ 0 ∧ l + c > r) := by
  rw [checkGap_eq]
  by_cases h0 : r = 0
  · simp [h0]
  · by_cases h1 : l + c = r
    · simp [h0, h1] <;> omega
    · by_cases h2 : l + c > r <;> simp [h0, h1, h2]

theorem checkGap_refetch_iff (l r c : Int) : checkGap l r c = .refetch ↔ (r ≠ 0 ∧ l + c < r) := by
  rw [checkGap_eq]
  by_cases h0 : r = 0
  · simp [h0]
  · by_cases h1 : l + c = r
    · simp [h0, h1] <;> omega
    · by_cases h2 : l + c > r <;> simp [h0, h1, h2] <;> omega

theorem checkGap_ne_invalid (l r c : Int) : checkGap l r c ≠ .invalid := by
  rw [checkGap_eq]
  by_cases h0 : r = 0
  · simp [h0]
  · by_cases h1 : l + c = r
    · simp [h0, h1]
    · by_cases h2 : l + c > r <;> simp [h0, h1, h2]

/-! ### `walk` (the loop of applyPending) -/

/-- The accepted prefix is a chain from the box state to the new state. -/
theorem walk_chain (l : List Upd) : ∀ s, chain s (walk s l).1 = some (walk s l).2.1 := by
  induction l with
  | nil => intro s; simp [walk, chain]
  | cons u us ih =>
    intro s
    unfold walk
    cases h : checkGap s u.state u.count with
    | apply =>
      have := (checkGap_apply_iff s u.state u.count).1 h
      simp only [chain]
      rw [if_pos this]
      exact ih u.state
    | ignore => exact ih s
    | refetch => simp [chain]
    | invalid => simp [chain]

theorem walk_nil_state (l : List Upd) : ∀ s, (walk s l).1 = [] → (walk s l).2.1 = s := by
  induction l with
  | nil => intro s _; simp [walk]
  | cons u us ih =>
    intro s
    unfold walk
    cases h : checkGap s u.state u.count with
    | apply => simp
    | ignore => exact ih s
    | refetch => simp
    | invalid => simp

/-- What `applyPending` leaves in `pending` is empty or starts with an update that is still ahead
of the new state (classified `refetch`). -/
theorem walk_rest (l : List Upd) : ∀ s,
    (walk s l).2.2 = [] ∨ ∃ u us, (walk s l).2.2 = u :: us ∧
      checkGap (walk s l).2.1 u.state u.count = .refetch := by
  induction l with
  | nil => intro s; simp [walk]
  | cons u us ih =>
    intro s
    unfold walk
    cases h : checkGap s u.state u.count with
    | apply => exact ih u.state
    | ignore => exact ih s
    | refetch => exact Or.inr ⟨u, us, rfl, h⟩
    | invalid => exact absurd h (checkGap_ne_invalid _ _ _)

theorem walk_accepted_subset (l : List Upd) : ∀ s u, u ∈ (walk s l).1 → u ∈ l := by
  induction l with
  | nil => intro s u h; simp [walk] at h
  | cons x xs ih =>
    intro s u
    unfold walk
    cases h : checkGap s x.state x.count with
    | apply =>
      intro hu
      simp only [List.mem_cons] at hu ⊢
      rcases hu with rfl | hu
      · exact Or.inl rfl
      · exact Or.inr (ih _ _ hu)
    | ignore => intro hu; exact List.mem_cons_of_mem _ (ih _ _ hu)
    | refetch => intro hu; simp at hu
    | invalid => intro hu; simp at hu

theorem walk_rest_subset (l : List Upd) : ∀ s u, u ∈ (walk s l).2.2 → u ∈ l := by
  induction l with
  | nil => intro s u h; simp [walk] at h
  | cons x xs ih =>
    intro s u
    unfold walk
    cases h : checkGap s x.state x.count with
    | apply => intro hu; exact List.mem_cons_of_mem _ (ih _ _ hu)
    | ignore => intro hu; exact List.mem_cons_of_mem _ (ih _ _ hu)
    | refetch => intro hu; exact hu
    | invalid => intro hu; exact hu

theorem mem_insertByStart (x : Upd) (l : List Upd) (u : Upd) :
    u ∈ insertByStart x l ↔ u = x ∨ u ∈ l := by
  induction l with
  | nil => simp [insertByStart]
  | cons y ys ih =>
    unfold insertByStart
    split
    · simp only [List.mem_cons, ih]
      constructor
      · rintro (h | h | h)
        · exact Or.inr (Or.inl h)
        · exact Or.inl h
        · exact Or.inr (Or.inr h)
      · rintro (h | h | h)
        · exact Or.inr (Or.inl h)
        · exact Or.inl h
        · exact Or.inr (Or.inr h)
    · simp

theorem mem_sortByStart (l : List Upd) (u : Upd) : u ∈ sortByStart l ↔ u ∈ l := by
  induction l with
  | nil => simp [sortByStart]
  | cons x xs ih =>
    have : sortByStart (x :: xs) = insertByStart x (sortByStart xs) := rfl
    rw [this, mem_insertByStart, ih]
    simp

/-! ### Events of one step walk from the old state to the new state -/

theorem applyPending_walkEvs (b : Box) (ok : Bool) (s : Int) (hs : b.state = s) :
    walkEvs s (applyPending b ok).2 = some (applyPending b ok).1.state := by
  subst hs
  unfold applyPending
  have hc := walk_chain (sortByStart b.pending) b.state
  have hn := walk_nil_state (sortByStart b.pending) b.state
  generalize walk b.state (sortByStart b.pending) = r at hc hn
  by_cases he : r.1.isEmpty = true
  · simp [he, walkEvs]
  · have hne : r.1 ≠ [] := by simpa using he
    cases ok <;> simp [he, walkEvs, hc]

theorem handle_walkEvs (b : Box) (u : Upd) (ok : Bool) :
    walkEvs b.state (handle b u ok).2 = some (handle b u ok).1.state := by
  unfold handle
  split
  · simp [walkEvs]
  · split
    · split
      · simp [walkEvs]
      · split
        · exact applyPending_walkEvs _ ok _ rfl
        · simp [walkEvs]
    · split
      · rename_i h
        have ha := (checkGap_apply_iff _ _ _).1 h
        split
        · exact applyPending_walkEvs _ ok _ rfl
        · cases ok <;> simp [walkEvs, chain, ha]
      · split
        · exact applyPending_walkEvs _ ok _ rfl
        · simp [walkEvs]
      · simp [walkEvs]

theorem step_walkEvs (b : Box) (op : Op) :
    walkEvs b.state (step b op).2 = some (step b op).1.state := by
  cases op with
  | handle u ok => exact handle_walkEvs b u ok
  | setState x => simp [step, walkEvs]
  | clearGaps => simp [step, walkEvs]
  | applyPending ok => exact applyPending_walkEvs b ok _ rfl

theorem walkEvs_append (a : List Ev) : ∀ (cur : Int) (b : List Ev),
    walkEvs cur (a ++ b) = (walkEvs cur a).bind (fun c => walkEvs c b) := by
  induction a with
  | nil => intro cur b; simp [walkEvs]
  | cons e es ih =>
    intro cur b
    cases e with
    | apply ns us ok =>
      simp only [List.cons_append, walkEvs]
      cases chain cur us with
      | none => simp
      | some c =>
        simp only
        split
        · exact ih _ _
        · simp
    | setState x =>
      simp only [List.cons_append, walkEvs]
      exact ih _ _

theorem events_walkEvs (ops : List Op) : ∀ b, walkEvs b.state (events b ops) = some (run b ops).state := by
  induction ops with
  | nil => intro b; simp [events, run, walkEvs]
  | cons op ops ih =>
    intro b
    simp only [events, run]
    rw [walkEvs_append, step_walkEvs]
    exact ih _

/-! ### Ordered ranges -/

theorem orderedRanges_append (a b : List Upd) :
    orderedRanges a = true → orderedRanges b = true →
    (∀ u ∈ a, ∀ v ∈ b, u.state ≤ v.start) → orderedRanges (a ++ b) = true := by
  induction a with
  | nil => intro _ hb _; simpa using hb
  | cons x xs ih =>
    intro ha hb hab
    simp only [orderedRanges, Bool.and_eq_true, List.all_eq_true, decide_eq_true_eq] at ha
    simp only [List.cons_append, orderedRanges, Bool.and_eq_true, List.all_eq_true, decide_eq_true_eq,
      List.mem_append]
    refine ⟨?_, ih ha.2 hb (fun u hu v hv => hab u (List.mem_cons_of_mem _ hu) v hv)⟩
    rintro v (hv | hv)
    · exact ha.1 v hv
    · exact hab x (List.mem_cons_self ..) v hv

/-- A chain of positive-position, non-negative-count updates is ordered and lies between the
cursor before and the cursor after. -/
theorem chain_ordered (us : List Upd) : ∀ cur c, chain cur us = some c →
    (∀ u ∈ us, u.state ≠ 0 ∧ 0 ≤ u.count) →
    cur ≤ c ∧ (∀ u ∈ us, cur ≤ u.start ∧ u.state ≤ c) ∧ orderedRanges us = true := by
  induction us with
  | nil => intro cur c h _; simp [chain] at h; simp [h, orderedRanges]
  | cons x xs ih =>
    intro cur c h hp
    have hx := hp x (List.mem_cons_self ..)
    simp only [chain] at h
    split at h
    · rename_i hc
      have hc' : cur + x.count = x.state := by
        rcases hc with h0 | h1
        · exact absurd h0 hx.1
        · exact h1
      obtain ⟨h1, h2, h3⟩ := ih x.state c h (fun u hu => hp u (List.mem_cons_of_mem _ hu))
      refine ⟨by omega, ?_, ?_⟩
      · intro u hu
        simp only [List.mem_cons] at hu
        rcases hu with rfl | hu
        · exact ⟨by unfold Upd.start; omega, h1⟩
        · have := h2 u hu
          exact ⟨by omega, this.2⟩
      · simp only [orderedRanges, Bool.and_eq_true, List.all_eq_true, decide_eq_true_eq]
        exact ⟨fun v hv => (h2 v hv).1, h3⟩
    · simp at h

/-- Events that walk in order under monotone differences deliver ordered ranges. -/
theorem walkEvs_ordered (evs : List Ev) : ∀ cur c, walkEvs cur evs = some c →
    monoDiffs cur evs = true →
    (∀ u ∈ delivered evs, u.state ≠ 0 ∧ 0 ≤ u.count) →
    (∀ u ∈ delivered evs, cur ≤ u.start) ∧ orderedRanges (delivered evs) = true := by
  induction evs with
  | nil => intro cur c _ _ _; simp [delivered, orderedRanges]
  | cons e es ih =>
    intro cur c h hm hp
    cases e with
    | setState x =>
      simp only [walkEvs] at h
      simp only [monoDiffs, Bool.and_eq_true, decide_eq_true_eq] at hm
      simp only [delivered] at hp ⊢
      obtain ⟨h1, h2⟩ := ih x c h hm.2 hp
      exact ⟨fun u hu => by have := h1 u hu; omega, h2⟩
    | apply ns us ok =>
      simp only [walkEvs] at h
      cases hch : chain cur us with
      | none => simp [hch] at h
      | some c1 =>
        simp only [hch] at h
        split at h
        · rename_i hns
          cases ok with
          | false =>
            simp only [monoDiffs, Bool.false_eq_true, if_false] at hm
            simp only [Bool.false_eq_true, if_false] at h
            simp only [delivered] at hp ⊢
            exact ih cur c h hm hp
          | true =>
            simp only [monoDiffs, if_true] at hm
            simp only [if_true] at h
            simp only [delivered, List.mem_append] at hp ⊢
            have hpu : ∀ u ∈ us, u.state ≠ 0 ∧ 0 ≤ u.count := fun u hu => hp u (Or.inl hu)
            obtain ⟨g1, g2, g3⟩ := chain_ordered us cur c1 hch hpu
            rw [← hns.1] at hm
            obtain ⟨h1, h2⟩ := ih c1 c h hm (fun u hu => hp u (Or.inr hu))
            refine ⟨?_, orderedRanges_append _ _ g3 h2 ?_⟩
            · rintro u (hu | hu)
              · exact (g2 u hu).1
              · have := h1 u hu; omega
            · intro u hu v hv
              have := (g2 u hu).2
              have := h1 v hv
              omega
        · simp at h

/-! ### Where delivered updates come from -/

/-- Updates offered to a box by an op list. -/
def offered : List Op → List Upd
  | [] => []
  | .handle u _ :: ops => u :: offered ops
  | _ :: ops => offered ops

theorem applyPending_sub (b : Box) (ok : Bool) :
    (∀ u ∈ delivered (applyPending b ok).2, u ∈ b.pending) ∧
    (∀ u ∈ (applyPending b ok).1.pending, u ∈ b.pending) := by
  unfold applyPending
  have ha := walk_accepted_subset (sortByStart b.pending) b.state
  have hr := walk_rest_subset (sortByStart b.pending) b.state
  generalize walk b.state (sortByStart b.pending) = r at ha hr
  have ha' : ∀ u ∈ r.1, u ∈ b.pending := fun u hu => (mem_sortByStart _ _).1 (ha u hu)
  have hr' : ∀ u ∈ r.2.2, u ∈ b.pending := fun u hu => (mem_sortByStart _ _).1 (hr u hu)
  by_cases he : r.1.isEmpty = true
  · simp only [he, if_true, delivered]
    exact ⟨by simp, hr'⟩
  · cases ok
    · simp only [he, Bool.false_eq_true, if_false, delivered]
      exact ⟨by simp, hr'⟩
    · simp only [he, Bool.false_eq_true, if_false, if_true, delivered, List.append_nil]
      exact ⟨ha', hr'⟩

theorem handle_sub (b : Box) (u : Upd) (ok : Bool) :
    (∀ v ∈ delivered (handle b u ok).2, v = u ∨ v ∈ b.pending) ∧
    (∀ v ∈ (handle b u ok).1.pending, v = u ∨ v ∈ b.pending) := by
  have key : ∀ (b' : Box), (∀ v ∈ b'.pending, v = u ∨ v ∈ b.pending) →
      (∀ v ∈ delivered (applyPending b' ok).2, v = u ∨ v ∈ b.pending) ∧
      (∀ v ∈ (applyPending b' ok).1.pending, v = u ∨ v ∈ b.pending) := by
    intro b' hb'
    obtain ⟨h1, h2⟩ := applyPending_sub b' ok
    exact ⟨fun v hv => hb' v (h1 v hv), fun v hv => hb' v (h2 v hv)⟩
  have happ : ∀ v ∈ b.pending ++ [u], v = u ∨ v ∈ b.pending := by
    intro v hv
    simp only [List.mem_append, List.mem_singleton] at hv
    rcases hv with h | h
    · exact Or.inr h
    · exact Or.inl h
  unfold handle
  split
  · exact ⟨by simp [delivered], fun v hv => Or.inr hv⟩
  · split
    · split
      · exact ⟨by simp [delivered], happ⟩
      · split
        · exact key _ happ
        · exact ⟨by simp [delivered], happ⟩
    · split
      · split
        · exact key _ happ
        · cases ok
          · exact ⟨by simp [delivered], fun v hv => Or.inr hv⟩
          · refine ⟨?_, fun v hv => Or.inr hv⟩
            intro v hv
            simp [delivered] at hv
            exact Or.inl hv
      · split
        · exact key _ happ
        · exact ⟨by simp [delivered], happ⟩
      · exact ⟨by simp [delivered], fun v hv => Or.inr hv⟩

theorem step_sub (b : Box) (op : Op) :
    (∀ v ∈ delivered (step b op).2, v ∈ offered [op] ∨ v ∈ b.pending) ∧
    (∀ v ∈ (step b op).1.pending, v ∈ offered [op] ∨ v ∈ b.pending) := by
  cases op with
  | handle u ok =>
    obtain ⟨h1, h2⟩ := handle_sub b u ok
    simp only [step, offered, List.mem_singleton]
    exact ⟨h1, h2⟩
  | setState x => simp [step, delivered, offered]
  | clearGaps => simp [step, delivered, offered]
  | applyPending ok =>
    obtain ⟨h1, h2⟩ := applyPending_sub b ok
    exact ⟨fun v hv => Or.inr (h1 v hv), fun v hv => Or.inr (h2 v hv)⟩

theorem delivered_append (a b : List Ev) : delivered (a ++ b) = delivered a ++ delivered b := by
  induction a with
  | nil => simp [delivered]
  | cons e es ih =>
    cases e with
    | setState x => simpa [delivered] using ih
    | apply ns us ok =>
      cases ok
      · simpa [delivered] using ih
      · simp [delivered, ih]

theorem offered_cons (op : Op) (ops : List Op) : offered (op :: ops) = offered [op] ++ offered ops := by
  cases op <;> simp [offered]

/-- Every delivered update was offered by some `handle` op or was pending initially. -/
theorem delivered_sub (ops : List Op) : ∀ b, ∀ v ∈ delivered (events b ops), v ∈ offered ops ∨ v ∈ b.pending := by
  induction ops with
  | nil => intro b v hv; simp [events, delivered] at hv
  | cons op ops ih =>
    intro b v hv
    simp only [events, delivered_append, List.mem_append] at hv
    obtain ⟨h1, h2⟩ := step_sub b op
    rw [offered_cons, List.mem_append]
    rcases hv with hv | hv
    · rcases h1 v hv with h | h
      · exact Or.inl (Or.inl h)
      · exact Or.inr h
    · rcases ih _ v hv with h | h
      · exact Or.inl (Or.inr h)
      · rcases h2 v h with h | h
        · exact Or.inl (Or.inl h)
        · exact Or.inr h

/-! ### Independent boxes -/

theorem sys_events_proj (k : Nat) (ops : List (Nat × Op)) : ∀ s : Sys,
    Sys.events s k ops = events (s k) (proj k ops) := by
  induction ops with
  | nil => intro s; simp [Sys.events, proj, events]
  | cons p ps ih =>
    intro s
    obtain ⟨j, op⟩ := p
    by_cases hj : j = k
    · subst hj
      have : proj j ((j, op) :: ps) = op :: proj j ps := by simp [proj]
      rw [this]
      simp only [Sys.events, events, if_true]
      rw [ih]
      simp [Sys.step]
    · have : proj k ((j, op) :: ps) = proj k ps := by
        simp [proj, hj]
      rw [this]
      simp only [Sys.events, hj, if_false, List.nil_append]
      rw [ih]
      have : (Sys.step s j op) k = s k := by
        simp only [Sys.step]
        rw [if_neg (fun h => hj h.symm)]
      rw [this]

theorem sys_run_proj (k : Nat) (ops : List (Nat × Op)) : ∀ s : Sys,
    (Sys.run s ops) k = run (s k) (proj k ops) := by
  induction ops with
  | nil => intro s; simp [Sys.run, proj, run]
  | cons p ps ih =>
    intro s
    obtain ⟨j, op⟩ := p
    by_cases hj : j = k
    · subst hj
      have : proj j ((j, op) :: ps) = op :: proj j ps := by simp [proj]
      rw [this]
      simp only [Sys.run, run]
      rw [ih]
      simp [Sys.step]
    · have : proj k ((j, op) :: ps) = proj k ps := by
        simp [proj, hj]
      rw [this]
      simp only [Sys.run]
      rw [ih]
      have : (Sys.step s j op) k = s k := by
        simp only [Sys.step]
        rw [if_neg (fun h => hj h.symm)]
      rw [this]

/-! ### How the state of a box can change in one step -/

/-- Shape of what one step does to the state (`ok` = the callback's result). -/
def StepShape (b : Box) (b' : Box) (evs : List Ev) (ok : Bool) : Prop :=
  (evs = [] ∧ b'.state = b.state) ∨
  (∃ ns us, evs = [.apply ns us ok] ∧ chain b.state us = some ns ∧ us ≠ [] ∧
      b'.state = if ok then ns else b.state)

theorem applyPending_shape (b : Box) (ok : Bool) (b0 : Box) (hs : b.state = b0.state) :
    StepShape b0 (applyPending b ok).1 (applyPending b ok).2 ok := by
  unfold applyPending StepShape
  rw [← hs]
  have hc := walk_chain (sortByStart b.pending) b.state
  generalize walk b.state (sortByStart b.pending) = r at hc
  by_cases he : r.1.isEmpty = true
  · simp [he]
  · have hne : r.1 ≠ [] := by simpa using he
    cases ok
    · right; exact ⟨r.2.1, r.1, by simp [he], hc, hne, by simp [he]⟩
    · right; exact ⟨r.2.1, r.1, by simp [he], hc, hne, by simp [he]⟩

theorem handle_shape (b : Box) (u : Upd) (ok : Bool) :
    StepShape b (handle b u ok).1 (handle b u ok).2 ok := by
  unfold handle
  split
  · left; simp
  · split
    · split
      · left; simp
      · split
        · exact applyPending_shape _ ok b rfl
        · left; simp
    · split
      · rename_i h
        have ha := (checkGap_apply_iff _ _ _).1 h
        split
        · exact applyPending_shape _ ok b rfl
        · cases ok
          · right; exact ⟨u.state, [u], by simp, by simp [chain, ha], by simp, by simp⟩
          · right; exact ⟨u.state, [u], by simp, by simp [chain, ha], by simp, by simp⟩
      · split
        · exact applyPending_shape _ ok b rfl
        · left; simp
      · left; simp

/-! ### A position is covered by at most one delivered update -/

def covers (p : Int) (u : Upd) : Bool := decide (u.start < p) && decide (p ≤ u.state)

theorem ordered_covers_le_one (d : List Upd) (p : Int) :
    orderedRanges d = true → (∀ u ∈ d, 0 ≤ u.count) → (d.filter (covers p)).length ≤ 1 := by
  induction d with
  | nil => intro _ _; simp
  | cons x xs ih =>
    intro ho hc
    simp only [orderedRanges, Bool.and_eq_true, List.all_eq_true, decide_eq_true_eq] at ho
    have ihx := ih ho.2 (fun u hu => hc u (List.mem_cons_of_mem _ hu))
    by_cases hx : covers p x = true
    · have hnil : xs.filter (covers p) = [] := by
        rw [List.filter_eq_nil_iff]
        intro v hv hcv
        have h1 := ho.1 v hv
        simp only [covers, Bool.and_eq_true, decide_eq_true_eq] at hx hcv
        omega
      simp [List.filter, hx, hnil]
    · have : (x :: xs).filter (covers p) = xs.filter (covers p) := by
        simp [List.filter, hx]
      rw [this]; exact ihx

theorem orderedRanges_pairwise (d : List Upd) :
    orderedRanges d = true → d.Pairwise (fun u v => u.state ≤ v.start) := by
  induction d with
  | nil => intro _; exact List.Pairwise.nil
  | cons x xs ih =>
    intro ho
    simp only [orderedRanges, Bool.and_eq_true, List.all_eq_true, decide_eq_true_eq] at ho
    exact List.Pairwise.cons ho.1 (ih ho.2)

theorem holds_observe (ops : List Op) : ∀ b, holds b.state (observe b ops) = true := by
  induction ops with
  | nil => intro b; simp [observe, holds]
  | cons op ops ih =>
    intro b
    simp only [observe, holds]
    rw [step_walkEvs]
    simp [ih]

end TdModel.C01
