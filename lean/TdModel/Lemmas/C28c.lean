/-
C28 — waiters are served: invariant relating parked waiters to the free list, the limit and the
stuck generation.
-/
import TdModel.Lemmas.C28b

namespace TdModel.C27

structure WInv (s : State) : Prop where
  /-- a parked waiter's key is still registered or its channel holds a connection -/
  k7 : ∀ (i : Nat) (x : Caller) (k g : Nat), s.callers[i]? = some x → x.pc = .waiting k g →
    k ∈ s.reqs ∨ ∃ c, (k, c) ∈ s.inbox
  /-- callers' keys are distinct -/
  k4 : ∀ (i j : Nat) (x y : Caller) (k : Nat), s.callers[i]? = some x → s.callers[j]? = some y →
    pcKey x.pc = some k → pcKey y.pc = some k → i = j
  k8 : ∀ (i : Nat) (x : Caller) (k : Nat), s.callers[i]? = some x → pcKey x.pc = some k → k < s.nextKey
  g : ∀ (i : Nat) (x : Caller) (k g : Nat), s.callers[i]? = some x → x.pc = .waiting k g → g ≤ s.gen
  /-- a waiter that is registered and has not been signalled waits for a reason: nothing idle, no free slot -/
  w : ∀ (i : Nat) (x : Caller) (k g : Nat), s.callers[i]? = some x → x.pc = .waiting k g → k ∈ s.reqs →
    g = s.gen → s.free = [] ∧ s.max ≠ 0 ∧ s.max ≤ s.total

theorem winv_init (m n : Nat) : WInv (init m n) := by
  refine ⟨?_, ?_, ?_, ?_, ?_⟩
  · intro i x k g h hp
    simp [init, List.getElem?_replicate] at h
    obtain ⟨_, rfl⟩ := h
    cases hp
  · intro i j x y k h _ hp
    simp [init, List.getElem?_replicate] at h
    obtain ⟨_, rfl⟩ := h
    simp [pcKey] at hp
  · intro i x k h hp
    simp [init, List.getElem?_replicate] at h
    obtain ⟨_, rfl⟩ := h
    simp [pcKey] at hp
  · intro i x k g h hp
    simp [init, List.getElem?_replicate] at h
    obtain ⟨_, rfl⟩ := h
    cases hp
  · intro i x k g h hp
    simp [init, List.getElem?_replicate] at h
    obtain ⟨_, rfl⟩ := h
    cases hp

theorem getElem?_set_cases {cs : List Caller} {i0 i : Nat} {y z : Caller} (h : (cs.set i0 y)[i]? = some z) :
    (i = i0 ∧ z = y) ∨ (i ≠ i0 ∧ cs[i]? = some z) := by
  simp only [List.getElem?_set] at h
  by_cases hi : i0 = i
  · subst hi
    simp only [if_true] at h
    split at h
    · cases h; exact Or.inl ⟨rfl, rfl⟩
    · cases h
  · simp only [hi, if_false] at h
    exact Or.inr ⟨fun e => hi e.symm, h⟩

/-- Caller `i0` changes to `y`: if `y` is parked it was parked on the same key and generation before,
and its key (if any) is the old key; nothing else changes. -/
theorem winv_pc {t : State} (hI : WInv t) (i0 : Nat) (x y : Caller) (hx : t.callers[i0]? = some x)
    (hnw : ∀ k g, y.pc = .waiting k g → x.pc = .waiting k g) (hk : ∀ k, pcKey y.pc = some k → pcKey x.pc = some k) :
    WInv { t with callers := t.callers.set i0 y } := by
  refine ⟨?_, ?_, ?_, ?_, ?_⟩
  · intro i z k g hz hp
    rcases getElem?_set_cases hz with ⟨_, rfl⟩ | ⟨_, hz'⟩
    · exact hI.k7 i0 x k g hx (hnw k g hp)
    · exact hI.k7 i z k g hz' hp
  · intro i j z1 z2 k h1 h2 p1 p2
    rcases getElem?_set_cases h1 with ⟨rfl, rfl⟩ | ⟨hn1, h1'⟩
    · rcases getElem?_set_cases h2 with ⟨rfl, rfl⟩ | ⟨hn2, h2'⟩
      · rfl
      · exact hI.k4 _ _ x z2 k hx h2' (hk k p1) p2
    · rcases getElem?_set_cases h2 with ⟨rfl, rfl⟩ | ⟨hn2, h2'⟩
      · exact hI.k4 _ _ z1 x k h1' hx p1 (hk k p2)
      · exact hI.k4 i j z1 z2 k h1' h2' p1 p2
  · intro i z k hz hp
    rcases getElem?_set_cases hz with ⟨_, rfl⟩ | ⟨_, hz'⟩
    · exact hI.k8 i0 x k hx (hk k hp)
    · exact hI.k8 i z k hz' hp
  · intro i z k g hz hp
    rcases getElem?_set_cases hz with ⟨_, rfl⟩ | ⟨_, hz'⟩
    · exact hI.g i0 x k g hx (hnw k g hp)
    · exact hI.g i z k g hz' hp
  · intro i z k g hz hp
    rcases getElem?_set_cases hz with ⟨_, rfl⟩ | ⟨_, hz'⟩
    · exact hI.w i0 x k g hx (hnw k g hp)
    · exact hI.w i z k g hz' hp

/-- Environment change with unchanged callers: keys of parked waiters keep a place, counters move
monotonically, and the "no reason to wake" clause is re-established for every registered key. -/
theorem winv_env {s t : State} (hI : WInv s) (hc : t.callers = s.callers)
    (h7 : ∀ (i : Nat) (x : Caller) (k g : Nat), s.callers[i]? = some x → x.pc = .waiting k g →
      (k ∈ s.reqs ∨ ∃ c, (k, c) ∈ s.inbox) → (k ∈ t.reqs ∨ ∃ c, (k, c) ∈ t.inbox))
    (hn : s.nextKey ≤ t.nextKey) (hg : s.gen ≤ t.gen)
    (hw : ∀ (i : Nat) (x : Caller) (k g : Nat), s.callers[i]? = some x → x.pc = .waiting k g → k ∈ t.reqs →
      g = t.gen → (k ∈ s.reqs ∧ g = s.gen) ∧
        (s.free = [] ∧ s.max ≠ 0 ∧ s.max ≤ s.total → t.free = [] ∧ t.max ≠ 0 ∧ t.max ≤ t.total)) :
    WInv t := by
  refine ⟨?_, ?_, ?_, ?_, ?_⟩
  · intro i x k g hx hp
    rw [hc] at hx
    exact h7 i x k g hx hp (hI.k7 i x k g hx hp)
  · intro i j x y k h1 h2 p1 p2
    rw [hc] at h1 h2
    exact hI.k4 i j x y k h1 h2 p1 p2
  · intro i x k hx hp
    rw [hc] at hx
    exact Nat.lt_of_lt_of_le (hI.k8 i x k hx hp) hn
  · intro i x k g hx hp
    rw [hc] at hx
    exact Nat.le_trans (hI.g i x k g hx hp) hg
  · intro i x k g hx hp hk hgg
    rw [hc] at hx
    obtain ⟨⟨h1, h2⟩, h3⟩ := hw i x k g hx hp hk hgg
    exact h3 (hI.w i x k g hx hp h1 h2)

theorem takeKey_other {k d : Nat} {l l' : List (Nat × Nat)} (h : takeKey k l = some (d, l')) (e : Nat × Nat)
    (he : e ∈ l) (hk : e.1 ≠ k) : e ∈ l' := by
  induction l generalizing l' with
  | nil => cases he
  | cons a as ih =>
    simp only [takeKey] at h
    split at h
    · rename_i hak
      simp at h
      obtain ⟨rfl, rfl⟩ := h
      rcases List.mem_cons.1 he with rfl | he'
      · exact absurd hak hk
      · exact he'
    · split at h
      · rename_i c' as' has
        simp at h
        obtain ⟨rfl, rfl⟩ := h
        rcases List.mem_cons.1 he with rfl | he'
        · simp
        · exact List.mem_cons_of_mem _ (ih has he')
      · cases h

theorem takeKey_some_of_mem {k c : Nat} {l : List (Nat × Nat)} (h : (k, c) ∈ l) : ∃ d rest, takeKey k l = some (d, rest) := by
  induction l with
  | nil => cases h
  | cons a as ih =>
    simp only [takeKey]
    by_cases hak : a.1 = k
    · simp [hak]
    · simp only [hak, if_false]
      rcases List.mem_cons.1 h with rfl | h'
      · exact absurd rfl hak
      · obtain ⟨d, rest, hr⟩ := ih h'
        rw [hr]; exact ⟨d, _, rfl⟩

/-- Caller `j` leaves its key `kj` (to a pc without key); the environment `t` lost at most entries of key `kj`. -/
theorem winv_leave {s t : State} (hI : WInv s) (j : Nat) (x : Caller) (p : PC) (kj : Nat)
    (hx : s.callers[j]? = some x) (hxk : pcKey x.pc = some kj) (hp : pcKey p = none)
    (hc : t.callers = s.callers)
    (hr : ∀ k, k ∈ s.reqs → k ≠ kj → k ∈ t.reqs) (hr' : ∀ k, k ∈ t.reqs → k ∈ s.reqs)
    (hi : ∀ e, e ∈ s.inbox → e.1 ≠ kj → e ∈ t.inbox)
    (hf : t.free = s.free) (hm : t.max = s.max) (ht : t.total = s.total) (hg : t.gen = s.gen)
    (hn : t.nextKey = s.nextKey) : WInv (setPc t j x p) := by
  have hnw : ∀ k g, p ≠ .waiting k g := by
    intro k g h; rw [h] at hp; simp [pcKey] at hp
  have hx' : t.callers[j]? = some x := by rw [hc]; exact hx
  refine ⟨?_, ?_, ?_, ?_, ?_⟩
  · intro i z k g hz hpz
    rcases getElem?_set_cases hz with ⟨_, rfl⟩ | ⟨hne, hz'⟩
    · exact absurd hpz (hnw k g)
    · rw [hc] at hz'
      have hkk : k ≠ kj := by
        intro e; subst e
        exact hne (hI.k4 i j z x k hz' hx (by simp [hpz, pcKey]) hxk)
      rcases hI.k7 i z k g hz' hpz with h | ⟨c, h⟩
      · exact Or.inl (hr k h hkk)
      · exact Or.inr ⟨c, hi (k, c) h hkk⟩
  · intro i1 i2 z1 z2 k h1 h2 p1 p2
    rcases getElem?_set_cases h1 with ⟨rfl, rfl⟩ | ⟨_, h1'⟩
    · rw [hp] at p1; cases p1
    · rcases getElem?_set_cases h2 with ⟨rfl, rfl⟩ | ⟨_, h2'⟩
      · rw [hp] at p2; cases p2
      · rw [hc] at h1' h2'
        exact hI.k4 i1 i2 z1 z2 k h1' h2' p1 p2
  · intro i z k hz hpz
    rcases getElem?_set_cases hz with ⟨_, rfl⟩ | ⟨_, hz'⟩
    · rw [hp] at hpz; cases hpz
    · rw [hc] at hz'
      show k < t.nextKey
      rw [hn]; exact hI.k8 i z k hz' hpz
  · intro i z k g hz hpz
    rcases getElem?_set_cases hz with ⟨_, rfl⟩ | ⟨_, hz'⟩
    · exact absurd hpz (hnw k g)
    · rw [hc] at hz'
      show g ≤ t.gen
      rw [hg]; exact hI.g i z k g hz' hpz
  · intro i z k g hz hpz hk hgg
    rcases getElem?_set_cases hz with ⟨_, rfl⟩ | ⟨_, hz'⟩
    · exact absurd hpz (hnw k g)
    · rw [hc] at hz'
      have := hI.w i z k g hz' hpz (hr' k hk) (by rw [← hg]; exact hgg)
      show t.free = [] ∧ t.max ≠ 0 ∧ t.max ≤ t.total
      rw [hf, hm, ht]; exact this

theorem winv_release {s s1 : State} {c : Nat} {ko : Option Nat} (hI : WInv s) (h : release s c ko = some s1) :
    WInv s1 := by
  cases ko with
  | none =>
    simp only [release] at h
    split at h
    · rename_i hre
      cases h
      apply winv_env (t := { s with free := c :: s.free }) hI rfl (fun _ _ _ _ _ _ h => h) (Nat.le_refl _) (Nat.le_refl _)
      intro i x k g _ _ hk _
      have hk' : k ∈ s.reqs := hk
      rw [hre] at hk'; cases hk'
    · cases h
  | some k0 =>
    simp only [release] at h
    split at h
    · rename_i hk0
      cases h
      apply winv_env (t := { s with reqs := s.reqs.erase k0, inbox := s.inbox ++ [(k0, c)] }) hI rfl ?_ (Nat.le_refl _) (Nat.le_refl _)
      · intro i x k g _ _ hk hgg
        exact ⟨⟨List.mem_of_mem_erase hk, hgg⟩, fun h => h⟩
      · intro i x k g _ _ h
        rcases h with h | ⟨c', h⟩
        · by_cases hkk : k = k0
          · subst hkk
            exact Or.inr ⟨c, by simp⟩
          · exact Or.inl ((List.mem_erase_of_ne hkk).2 h)
        · exact Or.inr ⟨c', List.mem_append_left _ h⟩
    · cases h

theorem winv_markDead {s : State} (hI : WInv s) (d : Nat) : WInv (markDead s d) := by
  unfold markDead
  split
  · rename_i cn hcn
    split
    · exact hI
    · apply winv_env (t := { s with total := s.total - 1, free := s.free.erase d, conns := s.conns.set d { cn with dead := true }, gen := s.gen + 1 }) hI rfl (fun _ _ _ _ _ _ h => h) (Nat.le_refl _) (Nat.le_succ _)
      intro i x k g hx hp _ hgg
      have := hI.g i x k g hx hp
      have hgg' : g = s.gen + 1 := hgg
      omega
  · exact hI

theorem winv_same {s t : State} (hI : WInv s) (hc : t.callers = s.callers) (hr : t.reqs = s.reqs)
    (hi : t.inbox = s.inbox) (hf : t.free = s.free) (hm : t.max = s.max) (ht : t.total = s.total)
    (hg : t.gen = s.gen) (hn : t.nextKey = s.nextKey) : WInv t := by
  apply winv_env hI hc
  · intro i x k g _ _ h; rw [hr, hi]; exact h
  · rw [hn]; exact Nat.le_refl _
  · rw [hg]; exact Nat.le_refl _
  · intro i x k g _ _ hk hgg
    rw [hr] at hk; rw [hg] at hgg
    refine ⟨⟨hk, hgg⟩, ?_⟩
    rw [hf, hm, ht]; exact fun h => h

theorem release_setPc {t s3 : State} (i : Nat) (x : Caller) (p : PC) {c : Nat} {ko : Option Nat}
    (h : release t c ko = some s3) : release (setPc t i x p) c ko = some (setPc s3 i x p) := by
  cases ko with
  | none =>
    simp only [release] at h ⊢
    split at h
    · rename_i hre
      cases h
      have : (setPc t i x p).reqs = [] := hre
      rw [if_pos this]; rfl
    · cases h
  | some k =>
    simp only [release] at h ⊢
    split at h
    · rename_i hk
      cases h
      have : k ∈ (setPc t i x p).reqs := hk
      rw [if_pos this]; rfl
    · cases h

end TdModel.C27
