/-
C28 — progress: a caller inside `acquire` / `Invoke` always has an own enabled step, except where it
legitimately waits for the environment (a connection being established, no capacity).
-/
import TdModel.Lemmas.C28d

namespace TdModel.C27

theorem release_enabled (s : State) (c : Nat) : ∃ ko s', release s c ko = some s' := by
  cases hr : s.reqs with
  | nil => exact ⟨none, _, by simp [release, hr]; rfl⟩
  | cons k ks => exact ⟨some k, _, by simp [release, hr]; rfl⟩

/-- A held connection exists (its id is a valid index). -/
theorem held_exists {m : Nat} {s : State} (hI : HInv m s) {i : Nat} {x : Caller} {c : Nat}
    (hx : s.callers[i]? = some x) (hp : heldBy x.pc = some c) : ∃ cn, s.conns[c]? = some cn := by
  cases hcn : s.conns[c]? with
  | some cn => exact ⟨cn, rfl⟩
  | none =>
    exfalso
    have hlen : s.conns.length ≤ c := by
      rcases Nat.lt_or_ge c s.conns.length with h' | h'
      · rw [List.getElem?_eq_getElem h'] at hcn; cases hcn
      · exact h'
    have h1 := one_le_nCallers hx hp
    have := hI.dang c hlen
    simp only [holders] at this
    omega

theorem caller_progress {cfg : Cfg} (hg : Good cfg) {m : Nat} {s : State} (hI : HInv m s) (i : Nat) (x : Caller)
    (hx : s.callers[i]? = some x) :
    (x.pc = .idle → ∃ s', step cfg s (.start i) = some s') ∧
    (x.pc = .start → ∃ s', step cfg s (.enter i) = some s') ∧
    (x.pc = .reserved → ∃ s', step cfg s (.mk i) = some s') ∧
    (∀ c, x.pc = .check c → ∃ s', step cfg s (.check i) = some s') ∧
    (∀ k w, x.pc = .giveup k w → ∃ ko s', step cfg s (.giveup i ko) = some s') ∧
    (∀ c r, x.pc = .using c → ∃ ko s', step cfg s (.finish i r ko) = some s') ∧
    (∀ c cn, x.pc = .creating c → s.conns[c]? = some cn → (cn.ready = true ∨ cn.dead = true ∨ x.cancelled = true) →
      ∃ b s', step cfg s (.cwake i b) = some s') ∧
    (∀ c, x.pc = .creating c → ∃ cn, s.conns[c]? = some cn) := by
  obtain ⟨_, _, hgB, hgT, hgR⟩ := hg
  refine ⟨?_, ?_, ?_, ?_, ?_, ?_, ?_, ?_⟩
  · intro hp; exact ⟨_, by simp [step, hx, hp]; rfl⟩
  · intro hp
    cases hf : s.free with
    | cons d fs => exact ⟨_, by simp [step, hx, hp, hf]; rfl⟩
    | nil =>
      by_cases hl : s.max = 0 ∨ s.total < s.max
      · exact ⟨_, by simp only [step, hx, hp, hf, if_true, hl]; rfl⟩
      · exact ⟨_, by simp only [step, hx, hp, hf, if_true, hl, if_false]; rfl⟩
  · intro hp; exact ⟨_, by simp [step, hx, hp]; rfl⟩
  · intro c hp
    cases hd : isDead s c with
    | true => exact ⟨_, by simp [step, hx, hp, hd]; rfl⟩
    | false => exact ⟨_, by simp [step, hx, hp, hd]; rfl⟩
  · intro k w hp
    cases ht : takeKey k s.inbox with
    | none => exact ⟨none, _, by simp [step, hx, hp, ht]; rfl⟩
    | some cr =>
      obtain ⟨c, rest⟩ := cr
      cases w with
      | stuck => exact ⟨none, _, by simp [step, hx, hp, ht]; rfl⟩
      | ctx =>
        obtain ⟨ko, s3, h3⟩ := release_enabled { s with reqs := s.reqs.erase k, inbox := rest } c
        exact ⟨ko, _, by simp [step, hx, hp, ht, h3]; rfl⟩
  · intro c r hp
    by_cases hr : r = .retry ∧ x.cancelled = false
    · exact ⟨none, _, by simp [step, hx, hp, hr]; rfl⟩
    · obtain ⟨ko, s1, h1⟩ := release_enabled s c
      exact ⟨ko, _, by simp only [step, hx, hp, hr, if_false, h1]; rfl⟩
  · intro c cn hp hcn hor
    rcases hor with h | h | h
    · exact ⟨.ready, _, by simp [step, hx, hp, hcn, h]; rfl⟩
    · exact ⟨.dead, _, by simp [step, hx, hp, hcn, h]; rfl⟩
    · exact ⟨.ctx, _, by simp [step, hx, hp, hcn, h]; rfl⟩
  · intro c hp
    exact held_exists hI hx (by simp [hp, heldBy])

end TdModel.C27
