import TdModel.Model.C41

namespace TdModel.C41
open TdModel

/-- Sorted by descending expiry (what `sort.Sort(saltSlice)` establishes). -/
def Sorted (l : Store) : Prop := l.Pairwise (fun a b => a.validUntil ≥ b.validUntil)

theorem lookaheadNs_eq : lookaheadNs = 300000000000 := rfl
theorem codeIncorrectServerSalt_eq : codeIncorrectServerSalt = 48 := rfl

theorem dateOf_eq (now : Int) : dateOf now = now / 1000000000 + 300 := by
  unfold dateOf; rw [lookaheadNs_eq]; omega

theorem getLast?_mem {α} (l : List α) (x : α) (h : l.getLast? = some x) : x ∈ l := by
  obtain ⟨ys, rfl⟩ := List.getLast?_eq_some_iff.mp h
  simp

/-- The last element of a list sorted by descending expiry has the smallest expiry. -/
theorem sorted_last_min (l : Store) (x : Salt) (hs : Sorted l) (h : l.getLast? = some x) :
    ∀ y ∈ l, x.validUntil ≤ y.validUntil := by
  obtain ⟨ys, rfl⟩ := List.getLast?_eq_some_iff.mp h
  intro y hy
  unfold Sorted at hs
  rw [List.pairwise_append] at hs
  rcases List.mem_append.mp hy with hy | hy
  · exact hs.2.2 y hy x (by simp)
  · have : y = x := by simpa using hy
    subst this; omega

theorem sorted_filter (l : Store) (p : Salt → Bool) (hs : Sorted l) : Sorted (l.filter p) :=
  List.Pairwise.filter p hs

theorem mem_insertDesc (s y : Salt) (l : Store) : y ∈ insertDesc s l ↔ y = s ∨ y ∈ l := by
  induction l with
  | nil => simp [insertDesc]
  | cons x xs ih =>
    simp only [insertDesc]
    split
    · simp
    · simp only [List.mem_cons, ih]
      constructor
      · rintro (h | h | h)
        · exact Or.inr (Or.inl h)
        · exact Or.inl h
        · exact Or.inr (Or.inr h)
      · rintro (h | h | h)
        · exact Or.inr (Or.inl h)
        · exact Or.inl h
        · exact Or.inr (Or.inr h)

theorem sorted_insertDesc (s : Salt) (l : Store) (hs : Sorted l) : Sorted (insertDesc s l) := by
  induction l with
  | nil => simp [insertDesc, Sorted]
  | cons x xs ih =>
    unfold Sorted at hs ⊢
    rw [List.pairwise_cons] at hs
    simp only [insertDesc]
    split
    · rename_i h
      rw [List.pairwise_cons]
      refine ⟨?_, List.pairwise_cons.mpr hs⟩
      intro y hy
      rcases List.mem_cons.mp hy with hy | hy
      · subst hy; exact h
      · have := hs.1 y hy; omega
    · rename_i h
      rw [List.pairwise_cons]
      refine ⟨?_, ih hs.2⟩
      intro y hy
      rcases (mem_insertDesc s y xs).mp hy with hy | hy
      · subst hy; omega
      · exact hs.1 y hy

theorem mem_sortDesc (y : Salt) (l : Store) : y ∈ sortDesc l ↔ y ∈ l := by
  induction l with
  | nil => simp [sortDesc]
  | cons x xs ih => simp [sortDesc, mem_insertDesc, ih]

theorem sorted_sortDesc (l : Store) : Sorted (sortDesc l) := by
  induction l with
  | nil => simp [sortDesc, Sorted]
  | cons x xs ih => exact sorted_insertDesc x _ ih

theorem mem_dedup (l : Store) : ∀ (seen : List Int) (y : Salt), y ∈ dedup l seen → y ∈ l ∧ y.salt ∉ seen := by
  induction l with
  | nil => intro seen y h; simp [dedup] at h
  | cons x xs ih =>
    intro seen y h
    simp only [dedup] at h
    split at h
    · have := ih seen y h
      exact ⟨List.mem_cons_of_mem _ this.1, this.2⟩
    · rename_i hx
      rcases List.mem_cons.mp h with h | h
      · subst h; exact ⟨by simp, hx⟩
      · have := ih (x.salt :: seen) y h
        exact ⟨List.mem_cons_of_mem _ this.1, fun hs => this.2 (List.mem_cons_of_mem _ hs)⟩

/-- After the duplicate filter no two entries share a salt value. -/
theorem dedup_distinct (l : Store) : ∀ (seen : List Int),
    (dedup l seen).Pairwise (fun a b => a.salt ≠ b.salt) := by
  induction l with
  | nil => intro seen; simp [dedup]
  | cons x xs ih =>
    intro seen
    simp only [dedup]
    split
    · exact ih seen
    · rw [List.pairwise_cons]
      refine ⟨?_, ih _⟩
      intro y hy
      have := (mem_dedup xs (x.salt :: seen) y hy).2
      intro h; apply this; rw [← h]; simp

/-- The first occurrence survives the duplicate filter. -/
theorem dedup_keeps (l : Store) : ∀ (seen : List Int) (y : Salt), y ∈ l → y.salt ∉ seen →
    ∃ z ∈ dedup l seen, z.salt = y.salt := by
  induction l with
  | nil => intro seen y h; simp at h
  | cons x xs ih =>
    intro seen y hy hs
    simp only [dedup]
    split
    · rename_i hx
      rcases List.mem_cons.mp hy with hy | hy
      · subst hy; exact absurd hx hs
      · exact ih seen y hy hs
    · rename_i hx
      rcases List.mem_cons.mp hy with hy | hy
      · subst hy; exact ⟨y, by simp, rfl⟩
      · by_cases hxy : y.salt = x.salt
        · exact ⟨x, by simp, hxy.symm⟩
        · obtain ⟨z, hz, hzs⟩ := ih (x.salt :: seen) y hy (by
            intro h; rcases List.mem_cons.mp h with h | h
            · exact hxy h
            · exact hs h)
          exact ⟨z, List.mem_cons_of_mem _ hz, hzs⟩

theorem validAfter_iff (vu d : Int) : validAfter vu d = true ↔ vu > d := by
  have h : Facts.C41.getValidStrict = true := rfl
  unfold validAfter gtS; rw [h]; simp

theorem keptByFilter_iff (vu d : Int) : keptByFilter vu d = true ↔ vu > d := by
  have h : Facts.C41.getFilterStrict = true := rfl
  unfold keptByFilter gtS; rw [h]; simp

theorem filter_kept_eq (st : Store) (d : Int) :
    st.filter (fun s => keptByFilter s.validUntil d) = st.filter (fun s => s.validUntil > d) := by
  apply List.filter_congr
  intro x _
  cases h : keptByFilter x.validUntil d with
  | true => have := (keptByFilter_iff _ _).mp h; simp [this]
  | false =>
    have : ¬ x.validUntil > d := fun h' => by rw [(keptByFilter_iff _ _).mpr h'] at h; cases h
    simp [this]

/-- The three outcomes of `Get`. -/
theorem get_cases (st : Store) (d : Int) :
    (st = [] ∧ get st d = (st, none)) ∨
    (∃ last, st.getLast? = some last ∧ last.validUntil > d ∧ get st d = (st, some last)) ∨
    (∃ last, st.getLast? = some last ∧ ¬ last.validUntil > d ∧
      get st d = (st.filter (fun s => s.validUntil > d), (st.filter (fun s => s.validUntil > d)).getLast?)) := by
  unfold get
  cases h : st.getLast? with
  | none => left; exact ⟨List.getLast?_eq_none_iff.mp h, rfl⟩
  | some last =>
    right
    by_cases hv : last.validUntil > d
    · left; exact ⟨last, rfl, hv, by simp [(validAfter_iff _ _).mpr hv]⟩
    · right
      have hv' : validAfter last.validUntil d = false := by
        cases hc : validAfter last.validUntil d with
        | false => rfl
        | true => exact absurd ((validAfter_iff _ _).mp hc) hv
      exact ⟨last, rfl, hv, by simp [hv', filter_kept_eq]⟩

/-- Both orders of "store the new salt" and "forget the future salts" followed by one more
`rpc.Do` are the canonical `Invoke`. -/
theorem invokeW_good (ops : List Nat) (h : ops = [1, 2, 3] ∨ ops = [2, 1, 3])
    (c : Conn) (now : Int) (rs : List Reaction) : invokeW ops c now rs = invokeCanon c now rs := by
  rcases h with rfl | rfl <;>
  · unfold invokeW invokeCanon
    cases rs with
    | nil => rfl
    | cons r rest =>
      cases r with
      | result => rfl
      | badMsg code ns => simp [applyOps, reset]

theorem invoke_eq_canon (c : Conn) (now : Int) (rs : List Reaction) : invoke c now rs = invokeCanon c now rs :=
  invokeW_good _ (Or.inl rfl) c now rs

end TdModel.C41
