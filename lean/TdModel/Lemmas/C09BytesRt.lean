import TdModel.Lemmas.C09Bytes

namespace TdModel.C09
open TdModel TdModel.Bin

/-! Layouts of the constructors, evaluated from the regenerated facts. -/

theorem layout_SInner : layoutOf "ServerDHInnerData" = some ⟨3045658042,
    [("Int128", "Nonce"), ("Int128", "ServerNonce"), ("Int", "G"), ("Bytes", "DhPrime"), ("Bytes", "GA"), ("Int", "ServerTime")],
    ["Int128", "Int128", "Int", "Bytes", "Bytes", "Int"]⟩ := by decide
theorem layout_CInner : layoutOf "ClientDHInnerData" = some ⟨1715713620,
    [("Int128", "Nonce"), ("Int128", "ServerNonce"), ("Long", "RetryID"), ("Bytes", "GB")],
    ["Int128", "Int128", "Long", "Bytes"]⟩ := by decide
theorem layout_PQDC : layoutOf "PQInnerDataDC" = some ⟨2851430293,
    [("Bytes", "Pq"), ("Bytes", "P"), ("Bytes", "Q"), ("Int128", "Nonce"), ("Int128", "ServerNonce"), ("Int256", "NewNonce"), ("Int", "DC")],
    ["Bytes", "Bytes", "Bytes", "Int128", "Int128", "Int256", "Int"]⟩ := by decide
theorem layout_PQTemp : layoutOf "PQInnerDataTempDC" = some ⟨1459478408,
    [("Bytes", "Pq"), ("Bytes", "P"), ("Bytes", "Q"), ("Int128", "Nonce"), ("Int128", "ServerNonce"), ("Int256", "NewNonce"), ("Int", "DC"), ("Int", "ExpiresIn")],
    ["Bytes", "Bytes", "Bytes", "Int128", "Int128", "Int256", "Int", "Int"]⟩ := by decide
theorem layout_ResPQ : layoutOf "ResPQ" = some ⟨85337187,
    [("Int128", "Nonce"), ("Int128", "ServerNonce"), ("Bytes", "Pq"), ("VectorLong", "ServerPublicKeyFingerprints")],
    ["Int128", "Int128", "Bytes", "VectorLong"]⟩ := by decide
theorem layout_DhOk : layoutOf "ServerDHParamsOk" = some ⟨3504867164,
    [("Int128", "Nonce"), ("Int128", "ServerNonce"), ("Bytes", "EncryptedAnswer")], ["Int128", "Int128", "Bytes"]⟩ := by decide
theorem layout_GenOk : layoutOf "DhGenOk" = some ⟨1003222836,
    [("Int128", "Nonce"), ("Int128", "ServerNonce"), ("Int128", "NewNonceHash1")], ["Int128", "Int128", "Int128"]⟩ := by decide
theorem layout_ReqPQ : layoutOf "ReqPqMultiRequest" = some ⟨3195965169, [("Int128", "Nonce")], ["Int128"]⟩ := by decide

/-- Every listed constructor: `EncodeBare` and `DecodeBare` agree on the kinds, the id fits 32 bits,
and `Encode`/`Decode` are id + bare form. -/
theorem layouts_consistent :
    Facts.C09.tlLayouts.all (fun r => r.2.2.1.map (·.1) == r.2.2.2 && decide (r.2.1 < 2 ^ 32)) = true ∧
    Facts.C09.tlBoxedIsIdThenBare = true := by decide

/-! Well-formedness: sizes the wire format can carry. -/

def intOK (i : Int) : Prop := -2147483648 ≤ i ∧ i < 2147483648

def SInner.wf (d : SInner) : Prop :=
  d.nonce.length = 16 ∧ d.serverNonce.length = 16 ∧ intOK d.g ∧ intOK d.serverTime ∧
  d.dhPrime < 256 ^ 4096 ∧ d.gA < 256 ^ 4096

def CInner.wf (d : CInner) : Prop :=
  d.nonce.length = 16 ∧ d.serverNonce.length = 16 ∧ (-2 ^ 63 ≤ d.retryId ∧ d.retryId < 2 ^ 63) ∧ d.gB < 256 ^ 4096

def PQInner.wf (d : PQInner) : Prop :=
  d.nonce.length = 16 ∧ d.serverNonce.length = 16 ∧ d.newNonce.length = 32 ∧ intOK d.dc ∧
  (if d.temp then intOK d.expiresIn else d.expiresIn = 0) ∧ d.pq < 256 ^ 4096 ∧ d.p < 256 ^ 4096 ∧ d.q < 256 ^ 4096

theorem natBE_small (n : Nat) (h : n < 256 ^ 4096) : (natBE n).length < 2 ^ 24 := by
  have := natBE_length_le 4096 n h; omega

theorem sinner_roundtrip (d : SInner) (h : d.wf) :
    ∃ b, encSInner d = some b ∧ ∀ rest, decSInner (b ++ rest) = some d := by
  obtain ⟨h1, h2, h3, h4, h5, h6⟩ := h
  unfold intOK at h3 h4
  have l5 := natBE_small _ h5
  have l6 := natBE_small _ h6
  have he : encSInner d = some (putU32 3045658042 ++ ([FV.raw d.nonce, .raw d.serverNonce, .int d.g, .bytes (natBE d.dhPrime),
      .bytes (natBE d.gA), .int d.serverTime] : List FV).flatMap encField) := by
    simp [encSInner, encObj, layout_SInner, collect, assoc, fget, kindOK, h1, h2, h3, h4, l5, l6]
  refine ⟨_, he, fun rest => ?_⟩
  obtain ⟨vs, hc, hd⟩ := decObj_encObj "ServerDHInnerData" _ layout_SInner (by decide) (by decide) _ _ rest he
  have hvs : vs = [FV.raw d.nonce, .raw d.serverNonce, .int d.g, .bytes (natBE d.dhPrime), .bytes (natBE d.gA), .int d.serverTime] := by
    simp [collect, assoc, fget, kindOK, h1, h2, h3, h4, l5, l6] at hc
    exact hc.symm
  subst hvs
  simp only [decSInner]
  rw [hd]
  simp [fRaw, fInt, fBytes, fget, beNat_natBE]

theorem cinner_roundtrip (d : CInner) (h : d.wf) :
    ∃ b, encCInner d = some b ∧ ∀ rest, decCInner (b ++ rest) = some d := by
  obtain ⟨h1, h2, h3, h4⟩ := h
  have l4 := natBE_small _ h4
  have hr : ofInt64 d.retryId < 2 ^ 64 := ofInt64_lt _
  have hr' : ofInt64 d.retryId < 18446744073709551616 := by simpa using hr
  have he : encCInner d = some (putU32 1715713620 ++ ([FV.raw d.nonce, .raw d.serverNonce, .long (ofInt64 d.retryId),
      .bytes (natBE d.gB)] : List FV).flatMap encField) := by
    simp [encCInner, encObj, layout_CInner, collect, assoc, fget, kindOK, h1, h2, hr', l4]
  refine ⟨_, he, fun rest => ?_⟩
  obtain ⟨vs, hc, hd⟩ := decObj_encObj "ClientDHInnerData" _ layout_CInner (by decide) (by decide) _ _ rest he
  have hvs : vs = [FV.raw d.nonce, .raw d.serverNonce, .long (ofInt64 d.retryId), .bytes (natBE d.gB)] := by
    simp [collect, assoc, fget, kindOK, h1, h2, hr', l4] at hc
    exact hc.symm
  subst hvs
  simp only [decCInner]
  rw [hd]
  simp [fRaw, fLong, fBytes, fget, beNat_natBE, toInt64_ofInt64 d.retryId h3]

/-- A boxed object of another constructor is refused by `ConsumeID`. -/
theorem decObj_wrong_id (T : String) (L : Layout) (hL : layoutOf T = some L) (id' : Nat) (hid' : id' < 2 ^ 32)
    (hne : id' ≠ L.id) (body : Bytes) : decObj T (putU32 id' ++ body) = .error .unexpectedID := by
  simp only [decObj, hL]
  have hlen : (putU32 id').length = 4 := putU32_length id'
  have h1 : ¬ ((putU32 id' ++ body).length < 4) := by simp [hlen]
  have h2 : fromLE ((putU32 id' ++ body).take 4) = id' := by
    rw [take_append_len _ _ 4 hlen]
    exact fromLE_leN 4 id' (by simpa using hid')
  simp only [consumeID, h1, if_false, h2, hne]

theorem pqinner_roundtrip (d : PQInner) (h : d.wf) :
    ∃ b, encPQInner d = some b ∧ ∀ rest, decPQInner (b ++ rest) = some d := by
  obtain ⟨h1, h2, h3, h4, h5, h6, h7, h8⟩ := h
  unfold intOK at h4
  have l6 := natBE_small _ h6
  have l7 := natBE_small _ h7
  have l8 := natBE_small _ h8
  cases ht : d.temp
  · -- p_q_inner_data_dc
    rw [ht] at h5
    simp only [Bool.false_eq_true, if_false] at h5
    have he' : encObj "PQInnerDataDC" (assoc
        [("Pq", .bytes (natBE d.pq)), ("P", .bytes (natBE d.p)), ("Q", .bytes (natBE d.q)), ("Nonce", .raw d.nonce),
         ("ServerNonce", .raw d.serverNonce), ("NewNonce", .raw d.newNonce), ("DC", .int d.dc), ("ExpiresIn", .int d.expiresIn)]) =
        some (putU32 2851430293 ++ ([FV.bytes (natBE d.pq), .bytes (natBE d.p), .bytes (natBE d.q),
          .raw d.nonce, .raw d.serverNonce, .raw d.newNonce, .int d.dc] : List FV).flatMap encField) := by
      simp [encObj, layout_PQDC, collect, assoc, fget, kindOK, h1, h2, h3, h4, l6, l7, l8]
    have he : encPQInner d = some (putU32 2851430293 ++ ([FV.bytes (natBE d.pq), .bytes (natBE d.p), .bytes (natBE d.q),
        .raw d.nonce, .raw d.serverNonce, .raw d.newNonce, .int d.dc] : List FV).flatMap encField) := by
      unfold encPQInner; rw [ht]; simp only [Bool.false_eq_true, if_false]; exact he'
    refine ⟨_, he, fun rest => ?_⟩
    obtain ⟨vs, hc, hd⟩ := decObj_encObj "PQInnerDataDC" _ layout_PQDC (by decide) (by decide) _ _ rest he'
    have hvs : vs = [FV.bytes (natBE d.pq), .bytes (natBE d.p), .bytes (natBE d.q), .raw d.nonce, .raw d.serverNonce,
        .raw d.newNonce, .int d.dc] := by
      simp [collect, assoc, fget, kindOK, h1, h2, h3, h4, l6, l7, l8] at hc
      exact hc.symm
    subst hvs
    simp only [decPQInner]
    rw [hd]
    cases d
    simp_all [pqInnerOf, fRaw, fInt, fBytes, fget, beNat_natBE]
  · -- p_q_inner_data_temp_dc: the permanent constructor's id does not match, the temporary one does
    rw [ht] at h5
    simp only [if_true] at h5
    unfold intOK at h5
    have he' : encObj "PQInnerDataTempDC" (assoc
        [("Pq", .bytes (natBE d.pq)), ("P", .bytes (natBE d.p)), ("Q", .bytes (natBE d.q)), ("Nonce", .raw d.nonce),
         ("ServerNonce", .raw d.serverNonce), ("NewNonce", .raw d.newNonce), ("DC", .int d.dc), ("ExpiresIn", .int d.expiresIn)]) =
        some (putU32 1459478408 ++ ([FV.bytes (natBE d.pq), .bytes (natBE d.p), .bytes (natBE d.q),
          .raw d.nonce, .raw d.serverNonce, .raw d.newNonce, .int d.dc, .int d.expiresIn] : List FV).flatMap encField) := by
      simp [encObj, layout_PQTemp, collect, assoc, fget, kindOK, h1, h2, h3, h4, h5, l6, l7, l8]
    have he : encPQInner d = some (putU32 1459478408 ++ ([FV.bytes (natBE d.pq), .bytes (natBE d.p), .bytes (natBE d.q),
        .raw d.nonce, .raw d.serverNonce, .raw d.newNonce, .int d.dc, .int d.expiresIn] : List FV).flatMap encField) := by
      unfold encPQInner; rw [ht]; simp only [if_true]; exact he'
    refine ⟨_, he, fun rest => ?_⟩
    obtain ⟨vs, hc, hd⟩ := decObj_encObj "PQInnerDataTempDC" _ layout_PQTemp (by decide) (by decide) _ _ rest he'
    have hvs : vs = [FV.bytes (natBE d.pq), .bytes (natBE d.p), .bytes (natBE d.q), .raw d.nonce, .raw d.serverNonce,
        .raw d.newNonce, .int d.dc, .int d.expiresIn] := by
      simp [collect, assoc, fget, kindOK, h1, h2, h3, h4, h5, l6, l7, l8] at hc
      exact hc.symm
    subst hvs
    have hw := decObj_wrong_id "PQInnerDataDC" _ layout_PQDC 1459478408 (by decide) (by decide)
      (([FV.bytes (natBE d.pq), .bytes (natBE d.p), .bytes (natBE d.q), .raw d.nonce, .raw d.serverNonce,
        .raw d.newNonce, .int d.dc, .int d.expiresIn] : List FV).flatMap encField ++ rest)
    simp only [decPQInner]
    rw [List.append_assoc, hw, ← List.append_assoc, hd]
    cases d
    simp_all [pqInnerOf, fRaw, fInt, fBytes, fget, beNat_natBE]

/-! ### messages -/

theorem resPQ_roundtrip (n sn : Bytes) (pq : Nat) (fps : List Nat)
    (h1 : n.length = 16) (h2 : sn.length = 16) (h3 : pq < 256 ^ 4096)
    (h4 : fps.length < 2147483648) (h5 : ∀ x ∈ fps, x < 18446744073709551616) :
    ∃ b, encMsg (.resPQ n sn pq fps) = some b ∧ ∀ rest, decServerMsg 0 (b ++ rest) = .resPQ n sn pq fps := by
  have l3 := natBE_small _ h3
  have he : encObj "ResPQ" (assoc [("Nonce", .raw n), ("ServerNonce", .raw sn), ("Pq", .bytes (natBE pq)),
      ("ServerPublicKeyFingerprints", .vlong fps)]) =
      some (putU32 85337187 ++ ([FV.raw n, .raw sn, .bytes (natBE pq), .vlong fps] : List FV).flatMap encField) := by
    simp [encObj, layout_ResPQ, collect, assoc, fget, kindOK, h1, h2, l3, h4]
    rw [if_pos h5]
    simp
  refine ⟨_, he, fun rest => ?_⟩
  obtain ⟨vs, hc, hd⟩ := decObj_encObj "ResPQ" _ layout_ResPQ (by decide) (by decide) _ _ rest he
  have hvs : vs = [FV.raw n, .raw sn, .bytes (natBE pq), .vlong fps] := by
    simp [collect, assoc, fget, kindOK, h1, h2, l3, h4] at hc
    exact hc.2.symm
  subst hvs
  simp only [decServerMsg]
  rw [hd]
  simp [fRaw, fBytes, fVLong, fget, beNat_natBE]

theorem dhOk_roundtrip (n sn ct : Bytes) (h1 : n.length = 16) (h2 : sn.length = 16) (h3 : ct.length < 2 ^ 24) :
    ∃ b, encMsg (.dhOk n sn ct) = some b ∧ ∀ rest, decServerMsg 1 (b ++ rest) = .dhOk n sn ct := by
  have he : encObj "ServerDHParamsOk" (assoc [("Nonce", .raw n), ("ServerNonce", .raw sn), ("EncryptedAnswer", .bytes ct)]) =
      some (putU32 3504867164 ++ ([FV.raw n, .raw sn, .bytes ct] : List FV).flatMap encField) := by
    simp [encObj, layout_DhOk, collect, assoc, fget, kindOK, h1, h2, h3]
  refine ⟨_, he, fun rest => ?_⟩
  obtain ⟨vs, hc, hd⟩ := decObj_encObj "ServerDHParamsOk" _ layout_DhOk (by decide) (by decide) _ _ rest he
  have hvs : vs = [FV.raw n, .raw sn, .bytes ct] := by
    simp [collect, assoc, fget, kindOK, h1, h2, h3] at hc
    exact hc.symm
  subst hvs
  simp only [decServerMsg]
  rw [hd]
  simp [fRaw, fBytes, fget]

theorem genOk_roundtrip (n sn hash : Bytes) (h1 : n.length = 16) (h2 : sn.length = 16) (h3 : hash.length = 16) :
    ∃ b, encMsg (.genOk n sn hash) = some b ∧ ∀ rest, decServerMsg 2 (b ++ rest) = .genOk n sn hash := by
  have he : encObj "DhGenOk" (assoc [("Nonce", .raw n), ("ServerNonce", .raw sn), ("NewNonceHash1", .raw hash)]) =
      some (putU32 1003222836 ++ ([FV.raw n, .raw sn, .raw hash] : List FV).flatMap encField) := by
    simp [encObj, layout_GenOk, collect, assoc, fget, kindOK, h1, h2, h3]
  refine ⟨_, he, fun rest => ?_⟩
  obtain ⟨vs, hc, hd⟩ := decObj_encObj "DhGenOk" _ layout_GenOk (by decide) (by decide) _ _ rest he
  have hvs : vs = [FV.raw n, .raw sn, .raw hash] := by
    simp [collect, assoc, fget, kindOK, h1, h2, h3] at hc
    exact hc.symm
  subst hvs
  simp only [decServerMsg, threeRaw]
  rw [hd]
  simp [fRaw, fget]

theorem reqPQ_roundtrip (n : Bytes) (h1 : n.length = 16) :
    ∃ b, encMsg (.reqPQ n) = some b ∧ ∀ rest, decClientMsg (b ++ rest) = .reqPQ n := by
  have he : encObj "ReqPqMultiRequest" (assoc [("Nonce", .raw n)]) =
      some (putU32 3195965169 ++ ([FV.raw n] : List FV).flatMap encField) := by
    simp [encObj, layout_ReqPQ, collect, assoc, fget, kindOK, h1]
  refine ⟨_, he, fun rest => ?_⟩
  obtain ⟨vs, hc, hd⟩ := decObj_encObj "ReqPqMultiRequest" _ layout_ReqPQ (by decide) (by decide) _ _ rest he
  have hvs : vs = [FV.raw n] := by
    simp [collect, assoc, fget, kindOK, h1] at hc
    exact hc.symm
  subst hvs
  simp only [decClientMsg]
  rw [hd]
  simp [fRaw, fget]

end TdModel.C09
