/-
C25 — retransmission accounting of the RPC engine model: number of transmissions against the
retry limit, identity of every transmission, spacing by the retry interval.
-/
import TdModel.Lemmas.C24Ack
set_option linter.unusedVariables false
namespace TdModel.Rpc

/-- Number of transmissions of message id `i` in the transmission log. -/
def logCount (l : List (Nat × Nat × Nat)) (i : Nat) : Nat := (l.filter (fun e => e.1 == i)).length

@[simp] theorem logCount_nil (i : Nat) : logCount [] i = 0 := rfl

@[simp] theorem logCount_append (l : List (Nat × Nat × Nat)) (j q b i : Nat) :
    logCount (l ++ [(j, q, b)]) i = logCount l i + (if j = i then 1 else 0) := by
  simp [logCount, List.filter_append, List.filter_cons]
  split <;> simp

/-- The value `Do` returns or has already decided to return (while parked at `do.guard`). -/
def Call.outcome (c : Call) (r : Ret) : Prop := c.ret = some r ∨ (c.pc = .guard ∧ c.pend = r)

structure Retry (cfg : Cfg) (s : State) : Prop where
  /-- transmissions (calls of `send`, failed ones included) = 1 + completed retries, +1 while a re-send is
  in flight or after a re-send that failed; 0 only if the engine was closed on entry. -/
  count_sendR : ∀ i c, s.calls i = some c → c.pc = .sendR → c.sends = c.retries + 2
  count_loop : ∀ i c, s.calls i = some c → (c.pc = .send0 ∨ c.pc = .loop) → c.sends = c.retries + 1
  count_lo : ∀ i c, s.calls i = some c →
      c.retries + 1 ≤ c.sends ∨ (c.sends = 0 ∧ c.retries = 0 ∧ c.ret = some .closedRetry ∧ c.pc = .fin)
  count_hi : ∀ i c, s.calls i = some c → c.sends ≤ c.retries + 2
  count_extra : ∀ i c, s.calls i = some c → c.sends = c.retries + 2 → c.retries < cfg.maxRetries
  retries_lt : ∀ i c, s.calls i = some c → (c.pc = .send0 ∨ c.pc = .loop ∨ c.pc = .sendR) → c.retries < cfg.maxRetries
  retries_le : ∀ i c, s.calls i = some c → c.retries ≤ cfg.maxRetries
  ret_fin : ∀ i c, s.calls i = some c → c.ret ≠ none → c.pc = .fin
  res_not_limit : ∀ i c n, s.calls i = some c → c.res ≠ .retryLimit n
  limit_out : ∀ i c, s.calls i = some c → c.retries = cfg.maxRetries → c.outcome (.retryLimit cfg.maxRetries)
  out_limit : ∀ i c n, s.calls i = some c → c.outcome (.retryLimit n) → n = cfg.maxRetries ∧ c.retries = cfg.maxRetries
  /-- the log holds exactly the transmissions counted per call, each with the registered identity. -/
  log_count : ∀ i c, s.calls i = some c → logCount s.log i = c.sends
  log_none : ∀ i, s.calls i = none → logCount s.log i = 0
  log_ex : ∀ j q b, (j, q, b) ∈ s.log → s.calls j ≠ none
  log_ident : ∀ j q b c, (j, q, b) ∈ s.log → s.calls j = some c → c.seq = q ∧ c.body = b
  /-- spacing: the timer can only fire one interval after the latest transmission. -/
  sent_le_now : ∀ i c, s.calls i = some c → c.sentAt ≤ s.now
  deadline_ge : ∀ i c t, s.calls i = some c → c.deadline = some t → c.sentAt + cfg.interval ≤ t
  fired_ge : ∀ i c, s.calls i = some c → c.fired = true → c.sentAt + cfg.interval ≤ s.now

theorem retry_init (cfg : Cfg) : Retry cfg init := by
  constructor <;> simp [init]

macro "retry_close" hg:term : tactic =>
  `(tactic| (constructor <;>
      simp [setCall, setNotif, finish, Call.finish, removeAck, exitAck, Call.exitLoop, Call.retC, newCall, Call.outcome, Cfg.std_all $hg] <;>
      grind [Retry, Call.outcome]))

macro "retry_close0" : tactic =>
  `(tactic| (constructor <;>
      simp [setCall, setNotif, removeAck, Call.exitLoop, Call.retC, newCall, Call.outcome] <;>
      grind [Retry, Call.outcome]))

set_option maxHeartbeats 4000000 in
theorem retry_start {cfg : Cfg} {s s' : State} {i seq body : Nat} (hm : 1 ≤ cfg.maxRetries) (h : Retry cfg s)
    (hs : stepStart s i seq body = some s') : Retry cfg s' := by
  unfold stepStart at hs
  split at hs
  · simp at hs
  · try dsimp only at hs
    split at hs <;> simp at hs <;> subst hs <;> retry_close0

set_option maxHeartbeats 4000000 in
theorem retry_sret {cfg : Cfg} {s s' : State} {i : Nat} {o : Outcome} (hg : cfg.std = true) (hm : 1 ≤ cfg.maxRetries) (h : Retry cfg s)
    (hs : stepSret cfg s i o = some s') : Retry cfg s' := by
  unfold stepSret at hs
  std_norm hg at hs
  split at hs
  · simp at hs
  · split at hs <;> try (simp at hs)
    all_goals (try split at hs) <;> try (simp at hs)
    all_goals (first | subst hs | (obtain ⟨_, hs⟩ := hs; subst hs))
    all_goals retry_close hg

end TdModel.Rpc
