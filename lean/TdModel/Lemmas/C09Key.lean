import TdModel.Lemmas.C10

namespace TdModel.C09
open TdModel

/-- Primality, stated without Mathlib. -/
def IsPrime (p : Nat) : Prop := 2 ≤ p ∧ ∀ m, m ∣ p → m = 1 ∨ m = p

theorem coprime_of_prime_not_dvd (p a : Nat) (hp : IsPrime p) (h : ¬ p ∣ a) : Nat.Coprime p a := by
  unfold Nat.Coprime
  rcases hp.2 (Nat.gcd p a) (Nat.gcd_dvd_left p a) with h1 | h1
  · exact h1
  · exact absurd (h1 ▸ Nat.gcd_dvd_right p a) h

/-- A power of a unit mod a prime is not 0 mod that prime. -/
theorem pow_mod_prime_ne_zero (p a b : Nat) (hp : IsPrime p) (h0 : 0 < a) (hlt : a < p) : a ^ b % p ≠ 0 := by
  intro hz
  have hnd : ¬ p ∣ a := fun hd => by
    have := Nat.le_of_dvd h0 hd
    omega
  have hc : Nat.Coprime p (a ^ b) := (coprime_of_prime_not_dvd p a hp hnd).pow_right b
  have hd : p ∣ a ^ b := Nat.dvd_of_mod_eq_zero hz
  have : p ∣ Nat.gcd p (a ^ b) := Nat.dvd_gcd (Nat.dvd_refl p) hd
  rw [hc] at this
  have := Nat.le_of_dvd (by omega) this
  have := hp.1
  omega

theorem natToBE_length (len n : Nat) : (natToBE len n).length = len := by
  induction len generalizing n with
  | zero => rfl
  | succ k ih => simp [natToBE, ih]

/-- The big-endian bytes are all zero only for a value that is 0 modulo `256^len`. -/
theorem natToBE_zero (len n : Nat) (h : natToBE len n = List.replicate len 0) : n % 256 ^ len = 0 := by
  induction len generalizing n with
  | zero => simp [Nat.mod_one]
  | succ k ih =>
    have hrep : List.replicate (k + 1) (0 : UInt8) = List.replicate k 0 ++ [0] := by
      rw [List.replicate_succ']
    rw [natToBE, hrep] at h
    have hl : (natToBE k (n / 256)).length = (List.replicate k (0 : UInt8)).length := by
      simp [natToBE_length]
    obtain ⟨h1, h2⟩ := List.append_inj h hl
    have hq := ih (n / 256) h1
    have hb : n % 256 = 0 := by
      have h3 : UInt8.ofNat (n % 256) = 0 := by simpa using h2
      have h4 : (UInt8.ofNat (n % 256)).toNat = (0 : UInt8).toNat := by rw [h3]
      rw [UInt8.toNat_ofNat'] at h4
      have : n % 256 % 2 ^ 8 = n % 256 := Nat.mod_eq_of_lt (by omega)
      simp at h4
      omega
    rw [Nat.pow_succ, Nat.mul_comm, Nat.mod_mul, hb, hq]

end TdModel.C09
