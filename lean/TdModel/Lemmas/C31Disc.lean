/-
C31 — the publication discipline is crash-safe (core Lean only).

For ANY trace (any number of writers, failed calls dropped, cleanup, several saves) that is
`disciplined` w.r.t. `path`, every crash state — under power loss — reads the initial content of
`path` or one of the `published` contents.
-/
import TdModel.Lemmas.C31

namespace TdModel.C31
open TdModel

/-- Directory entries point to allocated inodes (in every directory version that may be on disk). -/
def WellFormed (s : FS) : Prop := ∀ d ∈ durableDirs s, ∀ n i, d n = some i → i < s.next

structure DInv (s : FS) (path : String) (old : Option Bytes) (pubs : List Bytes) : Prop where
  wf : WellFormed s
  safe : ∀ d ∈ durableDirs s, ∀ i, d path = some i →
    (s.ino i).hist = [] ∧ (some (s.ino i).cur = old ∨ (s.ino i).cur ∈ pubs)
  absent : ∀ d ∈ durableDirs s, d path = none → old = none

theorem DInv.mono {s : FS} {path : String} {old : Option Bytes} {pubs : List Bytes} (more : List Bytes)
    (h : DInv s path old pubs) : DInv s path old (pubs ++ more) :=
  ⟨h.wf, fun d hd i hi => ⟨(h.safe d hd i hi).1, (h.safe d hd i hi).2.imp id (List.mem_append_left _)⟩, h.absent⟩

theorem guarded_iff (s : FS) (path : String) (i : Nat) :
    guarded s path i = true ↔ ∃ d ∈ durableDirs s, d path = some i := by
  simp [guarded]

theorem DInv.plReads {s : FS} {path : String} {old : Option Bytes} {pubs : List Bytes}
    (h : DInv s path old pubs) : ∀ r ∈ plReads s path, r = old ∨ ∃ c ∈ pubs, r = some c := by
  intro r hr
  simp only [C31.plReads, List.mem_flatMap] at hr
  obtain ⟨d, hd, hr⟩ := hr
  cases hp : d path with
  | none => rw [hp] at hr; simp at hr; left; rw [hr, h.absent d hd hp]
  | some i =>
    rw [hp] at hr
    have h1 := h.safe d hd i hp
    simp only [durableContents, h1.1, List.nil_append, List.map_cons, List.map_nil, List.mem_singleton] at hr
    rcases h1.2 with h2 | h2
    · left; rw [hr, h2]
    · right; exact ⟨_, h2, hr⟩

/-- Same directory versions, inode table changed only outside the guarded inodes (or by cleaning). -/
theorem dinv_content_frame {s s' : FS} {path : String} {old : Option Bytes} {pubs : List Bytes}
    (h : DInv s path old pubs) (hnext : s'.next = s.next) (hdirs : durableDirs s' = durableDirs s)
    (hino : ∀ i, guarded s path i = true →
      (s'.ino i).cur = (s.ino i).cur ∧ ((s'.ino i).hist = (s.ino i).hist ∨ (s'.ino i).hist = [])) :
    DInv s' path old pubs := by
  refine ⟨?_, ?_, ?_⟩
  · intro d hd n i hi; rw [hdirs] at hd; rw [hnext]; exact h.wf d hd n i hi
  · intro d hd i hi
    rw [hdirs] at hd
    have hg := hino i ((guarded_iff s path i).2 ⟨d, hd, hi⟩)
    have h1 := h.safe d hd i hi
    refine ⟨?_, by rw [hg.1]; exact h1.2⟩
    rcases hg.2 with h2 | h2
    · rw [h2]; exact h1.1
    · exact h2
  · intro d hd hn; rw [hdirs] at hd; exact h.absent d hd hn

/-- A new directory version is pushed that agrees with the current one on `path`; old inodes untouched. -/
theorem dinv_dir_push {s s' : FS} {path : String} {old : Option Bytes} {pubs : List Bytes} (d' : String → Option Nat)
    (h : DInv s path old pubs) (hnext : s.next ≤ s'.next) (hdirs : durableDirs s' = durableDirs s ++ [d'])
    (hino : ∀ i, i < s.next → s'.ino i = s.ino i) (hwf : ∀ n i, d' n = some i → i < s'.next)
    (hpath : d' path = s.dir path) : DInv s' path old pubs := by
  have hcur : s.dir ∈ durableDirs s := by simp [durableDirs]
  refine ⟨?_, ?_, ?_⟩
  · intro d hd n i hi
    rw [hdirs, List.mem_append, List.mem_singleton] at hd
    rcases hd with hd | hd
    · exact Nat.lt_of_lt_of_le (h.wf d hd n i hi) hnext
    · subst hd; exact hwf n i hi
  · intro d hd i hi
    rw [hdirs, List.mem_append, List.mem_singleton] at hd
    rcases hd with hd | hd
    · rw [hino i (h.wf d hd path i hi)]; exact h.safe d hd i hi
    · subst hd; rw [hpath] at hi
      rw [hino i (h.wf _ hcur path i hi)]; exact h.safe _ hcur i hi
  · intro d hd hn
    rw [hdirs, List.mem_append, List.mem_singleton] at hd
    rcases hd with hd | hd
    · exact h.absent d hd hn
    · subst hd; rw [hpath] at hn; exact h.absent _ hcur hn

theorem not_guarded_ne {s : FS} {path : String} {i j : Nat} (hi : guarded s path i = false)
    (hj : guarded s path j = true) : j ≠ i := by
  intro h; subst h; rw [hi] at hj; cases hj

/-- One disciplined call keeps the invariant (collecting what it publishes), and so does every cut
of a write. -/
theorem dinv_step {s : FS} {path : String} {old : Option Bytes} {pubs : List Bytes} (op : Op)
    (h : DInv s path old pubs) (hok : opOK s path op = true) :
    DInv (step s op) path old (pubs ++ pubOf s path op) ∧ ∀ p ∈ partials s op, DInv p path old pubs := by
  have hcur : s.dir ∈ durableDirs s := by simp [durableDirs]
  cases op with
  | other t => simp [opOK] at hok
  | openDir fd =>
    refine ⟨?_, by simp [partials]⟩
    simpa [pubOf] using dinv_content_frame (s' := step s (.openDir fd)) h rfl rfl (fun i _ => ⟨rfl, Or.inl rfl⟩)
  | close fd =>
    refine ⟨?_, by simp [partials]⟩
    simpa [pubOf] using dinv_content_frame (s' := step s (.close fd)) h rfl rfl (fun i _ => ⟨rfl, Or.inl rfl⟩)
  | fsync fd =>
    refine ⟨?_, by simp [partials]⟩
    simp only [pubOf, List.append_nil, step]
    split
    · rename_i i _ _ _
      refine dinv_content_frame h rfl rfl ?_
      intro j _
      by_cases hj : j = i
      · subst hj; simp [upd]
      · simp [upd, hj]
    · -- directory fsync: only the current version remains
      refine ⟨?_, ?_, ?_⟩
      · intro d hd n i hi
        simp only [durableDirs, List.nil_append, List.mem_singleton] at hd
        subst hd; exact h.wf _ hcur n i hi
      · intro d hd i hi
        simp only [durableDirs, List.nil_append, List.mem_singleton] at hd
        subst hd; exact h.safe _ hcur i hi
      · intro d hd hn
        simp only [durableDirs, List.nil_append, List.mem_singleton] at hd
        subst hd; exact h.absent _ hcur hn
    · exact h
  | write fd data =>
    have key : ∀ data', DInv (step s (.write fd data')) path old pubs := by
      intro data'
      simp only [step]
      simp only [opOK] at hok
      split
      · rename_i i off app hfd
        rw [hfd] at hok
        have hng : guarded s path i = false := by simpa using hok
        refine dinv_content_frame h rfl rfl ?_
        intro j hj
        have := not_guarded_ne hng hj
        simp [upd, this]
      · exact h
    refine ⟨by simpa [pubOf] using key data, ?_⟩
    intro p hp
    simp only [partials, List.mem_map, List.mem_range] at hp
    obtain ⟨k, _, rfl⟩ := hp
    exact key _
  | ftruncate fd n =>
    refine ⟨?_, by simp [partials]⟩
    simp only [pubOf, List.append_nil, step]
    simp only [opOK] at hok
    split
    · rename_i i off app hfd
      rw [hfd] at hok
      have hng : guarded s path i = false := by simpa using hok
      refine dinv_content_frame h rfl rfl ?_
      intro j hj
      have := not_guarded_ne hng hj
      simp [upd, this]
    · exact h
  | unlink name =>
    refine ⟨?_, by simp [partials]⟩
    have hne : name ≠ path := by simpa [opOK] using hok
    simp only [pubOf, List.append_nil, step]
    split
    · refine dinv_dir_push (updS s.dir name none) h (Nat.le_refl _) (by simp [durableDirs]) (fun _ _ => rfl) ?_ ?_
      · intro n i hi
        simp only [updS] at hi
        split at hi
        · cases hi
        · exact h.wf _ hcur n i hi
      · simp [updS, Ne.symm hne]
    · exact h
  | rename a b =>
    refine ⟨?_, by simp [partials]⟩
    simp only [opOK, Bool.and_eq_true, decide_eq_true_eq] at hok
    obtain ⟨hane, hclean⟩ := hok
    simp only [step, pubOf]
    cases hda : s.dir a with
    | none => simpa using h
    | some i =>
      simp only
      by_cases hab : a = b
      · simp only [hab, if_true]
        simpa [hab] using h
      · simp only [hab, if_false]
        have hi_lt : i < s.next := h.wf _ hcur a i hda
        by_cases hbp : b = path
        · -- publication
          have hp : (b = path ∧ a ≠ b) := ⟨hbp, hab⟩
          rw [if_pos hp]
          subst hbp
          have hcl : (s.ino i).hist = [] := by
            simp only [if_true, hda] at hclean
            simpa using hclean
          refine ⟨?_, ?_, ?_⟩
          · intro d hd n j hj
            simp only [durableDirs, List.mem_append, List.mem_singleton] at hd
            rcases hd with (hd | hd) | hd
            · exact h.wf d (by simp [durableDirs, hd]) n j hj
            · exact h.wf d (by simp [durableDirs, hd]) n j hj
            · subst hd
              simp only at hj
              split at hj
              · cases hj; exact hi_lt
              · split at hj
                · cases hj
                · exact h.wf _ hcur n j hj
          · intro d hd j hj
            simp only [durableDirs, List.mem_append, List.mem_singleton] at hd
            rcases hd with (hd | hd) | hd
            · exact (DInv.mono [(s.ino i).cur] h).safe d (by simp [durableDirs, hd]) j hj
            · exact (DInv.mono [(s.ino i).cur] h).safe d (by simp [durableDirs, hd]) j hj
            · subst hd
              simp only [if_true, Option.some.injEq] at hj
              subst hj
              exact ⟨hcl, Or.inr (by simp)⟩
          · intro d hd hn
            simp only [durableDirs, List.mem_append, List.mem_singleton] at hd
            rcases hd with (hd | hd) | hd
            · exact h.absent d (by simp [durableDirs, hd]) hn
            · exact h.absent d (by simp [durableDirs, hd]) hn
            · subst hd; simp at hn
        · have hbp' : ¬(b = path ∧ a ≠ b) := fun hh => hbp hh.1
          simp only [hbp', if_false, List.append_nil]
          refine dinv_dir_push (fun n => if n = b then some i else if n = a then none else s.dir n) h
            (Nat.le_refl _) (by simp [durableDirs]) (fun _ _ => rfl) ?_ ?_
          · intro n j hj
            split at hj
            · cases hj; exact hi_lt
            · split at hj
              · cases hj
              · exact h.wf _ hcur n j hj
          · simp [Ne.symm hbp, Ne.symm hane]
  | openF fd name creat excl trunc app =>
    refine ⟨?_, by simp [partials]⟩
    simp only [opOK, Bool.and_eq_true, decide_eq_true_eq] at hok
    obtain ⟨hne, htr⟩ := hok
    simp only [pubOf, List.append_nil, step]
    cases hdn : s.dir name with
    | some i =>
      simp only
      split
      · exact h
      · rw [hdn] at htr
        refine dinv_content_frame h rfl rfl ?_
        intro j hj
        cases htc : trunc with
        | false => simp
        | true =>
          have hng : guarded s path i = false := by simpa [htc] using htr
          have := not_guarded_ne hng hj
          simp [upd, this]
    | none =>
      simp only
      split
      · refine dinv_dir_push (updS s.dir name (some s.next)) h (Nat.le_succ _) (by simp [durableDirs]) ?_ ?_ ?_
        · intro i hi; simp [upd, Nat.ne_of_lt hi]
        · intro n i hi
          simp only [updS] at hi
          split at hi
          · cases hi; exact Nat.lt_succ_self _
          · exact Nat.lt_succ_of_lt (h.wf _ hcur n i hi)
        · simp [updS, Ne.symm hne]
      · exact h

/-- Every crash state of a disciplined trace satisfies the invariant with the published contents. -/
theorem disc_crash (path : String) (old : Option Bytes) (tr : List Op) : ∀ (s : FS) (pubs : List Bytes),
    DInv s path old pubs → disciplined path s tr = true →
    (∀ x ∈ crashStates tr s, DInv x path old (pubs ++ published path s tr)) ∧
      DInv (run tr s) path old (pubs ++ published path s tr) := by
  induction tr with
  | nil =>
    intro s pubs h _
    simp only [crashStates, List.mem_singleton, published, List.append_nil, run, List.foldl_nil]
    exact ⟨fun x hx => hx ▸ h, h⟩
  | cons op rest ih =>
    intro s pubs h hd
    simp only [disciplined, Bool.and_eq_true] at hd
    have h1 := dinv_step op h hd.1
    have h2 := ih _ _ h1.1 hd.2
    simp only [published, ← List.append_assoc]
    refine ⟨?_, by rw [run_cons]; exact h2.2⟩
    intro x hx
    simp only [crashStates, List.mem_cons, List.mem_append] at hx
    rcases hx with hx | hx | hx
    · subst hx; rw [List.append_assoc]; exact DInv.mono _ h
    · rw [List.append_assoc]; exact DInv.mono _ (h1.2 x hx)
    · exact h2.1 x hx

theorem dinv_of_quiescent {s0 : FS} {path : String} (hq : Quiescent s0 path) (hwf : WellFormed s0) :
    DInv s0 path (readCur s0 path) [] := by
  have hdp : ∀ d ∈ durableDirs s0, d path = s0.dir path := by
    intro d hd
    simp only [durableDirs, List.mem_append, List.mem_singleton] at hd
    rcases hd with hd | hd
    · exact hq.1 d hd
    · rw [hd]
  refine ⟨hwf, ?_, ?_⟩
  · intro d hd i hi
    rw [hdp d hd] at hi
    exact ⟨(hq.2 i hi).2, Or.inl (by simp [readCur, hi])⟩
  · intro d hd hn
    rw [hdp d hd] at hn
    simp [readCur, hn]

theorem initFS_wellFormed (ents : List (String × Bytes)) : WellFormed (initFS ents) := by
  intro d hd n i hi
  simp only [durableDirs, initFS, List.nil_append, List.mem_singleton] at hd
  subst hd
  have := lookupIdx_lt n ents 0 i hi
  simpa [initFS] using this

end TdModel.C31
