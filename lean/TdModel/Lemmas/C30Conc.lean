/-
C30 — invariant of the concurrent notification / migration system (core Lean only).
-/
import TdModel.Model.C30Conc
import TdModel.Lemmas.C30

namespace TdModel.C30
open TdModel

theorem crun_cons (c : CSt) (a : Act) (as : List Act) : crun c (a :: as) = crun (cstep c a) as := rfl

theorem not_skips_eligible {p dc : Int} (h : skips p dc = false) : dc = p ∨ p = 0 ∨ dc = 0 := by
  simp only [skips, Bool.and_eq_false_iff, decide_eq_false_iff_not, Decidable.not_not] at h
  rcases h with (h | h) | h
  · exact Or.inr (Or.inr h)
  · exact Or.inr (Or.inl h)
  · exact Or.inl h.symm

/-- Between its test and its save a regular notification is eligible, and what it is about to write
is its own data. -/
def Mid (t : Thread) : Prop :=
  t.n.kind = .regular → t.done = false →
    (2 ≤ t.pc → t.pc ≤ 4 → eligible t) ∧ (t.pc = 4 → ∃ addr, t.pending = storedOf t.n addr)

/-- A regular notification that has written. -/
def Wrote (t : Thread) : Prop :=
  t.n.kind = .regular ∧ t.done = false ∧ t.pc = 5 ∧ eligible t ∧ ∃ addr, t.pending = storedOf t.n addr

theorem adv_wrote (s : St) (t : Thread) (h : Wrote t) : advThread s t = (s, { t with done := true }) := by
  obtain ⟨hk, hd, hpc, _, _⟩ := h
  simp [advThread, hd, hk, hpc]

/-- What one atomic step does to the storage and to the stepping agent. -/
theorem adv_cases (s : St) (t : Thread) (hm : Mid t) :
    (advThread s t).2.n = t.n ∧ Mid (advThread s t).2 ∧
    ((advThread s t).1.stored = s.stored ∨
      (Wrote (advThread s t).2 ∧ (advThread s t).1.stored = some (advThread s t).2.pending)) := by
  unfold advThread
  by_cases hd : t.done = true
  · rw [if_pos hd]; exact ⟨rfl, hm, Or.inl rfl⟩
  · have hd' : t.done = false := by simpa using hd
    simp only [hd', Bool.false_eq_true, if_false]
    cases hk : t.n.kind with
    | cdn =>
      simp only
      split
      · exact ⟨rfl, by intro h; simp [hk] at h, Or.inl rfl⟩
      · exact ⟨rfl, by intro h; simp [hk] at h, Or.inl rfl⟩
    | migrate =>
      simp only
      split
      · exact ⟨rfl, by intro h; simp [hk] at h, Or.inl rfl⟩
      · exact ⟨rfl, by intro h; simp [hk] at h, Or.inl rfl⟩
    | regular =>
      have hm' := hm hk hd'
      simp only
      split
      · exact ⟨rfl, by intro _ _; exact ⟨by intro h1; simp at h1, by intro h1; simp at h1⟩, Or.inl rfl⟩
      · split
        · split
          · exact ⟨rfl, by intro _ h; simp at h, Or.inl rfl⟩
          · rename_i hs
            refine ⟨rfl, ?_, Or.inl rfl⟩
            intro _ _
            exact ⟨fun _ _ => not_skips_eligible (by simpa using hs), by intro h1; simp at h1⟩
        · split
          · rename_i h2
            refine ⟨rfl, ?_, Or.inl rfl⟩
            intro _ _
            exact ⟨fun _ _ => hm'.1 (by omega) (by omega), by intro h1; simp at h1⟩
          · split
            · rename_i h3
              split
              · exact ⟨rfl, by intro _ h; simp at h, Or.inl rfl⟩
              · split
                · exact ⟨rfl, by intro _ h; simp at h, Or.inl rfl⟩
                · refine ⟨rfl, ?_, Or.inl rfl⟩
                  intro _ _
                  exact ⟨fun _ _ => hm'.1 (by omega) (by omega), fun _ => ⟨_, rfl⟩⟩
            · split
              · rename_i h4
                split
                · exact ⟨rfl, by intro _ h; simp at h, Or.inl rfl⟩
                · refine ⟨rfl, ?_, Or.inr ⟨⟨hk, rfl, rfl, hm'.1 (by omega) (by omega), hm'.2 h4⟩, rfl⟩⟩
                  intro _ _
                  exact ⟨by intro _ h1; simp at h1, by intro h1; simp at h1⟩
              · exact ⟨rfl, by intro _ h; simp at h, Or.inl rfl⟩

/-- Invariant: the storage holds the initial content or what one regular, eligible notification
wrote as a whole; every regular notification between its test and its save satisfies `Mid`;
slots beyond `count` are empty. -/
structure CInv (init : Option Stored) (c : CSt) : Prop where
  stored : c.st.stored = init ∨
    ∃ i t, c.threads i = some t ∧ t.n.kind = .regular ∧ t.pc = 5 ∧ eligible t ∧
      (∃ addr, t.pending = storedOf t.n addr) ∧ c.st.stored = some t.pending
  mid : ∀ i t, c.threads i = some t → Mid t
  free : ∀ i, c.count ≤ i → c.threads i = none

theorem mid_new (n : Notif) : Mid (Thread.new n) := by
  intro _ _
  exact ⟨by intro h; simp [Thread.new] at h, by intro h; simp [Thread.new] at h⟩

theorem cinv_init (s : St) : CInv s.stored (cinit s) :=
  ⟨Or.inl rfl, by intro i t h; simp [cinit] at h, by intro i _; rfl⟩

/-- Fields that never change once a regular notification has reached pc 5. -/
theorem adv_pc5 (s : St) (t : Thread) (hk : t.n.kind = .regular) (h5 : t.pc = 5) :
    (advThread s t).1 = s ∧ (advThread s t).2.n = t.n ∧ (advThread s t).2.pc = 5 ∧
      (advThread s t).2.saw = t.saw ∧ (advThread s t).2.pending = t.pending := by
  unfold advThread
  by_cases hd : t.done = true
  · simp [hd, h5]
  · have hd' : t.done = false := by simpa using hd
    simp [hd', hk, h5]

theorem cinv_step (init : Option Stored) (c : CSt) (a : Act) (h : CInv init c) : CInv init (cstep c a) := by
  cases a with
  | spawn n =>
    simp only [cstep, cstepWith]
    refine ⟨?_, ?_, ?_⟩
    · rcases h.stored with h1 | ⟨i, t, ht, h2⟩
      · exact Or.inl h1
      · right
        refine ⟨i, t, ?_, h2⟩
        have : i ≠ c.count := by
          intro he; have := h.free i (by omega); rw [this] at ht; cases ht
        simp [updT, this, ht]
    · intro i t ht
      simp only [updT] at ht
      split at ht
      · cases ht; exact mid_new n
      · exact h.mid i t ht
    · intro i hi
      dsimp only at hi
      simp only [updT]
      split
      · omega
      · exact h.free i (by omega)
  | adv i =>
    simp only [cstep, cstepWith]
    cases hti : c.threads i with
    | none => simpa [hti] using h
    | some t =>
      simp only
      obtain ⟨hn, hmid, hst⟩ := adv_cases c.st t (h.mid i t hti)
      refine ⟨?_, ?_, ?_⟩
      · rcases hst with hst | ⟨hw, hst⟩
        · rcases h.stored with h1 | ⟨j, tj, htj, hjk, hj5, hje, hjp, hjs⟩
          · exact Or.inl (by rw [hst]; exact h1)
          · right
            by_cases hji : j = i
            · subst hji
              rw [hti] at htj; cases htj
              obtain ⟨_, h2, h3, h4, h5⟩ := adv_pc5 c.st t hjk hj5
              refine ⟨j, (advThread c.st t).2, by simp [updT], by rw [h2]; exact hjk, h3, ?_, ?_, ?_⟩
              · unfold eligible at hje ⊢; rw [h2, h4]; exact hje
              · rw [h2, h5]; exact hjp
              · rw [hst, h5]; exact hjs
            · exact ⟨j, tj, by simp [updT, hji, htj], hjk, hj5, hje, hjp, by rw [hst]; exact hjs⟩
        · right
          obtain ⟨hk, _, hpc, hel, hp⟩ := hw
          exact ⟨i, (advThread c.st t).2, by simp [updT], hk, hpc, hel, hp, hst⟩
      · intro j tj htj
        simp only [updT] at htj
        split at htj
        · cases htj; exact hmid
        · exact h.mid j tj htj
      · intro j hj
        simp only [updT]
        split
        · rename_i hji
          subst hji
          have := h.free j hj; rw [this] at hti; cases hti
        · exact h.free j hj

theorem cinv_run (init : Option Stored) (as : List Act) : ∀ c, CInv init c → CInv init (crun c as) := by
  induction as with
  | nil => intro c h; exact h
  | cons a r ih => intro c h; rw [crun_cons]; exact ih _ (cinv_step init c a h)

/-- Run alone, an agent does exactly what the sequential model `step` does. -/
theorem alone_eq_step (s : St) (n : Notif) : (alone s n).1 = (step s n).1 ∧ (alone s n).2.res = (step s n).2 := by
  unfold alone aloneWith step
  cases hk : n.kind with
  | cdn => simp [advThread, Thread.new, hk, onCDNSession]
  | migrate => simp [advThread, Thread.new, hk, migrate]
  | regular =>
    simp only [onSession]
    cases hs : skips s.session.dc n.cfgDC with
    | true => simp [advThread, Thread.new, hk, hs]
    | false =>
      unfold saveSession
      cases hst : s.hasStorage with
      | false => simp [advThread, Thread.new, hk, hs, hst]
      | true =>
        cases hf : n.fault with
        | none =>
          simp [advThread, Thread.new, hk, hs, hst, hf, storedOf]
          cases s.stored <;> rfl
        | loadErr => simp [advThread, Thread.new, hk, hs, hst, hf]
        | saveErr => simp [advThread, Thread.new, hk, hs, hst, hf]

end TdModel.C30
