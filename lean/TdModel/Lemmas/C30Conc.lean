/-
C30 — invariant of the concurrent notification system (core Lean only).
-/
import TdModel.Model.C30Conc
import TdModel.Lemmas.C30

namespace TdModel.C30
open TdModel

theorem crun_cons (c : CSt) (a : Act) (as : List Act) : crun c (a :: as) = crun (cstep c a) as := rfl

theorem adv_done (s : St) (t : Thread) (h : t.pc = 5) : advThread s t = (s, t) := by
  unfold advThread
  cases t.n.kind <;> simp [h]

theorem not_skips_eligible {p dc : Int} (h : skips p dc = false) : dc = p ∨ p = 0 ∨ dc = 0 := by
  simp only [skips, Bool.and_eq_false_iff, decide_eq_false_iff_not, Decidable.not_not] at h
  rcases h with (h | h) | h
  · exact Or.inr (Or.inr h)
  · exact Or.inr (Or.inl h)
  · exact Or.inl h.symm

/-- What one atomic step does to the storage and to the stepping notification. -/
theorem adv_cases (s : St) (t : Thread) :
    let r := advThread s t
    r.2.n = t.n ∧
    ((2 ≤ t.pc → t.pc ≤ 4 → eligible t) → 2 ≤ r.2.pc → r.2.pc ≤ 4 → eligible r.2) ∧
    (r.1.stored = s.stored ∨
      (t.n.kind = .regular ∧ t.pc = 4 ∧ r.2.pc = 5 ∧ r.2.saw = t.saw ∧ r.2.addr = t.addr ∧
        r.1.stored = some (storedOf t.n t.addr))) := by
  unfold advThread
  cases hk : t.n.kind with
  | cdn =>
    simp only
    split
    · exact ⟨rfl, by intro _ _ h2; simp at h2, Or.inl rfl⟩
    · exact ⟨rfl, fun h => h, Or.inl rfl⟩
  | regular =>
    simp only
    split
    · exact ⟨rfl, by intro _ h1 _; simp at h1, Or.inl rfl⟩
    · split
      · split
        · exact ⟨rfl, by intro _ _ h2; simp at h2, Or.inl rfl⟩
        · rename_i hs
          refine ⟨rfl, ?_, Or.inl rfl⟩
          intro _ _ _
          exact not_skips_eligible (by simpa using hs)
      · split
        · rename_i h2
          exact ⟨rfl, fun h _ _ => h (by omega) (by omega), Or.inl rfl⟩
        · split
          · rename_i h3
            split
            · exact ⟨rfl, by intro _ _ h2; simp at h2, Or.inl rfl⟩
            · split
              · exact ⟨rfl, by intro _ _ h2; simp at h2, Or.inl rfl⟩
              · exact ⟨rfl, fun h _ _ => h (by omega) (by omega), Or.inl rfl⟩
          · split
            · rename_i h4
              split
              · exact ⟨rfl, by intro _ _ h2; simp at h2, Or.inl rfl⟩
              · exact ⟨rfl, by intro _ _ h2; simp at h2, Or.inr ⟨trivial, h4, rfl, rfl, rfl, rfl⟩⟩
            · exact ⟨rfl, fun h => h, Or.inl rfl⟩

/-- Invariant: the storage holds the initial content or what one finished, regular, eligible
notification wrote as a whole; every regular notification between its primary-DC test and its
save is eligible; slots beyond `count` are empty. -/
structure CInv (init : Option Stored) (c : CSt) : Prop where
  stored : c.st.stored = init ∨
    ∃ i t, c.threads i = some t ∧ t.pc = 5 ∧ t.n.kind = .regular ∧ eligible t ∧
      c.st.stored = some (storedOf t.n t.addr)
  mid : ∀ i t, c.threads i = some t → 2 ≤ t.pc → t.pc ≤ 4 → eligible t
  free : ∀ i, c.count ≤ i → c.threads i = none

theorem cinv_init (s : St) : CInv s.stored (cinit s) :=
  ⟨Or.inl rfl, by intro i t h; simp [cinit] at h, by intro i _; rfl⟩

theorem cinv_step (init : Option Stored) (c : CSt) (a : Act) (h : CInv init c) : CInv init (cstep c a) := by
  cases a with
  | spawn n =>
    simp only [cstep]
    refine ⟨?_, ?_, ?_⟩
    · rcases h.stored with h1 | ⟨i, t, ht, h2⟩
      · exact Or.inl h1
      · right
        refine ⟨i, t, ?_, h2⟩
        have : i ≠ c.count := by
          intro he; have := h.free i (by omega); rw [this] at ht; cases ht
        simp [updT, this, ht]
    · intro i t ht
      simp only [updT] at ht
      split at ht
      · cases ht; intro h1; simp at h1
      · exact h.mid i t ht
    · intro i hi
      dsimp only at hi
      simp only [updT]
      split
      · omega
      · exact h.free i (by omega)
  | adv i =>
    simp only [cstep]
    cases hti : c.threads i with
    | none => simpa [hti] using h
    | some t =>
      simp only
      have hc := adv_cases c.st t
      simp only at hc
      obtain ⟨hn, hel, hst⟩ := hc
      have hmid_t := h.mid i t hti
      refine ⟨?_, ?_, ?_⟩
      · rcases hst with hst | ⟨hk, hpc, hpc', hsaw, haddr, hst⟩
        · rcases h.stored with h1 | ⟨j, tj, htj, hj5, hjk, hje, hjs⟩
          · exact Or.inl (by rw [hst]; exact h1)
          · right
            refine ⟨j, tj, ?_, hj5, hjk, hje, by rw [hst]; exact hjs⟩
            by_cases hji : j = i
            · subst hji
              rw [hti] at htj; cases htj
              simp [updT, adv_done c.st t hj5]
            · simp [updT, hji, htj]
        · right
          refine ⟨i, (advThread c.st t).2, by simp [updT], hpc', by rw [hn]; exact hk, ?_, ?_⟩
          · have he := hmid_t (by omega) (by omega)
            unfold eligible at he ⊢
            rw [hn, hsaw]; exact he
          · rw [hst, hn, haddr]
      · intro j tj htj
        simp only [updT] at htj
        split at htj
        · cases htj; exact hel hmid_t
        · exact h.mid j tj htj
      · intro j hj
        simp only [updT]
        split
        · rename_i hji
          subst hji
          have := h.free j hj; rw [this] at hti; cases hti
        · exact h.free j hj

theorem cinv_run (init : Option Stored) (as : List Act) : ∀ c, CInv init c → CInv init (crun c as) := by
  induction as with
  | nil => intro c h; exact h
  | cons a r ih => intro c h; rw [crun_cons]; exact ih _ (cinv_step init c a h)

/-- Run alone, a notification does exactly what the sequential model `step` does. -/
theorem alone_eq_step (s : St) (n : Notif) : (alone s n).1 = (step s n).1 ∧ (alone s n).2.res = (step s n).2 := by
  unfold alone step
  cases hk : n.kind with
  | cdn => simp [advThread, hk, onCDNSession]
  | regular =>
    simp only [onSession]
    cases hs : skips s.session.dc n.cfgDC with
    | true => simp [advThread, hk, hs]
    | false =>
      unfold saveSession
      cases hst : s.hasStorage with
      | false => simp [advThread, hk, hs, hst]
      | true =>
        cases hf : n.fault with
        | none =>
          simp [advThread, hk, hs, hst, hf, storedOf]
          cases s.stored <;> rfl
        | loadErr => simp [advThread, hk, hs, hst, hf]
        | saveErr => simp [advThread, hk, hs, hst, hf]

end TdModel.C30
