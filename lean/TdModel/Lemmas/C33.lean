import TdModel.Model.C33

namespace TdModel.C33
open TdModel

/-! ### facts as used by the proofs -/

theorem isEnd_eq (d : Bytes) : isEnd d = decide (d.length < 1) := by simp [isEnd, isEndN, Facts.C33.emptyStops]
theorem isEndN_eq (n : Nat) : isEndN n = decide (n < 1) := by simp [isEndN, Facts.C33.emptyStops]
theorem isLastN_eq (n ps : Nat) : isLastN n ps = decide (n < ps) := by simp [isLastN, Facts.C33.lastIsShorter]
theorem blockTag_eq (d : Bytes) (t : Nat) : blockTag d t = some t := by simp [blockTag, Facts.C33.nextReturnsChunkAsIs]
theorem isLast_eq (d : Bytes) (ps : Nat) : isLast d ps = decide (d.length < ps) := by
  simp [isLast, isLastN, Facts.C33.lastIsShorter]
theorem offsetOf_eq (k ps : Nat) : offsetOf k ps = k * ps := by simp [offsetOf, Facts.C33.allocStepIsPartSize]
theorem wbl : Facts.C33.writeBeforeLastCheck = true := rfl

theorem fileServer_len (file : Bytes) (off ps : Nat) :
    (fileServer file off ps).length = min ps (file.length - off) := by
  simp [fileServer]

/-! ### stream -/

theorem stream_exact_gen (file : Bytes) (tag : Nat → Nat) (T : Nat) (htag : ∀ off, tag off = T)
    (ps : Nat) (hps : 0 < ps) :
    ∀ (fuel k : Nat), (file.drop (k * ps)).length < fuel →
      (stream (fileServer file) tag ps fuel k).writes.flatten = file.drop (k * ps) ∧
      (stream (fileServer file) tag ps fuel k).done = true ∧
      (stream (fileServer file) tag ps fuel k).typ = some T := by
  intro fuel
  induction fuel with
  | zero => intro k h; omega
  | succ fuel ih =>
    intro k h
    rw [stream]
    simp only [offsetOf_eq, isEnd_eq, isLast_eq, wbl, if_true, blockTag_eq, htag]
    have hlen := fileServer_len file (k * ps) ps
    by_cases h1 : (fileServer file (k * ps) ps).length < 1
    · simp only [h1, decide_true, if_true, List.flatten_nil, and_true]
      have : (file.drop (k * ps)).length = 0 := by
        simp only [List.length_drop]
        omega
      exact (List.length_eq_zero_iff.mp this).symm
    · simp only [h1, decide_false, Bool.false_eq_true, if_false]
      by_cases h2 : (fileServer file (k * ps) ps).length < ps
      · simp only [h2, decide_true, if_true, List.flatten_cons, List.flatten_nil, List.append_nil, and_true]
        unfold fileServer
        apply List.take_of_length_le
        simp only [List.length_drop]
        omega
      · simp only [h2, decide_false, Bool.false_eq_true, if_false, List.flatten_cons]
        have hk : (k + 1) * ps = k * ps + ps := by rw [Nat.add_mul]; omega
        have := ih (k + 1) (by
          simp only [List.length_drop] at h ⊢
          rw [hk]; omega)
        refine ⟨?_, this.2.1, this.2.2⟩
        rw [this.1, hk, ← List.drop_drop]
        unfold fileServer
        exact List.take_append_drop ps _

/-! ### parallel -/

theorem filter_erase_of_not {p : Nat → Bool} (l : List Nat) (a : Nat) (h : p a = false) :
    (l.erase a).filter p = l.filter p := by
  induction l with
  | nil => rfl
  | cons x l ih =>
    by_cases hx : x = a
    · subst hx; simp [h]
    · have : (x == a) = false := by simp [hx]
      simp only [List.erase_cons, this, Bool.false_eq_true, if_false, List.filter_cons, ih]

/-- The invariant of the parallel download. -/
structure PInv (file : Bytes) (ps : Nat) (s : PState) : Prop where
  held_lt : ∀ i ∈ s.held, i < s.k
  perm : (s.writes ++ (s.held.filter (live file ps)).map (blk file ps)).Perm
          (((List.range s.k).filter (live file ps)).map (blk file ps))
  stop : s.stopped = true → file.length ≤ s.k * ps

/-- The reported type: once `stop` was called the stored type is the server's (all answers carry `T`). -/
structure TInv (T : Nat) (s : PState) : Prop where
  set : s.stopped = true → s.typSet = true
  typ : s.typSet = true → s.typ = some T

theorem live_eq (file : Bytes) (ps i : Nat) : live file ps i = decide (i * ps < file.length) := by
  simp [live, offsetOf_eq]

theorem pinv_init (file : Bytes) (ps : Nat) : PInv file ps {} :=
  ⟨by intro i h; simp at h, by simp, by intro h; simp at h⟩

theorem stop_fields (s : PState) (t : Option Nat) :
    (s.stop t).k = s.k ∧ (s.stop t).held = s.held ∧ (s.stop t).writes = s.writes ∧ (s.stop t).stopped = true := by
  simp [PState.stop]

theorem pinv_step (file : Bytes) (tag : Nat → Nat) (ps : Nat) (hps : 0 < ps) (s s' : PState) (a : PAct)
    (hinv : PInv file ps s) (hstep : pstep (fileServer file) tag ps s a = some s') : PInv file ps s' := by
  cases a with
  | alloc =>
    simp only [pstep, Option.some.injEq] at hstep
    subst hstep
    refine ⟨?_, ?_, ?_⟩
    · intro i hi
      rcases List.mem_cons.mp hi with h | h
      · subst h; simp
      · have := hinv.held_lt i h; simp; omega
    · simp only [List.range_succ, List.filter_append, List.map_append, List.filter_cons, List.filter_nil]
      by_cases hl : live file ps s.k = true
      · simp only [hl, if_true, List.map_cons, List.map_nil]
        have h1 := (List.perm_middle (a := blk file ps s.k) (l₁ := s.writes)
          (l₂ := (s.held.filter (live file ps)).map (blk file ps)))
        refine h1.trans ?_
        refine (List.Perm.cons _ hinv.perm).trans ?_
        exact (List.perm_append_singleton _ _).symm
      · simp only [hl, Bool.false_eq_true, if_false, List.map_nil, List.append_nil]
        exact hinv.perm
    · intro hs
      have := hinv.stop hs
      have : s.k * ps ≤ (s.k + 1) * ps := Nat.mul_le_mul_right ps (by omega)
      simp only
      omega
  | complete i =>
    simp only [pstep] at hstep
    by_cases hi : i ∈ s.held
    · simp only [hi, if_true, offsetOf_eq, isEnd_eq, isLast_eq, wbl, Bool.not_true, Bool.and_false,
        Bool.or_false] at hstep
      have hik : i < s.k := hinv.held_lt i hi
      have hlen := fileServer_len file (i * ps) ps
      have hmono : (i + 1) * ps ≤ s.k * ps := Nat.mul_le_mul_right ps (by omega)
      have hi1 : (i + 1) * ps = i * ps + ps := by rw [Nat.add_mul]; omega
      by_cases h1 : (fileServer file (i * ps) ps).length < 1
      · simp only [h1, decide_true, if_true, Option.some.injEq] at hstep
        subst hstep
        have hnl : live file ps i = false := by
          rw [live_eq]; simp only [decide_eq_false_iff_not]; omega
        refine ⟨?_, ?_, ?_⟩
        · intro j hj
          simp only [PState.stop] at hj ⊢
          exact hinv.held_lt j (List.mem_of_mem_erase hj)
        · simp only [PState.stop, filter_erase_of_not _ _ hnl]; exact hinv.perm
        · intro _; simp only [PState.stop]; omega
      · simp only [h1, decide_false, Bool.false_eq_true, if_false, Option.some.injEq] at hstep
        have hl : live file ps i = true := by
          rw [live_eq]; simp only [decide_eq_true_eq]; omega
        have hp : s.held.Perm (i :: s.held.erase i) := List.perm_cons_erase hi
        have hp2 : ((s.held.filter (live file ps)).map (blk file ps)).Perm
            (blk file ps i :: ((s.held.erase i).filter (live file ps)).map (blk file ps)) := by
          have := (hp.filter (live file ps)).map (blk file ps)
          simpa [List.filter_cons, hl] using this
        have hb : (i * ps, fileServer file (i * ps) ps) = blk file ps i := by simp [blk, offsetOf_eq]
        have hperm : ((s.writes ++ [(i * ps, fileServer file (i * ps) ps)]) ++
            ((s.held.erase i).filter (live file ps)).map (blk file ps)).Perm
            (((List.range s.k).filter (live file ps)).map (blk file ps)) := by
          simp only [hb, List.append_assoc, List.singleton_append]
          exact ((List.Perm.append_left s.writes hp2).symm).trans hinv.perm
        by_cases h2 : (fileServer file (i * ps) ps).length < ps
        · simp only [h2, decide_true, if_true] at hstep
          subst hstep
          refine ⟨?_, ?_, ?_⟩
          · intro j hj
            simp only [PState.stop] at hj ⊢
            exact hinv.held_lt j (List.mem_of_mem_erase hj)
          · simp only [PState.stop]; exact hperm
          · intro _; simp only [PState.stop]; omega
        · simp only [h2, decide_false, Bool.false_eq_true, if_false] at hstep
          subst hstep
          refine ⟨?_, hperm, ?_⟩
          · intro j hj; exact hinv.held_lt j (List.mem_of_mem_erase hj)
          · intro hs; exact hinv.stop hs
    · simp [hi] at hstep

theorem tinv_step (srv : Server) (tag : Nat → Nat) (T : Nat) (htag : ∀ off, tag off = T) (ps : Nat)
    (s s' : PState) (a : PAct) (hinv : TInv T s) (hstep : pstep srv tag ps s a = some s') : TInv T s' := by
  have hstop : ∀ (x : PState) (d : Bytes) (o : Nat), x.typSet = s.typSet → x.typ = s.typ →
      TInv T (x.stop (blockTag d (tag o))) := by
    intro x d o h1 h2
    refine ⟨fun _ => by simp [PState.stop], fun _ => ?_⟩
    simp only [PState.stop, blockTag_eq, htag, h1, h2]
    cases hts : s.typSet with
    | true => simp [hinv.typ hts]
    | false => simp
  cases a with
  | alloc =>
    simp only [pstep, Option.some.injEq] at hstep
    subst hstep
    exact ⟨hinv.set, hinv.typ⟩
  | complete i =>
    simp only [pstep] at hstep
    by_cases hi : i ∈ s.held
    · simp only [hi, if_true] at hstep
      split at hstep
      · cases hstep; exact hstop _ _ _ rfl rfl
      · split at hstep
        · cases hstep; exact hstop _ _ _ rfl rfl
        · cases hstep; exact ⟨hinv.set, hinv.typ⟩
    · simp [hi] at hstep

theorem pinv_run (file : Bytes) (tag : Nat → Nat) (ps : Nat) (hps : 0 < ps) : ∀ (acts : List PAct) (s s' : PState),
    PInv file ps s → prun (fileServer file) tag ps s acts = some s' → PInv file ps s' := by
  intro acts
  induction acts with
  | nil => intro s s' h hr; simp only [prun, Option.some.injEq] at hr; subst hr; exact h
  | cons a rest ih =>
    intro s s' h hr
    simp only [prun] at hr
    cases hst : pstep (fileServer file) tag ps s a with
    | none => simp [hst] at hr
    | some s1 =>
      simp only [hst] at hr
      exact ih s1 s' (pinv_step file tag ps hps s s1 a h hst) hr

theorem tinv_run (srv : Server) (tag : Nat → Nat) (T : Nat) (htag : ∀ off, tag off = T) (ps : Nat) :
    ∀ (acts : List PAct) (s s' : PState), TInv T s → prun srv tag ps s acts = some s' → TInv T s' := by
  intro acts
  induction acts with
  | nil => intro s s' h hr; simp only [prun, Option.some.injEq] at hr; subst hr; exact h
  | cons a rest ih =>
    intro s s' h hr
    simp only [prun] at hr
    cases hst : pstep srv tag ps s a with
    | none => simp [hst] at hr
    | some s1 =>
      simp only [hst] at hr
      exact ih s1 s' (tinv_step srv tag T htag ps s s1 a h hst) hr

/-- `stream` issues exactly the requests computed on lengths. -/
theorem stream_reqs_eq (file : Bytes) (tag : Nat → Nat) (ps : Nat) : ∀ (fuel k : Nat),
    (stream (fileServer file) tag ps fuel k).reqs = streamReqs file.length ps fuel k := by
  intro fuel
  induction fuel with
  | zero => intro k; rfl
  | succ fuel ih =>
    intro k
    rw [stream, streamReqs]
    simp only [isEnd, isLast, fileServer_len]
    split
    · rfl
    · split
      · rfl
      · simp only [ih (k + 1)]

/-- Data of the live blocks below `k`, in offset order, is the first `k·ps` bytes of the file. -/
theorem blocks_concat (file : Bytes) (ps : Nat) : ∀ k,
    ((((List.range k).filter (live file ps)).map (blk file ps)).map (·.2)).flatten = file.take (k * ps) := by
  intro k
  induction k with
  | zero => simp
  | succ k ih =>
    have hk : (k + 1) * ps = k * ps + ps := by rw [Nat.add_mul]; omega
    simp only [List.range_succ, List.filter_append, List.map_append, List.flatten_append, ih,
      List.filter_cons, List.filter_nil]
    by_cases hl : live file ps k = true
    · simp only [hl, if_true, List.map_cons, List.map_nil, List.flatten_cons, List.flatten_nil, List.append_nil]
      rw [hk, List.take_add]
      simp [blk, fileServer, offsetOf_eq]
    · simp only [hl, Bool.false_eq_true, if_false, List.map_nil, List.flatten_nil, List.append_nil]
      rw [live_eq] at hl
      simp only [decide_eq_true_eq, Nat.not_lt] at hl
      rw [List.take_of_length_le hl, List.take_of_length_le (by omega)]

end TdModel.C33
