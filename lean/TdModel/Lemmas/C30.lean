/-
C30 — helper lemmas (core Lean only).
-/
import TdModel.Model.C30

namespace TdModel.C30
open TdModel

theorem run_cons (s : St) (n : Notif) (ns : List Notif) : run s (n :: ns) = run (step s n).1 ns := rfl

theorem run_append (s : St) (a b : List Notif) : run s (a ++ b) = run (run s a) b := by
  simp [run, List.foldl_append]

/-- One notification either leaves the storage alone or was accepted and wrote its own data. -/
theorem step_stored (s : St) (n : Notif) :
    (step s n).1.stored = s.stored ∨
      (accepted s n = true ∧ ∃ addr, (step s n).1.stored = some (storedOf n addr)) := by
  unfold step
  cases hk : n.kind with
  | cdn => left; rfl
  | migrate => left; rfl
  | regular =>
    simp only [onSession]
    by_cases hs : skips s.session.dc n.cfgDC = true
    · left; simp [hs]
    · simp only [hs]
      unfold saveSession
      cases hst : s.hasStorage with
      | false => left; simp
      | true =>
        cases hf : n.fault with
        | loadErr => left; simp
        | saveErr => left; simp
        | none =>
          right
          refine ⟨by simp [accepted, hk, hs, hst, hf], ?_⟩
          simp only [Bool.not_true, Bool.false_eq_true, if_false]
          exact ⟨_, rfl⟩

/-- An accepted notification writes its own data. -/
theorem step_stored_of_accepted (s : St) (n : Notif) (h : accepted s n = true) :
    ∃ addr, (step s n).1.stored = some (storedOf n addr) := by
  simp only [accepted, Bool.and_eq_true, decide_eq_true_eq, Bool.not_eq_true'] at h
  obtain ⟨⟨⟨hk, hs⟩, hst⟩, hf⟩ := h
  refine ⟨(match s.stored with | some d => d.addr | none => ""), ?_⟩
  simp only [step, hk, onSession, hs, Bool.false_eq_true, if_false, saveSession, hst, Bool.not_true, hf]
  rfl

theorem step_hasStorage (s : St) (n : Notif) : (step s n).1.hasStorage = s.hasStorage := by
  unfold step onSession onCDNSession migrate saveSession
  cases n.kind <;> simp only
  split
  · rfl
  · split
    · rfl
    · split <;> rfl

theorem run_hasStorage (s : St) (ns : List Notif) : (run s ns).hasStorage = s.hasStorage := by
  induction ns generalizing s with
  | nil => rfl
  | cons n r ih => rw [run_cons, ih, step_hasStorage]

/-- The stored data always comes from one accepted notification of the history (or was there
before), as a whole. -/
theorem stored_origin (ns : List Notif) : ∀ (s0 : St) (d : Stored), (run s0 ns).stored = some d →
    s0.stored = some d ∨
      ∃ pre n post addr, ns = pre ++ n :: post ∧ accepted (run s0 pre) n = true ∧ d = storedOf n addr := by
  induction ns with
  | nil => intro s0 d h; left; exact h
  | cons n rest ih =>
    intro s0 d h
    rw [run_cons] at h
    rcases ih _ d h with h1 | ⟨pre, m, post, addr, he, ha, hd⟩
    · rcases step_stored s0 n with h2 | ⟨h2, addr, h3⟩
      · left; rw [← h2]; exact h1
      · right
        refine ⟨[], n, rest, addr, rfl, h2, ?_⟩
        rw [h3] at h1
        exact (Option.some.inj h1).symm
    · right
      exact ⟨n :: pre, m, post, addr, by rw [he]; rfl, by rw [run_cons]; exact ha, hd⟩

/-- Storage and in-memory primary session agree. -/
def InSync (s : St) : Prop :=
  ∀ d, s.stored = some d →
    d.dc = s.session.dc ∧ d.authKey = s.session.key.value ∧ d.authKeyID = s.session.key.id ∧
      d.salt = s.session.salt

theorem step_inSync (s : St) (n : Notif) (hst : s.hasStorage = true) (hf : n.fault = .none)
    (hm : n.kind ≠ .migrate) (h : InSync s) : InSync (step s n).1 := by
  unfold step
  cases hk : n.kind with
  | cdn => exact h
  | migrate => exact absurd hk hm
  | regular =>
    simp only [onSession]
    by_cases hs : skips s.session.dc n.cfgDC = true
    · simp only [hs, if_true]; exact h
    · simp only [hs]
      unfold saveSession
      simp only [hst, hf, Bool.not_true, Bool.false_eq_true, if_false]
      intro d hd
      simp only [Option.some.injEq] at hd
      subst hd
      simp [sessOf]

theorem run_inSync (ns : List Notif) : ∀ (s : St), s.hasStorage = true →
    (∀ n ∈ ns, n.fault = .none ∧ n.kind ≠ .migrate) → InSync s → InSync (run s ns) := by
  induction ns with
  | nil => intro s _ _ h; exact h
  | cons n r ih =>
    intro s hst hf h
    rw [run_cons]
    exact ih _ (by rw [step_hasStorage]; exact hst) (fun m hm => hf m (List.mem_cons_of_mem _ hm))
      (step_inSync s n hst (hf n List.mem_cons_self).1 (hf n List.mem_cons_self).2 h)

theorem saveSession_session (s : St) (n : Notif) : (saveSession s n).1.session = s.session := by
  unfold saveSession
  cases s.hasStorage <;> cases n.fault <;> rfl

/-- A client with a non-zero primary DC keeps it whatever arrives from non-zero DCs. -/
theorem step_primary (s : St) (n : Notif) (hp : s.session.dc ≠ 0) (hn : n.cfgDC ≠ 0)
    (hm : n.kind ≠ .migrate) : (step s n).1.session.dc = s.session.dc := by
  unfold step
  cases hk : n.kind with
  | cdn => rfl
  | migrate => exact absurd hk hm
  | regular =>
    simp only [onSession]
    by_cases hs : skips s.session.dc n.cfgDC = true
    · simp [hs]
    · have : s.session.dc = n.cfgDC := by
        simp only [skips, Bool.and_eq_true, decide_eq_true_eq, not_and] at hs
        exact Decidable.byContradiction fun hne => hs ⟨hn, hp⟩ hne
      simp only [hs, Bool.false_eq_true, if_false]
      rw [saveSession_session]
      simp [sessOf, this]

theorem run_primary (ns : List Notif) : ∀ (s : St), s.session.dc ≠ 0 →
    (∀ n ∈ ns, n.cfgDC ≠ 0 ∧ n.kind ≠ .migrate) → (run s ns).session.dc = s.session.dc := by
  induction ns with
  | nil => intro s _ _; rfl
  | cons n r ih =>
    intro s hp hn
    have h1 := step_primary s n hp (hn n List.mem_cons_self).1 (hn n List.mem_cons_self).2
    rw [run_cons, ih _ (by rw [h1]; exact hp) (fun m hm => hn m (List.mem_cons_of_mem _ hm)), h1]

theorem accepted_dc {s : St} {n : Notif} (h : accepted s n = true) :
    n.cfgDC = s.session.dc ∨ s.session.dc = 0 ∨ n.cfgDC = 0 := by
  simp only [accepted, skips, Bool.and_eq_true, decide_eq_true_eq, Bool.not_eq_true',
    Bool.and_eq_false_iff, decide_eq_false_iff_not, Decidable.not_not] at h
  rcases h.1.1.2 with (h1 | h1) | h1
  · exact Or.inr (Or.inr h1)
  · exact Or.inr (Or.inl h1)
  · exact Or.inl h1.symm

theorem fit_of_length (n : Nat) (b : Bytes) (h : b.length = n) : fit n b = b := by
  simp [fit, ← h]

end TdModel.C30
