/-
Lemmas for C05: acceptance in terms of the *specification's* key derivation; two accepted frames
with the same envelope but different bodies give a msg_key collision.
-/
import TdModel.Lemmas.C04

namespace TdModel.C05
open TdModel TdModel.Bin TdModel.C04
open TdModel.C06 (Side)

/-- The plaintext the receiver computes, with the specification's `aes_key`/`aes_iv`. -/
def specPlaintext (P : Prims) (side : Side) (ak c : Bytes) : Bytes :=
  let kiv := C06.Spec.keys P ak ((c.drop 8).take 16) side.flip
  Ige.dec (P.aesDec kiv.1) kiv.2 (c.drop 24)

theorem plaintextOf_eq_spec (P : Prims) (hP : LawfulPrims P) (side : Side) (ak c : Bytes) :
    plaintextOf P side ak c = specPlaintext P side ak c := by
  unfold plaintextOf specPlaintext
  rw [C06.keys_eq P hP]

/-- IGE decryption under fixed keys is injective: equal envelopes (first 24 bytes) and different
block-aligned frames have different plaintexts. -/
theorem plaintext_injective (P : Prims) (hP : LawfulPrims P) (side : Side) (ak c c' : Bytes)
    (ha : (c.length - 24) % 16 = 0) (ha' : (c'.length - 24) % 16 = 0)
    (henv : c.take 24 = c'.take 24) (hne : c ≠ c') :
    specPlaintext P side ak c ≠ specPlaintext P side ak c' := by
  intro he
  unfold specPlaintext at he
  have hmk : (c.drop 8).take 16 = (c'.drop 8).take 16 := by
    have e1 : (c.drop 8).take 16 = (c.take 24).drop 8 := by rw [List.drop_take]
    have e2 : (c'.drop 8).take 16 = (c'.take 24).drop 8 := by rw [List.drop_take]
    rw [e1, e2, henv]
  rw [hmk] at he
  have hiv : (C06.Spec.keys P ak ((c'.drop 8).take 16) side.flip).2.length = 32 := by
    simp [C06.Spec.keys, C06.Spec.sha256a, C06.Spec.sha256b, C06.substr_length, hP.sha256_len]
  have := Ige.dec_injective _ _ (Ige.Inv.ofPrims' P hP _) _ (c.drop 24) (c'.drop 24) hiv
    (by simp; omega) (by simp; omega) he
  apply hne
  rw [← List.take_append_drop 24 c, ← List.take_append_drop 24 c', henv, this]

/-- Keys for which the client→server (`x = 0`) and server→client (`x = 8`) derivations read the same
bytes: the three ranges of the auth key used by MTProto 2.0 coincide with their 8-byte shifts. -/
def SideBlind (ak : Bytes) : Prop :=
  C06.substr ak 88 32 = C06.substr ak 96 32 ∧ C06.substr ak 0 36 = C06.substr ak 8 36 ∧
    C06.substr ak 40 36 = C06.substr ak 48 36

/-- A key of period 8 (in particular a constant key): shifting by 8 bytes gives the same bytes. -/
def Period8 (ak : Bytes) : Prop := ak.drop 8 = ak.take (ak.length - 8)

theorem period8_replicate (n : Nat) (v : UInt8) : Period8 (List.replicate n v) := by
  unfold Period8
  rw [List.drop_replicate, List.length_replicate, List.take_replicate]
  congr 1
  omega

theorem substr_shift8 (ak : Bytes) (h : Period8 ak) (a n : Nat) (hb : a + n + 8 ≤ ak.length) :
    C06.substr ak (a + 8) n = C06.substr ak a n := by
  unfold C06.substr
  have e : ak.drop (a + 8) = (ak.drop 8).drop a := by rw [List.drop_drop, Nat.add_comm]
  rw [e, h, List.drop_take, List.take_take]
  congr 1
  omega

theorem period8_sideBlind (ak : Bytes) (h : Period8 ak) (hl : 128 ≤ ak.length) : SideBlind ak := by
  refine ⟨?_, ?_, ?_⟩
  · exact (substr_shift8 ak h 88 32 (by omega)).symm
  · exact (substr_shift8 ak h 0 36 (by omega)).symm
  · exact (substr_shift8 ak h 40 36 (by omega)).symm

theorem sideBlind_spec (P : Prims) (ak : Bytes) (h : SideBlind ak) (mk pt : Bytes) :
    C06.Spec.msgKey P ak pt .client = C06.Spec.msgKey P ak pt .server ∧
      C06.Spec.keys P ak mk .client = C06.Spec.keys P ak mk .server := by
  obtain ⟨h1, h2, h3⟩ := h
  constructor
  · simp only [C06.Spec.msgKey, C06.Spec.msgKeyLarge, C06.Spec.x, Nat.add_zero]
    rw [h1]
  · simp only [C06.Spec.keys, C06.Spec.sha256a, C06.Spec.sha256b, C06.Spec.x, Nat.add_zero]
    rw [h2, h3]

/-- For side-blind keys both ciphers decide identically on every frame. -/
theorem sideBlind_decrypt_eq (P : Prims) (hP : LawfulPrims P) (ak keyId c : Bytes) (h : SideBlind ak)
    (s : Side) : decrypt P s ak keyId c = decrypt P s.flip ak keyId c := by
  have hk : ∀ mk, C06.Impl.keys P ak mk s.flip = C06.Impl.keys P ak mk s.flip.flip := by
    intro mk
    rw [C06.keys_eq P hP, C06.keys_eq P hP]
    cases s
    · exact ((sideBlind_spec P ak h mk []).2).symm
    · exact (sideBlind_spec P ak h mk []).2
  have hm : ∀ pt, C06.Impl.msgKey P ak pt s.flip = C06.Impl.msgKey P ak pt s.flip.flip := by
    intro pt
    rw [C06.msgKey_eq P hP, C06.msgKey_eq P hP]
    cases s
    · exact ((sideBlind_spec P ak h [] pt).1).symm
    · exact (sideBlind_spec P ak h [] pt).1
  unfold decrypt decryptMessage
  simp only [hk, hm]

end TdModel.C05
