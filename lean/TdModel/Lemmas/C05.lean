/-
Lemmas for C05: acceptance in terms of the *specification's* key derivation; two accepted frames
with the same envelope but different bodies give a msg_key collision.
-/
import TdModel.Lemmas.C04

namespace TdModel.C05
open TdModel TdModel.Bin TdModel.C04
open TdModel.C06 (Side)

/-- The plaintext the receiver computes, with the specification's `aes_key`/`aes_iv`. -/
def specPlaintext (P : Prims) (side : Side) (ak c : Bytes) : Bytes :=
  let kiv := C06.Spec.keys P ak ((c.drop 8).take 16) side.flip
  Ige.dec (P.aesDec kiv.1) kiv.2 (c.drop 24)

theorem plaintextOf_eq_spec (P : Prims) (hP : LawfulPrims P) (side : Side) (ak c : Bytes) :
    plaintextOf P side ak c = specPlaintext P side ak c := by
  unfold plaintextOf specPlaintext
  rw [C06.keys_eq P hP]

/-- IGE decryption under fixed keys is injective: equal envelopes (first 24 bytes) and different
block-aligned frames have different plaintexts. -/
theorem plaintext_injective (P : Prims) (hP : LawfulPrims P) (side : Side) (ak c c' : Bytes)
    (ha : (c.length - 24) % 16 = 0) (ha' : (c'.length - 24) % 16 = 0)
    (henv : c.take 24 = c'.take 24) (hne : c ≠ c') :
    specPlaintext P side ak c ≠ specPlaintext P side ak c' := by
  intro he
  unfold specPlaintext at he
  have hmk : (c.drop 8).take 16 = (c'.drop 8).take 16 := by
    have e1 : (c.drop 8).take 16 = (c.take 24).drop 8 := by rw [List.drop_take]
    have e2 : (c'.drop 8).take 16 = (c'.take 24).drop 8 := by rw [List.drop_take]
    rw [e1, e2, henv]
  rw [hmk] at he
  have hiv : (C06.Spec.keys P ak ((c'.drop 8).take 16) side.flip).2.length = 32 := by
    simp [C06.Spec.keys, C06.Spec.sha256a, C06.Spec.sha256b, C06.substr_length, hP.sha256_len]
  have := Ige.dec_injective _ _ (Ige.Inv.ofPrims' P hP _) _ (c.drop 24) (c'.drop 24) hiv
    (by simp; omega) (by simp; omega) he
  apply hne
  rw [← List.take_append_drop 24 c, ← List.take_append_drop 24 c', henv, this]

end TdModel.C05
