/-
C27 / C28 — the holder invariant is preserved by every action of the pool model.
-/
import TdModel.Lemmas.C27b

namespace TdModel.C27

/-- The source facts the invariants need. -/
def Good (cfg : Cfg) : Prop :=
  cfg.handoutChecksDead = true ∧ cfg.createCancelReleases = true ∧ cfg.bgOffersWaiters = true ∧
  cfg.totalUnderCheck = true ∧ cfg.resetAlways = true

/-- With `resetAlways` the source's `dead` is the model's `markDead`. -/
theorem markDeadCfg_good {cfg : Cfg} (h : cfg.resetAlways = true) (s : State) (c : Nat) : markDeadCfg cfg s c = markDead s c := by
  simp [markDeadCfg, h]

theorem liveCount_append (s : State) (cn : Conn) :
    List.countP (fun x => !x.dead) (s.conns ++ [cn]) = liveCount s + (if cn.dead then 0 else 1) := by
  simp [liveCount, List.countP_append, List.countP_cons]
  cases cn.dead <;> simp

/-- `enter`, second case: `total++` reserves a slot inside the critical section. -/
theorem hinv_reserve {m : Nat} {s : State} (hI : HInv m s) (i : Nat) (x : Caller)
    (hx : s.callers[i]? = some x) (hpc : x.pc = .start) (hg : s.max = 0 ∨ s.total < s.max) :
    HInv m (setPc { s with total := s.total + 1 } i x .reserved) := by
  have hh : ∀ c, holders (setPc { s with total := s.total + 1 } i x .reserved) c = holders s c := by
    intro c
    have e := holders_setPc { s with total := s.total + 1 } i x .reserved hx c
    have e2 : holders { s with total := s.total + 1 } c = holders s c := rfl
    simp [heldBy, hpc] at e
    omega
  have hr := nReserved_setPc { s with total := s.total + 1 } i x .reserved hx
  have hr2 : nReserved { s with total := s.total + 1 } = nReserved s := rfl
  simp [hpc] at hr
  refine ⟨hI.maxc, ?_, ?_, ?_, ?_, ?_⟩
  · show s.total + 1 = liveCount s + nReserved (setPc { s with total := s.total + 1 } i x .reserved)
    rw [hr, hr2, hI.tot]; omega
  · intro hm
    show s.total + 1 ≤ s.max
    rcases hg with h | h
    · exact absurd h hm
    · omega
  · intro c; rw [hh c]; exact hI.one c
  · intro hcl c cn hcn hd; rw [hh c]; exact hI.live hcl c cn hcn hd
  · intro c hc; rw [hh c]; exact hI.dang c hc

/-- `mk`: the reserved slot becomes a fresh connection held by its creator. -/
theorem hinv_create {m : Nat} {s : State} (hI : HInv m s) (i : Nat) (x : Caller)
    (hx : s.callers[i]? = some x) (hpc : x.pc = .reserved)
    (t : State) (cn : Conn) (hcn : cn.dead = false ∧ cn.orphan = false)
    (htc : t.callers = s.callers) (htf : t.free = s.free) (hti : t.inbox = s.inbox)
    (htn : t.conns = s.conns ++ [cn]) (htt : t.total = s.total) (htm : t.max = s.max) (htcl : t.closed = s.closed) :
    HInv m (setPc t i x (.creating s.conns.length)) := by
  have hh : ∀ c, holders (setPc t i x (.creating s.conns.length)) c
      = holders s c + (if s.conns.length = c then 1 else 0) := by
    intro c
    have e := holders_setPc t i x (.creating s.conns.length) (by rw [htc]; exact hx) c
    have e2 : holders t c = holders s c := by
      simp only [holders, nCallers, nFree, nInbox, nOrphan, htc, htf, hti, htn]
      congr 1
      rcases Nat.lt_trichotomy c s.conns.length with h | h | h
      · simp [List.getElem?_append_left h]
      · subst h; simp [hcn.2]
      · have h1 : s.conns.length ≤ c := Nat.le_of_lt h
        rw [List.getElem?_eq_none h1, List.getElem?_eq_none (by simp; omega)]
    simp [heldBy, hpc] at e
    rw [e2] at e
    by_cases hc : s.conns.length = c <;> simp [hc] at e ⊢ <;> omega
  have hr := nReserved_setPc t i x (.creating s.conns.length) (by rw [htc]; exact hx)
  have hr2 : nReserved t = nReserved s := by simp only [nReserved, htc]
  simp [hpc] at hr
  refine ⟨by show t.max = m; rw [htm]; exact hI.maxc, ?_, ?_, ?_, ?_, ?_⟩
  · show t.total = List.countP (fun x => !x.dead) t.conns + nReserved (setPc t i x (.creating s.conns.length))
    rw [htt, htn, liveCount_append, hI.tot]; simp [hcn.1]; omega
  · intro hm
    show t.total ≤ t.max
    rw [htt, htm]
    exact hI.lim (by rw [← htm]; exact hm)
  · intro c
    rw [hh c]
    by_cases hc : s.conns.length = c
    · have := hI.dang c (by omega); simp [hc]; omega
    · have := hI.one c; simp [hc]; omega
  · intro hcl c cn' hcn' hd
    have hcl' : s.closed = false := by rw [← htcl]; exact hcl
    rw [hh c]
    by_cases hc : s.conns.length = c
    · have := hI.dang c (by omega); simp [hc]; omega
    · have hcn2 : t.conns[c]? = some cn' := hcn'
      rw [htn] at hcn2
      have hlt : c < s.conns.length := by
        have := lt_of_getElem? hcn2
        simp at this; omega
      rw [List.getElem?_append_left hlt] at hcn2
      have := hI.live hcl' c cn' hcn2 hd
      simp [hc]; omega
  · intro c hc
    rw [hh c]
    have hc2 : t.conns.length ≤ c := hc
    rw [htn] at hc2
    have hc' : s.conns.length + 1 ≤ c := by simpa using hc2
    have := hI.dang c (by omega)
    have : s.conns.length ≠ c := by omega
    simp [this]; omega

theorem markDead_callers (s : State) (d : Nat) : (markDead s d).callers = s.callers := by
  unfold markDead; split <;> (try split) <;> rfl

theorem markDead_max (s : State) (d : Nat) : (markDead s d).max = s.max := by
  unfold markDead; split <;> (try split) <;> rfl

theorem markDead_closed (s : State) (d : Nat) : (markDead s d).closed = s.closed := by
  unfold markDead; split <;> (try split) <;> rfl

theorem markDead_conn (s : State) (d : Nat) (x : Conn) (h : s.conns[d]? = some x) :
    ∃ y, (markDead s d).conns[d]? = some y ∧ y.dead = true := by
  have hlt := lt_of_getElem? h
  unfold markDead
  rw [h]
  by_cases hd : x.dead = true
  · simp [hd]; exact ⟨x, h, hd⟩
  · simp [hd, hlt]

theorem hinv_markDead_core {m : Nat} {s : State} (hI : HInv m s) (d : Nat) (x x' : Conn)
    (hx : s.conns[d]? = some x) (hd' : x.dead = false) (hx' : x'.dead = true ∧ x'.orphan = x.orphan)
    (t : State) (htc : t.callers = s.callers) (hti : t.inbox = s.inbox) (htf : t.free = s.free.erase d)
    (htn : t.conns = s.conns.set d x') (htt : t.total = s.total - 1) (htm : t.max = s.max)
    (htcl : t.closed = s.closed) : HInv m t := by
  have hlt := lt_of_getElem? hx
  have hcnt := countP_set_of (fun y : Conn => !y.dead) s.conns d x x' hx
  simp [hd', hx'.1] at hcnt
  have hh : ∀ c, holders t c ≤ holders s c ∧ (c ≠ d → holders t c = holders s c) := by
    intro c
    have e := nOrphan_set s d x x' hx c
    have e' : nOrphan t c = nOrphan s c := by
      have : nOrphan t c = nOrphan { s with conns := s.conns.set d x' } c := by
        simp only [nOrphan, htn]
      rw [this]
      rw [hx'.2] at e
      omega
    simp only [holders, nCallers, nFree, nInbox, htc, hti, htf, e']
    refine ⟨?_, ?_⟩
    · have := List.count_erase (a := c) (b := d) (l := s.free)
      omega
    · intro hcd
      have : List.count c (s.free.erase d) = List.count c s.free :=
        List.count_erase_of_ne (by omega)
      omega
  refine ⟨by rw [htm]; exact hI.maxc, ?_, ?_, ?_, ?_, ?_⟩
  · have := hI.tot
    have hr : nReserved t = nReserved s := by simp only [nReserved, htc]
    unfold liveCount at this ⊢
    rw [htt, htn, hr]
    omega
  · intro hm
    rw [htm] at hm ⊢
    have := hI.lim hm
    omega
  · intro c; exact Nat.le_trans (hh c).1 (hI.one c)
  · intro hcl c y hy hyd
    have hcl' : s.closed = false := by rw [← htcl]; exact hcl
    rw [htn] at hy
    by_cases hcd : c = d
    · subst hcd
      simp [hlt] at hy
      subst hy
      rw [hx'.1] at hyd; cases hyd
    · rw [List.getElem?_set] at hy
      have : ¬ d = c := fun h => hcd h.symm
      simp [this] at hy
      rw [(hh c).2 hcd]
      exact hI.live hcl' c y hy hyd
  · intro c hc
    rw [htn] at hc
    have hc' : s.conns.length ≤ c := by simpa using hc
    have := (hh c).1
    have := hI.dang c hc'
    omega

/-- `DC.dead(d)` preserves the invariant. -/
theorem hinv_markDead {m : Nat} {s : State} (hI : HInv m s) (d : Nat) : HInv m (markDead s d) := by
  unfold markDead
  split
  · rename_i x hx
    split
    · exact hI
    · rename_i hd
      have hd' : x.dead = false := by simpa using hd
      exact hinv_markDead_core hI d x { x with dead := true } hx hd' ⟨rfl, rfl⟩ _ rfl rfl rfl rfl rfl rfl rfl
  · exact hI

end TdModel.C27
