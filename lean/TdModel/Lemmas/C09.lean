import TdModel.Model.C09

namespace TdModel.C09
open TdModel

/-! ## arithmetic -/

theorem powMod_eq (b m : Nat) : ∀ e, powMod b e m = b ^ e % m := by
  intro e
  induction e using Nat.strongRecOn with
  | _ e ih =>
    unfold powMod
    by_cases h : e = 0
    · simp [h]
    · simp only [h, dite_false]
      have hlt : e / 2 < e := by omega
      rw [ih (e / 2) hlt]
      have hsq : b ^ (e / 2) % m * (b ^ (e / 2) % m) % m = b ^ (2 * (e / 2)) % m := by
        rw [← Nat.mul_mod, ← Nat.pow_add]; congr 2; omega
      rw [hsq]
      by_cases hodd : e % 2 = 1
      · simp only [hodd, if_true]
        rw [← Nat.mul_mod, ← Nat.pow_succ]
        congr 2; omega
      · simp only [hodd, if_false]
        congr 2; omega

theorem pow_mod_comm (g a b p : Nat) : (g ^ a % p) ^ b % p = (g ^ b % p) ^ a % p := by
  rw [← Nat.pow_mod, ← Nat.pow_mod, ← Nat.pow_mul, ← Nat.pow_mul, Nat.mul_comm]

theorem powMod_comm (g a b p : Nat) : powMod (powMod g a p) b p = powMod (powMod g b p) a p := by
  simp only [powMod_eq]; exact pow_mod_comm g a b p

/-! ## what a successful client step implies -/

theorem onResPQ_some {Ct} (P : XP Ct) (cfg : CCfg) (t : CTape) (m : Msg Ct) (c : CState) (o : Msg Ct)
    (h : onResPQ P cfg t m = (c, some o)) :
    ∃ sn pq fps fp p q, m = .resPQ t.nonce sn pq fps ∧ selectKey cfg.keys fps = some fp ∧ pq ≤ pqMax ∧
      (1 < pq ∧ P.isPrime pq = false) ∧
      P.factor pq = some (p, q) ∧ c = .waitDH sn ∧
      o = .reqDH t.nonce sn p q fp (P.rsaEnc fp
        ⟨cfg.temp, pq, p, q, t.nonce, sn, t.newNonce, cfg.dc, if cfg.temp then cfg.expiresIn else 0⟩ t.rsaPad) := by
  cases m <;> simp only [onResPQ] at h <;> try (simp at h; done)
  rename_i n sn pq fps
  split at h
  · simp at h
  · rename_i hn
    split at h
    · simp at h
    · rename_i fp hfp
      split at h
      · simp at h
      · rename_i hpq
        split at h
        · simp at h
        · rename_i hcomp
          split at h
          · simp at h
          · rename_i p q hf
            simp only [Prod.mk.injEq, Option.some.injEq] at h
            have hc : 1 < pq ∧ P.isPrime pq = false := by
              constructor
              · omega
              · cases hp : P.isPrime pq
                · rfl
                · exact absurd (Or.inr hp) hcomp
            refine ⟨sn, pq, fps, fp, p, q, ?_, hfp, by omega, hc, hf, h.1.symm, h.2.symm⟩
            have : n = t.nonce := by simpa using hn
            rw [this]

theorem onDHParams_some {Ct} (P : XP Ct) (t : CTape) (sn : Bytes) (m : Msg Ct) (c : CState) (o : Msg Ct)
    (h : onDHParams P t sn m = (c, some o)) :
    ∃ ans d, m = .dhOk t.nonce sn ans ∧
      P.decS (tempAESKeys P.sha1 t.newNonce sn) ans = some d ∧
      d.nonce = t.nonce ∧ d.serverNonce = sn ∧
      checkDH P.isPrime d.g d.dhPrime = true ∧
      checkDHParams d.dhPrime d.g.toNat d.gA (powMod d.g.toNat t.b d.dhPrime) = true ∧
      c = .waitGen sn (powMod d.gA t.b d.dhPrime) ∧
      o = .setDH t.nonce sn (P.encC (tempAESKeys P.sha1 t.newNonce sn)
        ⟨d.nonce, d.serverNonce, 0, powMod d.g.toNat t.b d.dhPrime⟩ t.ansPad) := by
  cases m <;> simp only [onDHParams] at h <;> try (simp at h; done)
  rename_i n sn' ans
  split at h
  · simp at h
  · rename_i hn
    split at h
    · simp at h
    · rename_i hsn
      split at h
      · simp at h
      · rename_i d hd
        split at h
        · simp at h
        · rename_i h1
          split at h
          · simp at h
          · rename_i h2
            split at h
            · simp at h
            · rename_i h3
              split at h
              · simp at h
              · rename_i h4
                simp only [Prod.mk.injEq, Option.some.injEq] at h
                have e1 : n = t.nonce := by simpa using hn
                have e2 : sn' = sn := by simpa using hsn
                subst e1 e2
                refine ⟨ans, d, rfl, hd, by simpa using h1, by simpa using h2, by simpa using h3,
                  by simpa using h4, h.1.symm, h.2.symm⟩

theorem onDhGen_done {Ct} (P : XP Ct) (t : CTape) (sn : Bytes) (k : Nat) (m : Msg Ct) (r : CResult)
    (o : Option (Msg Ct)) (h : onDhGen P t sn k m = (.done r, o)) :
    ∃ hash, m = .genOk t.nonce sn hash ∧ nonceHash1 P.sha1 t.newNonce (keyBytes k) = hash ∧
      r = ⟨k, serverSalt t.newNonce sn, t.sessionId⟩ ∧ o = none := by
  cases m <;> simp only [onDhGen] at h <;> try (simp at h; done)
  rename_i n sn' hash
  split at h
  · simp at h
  · rename_i hn
    split at h
    · simp at h
    · rename_i hsn
      split at h
      · simp at h
      · rename_i hh
        simp only [Prod.mk.injEq, CState.done.injEq] at h
        have e1 : n = t.nonce := by simpa using hn
        have e2 : sn' = sn := by simpa using hsn
        subst e1 e2
        exact ⟨hash, rfl, by simpa using hh, h.1.symm, h.2.symm⟩

/-- A step never yields output together with a terminal state, and `done` is reached only from
`waitGen`. -/
theorem onResPQ_not_done {Ct} (P : XP Ct) (cfg : CCfg) (t : CTape) (m : Msg Ct) (r : CResult) (o) :
    onResPQ P cfg t m ≠ (.done r, o) := by
  intro h
  cases m <;> simp only [onResPQ] at h <;> try (simp at h; done)
  repeat (split at h <;> try (simp at h; done))

theorem onDHParams_not_done {Ct} (P : XP Ct) (t : CTape) (sn : Bytes) (m : Msg Ct) (r : CResult) (o) :
    onDHParams P t sn m ≠ (.done r, o) := by
  intro h
  cases m <;> simp only [onDHParams] at h <;> try (simp at h; done)
  repeat (split at h <;> try (simp at h; done))

/-- Shape of every result of a client step function: no output ⇒ terminal or unchanged. -/
theorem onResPQ_none {Ct} (P : XP Ct) (cfg : CCfg) (t : CTape) (m : Msg Ct) (c : CState)
    (h : onResPQ P cfg t m = (c, none)) : ∃ e, c = .failed e := by
  cases m <;> simp only [onResPQ] at h <;> try (exact ⟨_, (Prod.mk.inj h).1.symm⟩)
  repeat (split at h <;> try (first | exact ⟨_, (Prod.mk.inj h).1.symm⟩ | (simp at h; done)))

theorem onDHParams_none {Ct} (P : XP Ct) (t : CTape) (sn : Bytes) (m : Msg Ct) (c : CState)
    (h : onDHParams P t sn m = (c, none)) : ∃ e, c = .failed e := by
  cases m <;> simp only [onDHParams] at h <;> try (exact ⟨_, (Prod.mk.inj h).1.symm⟩)
  repeat (split at h <;> try (first | exact ⟨_, (Prod.mk.inj h).1.symm⟩ | (simp at h; done)))

theorem onDhGen_cases {Ct} (P : XP Ct) (t : CTape) (sn : Bytes) (k : Nat) (m : Msg Ct) :
    (∃ e, onDhGen P t sn k m = (.failed e, none)) ∨ (∃ r, onDhGen P t sn k m = (.done r, none)) := by
  cases m <;> simp only [onDhGen] <;> try (exact Or.inl ⟨_, rfl⟩)
  repeat (split <;> try (first | exact Or.inl ⟨_, rfl⟩ | exact Or.inr ⟨_, rfl⟩))

/-! ## runs of the client -/

theorem crun_failed {Ct} (P : XP Ct) (cfg : CCfg) (t : CTape) (e : CErr) (ms : List (Msg Ct)) :
    crun P cfg t (.failed e) ms = (.failed e, []) := by
  induction ms with
  | nil => rfl
  | cons m rest ih => simp [crun, cstep, ih]

theorem crun_done {Ct} (P : XP Ct) (cfg : CCfg) (t : CTape) (r : CResult) (ms : List (Msg Ct)) :
    crun P cfg t (.done r) ms = (.done r, []) := by
  induction ms with
  | nil => rfl
  | cons m rest ih => simp [crun, cstep, ih]

end TdModel.C09
