/-
C21 — well-formedness of a large schema instance from a regenerated certificate that the kernel
can check quickly: per interface the (constructor, id) pairs, and the constructor ids as chunks
(list indexing in the kernel costs time linear in the index with a large constant, so ids are
looked up in two levels).  `wf_of_cert` is proved once, for every schema.
-/
import TdModel.Lemmas.C21
namespace TdModel.C21

/-- ids pairwise distinct -/
def natsDistinct : List Nat → Bool
  | [] => true
  | x :: xs => !xs.contains x && natsDistinct xs

/-- certificate for one interface: (constructor, id) pairs -/
def ifaceCertOK (S : Schema) (cs : List Nat) (ps : List (Nat × Nat)) : Bool :=
  ps.map Prod.fst == cs &&
  ps.all (fun p => ctorId S p.1 == some p.2 && p.2 < 2 ^ 32) &&
  natsDistinct (ps.map Prod.snd)

def certOK (S : Schema) : List (List Nat) → List (List (Nat × Nat)) → Bool
  | [], [] => true
  | cs :: css, ps :: pss => ifaceCertOK S cs ps && certOK S css pss
  | _, _ => false

theorem findIn_none_of_cert (S : Schema) (id : Nat) : ∀ (ps : List (Nat × Nat)),
    (ps.all (fun p => ctorId S p.1 == some p.2 && p.2 < 2 ^ 32)) = true →
    (ps.map Prod.snd).contains id = false → findIn S id (ps.map Prod.fst) = none := by
  intro ps
  induction ps with
  | nil => intro _ _; rfl
  | cons p ps ih =>
    intro hall hnc
    simp only [List.all_cons, Bool.and_eq_true, beq_iff_eq, decide_eq_true_eq] at hall
    simp only [List.map_cons, List.contains_cons, Bool.or_eq_false_iff, beq_eq_false_iff_ne] at hnc
    simp only [List.map_cons, findIn, hall.1.1]
    have : ¬ (some p.2 = some id) := by
      intro h; injection h with h; exact hnc.1 h.symm
    simp only [this, if_false]
    exact ih hall.2 hnc.2

theorem idsDistinct_of_cert (S : Schema) : ∀ (ps : List (Nat × Nat)),
    (ps.all (fun p => ctorId S p.1 == some p.2 && p.2 < 2 ^ 32)) = true →
    natsDistinct (ps.map Prod.snd) = true → idsDistinct S (ps.map Prod.fst) = true := by
  intro ps
  induction ps with
  | nil => intro _ _; rfl
  | cons p ps ih =>
    intro hall hd
    have hall' := hall
    simp only [List.all_cons, Bool.and_eq_true, beq_iff_eq, decide_eq_true_eq] at hall
    simp only [List.map_cons, natsDistinct, Bool.and_eq_true, Bool.not_eq_true'] at hd
    simp only [List.map_cons, idsDistinct, hall.1.1, Bool.and_eq_true, decide_eq_true_eq, beq_iff_eq]
    refine ⟨⟨hall.1.2, ?_⟩, ih (by simpa using hall.2) hd.2⟩
    exact findIn_none_of_cert S p.2 ps (by simpa using hall.2) hd.1

theorem ifaces_of_cert (S : Schema) : ∀ (css : List (List Nat)) (pss : List (List (Nat × Nat))),
    certOK S css pss = true → css.all (idsDistinct S) = true := by
  intro css
  induction css with
  | nil => intro pss _; rfl
  | cons cs css ih =>
    intro pss h
    cases pss with
    | nil => simp [certOK] at h
    | cons ps pss =>
      simp only [certOK, ifaceCertOK, Bool.and_eq_true, beq_iff_eq] at h
      obtain ⟨⟨⟨h1, h2⟩, h3⟩, h4⟩ := h
      simp only [List.all_cons, Bool.and_eq_true]
      refine ⟨?_, ih pss h4⟩
      rw [← h1]
      exact idsDistinct_of_cert S ps h2 h3

def idAt (ids : List (Option Nat)) (c : Nat) : Option Nat :=
  match ids[c]? with
  | some x => x
  | none => none

theorem ctorId_eq_idAt (S : Schema) (c : Nat) : ctorId S c = idAt (S.ctors.toList.map Ctor.id) c := by
  unfold ctorId idAt
  simp only [List.getElem?_map, Array.getElem?_toList]
  cases S.ctors[c]? <;> rfl

/-- the certificate checked against a flat list of ids instead of the schema -/
def certOK' (ids : List (Option Nat)) : List (List Nat) → List (List (Nat × Nat)) → Bool
  | [], [] => true
  | cs :: css, ps :: pss =>
    (ps.map Prod.fst == cs && ps.all (fun p => idAt ids p.1 == some p.2 && p.2 < 2 ^ 32) &&
      natsDistinct (ps.map Prod.snd)) && certOK' ids css pss
  | _, _ => false

theorem certOK_of' (S : Schema) : ∀ css pss, certOK' (S.ctors.toList.map Ctor.id) css pss = true →
    certOK S css pss = true := by
  intro css
  induction css with
  | nil => intro pss h; cases pss <;> simp_all [certOK, certOK']
  | cons cs css ih =>
    intro pss h
    cases pss with
    | nil => simp [certOK'] at h
    | cons ps pss =>
      simp only [certOK', Bool.and_eq_true] at h
      simp only [certOK, ifaceCertOK, Bool.and_eq_true]
      refine ⟨⟨⟨h.1.1.1, ?_⟩, h.1.2⟩, ih pss h.2⟩
      have := h.1.1.2
      simpa only [ctorId_eq_idAt] using this

/-! ### two-level lookup -/

/-- ids in chunks `(length, ids)`; the stated lengths are checked once by `chunksOK`. -/
def idAtChunks : List (Nat × List (Option Nat)) → Nat → Option Nat
  | [], _ => none
  | (n, ch) :: rest, c => if c < n then idAt ch c else idAtChunks rest (c - n)

def chunksOK (chunks : List (Nat × List (Option Nat))) : Bool :=
  chunks.all (fun p => p.1 == p.2.length)

def unchunk (chunks : List (Nat × List (Option Nat))) : List (Option Nat) :=
  (chunks.map Prod.snd).flatten

theorem idAt_append_left (a b : List (Option Nat)) (c : Nat) (h : c < a.length) :
    idAt (a ++ b) c = idAt a c := by
  unfold idAt
  rw [List.getElem?_append_left h]

theorem idAt_append_right (a b : List (Option Nat)) (c : Nat) (h : a.length ≤ c) :
    idAt (a ++ b) c = idAt b (c - a.length) := by
  unfold idAt
  rw [List.getElem?_append_right h]

theorem idAtChunks_eq : ∀ (chunks : List (Nat × List (Option Nat))) (c : Nat),
    chunksOK chunks = true → idAtChunks chunks c = idAt (unchunk chunks) c := by
  intro chunks
  induction chunks with
  | nil => intro c _; simp [idAtChunks, unchunk, idAt]
  | cons p rest ih =>
    intro c hok
    obtain ⟨n, ch⟩ := p
    simp only [chunksOK, List.all_cons, Bool.and_eq_true, beq_iff_eq] at hok
    obtain ⟨hn, hrest⟩ := hok
    subst hn
    simp only [idAtChunks, unchunk, List.map_cons, List.flatten_cons]
    split
    · rename_i hlt
      rw [idAt_append_left _ _ _ hlt]
    · rename_i hge
      rw [idAt_append_right _ _ _ (by omega)]
      exact ih _ (by simpa [chunksOK] using hrest)

/-- the certificate checked against chunked ids -/
def certOKc (chunks : List (Nat × List (Option Nat))) : List (List Nat) → List (List (Nat × Nat)) → Bool
  | [], [] => true
  | cs :: css, ps :: pss =>
    (ps.map Prod.fst == cs && ps.all (fun p => idAtChunks chunks p.1 == some p.2 && p.2 < 2 ^ 32) &&
      natsDistinct (ps.map Prod.snd)) && certOKc chunks css pss
  | _, _ => false

theorem certOK'_of_c (chunks : List (Nat × List (Option Nat))) (hok : chunksOK chunks = true) :
    ∀ css pss, certOKc chunks css pss = true → certOK' (unchunk chunks) css pss = true := by
  intro css
  induction css with
  | nil => intro pss h; cases pss <;> simp_all [certOKc, certOK']
  | cons cs css ih =>
    intro pss h
    cases pss with
    | nil => simp [certOKc] at h
    | cons ps pss =>
      simp only [certOKc, Bool.and_eq_true] at h
      simp only [certOK', Bool.and_eq_true]
      refine ⟨⟨⟨h.1.1.1, ?_⟩, h.1.2⟩, ih pss h.2⟩
      have := h.1.1.2
      simpa only [idAtChunks_eq _ _ hok] using this

/-- Well-formedness from the certificate: every constructor is understood and has a 32-bit id
(`hc`), the chunked ids are the schema's ids (`hids`, one linear comparison), the stated chunk
lengths are right (`hch`), and per interface the certificate lists its members with their ids,
pairwise distinct (`h`). -/
theorem wf_of_cert (S : Schema) (chunks : List (Nat × List (Option Nat))) (pss : List (List (Nat × Nat)))
    (hc : S.ctors.toList.all Ctor.ok = true) (hch : chunksOK chunks = true)
    (hids : S.ctors.toList.map Ctor.id = unchunk chunks)
    (h : certOKc chunks S.ifaces.toList pss = true) : S.wf = true := by
  have h' := certOK'_of_c chunks hch _ _ h
  rw [← hids] at h'
  unfold Schema.wf
  rw [hc, ifaces_of_cert S _ pss (certOK_of' S _ _ h')]
  rfl

end TdModel.C21
