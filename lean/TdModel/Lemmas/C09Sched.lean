import TdModel.Model.C09Sched
import TdModel.Lemmas.C09Run

namespace TdModel.C09
open TdModel

variable {Ct : Type} (P : XP Ct) (cc : CCfg) (ct : CTape) (sc : SCfg) (st : STape)

/-- `pump n` ended because a side produced no further message (not because the fuel ran out). -/
def pumpQ : Nat → CState → SState → Msg Ct → Prop
  | 0, _, _, _ => False
  | n + 1, c, s, m =>
    match (sstep P sc st s m).2 with
    | none => True
    | some r =>
      match (cstep P cc ct c r).2 with
      | none => True
      | some m' => pumpQ n (cstep P cc ct c r).1 (sstep P sc st s m).1 m'

/-- One message in flight to the server, nothing else pending. -/
def tokS (c : CState) (s : SState) (m : Msg Ct) : Sys Ct := ⟨c, none, s, none, [m], []⟩

theorem exec_nil (x y : Sys Ct) (h : exec P cc ct sc st x [] = some y) : y = x := by
  simp [exec] at h; exact h.symm

/-- From a quiescent state no action is enabled. -/
theorem exec_quiescent (c : CState) (s : SState) (as : List Act) (y : Sys Ct)
    (h : exec P cc ct sc st ⟨c, none, s, none, [], []⟩ as = some y) : as = [] ∧ y = ⟨c, none, s, none, [], []⟩ := by
  cases as with
  | nil => exact ⟨rfl, exec_nil P cc ct sc st _ _ h⟩
  | cons a rest => cases a <;> simp [exec, step] at h

/-- Every schedule from "one message in flight to the server" that reaches a quiescent state ends
in the states `pump` computes. -/
theorem exec_tokS (n : Nat) : ∀ (c : CState) (s : SState) (m : Msg Ct) (as : List Act) (y : Sys Ct),
    pumpQ P cc ct sc st n c s m →
    exec P cc ct sc st (tokS c s m) as = some y → y.quiescent →
    y.c = (pump P cc ct sc st n c s m).1 ∧ y.s = (pump P cc ct sc st n c s m).2.1 := by
  induction n with
  | zero => intro c s m as y hq; exact absurd hq (by simp [pumpQ])
  | succ n ih =>
    intro c s m as y hq h hy
    -- the only enabled action is the server's read
    cases as with
    | nil =>
      have := exec_nil P cc ct sc st _ _ h
      subst this
      simp [Sys.quiescent, tokS] at hy
    | cons a1 r1 =>
      cases a1 <;> simp only [exec, step, tokS] at h <;> try (simp at h; done)
      simp only [pump]
      simp only [pumpQ] at hq
      cases hs : (sstep P sc st s m).2 with
      | none =>
        rw [hs] at h
        obtain ⟨_, hy'⟩ := exec_quiescent P cc ct sc st _ _ _ _ h
        subst hy'
        simp [hs]
      | some r =>
        rw [hs] at h hq
        simp only [hs]
        -- … then the server's write
        cases r1 with
        | nil =>
          have := exec_nil P cc ct sc st _ _ h
          subst this
          simp [Sys.quiescent] at hy
        | cons a2 r2 =>
          cases a2 <;> simp only [exec, step] at h <;> try (simp at h; done)
          simp only [List.nil_append] at h
          -- … then the client's read
          cases r2 with
          | nil =>
            have := exec_nil P cc ct sc st _ _ h
            subst this
            simp [Sys.quiescent] at hy
          | cons a3 r3 =>
            cases a3 <;> simp only [exec, step] at h <;> try (simp at h; done)
            simp only at hq
            cases hc : (cstep P cc ct c r).2 with
            | none =>
              rw [hc] at h
              obtain ⟨_, hy'⟩ := exec_quiescent P cc ct sc st _ _ _ _ h
              subst hy'
              simp
            | some m' =>
              rw [hc] at h hq
              simp only
              -- … then the client's write
              cases r3 with
              | nil =>
                have := exec_nil P cc ct sc st _ _ h
                subst this
                simp [Sys.quiescent] at hy
              | cons a4 r4 =>
                cases a4 <;> simp only [exec, step] at h <;> try (simp at h; done)
                simp only [List.nil_append] at h
                exact ih _ _ _ r4 y hq h hy

/-- The honest composition always ends within three round trips (never because of the fuel). -/
theorem honest_complete : pumpQ P cc ct sc st 3 .waitResPQ .waitReqPQ (.reqPQ ct.nonce) := by
  simp only [pumpQ, sstep_reqPQ, cstep_waitResPQ]
  cases h1 : onResPQ P cc ct (.resPQ ct.nonce st.serverNonce st.pq [sc.fp]) with
  | mk c1 o1 =>
    cases o1 with
    | none => simp
    | some m1 =>
      obtain ⟨sn, _, _, _, _, _, _, _, _, _, _, hc1, _⟩ := onResPQ_some P cc ct _ c1 m1 h1
      subst hc1
      simp only
      cases hs2 : (sstep P sc st (.waitReqDH ct.nonce) m1).2 with
      | none => simp
      | some r2 =>
        simp only [cstep_waitDH]
        cases h2 : onDHParams P ct sn r2 with
        | mk c2 o2 =>
          cases o2 with
          | none => simp
          | some m2 =>
            obtain ⟨_, d, _, _, _, _, _, _, hc2, _⟩ := onDHParams_some P ct sn r2 c2 m2 h2
            subst hc2
            simp only
            cases hs3 : (sstep P sc st (sstep P sc st (.waitReqDH ct.nonce) m1).1 m2).2 with
            | none => simp
            | some r3 =>
              simp only [cstep_waitGen]
              rcases onDhGen_cases P ct sn (powMod d.gA ct.b d.dhPrime) r3 with ⟨e, h3⟩ | ⟨r, h3⟩ <;> simp [h3]

/-- All read/write interleavings: every schedule of the two `Run`s over the transport that runs
until nothing is pending ends with client and server in exactly the states of `honestRun`. -/
theorem sched_independent (as : List Act) (y : Sys Ct)
    (h : exec P cc ct sc st (Sys.init ct) as = some y) (hy : y.quiescent) :
    y.c = (honestRun P cc ct sc st).1 ∧ y.s = (honestRun P cc ct sc st).2.1 := by
  cases as with
  | nil =>
    have := exec_nil P cc ct sc st _ _ h
    subst this
    simp [Sys.quiescent, Sys.init] at hy
  | cons a rest =>
    cases a <;> simp only [exec, step, Sys.init] at h <;> try (simp at h; done)
    simp only [List.nil_append] at h
    exact exec_tokS P cc ct sc st 3 _ _ _ rest y (honest_complete P cc ct sc st) h hy

/-! ## there is exactly one schedule -/

theorem opt_toList_le_one {α} (o : Option α) : o.toList.length ≤ 1 := by cases o <;> simp

theorem step_tokens (x y : Sys Ct) (a : Act) (h : step P cc ct sc st x a = some y) (ht : x.tokens ≤ 1) :
    y.tokens ≤ 1 := by
  obtain ⟨c, cOut, s, sOut, toS, toC⟩ := x
  cases a <;> simp only [step] at h
  · cases cOut with
    | none => simp at h
    | some m =>
      simp only [Option.some.injEq] at h; subst h
      simp only [Sys.tokens, Option.toList_none, Option.toList_some, List.length_cons, List.length_nil, List.length_append] at ht ⊢
      omega
  · cases sOut with
    | some m => simp at h
    | none =>
      cases toS with
      | nil => simp at h
      | cons m rest =>
        simp only [Option.some.injEq] at h; subst h
        have := opt_toList_le_one (sstep P sc st s m).2
        simp only [Sys.tokens, Option.toList_none, Option.toList_some, List.length_cons, List.length_nil] at ht ⊢
        omega
  · cases sOut with
    | none => simp at h
    | some m =>
      simp only [Option.some.injEq] at h; subst h
      simp only [Sys.tokens, Option.toList_none, Option.toList_some, List.length_cons, List.length_nil, List.length_append] at ht ⊢
      omega
  · cases cOut with
    | some m => simp at h
    | none =>
      cases toC with
      | nil => simp at h
      | cons m rest =>
        simp only [Option.some.injEq] at h; subst h
        have := opt_toList_le_one (cstep P cc ct c m).2
        simp only [Sys.tokens, Option.toList_none, Option.toList_some, List.length_cons, List.length_nil] at ht ⊢
        omega

/-- Which resource an enabled action consumes: 0 = the client's pending write, 1 = a message in
flight to the server, 2 = the server's pending write, 3 = a message in flight to the client. -/
theorem step_enabled (x y : Sys Ct) (a : Act) (h : step P cc ct sc st x a = some y) :
    match a with
    | .cSend => 1 ≤ x.cOut.toList.length
    | .sRecv => x.sOut.toList.length = 0 ∧ 1 ≤ x.toS.length
    | .sSend => 1 ≤ x.sOut.toList.length
    | .cRecv => x.cOut.toList.length = 0 ∧ 1 ≤ x.toC.length := by
  obtain ⟨c, cOut, s, sOut, toS, toC⟩ := x
  cases a <;> simp only [step] at h
  · cases cOut <;> simp at h ⊢
  · cases sOut <;> cases toS <;> simp at h ⊢
  · cases sOut <;> simp at h ⊢
  · cases cOut <;> cases toC <;> simp at h ⊢

/-- With at most one message pending or in flight, at most one action is enabled. -/
theorem step_det (x y z : Sys Ct) (a b : Act) (ht : x.tokens ≤ 1)
    (h1 : step P cc ct sc st x a = some y) (h2 : step P cc ct sc st x b = some z) : a = b := by
  have e1 := step_enabled P cc ct sc st x y a h1
  have e2 := step_enabled P cc ct sc st x z b h2
  unfold Sys.tokens at ht
  cases a <;> cases b <;> simp only at e1 e2 <;> first | rfl | (exfalso; omega)

theorem init_tokens : (Sys.init ct : Sys Ct).tokens ≤ 1 := by simp [Sys.init, Sys.tokens]

/-- The interleaving is forced: two schedules of the same length from the start are the same
schedule (and a schedule is a prefix of every longer one) — the product system has a single run. -/
theorem exec_unique : ∀ (x : Sys Ct) (as bs : List Act) (y z : Sys Ct), x.tokens ≤ 1 →
    exec P cc ct sc st x as = some y → exec P cc ct sc st x bs = some z → as.length = bs.length → as = bs := by
  intro x as
  induction as generalizing x with
  | nil => intro bs y z _ _ _ hl; cases bs with
    | nil => rfl
    | cons b r => simp at hl
  | cons a ra ih =>
    intro bs y z ht h1 h2 hl
    cases bs with
    | nil => simp at hl
    | cons b rb =>
      simp only [exec] at h1 h2
      cases ha : step P cc ct sc st x a with
      | none => rw [ha] at h1; simp at h1
      | some xa =>
        cases hb : step P cc ct sc st x b with
        | none => rw [hb] at h2; simp at h2
        | some xb =>
          have hab := step_det P cc ct sc st x xa xb a b ht ha hb
          subst hab
          rw [ha] at h1 hb
          simp only [Option.some.injEq] at hb
          subst hb
          rw [ha] at h2
          have := ih xa rb y z (step_tokens P cc ct sc st x xa a ha ht) h1 h2 (by simpa using hl)
          rw [this]

end TdModel.C09
