/- C25 — preservation of `Rpc.Retry` by the remaining call-thread actions. -/
import TdModel.Lemmas.C25
set_option linter.unusedVariables false
namespace TdModel.Rpc

set_option maxHeartbeats 4000000 in
theorem retry_loop {cfg : Cfg} {s s' : State} {i : Nat} {b : LoopBr} (hg : cfg.std = true) (hm : 1 ≤ cfg.maxRetries)
    (h : Retry cfg s) (hs : stepLoop cfg s i b = some s') : Retry cfg s' := by
  unfold stepLoop at hs
  std_norm hg at hs
  split at hs
  · simp at hs
  · split at hs
    · simp at hs
    · try dsimp only at hs
      split at hs
      all_goals (split at hs <;> try (simp at hs))
      all_goals (try (split at hs <;> try (simp at hs)))
      all_goals (first | subst hs | (obtain ⟨_, hs⟩ := hs; subst hs))
      all_goals retry_close hg

set_option maxHeartbeats 4000000 in
theorem retry_wait {cfg : Cfg} {s s' : State} {i : Nat} {b : WaitBr} (hg : cfg.std = true) (hm : 1 ≤ cfg.maxRetries)
    (h : Retry cfg s) (hs : stepWait cfg s i b = some s') : Retry cfg s' := by
  unfold stepWait at hs
  std_norm hg at hs
  split at hs
  · simp at hs
  · split at hs
    · simp at hs
    · split at hs
      all_goals (split at hs <;> try (simp at hs))
      all_goals (try (split at hs <;> try (simp at hs)))
      all_goals (first | subst hs | (obtain ⟨_, hs⟩ := hs; subst hs))
      all_goals retry_close hg

set_option maxHeartbeats 4000000 in
theorem retry_dret {cfg : Cfg} {s s' : State} {i : Nat} {o : Outcome} (hg : cfg.std = true) (hm : 1 ≤ cfg.maxRetries)
    (h : Retry cfg s) (hs : stepDret cfg s i o = some s') : Retry cfg s' := by
  unfold stepDret at hs
  std_norm hg at hs
  split at hs
  · simp at hs
  · split at hs <;> simp at hs
    subst hs
    retry_close hg

set_option maxHeartbeats 4000000 in
theorem retry_gpass {cfg : Cfg} {s s' : State} {i : Nat} (hg : cfg.std = true) (hm : 1 ≤ cfg.maxRetries) (h : Retry cfg s)
    (hs : stepGpass cfg s i = some s') : Retry cfg s' := by
  unfold stepGpass at hs
  std_norm hg at hs
  split at hs
  · simp at hs
  · split at hs <;> simp at hs
    subst hs
    retry_close hg

end TdModel.Rpc
