/-
Helper lemmas for C40 (split/join on '_', the Parts loop, decimal numerals, Duration arithmetic).
-/
import TdModel.Model.C40

namespace TdModel.C40
open TdModel

theorem sep_eq : sep = 95 := rfl

theorem isDigit_iff (c : UInt8) : isDigit c = true ↔ 48 ≤ c.toNat ∧ c.toNat ≤ 57 := by
  unfold isDigit Facts.C40.isDigit
  simp only [Bool.and_eq_true, decide_eq_true_eq]
  omega

/-- A word is free of the separator. -/
def noSep (p : Bytes) : Prop := ∀ c ∈ p, c ≠ sep

theorem splitUs_ne_nil (s : Bytes) : splitUs s ≠ [] := by
  induction s with
  | nil => simp [splitUs]
  | cons c cs ih =>
    unfold splitUs
    split
    · simp
    · split <;> simp

theorem splitUs_noSep (p : Bytes) (h : noSep p) : splitUs p = [p] := by
  induction p with
  | nil => rfl
  | cons c cs ih =>
    have hc : c ≠ sep := h c (by simp)
    have hcs : noSep cs := fun x hx => h x (by simp [hx])
    simp [splitUs, hc, ih hcs]

theorem splitUs_append_sep (p s : Bytes) (h : noSep p) : splitUs (p ++ sep :: s) = p :: splitUs s := by
  induction p with
  | nil => simp [splitUs]
  | cons c cs ih =>
    have hc : c ≠ sep := h c (by simp)
    have hcs : noSep cs := fun x hx => h x (by simp [hx])
    simp [splitUs, hc, ih hcs]

/-- `strings.Split(strings.Join(parts, "_"), "_") = parts` for separator-free parts. -/
theorem splitUs_joinUs (parts : List Bytes) (hne : parts ≠ []) (h : ∀ p ∈ parts, noSep p) :
    splitUs (joinUs parts) = parts := by
  induction parts with
  | nil => exact absurd rfl hne
  | cons p ps ih =>
    cases ps with
    | nil => simp [joinUs, splitUs_noSep p (h p (by simp))]
    | cons q qs =>
      simp only [joinUs]
      rw [splitUs_append_sep p _ (h p (by simp))]
      rw [ih (by simp) (fun x hx => h x (by simp [hx]))]

/-- `strings.Join(strings.Split(s, "_"), "_") = s` for every string. -/
theorem joinUs_splitUs (s : Bytes) : joinUs (splitUs s) = s := by
  induction s with
  | nil => rfl
  | cons c cs ih =>
    unfold splitUs
    by_cases hc : c = sep
    · simp only [hc, if_true]
      cases hs : splitUs cs with
      | nil => exact absurd hs (splitUs_ne_nil cs)
      | cons p ps => rw [hs] at ih; simp [joinUs, ih]
    · simp only [hc, if_false]
      cases hs : splitUs cs with
      | nil => exact absurd hs (splitUs_ne_nil cs)
      | cons p ps =>
        rw [hs] at ih
        cases ps with
        | nil => simp [joinUs] at ih ⊢; exact ih
        | cons q qs => simp [joinUs] at ih ⊢; exact ih

/-- A word that contains a non-digit is kept by the loop. -/
def hasNonDigit (p : Bytes) : Prop := ∃ c ∈ p, isDigit c = false

theorem allDigits_false_of_hasNonDigit (p : Bytes) (h : hasNonDigit p) : allDigits p = false := by
  obtain ⟨c, hc, hd⟩ := h
  unfold allDigits
  rw [List.all_eq_false]
  exact ⟨c, hc, by simp [hd]⟩

theorem scan_words (ws nd : List Bytes) (a : Nat) (h : ∀ w ∈ ws, hasNonDigit w) :
    scan ws nd a = .ok (nd ++ ws, a) := by
  induction ws generalizing nd with
  | nil => simp [scan]
  | cons w ws ih =>
    have hw := allDigits_false_of_hasNonDigit w (h w (by simp))
    simp only [scan, hw]
    rw [ih (nd ++ [w]) (fun x hx => h x (by simp [hx]))]
    simp

theorem scan_append_words (ws rest nd : List Bytes) (a : Nat) (h : ∀ w ∈ ws, hasNonDigit w) :
    scan (ws ++ rest) nd a = scan rest (nd ++ ws) a := by
  induction ws generalizing nd with
  | nil => simp
  | cons w ws ih =>
    have hw := allDigits_false_of_hasNonDigit w (h w (by simp))
    simp only [List.cons_append, scan, hw]
    rw [ih (nd ++ [w]) (fun x hx => h x (by simp [hx]))]
    simp

/-- A non-empty digit string whose value fits an int. -/
structure IsNumber (ds : Bytes) : Prop where
  nonempty : ds ≠ []
  digits : ∀ c ∈ ds, isDigit c = true
  fits : digitsVal ds < 2 ^ 63

theorem allDigits_of_isNumber (ds : Bytes) (h : IsNumber ds) : allDigits ds = true := by
  unfold allDigits
  rw [List.all_eq_true]
  exact h.digits

theorem atoi_of_isNumber (ds : Bytes) (h : IsNumber ds) : atoi ds = some (digitsVal ds) := by
  unfold atoi
  have : ds.isEmpty = false := by
    cases ds with
    | nil => exact absurd rfl h.nonempty
    | cons _ _ => rfl
  simp [this, h.fits]

theorem noSep_of_digits (ds : Bytes) (h : ∀ c ∈ ds, isDigit c = true) : noSep ds := by
  intro c hc heq
  have := (isDigit_iff c).mp (h c hc)
  rw [heq, sep_eq] at this
  simp at this

/-- The loop on words with one number inserted anywhere: all words kept in order, argument = the number. -/
theorem scan_insertAt (ws : List Bytes) (ds : Bytes) (k : Nat) (hw : ∀ w ∈ ws, hasNonDigit w)
    (hd : IsNumber ds) : scan (insertAt k ds ws) [] 0 = .ok (ws, digitsVal ds) := by
  unfold insertAt
  rw [scan_append_words _ _ _ _ (fun w hx => hw w (List.mem_of_mem_take hx))]
  simp only [scan, allDigits_of_isNumber ds hd, atoi_of_isNumber ds hd, if_true]
  rw [scan_words _ _ _ (fun w hx => hw w (List.mem_of_mem_drop hx))]
  simp

theorem insertAt_length (k : Nat) (x : Bytes) (ws : List Bytes) : (insertAt k x ws).length = ws.length + 1 := by
  unfold insertAt
  simp only [List.length_append, List.length_cons, List.length_take, List.length_drop]
  omega

theorem insertAt_ne_nil (k : Nat) (x : Bytes) (ws : List Bytes) : insertAt k x ws ≠ [] := by
  unfold insertAt; simp

theorem mem_insertAt {k : Nat} {x p : Bytes} {ws : List Bytes} (h : p ∈ insertAt k x ws) : p = x ∨ p ∈ ws := by
  unfold insertAt at h
  simp only [List.mem_append, List.mem_cons] at h
  rcases h with h | h | h
  · right; exact List.mem_of_mem_take h
  · left; exact h
  · right; exact List.mem_of_mem_drop h

theorem parse_of_split {msg : Bytes} {parts : List Bytes} (hs : splitUs msg = parts) (hl : 2 ≤ parts.length)
    (hne : msg ≠ []) : parse msg = (match scan parts [] 0 with
      | .error a => ⟨msg, a⟩
      | .ok (nd, a) => ⟨joinUs nd, a⟩) := by
  unfold parse
  have h1 : msg.isEmpty = false := by
    cases msg with
    | nil => exact absurd rfl hne
    | cons _ _ => rfl
  have h2 : Facts.C40.tooFewParts (parts.length : Int) = false := by
    simp [Facts.C40.tooFewParts]; omega
  simp only [h1, hs, h2, Bool.false_eq_true, if_false]
  rfl

theorem joinUs_ne_nil_of_two (parts : List Bytes) (h : 2 ≤ parts.length) : joinUs parts ≠ [] := by
  match parts, h with
  | p :: q :: ps, _ => simp [joinUs]

/-! ### Decimal numerals -/

theorem digitsVal_append (xs : Bytes) (c : UInt8) : digitsVal (xs ++ [c]) = digitsVal xs * 10 + (c.toNat - 48) := by
  simp [digitsVal, List.foldl_append]

theorem digitChar_toNat (d : Nat) (h : d < 10) : (digitChar d).toNat = 48 + d := by
  unfold digitChar
  rw [UInt8.toNat_ofNat']
  omega

theorem decimal_spec (n : Nat) :
    digitsVal (decimal n) = n ∧ decimal n ≠ [] ∧ ∀ c ∈ decimal n, isDigit c = true := by
  induction n using Nat.strongRecOn with
  | _ n ih =>
    unfold decimal
    split
    · rename_i h
      refine ⟨?_, by simp, ?_⟩
      · simp [digitsVal, digitChar_toNat n h]
      · intro c hc
        simp only [List.mem_singleton] at hc
        rw [hc, isDigit_iff, digitChar_toNat n h]; omega
    · rename_i h
      have hlt : n / 10 < n := by omega
      obtain ⟨h1, h2, h3⟩ := ih (n / 10) hlt
      have hm : n % 10 < 10 := by omega
      refine ⟨?_, by simp, ?_⟩
      · rw [digitsVal_append, h1, digitChar_toNat _ hm]; omega
      · intro c hc
        simp only [List.mem_append, List.mem_singleton] at hc
        rcases hc with hc | hc
        · exact h3 c hc
        · rw [hc, isDigit_iff, digitChar_toNat _ hm]; omega

theorem decimal_isNumber (n : Nat) (h : n < 2 ^ 63) : IsNumber (decimal n) := by
  obtain ⟨h1, h2, h3⟩ := decimal_spec n
  exact ⟨h2, h3, by rw [h1]; exact h⟩

/-- Leading zeros do not change the value. -/
theorem digitsVal_zeros (k : Nat) (ds : Bytes) : digitsVal (List.replicate k 48 ++ ds) = digitsVal ds := by
  induction k with
  | zero => rfl
  | succ k ih =>
    simp only [List.replicate_succ, List.cons_append]
    unfold digitsVal at *
    simp only [List.foldl_cons]
    have : (0 * 10 + ((48 : UInt8).toNat - 48)) = 0 := by decide
    rw [this]
    exact ih

/-! ### Duration arithmetic -/

theorem wrap64_id (x : Int) (h : -2 ^ 63 ≤ x ∧ x < 2 ^ 63) : wrap64 x = x := by
  unfold wrap64; omega

theorem floodDuration_eq (a : Int) : Facts.C40.floodDuration a = 1000000000 * a := rfl
theorem floodTimerArg_eq (d : Int) : Facts.C40.floodTimerArg d = d + 1000000000 := rfl

theorem wrap64_range (x : Int) : -2 ^ 63 ≤ wrap64 x ∧ wrap64 x < 2 ^ 63 := by
  unfold wrap64; omega

end TdModel.C40
