/-
Lemmas about the shared transport codec model (`TdModel.Codec`): the combinators of the
panic-explicit readers preserve "no panic" and allocation bounds.  Core Lean only.
-/
import TdModel.Model.C16C17
import TdModel.Lemmas.Bin

namespace TdModel.Codec
open TdModel TdModel.Bin

/-- The read did not hit one of Go's run-time checks. -/
def NoPanic (r : Res) : Prop := r.out.isPanic = false

/-- Every buffer length requested during the read is at most `B`. -/
def AllocLe (B : Nat) (r : Res) : Prop := ∀ a ∈ r.allocs, a ≤ B

/-- Both at once (the proofs walk the reader only once). -/
def Safe (B : Nat) (r : Res) : Prop := NoPanic r ∧ AllocLe B r

theorem safe_ok (B : Nat) (f r : Bytes) : Safe B (Res.ok f r) := by
  constructor
  · rfl
  · intro a h; simp [Res.ok] at h

theorem safe_err (B : Nat) (e : RErr) : Safe B (Res.err e) := by
  constructor
  · rfl
  · intro a h; simp [Res.err] at h

theorem safe_alloc {B n : Nat} {k : Res} (hn : n ≤ B) (hk : Safe B k) : Safe B (Res.alloc n k) := by
  constructor
  · exact hk.1
  · intro a h
    simp only [Res.alloc, List.mem_cons] at h
    rcases h with h | h
    · omega
    · exact hk.2 a h

theorem safe_make {B : Nat} {n : Int} {k : Nat → Res} (hn : 0 ≤ n) (hk : Safe B (k n.toNat)) :
    Safe B (Res.make n k) := by
  unfold Res.make; simp only [hn, if_true]; exact hk

theorem safe_slice {B : Nat} {b : Bytes} {i j : Int} {k : Bytes → Res}
    (h : 0 ≤ i ∧ i ≤ j ∧ j ≤ b.length)
    (hk : ∀ x : Bytes, x.length = (j - i).toNat → Safe B (k x)) : Safe B (Res.slice b i j k) := by
  unfold Res.slice; simp only [h, and_self, if_true]
  apply hk
  simp only [List.length_take, List.length_drop]
  omega

theorem safe_readN {B n : Nat} {s : Bytes} {k : Bytes → Bytes → Res}
    (hk : ∀ x rest : Bytes, x.length = n → Safe B (k x rest)) : Safe B (Res.readN n s k) := by
  unfold Res.readN
  split
  · exact safe_err _ _
  · apply hk; simp only [List.length_take]; omega

theorem safe_readLen {B limit : Nat} {s : Bytes} {k : Nat → Bytes → Res} (hB : 4 ≤ B)
    (hk : ∀ n rest, 0 < n → n ≤ limit → Safe B (k n rest)) : Safe B (readLen limit s k) := by
  unfold readLen
  apply safe_alloc hB
  apply safe_readN
  intro x rest _
  simp only
  split
  · exact safe_err _ _
  · rename_i h
    apply hk <;> omega

theorem safe_checkProto {B : Nat} {r : Res} (h : Safe B r) : Safe B (checkProto r) := by
  unfold checkProto
  split
  · split
    · exact ⟨rfl, h.2⟩
    · exact h
  · exact h

end TdModel.Codec
