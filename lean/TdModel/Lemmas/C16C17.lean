/-
Lemmas about the shared transport codec model (`TdModel.Codec`): the combinators of the
panic-explicit readers preserve "no panic" and allocation bounds.  Core Lean only.
-/
import TdModel.Model.C16C17
import TdModel.Lemmas.Bin

namespace TdModel.Codec
open TdModel TdModel.Bin

/-- The read did not hit one of Go's run-time checks. -/
def NoPanic (r : Res) : Prop := r.out.isPanic = false

/-- Every buffer length requested during the read is at most `B`. -/
def AllocLe (B : Nat) (r : Res) : Prop := ∀ a ∈ r.allocs, a ≤ B

/-- Both at once (the proofs walk the reader only once). -/
def Safe (B : Nat) (r : Res) : Prop := NoPanic r ∧ AllocLe B r

theorem safe_ok (B : Nat) (f r : Bytes) : Safe B (Res.ok f r) := by
  constructor
  · rfl
  · intro a h; simp [Res.ok] at h

theorem safe_err (B : Nat) (e : RErr) : Safe B (Res.err e) := by
  constructor
  · rfl
  · intro a h; simp [Res.err] at h

theorem safe_alloc {B n : Nat} {k : Res} (hn : n ≤ B) (hk : Safe B k) : Safe B (Res.alloc n k) := by
  constructor
  · exact hk.1
  · intro a h
    simp only [Res.alloc, List.mem_cons] at h
    rcases h with h | h
    · omega
    · exact hk.2 a h

theorem safe_make {B : Nat} {n : Int} {k : Nat → Res} (hn : 0 ≤ n) (hk : Safe B (k n.toNat)) :
    Safe B (Res.make n k) := by
  unfold Res.make; simp only [hn, if_true]; exact hk

theorem safe_slice {B : Nat} {b : Bytes} {i j : Int} {k : Bytes → Res}
    (h : 0 ≤ i ∧ i ≤ j ∧ j ≤ b.length)
    (hk : ∀ x : Bytes, x.length = (j - i).toNat → Safe B (k x)) : Safe B (Res.slice b i j k) := by
  unfold Res.slice; simp only [h, and_self, if_true]
  apply hk
  simp only [List.length_take, List.length_drop]
  omega

theorem safe_index {B blen : Nat} {i : Int} {k : Res} (h : 0 ≤ i ∧ i < blen) (hk : Safe B k) :
    Safe B (Res.index blen i k) := by
  unfold Res.index; simp only [h, and_self, if_true]; exact hk

theorem safe_sliceLen {B blen : Nat} {i j : Int} {k : Nat → Res}
    (h : 0 ≤ i ∧ i ≤ j ∧ j ≤ blen)
    (hk : ∀ l : Nat, l = (j - i).toNat → Safe B (k l)) : Safe B (Res.sliceLen blen i j k) := by
  unfold Res.sliceLen; simp only [h, and_self, if_true]
  apply hk
  omega

theorem safe_readN {B n : Nat} {s : Bytes} {k : Bytes → Bytes → Res}
    (hk : ∀ x rest : Bytes, x.length = n → Safe B (k x rest)) : Safe B (Res.readN n s k) := by
  unfold Res.readN
  split
  · exact safe_err _ _
  · apply hk; simp only [List.length_take]; omega

theorem safe_readLen {B envelope : Nat} {s : Bytes} {k : Nat → Bytes → Res} (hB : 4 ≤ B)
    (hk : ∀ n rest, 0 < n → n ≤ 16777216 + envelope → Safe B (k n rest)) :
    Safe B (readLen Cfg.spec envelope s k) := by
  unfold readLen
  apply safe_alloc hB
  apply safe_readN
  intro x rest _
  simp only
  split
  · exact safe_err _ _
  · rename_i h
    have h' : ¬ (fromLE x = 0 ∨ fromLE x > 16777216 + envelope) := by simpa [Cfg.spec] using h
    apply hk <;> omega

theorem safe_checkProto {B : Nat} {cfg : Cfg} {r : Res} (h : Safe B r) : Safe B (checkProto cfg r) := by
  unfold checkProto
  split
  · split
    · exact ⟨rfl, h.2⟩
    · exact h
  · exact h

/-! ### `Cfg.spec` evaluated (all by `rfl`) -/

theorem spec_lenRejects (n e : Nat) : Cfg.spec.lenRejects n e = decide (n = 0 ∨ n > 16777216 + e) := rfl
theorem spec_outRejects (l : Nat) : Cfg.spec.outRejects l = decide (l > 16777216 ∨ l = 0) := rfl
theorem spec_misaligned (l : Nat) : Cfg.spec.misaligned l = decide (l % 4 ≠ 0) := rfl
theorem spec_isCode (l : Nat) : Cfg.spec.isCode l = decide (l = 4) := rfl
theorem spec_abrWords (l : Nat) : Cfg.spec.abrWords l = l / 4 := rfl
theorem spec_abrShort (w : Nat) : Cfg.spec.abrShort w = decide (w < 127) := rfl
theorem spec_abrMark : Cfg.spec.abrMark = 127 := rfl
theorem spec_abrLong (b : Nat) : Cfg.spec.abrLong b = decide (b ≥ 127) := rfl
theorem spec_abrRejects (n : Nat) : Cfg.spec.abrRejects n = decide (n * 4 > 16777216) := rfl
theorem spec_abrBytes (n : Nat) : Cfg.spec.abrBytes n = (n : Int) * 4 := rfl
theorem spec_fullRejects (n : Nat) : Cfg.spec.fullRejects n = decide (n < 12) := rfl
theorem spec_fullEnvelope : Cfg.spec.fullEnvelope = 12 := rfl
theorem spec_fullExpand (n : Nat) : Cfg.spec.fullExpand n = (n : Int) - 4 := rfl
theorem spec_fullInnerLo (n : Nat) : Cfg.spec.fullInnerLo n = 4 := rfl
theorem spec_fullInnerHi (n : Nat) : Cfg.spec.fullInnerHi n = n := rfl
theorem spec_fullPayload (n : Nat) : Cfg.spec.fullPayload n = (n : Int) - 12 := rfl
theorem spec_fullCrcLo (n : Nat) : Cfg.spec.fullCrcLo n = 0 := rfl
theorem spec_fullCrcHi (n : Nat) : Cfg.spec.fullCrcHi n = (n : Int) - 4 := rfl
theorem spec_fullCopyLo (n : Nat) : Cfg.spec.fullCopyLo n = 8 := rfl
theorem spec_fullCopyHi (n : Nat) : Cfg.spec.fullCopyHi n = (n : Int) - 4 := rfl
theorem spec_fullWire (l : Nat) : Cfg.spec.fullWire l = l + 12 := rfl
theorem spec_fullSeqAfterCheck : Cfg.spec.fullSeqAfterCheck = true := rfl
theorem spec_padEnvelope : Cfg.spec.padEnvelope = 3 := rfl
theorem spec_padOf (b : Nat) : Cfg.spec.padOf b = b % 4 := rfl
theorem spec_padStrip (n : Nat) : Cfg.spec.padStrip n = n % 4 := rfl

end TdModel.Codec
