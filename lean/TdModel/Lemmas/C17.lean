/-
C17 — every reader of the repaired tree (`Cfg.spec`) is safe: no run-time check fails and no buffer
length beyond the frame limit plus envelope is requested.  Core Lean only.
-/
import TdModel.Lemmas.C16C17

namespace TdModel.Codec
open TdModel TdModel.Bin

theorem readIntermediate_safe (padding : Bool) (s : Bytes) :
    Safe (16777216 + 3) (readIntermediate Cfg.spec padding s) := by
  unfold readIntermediate
  apply safe_readLen (by omega)
  intro n s1 hn0 hn
  have hn' : n ≤ 16777216 + 3 := by
    cases padding <;> simp [Cfg.spec] at hn <;> omega
  apply safe_make (by omega)
  apply safe_alloc (by omega)
  apply safe_readN
  intro payload s2 hp
  split
  · apply safe_slice
    · simp only [Cfg.spec]; omega
    · intro _ _; exact safe_ok _ _ _
  · exact safe_ok _ _ _

theorem readIntermediate_plain_safe (s : Bytes) :
    Safe 16777216 (readIntermediate Cfg.spec false s) := by
  unfold readIntermediate
  apply safe_readLen (by omega)
  intro n s1 hn0 hn
  have hn' : n ≤ 16777216 := by simp at hn; omega
  apply safe_make (by omega)
  apply safe_alloc (by omega)
  apply safe_readN
  intro payload s2 hp
  exact safe_ok _ _ _

theorem readPadded_safe (s : Bytes) : Safe (16777216 + 3) (readPadded Cfg.spec s) := by
  unfold readPadded
  have h := readIntermediate_safe true s
  split
  · rename_i a p rest heq
    rw [heq] at h
    apply safe_slice
    · simp only [Cfg.spec]; omega
    · intro _ _; exact ⟨rfl, h.2⟩
  · exact h

theorem readAbridged_safe (s : Bytes) : Safe 16777216 (readAbridged Cfg.spec s) := by
  unfold readAbridged
  apply safe_alloc (by omega)
  apply safe_readN
  intro b0 s1 _
  have hcont : ∀ (n : Nat) (s2 : Bytes),
      Safe 16777216 (if Cfg.spec.abrRejects n = true then Res.err (.badLen (Cfg.spec.abrBytes n).toNat)
        else Res.make (Cfg.spec.abrBytes n) fun m => Res.alloc m <| Res.readN m s2 fun payload s3 => Res.ok payload s3) := by
    intro n s2
    split
    · exact safe_err _ _
    · rename_i h
      have hn : n * 4 ≤ 16777216 := by simp [Cfg.spec] at h; omega
      have hb : Cfg.spec.abrBytes n = ((n * 4 : Nat) : Int) := by simp [Cfg.spec]
      rw [hb]
      apply safe_make (by omega)
      apply safe_alloc (by simp only [Int.toNat_natCast]; omega)
      apply safe_readN
      intro _ _ _; exact safe_ok _ _ _
  apply safe_index (by omega)
  simp only
  split
  · apply safe_readN
    intro l3 s2 _
    exact hcont _ _
  · exact hcont _ _

theorem buf0_length (n e : Nat) : (leN 4 n ++ leN 4 n ++ zeros e).length = 8 + e := by
  simp only [List.length_append, leN_length, zeros_length]

theorem readFull_safe (crc : Bytes → Nat) (seq : Int) (s : Bytes) :
    Safe (16777216 + 16) (readFull Cfg.spec crc seq s) := by
  unfold readFull
  apply safe_readLen (by omega)
  intro n s1 hn0 hn
  have hn' : n ≤ 16777216 + 12 := by simpa [Cfg.spec] using hn
  split
  · exact safe_err _ _
  · rename_i hg
    have h12 : 12 ≤ n := by simp [Cfg.spec] at hg; omega
    simp only [Cfg.spec] at *
    apply safe_alloc (by omega)
    apply safe_make (by omega)
    apply safe_alloc (by omega)
    apply safe_sliceLen
    · omega
    · intro viewLen hv
      apply safe_readN
      intro inner s2 hinner
      split
      · exact safe_err _ _
      · split
        · exact safe_err _ _
        · apply safe_slice
          · simp only [List.length_drop]; omega
          · intro tail htail
            split
            · exact safe_err _ _
            · apply safe_slice
              · simp only [List.length_append, List.length_take, List.length_drop, buf0_length]; omega
              · intro crcIn _
                split
                · exact safe_err _ _
                · apply safe_slice
                  · simp only [List.length_append, List.length_take, List.length_drop, buf0_length]; omega
                  · intro payload hpl
                    apply safe_slice
                    · omega
                    · intro _ _; exact safe_ok _ _ _

/-- Every protocol's `Read` on the repaired tree. -/
theorem read_safe (crc : Bytes → Nat) (k : Kind) (seq : Int) (s : Bytes) :
    Safe (16777216 + 16) (read Cfg.spec crc k seq s) := by
  unfold read
  apply safe_checkProto
  have mono : ∀ {B r}, B ≤ 16777216 + 16 → Safe B r → Safe (16777216 + 16) r := by
    intro B r hB h
    exact ⟨h.1, fun a ha => Nat.le_trans (h.2 a ha) hB⟩
  cases k with
  | abridged => exact mono (by omega) (readAbridged_safe s)
  | intermediate => exact mono (by omega) (readIntermediate_plain_safe s)
  | padded => exact mono (by omega) (readPadded_safe s)
  | full => exact readFull_safe crc seq s

theorem read_readerPart (c : Cfg) (crc : Bytes → Nat) (k : Kind) (seq : Int) (s : Bytes) :
    read c crc k seq s = read c.readerPart crc k seq s := by
  cases k <;> rfl

theorem readAbridged_readerPart (c : Cfg) (s : Bytes) : readAbridged c s = readAbridged c.readerPart s := rfl
theorem readIntermediate_readerPart (c : Cfg) (b : Bool) (s : Bytes) :
    readIntermediate c b s = readIntermediate c.readerPart b s := rfl
theorem readPadded_readerPart (c : Cfg) (s : Bytes) : readPadded c s = readPadded c.readerPart s := rfl

end TdModel.Codec
