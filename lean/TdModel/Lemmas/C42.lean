/-
C42 — invariant of the racing-dial transition system, for any number of dialers.
-/
import TdModel.Model.C42

namespace TdModel.C42

/-- The source facts the proofs need (all four regenerated facts hold). -/
def Good (c : Cfg) : Prop :=
  c.unbuffered = true ∧ c.abandonCloses = true ∧ c.cancelOnReturn = true ∧ c.hsCloses = true

/-- Reachability from `init n` by an arbitrary action list. -/
def Reachable (c : Cfg) (n : Nat) (s : State) : Prop := ∃ as, run c (init n) as = some s

/-- Nothing but a caller cancel is enabled. -/
def Terminal (c : Cfg) (s : State) : Prop := ∀ a, a ≠ Action.callerCancel → step c s a = none

def isDelivered (d : Dialer) : Bool := d.phase == .delivered

theorem countP_set_of {α : Type} (p : α → Bool) (l : List α) (i : Nat) (d d' : α) (h : l[i]? = some d) :
    List.countP p (l.set i d') + (if p d then 1 else 0) = List.countP p l + (if p d' then 1 else 0) := by
  induction l generalizing i with
  | nil => simp at h
  | cons x xs ih =>
    cases i with
    | zero =>
      simp at h; subst h
      simp [List.countP_cons]; omega
    | succ j =>
      simp at h
      have := ih j h
      simp [List.countP_cons]; omega

theorem exists_not_of_countP_lt {α : Type} (p : α → Bool) (l : List α) (h : List.countP p l < l.length) :
    ∃ (i : Nat) (d : α), l[i]? = some d ∧ p d = false := by
  induction l with
  | nil => simp at h
  | cons x xs ih =>
    cases hp : p x with
    | false => exact ⟨0, x, by simp, hp⟩
    | true =>
      simp [hp] at h
      obtain ⟨i, d, h1, h2⟩ := ih h
      exact ⟨i + 1, d, by simpa using h1, h2⟩

/-- Per-dialer consistency of phase, result and connection state. -/
def LocOK (d : Dialer) : Prop :=
  (d.phase = .dialing → d.conn = .none ∧ d.ok = false) ∧
  (d.ok = true → d.phase = .abandoned → d.conn = .closed) ∧
  (d.ok = true → d.phase = .blocked ∨ d.phase = .delivered → d.conn = .opened) ∧
  (d.ok = false → d.conn ≠ .opened)

def NotWaiting (c : Coll) : Prop := ∀ r e, c ≠ .waiting r e

structure Inv (n : Nat) (s : State) : Prop where
  len : s.ds.length = n
  loc : ∀ (i : Nat) (d : Dialer), s.ds[i]? = some d → LocOK d
  win : ∀ (i : Nat) (d : Dialer), s.ds[i]? = some d → d.phase = .delivered → d.ok = true → s.coll = .returned i
  ret : ∀ (i : Nat), s.coll = .returned i → ∃ d : Dialer, s.ds[i]? = some d ∧ d.phase = .delivered ∧ d.ok = true
  cntW : ∀ r e, s.coll = .waiting r e →
    r + List.countP isDelivered s.ds = n ∧ e = List.countP isDelivered s.ds ∧ 1 ≤ r
  cntF : ∀ e, s.coll = .failed e → e = n ∧ List.countP isDelivered s.ds = n
  done : NotWaiting s.coll → s.dialDone = true
  cd : s.callerDone = true → s.dialDone = true
  dd : s.dialDone = true → s.callerDone = true ∨ NotWaiting s.coll
  ab : ∀ (i : Nat) (d : Dialer), s.ds[i]? = some d → d.phase = .abandoned → s.dialDone = true
  cc : s.coll = .cancelled → s.callerDone = true

theorem inv_init (n : Nat) (hn : 1 ≤ n) : Inv n (init n) := by
  refine ⟨by simp [init], ?_, ?_, ?_, ?_, ?_, ?_, ?_, ?_, ?_, ?_⟩
  · intro i d h
    simp [init, List.getElem?_replicate] at h
    obtain ⟨_, rfl⟩ := h
    simp [LocOK, fresh]
  · intro i d h hp
    simp [init, List.getElem?_replicate] at h
    obtain ⟨_, rfl⟩ := h
    simp [fresh] at hp
  · intro i h; simp [init] at h
  · intro r e h
    simp [init] at h
    obtain ⟨rfl, rfl⟩ := h
    simp [init, List.countP_replicate, isDelivered, fresh]; omega
  · intro e h; simp [init] at h
  · intro h; exact absurd rfl (h n 0)
  · intro h; simp [init] at h
  · intro h; simp [init] at h
  · intro i d h hp
    simp [init, List.getElem?_replicate] at h
    obtain ⟨_, rfl⟩ := h
    simp [fresh] at hp
  · intro h; simp [init] at h

/-- Replacing dialer `i` (currently `d`) by `d'` where neither is delivered keeps every clause that
only looks at delivered dialers. -/
theorem inv_set_nondelivered {n : Nat} {s : State} (hI : Inv n s) (i : Nat) (d d' : Dialer)
    (hd : s.ds[i]? = some d) (h1 : d.phase ≠ .delivered) (h2 : d'.phase ≠ .delivered)
    (hloc : LocOK d') (hab : d'.phase = .abandoned → s.dialDone = true) :
    Inv n { s with ds := s.ds.set i d' } := by
  have hcnt : List.countP isDelivered (s.ds.set i d') = List.countP isDelivered s.ds := by
    have := countP_set_of isDelivered s.ds i d d' hd
    have e1 : isDelivered d = false := by simp [isDelivered, h1]
    have e2 : isDelivered d' = false := by simp [isDelivered, h2]
    simp [e1, e2] at this; exact this
  have hlt : i < s.ds.length := by
    rcases Nat.lt_or_ge i s.ds.length with h | h
    · exact h
    · rw [List.getElem?_eq_none h] at hd; cases hd
  refine ⟨by simp [hI.len], ?_, ?_, ?_, ?_, ?_, hI.done, hI.cd, hI.dd, ?_, hI.cc⟩
  · intro j e h
    simp only [List.getElem?_set] at h
    split at h
    · simp at h; subst h; exact hloc
    · exact hI.loc j e h
  · intro j e h hp hok
    simp only [List.getElem?_set] at h
    split at h
    · simp at h; subst h; exact absurd hp h2
    · exact hI.win j e h hp hok
  · intro j h
    obtain ⟨e, he, hp, hok⟩ := hI.ret j h
    refine ⟨e, ?_, hp, hok⟩
    simp only [List.getElem?_set]
    split
    · rename_i hij; subst hij
      rw [hd] at he; cases he; exact absurd hp h1
    · exact he
  · intro r e h; simp only [hcnt]; exact hI.cntW r e h
  · intro e h; simp only [hcnt]; exact hI.cntF e h
  · intro j e h hp
    simp only [List.getElem?_set] at h
    split at h
    · simp at h; subst h; exact hab hp
    · exact hI.ab j e h hp

theorem inv_finishDial {n : Nat} {s s' : State} (hI : Inv n s) (i : Nat) (ok : Bool) (conn : ConnSt)
    (hc : (ok = true → conn = .opened) ∧ (ok = false → conn ≠ .opened))
    (h : finishDial s i ok conn = some s') : Inv n s' := by
  unfold finishDial at h
  split at h
  · rename_i d hd
    split at h
    · rename_i hp
      cases h
      apply inv_set_nondelivered hI i d _ hd
      · simp [hp]
      · simp
      · refine ⟨by simp, by simp, ?_, ?_⟩
        · intro h1 _; exact hc.1 h1
        · intro h1; exact hc.2 h1
      · simp
    · cases h
  · cases h

theorem inv_step {c : Cfg} (hc : Good c) {n : Nat} {s s' : State} (a : Action) (hI : Inv n s)
    (h : step c s a = some s') : Inv n s' := by
  obtain ⟨hub, hac, hcr, hhs⟩ := hc
  cases a with
  | dialOk i => exact inv_finishDial hI i true .opened (by simp) h
  | dialFail i => exact inv_finishDial hI i false .none (by simp) h
  | dialHsFail i =>
    simp only [step, hhs] at h
    exact inv_finishDial hI i false .closed (by simp) h
  | callerCancel =>
    simp only [step] at h; cases h
    exact ⟨hI.len, hI.loc, hI.win, hI.ret, hI.cntW, hI.cntF, fun _ => rfl, fun _ => rfl,
      fun _ => Or.inl rfl, fun _ _ _ _ => rfl, fun _ => rfl⟩
  | collCancel =>
    simp only [step] at h
    split at h
    · rename_i r e hw
      split at h
      · rename_i hcd
        cases h
        refine ⟨hI.len, hI.loc, ?_, ?_, ?_, ?_, fun _ => hI.cd hcd, hI.cd, fun _ => Or.inl hcd, hI.ab, fun _ => hcd⟩
        · intro j e' hj hp hok
          have := hI.win j e' hj hp hok
          rw [hw] at this; cases this
        · intro j hj; cases hj
        · intro r' e' h'; cases h'
        · intro e' h'; cases h'
      · cases h
    · cases h
  | abandon i =>
    simp only [step] at h
    split at h
    · rename_i d hd
      split at h
      · rename_i hg
        cases h
        have hl := hI.loc i d hd
        apply inv_set_nondelivered hI i d _ hd
        · simp [hg.1]
        · simp
        · refine ⟨by simp, ?_, by simp, ?_⟩
          · intro hok _
            have := hl.2.2.1 hok (Or.inl hg.1)
            simp [this, hac]
          · intro hok
            have := hl.2.2.2 hok
            simp [this]
        · intro _; exact hg.2
      · cases h
    · cases h
  | deliver i =>
    simp only [step] at h
    split at h
    · rename_i d hd
      split at h
      · rename_i hp
        have hlt : i < s.ds.length := by
          rcases Nat.lt_or_ge i s.ds.length with h' | h'
          · exact h'
          · rw [List.getElem?_eq_none h'] at hd; cases hd
        have hl := hI.loc i d hd
        split at h
        · rename_i r e hw
          obtain ⟨hsum, he, hr⟩ := hI.cntW r e hw
          -- no dialer is a delivered success while the collector waits
          have nowin : ∀ (j : Nat) (e' : Dialer), s.ds[j]? = some e' → e'.phase = .delivered → e'.ok = false := by
            intro j e' hj hpj
            cases hok : e'.ok with
            | false => rfl
            | true =>
              have := hI.win j e' hj hpj hok
              rw [hw] at this; cases this
          have hcnt : List.countP isDelivered (s.ds.set i { d with phase := .delivered })
              = List.countP isDelivered s.ds + 1 := by
            have := countP_set_of isDelivered s.ds i d { d with phase := .delivered } hd
            have e1 : isDelivered d = false := by simp [isDelivered, hp]
            have e2 : isDelivered { d with phase := .delivered } = true := by simp [isDelivered]
            simp [e1, e2] at this; exact this
          have hloc' : ∀ (j : Nat) (e' : Dialer), (s.ds.set i { d with phase := .delivered })[j]? = some e' → LocOK e' := by
            intro j e' hj
            simp only [List.getElem?_set] at hj
            split at hj
            · simp at hj; subst hj
              refine ⟨by simp, by simp, ?_, hl.2.2.2⟩
              intro hok _; exact hl.2.2.1 hok (Or.inl hp)
            · exact hI.loc j e' hj
          have hab' : ∀ (j : Nat) (e' : Dialer), (s.ds.set i { d with phase := .delivered })[j]? = some e' →
              e'.phase = .abandoned → s.dialDone = true := by
            intro j e' hj hpj
            simp only [List.getElem?_set] at hj
            split at hj
            · simp at hj; subst hj; simp at hpj
            · exact hI.ab j e' hj hpj
          cases h
          unfold collect
          split
          · -- success: the collector returns dialer i
            rename_i hok
            refine ⟨by simp [hI.len], hloc', ?_, ?_, ?_, ?_, ?_, ?_, ?_, ?_, ?_⟩
            · intro j e' hj hpj hokj
              simp only [List.getElem?_set] at hj
              split at hj
              · rename_i hij; subst hij; rfl
              · have := nowin j e' hj hpj; rw [this] at hokj; cases hokj
            · intro j hj
              simp at hj; subst hj
              exact ⟨{ d with phase := .delivered }, by simp [hlt], rfl, hok⟩
            · intro r' e' h'; simp at h'
            · intro e' h'; simp at h'
            · intro _; simp [hcr]
            · intro h'; simp [hI.cd h']
            · intro _; exact Or.inr (fun r' e' h' => by simp at h')
            · intro j e' hj hpj; simp [hcr]
            · intro h'; simp at h'
          · rename_i hok
            have hok' : d.ok = false := by simpa using hok
            have win' : ∀ (j : Nat) (e' : Dialer), (s.ds.set i { d with phase := .delivered })[j]? = some e' →
                e'.phase = .delivered → e'.ok = true → False := by
              intro j e' hj hpj hokj
              simp only [List.getElem?_set] at hj
              split at hj
              · simp at hj; subst hj; simp [hok'] at hokj
              · have := nowin j e' hj hpj; rw [this] at hokj; cases hokj
            split
            · -- last failure: combined error
              rename_i hz
              refine ⟨by simp [hI.len], hloc', ?_, ?_, ?_, ?_, ?_, ?_, ?_, ?_, ?_⟩
              · intro j e' hj hpj hokj; exact (win' j e' hj hpj hokj).elim
              · intro j hj; simp at hj
              · intro r' e' h'; simp at h'
              · intro e' h'
                simp at h'
                simp only [hcnt]
                omega
              · intro _; simp [hcr]
              · intro h'; simp [hI.cd h']
              · intro _; exact Or.inr (fun r' e' h' => by simp at h')
              · intro j e' hj hpj; simp [hcr]
              · intro h'; simp at h'
            · rename_i hz
              refine ⟨by simp [hI.len], hloc', ?_, ?_, ?_, ?_, ?_, ?_, ?_, ?_, ?_⟩
              · intro j e' hj hpj hokj; exact (win' j e' hj hpj hokj).elim
              · intro j hj; simp at hj
              · intro r' e' h'
                simp at h'
                obtain ⟨rfl, rfl⟩ := h'
                simp only [hcnt]
                omega
              · intro e' h'; simp at h'
              · intro h'; exact absurd rfl (h' (r - 1) (e + 1))
              · intro h'; exact hI.cd h'
              · intro h'
                rcases hI.dd h' with h'' | h''
                · exact Or.inl h''
                · exact absurd hw (h'' r e)
              · intro j e' hj hpj; exact hab' j e' hj hpj
              · intro h'; simp at h'
        · -- collector not waiting: impossible on an unbuffered channel
          simp at h
      · cases h
    · cases h

theorem inv_run {c : Cfg} (hc : Good c) {n : Nat} (as : List Action) {s s' : State} (hI : Inv n s)
    (h : run c s as = some s') : Inv n s' := by
  induction as generalizing s with
  | nil => simp [run] at h; subst h; exact hI
  | cons a as ih =>
    simp only [run] at h
    split at h
    · rename_i s1 h1; exact ih (inv_step hc a hI h1) h
    · cases h

theorem inv_reachable {c : Cfg} (hc : Good c) {n : Nat} (hn : 1 ≤ n) {s : State}
    (h : Reachable c n s) : Inv n s := by
  obtain ⟨as, h⟩ := h
  exact inv_run hc as (inv_init n hn) h

end TdModel.C42
