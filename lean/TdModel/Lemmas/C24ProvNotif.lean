/- C24 — preservation of `Rpc.Prov` by the notifier-thread actions. -/
import TdModel.Lemmas.C24Prov
namespace TdModel.Rpc

macro "provn_close" : tactic =>
  `(tactic| (constructor <;>
      simp [setCall, setNotif] <;> grind [Prov, Inv, Ret.isResult]))

set_option maxHeartbeats 4000000 in
theorem prov_nstart {s s' : State} {nid t : Nat} {e : Bool} {v : Nat} (h : Prov s) (hi : Inv s)
    (hs : stepNstart s nid t e v = some s') : Prov s' := by
  unfold stepNstart at hs
  split at hs
  · simp at hs
  · try dsimp only at hs
    split at hs <;> simp at hs <;> subst hs <;> provn_close

set_option maxHeartbeats 4000000 in
theorem prov_nrun {cfg : Cfg} {s s' : State} {nid : Nat} (hg : cfg.std = true) (h : Prov s) (hi : Inv s)
    (hs : stepNrun cfg s nid = some s') : Prov s' := by
  unfold stepNrun at hs
  std_norm hg at hs
  simp only [casStep] at hs
  split at hs
  · simp at hs
  · split at hs
    all_goals (try (split at hs))
    all_goals (try (split at hs))
    all_goals (try (simp at hs))
    all_goals (try subst hs)
    all_goals provn_close
set_option maxHeartbeats 4000000 in
theorem prov_nwrite {s s' : State} {nid : Nat} {o : Outcome} (h : Prov s) (hi : Inv s)
    (hs : stepNwrite s nid o = some s') : Prov s' := by
  unfold stepNwrite at hs
  split at hs
  · simp at hs
  · split at hs
    · split at hs
      · simp at hs
      · simp at hs; subst hs; provn_close
    · simp at hs

end TdModel.Rpc
