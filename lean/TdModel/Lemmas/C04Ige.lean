/-
IGE lemmas: decryption inverts encryption (and conversely) for any pair of mutually inverse
length-preserving block functions; lengths.
-/
import TdModel.Model.C04Ige

namespace TdModel.Ige
open TdModel

theorem xorB_length (a b : Bytes) : (xorB a b).length = min a.length b.length := by
  simp [xorB]

theorem xorB_cancel (a b : Bytes) (h : a.length = b.length) : xorB (xorB a b) b = a := by
  induction a generalizing b with
  | nil => simp [xorB]
  | cons x xs ih =>
    cases b with
    | nil => simp at h
    | cons y ys =>
      simp only [xorB, List.zipWith_cons_cons, List.cons.injEq]
      constructor
      · rw [UInt8.xor_assoc]; simp
      · exact ih ys (by simpa using h)

/-- Block functions `f`, `g` on 16-byte blocks with `g ∘ f = id`. -/
structure Inv (f g : Bytes → Bytes) : Prop where
  f_len : ∀ b, b.length = 16 → (f b).length = 16
  g_len : ∀ b, b.length = 16 → (g b).length = 16
  gf : ∀ b, b.length = 16 → g (f b) = b

theorem Inv.ofPrims (P : Prims) (hP : LawfulPrims P) (k : Bytes) : Inv (P.aesEnc k) (P.aesDec k) where
  f_len := hP.aesEnc_len k
  g_len := hP.aesDec_len k
  gf := hP.aes_dec_enc k

theorem Inv.ofPrims' (P : Prims) (hP : LawfulPrims P) (k : Bytes) : Inv (P.aesDec k) (P.aesEnc k) where
  f_len := hP.aesDec_len k
  g_len := hP.aesEnc_len k
  gf := hP.aes_enc_dec k

theorem encN_length (f : Bytes → Bytes) (hf : ∀ b, b.length = 16 → (f b).length = 16)
    (n : Nat) (c m src : Bytes) (hc : c.length = 16) (hm : m.length = 16) (hs : src.length = 16 * n) :
    (encN f n c m src).length = 16 * n := by
  induction n generalizing c m src with
  | zero => simp [encN]
  | succ n ih =>
    have hx : (src.take 16).length = 16 := by simp; omega
    have hxc : (xorB (src.take 16) c).length = 16 := by rw [xorB_length]; omega
    have hy : (xorB (f (xorB (src.take 16) c)) m).length = 16 := by
      rw [xorB_length, hf _ hxc]; omega
    simp only [encN, List.length_append, hy]
    rw [ih _ _ _ hy hx (by simp; omega)]
    omega

theorem decN_length (g : Bytes → Bytes) (hg : ∀ b, b.length = 16 → (g b).length = 16)
    (n : Nat) (c m src : Bytes) (hc : c.length = 16) (hm : m.length = 16) (hs : src.length = 16 * n) :
    (decN g n c m src).length = 16 * n := by
  induction n generalizing c m src with
  | zero => simp [decN]
  | succ n ih =>
    have ht : (src.take 16).length = 16 := by simp; omega
    have htm : (xorB (src.take 16) m).length = 16 := by rw [xorB_length]; omega
    have hy : (xorB (g (xorB (src.take 16) m)) c).length = 16 := by
      rw [xorB_length, hg _ htm]; omega
    simp only [decN, List.length_append, hy]
    rw [ih _ _ _ ht hy (by simp; omega)]
    omega

theorem decN_encN (f g : Bytes → Bytes) (h : Inv f g) (n : Nat) (c m src : Bytes)
    (hc : c.length = 16) (hm : m.length = 16) (hs : src.length = 16 * n) :
    decN g n c m (encN f n c m src) = src := by
  induction n generalizing c m src with
  | zero => simp [decN]; exact List.eq_nil_of_length_eq_zero (by omega)
  | succ n ih =>
    have hx : (src.take 16).length = 16 := by simp; omega
    have hxc : (xorB (src.take 16) c).length = 16 := by rw [xorB_length]; omega
    have hf := h.f_len _ hxc
    have hy : (xorB (f (xorB (src.take 16) c)) m).length = 16 := by
      rw [xorB_length, hf]; omega
    simp only [encN, decN]
    rw [List.take_left' hy, List.drop_left' hy]
    rw [xorB_cancel _ _ (by omega), h.gf _ hxc, xorB_cancel _ _ (by omega)]
    rw [ih _ _ _ hy hx (by simp; omega)]
    exact List.take_append_drop 16 src

/-- `DecryptBlocks ∘ EncryptBlocks = id` on block-aligned input with a 32-byte IV. -/
theorem dec_enc (f g : Bytes → Bytes) (h : Inv f g) (iv src : Bytes) (hiv : iv.length = 32)
    (hs : src.length % 16 = 0) : dec g iv (enc f iv src) = src := by
  unfold dec enc
  have hc : (iv.take 16).length = 16 := by simp; omega
  have hm : (iv.drop 16).length = 16 := by simp; omega
  have hl : src.length = 16 * (src.length / 16) := by omega
  rw [encN_length f h.f_len _ _ _ _ hc hm hl]
  have : 16 * (src.length / 16) / 16 = src.length / 16 := by omega
  rw [this]
  exact decN_encN f g h _ _ _ _ hc hm hl

theorem enc_length (f : Bytes → Bytes) (hf : ∀ b, b.length = 16 → (f b).length = 16) (iv src : Bytes)
    (hiv : iv.length = 32) (hs : src.length % 16 = 0) : (enc f iv src).length = src.length := by
  unfold enc
  rw [encN_length f hf _ _ _ _ (by simp; omega) (by simp; omega) (by omega)]
  omega

theorem dec_length (g : Bytes → Bytes) (hg : ∀ b, b.length = 16 → (g b).length = 16) (iv src : Bytes)
    (hiv : iv.length = 32) (hs : src.length % 16 = 0) : (dec g iv src).length = src.length := by
  unfold dec
  rw [decN_length g hg _ _ _ _ (by simp; omega) (by simp; omega) (by omega)]
  omega

theorem encN_decN (f g : Bytes → Bytes) (h : Inv g f) (n : Nat) (c m src : Bytes)
    (hc : c.length = 16) (hm : m.length = 16) (hs : src.length = 16 * n) :
    encN f n c m (decN g n c m src) = src := by
  induction n generalizing c m src with
  | zero => simp [encN]; exact List.eq_nil_of_length_eq_zero (by omega)
  | succ n ih =>
    have ht : (src.take 16).length = 16 := by simp; omega
    have htm : (xorB (src.take 16) m).length = 16 := by rw [xorB_length]; omega
    have hg := h.f_len _ htm
    have hy : (xorB (g (xorB (src.take 16) m)) c).length = 16 := by
      rw [xorB_length, hg]; omega
    simp only [encN, decN]
    rw [List.take_left' hy, List.drop_left' hy]
    rw [xorB_cancel _ _ (by omega), h.gf _ htm, xorB_cancel _ _ (by omega)]
    rw [ih _ _ _ ht hy (by simp; omega)]
    exact List.take_append_drop 16 src

/-- `EncryptBlocks ∘ DecryptBlocks = id`: IGE decryption is injective on block-aligned input. -/
theorem enc_dec (f g : Bytes → Bytes) (h : Inv g f) (iv src : Bytes) (hiv : iv.length = 32)
    (hs : src.length % 16 = 0) : enc f iv (dec g iv src) = src := by
  unfold dec enc
  have hc : (iv.take 16).length = 16 := by simp; omega
  have hm : (iv.drop 16).length = 16 := by simp; omega
  have hl : src.length = 16 * (src.length / 16) := by omega
  rw [decN_length g h.f_len _ _ _ _ hc hm hl]
  have : 16 * (src.length / 16) / 16 = src.length / 16 := by omega
  rw [this]
  exact encN_decN f g h _ _ _ _ hc hm hl

theorem dec_injective (f g : Bytes → Bytes) (h : Inv g f) (iv a b : Bytes) (hiv : iv.length = 32)
    (ha : a.length % 16 = 0) (hb : b.length % 16 = 0) (he : dec g iv a = dec g iv b) : a = b := by
  rw [← enc_dec f g h iv a hiv ha, ← enc_dec f g h iv b hiv hb, he]

end TdModel.Ige
