/-
C30 — lemmas about the connection layer (core Lean only).
-/
import TdModel.Model.C30Mgr
import TdModel.Lemmas.C30Interp

namespace TdModel.C30
open TdModel

theorem runI_append (s : St) (a b : List Notif) : runI s (a ++ b) = runI (runI s a) b := by
  simp [runI, List.foldl_append]

theorem mrun_eq (acts : List MAct) : ∀ (s : St) (cs : List MConn),
    (mrun (s, cs) acts).1 = runI s (deliveries cs acts) := by
  induction acts with
  | nil => intro s cs; rfl
  | cons a rest ih =>
    intro s cs
    simp only [mrun, deliveries, runI_append]
    exact ih _ _

/-- Whatever an action hands to the client handler carries the config of the connection that
buffered it, and the handler kind of that connection's mode. -/
theorem mstep_delivery (cs : List MConn) (a : MAct) (n : Notif) (hn : n ∈ (mstep cs a).2) :
    ∃ id c, cs[id]? = some c ∧ n.kind = (if c.cdn then .cdn else .regular) ∧
      ((∃ e, a = .ev id e ∧ c.cfg = some n.cfgDC) ∨
       (∃ sd, a = .init id sd ∧ n.cfgDC = (if c.cdn then c.dc else sd))) ∧
      ∃ e, (e ∈ c.pending ∨ a = .ev id e) ∧ n.key = e.key ∧ n.permKey = e.perm ∧ n.salt = e.salt := by
  cases a with
  | new cdn dc => simp [mstep] at hn
  | ev id e =>
    simp only [mstep] at hn
    cases hc : cs[id]? with
    | none => simp [hc] at hn
    | some c =>
      simp only [hc] at hn
      cases hcfg : c.cfg with
      | none => simp [hcfg] at hn
      | some d =>
        simp only [hcfg, List.mem_map, List.mem_append, List.mem_singleton] at hn
        obtain ⟨e', he', rfl⟩ := hn
        refine ⟨id, c, hc, by simp [notifOf], Or.inl ⟨e, rfl, by simp [notifOf, hcfg]⟩, e', ?_, rfl, rfl, rfl⟩
        rcases he' with h | h
        · exact Or.inl h
        · exact Or.inr (by rw [h])
  | init id sd =>
    simp only [mstep] at hn
    cases hc : cs[id]? with
    | none => simp [hc] at hn
    | some c =>
      simp only [hc, List.mem_map] at hn
      obtain ⟨e', he', rfl⟩ := hn
      exact ⟨id, c, hc, by simp [notifOf], Or.inr ⟨sd, rfl, by simp [notifOf]⟩, e', Or.inl he', rfl, rfl, rfl⟩

/-- Before its config is known a connection delivers nothing. -/
theorem mstep_buffers (cs : List MConn) (id : Nat) (c : MConn) (e : SessEv) (hc : cs[id]? = some c)
    (hcfg : c.cfg = none) :
    (mstep cs (.ev id e)).2 = [] ∧ (mstep cs (.ev id e)).1[id]? = some { c with pending := c.pending ++ [e] } := by
  have hlt : id < cs.length := by
    rcases Nat.lt_or_ge id cs.length with h | h
    · exact h
    · rw [List.getElem?_eq_none h] at hc; cases hc
  simp only [mstep, hc, hcfg]
  exact ⟨trivial, by simp [hlt]⟩

/-- `init` delivers exactly the buffered sessions, in arrival order, with the connection's config. -/
theorem mstep_init (cs : List MConn) (id : Nat) (c : MConn) (sd : Int) (hc : cs[id]? = some c) :
    (mstep cs (.init id sd)).2 = c.pending.map (notifOf c (if c.cdn then c.dc else sd)) := by
  simp [mstep, hc]

end TdModel.C30
