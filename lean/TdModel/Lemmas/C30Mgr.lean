/-
C30 — lemmas about the connection layer (core Lean only).  The proofs unfold the regenerated
step lists of `Conn.init` (`Facts.C30.connInitRegular`, `connInitCDN`): if the readiness signal
moves in front of the assignment of `c.cfg`, `micro_ok` stops compiling.
-/
import TdModel.Model.C30Mgr
import TdModel.Lemmas.C30Interp

namespace TdModel.C30
open TdModel

theorem runI_append (s : St) (a b : List Notif) : runI s (a ++ b) = runI (runI s a) b := by
  simp [runI, List.foldl_append]

theorem mrun_eq (acts : List MAct) : ∀ (s : St) (cs : List MConn),
    (mrun (s, cs) acts).1 = runI s (deliveries cs acts) := by
  induction acts with
  | nil => intro s cs; rfl
  | cons a rest ih =>
    intro s cs
    simp only [mrun, deliveries, runI_append]
    exact ih _ _

/-- Readiness is never signalled before `c.cfg` holds the connection's own config. -/
def ConnOK (c : MConn) : Prop :=
  if c.cdn then (c.ipc ≤ 1 → c.ready = false) ∧ (1 ≤ c.ipc → c.cfg = c.dc)
  else (c.ipc ≤ 3 → c.ready = false) ∧ (3 ≤ c.ipc → c.cfg = c.serverDC)

theorem ConnOK.ready_cfg {c : MConn} (h : ConnOK c) (hr : c.ready = true) : c.cfg = c.ownDC := by
  unfold ConnOK at h
  unfold MConn.ownDC
  cases hc : c.cdn with
  | true =>
    simp only [hc, if_true] at h ⊢
    by_cases h1 : c.ipc ≤ 1
    · rw [h.1 h1] at hr; cases hr
    · exact h.2 (by omega)
  | false =>
    simp only [hc, Bool.false_eq_true, if_false] at h ⊢
    by_cases h1 : c.ipc ≤ 3
    · rw [h.1 h1] at hr; cases hr
    · exact h.2 (by omega)

/-- A delivered notification pairs a session with connection `c`'s own config and handler. -/
def Good (c : MConn) (n : Notif) : Prop :=
  n.cfgDC = c.ownDC ∧ n.kind = (if c.cdn then .cdn else .regular) ∧ n.fault = .none ∧
    ∃ e : SessEv, n.key = e.key ∧ n.permKey = e.perm ∧ n.salt = e.salt

/-- Same connection (mode, dialled DC, server). -/
def SameConn (c c' : MConn) : Prop := c'.cdn = c.cdn ∧ c'.dc = c.dc ∧ c'.serverDC = c.serverDC

theorem Good.of_same {c c' : MConn} {n : Notif} (hs : SameConn c c') (h : Good c' n) : Good c n := by
  obtain ⟨h1, h2, h3⟩ := hs
  unfold Good MConn.ownDC at *
  rw [h1, h2, h3] at h
  exact h

theorem flush_good (c : MConn) (hc : c.cfg = c.ownDC) : ∀ n ∈ (flushConn c).2, Good c n := by
  intro n hn
  simp only [flushConn, List.mem_map] at hn
  obtain ⟨e, _, rfl⟩ := hn
  exact ⟨by simp [notifOf, hc], by simp [notifOf], rfl, e, rfl, rfl, rfl⟩

/-- One classified statement of `init`, at its position in the regenerated list. -/
theorem micro_ok (c : MConn) (tag : String) (h : ConnOK c) (ht : (initProg c.cdn)[c.ipc]? = some tag) :
    ConnOK { (microStep c tag).1 with ipc := c.ipc + 1 } ∧
      SameConn c { (microStep c tag).1 with ipc := c.ipc + 1 } ∧ ∀ n ∈ (microStep c tag).2, Good c n := by
  obtain ⟨cdn, dc, sdc, ipc, ready, cfg, pend⟩ := c
  cases cdn with
  | true =>
    simp only [initProg, Facts.C30.connInitCDN, if_true] at ht
    simp only [ConnOK, if_true] at h
    rcases ipc with _ | _ | _ | ipc
    · simp at ht; subst ht
      simp [microStep, ConnOK, SameConn, h.1]
    · simp at ht; subst ht
      have := h.2 (by omega)
      simp [microStep, ConnOK, SameConn, this]
    · simp at ht; subst ht
      have hcfg := h.2 (by omega)
      refine ⟨by simp [microStep, flushConn, ConnOK, hcfg], by simp [microStep, flushConn, SameConn], ?_⟩
      simp only [microStep, String.reduceEq, if_false, if_true]
      exact flush_good _ (by simp [MConn.ownDC, hcfg])
    · simp at ht
  | false =>
    simp only [initProg, Facts.C30.connInitRegular, Bool.false_eq_true, if_false] at ht
    simp only [ConnOK, Bool.false_eq_true, if_false] at h
    rcases ipc with _ | _ | _ | _ | _ | ipc
    · simp at ht; subst ht
      have := h.1 (by omega)
      simp [microStep, ConnOK, SameConn, this]
    · simp at ht; subst ht
      have := h.1 (by omega)
      simp [microStep, ConnOK, SameConn, this]
    · simp at ht; subst ht
      have := h.1 (by omega)
      simp [microStep, ConnOK, SameConn, this]
    · simp at ht; subst ht
      have := h.2 (by omega)
      simp [microStep, ConnOK, SameConn, this]
    · simp at ht; subst ht
      have hcfg := h.2 (by omega)
      refine ⟨by simp [microStep, flushConn, ConnOK, hcfg], by simp [microStep, flushConn, SameConn], ?_⟩
      simp only [microStep, String.reduceEq, if_false, if_true]
      exact flush_good _ (by simp [MConn.ownDC, hcfg])
    · simp at ht

theorem SameConn.refl (c : MConn) : SameConn c c := ⟨rfl, rfl, rfl⟩

theorem SameConn.trans {a b c : MConn} (h1 : SameConn a b) (h2 : SameConn b c) : SameConn a c :=
  ⟨h2.1.trans h1.1, h2.2.1.trans h1.2.1, h2.2.2.trans h1.2.2⟩

theorem runInit_ok (u : Bool) (fuel : Nat) : ∀ (c0 c : MConn) (out : List Notif), SameConn c0 c → ConnOK c →
    (∀ n ∈ out, Good c0 n) →
    ConnOK (runInit u fuel c out).1 ∧ SameConn c0 (runInit u fuel c out).1 ∧ ∀ n ∈ (runInit u fuel c out).2, Good c0 n := by
  induction fuel with
  | zero => intro c0 c out hs h ho; exact ⟨h, hs, ho⟩
  | succ f ih =>
    intro c0 c out hs h ho
    simp only [runInit]
    cases ht : (initProg c.cdn)[c.ipc]? with
    | none => exact ⟨h, hs, ho⟩
    | some tag =>
      obtain ⟨h1, h2, h3⟩ := micro_ok c tag h ht
      have hout : ∀ n ∈ out ++ (microStep c tag).2, Good c0 n := by
        intro n hn
        rw [List.mem_append] at hn
        rcases hn with hn | hn
        · exact ho n hn
        · exact Good.of_same hs (h3 n hn)
      simp only
      split
      · exact ⟨h1, hs.trans h2, hout⟩
      · exact ih c0 _ _ (hs.trans h2) h1 hout

theorem onConn_ok (c : MConn) (e : SessEv) (h : ConnOK c) :
    ConnOK (onConnSession c e).1 ∧ SameConn c (onConnSession c e).1 ∧ ∀ n ∈ (onConnSession c e).2, Good c n := by
  unfold onConnSession
  simp only
  split
  · rename_i hr
    have hcfg : c.cfg = c.ownDC := h.ready_cfg hr
    refine ⟨by simpa [flushConn, ConnOK] using h, by simp [flushConn, SameConn], ?_⟩
    intro n hn
    have := flush_good { c with pending := c.pending ++ [e] } (by simpa [MConn.ownDC] using hcfg) n hn
    exact Good.of_same (by simp [SameConn]) this
  · exact ⟨by simpa [ConnOK] using h, by simp [SameConn], by simp⟩

def AllOK (cs : List MConn) : Prop := ∀ c ∈ cs, ConnOK c

def ident (c : MConn) : Bool × Int × Int := (c.cdn, c.dc, c.serverDC)

theorem ident_of_same {c c' : MConn} (h : SameConn c c') : ident c' = ident c := by
  obtain ⟨h1, h2, h3⟩ := h
  simp [ident, h1, h2, h3]

theorem map_ident_set (cs : List MConn) (id : Nat) (c c' : MConn) (hc : cs[id]? = some c) (hs : SameConn c c') :
    (cs.set id c').map ident = cs.map ident := by
  rw [List.map_set]
  have hlt : id < cs.length := by
    rcases Nat.lt_or_ge id cs.length with h | h
    · exact h
    · rw [List.getElem?_eq_none h] at hc; cases hc
  have : (cs.map ident)[id]? = some (ident c') := by
    rw [List.getElem?_map, hc]; simp [ident_of_same hs]
  apply List.ext_getElem?
  intro j
  rw [List.getElem?_set]
  split
  · rename_i hj
    subst hj
    simp only [List.length_map, hlt, if_true]
    exact this.symm
  · rfl

/-- One action keeps every connection well-ordered, keeps the connections' identities, and
delivers only notifications that pair a session with the delivering connection's own config. -/
theorem mstep_ok (cs : List MConn) (a : MAct) (h : AllOK cs) :
    AllOK (mstep cs a).1 ∧ (∀ n ∈ (mstep cs a).2, ∃ (id : Nat) (c : MConn), cs[id]? = some c ∧ Good c n) ∧
      (mstep cs a).1.map ident = cs.map ident ++
        (match a with
          | .new cdn dc sdc => [(cdn, dc, sdc)]
          | _ => []) := by
  have key : ∀ (id : Nat) (c c' : MConn) (out : List Notif), cs[id]? = some c → ConnOK c' → SameConn c c' →
      (∀ n ∈ out, Good c n) →
      AllOK (cs.set id c') ∧ (∀ n ∈ out, ∃ (id : Nat) (c : MConn), cs[id]? = some c ∧ Good c n) ∧
        (cs.set id c').map ident = cs.map ident ++ [] := by
    intro id c c' out hc hok hs hg
    refine ⟨?_, fun n hn => ⟨id, c, hc, hg n hn⟩, by simpa using map_ident_set cs id c c' hc hs⟩
    intro x hx
    rcases List.mem_or_eq_of_mem_set hx with hx | hx
    · exact h x hx
    · rw [hx]; exact hok
  cases a with
  | new cdn dc sdc =>
    refine ⟨?_, by simp [mstep], by simp [mstep, ident]⟩
    intro c hc
    simp only [mstep, List.mem_append, List.mem_singleton] at hc
    rcases hc with hc | hc
    · exact h c hc
    · subst hc; cases cdn <;> simp [ConnOK]
  | ev id e =>
    simp only [mstep]
    cases hc : cs[id]? with
    | none => exact ⟨h, by simp, by simp⟩
    | some c =>
      have hcm : c ∈ cs := List.mem_of_getElem? hc
      obtain ⟨h1, h2, h3⟩ := onConn_ok c e (h c hcm)
      exact key id c _ _ hc h1 h2 h3
  | initBegin id =>
    simp only [mstep]
    cases hc : cs[id]? with
    | none => exact ⟨h, by simp, by simp⟩
    | some c =>
      have hcm : c ∈ cs := List.mem_of_getElem? hc
      obtain ⟨h1, h2, h3⟩ := runInit_ok true 8 c c [] (SameConn.refl c) (h c hcm) (by simp)
      exact key id c _ _ hc h1 h2 h3
  | initEnd id =>
    simp only [mstep]
    cases hc : cs[id]? with
    | none => exact ⟨h, by simp, by simp⟩
    | some c =>
      have hcm : c ∈ cs := List.mem_of_getElem? hc
      obtain ⟨h1, h2, h3⟩ := runInit_ok false 8 c c [] (SameConn.refl c) (h c hcm) (by simp)
      exact key id c _ _ hc h1 h2 h3

/-- Everything any action list hands to the client pairs a session with the config of a
connection that exists or is created by the list: `ThisDC` of its own server, or the dialled DC
for a CDN connection. -/
theorem deliveries_ok (acts : List MAct) : ∀ (cs : List MConn), AllOK cs → ∀ n ∈ deliveries cs acts,
    ∃ cdn dc sdc, ((cdn, dc, sdc) ∈ cs.map ident ∨ MAct.new cdn dc sdc ∈ acts) ∧
      n.cfgDC = (if cdn then dc else sdc) ∧ n.kind = (if cdn then .cdn else .regular) ∧ n.fault = .none := by
  induction acts with
  | nil => intro cs _ n hn; simp [deliveries] at hn
  | cons a rest ih =>
    intro cs h n hn
    obtain ⟨h1, h2, h3⟩ := mstep_ok cs a h
    simp only [deliveries, List.mem_append] at hn
    rcases hn with hn | hn
    · obtain ⟨id, c, hc, hg⟩ := h2 n hn
      refine ⟨c.cdn, c.dc, c.serverDC, Or.inl ?_, ?_, hg.2.1, hg.2.2.1⟩
      · exact List.mem_map.2 ⟨c, List.mem_of_getElem? hc, rfl⟩
      · simpa [MConn.ownDC] using hg.1
    · obtain ⟨cdn, dc, sdc, hmem, hrest⟩ := ih _ h1 n hn
      refine ⟨cdn, dc, sdc, ?_, hrest⟩
      rcases hmem with hmem | hmem
      · rw [h3, List.mem_append] at hmem
        rcases hmem with hmem | hmem
        · exact Or.inl hmem
        · cases a with
          | new c d s => simp at hmem; rw [hmem.1, hmem.2.1, hmem.2.2]; exact Or.inr List.mem_cons_self
          | ev _ _ => simp at hmem
          | initBegin _ => simp at hmem
          | initEnd _ => simp at hmem
      · exact Or.inr (List.mem_cons_of_mem _ hmem)

end TdModel.C30
