/-
C26 — bounded termination after `ForceClose`: from every reachable state in which the engine has been
force-closed there is a schedule of thread steps only (no result, ack, cancellation, timer, no new call),
no longer than the total rank, after which every `Do` has returned (and `Close` / `ForceClose` can return).
-/
import TdModel.Lemmas.C26Started
set_option linter.unusedVariables false
set_option linter.unusedSimpArgs false
namespace TdModel.Rpc

/-- `a` is a step of a call thread or of a notifier thread (not an environment action, not a new thread). -/
def Action.isThread : Action → Bool
  | .sret _ _ | .loopSel _ _ | .waitSel _ _ | .dret _ _ | .gpass _ | .nrun _ | .nwrite _ _ => true
  | _ => false

@[simp] theorem isThread_sret (j : Nat) (o : Outcome) : (Action.sret j o).isThread = true := rfl
@[simp] theorem isThread_loopSel (j : Nat) (b : LoopBr) : (Action.loopSel j b).isThread = true := rfl
@[simp] theorem isThread_waitSel (j : Nat) (b : WaitBr) : (Action.waitSel j b).isThread = true := rfl
@[simp] theorem isThread_dret (j : Nat) (o : Outcome) : (Action.dret j o).isThread = true := rfl
@[simp] theorem isThread_gpass (j : Nat) : (Action.gpass j).isThread = true := rfl
@[simp] theorem isThread_nrun (k : Nat) : (Action.nrun k).isThread = true := rfl
@[simp] theorem isThread_nwrite (k : Nat) (o : Outcome) : (Action.nwrite k o).isThread = true := rfl

/-- A thread step creates and removes no call / notifier and leaves the close flags alone. -/
def SameDomain (s s' : State) : Prop :=
  s'.started = s.started ∧ s'.nstarted = s.nstarted ∧ s'.reqC = s.reqC ∧
  (∀ i, s'.calls i = none ↔ s.calls i = none) ∧ (∀ k, s'.notifs k = none ↔ s.notifs k = none)

macro "dom_close" hg:term : tactic =>
  `(tactic| (simp [SameDomain, setCall, setNotif, finish, Call.finish, removeAck, exitAck, Call.exitLoop, Call.retC, Cfg.std_all $hg] <;>
      grind))

set_option maxHeartbeats 4000000 in
theorem thread_domain {cfg : Cfg} {s s' : State} {a : Action} (hg : cfg.std = true) (ha : a.isThread = true)
    (hs : step cfg s a = some s') : SameDomain s s' := by
  cases a <;> simp only [step] at hs <;> try (simp [Action.isThread] at ha)
  case sret j o =>
    unfold stepSret at hs
    std_norm hg at hs
    split at hs
    · simp at hs
    · split at hs <;> try (simp at hs)
      all_goals (try split at hs) <;> try (simp at hs)
      all_goals (first | subst hs | (obtain ⟨_, hs⟩ := hs; subst hs))
      all_goals dom_close hg
  case loopSel j b =>
    unfold stepLoop at hs
    std_norm hg at hs
    split at hs
    · simp at hs
    · split at hs
      · simp at hs
      · try dsimp only at hs
        split at hs
        all_goals (split at hs <;> try (simp at hs))
        all_goals (try (split at hs <;> try (simp at hs)))
        all_goals (first | subst hs | (obtain ⟨_, hs⟩ := hs; subst hs))
        all_goals dom_close hg
  case waitSel j b =>
    unfold stepWait at hs
    std_norm hg at hs
    split at hs
    · simp at hs
    · split at hs
      · simp at hs
      · split at hs
        all_goals (split at hs <;> try (simp at hs))
        all_goals (try (split at hs <;> try (simp at hs)))
        all_goals (first | subst hs | (obtain ⟨_, hs⟩ := hs; subst hs))
        all_goals dom_close hg
  case dret j o =>
    unfold stepDret at hs
    std_norm hg at hs
    split at hs
    · simp at hs
    · split at hs <;> simp at hs
      subst hs
      dom_close hg
  case gpass j =>
    unfold stepGpass at hs
    std_norm hg at hs
    split at hs
    · simp at hs
    · split at hs <;> simp at hs
      subst hs
      dom_close hg
  case nrun nid =>
    unfold stepNrun at hs
    std_norm hg at hs
    simp only [casStep] at hs
    split at hs
    · simp at hs
    · split at hs
      all_goals (try (split at hs))
      all_goals (try (split at hs))
      all_goals (try (simp at hs))
      all_goals (try subst hs)
      all_goals dom_close hg
  case nwrite nid o =>
    unfold stepNwrite at hs
    split at hs
    · simp at hs
    · split at hs
      · split at hs
        · simp at hs
        · simp at hs; subst hs; dom_close hg
      · simp at hs

/-- rank of the call / notifier with that id (0 if there is none). -/
def callRank (s : State) (i : Nat) : Nat :=
  match s.calls i with
  | some c => c.rank
  | none => 0

def notifRank (s : State) (k : Nat) : Nat :=
  match s.notifs k with
  | some n => n.rank
  | none => 0

/-- Total number of thread steps still possible while the clock stands still. -/
def total (s : State) : Nat := (s.started.map (callRank s)).sum + (s.nstarted.map (notifRank s)).sum

theorem sum_map_le {f g : Nat → Nat} (l : List Nat) (h : ∀ x, g x ≤ f x) : (l.map g).sum ≤ (l.map f).sum := by
  induction l with
  | nil => simp
  | cons x xs ih => simp only [List.map_cons, List.sum_cons]; have := h x; omega

theorem sum_map_lt {f g : Nat → Nat} (l : List Nat) (h : ∀ x, g x ≤ f x) {y : Nat} (hy : y ∈ l) (hlt : g y < f y) :
    (l.map g).sum < (l.map f).sum := by
  induction l with
  | nil => cases hy
  | cons x xs ih =>
    simp only [List.map_cons, List.sum_cons]
    have hx := h x
    have hle := sum_map_le xs h
    cases hy with
    | head => omega
    | tail _ hm => have := ih hm; omega

/-- A thread step does not increase any rank. -/
theorem thread_rank_le {cfg : Cfg} {s s' : State} {a : Action} (hg : cfg.std = true) (ha : a.isThread = true)
    (hs : step cfg s a = some s') :
    (∀ i, callRank s' i ≤ callRank s i) ∧ (∀ k, notifRank s' k ≤ notifRank s k) := by
  obtain ⟨_, _, _, hd1, hd2⟩ := thread_domain hg ha hs
  obtain ⟨h1, h2⟩ := rank_step hg hs
  have hadv : a.isAdvance = false := by cases a <;> simp [Action.isThread] at ha <;> rfl
  constructor
  · intro i
    unfold callRank
    cases hc : s.calls i with
    | none => rw [(hd1 i).mpr hc]; exact Nat.le_refl _
    | some c =>
      cases hc' : s'.calls i with
      | none => exact Nat.zero_le _
      | some c' => exact (h1 i c c' hc hc').1 hadv
  · intro k
    unfold notifRank
    cases hn : s.notifs k with
    | none => rw [(hd2 k).mpr hn]; exact Nat.le_refl _
    | some n =>
      cases hn' : s'.notifs k with
      | none => exact Nat.zero_le _
      | some n' => exact (h2 k n n' hn hn').1

/-- The step of call `i`'s own thread, or of notifier `k`'s, strictly decreases the total. -/
theorem thread_total_lt {cfg : Cfg} {s s' : State} {a : Action} (hg : cfg.std = true) (hl : Listed s)
    (ha : a.isThread = true) (hs : step cfg s a = some s')
    (hown : (∃ i, a.ofCall i = true ∧ s.calls i ≠ none) ∨ (∃ k, a.ofNotif k = true ∧ s.notifs k ≠ none)) :
    total s' < total s := by
  obtain ⟨hst, hnst, _, hd1, hd2⟩ := thread_domain hg ha hs
  obtain ⟨hle1, hle2⟩ := thread_rank_le hg ha hs
  obtain ⟨h1, h2⟩ := rank_step hg hs
  unfold total
  rw [hst, hnst]
  rcases hown with ⟨i, hi, hne⟩ | ⟨k, hk, hne⟩
  · have hmem := hl.1 i hne
    have hlt : callRank s' i < callRank s i := by
      unfold callRank
      cases hc : s.calls i with
      | none => exact absurd hc hne
      | some c =>
        cases hc' : s'.calls i with
        | none => exact absurd ((hd1 i).mp hc') hne
        | some c' => exact (h1 i c c' hc hc').2 hi
    have := sum_map_lt s.started hle1 hmem hlt
    have := sum_map_le s.nstarted hle2
    omega
  · have hmem := hl.2 k hne
    have hlt : notifRank s' k < notifRank s k := by
      unfold notifRank
      cases hn : s.notifs k with
      | none => exact absurd hn hne
      | some n =>
        cases hn' : s'.notifs k with
        | none => exact absurd ((hd2 k).mp hn') hne
        | some n' => exact (h2 k n n' hn hn').2 hk
    have := sum_map_lt s.nstarted hle2 hmem hlt
    have := sum_map_le s.started hle1
    omega

/-- After `ForceClose` every unreturned call has an enabled step of its own thread, or of the notifier it waits for. -/
theorem unblocked {cfg : Cfg} (hg : cfg.std = true) {s : State} (hi : Inv s) (hcl : Close s) (hclosed : s.reqC = true)
    {i : Nat} {c : Call} (hc : s.calls i = some c) (hret : c.ret = none) :
    (∃ a, a.ofCall i = true ∧ (step cfg s a).isSome = true) ∨
    (c.pc = .guard ∧ ∃ nid n a, c.owner = some (.notif nid) ∧ s.notifs nid = some n ∧
        a.ofNotif nid = true ∧ (step cfg s a).isSome = true) := by
  have hstd := Cfg.std_all hg
  cases hpc : c.pc with
  | send0 => exact Or.inl ⟨.sret i .ok, by simp, by simp [step, stepSret, hc, hpc]⟩
  | sendR =>
    refine Or.inl ⟨.sret i .ok, by simp, ?_⟩
    simp only [step, stepSret, hc, hpc]
    split <;> simp
  | loop =>
    refine Or.inl ⟨.loopSel i .closed, by simp, ?_⟩
    simp only [step, stepLoop, hc, hpc, hclosed, hstd]
    cases c.acked <;> simp
  | wait =>
    refine Or.inl ⟨.waitSel i .closed, by simp, ?_⟩
    simp only [step, stepWait, hc, hpc, hclosed, hstd]
    cases c.done <;> simp
  | drop => exact Or.inl ⟨.dret i .ok, by simp, by simp [step, stepDret, hc, hpc]⟩
  | fin => exact absurd hret ((hi.fin_ret i c hc).2 hpc)
  | guard =>
    cases hd : c.done with
    | true => exact Or.inl ⟨.gpass i, by simp, by simp [step, stepGpass, hc, hpc, hd]⟩
    | false =>
      have hgo := hcl.guard_owner i c hc hpc
      cases ho : c.owner with
      | none => exact absurd ho hgo.1
      | some o =>
        cases o with
        | caller => exact absurd ho hgo.2
        | notif nid =>
          obtain ⟨n, hn, hst, hfn⟩ := hcl.owner_staged i c nid hc ho hd
          refine Or.inr ⟨rfl, nid, n, ?_⟩
          rcases hst with hst | hst
          · refine ⟨.nrun nid, rfl, hn, by simp, ?_⟩
            simp only [step, stepNrun, hn, hst, hfn, hc]
            split <;> simp
          · exact ⟨.nwrite nid .ok, rfl, hn, by simp, by simp [step, stepNwrite, hn, hst, hfn, hc]⟩

theorem reachable_step {cfg : Cfg} {s s' : State} {a : Action} (h : Reachable cfg s) (hs : step cfg s a = some s') :
    Reachable cfg s' := by
  obtain ⟨as, has⟩ := h
  refine ⟨as ++ [a], ?_⟩
  have key : ∀ (l : List Action) (t : State), run cfg t l = some s → run cfg t (l ++ [a]) = some s' := by
    intro l
    induction l with
    | nil => intro t ht; simp [run] at ht; subst ht; simp [run, hs]
    | cons b bs ih =>
      intro t ht
      simp only [run, List.cons_append] at ht ⊢
      split at ht
      · next t1 h1 => exact ih t1 ht
      · simp at ht
  exact key as init has

/-- **Bounded termination after `ForceClose`.** -/
theorem forceClose_terminates_aux {cfg : Cfg} (hg : cfg.std = true) :
    ∀ (n : Nat) (s : State), Reachable cfg s → s.reqC = true → total s ≤ n →
      ∃ as s', (∀ a ∈ as, a.isThread = true) ∧ as.length ≤ n ∧ run cfg s as = some s' ∧
        (∀ i c, s'.calls i = some c → c.ret ≠ none) := by
  intro n
  induction n with
  | zero =>
    intro s hr hq ht
    refine ⟨[], s, by simp, by simp, rfl, ?_⟩
    intro i c hc hret
    -- an unreturned call has an enabled decreasing step, impossible with total 0
    have hi := reachable_inv hg hr
    have hcl := reachable_close hg hr
    have hl := reachable_listed hg hr
    rcases unblocked hg hi hcl hq hc hret with ⟨a, ha, hen⟩ | ⟨_, nid, m, a, _, hm, ha, hen⟩
    · obtain ⟨s1, h1⟩ := Option.isSome_iff_exists.mp hen
      have hth : a.isThread = true := by cases a <;> simp [Action.ofCall] at ha <;> rfl
      have := thread_total_lt hg hl hth h1 (Or.inl ⟨i, ha, by simp [hc]⟩)
      omega
    · obtain ⟨s1, h1⟩ := Option.isSome_iff_exists.mp hen
      have hth : a.isThread = true := by cases a <;> simp [Action.ofNotif] at ha <;> rfl
      have := thread_total_lt hg hl hth h1 (Or.inr ⟨nid, ha, by simp [hm]⟩)
      omega
  | succ n ih =>
    intro s hr hq ht
    by_cases hall : ∀ i c, s.calls i = some c → c.ret ≠ none
    · exact ⟨[], s, by simp, by simp, rfl, hall⟩
    · have hi := reachable_inv hg hr
      have hcl := reachable_close hg hr
      have hl := reachable_listed hg hr
      have ⟨i, c, hc, hret⟩ : ∃ i c, s.calls i = some c ∧ c.ret = none := by
        apply Classical.byContradiction
        intro hne
        apply hall
        intro i c hc hret
        exact hne ⟨i, c, hc, hret⟩
      have step1 : ∃ a s1, a.isThread = true ∧ step cfg s a = some s1 ∧ total s1 < total s := by
        rcases unblocked hg hi hcl hq hc hret with ⟨a, ha, hen⟩ | ⟨_, nid, m, a, _, hm, ha, hen⟩
        · obtain ⟨s1, h1⟩ := Option.isSome_iff_exists.mp hen
          have hth : a.isThread = true := by cases a <;> simp [Action.ofCall] at ha <;> rfl
          exact ⟨a, s1, hth, h1, thread_total_lt hg hl hth h1 (Or.inl ⟨i, ha, by simp [hc]⟩)⟩
        · obtain ⟨s1, h1⟩ := Option.isSome_iff_exists.mp hen
          have hth : a.isThread = true := by cases a <;> simp [Action.ofNotif] at ha <;> rfl
          exact ⟨a, s1, hth, h1, thread_total_lt hg hl hth h1 (Or.inr ⟨nid, ha, by simp [hm]⟩)⟩
      obtain ⟨a, s1, hth, h1, hlt⟩ := step1
      have hq1 : s1.reqC = true := by
        have := (thread_domain hg hth h1).2.2.1; rw [this]; exact hq
      obtain ⟨as, s', h2, h3, h4, h5⟩ := ih s1 (reachable_step hr h1) hq1 (by omega)
      refine ⟨a :: as, s', ?_, by simp; omega, by simp [run, h1, h4], h5⟩
      intro b hb
      cases hb with
      | head => exact hth
      | tail _ hm => exact h2 b hm

end TdModel.Rpc
