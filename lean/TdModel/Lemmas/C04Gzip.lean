/-
Lemmas for the compression-threshold path of C04.
-/
import TdModel.Model.C04Gzip
import TdModel.Lemmas.C04

namespace TdModel.C04
open TdModel TdModel.Bin
open TdModel.C06 (Side)

theorem gzipDecode_gzipEncode (G : Gz) (hG : LawfulGz G) (data : Bytes) (h : (G.gz data).length < 2 ^ 24) :
    gzipDecode G (gzipEncode G data) = some data := by
  unfold gzipDecode gzipEncode
  rw [consumeID_putU32 _ _ (by decide)]
  simp only
  have := getBytes_putBytes (G.gz data) [] h
  rw [List.append_nil] at this
  rw [this]
  exact hG.gunz_gz data

theorem gzipEncode_length (G : Gz) (data : Bytes) :
    (gzipEncode G data).length % 4 = 0 ∧ (gzipEncode G data).length ≤ (G.gz data).length + 11 := by
  unfold gzipEncode
  have h1 := putBytes_length_mod (G.gz data)
  have h2 := putBytes_length (G.gz data)
  rw [List.length_append, putU32_length]
  constructor
  · omega
  · rw [h2]
    have := padded_lt ((G.gz data).length + 1)
    have := padded_lt ((G.gz data).length + 4)
    split <;> omega

end TdModel.C04
