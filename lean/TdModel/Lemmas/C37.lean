import TdModel.Model.C37Unescape
import TdModel.Model.C37Html
import TdModel.Lemmas.C35

namespace TdModel.C37U
open TdModel

theorem rd_lt (s : Bytes) (i : Nat) (h : i < s.length) : ∃ c, rd s i = some c :=
  ⟨s[i], by simp [rd, List.getElem?_eq_getElem h]⟩

/-- The digit loop never reads out of range and stops inside the slice. -/
theorem numLoop_spec (hex : Bool) (s : Bytes) : ∀ fuel i x, i ≤ s.length →
    ∃ x' i', numLoop hex s fuel i x = some (x', i') ∧ i ≤ i' ∧ i' ≤ s.length := by
  intro fuel
  induction fuel with
  | zero => intro i x h; exact ⟨x, i, rfl, Nat.le_refl _, h⟩
  | succ fuel ih =>
    intro i x h
    unfold numLoop
    by_cases hi : i < s.length
    · obtain ⟨c, hc⟩ := rd_lt s i hi
      simp only [hi, if_true, hc]
      have step : ∀ y, ∃ x' i', numLoop hex s fuel (i + 1) y = some (x', i') ∧ i ≤ i' ∧ i' ≤ s.length := by
        intro y
        obtain ⟨x', i', h1, h2, h3⟩ := ih (i + 1) y (by omega)
        exact ⟨x', i', h1, by omega, h3⟩
      split
      · exact step _
      · split
        · exact step _
        · split
          · exact step _
          · split
            · exact step _
            · refine ⟨x, _, rfl, ?_, ?_⟩ <;> split <;> omega
    · simp only [hi, if_false]
      exact ⟨x, i, rfl, Nat.le_refl _, h⟩

theorem nameLoop_spec (s : Bytes) : ∀ fuel i, i ≤ s.length →
    ∃ i', nameLoop s fuel i = some i' ∧ i ≤ i' ∧ i' ≤ s.length := by
  intro fuel
  induction fuel with
  | zero => intro i h; exact ⟨i, rfl, Nat.le_refl _, h⟩
  | succ fuel ih =>
    intro i h
    unfold nameLoop
    by_cases hi : i < s.length
    · obtain ⟨c, hc⟩ := rd_lt s i hi
      simp only [hi, if_true, hc]
      split
      · obtain ⟨i', h1, h2, h3⟩ := ih (i + 1) (by omega)
        exact ⟨i', h1, by omega, h3⟩
      · refine ⟨_, rfl, ?_, ?_⟩ <;> split <;> omega
    · simp only [hi, if_false]
      exact ⟨i, rfl, Nat.le_refl _, h⟩

theorem encodeRune_len (x : Int) : 1 ≤ (encodeRune x).length ∧ (encodeRune x).length ≤ 4 := by
  unfold encodeRune
  simp only
  split
  · simp
  · split
    · simp
    · split
      · simp
      · split <;> simp

theorem encodeRune_ascii (x : Nat) (h : x < 128) : (encodeRune x).length = 1 := by
  unfold encodeRune
  have : (0 : Int) ≤ (x : Int) ∧ (x : Int) < 0x80 := by omega
  simp [this]

theorem literalAmp_spec (s : Bytes) (h : 1 ≤ s.length) :
    ∃ out, literalAmp s = some (out, 1) ∧ out.length ≤ 1 := by
  obtain ⟨a, ha⟩ := rd_lt s 0 (by omega)
  exact ⟨[a], by simp [literalAmp, ha], by simp⟩

/-- `unescapeEntity` never indexes out of range; it consumes between 1 and `len(s)` bytes and writes
at most as many bytes as it consumes. -/
theorem unescapeEntity_spec (s : Bytes) (h : 1 ≤ s.length) (h0 : rd s 0 = some 38) :
    ∃ out n, unescapeEntity s = some (out, n) ∧ 1 ≤ n ∧ n ≤ s.length ∧ out.length ≤ n := by
  have lit : ∃ out n, literalAmp s = some (out, n) ∧ 1 ≤ n ∧ n ≤ s.length ∧ out.length ≤ n := by
    obtain ⟨out, h1, h2⟩ := literalAmp_spec s h
    exact ⟨out, 1, h1, Nat.le_refl _, h, h2⟩
  unfold unescapeEntity
  by_cases h1 : s.length ≤ 1
  · simp only [h1, if_true]; exact lit
  · simp only [h1, if_false]
    obtain ⟨c1, hc1⟩ := rd_lt s 1 (by omega)
    simp only [hc1]
    by_cases hh : c1.toNat = 35
    · simp only [hh, if_true]
      by_cases h3 : s.length ≤ 3
      · simp only [h3, if_true]; exact lit
      · simp only [h3, if_false]
        obtain ⟨c2, hc2⟩ := rd_lt s 2 (by omega)
        simp only [hc2]
        generalize hhex : (decide (c2.toNat = 120 ∨ c2.toNat = 88)) = hex
        have hi0 : (if hex = true then 3 else 2) ≤ s.length := by split <;> omega
        obtain ⟨x, i, hl, hge, hle⟩ := numLoop_spec hex s (s.length - (if hex = true then 3 else 2)) (if hex = true then 3 else 2) 0 hi0
        simp only [hl]
        by_cases hi3 : i ≤ 3
        · simp only [hi3, if_true]; exact lit
        · simp only [hi3, if_false]
          split
          · exact lit
          · have := encodeRune_len x
            exact ⟨_, _, rfl, by omega, hle, by omega⟩
    · simp only [hh, if_false]
      obtain ⟨i, hl, hge, hle⟩ := nameLoop_spec s (s.length - 1) 1 (by omega)
      simp only [hl]
      have hipos : i > 0 := by omega
      obtain ⟨last, hlast⟩ := rd_lt s (i - 1) (by omega)
      simp only [hipos, if_true, hlast, true_and]
      have hte : 1 ≤ (if last.toNat = 59 then i - 1 else i) ∧ (if last.toNat = 59 then i - 1 else i) ≤ s.length := by
        split
        · rename_i h59
          constructor
          · -- i = 1 would make `last` the leading '&' (38), which is not ';' (59)
            by_cases hi1 : i = 1
            · subst hi1
              rw [h0] at hlast
              have : last = 38 := (Option.some.inj hlast).symm
              subst this
              exact absurd h59 (by decide)
            · omega
          · omega
        · omega
      generalize (if last.toNat = 59 then i - 1 else i) = tagEnd at hte ⊢
      simp only [hte, and_self, not_true_eq_false, if_false]
      have hx128 : ∀ name : Bytes,
          (if name = [108, 116] then 60 else if name = [103, 116] then 62 else if name = [97, 109, 112] then 38
           else if name = [113, 117, 111, 116] then 34 else 0 : Nat) < 128 := by
        intro name
        split
        · omega
        · split
          · omega
          · split
            · omega
            · split <;> omega
      generalize hxd : (if (s.take tagEnd).drop 1 = [108, 116] then 60 else if (s.take tagEnd).drop 1 = [103, 116] then 62
          else if (s.take tagEnd).drop 1 = [97, 109, 112] then 38
          else if (s.take tagEnd).drop 1 = [113, 117, 111, 116] then 34 else 0 : Nat) = x
      have hx : x < 128 := hxd ▸ hx128 _
      by_cases hx0 : x = 0
      · simp only [hx0, ne_eq, not_true_eq_false, if_false, hle, if_true]
        exact ⟨_, _, rfl, by omega, hle, by simp only [List.length_take]; omega⟩
      · simp only [ne_eq, hx0, not_false_eq_true, if_true]
        have := encodeRune_ascii x hx
        exact ⟨_, _, rfl, by omega, hle, by omega⟩

/-- `telegramUnescape`'s loop: no panic, and the output is never longer than the input (so the
in-place write position `dst` never overtakes the read position `src`). -/
theorem unescapeFrom_spec : ∀ fuel (s : Bytes), s.length ≤ fuel →
    ∃ out, unescapeFrom fuel s = some out ∧ out.length ≤ s.length := by
  intro fuel
  induction fuel using Nat.strongRecOn with
  | _ fuel ih =>
    intro s hs
    cases fuel with
    | zero =>
      have : s = [] := by cases s <;> simp_all
      subst this
      exact ⟨[], rfl, Nat.le_refl _⟩
    | succ fuel =>
      cases s with
      | nil => exact ⟨[], rfl, Nat.le_refl _⟩
      | cons c rest =>
        unfold unescapeFrom
        by_cases hc : c.toNat = 38
        · simp only [hc, if_true]
          have hc' : c = 38 := UInt8.toNat_inj.mp (by simpa using hc)
          obtain ⟨out, n, he, hn1, hn2, hon⟩ := unescapeEntity_spec (c :: rest) (by simp) (by simp [rd, hc'])
          simp only [he]
          have hlen : ((c :: rest).drop n).length ≤ fuel := by
            simp only [List.length_drop, List.length_cons] at *
            omega
          obtain ⟨tail, ht, htl⟩ := ih fuel (Nat.lt_succ_self _) ((c :: rest).drop n) hlen
          simp only [ht]
          refine ⟨_, rfl, ?_⟩
          simp only [List.length_append, List.length_drop] at *
          omega
        · simp only [hc, if_false]
          obtain ⟨tail, ht, htl⟩ := ih fuel (Nat.lt_succ_self _) rest (by simp only [List.length_cons] at hs; omega)
          simp only [ht]
          exact ⟨_, rfl, by simp only [List.length_cons]; omega⟩

theorem telegramUnescape_spec (b : Bytes) :
    ∃ out, telegramUnescape b = some out ∧ out.length ≤ b.length :=
  unescapeFrom_spec b.length b (Nat.le_refl _)

end TdModel.C37U

namespace TdModel.C37H
open TdModel.C35

theorem endTag_st (p p' : PS) (name : Option String) (he : endTag p name = .ok p') :
    p'.st = p.st ∨ ∃ op, p'.st = step p.st op := by
  simp only [endTag, pure, Except.pure, throw, throwThe, MonadExceptOf.throw] at he
  repeat' split at he
  all_goals (cases he <;> first | exact Or.inl rfl | exact Or.inr ⟨Op.apply _ _, rfl⟩)

theorem endTag_inv (p p' : PS) (name : Option String) (h : Inv p.st) (he : endTag p name = .ok p') : Inv p'.st := by
  rcases endTag_st p p' name he with h1 | ⟨op, h1⟩
  · rw [h1]; exact h
  · rw [h1]; exact inv_step h op

theorem stepTok_inv (p p' : PS) (t : HTok) (h : Inv p.st) (he : stepTok p t = .ok p') : Inv p'.st := by
  cases t with
  | text s =>
    have h1 := Except.ok.inj he
    subst h1
    exact (inv_step h (.write s) : Inv (step p.st (.write s)))
  | start tag =>
    have h1 := Except.ok.inj he
    subst h1
    exact (inv_step h .token : Inv (step p.st .token))
  | stop tag => exact endTag_inv p p' (some tag) h he
  | stopAny => exact endTag_inv p p' none h he

theorem parseToks_inv : ∀ (toks : List HTok) (p p' : PS), Inv p.st → parseToks p toks = .ok p' → Inv p'.st := by
  intro toks
  induction toks with
  | nil => intro p p' h he; cases he; exact h
  | cons t rest ih =>
    intro p p' h he
    simp only [parseToks, bind, Except.bind] at he
    split at he
    · cases he
    · rename_i p1 h1
      exact ih p1 p' (stepTok_inv p p1 t h h1) he

end TdModel.C37H
