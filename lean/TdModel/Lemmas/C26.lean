/-
C26 — close / cancel: why a call is waiting for its result, which close error it gets, how many
drop requests it issues, and who it waits for at the handler guard.
-/
import TdModel.Lemmas.C24Env
import TdModel.Lemmas.C25
set_option linter.unusedVariables false
namespace TdModel.Rpc

structure Close (s : State) : Prop where
  /-- the retry loop is left for `do.wait` only after an ack, a cancellation or the result. -/
  wait_reason : ∀ i c, s.calls i = some c → c.pc = .wait → c.acked = true ∨ c.ctxC = true ∨ c.done = true
  noretry_ret : ∀ i c, s.calls i = some c → c.ret = some .closedNoRetry → c.acked = true ∨ c.ctxC = true
  noretry_pend : ∀ i c, s.calls i = some c → c.pc = .guard → c.pend = .closedNoRetry → c.acked = true ∨ c.ctxC = true
  retry_ret : ∀ i c, s.calls i = some c → c.ret = some .closedRetry → c.acked = false
  retry_pend : ∀ i c, s.calls i = some c → c.pc = .guard → c.pend = .closedRetry → c.acked = false
  /-- `resultErr` is only ever a result-class value. -/
  res_kind : ∀ i c, s.calls i = some c → c.res ≠ .closedNoRetry ∧ c.res ≠ .closedRetry ∧ c.res ≠ .ctxErr
  sent_send0 : ∀ i c, s.calls i = some c → c.pc = .send0 → c.sent = false
  drops_zero : ∀ i c, s.calls i = some c → (c.pc = .send0 ∨ c.pc = .loop ∨ c.pc = .sendR ∨ c.pc = .wait) → c.drops = 0
  drops_drop : ∀ i c, s.calls i = some c → c.pc = .drop → c.drops = 1 ∧ c.sent = true ∧ c.ctxC = true
  drops_le : ∀ i c, s.calls i = some c → c.drops ≤ 1
  ctx_sent_ret : ∀ i c, s.calls i = some c → c.ret = some .ctxErr → c.sent = true → c.drops = 1
  ctx_sent_pend : ∀ i c, s.calls i = some c → c.pc = .guard → c.pend = .ctxErr → c.sent = true → c.drops = 1
  ctx_unsent_ret : ∀ i c, s.calls i = some c → c.ret = some .ctxErr → c.sent = false → c.drops = 0
  ctx_unsent_pend : ∀ i c, s.calls i = some c → c.pc = .guard → c.pend = .ctxErr → c.sent = false → c.drops = 0
  ctx_cancelled_ret : ∀ i c, s.calls i = some c → c.ret = some .ctxErr → c.ctxC = true
  ctx_cancelled_pend : ∀ i c, s.calls i = some c → c.pc = .guard → c.pend = .ctxErr → c.ctxC = true
  other_ret : ∀ i c r, s.calls i = some c → c.ret = some r → r ≠ .ctxErr → c.drops = 0
  other_pend : ∀ i c, s.calls i = some c → c.pc = .guard → c.pend ≠ .ctxErr → c.drops = 0
  /-- at the guard the call waits for the notifier that won its handler CAS, and that notifier is
  still on its way (parked at `handler.cas` or inside `Decode`) unless `done` is already closed. -/
  caller_fin : ∀ i c, s.calls i = some c → c.owner = some .caller → c.pc = .fin
  guard_owner : ∀ i c, s.calls i = some c → c.pc = .guard → c.owner ≠ none ∧ c.owner ≠ some .caller
  owner_staged : ∀ i c nid, s.calls i = some c → c.owner = some (.notif nid) → c.done = false →
      ∃ n, s.notifs nid = some n ∧ (n.pc = .cas ∨ n.pc = .decode) ∧ n.fn = .real i

theorem close_init : Close init := by
  constructor <;> simp [init]

macro "close_close" hg:term : tactic =>
  `(tactic| (constructor <;>
      simp [setCall, setNotif, finish, Call.finish, removeAck, exitAck, Call.exitLoop, Call.retC, newCall, Cfg.std_all $hg] <;>
      grind [Close, Inv, Call.retC]))

macro "close_close0" : tactic =>
  `(tactic| (constructor <;>
      simp [setCall, setNotif, removeAck, Call.exitLoop, Call.retC, newCall] <;>
      grind [Close, Inv, Call.retC]))

set_option maxHeartbeats 4000000 in
theorem close_start {s s' : State} {i seq body : Nat} (h : Close s) (hi : Inv s)
    (hs : stepStart s i seq body = some s') : Close s' := by
  unfold stepStart at hs
  split at hs
  · simp at hs
  · try dsimp only at hs
    split at hs <;> simp at hs <;> subst hs <;> close_close0

set_option maxHeartbeats 4000000 in
theorem close_sret {cfg : Cfg} {s s' : State} {i : Nat} {o : Outcome} (hg : cfg.std = true) (h : Close s) (hi : Inv s)
    (hs : stepSret cfg s i o = some s') : Close s' := by
  unfold stepSret at hs
  std_norm hg at hs
  split at hs
  · simp at hs
  · split at hs <;> try (simp at hs)
    all_goals (try split at hs) <;> try (simp at hs)
    all_goals (first | subst hs | (obtain ⟨_, hs⟩ := hs; subst hs))
    all_goals close_close hg

end TdModel.Rpc
