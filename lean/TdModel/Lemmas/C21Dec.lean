/-
C21 — facts about *arbitrary* input: whatever the decoder accepts is a well-typed value (it can be
re-encoded), and only a prefix of the input is consumed.
-/
import TdModel.Lemmas.C21

namespace TdModel.C21
open TdModel TdModel.Bin

/-! ### primitives: what a successful read returns -/

theorem getN_ok {n : Nat} {b x r : Bytes} (h : getN n b = .ok (x, r)) :
    x.length = n ∧ b = x ++ r := by
  unfold getN at h
  split at h
  · cases h
  · rename_i hl
    injection h with h; injection h with h1 h2
    subst h1 h2
    constructor
    · simp [List.length_take]; omega
    · simp

theorem getU32_suffix {b r : Bytes} {v : Nat} (h : getU32 b = .ok (v, r)) : r <:+ b := by
  unfold getU32 at h
  split at h
  · cases h
  · injection h with h; injection h with h1 h2
    subst h2; exact List.drop_suffix 4 b

theorem getU64_suffix {b r : Bytes} {v : Nat} (h : getU64 b = .ok (v, r)) : r <:+ b := by
  unfold getU64 at h
  split at h
  · cases h
  · injection h with h; injection h with h1 h2
    subst h2; exact List.drop_suffix 8 b

theorem getN_suffix {n : Nat} {b x r : Bytes} (h : getN n b = .ok (x, r)) : r <:+ b := by
  rw [(getN_ok h).2]; exact List.suffix_append x r

theorem getBool_suffix {b r : Bytes} {v : Bool} (h : getBool b = .ok (v, r)) : r <:+ b := by
  unfold getBool at h
  split at h
  · cases h
  · simp only at h
    repeat' split at h
    all_goals first
      | (cases h; done)
      | (injection h with h; injection h with h1 h2; subst h2; exact List.drop_suffix 4 b)

theorem getBytes_suffix {b x r : Bytes} (h : getBytes b = .ok (x, r)) : r <:+ b := by
  unfold getBytes at h
  split at h
  · cases h
  · split at h
    · cases h
    · injection h with h; injection h with h1 h2
      subst h2; exact List.drop_suffix _ b

theorem consumeID_suffix {id : Nat} {b r : Bytes} {u : Unit} (h : consumeID id b = .ok (u, r)) : r <:+ b := by
  unfold consumeID at h
  repeat' split at h
  all_goals first
    | (cases h; done)
    | (injection h with h; injection h with h1 h2; subst h2; exact List.drop_suffix 4 b)

theorem getVectorHeader_ok {b r : Bytes} {n : Nat} (h : getVectorHeader b = .ok (n, r)) :
    r <:+ b ∧ n < 2 ^ 31 := by
  unfold getVectorHeader at h
  cases h1 : consumeID typeVector b with
  | error e => simp [h1] at h
  | ok p1 =>
    obtain ⟨u, r1⟩ := p1
    simp only [h1] at h
    cases h2 : getU32 r1 with
    | error e => simp [h2] at h
    | ok p2 =>
      obtain ⟨m, r2⟩ := p2
      simp only [h2] at h
      split at h
      · cases h
      · rename_i hneg
        injection h with h; injection h with h3 h4
        subst h3 h4
        refine ⟨(getU32_suffix h2).trans (consumeID_suffix h1), ?_⟩
        have := getU32_lt h2
        unfold toInt32 at hneg
        split at hneg
        · assumption
        · omega

theorem getBareLen_ok {b r : Bytes} {n : Nat} (h : getBareLen b = .ok (n, r)) :
    r <:+ b ∧ n < 2 ^ 31 := by
  unfold getBareLen at h
  cases h2 : getU32 b with
  | error e => simp [h2] at h
  | ok p2 =>
    obtain ⟨m, r2⟩ := p2
    simp only [h2] at h
    injection h with h; injection h with h3 h4
    subst h4
    refine ⟨getU32_suffix h2, ?_⟩
    have := getU32_lt h2
    subst h3
    split
    · decide
    · rename_i hneg
      unfold toInt32 at hneg
      split at hneg
      · assumption
      · omega

/-! ### the `switch id` only yields constructors of the interface, with that id -/

theorem findIn_ok (S : Schema) (id : Nat) : ∀ (cs : List Nat) (c : Nat),
    findIn S id cs = some c → c ∈ cs ∧ ctorId S c = some id := by
  intro cs
  induction cs with
  | nil => intro c h; simp [findIn] at h
  | cons d ds ih =>
    intro c h
    simp only [findIn] at h
    split at h
    · rename_i hd
      injection h with h; subst h
      exact ⟨List.mem_cons_self, hd⟩
    · obtain ⟨h1, h2⟩ := ih c h
      exact ⟨List.mem_cons_of_mem _ h1, h2⟩

theorem findCtor_ok {S : Schema} {i id c : Nat} (h : findCtor S i id = some c) :
    ifaceHas S i c = true ∧ ctorId S c = some id := by
  unfold findCtor at h
  unfold ifaceHas
  cases hcs : S.ifaces[i]? with
  | none => simp [hcs] at h
  | some cs =>
    simp only [hcs] at h ⊢
    obtain ⟨h1, h2⟩ := findIn_ok S id cs c h
    exact ⟨by simpa using h1, h2⟩

/-! ### motives: a successful decode returns an encodable value and a suffix of the input -/

def DecTyOk (S : Schema) (fuel : Nat) : Prop :=
  ∀ (d : Nat) (t : Ty) (b : Bytes) (v : Val) (r : Bytes), decTy S fuel d t b = .ok (v, r) →
    r <:+ b ∧ (encTy S t v).isSome = true

def DecFieldsOk (S : Schema) (fuel : Nat) : Prop :=
  ∀ (d : Nat) (env : List Nat) (fs : List Field) (b : Bytes) (vs : Vals) (r : Bytes),
    decFields S fuel d env fs b = .ok (vs, r) → r <:+ b ∧ (encFields S env fs vs).isSome = true

def DecElemsOk (S : Schema) (fuel : Nat) : Prop :=
  ∀ (d : Nat) (t : Ty) (n : Nat) (b : Bytes) (vs : Vals) (r : Bytes),
    decElems S fuel d t n b = .ok (vs, r) →
      r <:+ b ∧ vs.length = n ∧ (encElems S t vs).isSome = true

theorem isSome_some {α} {o : Option α} (h : o.isSome = true) : ∃ x, o = some x := by
  cases o with
  | none => cases h
  | some x => exact ⟨x, rfl⟩

theorem decTy_ok_step (S : Schema) (f : Nat) (hF : DecFieldsOk S f) (hE : DecElemsOk S f) :
    DecTyOk S (f + 1) := by
  intro d t b v r h
  cases t with
  | int =>
    simp only [decTy] at h
    cases h1 : getU32 b with
    | error e => simp [h1] at h
    | ok p =>
      obtain ⟨n, r1⟩ := p
      simp only [h1] at h
      injection h with h; injection h with h2 h3; subst h2 h3
      exact ⟨getU32_suffix h1, by simp [encTy, getU32_lt h1]⟩
  | long =>
    simp only [decTy] at h
    cases h1 : getU64 b with
    | error e => simp [h1] at h
    | ok p =>
      obtain ⟨n, r1⟩ := p
      simp only [h1] at h
      injection h with h; injection h with h2 h3; subst h2 h3
      exact ⟨getU64_suffix h1, by simp [encTy, getU64_lt h1]⟩
  | double =>
    simp only [decTy] at h
    cases h1 : getU64 b with
    | error e => simp [h1] at h
    | ok p =>
      obtain ⟨n, r1⟩ := p
      simp only [h1] at h
      injection h with h; injection h with h2 h3; subst h2 h3
      exact ⟨getU64_suffix h1, by simp [encTy, getU64_lt h1]⟩
  | int128 =>
    simp only [decTy] at h
    cases h1 : getN 16 b with
    | error e => simp [h1] at h
    | ok p =>
      obtain ⟨x, r1⟩ := p
      simp only [h1] at h
      injection h with h; injection h with h2 h3; subst h2 h3
      exact ⟨getN_suffix h1, by simp [encTy, (getN_ok h1).1]⟩
  | int256 =>
    simp only [decTy] at h
    cases h1 : getN 32 b with
    | error e => simp [h1] at h
    | ok p =>
      obtain ⟨x, r1⟩ := p
      simp only [h1] at h
      injection h with h; injection h with h2 h3; subst h2 h3
      exact ⟨getN_suffix h1, by simp [encTy, (getN_ok h1).1]⟩
  | str =>
    simp only [decTy] at h
    cases h1 : getBytes b with
    | error e => simp [h1] at h
    | ok p =>
      obtain ⟨x, r1⟩ := p
      simp only [h1] at h
      injection h with h; injection h with h2 h3; subst h2 h3
      exact ⟨getBytes_suffix h1, by simp [encTy, (getBytes_ok_consumed h1).2.1]⟩
  | bool =>
    simp only [decTy] at h
    cases h1 : getBool b with
    | error e => simp [h1] at h
    | ok p =>
      obtain ⟨x, r1⟩ := p
      simp only [h1] at h
      injection h with h; injection h with h2 h3; subst h2 h3
      exact ⟨getBool_suffix h1, by simp [encTy]⟩
  | trueFlag => simp [decTy] at h
  | flags => simp [decTy] at h
  | generic =>
    simp only [decTy] at h
    cases hg : S.generic with
    | none => simp [hg] at h
    | some c =>
      simp only [hg] at h
      cases h3 : S.ctors[c]? with
      | none => simp [h3] at h
      | some ct =>
        simp only [h3] at h
        cases hid : ct.id with
        | none => simp [hid] at h
        | some id =>
          simp only [hid] at h
          cases h1 : consumeID id b with
          | error e => simp [h1] at h
          | ok p =>
            obtain ⟨u, r1⟩ := p
            simp only [h1] at h
            cases h4 : decFields S f d [] ct.fields r1 with
            | error e => simp [h4] at h
            | ok q =>
              obtain ⟨fs, r2⟩ := q
              simp only [h4] at h
              injection h with h; injection h with h5 h6; subst h5 h6
              obtain ⟨hs, he⟩ := hF d [] ct.fields r1 fs r2 h4
              obtain ⟨e, he'⟩ := isSome_some he
              exact ⟨hs.trans (consumeID_suffix h1), by simp [encTy, hg, h3, hid, he']⟩
  | boxed i =>
    simp only [decTy] at h
    cases h1 : getU32 b with
    | error e => simp [h1] at h
    | ok p =>
      obtain ⟨id, r1⟩ := p
      simp only [h1] at h
      cases d with
      | zero => simp at h
      | succ d' =>
      simp only at h
      cases h2 : findCtor S i id with
      | none => simp [h2] at h
      | some c =>
        simp only [h2] at h
        cases h3 : S.ctors[c]? with
        | none => simp [h3] at h
        | some ct =>
          simp only [h3] at h
          cases h4 : decFields S f d' [] ct.fields r1 with
          | error e => simp [h4] at h
          | ok q =>
            obtain ⟨fs, r2⟩ := q
            simp only [h4] at h
            injection h with h; injection h with h5 h6; subst h5 h6
            obtain ⟨hs, he⟩ := hF d' [] ct.fields r1 fs r2 h4
            obtain ⟨hi, hid⟩ := findCtor_ok h2
            have hcid : ct.id = some id := by simpa [ctorId, h3] using hid
            obtain ⟨e, he'⟩ := isSome_some he
            exact ⟨hs.trans (getU32_suffix h1), by simp [encTy, hi, h3, hcid, he']⟩
  | ctor c bare =>
    simp only [decTy] at h
    cases h3 : S.ctors[c]? with
    | none => simp [h3] at h
    | some ct =>
      simp only [h3] at h
      cases bare with
      | true =>
        simp only [if_true] at h
        cases h4 : decFields S f d [] ct.fields b with
        | error e => simp [h4] at h
        | ok q =>
          obtain ⟨fs, r2⟩ := q
          simp only [h4] at h
          injection h with h; injection h with h5 h6; subst h5 h6
          obtain ⟨hs, he⟩ := hF d [] ct.fields b fs r2 h4
          obtain ⟨e, he'⟩ := isSome_some he
          exact ⟨hs, by simp [encTy, h3, he']⟩
      | false =>
        simp only [Bool.false_eq_true, if_false] at h
        cases hid : ct.id with
        | none => simp [hid] at h
        | some id =>
          simp only [hid] at h
          cases h1 : consumeID id b with
          | error e => simp [h1] at h
          | ok p =>
            obtain ⟨u, r1⟩ := p
            simp only [h1] at h
            cases h4 : decFields S f d [] ct.fields r1 with
            | error e => simp [h4] at h
            | ok q =>
              obtain ⟨fs, r2⟩ := q
              simp only [h4] at h
              injection h with h; injection h with h5 h6; subst h5 h6
              obtain ⟨hs, he⟩ := hF d [] ct.fields r1 fs r2 h4
              obtain ⟨e, he'⟩ := isSome_some he
              exact ⟨hs.trans (consumeID_suffix h1), by simp [encTy, h3, hid, he']⟩
  | vec bareHdr t =>
    simp only [decTy] at h
    cases bareHdr with
    | true =>
      simp only [if_true] at h
      cases h1 : getBareLen b with
      | error e => simp [h1] at h
      | ok p =>
        obtain ⟨n, r1⟩ := p
        simp only [h1] at h
        cases h4 : decElems S f d t n r1 with
        | error e => simp [h4] at h
        | ok q =>
          obtain ⟨xs, r2⟩ := q
          simp only [h4] at h
          injection h with h; injection h with h5 h6; subst h5 h6
          obtain ⟨hs, hl, he⟩ := hE d t n r1 xs r2 h4
          obtain ⟨e, he'⟩ := isSome_some he
          obtain ⟨hs1, hn⟩ := getBareLen_ok h1
          exact ⟨hs.trans hs1, by simp [encTy, hl, hn, he']⟩
    | false =>
      simp only [Bool.false_eq_true, if_false] at h
      cases h1 : getVectorHeader b with
      | error e => simp [h1] at h
      | ok p =>
        obtain ⟨n, r1⟩ := p
        simp only [h1] at h
        cases h4 : decElems S f d t n r1 with
        | error e => simp [h4] at h
        | ok q =>
          obtain ⟨xs, r2⟩ := q
          simp only [h4] at h
          injection h with h; injection h with h5 h6; subst h5 h6
          obtain ⟨hs, hl, he⟩ := hE d t n r1 xs r2 h4
          obtain ⟨e, he'⟩ := isSome_some he
          obtain ⟨hs1, hn⟩ := getVectorHeader_ok h1
          exact ⟨hs.trans hs1, by simp [encTy, hl, hn, he']⟩

theorem decFields_ok_step (S : Schema) (f : Nat) (hT : DecTyOk S f) (hF : DecFieldsOk S f) :
    DecFieldsOk S (f + 1) := by
  intro d env fs b vs r h
  cases fs with
  | nil =>
    simp only [decFields] at h
    injection h with h; injection h with h1 h2; subst h1 h2
    exact ⟨List.suffix_refl _, by simp [encFields]⟩
  | cons fld rest =>
    simp only [decFields] at h
    cases hc : fld.cond with
    | some kb =>
      obtain ⟨k, bit⟩ := kb
      simp only [hc] at h
      by_cases htf : fld.ty = .trueFlag
      · simp only [htf, if_true] at h
        cases h4 : decFields S f d env rest b with
        | error e => simp [h4] at h
        | ok q =>
          obtain ⟨ws, r2⟩ := q
          simp only [h4] at h
          injection h with h; injection h with h5 h6; subst h5 h6
          obtain ⟨hs, he⟩ := hF d env rest b ws r2 h4
          exact ⟨hs, by simp [encFields, hc, htf, Val.bool?, he]⟩
      · simp only [htf, if_false] at h
        cases hp : hasBit (envWord env k) bit with
        | true =>
          simp only [hp, if_true] at h
          cases h1 : decTy S f d fld.ty b with
          | error e => simp [h1] at h
          | ok p =>
            obtain ⟨v, r1⟩ := p
            simp only [h1] at h
            cases h4 : decFields S f d env rest r1 with
            | error e => simp [h4] at h
            | ok q =>
              obtain ⟨ws, r2⟩ := q
              simp only [h4] at h
              injection h with h; injection h with h5 h6; subst h5 h6
              obtain ⟨hs1, he1⟩ := hT d fld.ty b v r1 h1
              obtain ⟨hs, he⟩ := hF d env rest r1 ws r2 h4
              obtain ⟨e1, he1'⟩ := isSome_some he1
              obtain ⟨e2, he2'⟩ := isSome_some he
              exact ⟨hs.trans hs1, by simp [encFields, hc, htf, hp, he1', he2']⟩
        | false =>
          simp only [hp, Bool.false_eq_true, if_false] at h
          cases h4 : decFields S f d env rest b with
          | error e => simp [h4] at h
          | ok q =>
            obtain ⟨ws, r2⟩ := q
            simp only [h4] at h
            injection h with h; injection h with h5 h6; subst h5 h6
            obtain ⟨hs, he⟩ := hF d env rest b ws r2 h4
            exact ⟨hs, by simp [encFields, hc, htf, hp, Val.isAbsent, he]⟩
    | none =>
      simp only [hc] at h
      by_cases hfl : fld.ty = .flags
      · simp only [hfl, if_true] at h
        cases h1 : getU32 b with
        | error e => simp [h1] at h
        | ok p =>
          obtain ⟨n, r1⟩ := p
          simp only [h1] at h
          cases h4 : decFields S f d (env ++ [n]) rest r1 with
          | error e => simp [h4] at h
          | ok q =>
            obtain ⟨ws, r2⟩ := q
            simp only [h4] at h
            injection h with h; injection h with h5 h6; subst h5 h6
            obtain ⟨hs, he⟩ := hF d (env ++ [n]) rest r1 ws r2 h4
            obtain ⟨e2, he2'⟩ := isSome_some he
            exact ⟨hs.trans (getU32_suffix h1), by simp [encFields, hc, hfl, Val.word?, getU32_lt h1, he2']⟩
      · simp only [hfl, if_false] at h
        cases h1 : decTy S f d fld.ty b with
        | error e => simp [h1] at h
        | ok p =>
          obtain ⟨v, r1⟩ := p
          simp only [h1] at h
          cases h4 : decFields S f d env rest r1 with
          | error e => simp [h4] at h
          | ok q =>
            obtain ⟨ws, r2⟩ := q
            simp only [h4] at h
            injection h with h; injection h with h5 h6; subst h5 h6
            obtain ⟨hs1, he1⟩ := hT d fld.ty b v r1 h1
            obtain ⟨hs, he⟩ := hF d env rest r1 ws r2 h4
            obtain ⟨e1, he1'⟩ := isSome_some he1
            obtain ⟨e2, he2'⟩ := isSome_some he
            exact ⟨hs.trans hs1, by simp [encFields, hc, hfl, he1', he2']⟩

theorem decElems_ok_step (S : Schema) (f : Nat) (hT : DecTyOk S f) (hE : DecElemsOk S f) :
    DecElemsOk S (f + 1) := by
  intro d t n b vs r h
  cases n with
  | zero =>
    simp only [decElems] at h
    injection h with h; injection h with h1 h2; subst h1 h2
    exact ⟨List.suffix_refl _, rfl, by simp [encElems]⟩
  | succ m =>
    simp only [decElems] at h
    cases h1 : decTy S f d t b with
    | error e => simp [h1] at h
    | ok p =>
      obtain ⟨v, r1⟩ := p
      simp only [h1] at h
      cases h4 : decElems S f d t m r1 with
      | error e => simp [h4] at h
      | ok q =>
        obtain ⟨ws, r2⟩ := q
        simp only [h4] at h
        injection h with h; injection h with h5 h6; subst h5 h6
        obtain ⟨hs1, he1⟩ := hT d t b v r1 h1
        obtain ⟨hs, hl, he⟩ := hE d t m r1 ws r2 h4
        obtain ⟨e1, he1'⟩ := isSome_some he1
        obtain ⟨e2, he2'⟩ := isSome_some he
        exact ⟨hs.trans hs1, by simp [Vals.length, hl], by simp [encElems, he1', he2']⟩

theorem dec_ok_all (S : Schema) : ∀ fuel, DecTyOk S fuel ∧ DecFieldsOk S fuel ∧ DecElemsOk S fuel := by
  intro fuel
  induction fuel with
  | zero =>
    refine ⟨?_, ?_, ?_⟩
    · intro d t b v r h; simp [decTy] at h
    · intro d env fs b vs r h; simp [decFields] at h
    · intro d t n b vs r h; simp [decElems] at h
  | succ f ih =>
    obtain ⟨hT, hF, hE⟩ := ih
    exact ⟨decTy_ok_step S f hF hE, decFields_ok_step S f hT hF, decElems_ok_step S f hT hE⟩

end TdModel.C21
