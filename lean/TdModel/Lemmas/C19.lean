/-
C19 — lemmas about the FakeTLS model: chunking of a write, record round trip, the stream delivered
by reads, suffix property of the hello parser.  Core Lean only.
-/
import TdModel.Model.C19

namespace TdModel.C19
open TdModel

theorem maxRecord_eq : maxRecord = 65535 := by decide

/-- The translated cut condition and position mean "more than 65 535 bytes" / "65 535". -/
theorem splitNeeded_eq (n : Nat) : splitNeeded n = decide (n > 65535) := by
  unfold splitNeeded Facts.C19.splitNeeded
  rw [Bool.eq_iff_iff]; simp; omega
theorem splitAt_eq : splitAt = 65535 := by decide

/-! ### `FakeTLS.Write` chunking -/

theorem chunksF_flatten : ∀ (fuel : Nat) (b : Bytes), (chunksF fuel b).flatten = b := by
  intro fuel
  induction fuel with
  | zero => intro b; simp [chunksF]
  | succ f ih =>
    intro b
    simp only [chunksF]
    split
    · simp [ih]
    · simp

theorem chunksF_le : ∀ (fuel : Nat) (b : Bytes), b.length ≤ fuel → ∀ c ∈ chunksF fuel b, c.length ≤ 65535 := by
  intro fuel
  induction fuel with
  | zero =>
    intro b hb c hc
    simp only [chunksF, List.mem_singleton] at hc
    subst hc; omega
  | succ f ih =>
    intro b hb c hc
    simp only [chunksF, splitNeeded_eq, splitAt_eq, decide_eq_true_eq] at hc
    split at hc
    · rename_i h
      simp only [List.mem_cons] at hc
      rcases hc with hc | hc
      · subst hc; simp only [List.length_take]; omega
      · exact ih (b.drop 65535) (by simp only [List.length_drop]; omega) c hc
    · rename_i h
      simp only [List.mem_singleton] at hc
      subst hc; omega

theorem chunks_flatten (b : Bytes) : (chunks b).flatten = b := chunksF_flatten _ _
theorem chunks_le (b : Bytes) : ∀ c ∈ chunks b, c.length ≤ 65535 := chunksF_le _ _ (Nat.le_refl _)

/-! ### One record -/

theorem u8_toNat_ofNat (n : Nat) (h : n < 256) : (UInt8.ofNat n).toNat = n := by
  simp [UInt8.toNat_ofNat']; omega

theorem fromBE16_be16 (n : Nat) (h : n < 65536) : fromBE16 (be16 n) = n := by
  simp only [be16, fromBE16]
  rw [u8_toNat_ofNat _ (by omega), u8_toNat_ofNat _ (by omega)]
  omega

theorem be16_length (n : Nat) : (be16 n).length = 2 := rfl

theorem readRecord_record (ty : UInt8) (ver data rest : Bytes) (hv : ver ∈ versions) (hvl : ver.length = 2)
    (hd : data.length ≤ 65535) :
    readRecord (record ty ver data ++ rest) = .ok (⟨ty, ver, data⟩, rest) := by
  match ver, hvl with
  | [v0, v1], _ =>
    unfold readRecord record
    have hlen : ¬ (ty :: [v0, v1] ++ be16 data.length ++ data ++ rest).length < 5 := by
      simp [be16_length]
    simp only [hlen, if_false]
    have hver : List.take 2 (List.drop 1 (ty :: [v0, v1] ++ be16 data.length ++ data ++ rest)) = [v0, v1] := by
      simp [be16]
    have hl : List.take 2 (List.drop 3 (ty :: [v0, v1] ++ be16 data.length ++ data ++ rest)) = be16 data.length := by
      simp [be16]
    have hrest : List.drop 5 (ty :: [v0, v1] ++ be16 data.length ++ data ++ rest) = data ++ rest := by
      simp [be16]
    simp only [hver, hl, hrest]
    have hnv : ¬ ([v0, v1] ∉ versions) := by simpa using hv
    simp only [hnv, if_false]
    rw [fromBE16_be16 _ (by omega)]
    have : ¬ (data ++ rest).length < data.length := by simp
    simp only [this, if_false]
    simp

theorem writeVersion_mem : writeVersion ∈ versions := by decide
theorem writeVersion_len : writeVersion.length = 2 := by decide
theorem tCCS_ne_tApp : tCCS ≠ tApp := by decide
theorem tApp_ne_tCCS : ¬ tApp = tCCS := by decide
theorem tHs_ne_tCCS : ¬ tHandshake = tCCS := by decide
theorem tHs_ne_tApp : ¬ tHandshake = tApp := by decide
/-- The interpreted `switch rec.Type` table says: ChangeCipherSpec is skipped, application data is
delivered, a handshake record is the "handshake" error. -/
theorem act_CCS : actionOf tCCS = .skip := by decide
theorem act_App : actionOf tApp = .deliver := by decide
theorem act_Hs : actionOf tHandshake = .errHandshake := by decide

/-! ### What reads deliver from a stream of ChangeCipherSpec / application records -/

/-- A record list as `FakeTLS.Write` produces them: `true` = application data, `false` = the
first-packet ChangeCipherSpec. -/
def recBytes (r : Bool × Bytes) : Bytes :=
  record (if r.1 then tApp else tCCS) writeVersion r.2

def appOf (r : Bool × Bytes) : Bytes := if r.1 then r.2 else []

theorem appData_records : ∀ (rs : List (Bool × Bytes)) (fuel : Nat),
    (∀ r ∈ rs, r.2.length ≤ 65535) → rs.length < fuel →
    appData fuel ((rs.map recBytes).flatten) = ((rs.map appOf).flatten, .eof) := by
  intro rs
  induction rs with
  | nil =>
    intro fuel _ hf
    cases fuel with
    | zero => omega
    | succ f => simp [appData, readRecord]
  | cons r rs ih =>
    intro fuel hv hf
    cases fuel with
    | zero => omega
    | succ f =>
      have hr := hv r (List.mem_cons_self ..)
      have hrest := ih f (fun q hq => hv q (List.mem_cons_of_mem _ hq)) (by simp only [List.length_cons] at hf; omega)
      simp only [List.map_cons, List.flatten_cons, appData, recBytes]
      rw [readRecord_record _ _ _ _ writeVersion_mem writeVersion_len hr]
      simp only
      cases hb : r.1 with
      | true =>
        simp only [if_true, act_App]
        rw [hrest]
        simp [appOf, hb]
      | false =>
        simp only [Bool.false_eq_true, if_false, act_CCS]
        rw [hrest]
        simp [appOf, hb]

/-- The records of a sequence of writes (repaired writer). -/
def recsOf : Bool → List Bytes → List (Bool × Bytes)
  | _, [] => []
  | first, b :: bs => (if first then [] else [(false, [1])]) ++ (chunks b).map (fun c => (true, c)) ++ recsOf true bs

theorem writeAllWith_split_eq : ∀ (ws : List Bytes) (first : Bool),
    writeAllWith writeSplit first ws = ((recsOf first ws).map recBytes).flatten := by
  intro ws
  induction ws with
  | nil => intro _; rfl
  | cons b bs ih =>
    intro first
    simp only [writeAllWith, recsOf, ih, List.map_append, List.flatten_append, List.map_map]
    congr 1
    congr 1
    · cases first <;> simp [firstPacket, recBytes]

theorem recsOf_app : ∀ (ws : List Bytes) (first : Bool), ((recsOf first ws).map appOf).flatten = ws.flatten := by
  intro ws
  induction ws with
  | nil => intro _; rfl
  | cons b bs ih =>
    intro first
    simp only [recsOf, List.map_append, List.flatten_append, ih, List.flatten_cons, List.map_map]
    have h1 : (List.map appOf (if first = true then [] else [(false, [1])])).flatten = [] := by
      cases first <;> simp [appOf]
    have h2 : (List.map (appOf ∘ fun c => (true, c)) (chunks b)).flatten = b := by
      have : (appOf ∘ fun c => ((true, c) : Bool × Bytes)) = id := by funext c; simp [appOf]
      rw [this, List.map_id, chunks_flatten]
    rw [h1, h2]; simp

theorem recsOf_le : ∀ (ws : List Bytes) (first : Bool), ∀ r ∈ recsOf first ws, r.2.length ≤ 65535 := by
  intro ws
  induction ws with
  | nil => intro _ r hr; simp [recsOf] at hr
  | cons b bs ih =>
    intro first r hr
    simp only [recsOf, List.mem_append, List.mem_map] at hr
    rcases hr with (hr | ⟨c, hc, rfl⟩) | hr
    · cases first <;> simp at hr
      subst hr; simp
    · exact chunks_le b c hc
    · exact ih true r hr

theorem recBytes_length (r : Bool × Bytes) : 5 ≤ (recBytes r).length := by
  simp [recBytes, record, writeVersion_len, be16_length]; omega

theorem records_length_le : ∀ rs : List (Bool × Bytes), rs.length ≤ ((rs.map recBytes).flatten).length := by
  intro rs
  induction rs with
  | nil => simp
  | cons r rs ih =>
    have := recBytes_length r
    simp only [List.map_cons, List.flatten_cons, List.length_append, List.length_cons]
    omega

/-! ### `readRecord` consumes a prefix; `appData` does not depend on its fuel -/

theorem readRecord_rest {s rest : Bytes} {r : Rec} (h : readRecord s = .ok (r, rest)) :
    rest.length + 5 + r.data.length = s.length ∧ s = s.take (5 + r.data.length) ++ rest := by
  unfold readRecord at h
  split at h
  · simp at h
  · simp only at h
    split at h
    · simp at h
    · split at h
      · simp at h
      · rename_i h5 _ hl
        simp only [Except.ok.injEq, Prod.mk.injEq] at h
        obtain ⟨hr, hrest⟩ := h
        subst hr hrest
        simp only [List.length_drop, List.length_take] at *
        constructor
        · omega
        · have hmin : min (fromBE16 (List.take 2 (List.drop 3 s))) (s.length - 5) = fromBE16 (List.take 2 (List.drop 3 s)) := by omega
          rw [hmin, List.drop_drop]
          exact (List.take_append_drop _ s).symm

theorem appData_fuel : ∀ (f1 f2 : Nat) (s : Bytes), s.length < f1 → s.length < f2 → appData f1 s = appData f2 s := by
  intro f1
  induction f1 with
  | zero => intro f2 s h; omega
  | succ f ih =>
    intro f2 s h1 h2
    cases f2 with
    | zero => omega
    | succ g =>
      simp only [appData]
      cases hr : readRecord s with
      | error e => rfl
      | ok v =>
        obtain ⟨r, rest⟩ := v
        have hl := (readRecord_rest hr).1
        have := ih g rest (by omega) (by omega)
        simp only [this]

/-- Everything the reads deliver from connection stream `s`, and the terminating error. -/
def delivered (s : Bytes) : Bytes × Err := appData (s.length + 1) s

theorem delivered_step (s : Bytes) :
    delivered s = match readRecord s with
      | .error e => ([], e)
      | .ok (r, rest) =>
        match actionOf r.ty with
        | .skip => delivered rest
        | .deliver => (r.data ++ (delivered rest).1, (delivered rest).2)
        | .errHandshake => ([], .handshake)
        | .errOther => ([], .unsupported r.ty.toNat) := by
  unfold delivered
  rw [appData]
  cases hr : readRecord s with
  | error e => rfl
  | ok v =>
    obtain ⟨r, rest⟩ := v
    have hl := (readRecord_rest hr).1
    simp only [appData_fuel s.length (rest.length + 1) rest (by omega) (by omega)]
    cases actionOf r.ty <;> rfl

/-- One `Read` call: returns a non-empty piece (for a non-empty buffer argument) of at most `k`
bytes of what is pending, and leaves the rest pending; whatever `k` is. -/
theorem readCall_ok : ∀ (fuel k : Nat) (st st' : RState) (out : Bytes), st.conn.length < fuel →
    readCall fuel k st = .ok (out, st') →
    st.buf ++ (delivered st.conn).1 = out ++ (st'.buf ++ (delivered st'.conn).1)
      ∧ (delivered st'.conn).2 = (delivered st.conn).2 ∧ out.length ≤ k ∧ (0 < k → out ≠ []) := by
  intro fuel
  induction fuel with
  | zero => intro k st st' out h; omega
  | succ f ih =>
    intro k st st' out hf h
    simp only [readCall] at h
    split at h
    · rename_i hb
      simp only [Except.ok.injEq, Prod.mk.injEq] at h
      obtain ⟨ho, hs⟩ := h
      subst ho hs
      refine ⟨by simp [← List.append_assoc], rfl, by simp only [List.length_take]; omega, ?_⟩
      intro hk hcontra
      cases hbuf : st.buf with
      | nil => exact hb hbuf
      | cons x xs =>
        rw [hbuf] at hcontra
        cases k with
        | zero => omega
        | succ k => simp at hcontra
    · rename_i hb
      have hbuf : st.buf = [] := by simpa using hb
      rw [delivered_step st.conn]
      cases hr : readRecord st.conn with
      | error e => rw [hr] at h; simp at h
      | ok v =>
        obtain ⟨r, rest⟩ := v
        rw [hr] at h
        have hl := (readRecord_rest hr).1
        simp only at h ⊢
        cases ha : actionOf r.ty with
        | skip =>
          rw [ha] at h
          have := ih k { buf := [], conn := rest } st' out (by simp only; omega) h
          simp only [hbuf]
          simpa using this
        | deliver =>
          rw [ha] at h
          have := ih k { buf := r.data, conn := rest } st' out (by simp only; omega) h
          simp only [hbuf, List.nil_append]
          simpa using this
        | errHandshake => rw [ha] at h; simp at h
        | errOther => rw [ha] at h; simp at h

/-- A `Read` call fails only when nothing is pending, and then with the stream's terminating error. -/
theorem readCall_err : ∀ (fuel k : Nat) (st : RState) (e : Err), st.conn.length < fuel →
    readCall fuel k st = .error e → st.buf = [] ∧ delivered st.conn = ([], e) := by
  intro fuel
  induction fuel with
  | zero => intro k st e h; omega
  | succ f ih =>
    intro k st e hf h
    simp only [readCall] at h
    split at h
    · simp at h
    · rename_i hb
      have hbuf : st.buf = [] := by simpa using hb
      refine ⟨hbuf, ?_⟩
      rw [delivered_step st.conn]
      cases hr : readRecord st.conn with
      | error e' => rw [hr] at h; simp only [Except.error.injEq] at h; subst h; rfl
      | ok v =>
        obtain ⟨r, rest⟩ := v
        rw [hr] at h
        have hl := (readRecord_rest hr).1
        simp only at h ⊢
        cases ha : actionOf r.ty with
        | skip =>
          rw [ha] at h
          exact (ih k { buf := [], conn := rest } e (by simp only; omega) h).2
        | deliver =>
          rw [ha] at h
          have := ih k { buf := r.data, conn := rest } e (by simp only; omega) h
          -- a non-empty application record would have been delivered, not failed
          obtain ⟨hd, hrest⟩ := this
          simp only at hd hrest
          simp only [hd, hrest, List.nil_append]
        | errHandshake =>
          rw [ha] at h
          simp only [Except.error.injEq] at h; subst h; rfl
        | errOther =>
          rw [ha] at h
          simp only [Except.error.injEq] at h; subst h; rfl

/-! ### The hello parser consumes a prefix of the stream -/

theorem readRecord_split {s rest : Bytes} {r : Rec} (h : readRecord s = .ok (r, rest)) :
    ∃ a : Bytes, s = a ++ rest ∧ a.length = 5 + r.data.length := by
  obtain ⟨hl, hs⟩ := readRecord_rest h
  exact ⟨s.take (5 + r.data.length), hs, by simp only [List.length_take]; omega⟩

theorem skipToCCS_split : ∀ (n : Nat) (s rest : Bytes), skipToCCS n s = .ok rest → ∃ a : Bytes, s = a ++ rest := by
  intro n
  induction n with
  | zero => intro s rest h; simp [skipToCCS] at h
  | succ n ih =>
    intro s rest h
    simp only [skipToCCS] at h
    cases hr : readRecord s with
    | error e => rw [hr] at h; simp at h
    | ok v =>
      obtain ⟨r, s1⟩ := v
      rw [hr] at h
      obtain ⟨a, ha, _⟩ := readRecord_split hr
      simp only at h
      split at h
      · obtain ⟨b, hb⟩ := ih s1 rest h
        exact ⟨a ++ b, by rw [ha, hb, List.append_assoc]⟩
      · split at h
        · simp only [Except.ok.injEq] at h; subst h; exact ⟨a, ha⟩
        · simp at h

/-- An accepted structure: the consumed packet is a prefix of the stream that reaches at least to the
end of the 32-byte server random at offset 11. -/
theorem helloShape_split {s rest : Bytes} (h : helloShape s = .ok rest) :
    s = packetOf s rest ++ rest ∧ 43 ≤ (packetOf s rest).length := by
  unfold helloShape at h
  cases h1 : readRecord s with
  | error e => rw [h1] at h; simp at h
  | ok v =>
    obtain ⟨hs, s1⟩ := v
    rw [h1] at h
    simp only at h
    split at h
    · simp at h
    · split at h
      · simp at h
      · rename_i hlen
        cases h2 : skipToCCS maxHandshakeRecords s1 with
        | error e => rw [h2] at h; simp at h
        | ok s2 =>
          rw [h2] at h
          simp only at h
          cases h3 : readRecord s2 with
          | error e => rw [h3] at h; simp at h
          | ok w =>
            obtain ⟨cert, s3⟩ := w
            rw [h3] at h
            simp only at h
            split at h
            · simp at h
            · simp only [Except.ok.injEq] at h
              subst h
              obtain ⟨a, ha, hal⟩ := readRecord_split h1
              obtain ⟨b, hb⟩ := skipToCCS_split _ _ _ h2
              obtain ⟨c, hc, _⟩ := readRecord_split h3
              have hs' : s = (a ++ b ++ c) ++ s3 := by rw [ha, hb, hc]; simp
              have hre : randomEnd = 43 := by decide
              rw [hre] at hlen
              have hp : packetOf s s3 = a ++ b ++ c := by
                unfold packetOf
                have hl2 : s.length - s3.length = (a ++ b ++ c).length := by
                  rw [hs']; simp only [List.length_append]; omega
                rw [hl2, hs']
                exact List.take_left' rfl
              rw [hp]
              refine ⟨hs', ?_⟩
              simp only [List.length_append]
              omega

/-! ### The pinned writer -/

theorem readRecord_cons5 (t v0 v1 l0 l1 : UInt8) (rest : Bytes) :
    readRecord (t :: v0 :: v1 :: l0 :: l1 :: rest) =
      if [v0, v1] ∉ versions then .error .badVersion
      else if rest.length < l0.toNat * 256 + l1.toNat then .error (if rest.length = 0 then .eof else .ueof)
      else .ok (⟨t, [v0, v1], rest.take (l0.toNat * 256 + l1.toNat)⟩, rest.drop (l0.toNat * 256 + l1.toNat)) := by
  have h5 : ¬ (t :: v0 :: v1 :: l0 :: l1 :: rest).length < 5 := by simp
  unfold readRecord
  simp only [h5, if_false]
  simp [fromBE16]

/-- Pinned tree: one `Write` of a 65 536-byte buffer starting with five zero bytes produces a record
whose length field is 0; the peer reads nothing and fails with "unknown protocol version". -/
theorem pinned_len0 (L zs : Bytes) (hL : L.length = 65536) (hz : L = 0 :: 0 :: 0 :: 0 :: 0 :: zs) :
    delivered (writeAllWith writePinned false [L]) = ([], .badVersion) := by
  have hb0 : be16 65536 = [0, 0] := by decide
  have hb1 : be16 1 = [0, 1] := by decide
  have hv : writeVersion = [3, 3] := by decide
  have hw : writeAllWith writePinned false [L]
      = tCCS :: 3 :: 3 :: 0 :: 1 :: (1 :: tApp :: 3 :: 3 :: 0 :: 0 :: L) := by
    simp only [writeAllWith, writePinned, firstPacket, record, hL, hb0, hv, List.length_singleton, hb1]
    simp
  have h33 : ¬ ([3, 3] : Bytes) ∉ versions := by decide
  have h00 : ([0, 0] : Bytes) ∉ versions := by decide
  have n01 : (0 : UInt8).toNat * 256 + (1 : UInt8).toNat = 1 := by decide
  have n00 : (0 : UInt8).toNat * 256 + (0 : UInt8).toNat = 0 := by decide
  rw [hw, delivered_step, readRecord_cons5, n01]
  have h1 : ¬ (1 :: tApp :: 3 :: 3 :: 0 :: 0 :: L).length < 1 := by simp
  simp only [h33, h1, if_false, if_true, act_CCS, List.drop_succ_cons, List.drop_zero]
  rw [delivered_step, readRecord_cons5, n00]
  have h2 : ¬ L.length < 0 := by omega
  simp only [h33, h2, if_false, act_App, List.drop_zero, List.take_zero, List.nil_append]
  rw [hz, delivered_step, readRecord_cons5]
  simp [h00]

theorem pinned_65536 :
    delivered (writeAllWith writePinned false [List.replicate 65536 0]) = ([], .badVersion) :=
  pinned_len0 _ (List.replicate 65531 0) List.length_replicate rfl

/-! ### ClientHello -/

theorem xorBytes_append : ∀ (a c b d : Bytes), a.length = c.length →
    xorBytes (a ++ b) (c ++ d) = xorBytes a c ++ xorBytes b d := by
  intro a
  induction a with
  | nil => intro c b d h; cases c with
    | nil => rfl
    | cons _ _ => simp at h
  | cons x xs ih => intro c b d h; cases c with
    | nil => simp at h
    | cons y ys =>
      simp only [List.length_cons, Nat.add_right_cancel_iff] at h
      simp [xorBytes, ih ys b d h]

theorem xorBytes_self : ∀ a : Bytes, xorBytes a a = List.replicate a.length 0 := by
  intro a
  induction a with
  | nil => rfl
  | cons x xs ih => simp [xorBytes, ih, List.replicate_succ]

theorem xorBytes_cancel : ∀ (x t : Bytes), x.length = t.length → xorBytes (xorBytes x t) x = t := by
  intro x
  induction x with
  | nil => intro t h; cases t with
    | nil => rfl
    | cons _ _ => simp at h
  | cons a as ih => intro t h; cases t with
    | nil => simp at h
    | cons b bs =>
      simp only [List.length_cons, Nat.add_right_cancel_iff] at h
      simp only [xorBytes, ih bs h, List.cons.injEq, and_true]
      rw [UInt8.xor_comm a b, UInt8.xor_assoc, UInt8.xor_self, UInt8.xor_zero]

theorem xorBytes_length : ∀ (a b : Bytes), a.length = b.length → (xorBytes a b).length = a.length := by
  intro a
  induction a with
  | nil => intro b _; cases b <;> rfl
  | cons x xs ih => intro b h; cases b with
    | nil => simp at h
    | cons y ys =>
      simp only [List.length_cons, Nat.add_right_cancel_iff] at h
      simp [xorBytes, ih ys h]

theorem tsBytes_length (now : Int) : (tsBytes now).length = 4 := rfl

theorem cro : clientRandomOffset = 11 := by decide
theorem crl : clientRandomLength = 32 := by decide

theorem zeroRandom_splice (record mid : Bytes) (hr : 43 ≤ record.length) (hm : mid.length = 32) :
    zeroRandom (record.take 11 ++ mid ++ record.drop 43) = zeroRandom record := by
  unfold zeroRandom
  rw [cro, crl]
  have ht : (record.take 11).length = 11 := by simp only [List.length_take]; omega
  have h1 : (record.take 11 ++ mid ++ record.drop 43).take 11 = record.take 11 := by
    rw [List.append_assoc]; exact List.take_left' ht
  have h2 : (record.take 11 ++ mid ++ record.drop 43).drop (11 + 32) = record.drop 43 := by
    exact List.drop_left' (by simp only [List.length_append, ht, hm])
  rw [h1, h2]

/-- What `writeClientHello` writes: same length, only the random field differs from the generated
record, the returned random is the field's content, and HMAC(secret, record with zeroed random) XOR
random = 28 zero bytes followed by the little-endian Unix time — the equation an MTProxy server checks. -/
theorem finishClientHello_spec (hmac : Bytes → Bytes → Bytes) (secret : Bytes) (now : Int) (record out rnd : Bytes)
    (hlen : ∀ k m, (hmac k m).length = 32)
    (h : finishClientHello hmac secret now record = .ok (out, rnd)) :
    out.length = record.length ∧ zeroRandom out = zeroRandom record ∧ (out.drop 11).take 32 = rnd ∧
    xorBytes rnd (hmac secret (zeroRandom out)) = List.replicate 28 0 ++ tsBytes now := by
  unfold finishClientHello at h
  rw [cro, crl] at h
  split at h
  · simp at h
  · rename_i hl
    simp only [Except.ok.injEq, Prod.mk.injEq] at h
    obtain ⟨ho, hr⟩ := h
    have hl' : 43 ≤ record.length := by omega
    generalize hH : hmac secret (zeroRandom record) = H at *
    have hHl : H.length = 32 := by rw [← hH]; exact hlen _ _
    have hd : H.take 32 = H := List.take_of_length_le (by omega)
    rw [hd] at ho hr
    have h28 : (H.take (32 - 4)).length = 28 := by simp only [List.length_take]; omega
    have h4 : (H.drop (32 - 4)).length = 4 := by simp only [List.length_drop]; omega
    have hxl : (xorBytes (H.drop (32 - 4)) (tsBytes now)).length = 4 := by
      rw [xorBytes_length _ _ (by rw [h4]; rfl), h4]
    have hrl : rnd.length = 32 := by
      rw [← hr]
      simp only [List.length_append, h28, hxl]
    have hz : zeroRandom out = zeroRandom record := by
      rw [← ho, hr]; exact zeroRandom_splice record rnd hl' hrl
    refine ⟨?_, hz, ?_, ?_⟩
    · rw [← ho, hr]
      simp only [List.length_append, List.length_take, List.length_drop, hrl]; omega
    · rw [← ho, hr]
      have ht : (record.take 11).length = 11 := by simp only [List.length_take]; omega
      rw [List.append_assoc, List.drop_left' ht]
      exact List.take_left' hrl
    · rw [hz, hH, ← hr]
      have hsplit : H = H.take (32 - 4) ++ H.drop (32 - 4) := (List.take_append_drop _ _).symm
      conv => lhs; arg 2; rw [hsplit]
      rw [xorBytes_append _ _ _ _ rfl, xorBytes_self, h28,
        xorBytes_cancel _ _ (by rw [h4]; rfl)]

end TdModel.C19
