/-
Lemmas for the bind-message part of C06.
-/
import TdModel.Model.C06Bind
import TdModel.Lemmas.C06
import TdModel.Lemmas.C04Ige
import TdModel.Lemmas.Bin

namespace TdModel.C06
open TdModel TdModel.Bin

/-- The interpreted inner encoder is `bind_auth_key_inner#75a3f765 nonce:long temp_auth_key_id:long
perm_auth_key_id:long temp_session_id:long expires_at:int`. -/
theorem BindInner.encode_def (i : BindInner) :
    i.encode = putU32 Facts.C06.bindInnerTypeID ++ putU64 i.nonce ++ putU64 i.tempAuthKeyID ++
      putU64 i.permAuthKeyID ++ putU64 i.tempSessionID ++ putU32 i.expiresAt := by
  simp [BindInner.encode, bindPuts, Facts.C06.bindInnerEncode, bindVal]

/-- The interpreted envelope is `random:int128 msg_id:long seq_no:int(0) msg_len:int message`. -/
theorem bindEnvelope_def (i : BindInner) (msgID : Nat) (random payload : Bytes) :
    bindPuts Facts.C06.bindEnvelope i msgID random payload =
      random ++ putU64 msgID ++ putU32 0 ++ putU32 payload.length ++ payload := by
  simp [bindPuts, Facts.C06.bindEnvelope, bindVal, bindRaw]

theorem BindInner.encode_length (i : BindInner) : i.encode.length = 40 := by
  simp [BindInner.encode_def, putU32_length, putU64_length]

theorem parseInner_encode (i : BindInner) (h1 : i.nonce < 2 ^ 64) (h2 : i.tempAuthKeyID < 2 ^ 64)
    (h3 : i.permAuthKeyID < 2 ^ 64) (h4 : i.tempSessionID < 2 ^ 64) (h5 : i.expiresAt < 2 ^ 32) :
    Spec.parseInner i.encode = some i := by
  rw [BindInner.encode_def]
  unfold Spec.parseInner
  have ht : Facts.C06.bindInnerTypeID = 0x75a3f765 := by decide
  rw [ht]
  simp only [List.append_assoc]
  rw [consumeID_putU32 _ _ (by omega)]
  simp only
  rw [getU64_putU64 _ _ h1]
  simp only
  rw [getU64_putU64 _ _ h2]
  simp only
  rw [getU64_putU64 _ _ h3]
  simp only
  rw [getU64_putU64 _ _ h4]
  simp only
  have := getU32_putU32 i.expiresAt [] h5
  rw [List.append_nil] at this
  rw [this]

/-- The receiving side accepts a well-formed envelope encrypted under the v1 keys of its `msg_key`. -/
theorem decryptBind_envelope (P : Prims) (hP : LawfulPrims P) (permKey keyId rnd16 pad : Bytes)
    (msgID : Nat) (inner : BindInner)
    (hk : keyId.length = 8) (hr : rnd16.length = 16) (hpad : pad.length = 8) (hm : msgID < 2 ^ 64)
    (h1 : inner.nonce < 2 ^ 64) (h2 : inner.tempAuthKeyID < 2 ^ 64)
    (h3 : inner.permAuthKeyID < 2 ^ 64) (h4 : inner.tempSessionID < 2 ^ 64) (h5 : inner.expiresAt < 2 ^ 32) :
    let message := rnd16 ++ putU64 msgID ++ putU32 0 ++ putU32 40 ++ inner.encode
    let msgKey := Spec.msgKeyV1 P message
    let kiv := Spec.keysV1 P permKey msgKey
    Spec.decryptBind P permKey keyId (keyId ++ msgKey ++ Ige.enc (P.aesEnc kiv.1) kiv.2 (message ++ pad))
      = some (msgID, inner) := by
  intro message msgKey kiv
  have hmk : msgKey.length = 16 := by simp [msgKey, Spec.msgKeyV1, substr_length, hP.sha1_len]
  have hml : message.length = 72 := by
    simp [message, putU32_length, putU64_length, BindInner.encode_length, hr]
  have hiv : kiv.2.length = 32 := by
    simp [kiv, Spec.keysV1, Spec.keysV1At, substr_length, hP.sha1_len]
  have hpl : (message ++ pad).length % 16 = 0 := by simp [hml, hpad]
  have hel := Ige.enc_length (P.aesEnc kiv.1) (hP.aesEnc_len _) kiv.2 (message ++ pad) hiv hpl
  unfold Spec.decryptBind
  have c1 : ¬ ((keyId ++ msgKey ++ Ige.enc (P.aesEnc kiv.1) kiv.2 (message ++ pad)).length < 24 ∨
      (keyId ++ msgKey ++ Ige.enc (P.aesEnc kiv.1) kiv.2 (message ++ pad)).take 8 ≠ keyId ∨
      ((keyId ++ msgKey ++ Ige.enc (P.aesEnc kiv.1) kiv.2 (message ++ pad)).length - 24) % 16 ≠ 0) := by
    rw [List.append_assoc, take_append_len _ _ 8 hk]
    simp [hk, hmk, hel, hml, hpad]
  rw [if_neg c1]
  have d8 : (keyId ++ msgKey ++ Ige.enc (P.aesEnc kiv.1) kiv.2 (message ++ pad)).drop 8
      = msgKey ++ Ige.enc (P.aesEnc kiv.1) kiv.2 (message ++ pad) := by
    rw [List.append_assoc, drop_append_len _ _ 8 hk]
  have d24 : (keyId ++ msgKey ++ Ige.enc (P.aesEnc kiv.1) kiv.2 (message ++ pad)).drop 24
      = Ige.enc (P.aesEnc kiv.1) kiv.2 (message ++ pad) := by
    rw [drop_append_len _ _ 24 (by simp [hk, hmk])]
  simp only [d8, d24, take_append_len _ _ 16 hmk]
  rw [Ige.dec_enc _ _ (Ige.Inv.ofPrims P hP _) _ _ hiv hpl]
  have e1 : message ++ pad = rnd16 ++ (putU64 msgID ++ (putU32 0 ++ (putU32 40 ++ (inner.encode ++ pad)))) := by
    simp [message]
  rw [e1, getN_append _ _ 16 hr]
  simp only
  rw [getU64_putU64 _ _ hm]
  simp only
  rw [getU32_putU32 _ _ (by omega)]
  simp only
  rw [getU32_putU32 _ _ (by omega)]
  simp only
  rw [getN_append _ _ 40 (BindInner.encode_length _)]
  simp only
  have e2 : (rnd16 ++ (putU64 msgID ++ (putU32 0 ++ (putU32 40 ++ (inner.encode ++ pad))))).take (32 + 40)
      = message := by
    rw [← e1]; exact take_append_len _ _ _ hml
  rw [e2, parseInner_encode inner h1 h2 h3 h4 h5]
  simp [hpad, msgKey]

end TdModel.C06
